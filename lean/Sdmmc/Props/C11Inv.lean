/-
C11 (under the invariant) — what a call leaves when a block-device read or write fails during it, for EVERY call of
the API, from EVERY state satisfying the volume invariant `VolInv` (`Spec/Volume.lean`, `Props/C03Inv.lean`), under
EVERY fault schedule.

Property theorems only.  Vocabulary: `Spec/Volume.lean` (`VolInv`, `Ghost`, `dirSlots`, `entries`, `sName`, `CleanTail`,
`IsDot`, `dirIds`, `ValidDir`), `Spec/Chain.lean` (`Chain`), `Model/Mgr.lean` (`step`, `Op`), `Model/Dev.lean` (the
device: `faults` lists the indices — in `calls` numbering — of the device calls that fail; `failed` counts the
failures).  Proofs: `Lemmas/FaultPre*.lean` (a faulted run of a FAT-engine function is a truncated fault-free run:
`Pre`), `Lemmas/FaultInv*.lean`.

WHAT IS PROVED.

* `names_unique_after_fault` — `VolInv s0 gh`; the fault schedule is replaced by an ARBITRARY list `L`; `op` is any of
  the 24 calls (names starting with 0xE5 excluded for `openFile`/`delete`/`mkdir`, as in `Props/C03Inv.Covered`).  On
  the medium `step` leaves — whatever device call failed, and also if none did — every directory of the tree `gh.dirs`
  still has its cluster chain (`Chain`), a clean tail, PAIRWISE DISTINCT NAMES of its live short entries, and (a
  sub-directory) its two dot entries: `DirsSound`, for some record `G'` of chains.  `no_duplicate_names_after_fault`
  reads this off without the record.  In particular a failed `open_file_in_dir` (all create modes, with directory
  growth), `make_dir_in_dir` (including its clean-up after a failure, which is NOT a prefix of the fault-free run),
  `delete_file_in_dir`, `write`, `flush_file`, `close_file`,
  `close_volume` never leave a directory with two entries of the same name.
* `fault_reported_under_schedule` — the result is an error whenever a device call failed (`Props/C11.fault_reported`).
* `retry_after_fault_correct` — a read-only call (`read`, `find_directory_entry`, `iterate_dir`, `iterate_dir_lfn`,
  `open_dir`, and the calls that never touch the device) runs under ANY schedule and a device call of it fails; the
  SAME call issued again from the state the failed call left, with the fault gone, returns exactly what the call returns
  from `s0` without any fault.  The hypotheses `DirOn`, `FileOK`, `MgrOKF` of `Props/C11Retry.lean` are discharged
  from `VolInv`.  `nodev_calls_cannot_fail`: nine calls never touch the device.
  (With the repaired cache this no longer depends on the failed call being read-only: see THE CACHE below.)
  EXCLUDED: `get_root_volume_label` — it draws a handle id BEFORE it reads, so the retry opens the root directory
  under another id; `VolInv` does not say handle ids are fresh (that is `Props/C08.HInv`), and without freshness the
  retry can answer differently: evaluated counterexample `Example.label_retry_needs_fresh_ids`.

* `FaultInv s gh` (`faultInv_def`) — what survives a failed call: lock open, at most one volume open with the
  geometry of the ghost's record, the directories sound ON THE MEDIUM (`DirsSound`), every open directory handle
  designates a directory of the tree, THE CACHE COHERENT.  `faulted_step`: from `VolInv`, under any schedule, after any
  covered call, `FaultInv` holds (for a ghost with the same geometry).  NOT in `FaultInv`: the consistency of the open
  files with the medium — see below.
* `faulted_call_is_prefix` — all calls except `mkdir`, `read`, `write`, `open_volume`, `label`: the faulted call either
  hits no fault and IS the fault-free call (same answer, same writes, same state up to the schedule), or answers
  `DeviceError`, its device writes are a PREFIX of the fault-free call's, the medium is the old one with exactly these
  writes applied, and THE CACHE IS UNTAGGED.
* `others_intact_after_fault` (the prefix calls; under `VolInvM` = `VolInv` + identical FAT copies, as `Props/C04Hist`):
  the writes of the failed call are licensed by the licence `LicenceFor` describes for the FAULT-FREE call, so every
  object (slot, chain) that licence does not name (`NotNamed`) has the same slot bytes, the same chain and the same
  chain bytes on the medium the failed call leaves.  `others_intact_after_failed_write`: `write` (not a prefix call),
  from `Props/C11Retry.failed_write_keeps_others` with its hypotheses discharged: every chain of the volume other than
  the written file's, and every block of the FAT16 root directory.  `readonly_calls_write_nothing`: `read`, `label`,
  `open_volume` and the other read-only calls leave the medium alone.  NOT PROVED: the same for `make_dir_in_dir`
  (its clean-up is not a prefix; `names_unique_after_fault` covers its directories, not the other files' data).
* `handles_usable_after_fault_partial` — closing after a failed call, from ANY state (any cache, any schedule):
  `close_dir` answers `Ok`/`BadHandle`, touches no device and keeps `FaultInv`; `close_volume` and `close_file`
  answer `Ok` or an error — never a panic, never a hang — the latter provided no open file's record says "size ≠ 0,
  cluster = 0" (`FileSane`; true under `VolInv`: `fileSane_under_invariant`; excluded point evaluated:
  `Example.insane_record_panics`).
  FULL TARGET, NOT PROVED: after closing every handle, `close_volume` and a remount, the medium satisfies the crash
  invariant (`OwnsLoose` + `DirsSound`).  It needs two clauses `FaultInv` does not carry — which slot an open file's
  record points at, and that the written file's record is consistent with its (possibly extended) chain after a
  failed `write`.

THE CACHE (repaired defect).  `BlockCache::write_back` used to leave the modified block TAGGED when the device write
failed; calls issued afterwards then worked on a block that was not on the medium (the harness exhibited: a failed
`delete` followed by a create that took the stale 0xE5 slot → duplicate name and leaked chain; a `read` returning the
bytes of a failed write).  The crate now clears the tag on a failed device write and the model follows
(`Model/Dev.lean`).  Consequences proved here: after ANY call the cache is coherent (`FaultInv.coherent`, from
`Props/C11.cache_coherent_after_any_call`); after a call in which a device call failed the cache is UNTAGGED
(`faulted_call_is_prefix`); a lookup issued after a failed call therefore reads the MEDIUM: evaluated in
`Example.no_stale_cache_after_failed_create` (the create whose directory-block write failed; the following `find`
answers `NotFound`, as the medium says).
-/
import Sdmmc.Lemmas.FaultInvClose
import Sdmmc.Lemmas.FaultInvWrite2
import Sdmmc.Lemmas.VolExample
import Sdmmc.Props.C11
import Sdmmc.Props.C04Hist

namespace Sdmmc.Props.C11Inv
open Sdmmc.Model Sdmmc.Model.Fat Sdmmc.Spec.Volume
open Sdmmc.Spec hiding run step NoFault Coherent
open Sdmmc.Lemmas.VolMed (dirHead isFixedRoot)

/-! ### Vocabulary -/

/-- `s` with the fault schedule `L`: the device calls with index (in `calls` numbering) in `L` fail. -/
def withFaults (L : List Nat) (s : Mgr) : Mgr := { s with dev := { s.dev with faults := L } }

/-- The short form of the name does not start with byte 0xE5 (accepted deviation (a) of the crate, `Props/C03Inv`). -/
def NameOK (name : List Nat) : Prop := ∀ sfn, Sfn.createFromStr name = .ok sfn → sfn.head? ≠ some 0xE5

/-- The calls covered: every call, except names starting with 0xE5 in the three calls that create or remove an entry. -/
def NamesOK : Op → Prop
  | .openFile _ name _ => NameOK name
  | .delete _ name => NameOK name
  | .mkdir _ name => NameOK name
  | _ => True

/-- **The directories of the ghost `gh` are sound on the medium `d`.** -/
def DirsSound (v : FatVolume) (d : Disk) (gh : Ghost) : Prop := Lemmas.FaultInv.DirsInv v d gh

/-- `DirsSound`, spelled out: the geometry is well formed; every directory `h` of the tree (`0` = the root) other than
the FAT16 fixed root has its chain in the record `gh.G`, and that list is the cluster chain of its first cluster ON `d`;
the slot list of every directory — read off `d` along that chain — has no entry after the end-of-directory marker and
PAIRWISE DISTINCT names of its live short entries; a sub-directory `h` with parent `p` starts with `.` → `h`, `..` → `p`. -/
theorem dirsSound_def (v : FatVolume) (d : Disk) (gh : Ghost) :
    DirsSound v d gh ↔
      WFGeom v ∧
      (∀ h, h ∈ dirIds gh.dirs → ¬ isFixedRoot v h → chainOf gh.G (dirHead v h) ∈ gh.G) ∧
      (∀ h, h ∈ dirIds gh.dirs → ¬ isFixedRoot v h → Chain v d (dirHead v h) (chainOf gh.G (dirHead v h))) ∧
      (∀ h, h ∈ dirIds gh.dirs → CleanTail (dirSlots v d gh.G h)) ∧
      (∀ h, h ∈ dirIds gh.dirs → ((entries (dirSlots v d gh.G h)).map sName).Nodup) ∧
      (∀ h p, (h, p) ∈ gh.dirs → ∃ s0 s1 rest, dirSlots v d gh.G h = s0 :: s1 :: rest ∧
        IsDot v.fatType Sfn.thisDir h s0 ∧ IsDot v.fatType Sfn.parentDir p s1) :=
  ⟨fun h => ⟨h.geom, h.mem, h.chain, h.cleanTail, h.names, h.dots⟩, fun h => ⟨h.1, h.2.1, h.2.2.1, h.2.2.2.1, h.2.2.2.2.1, h.2.2.2.2.2⟩⟩

/-- The slots of directory `h` read off `d` along the cluster list `cs` (the FAT16 fixed root has no chain). -/
def slotsAlong (v : FatVolume) (d : Disk) (h : Nat) (cs : List Nat) : List Slot :=
  if isFixedRoot v h then fixedRootSlots v d else chainSlots v d cs

/-- The read-only calls the retry theorem covers: all of them except `get_root_volume_label`. -/
def retryOp : Op → Bool
  | .closeVolume _ | .openFile _ _ _ | .write _ _ | .flush _ | .closeFile _ | .delete _ _ | .mkdir _ _ | .label _ => false
  | _ => true

/-- The calls that never touch the device. -/
def noDevOp : Op → Bool
  | .openRoot _ | .closeDir _ | .seekStart _ _ | .seekCur _ _ | .seekEnd _ _ | .length _ | .offset _ | .eof _ | .hasOpen => true
  | _ => false

/-! ### 1. A failed call never makes a directory hold two entries with the same name -/

theorem namesOK_iff (op : Op) : NamesOK op ↔ Lemmas.FaultInv.NamesOK op := by cases op <;> exact Iff.rfl

/-- **After any call under any fault schedule the directories are sound** — for some record `G'` of chains (the chain
of a deleted file has left it, a grown directory's chain is longer, …); the tree `gh.dirs` is the one before the call
(on success of `make_dir_in_dir` the new directory is an entry of its parent and not yet a member of the tree spoken
about). -/
theorem names_unique_after_fault {s0 : Mgr} {gh : Ghost} (hI : VolInv s0 gh) (L : List Nat) (op : Op) (hc : NamesOK op) :
    ∃ G', DirsSound gh.vol (step (withFaults L s0) op).1.dev.disk { vol := gh.vol, G := G', dirs := gh.dirs } :=
  Lemmas.FaultInv.dirs_after_faulted_step hI L op ((namesOK_iff op).1 hc)

/-- The same without the record: on the medium the call leaves every directory `h` of the tree has a cluster list `cs`
that is the chain of its first cluster (nothing to ask of the FAT16 fixed root), and the slot list read along it has a
clean tail and pairwise distinct names. -/
theorem no_duplicate_names_after_fault {s0 : Mgr} {gh : Ghost} (hI : VolInv s0 gh) (L : List Nat) (op : Op) (hc : NamesOK op)
    (h : Nat) (hh : h ∈ dirIds gh.dirs) :
    ∃ cs, (¬ isFixedRoot gh.vol h → Chain gh.vol (step (withFaults L s0) op).1.dev.disk (dirHead gh.vol h) cs) ∧
      CleanTail (slotsAlong gh.vol (step (withFaults L s0) op).1.dev.disk h cs) ∧
      ((entries (slotsAlong gh.vol (step (withFaults L s0) op).1.dev.disk h cs)).map sName).Nodup := by
  obtain ⟨G', hD⟩ := names_unique_after_fault hI L op hc
  have hsl : dirSlots gh.vol (step (withFaults L s0) op).1.dev.disk G' h =
      slotsAlong gh.vol (step (withFaults L s0) op).1.dev.disk h (chainOf G' (dirHead gh.vol h)) := by
    unfold slotsAlong
    by_cases hf : isFixedRoot gh.vol h
    · rw [if_pos hf]
      obtain ⟨h0, h16⟩ := hf
      subst h0
      unfold dirSlots
      rw [if_pos rfl, h16]
    · rw [if_neg hf]
      unfold dirSlots dirHead
      by_cases h0 : h = 0
      · subst h0
        rw [if_pos rfl, if_pos rfl]
        cases hft : gh.vol.fatType with
        | fat16 => exact absurd ⟨rfl, hft⟩ hf
        | fat32 => rfl
      · rw [if_neg h0, if_neg h0]
  refine ⟨chainOf G' (dirHead gh.vol h), fun hf => hD.chain h hh hf, ?_, ?_⟩
  · rw [← hsl]; exact hD.cleanTail h hh
  · rw [← hsl]; exact hD.names h hh

/-! ### 2. The failure is reported -/

/-- Whenever a device call of the call failed, the call returns an error (`Props/C11.fault_reported`). -/
theorem fault_reported_under_schedule (s0 : Mgr) (L : List Nat) (op : Op)
    (h : (step (withFaults L s0) op).1.dev.failed ≠ s0.dev.failed) : ∃ e, (step (withFaults L s0) op).2.result = .err e :=
  C11.fault_reported (withFaults L s0) op h

/-! ### 3. The retry of a read-only call gives the fault-free answer -/

theorem retryOp_iff (op : Op) : retryOp op = Lemmas.FaultInv.retryOp op := by cases op <;> rfl
theorem noDevOp_iff (op : Op) : noDevOp op = Lemmas.FaultInv.noDevOp op := by cases op <;> rfl

/-- **The retry gives the correct answer.**  `s0` satisfies the invariant and a volume is open; the read-only call `op`
runs under ANY fault schedule `L` and a device call of it fails (so it returned an error:
`fault_reported_under_schedule`).  Then `op` issued again from the state the failed call left, with the fault gone,
returns exactly what `op` returns from `s0` without any fault. -/
theorem retry_after_fault_correct {s0 : Mgr} {gh : Ghost} (hI : VolInv s0 gh) (hvol : s0.vols ≠ []) (L : List Nat) (op : Op)
    (hop : retryOp op = true) (hfail : (step (withFaults L s0) op).1.dev.failed ≠ s0.dev.failed) :
    (step (withFaults [] (step (withFaults L s0) op).1) op).2.result = (step s0 op).2.result :=
  Lemmas.FaultInv.retry_step hI L op (by rw [← retryOp_iff]; exact hop) hvol hfail

/-- Nine calls never touch the device: no device call of them can fail, under any schedule, from any state. -/
theorem nodev_calls_cannot_fail (s : Mgr) (op : Op) (hop : noDevOp op = true) : (step s op).1.dev.failed = s.dev.failed := by
  by_cases hl : s.locked = true
  · unfold step; rw [if_pos hl]; split <;> rfl
  · have hl' : s.locked = false := by cases h : s.locked with | true => exact absurd h hl | false => rfl
    rw [Lemmas.MHoare.step_unlocked s op hl']
    show (runOp op (Lemmas.MHoare.resetLogs s)).2.dev.failed = s.dev.failed
    rw [Lemmas.FaultInv.runOp_nodev op (by rw [← noDevOp_iff]; exact hop)]
    rfl

/-! ### 4. What survives a failed call -/

/-- **What survives a failed call.** -/
def FaultInv (s : Mgr) (gh : Ghost) : Prop := Lemmas.FaultInv.FInv s gh

theorem faultInv_def (s : Mgr) (gh : Ghost) :
    FaultInv s gh ↔
      s.locked = false ∧ s.maxVols = 1 ∧
      (s.vols = [] ∨ ∃ vi, s.vols = [vi] ∧ SameGeom gh.vol vi.vol) ∧
      DirsSound gh.vol s.dev.disk gh ∧
      (∀ di, di ∈ s.dirs → ValidDir gh.dirs di.cluster) ∧
      (∀ i, s.cache.tag = some i → s.cache.blk = s.dev.disk.get i) :=
  ⟨fun h => ⟨h.unlocked, h.maxVols, h.vols, h.dirs, h.openDirs, h.coherent⟩,
   fun h => ⟨h.1, h.2.1, h.2.2.1, h.2.2.2.1, h.2.2.2.2.1, h.2.2.2.2.2⟩⟩

/-- The invariant implies it. -/
theorem faultInv_of_invariant {s : Mgr} {gh : Ghost} (hI : VolInv s gh) : FaultInv s gh := Lemmas.FaultInv.faultInv_of_volInv hI

/-- The calls covered: as `Props.C03Inv.Covered`. -/
def Covered (s : Mgr) : Op → Prop
  | .openVolume _ => s.vols ≠ []
  | .openDir _ name => NameOK name
  | .openFile _ name _ => NameOK name
  | .delete _ name => NameOK name
  | .mkdir _ name => NameOK name
  | _ => True

theorem covered_iff (s : Mgr) (op : Op) : Covered s op ↔ Lemmas.FaultInv.FCovered s op := by cases op <;> exact Iff.rfl

/-- **`faulted_step`.**  From the invariant, under ANY fault schedule, every covered call — all 24 operations,
whatever device call of it fails — reports the failure and leaves `FaultInv`. -/
theorem faulted_step {s0 : Mgr} {gh : Ghost} (hI : VolInv s0 gh) (L : List Nat) (op : Op) (hc : Covered s0 op) :
    ((step (withFaults L s0) op).1.dev.failed ≠ s0.dev.failed → ∃ e, (step (withFaults L s0) op).2.result = .err e) ∧
    ∃ gh', SameGeom gh.vol gh'.vol ∧ FaultInv (step (withFaults L s0) op).1 gh' :=
  ⟨fault_reported_under_schedule s0 L op, Lemmas.FaultInv.faulted_step hI L op ((covered_iff s0 op).1 hc)⟩

/-! ### 5. A faulted call is a truncated fault-free call; the cache is untagged after a failure -/

/-- The calls whose faulted run is a truncated fault-free run. -/
def prefixOp : Op → Bool
  | .mkdir _ _ | .read _ _ | .write _ _ | .openVolume _ | .label _ => false
  | _ => true

theorem prefixOp_iff (op : Op) : prefixOp op = Lemmas.FaultPre.prefixOp op := by cases op <;> rfl

/-- **A faulted call is a truncated fault-free call.**  `s0`: lock open, no fault scheduled (nothing else is asked of
it).  Under ANY schedule `L` a call of `prefixOp` either hits no fault — it then IS the fault-free call — or answers
`DeviceError`, has written a prefix of what the fault-free call writes, and leaves the cache UNTAGGED. -/
theorem faulted_call_is_prefix {s0 : Mgr} (hl : s0.locked = false) (hn : s0.dev.faults = []) (L : List Nat) (op : Op)
    (hop : prefixOp op = true) :
    ((step (withFaults L s0) op).1.dev.failed = s0.dev.failed ∧ (step (withFaults L s0) op).2 = (step s0 op).2 ∧
      withFaults [] (step (withFaults L s0) op).1 = (step s0 op).1) ∨
    ((step (withFaults L s0) op).1.dev.failed ≠ s0.dev.failed ∧ (step (withFaults L s0) op).2.result = .err .DeviceError ∧
      ∃ ws', (step s0 op).2.writes = (step (withFaults L s0) op).2.writes ++ ws' ∧
        (step (withFaults L s0) op).1.dev.disk = s0.dev.disk.applyWrites (step (withFaults L s0) op).2.writes ∧
        (step (withFaults L s0) op).1.cache.tag = none) :=
  Lemmas.FaultInv.step_faulted hl hn L op (by rw [← prefixOp_iff]; exact hop)

/-! ### 6. Files and directories not involved in the failed call are intact on the medium -/

open Sdmmc.Props.C04Hist (VolInvM)
open Sdmmc.Lemmas.WriteSetInv (LicenceFor NotNamed NameCovered)

/-- **`others_intact_after_fault`** (the prefix calls).  `Lic` is a licence of the FAULT-FREE call (`LicenceFor`, from
the state before the call: `Props/C04Hist`).  The writes of the call under ANY schedule are licensed by it, and every
object of the start medium — slot at byte `so` of block `sb`, chain `cs` from cluster `c` — that `Lic` does not name
has the same 32 slot bytes, the same chain and the same bytes along the chain on the medium the call leaves. -/
theorem others_intact_after_fault {s0 : Mgr} {gh : Ghost} (hI : VolInvM s0 gh) (L : List Nat) (op : Op)
    (hop : prefixOp op = true) (hc : NamesOK op) :
    ∃ Lic, LicenceFor gh s0.files s0.dirs s0.dev.disk op Lic ∧
      AllLicensed gh.vol s0.dev.disk Lic (step (withFaults L s0) op).2.writes ∧
      ∀ (sb so c : Nat) (cs : List Nat), Chain gh.vol s0.dev.disk c cs →
        (regionOf gh.vol sb = .root ∨ regionOf gh.vol sb = .data) → so % 32 = 0 → NotNamed gh.vol Lic sb so cs →
        slice ((step (withFaults L s0) op).1.dev.disk.get sb) so 32 = slice (s0.dev.disk.get sb) so 32 ∧
        Chain gh.vol (step (withFaults L s0) op).1.dev.disk c cs ∧
        chainBytes gh.vol (step (withFaults L s0) op).1.dev.disk cs = chainBytes gh.vol s0.dev.disk cs := by
  have hc' : NameCovered op := by cases op <;> exact hc
  have hop' : Lemmas.FaultPre.prefixOp op = true := by rw [← prefixOp_iff]; exact hop
  obtain ⟨Lic, hlic, hall, hdisk0⟩ := Lemmas.FaultInv.faulted_licensed hI.1 hI.2 L op hop' hc'
  have hall' : AllLicensed gh.vol s0.dev.disk Lic (step (withFaults L s0) op).2.writes := hall
  have hdisk : ∀ i, (step (withFaults L s0) op).1.dev.disk.get i =
      (s0.dev.disk.applyWrites (step (withFaults L s0) op).2.writes).get i := hdisk0
  refine ⟨Lic, hlic, hall', fun sb so c cs hch hsreg hso hnn => ?_⟩
  have hsp := Lemmas.WriteSetInv.spares_of_avoids hI.1.med.geom (Lemmas.ChainL.chain_inRange hch) hsreg hso
    (Lemmas.WriteSetInv.avoids_of (Lemmas.WriteSetInv.licenceFor_wf hI.1 hlic) hnn)
  obtain ⟨h1, h2, h3⟩ := Lemmas.FaultInv.spared_unchanged hI.1.med.blocksOK hall' sb so c cs hch hsp
  refine ⟨by rw [hdisk sb]; exact h1, ?_, ?_⟩
  · exact Lemmas.ForestBase.chain_transfer h2 rfl fun x _ => by
      refine Lemmas.ForestBase.nextOf_congr rfl ?_
      unfold fatRaw
      rw [hdisk]
  · rw [← h3]
    exact Lemmas.WriteRefines.chainBytes_congr gh.vol _ _ cs fun x _ j _ => hdisk _

/-- The chain of the file a `write` works on (`[]` if the handle does not resolve). -/
def ownChain (s : Mgr) (gh : Ghost) (h : Nat) : List Nat :=
  match s.files.find? (·.rawFile = h) with
  | some f => chainOf gh.G f.entry.cluster
  | none => []

/-- **`write` under any fault schedule**: every chain of the volume other than the written file's own — every other
file, every sub-directory — is still a chain holding the bytes it held, and every block of the FAT16 root directory is
as it was.  Whatever device call failed, and also if none did. -/
theorem others_intact_after_failed_write {s0 : Mgr} {gh : Ghost} (hI : VolInv s0 gh) (L : List Nat) (h : Nat) (data : Bytes) :
    (∀ X, X ∈ gh.G → X ≠ ownChain s0 gh h →
      Chain gh.vol (step (withFaults L s0) (.write h data)).1.dev.disk (X.headD 0) X ∧
      chainBytes gh.vol (step (withFaults L s0) (.write h data)).1.dev.disk X = chainBytes gh.vol s0.dev.disk X) ∧
    (∀ b, regionOf gh.vol b = .root → (step (withFaults L s0) (.write h data)).1.dev.disk.get b = s0.dev.disk.get b) := by
  have e : (step (withFaults L s0) (.write h data)).1 =
      (Model.write h data (withFaults L (Lemmas.MHoare.resetLogs s0))).2 := by
    rw [Lemmas.MHoare.step_unlocked (withFaults L s0) _ hI.unlocked]
    exact Lemmas.VolApi.seq_state (Model.write h data) Payload.unit _
  rw [e]
  exact Lemmas.FaultInv.write_others_intact (Lemmas.VolApi.volInv_resetLogs hI) L h data

/-- The read-only calls (`read`, `label`, `open_volume`, …) leave the medium alone, under any schedule, from any state. -/
theorem readonly_calls_write_nothing (s : Mgr) (op : Op) (h : Lemmas.Fault.readOnlyOp op = true) :
    (step s op).1.dev.disk = s.dev.disk ∧ (step s op).2.writes = [] :=
  Lemmas.Fault.step_readonly_nowrite s op h

/-! ### 7. Closing after a failed call -/

/-- The outcome is `Ok` or an error: neither a panic nor a hang. -/
def Clean {α} (r : Res α) : Prop := (∃ a, r = .ok a) ∨ ∃ e, r = .err e

/-- The record does not trip the crate's assertion `entry.cluster.0 != 0` in `flush_file`. -/
def FileSane (f : FileInfo) : Prop := f.entry.size ≠ 0 → f.entry.cluster ≠ 0

theorem fileSane_under_invariant {s : Mgr} {gh : Ghost} (hI : VolInv s gh) : ∀ x, x ∈ s.files → FileSane x :=
  Lemmas.FaultInv.fileSane_of_volInv hI

/-- **Closing never panics** (PARTIAL form of `handles_usable_after_fault`; the full target is in the header).  From
ANY state `s` — whatever a failed call left: any cache, any medium, any schedule:
* `close_dir` answers `Ok` or an error, touches no device, and keeps `FaultInv`;
* `close_volume` answers `Ok` or an error;
* `close_file` answers `Ok` or an error, provided the records of the open files are sane. -/
theorem handles_usable_after_fault_partial (s : Mgr) :
    (∀ d, Clean (closeDir d s).1 ∧ (closeDir d s).2.dev = s.dev ∧ ∀ gh, FaultInv s gh → FaultInv (closeDir d s).2 gh) ∧
    (∀ v, Clean (closeVolume v s).1) ∧
    ((∀ x, x ∈ s.files → FileSane x) → ∀ f, Clean (closeFile f s).1) :=
  ⟨fun d => ⟨(Lemmas.FaultInv.closeDir_clean d s).1, (Lemmas.FaultInv.closeDir_clean d s).2,
      fun _ h => Lemmas.FaultInv.closeDir_finv h d⟩,
   fun v => Lemmas.FaultInv.closeVolume_clean v s,
   fun hs f => Lemmas.FaultInv.closeFile_clean f s hs⟩

/-! ### Non-vacuity -/

namespace Example
open Sdmmc.Lemmas.VolExample

/-- `"N.TXT"`, a name not in the root directory of the example volume. -/
def nameN : List Nat := [78, 46, 84, 88, 84]
/-- `open_file_in_dir(root, "N.TXT", ReadWriteCreate)`: device call 0 reads the root block (the lookup), device call 1
writes it (the new entry). -/
def create : Op := .openFile 2 nameN .ReadWriteCreate
/-- `make_dir_in_dir(root, "D")`: 7 device calls — 0 read root, 1 read FAT, 2 / 3 write FAT copies 1 / 2, 4 write the
dot block (block 8), 5 read root, 6 write root. -/
def mkd : Op := .mkdir 2 [68]

def isDeviceError {α} : Res α → Bool
  | .err .DeviceError => true
  | _ => false

theorem inv1 : VolInv mgr1 gh1 := mgr1_inv

theorem create_ok : NamesOK create := by
  intro sfn h
  have : Sfn.createFromStr nameN = .ok [78, 32, 32, 32, 32, 32, 32, 32, 84, 88, 84] := by decide +kernel
  rw [this] at h; cases h; decide
theorem mkd_ok : NamesOK mkd := by
  intro sfn h
  have : Sfn.createFromStr [68] = .ok [68, 32, 32, 32, 32, 32, 32, 32, 32, 32, 32] := by decide +kernel
  rw [this] at h; cases h; decide

/-- Without a fault the create succeeds (2 device calls, one write). -/
theorem create_clean : (match (step mgr1 create).2.result with | .ok (.handle 10) => true | _ => false) = true ∧
    (step mgr1 create).1.dev.calls = 2 ∧ (step mgr1 create).2.writes.length = 1 := by decide +kernel

/-- **An evaluated faulted create**: the directory-block write (device call 1) fails.  The call answers `DeviceError`,
one device call failed, nothing reached the medium. -/
theorem faulted_create : isDeviceError (step (withFaults [1] mgr1) create).2.result = true ∧
    (step (withFaults [1] mgr1) create).1.dev.failed = 1 ∧ (step (withFaults [1] mgr1) create).2.writes = [] ∧
    (step (withFaults [1] mgr1) create).1.files = [] := by decide +kernel

/-- The theorems at this point: the directories are sound on the medium the failed create leaves. -/
theorem faulted_create_sound : ∃ G', DirsSound vol16 (step (withFaults [1] mgr1) create).1.dev.disk
    { vol := vol16, G := G', dirs := [(4, 0)] } := names_unique_after_fault inv1 [1] create create_ok

/-- … and for every fault position of the `mkdir` (7 device calls; positions 5 and 6 trigger the clean-up, which
writes the FAT again: 5 writes instead of a prefix of the 4 fault-free writes `[1, 2, 8, 3]`). -/
theorem faulted_mkdir_writes :
    (List.range 8).map (fun k => (isDeviceError (step (withFaults [k] mgr1) mkd).2.result,
      (step (withFaults [k] mgr1) mkd).2.writes.map (·.1))) =
    [(true, []), (true, []), (true, []), (true, [1]), (true, [1, 2]), (true, [1, 2, 8, 1, 2]), (true, [1, 2, 8, 1, 2]),
     (false, [1, 2, 8, 3])] := by decide +kernel

theorem faulted_mkdir_sound (k : Nat) : ∃ G', DirsSound vol16 (step (withFaults [k] mgr1) mkd).1.dev.disk
    { vol := vol16, G := G', dirs := [(4, 0)] } := names_unique_after_fault inv1 [k] mkd mkd_ok

/-- **No stale cache** (the repaired defect, evaluated).  After the failed create nothing is on the medium, the cache
has forgotten the root block (tag `none`), and a `find_directory_entry` for the name — issued next, fault gone — reads
the medium and answers `NotFound`, exactly as without the failed call.  (Before the repair the cache kept the root
block WITH the new entry, tagged, and this `find` answered `Ok`.) -/
theorem no_stale_cache_after_failed_create :
    (step (withFaults [1] mgr1) create).1.dev.disk.get 3 = mgr1.dev.disk.get 3 ∧
    (step (withFaults [1] mgr1) create).1.cache.tag = none ∧
    (match (step (withFaults [] (step (withFaults [1] mgr1) create).1) (.find 2 nameN)).2.result with
      | .err .NotFound => true | _ => false) = true ∧
    (match (step mgr1 (.find 2 nameN)).2.result with | .err .NotFound => true | _ => false) = true := by decide +kernel

/-- The retry theorem at a point: `find_directory_entry(root, "A.TXT")` whose only device call (the read of the root
block) fails answers `DeviceError`; issued again it answers what the fault-free call answers. -/
def findA : Op := .find 2 [65, 46, 84, 88, 84]
theorem faulted_find : isDeviceError (step (withFaults [0] mgr1) findA).2.result = true ∧
    (step (withFaults [0] mgr1) findA).1.dev.failed = 1 := by decide +kernel
theorem retried_find :
    (step (withFaults [] (step (withFaults [0] mgr1) findA).1) findA).2.result = (step mgr1 findA).2.result :=
  retry_after_fault_correct inv1 (by decide) [0] findA rfl (by decide +kernel)
theorem retried_find_value :
    (match (step mgr1 findA).2.result with | .ok (.entry e) => e.size == 700 && e.cluster == 2 | _ => false) = true := by
  decide +kernel

/-- **Excluded point of the retry theorem** (`get_root_volume_label`).  A state satisfying `VolInv` in which an open
directory handle on `SUB` carries the id the NEXT BUT ONE `generate` will return (impossible under the handle
invariant `Props/C08.HInv`, not excluded by `VolInv`).  The label call whose read fails draws id 10 and closes it
again; the retry draws id 11, finds the handle on `SUB` under that id first, lists `SUB` and answers "no label" —
the fault-free call answers the label. -/
def mgrL : Mgr :=
  { mgr1 with dirs := [{ rawDirectory := 2, rawVolume := 1, cluster := Gen.CLUSTER_ROOT_DIR }, { rawDirectory := 11, rawVolume := 1, cluster := 4 }] }
theorem mgrL_inv : VolInv mgrL gh1 := Lemmas.VolCheck.checkVolInv_sound mgrL gh1 (by decide +kernel)
theorem label_retry_needs_fresh_ids :
    isDeviceError (step (withFaults [0] mgrL) (.label 1)).2.result = true ∧
    (match (step mgrL (.label 1)).2.result with | .ok (.label (some n)) => n == nLabel | _ => false) = true ∧
    (match (step (withFaults [] (step (withFaults [0] mgrL) (.label 1)).1) (.label 1)).2.result with
      | .ok (.label none) => true | _ => false) = true := by decide +kernel

/-- `faulted_step` at the evaluated faulted create. -/
theorem faulted_create_inv : ∃ gh', SameGeom vol16 gh'.vol ∧ FaultInv (step (withFaults [1] mgr1) create).1 gh' :=
  (faulted_step inv1 [1] create create_ok).2

/-- `delete_file_in_dir(root, "A.TXT")` (chain 2 → 3): 9 device calls, 7 writes — root block (the deleted mark), then
the FAT copies three times.  Every fault position: the writes are a prefix of the fault-free writes. -/
def del : Op := .delete 2 [65, 46, 84, 88, 84]
theorem faulted_delete_writes :
    (List.range 10).map (fun k => (isDeviceError (step (withFaults [k] mgr1) del).2.result,
      (step (withFaults [k] mgr1) del).2.writes.map (·.1))) =
    [(true, []), (true, []), (true, [3]), (true, [3]), (true, [3, 1]), (true, [3, 1, 2]), (true, [3, 1, 2, 1]),
     (true, [3, 1, 2, 1, 2]), (true, [3, 1, 2, 1, 2, 1]), (false, [3, 1, 2, 1, 2, 1, 2])] := by decide +kernel

theorem del_ok : NamesOK del := by
  intro sfn h
  have : Sfn.createFromStr [65, 46, 84, 88, 84] = .ok [65, 32, 32, 32, 32, 32, 32, 32, 84, 88, 84] := by decide +kernel
  rw [this] at h; cases h; decide

/-- `others_intact_after_fault` at the faulted delete, every fault position (the example volume has identical FAT
copies): the writes are licensed by a licence of the fault-free delete. -/
theorem faulted_delete_licensed (k : Nat) : ∃ Lic, LicenceFor gh1 mgr1.files mgr1.dirs mgr1.dev.disk del Lic ∧
    AllLicensed vol16 mgr1.dev.disk Lic (step (withFaults [k] mgr1) del).2.writes := by
  obtain ⟨Lic, h1, h2, _⟩ := others_intact_after_fault C04Hist.Example.inv1 [k] del rfl del_ok
  exact ⟨Lic, h1, h2⟩

/-- **Excluded point of `close_file`**: a dirty record with size 5 and no cluster trips the crate's assertion. -/
def insane : FileInfo :=
  { rawFile := 4, rawVolume := 1, curClusterOff := 0, curCluster := 0, currentOffset := 0, mode := .ReadWriteAppend,
    entry := { name := nE, mtime := default, ctime := default, attributes := 0x20, cluster := 0, size := 5,
               entryBlock := 6, entryOffset := 96 },
    dirty := true }
theorem insane_record_panics :
    (match (closeFile 4 { mgr1 with files := [insane] }).1 with | .panic _ => true | _ => false) = true := by decide +kernel

/-- The name condition of the theorems above (`NamesOK`) is no restriction: since the crate stores a name starting with
0xE5 with 0x05 in its first byte, the short form of EVERY name starts with something else (`Props.C03All.name_ok_all`). -/
theorem e5_covered : Sfn.createFromStr [0xE5, 76, 68, 46, 84, 88, 84] = .ok [0x05, 76, 68, 32, 32, 32, 32, 32, 84, 88, 84] := by
  decide +kernel

end Example

end Sdmmc.Props.C11Inv
