/-
INDEX — the file to open first.

For each of the 19 properties of `properties.jsonl`: its title, one sentence, and the CURRENT headline theorem under the name
`Cnn_headline` (an alias: the type is that of the theorem named on the right; open that file for the statement, which quotes
the property verbatim, explains how to read it, lists the standing hypotheses and — if the name ends in `_partial` — says
clause by clause what is missing).  `FULL` / `PARTIAL` below repeats that verdict with the gap in one line.

The last section lists, per Rust source file, the theorems that tie the MODEL's functions to the functions MACHINE-TRANSLATED
from the source text (`Sdmmc/Gen/*.lean`): which Rust functions are tied by proof, and where.

Nothing is proved here; every name refers to an existing theorem (the file builds in seconds and breaks if one disappears).
-/
import Sdmmc.Props.C01Main
import Sdmmc.Props.C02Main2
import Sdmmc.Props.C03Main
import Sdmmc.Props.C04Main
import Sdmmc.Props.C05Main
import Sdmmc.Props.C06Main
import Sdmmc.Props.C07Main
import Sdmmc.Props.C07Main2
import Sdmmc.Props.C08Main
import Sdmmc.Props.C09Main2
import Sdmmc.Props.C10Main2
import Sdmmc.Props.C11Main2
import Sdmmc.Props.C12Main2
import Sdmmc.Props.C13Main
import Sdmmc.Props.C14Main
import Sdmmc.Props.C15Main
import Sdmmc.Props.C16Main2
import Sdmmc.Props.C17Main
import Sdmmc.Props.C18Main
import Sdmmc.Props.C19Main
import Sdmmc.Props.C01GenFind
import Sdmmc.Props.C01GenIo
import Sdmmc.Props.C01GenM
import Sdmmc.Props.C01GenRead
import Sdmmc.Props.C01GenWrite
import Sdmmc.Props.C02GenM
import Sdmmc.Props.C03GenM
import Sdmmc.Props.C04Gen
import Sdmmc.Props.C04GenM
import Sdmmc.Props.C05GenM
import Sdmmc.Props.C06Gen
import Sdmmc.Props.C06GenIter
import Sdmmc.Props.C06GenM
import Sdmmc.Props.C07GenM
import Sdmmc.Props.C08GenM
import Sdmmc.Props.C08GenWrap
import Sdmmc.Props.C09GenM
import Sdmmc.Props.C11GenM
import Sdmmc.Props.C12Gen
import Sdmmc.Props.C12GenM
import Sdmmc.Props.C13GenM
import Sdmmc.Props.C14Gen
import Sdmmc.Props.C14GenM
import Sdmmc.Props.C15Gen
import Sdmmc.Props.C15GenLayout
import Sdmmc.Props.C15GenM
import Sdmmc.Props.C16GenM
import Sdmmc.Props.C17GenM
import Sdmmc.Props.C18Gen
import Sdmmc.Props.C18GenEnt
import Sdmmc.Props.C18GenM
import Sdmmc.Props.C19Gen
import Sdmmc.Props.C17GenLfn
import Sdmmc.Props.C06GenMgr
import Sdmmc.Props.C03GenMgr
import Sdmmc.Props.C15GenM2
import Sdmmc.Props.C15GenVol

namespace Sdmmc.Props.Index

/-! ## The file system (FAT16 / FAT32 on a block device) -/

/-- **C01 — File reads return exactly the bytes written, at every offset, in every history.**  Every history of calls on
any number of open files and volumes is a run of a plain byte-array model with the same answers; `read`, `file_length`,
`file_offset`, `file_eof` answer the model's values; a `write` changes no other file.
FULL (`Props/C01Main.lean`). -/
theorem C01_headline : type_of% @C01Main.C01_main := @C01Main.C01_main

/-- **C02 — After flush/close the medium holds the files, readable by any FAT reader.**  At every point of every history on
any number of volumes at which a volume has no open file, a fresh mount of the raw medium — by this library and by the
independent reader `Spec.Fs` — shows that volume's tree exactly as the byte-array model has it (names, attributes, times,
lengths, contents); volumes the history did not work on are unchanged.
PARTIAL (`Props/C02Main2.lean`): the clauses about creation / modification TIMES over histories and per-slot "untouched"
within a volume are proved for ONE open volume only (`Props/C02Main.lean`: histories with a moving clock); a remount while a
flushed file of that volume is still open is covered by C09. -/
theorem C02_headline : type_of% @C02Main2.C02_main2_partial := @C02Main2.C02_main2_partial

/-- **C03 — The volume stays a well-formed FAT file system after every operation.**  After every call of every history
(failing calls included), for every open volume: chains sound, acyclic, terminated, unshared, long enough; unique names;
correct dot entries; nothing after the end marker; the independent checker `fsck` finds nothing.
FULL (`Props/C03Main.lean`). -/
theorem C03_headline : type_of% @C03Main.C03_main := @C03Main.C03_main

/-- **C04 — Every device write stays inside the volume and inside what the call may change.**  Every block write of every
call of every multi-volume history lies in the partition and proper region of the volume worked on, never touches the MBR,
a boot sector, another open partition or the tail; every write is licensed by a licence read off the state before the call,
and every byte the licence does not cover is unchanged.
FULL (`Props/C04Main.lean`). -/
theorem C04_headline : type_of% @C04Main.C04_main := @C04Main.C04_main

/-- **C05 — Space is neither leaked nor invented: capacity is fully usable and reclaimable.**  With no file open the
clusters in use are exactly those of the live chains; delete / truncate give clusters back; a write answers `Ok` iff the
data fit the free clusters and an out-of-space error otherwise, storing exactly what fits; fill / delete cycles repeat for
ever; the translated free-cluster search is sound and complete.
FULL (`Props/C05Main.lean`). -/
theorem C05_headline : type_of% @C05Main.C05_main := @C05Main.C05_main

/-- **C06 — Directory listing and lookup report exactly the live entries.**  Listing returns the live short entries in
on-disk order with the decoded fields; lookup finds exactly the first listed entry with the name.
PARTIAL (`Props/C06Main.lean`): three known findings (the crate's long-name test `attr & 0x0F`, raw lookup comparing deleted
slots, raw lookup not stopping at an end marker of an earlier block — the last two unreachable under C03's invariant), and
the start cluster is reported at the raw layer only. -/
theorem C06_headline : type_of% @C06Main.C06_main_partial := @C06Main.C06_main_partial

/-- **C07 — Open modes, read-only protection and file/directory typing behave as documented.**  The decision table of all
six modes × {missing, file, read-only file, directory, already open}; refused calls change nothing on the medium.
FULL (`Props/C07Main.lean`). -/
theorem C07_headline : type_of% @C07Main.C07_main := @C07Main.C07_main
/-- C07, on reachable states: the decision table with the lookup outcome discharged from C03's invariant. -/
theorem C07_headline2 : type_of% @C07Main2.C07_main2 := @C07Main2.C07_main2

/-- **C08 — Handles, open-object limits and the re-entrancy lock are enforced exactly.**  Fresh handles are distinct from
the open ones, stale handles are refused without effect, the three limits hold and the matching too-many error is given,
closing frees a slot, the lock error changes nothing — after every call of every history.
PARTIAL (`Props/C08Main.lean`): `open_root_dir` does NOT validate its volume handle (known finding, evaluated); a stale
handle may be refused with a too-many / still-in-use error checked first; no wrap of the 32-bit handle generator.
(`C08Main.C08_main_source`: the source tie.) -/
theorem C08_headline : type_of% @C08Main.C08_main_partial := @C08Main.C08_main_partial

/-- **C09 — Flushed data survives power loss at any later moment.**  After a successful `close_file` / `flush_file`, at every
later block write of every later call on any of the open volumes — until the file itself is modified, truncated or deleted
— the crashed medium mounts and any fresh manager reads exactly the flushed length and contents.
PARTIAL (`Props/C09Main2.lean`): the file is followed while its volume stays open; `flush_file` of a written-to handle that
owns no cluster (first write failed for lack of space) is excluded; no purely syntactic criterion for the flush case. -/
theorem C09_headline : type_of% @C09Main2.C09_main2_partial := @C09Main2.C09_main2_partial

/-- **C10 — Power loss at any block write leaves at worst lost clusters, never corruption.**  At every prefix of the block
writes of every call of every history the medium mounts and is structurally sound up to lost clusters and stale sizes; a new
directory cluster is blank before it is linked; the medium can be mounted and used again after the crash.
FULL for the sentence (`Props/C10Main2.lean`; several open volumes: its clause IV / `Props/C10Multi.lean`). -/
theorem C10_headline : type_of% @C10Main2.C10_main := @C10Main2.C10_main

/-- **C11 — A block-device error is always reported, never swallowed, never wedges the API.**  A call during which a device
call failed answers an error (never `Ok`, a panic or a hang); handles stay usable and closable; read-only calls retried
after a transient fault answer correctly; no failed call duplicates a name; uninvolved files (and other volumes) are intact.
PARTIAL (`Props/C11Main2.lean`): clause by clause there — in short, histories continuing after certain failed calls on a
file the failure damaged, and `get_root_volume_label`'s retry, are not covered.
DELIVERED AFTER THE HEADLINE (they close items of its gap list; read them next to it): `Props/C11Mount.lean` — the mount
under a fault schedule, histories that mount, unmount and mount again (`mount_under_faults`,
`history_under_faults_with_mounts_partial`); `Props/C11MultiHist.lean` — histories under faults with SEVERAL open volumes
(`history_under_faults_multi_partial`, `fault_on_one_volume_history_partial`; one call: `Props/C11Multi.lean`);
`Props/C11HistW.lean` — the excluded call itself: the excursion through a DAMAGED file restores the invariant
(`excursion_restores_invariant`, `history_with_excursion_W_partial`). -/
theorem C11_headline : type_of% @C11Main2.C11_main2_partial := @C11Main2.C11_main2_partial

/-! ## The SD-card driver (SPI mode) -/

/-- **C12 — The SD driver reads and writes exactly the addressed blocks on every card type.**  Against a specification-level
card (v1 / v2 standard capacity, high capacity; CRC on or off; arbitrary memory; sessions with `mark_card_uninit`): reads
return the stored blocks, writes store exactly the given bytes there and nowhere else, multi-block = single blocks in order,
capacity and card kind are reported from the CSD.
FULL (`Props/C12Main2.lean`), up to the reading (b) stated there. -/
theorem C12_headline : type_of% @C12Main2.C12_main := @C12Main2.C12_main

/-- **C13 — SD transfers never return corrupted data as good and never hang.**  On ANY bus: with CRC on a read succeeds
only with a matching CRC-16; a refused data block, a failed status, an unexpected token, a bus error give an error; every
call ends within a fixed bound on SPI traffic; a failed initialisation leaves the card uninitialised and it can recover.
FULL (`Props/C13Main.lean`), with the readings stated there. -/
theorem C13_headline : type_of% @C13Main.C13_main := @C13Main.C13_main

/-- **C14 — Everything the SD driver puts on the bus is a legal SPI-mode conversation.**  On ANY bus, for any sequence of
calls: six-byte frames with the right bits and CRC-7, never while busy, ACMD after CMD55, data commands only after a
completed identification in the prescribed order, data blocks with token / 512 bytes / CRC, stop-transmission / stop token.
FULL (`Props/C14Main.lean`; `C14Main.C14_main_fresh`: from an uninitialised driver). -/
theorem C14_headline : type_of% @C14Main.C14_main := @C14Main.C14_main

/-! ## Mounting, the free-space record, codecs -/

/-- **C15 — Mounting locates every valid FAT16/32 layout and rejects bad ones without panic.**  On a medium with well-formed
tables `open_volume` computes the layout the specification prescribes and writes nothing; a formatted volume's files are
found and read; mounting arbitrary bytes answers `Ok` or an error, never a panic.
FULL (`Props/C15Main.lean`; `C15Main.C15_main_source`: the source tie). -/
theorem C15_headline : type_of% @C15Main.C15_main := @C15Main.C15_main

/-- **C16 — Both FAT copies stay identical and the FAT32 free-space record stays truthful.**  After every call of every
multi-volume history the FAT copies agree and every known free count is off by the same offset as at mount; flush / close
store the record; a close + remount reads it back; unknown stays unknown; no record makes a call panic, and allocation
succeeds iff the FAT has a free cluster.
PARTIAL (`Props/C16Main2.lean`): two clauses of the sentence are FALSE of the crate (known findings, evaluated): the `u32`
count saturates outside `DeltaOK`, and an out-of-range next-free hint is written back unchanged; "same answers for every
record over whole histories" is proved for `write` and the allocator only. -/
theorem C16_headline : type_of% @C16Main2.C16_main_partial := @C16Main2.C16_main_partial

/-- **C17 — Long-file-name decoding is total, yields valid UTF-8 and the right name.**  `LfnBuffer` never panics, returns
valid UTF-8, and (checksums and sequence numbers in order) the name the fragments spell.
PARTIAL (`Props/C17Main.lean`): FALSE for a name whose FIRST code unit is an unpaired surrogate (known finding: it is
carried and never emitted). -/
theorem C17_headline : type_of% @C17Main.C17_main_partial := @C17Main.C17_main_partial

/-- **C18 — Directory-entry, timestamp and 8.3-name codecs round-trip and match FAT layout.**  Entry encode / decode, the
FAT offsets, FAT date/time both ways up to the two-second rounding, 8.3 parsing accepts exactly the valid names and
print-then-parse is the identity.
FULL (`Props/C18Main.lean`), with the one exception stated there. -/
theorem C18_headline : type_of% @C18Main.C18_main := @C18Main.C18_main

/-- **C19 — CRC-7 and CRC-16 equal the SD specification's polynomials for every message.**  Both checksums are the
polynomial remainders; appending the CRC-16 gives checksum zero; every single-bit, double-bit and burst error of up to 16
bits in a 512-byte block changes the CRC-16.
FULL (`Props/C19Main.lean`). -/
theorem C19_headline : type_of% @C19Main.C19_main := @C19Main.C19_main

/-! ## Which Rust functions are tied to the model by proof

`Sdmmc/Gen/Funs.lean` (pure functions), `Gen/FunsM.lean`, `FunsDir.lean`, `FunsEnt.lean`, `FunsInfo.lean` (FAT level),
`Gen/FunsMgr.lean`, `FunsMgr2.lean` (`VolumeManager`), `Gen/FunsWrap.lean` (RAII wrappers), `Gen/FunsName.lean`,
`Gen/FunsSd.lean` are REGENERATED FROM THE CRATE'S SOURCE TEXT on every run (`tools/extract.py`; not committed); the
theorems below say that a translated function equals the function of the hand-written model (`Sdmmc/Model`) the properties
are proved about — `_eq`: equal as functions (for loops: given enough fuel); `_eq_partial`: equal under the hypothesis
stated at the theorem (typically: the walk does not run out of fuel / the directory chain is sound).  One line per Props
module: the Rust items, then the headline equalities (each module has more; open it). -/

section Ties

/-! ### sdcard/proto.rs -/
-- `crc7`, `crc16`
example := @C19Gen.crc7_eq
example := @C19Gen.crc16_eq
-- the CSD accessors (`define_field!` rows), `card_capacity_bytes`, `card_capacity_blocks`, block start index
example := @C12Gen.v1_capacity_bytes_eq
example := @C12Gen.v1_capacity_blocks_eq
example := @C12Gen.v2_capacity_bytes_eq
example := @C12Gen.v2_capacity_blocks_eq
example := @C12Gen.read_start_idx_eq

/-! ### sdcard/mod.rs -/
-- `card_command`: the six bytes; the whole function with its busy guard and response loop; `card_acmd`; the steps of `acquire`
example := @C14Gen.card_command_buf_eq
example := @C14GenM.card_command_eq
example := @C14GenM.card_acmd_eq
example := @C14GenM.acquire_closure_eq
-- `Delay`, `read_byte` / `write_byte` / `transfer_bytes`, `wait_not_busy`, `read_data`, `write_data`, `acquire`, `check_init`,
-- `mark_card_uninit`
example := @C13GenM.wait_not_busy_eq
example := @C13GenM.read_data_eq
example := @C13GenM.write_data_eq
example := @C13GenM.acquire_eq
example := @C13GenM.check_init_eq
example := @C13GenM.mark_card_uninit_eq
-- `SdCardInner::read`, `write`, `read_csd`, `num_blocks`, `num_bytes`
example := @C12GenM.read_eq
example := @C12GenM.write_eq
example := @C12GenM.read_csd_eq
example := @C12GenM.num_blocks_eq
example := @C12GenM.num_bytes_eq

/-! ### blockdevice.rs -/
-- `BlockCache::{read, read_mut, write_back, write_back_with_duplicate, blank_mut}` (failing paths included)
example := @C11GenM.read_eq
example := @C11GenM.read_mut_eq
example := @C11GenM.write_back_eq
example := @C11GenM.write_back_with_duplicate_eq
example := @C11GenM.blank_mut_eq

/-! ### fat/bpb.rs, fat/info.rs, and `parse_volume` of fat/volume.rs -/
-- the `Bpb` accessors, `Bpb::create_from_bytes`, the layout arithmetic of `parse_volume`
example := @C15Gen.create_from_bytes_eq
example := @C15Gen.fat_size_eq
example := @C15Gen.total_clusters_eq
example := @C15Gen.fat32_first_data_block_eq
example := @C15GenLayout.parse_volume_layout
example := @C15GenLayout.fat_type_boundaries
-- fat/info.rs: `InfoSector::create_from_bytes`, `free_clusters_count`, `next_free_cluster`; the second half of `parse_volume`
example := @C15GenM2.info_parse_eq
example := @C15GenM2.free_count_eq
example := @C15GenM2.next_free_eq
example := @C15GenM2.parse_volume_info_binding
example := @C15GenVol.parse_volume_eq
example := @C15GenVol.parseVolume_binding

/-! ### fat/ondiskdirentry.rs -/
-- `OnDiskDirEntry::{is_end, is_valid, is_lfn, matches, lfn_contents}`
example := @C06Gen.is_end_eq
example := @C06Gen.is_valid_eq
example := @C06Gen.is_lfn_eq
example := @C06Gen.matches_eq
example := @C06Gen.lfn_contents_eq
-- `OnDiskDirEntry::get_entry`, `first_cluster_fat32`; `DirEntry::serialize`, `DirEntry::new` (filesystem/directory.rs)
example := @C18GenEnt.get_entry_eq
example := @C18GenEnt.serialize_eq
example := @C18GenEnt.new_eq

/-! ### fat/volume.rs -/
-- `cluster_to_block`, the FAT-entry addressing and encoding (pure part)
example := @C04Gen.cluster_to_block_eq
example := @C04Gen.update_fat_addressing
example := @C04Gen.next_cluster_entry_eq
-- `cluster_to_block`, `next_cluster`, `update_fat` (both copies), `update_info_sector` (effectful, whole functions)
example := @C04GenM.cluster_to_block_eq
example := @C04GenM.next_cluster_eq
example := @C04GenM.update_fat_eq
example := @C04GenM.update_info_sector_eq
-- `find_next_free_cluster`
example := @C05GenM.find_next_free_cluster_eq
-- `truncate_cluster_chain`, `free_cluster_chain`, `alloc_cluster`
example := @C16GenM.truncate_cluster_chain_eq
example := @C16GenM.free_cluster_chain_eq
example := @C16GenM.alloc_cluster_eq
-- `write_entry_to_disk`, `delete_entry_in_block`, `delete_directory_entry`
example := @C03GenM.write_entry_to_disk_eq
example := @C03GenM.delete_entry_in_block_eq
example := @C03GenM.delete_directory_entry_eq_partial
-- `find_entry_in_block`, `find_directory_entry`
example := @C06GenM.find_entry_in_block_eq
example := @C06GenM.find_directory_entry_eq_partial
-- `iterate_fat16`, `iterate_fat32`, `iterate_dir`
example := @C06GenIter.iterate_fat16_eq_partial
example := @C06GenIter.iterate_fat32_eq_partial
example := @C06GenIter.iterate_dir_eq_partial
-- the local `SeqState::update` and `iterate_dir_lfn`
example := @C17GenLfn.seq_update_eq
example := @C17GenLfn.fold_eq
example := @C17GenLfn.iterate_dir_lfn_eq_partial
-- `write_new_directory_entry`, `make_dir`
example := @C09GenM.write_new_directory_entry_eq_partial
example := @C09GenM.make_dir_eq_partial

/-! ### filesystem/filename.rs, filesystem/timestamp.rs -/
-- `LfnBuffer::{new, clear, push, as_str}`
example := @C17GenM.new_eq
example := @C17GenM.clear_eq
example := @C17GenM.push_eq
example := @C17GenM.as_str_eq
-- `ShortFileName::{create_from_str, create_from_str_mixed_case → create_from_string, base_name, extension, Display}`
example := @C18GenM.create_from_str_eq
example := @C18GenM.create_from_string_eq
example := @C18GenM.create_from_str_no_panic
example := @C18GenM.base_name_eq
example := @C18GenM.extension_eq
example := @C18GenM.display_eq
-- `Timestamp::from_fat`, `serialize_to_fat`; `ShortFileName::csum`
example := @C18Gen.from_fat_eq
example := @C18Gen.serialize_to_fat_eq
example := @C18Gen.csum_eq

/-! ### filesystem/files.rs, filesystem/directory.rs, lib.rs (records and RAII wrappers) -/
-- `FileInfo::{eof, length, seek_from_start, seek_from_end, seek_from_current, update_length}`
example := @C01GenM.eof_eq
example := @C01GenM.length_eq
example := @C01GenM.seek_from_start_eq
example := @C01GenM.seek_from_end_eq
example := @C01GenM.seek_from_current_eq
-- the `File` wrapper: inherent methods and `impl embedded_io::{Read, Write, Seek}`, `ErrorKind` mapping
example := @C01GenIo.read_eq
example := @C01GenIo.write_eq
example := @C01GenIo.io_read_eq
example := @C01GenIo.io_write_eq
example := @C01GenIo.io_flush_eq
example := @C01GenIo.io_seek_eq
example := @C01GenIo.kind_of_wrapper_errors
-- `File` / `Directory` / `Volume`: `close`, `Drop`, `change_dir`, the pass-through methods
example := @C08GenWrap.file_close_eq
example := @C08GenWrap.dir_close_eq
example := @C08GenWrap.volume_close_eq
example := @C08GenWrap.drop_is_close_swallowed
example := @C08GenWrap.change_dir_eq
example := @C08GenWrap.find_directory_entry_eq
example := @C08GenWrap.make_dir_in_dir_eq
example := @C08GenWrap.pass_through

/-! ### volume_mgr.rs -/
-- the handle generator, `get_volume_by_id` / `get_dir_by_id` / `get_file_by_id`, `file_is_open`, `has_open_handles`,
-- `open_root_dir`, `close_dir`, `close_volume`
example := @C08GenM.generate_eq
example := @C08GenM.get_file_by_id_eq
example := @C08GenM.has_open_handles_eq
example := @C08GenM.open_root_dir_eq
example := @C08GenM.close_dir_eq
example := @C08GenM.close_volume_eq
-- `open_raw_volume` (table guards, partition table, `parse_volume`)
example := @C15GenM.open_raw_volume_eq
-- `solve_mode_variant`, the `Attributes` predicates, `open_dir`, `open_file_in_dir`, `delete_file_in_dir`
example := @C07GenM.solve_mode_variant_eq
example := @C07GenM.open_dir_eq
example := @C07GenM.open_file_in_dir_eq
example := @C07GenM.delete_file_in_dir_eq
-- `file_eof`, `file_length`, `file_offset`, `file_seek_from_start / current / end`
example := @C01GenM.file_eof_eq
example := @C01GenM.file_length_eq
example := @C01GenM.file_offset_eq
example := @C01GenM.file_seek_from_start_eq
example := @C01GenM.file_seek_from_current_eq
example := @C01GenM.file_seek_from_end_eq
-- `find_data_on_disk`, `read`, `write`
example := @C01GenFind.find_data_on_disk_eq
example := @C01GenRead.read_eq
example := @C01GenWrite.write_eq
-- `flush_file`, `close_file`
example := @C02GenM.flush_file_eq
example := @C02GenM.close_file_eq
-- `find_directory_entry`, `iterate_dir`, `iterate_dir_lfn`, `get_root_volume_label` (with the `Directory` wrapper it opens,
-- lists and drops)
example := @C06GenMgr.find_directory_entry_eq
example := @C06GenMgr.iterate_dir_eq
example := @C06GenMgr.iterate_dir_lfn_eq
example := @C06GenMgr.get_root_volume_label_eq
example := @C06GenMgr.directory_wrapper
-- `make_dir_in_dir`
example := @C03GenMgr.make_dir_in_dir_eq

end Ties

end Sdmmc.Props.Index
