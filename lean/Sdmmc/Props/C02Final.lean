/-
C02, the closed statement over concrete histories.

"Once a file has been flushed or closed, a completely fresh mount of the raw block device shows that file under its
name with exactly the flushed length and contents, the directory / file attribute, a creation time that never
changes after creation and a modification time equal to the clock value at the last write."

`c02_final`: ONE theorem.  From a state with the crash invariant `VolInvC` (`Props.C10Inv`: `VolInv`, identical FAT
copies, the raw-slot clause), an abstract counterpart and no open file, on a medium that mounts; for EVERY history
of calls and clock movements without `open_volume`, at EVERY prefix `k` after which no file is open:

* the state has the invariant and a well-formed abstract counterpart `a`, reached from the start by the abstract
  history with the same answers (`Props.C02Fs.history_ghost`), and the ghost of every slot — creation time, name,
  attribute byte, clock of the last write / truncation / creation, "stored since" — is true of `a` (`GInv`);
* the medium STILL MOUNTS (partition `idx`) to a record with the geometry of the volume — the hypothesis of
  `Props.C02Fs.remount_same_tree` / `fresh_mount_shows_flushed`, discharged here from `VolInvC` along the history
  (`Lemmas.VolCrash.step_mounts_after`, as in `Props.C10Inv.history_mounts`);
* `FreshShows`: every fresh manager on that medium, for every file of `a` reached by a path of directory names,
  answers `open_volume`, `open_root_dir`, `open_dir`…, `open_file_in_dir … ReadOnly`, `file_length`, `read n`,
  `iterate_dir` with the handles in order, the stored size, the first `n` bytes and a listing showing the stored
  entry — name, attribute byte, creation and modification time, size;
* `IndependentShows`: the independent reader `Spec.Fs` finds, for every file slot of `a`, the entry at the same index
  with the same name, attribute byte and size, and returns its bytes ((H1) `NoOne`, as in `Props.C03Inv.fsck_ok`).

Property theorems only; proofs in `Sdmmc.Lemmas.AbsFsFinal` (`history_clk_mounts`) and the lemma files of
`Props.C02Fs`.  Trusted statement: that of `Props.C02Fs` plus `Spec/VolumeCrash.lean` (`VolInvC`) and the two
definitions below.

STATUS: PROVED.

What the ghost covers: slots of directories that exist at the start (`x ∈ a0.ids`).  For a directory made during
the history the ghost of its slots starts when it exists — apply the theorem from a later quiescent point.
-/
import Sdmmc.Lemmas.AbsFsFinal
import Sdmmc.Props.C02Fs

namespace Sdmmc.Props.C02Final
open Sdmmc.Model Sdmmc.Model.Fat Sdmmc.Spec.Volume
open Sdmmc.Spec hiding run step NoFault Coherent
open Sdmmc.Spec.AbsFs (AbsFs Meta Ev CEv absRunClk runClk NoOpenVolume AInv GInv ghost0 ghostRun pathDir readerOps ParsesTo
  lookup listing)
open Sdmmc.Lemmas.AbsFs (Abs FreshOn)
open Sdmmc.Lemmas.AbsFsTimes (handlesFrom)

/-- What every fresh manager on the medium of `sk` shows of the abstract tree `a`: for every file of `a` — the path
of directory names leads from the root to directory `x`, the file name is found there at slot `j`, stored entry `m`,
bytes `bytes` — the reader's calls answer the handles in order, `m.size`, `bytes.take n`, and a listing whose
entries are exactly the stored entries of directory `x`, `m` among them. -/
def FreshShows (sk : Mgr) (idx : Nat) (a : AbsFs) : Prop :=
  ∀ (t : Mgr), FreshOn sk t →
  ∀ (path : List (List Nat)) (sfns : List Bytes) (fname : List Nat) (fs : Bytes) (x j : Nat) (m : Meta) (bytes : Bytes) (n : Nat),
    ParsesTo path sfns → pathDir a.slots 0 sfns = some x → Sfn.createFromStr fname = .ok fs →
    lookup (a.slots x) fs = some j → (a.slots x)[j]? = some (.file m bytes) →
    t.nextId + path.length + 3 < 4294967296 → path.length + 1 ≤ t.maxDirs → 1 ≤ t.maxFiles →
    ∃ es, (run t (.openVolume idx :: readerOps t.nextId (t.nextId + 1) path fname n)).2.map (·.result) =
        .ok (.handle t.nextId) :: (handlesFrom (t.nextId + 1) (path.length + 2) ++
          [.ok (.num m.size), .ok (.bytes (bytes.take n)), .ok (.entries es)]) ∧
      es.map Spec.AbsFs.view = listing (a.slots x) ∧ m ∈ es.map Spec.AbsFs.view

/-- What the independent reader `Spec.Fs` shows of the abstract tree `a` on the medium of `sk` (volume record `v`). -/
def IndependentShows (sk : Mgr) (v : FatVolume) (a : AbsFs) : Prop :=
  ∀ (g : Fs.Geom), GeomOf v g → NoOne v sk.dev.disk →
  ∀ (h j : Nat) (m : Meta) (bytes : Bytes), h ∈ a.ids → (a.slots h)[j]? = some (.file m bytes) →
    ∃ ss dcs sl cs, Fs.dirSlots g sk.dev.disk (Lemmas.VolFsck.refOf v h) = .ok (ss, dcs) ∧
      (ss.takeWhile fun x => decide (Fs.firstByte x ≠ 0))[j]? = some sl ∧
      Fs.nameOf sl = m.name ∧ Fs.attrOf sl = m.attr ∧ Fs.sizeOf sl = m.size ∧
      ((Fs.clusterOf g sl = 0 ∧ cs = []) ∨ Fs.chain g sk.dev.disk (Fs.clusterOf g sl) = .ok cs) ∧
      Fs.fileBytes g sk.dev.disk cs (Fs.sizeOf sl) = bytes

/-- **The medium keeps mounting along histories with clock movements**, and `VolInvC` is kept. -/
theorem history_clk_mounts (es : List CEv) {s : Mgr} {gh : Ghost} (hI : VolInvC s gh) (hn : NoOpenVolume es)
    (idx : Nat) (vm : FatVolume) (hm : mountPure (s.dev.disk.get 0) idx s.dev.disk.get = .ok vm) (hsg : SameGeom vm gh.vol) :
    ∃ gh' w, VolInvC (runClk s es).1 gh' ∧ SameGeom gh.vol gh'.vol ∧
      mountPure ((runClk s es).1.dev.disk.get 0) idx (runClk s es).1.dev.disk.get = .ok w ∧ SameGeom gh.vol w :=
  Lemmas.AbsFs.history_clk_mounts es hI hn idx vm hm hsg

/-- **C02, closed.** -/
theorem c02_final {s : Mgr} {gh : Ghost} {a0 : AbsFs} (hI : VolInvC s gh) (hA : Abs s gh a0) (hs : s.files = [])
    (es : List CEv) (hn : NoOpenVolume es)
    (idx : Nat) (vm : FatVolume) (hm : mountPure (s.dev.disk.get 0) idx s.dev.disk.get = .ok vm) (hsg : SameGeom vm gh.vol)
    (k : Nat) (hq : (runClk s (es.take k)).1.files = []) :
    ∃ gh' a w, VolInv (runClk s (es.take k)).1 gh' ∧ SameGeom gh.vol gh'.vol ∧ Abs (runClk s (es.take k)).1 gh' a ∧
      absRunClk a0 (runClk s (es.take k)).2 a ∧ AInv a ∧
      (∀ x j, x ∈ a0.ids → ∃ g', ghostRun x j a0 (ghost0 a0 x j) (runClk s (es.take k)).2 a g' ∧ GInv a x j g') ∧
      mountPure ((runClk s (es.take k)).1.dev.disk.get 0) idx (runClk s (es.take k)).1.dev.disk.get = .ok w ∧
      SameGeom gh'.vol w ∧
      FreshShows (runClk s (es.take k)).1 idx a ∧ IndependentShows (runClk s (es.take k)).1 gh'.vol a := by
  have hnk := Lemmas.AbsFs.noOpenVolume_take es k hn
  obtain ⟨gh', a, h1, h2, h3, h4, _, h6, h7⟩ := C02Fs.history_ghost (es.take k) hI.inv hA hs hnk
  obtain ⟨_, w, _, _, hw, hgw⟩ := Lemmas.AbsFs.history_clk_mounts (es.take k) hI hnk idx vm hm hsg
  have hsgw : SameGeom gh'.vol w := h2.symm.trans hgw
  refine ⟨gh', a, w, h1, h2, h3, h4, h6, fun x j hx => let ⟨g', hg, hG, _⟩ := h7 x j hx; ⟨g', hg, hG⟩, hw, hsgw, ?_, ?_⟩
  · intro t hF path sfns fname fs x j m bytes n hps hp hfs hlk hsl hnw hmd hmf
    exact C02Fs.fresh_mount_shows_flushed h1 h3 hq hF idx w (by rw [hF.disk]; exact hw) hsgw n hps hp hfs hlk hsl hnw hmd hmf
  · intro g hg hno h j m bytes hh hsl
    exact C02Fs.independent_reader_agrees h1 h3 hq g hg hno hh hsl

/-- The end of the history is such a prefix. -/
theorem c02_final_end {s : Mgr} {gh : Ghost} {a0 : AbsFs} (hI : VolInvC s gh) (hA : Abs s gh a0) (hs : s.files = [])
    (es : List CEv) (hn : NoOpenVolume es)
    (idx : Nat) (vm : FatVolume) (hm : mountPure (s.dev.disk.get 0) idx s.dev.disk.get = .ok vm) (hsg : SameGeom vm gh.vol)
    (hq : (runClk s es).1.files = []) :
    ∃ gh' a w, VolInv (runClk s es).1 gh' ∧ Abs (runClk s es).1 gh' a ∧ absRunClk a0 (runClk s es).2 a ∧ AInv a ∧
      (∀ x j, x ∈ a0.ids → ∃ g', ghostRun x j a0 (ghost0 a0 x j) (runClk s es).2 a g' ∧ GInv a x j g') ∧
      mountPure ((runClk s es).1.dev.disk.get 0) idx (runClk s es).1.dev.disk.get = .ok w ∧ SameGeom gh'.vol w ∧
      FreshShows (runClk s es).1 idx a ∧ IndependentShows (runClk s es).1 gh'.vol a := by
  have := c02_final hI hA hs es hn idx vm hm hsg es.length (by rw [List.take_length]; exact hq)
  rw [List.take_length] at this
  obtain ⟨gh', a, w, h1, _, h3, h4, h5, h6, h7, h8, h9, h10⟩ := this
  exact ⟨gh', a, w, h1, h3, h4, h5, h6, h7, h8, h9, h10⟩

/-! ### Non-vacuity (tests, evaluated by the kernel)

The medium of `Props.C02Fs.Example` (the smallest FAT16 volume in partition 0): `q0`, no open file; the history `esA`
— the clock moves, `A.TXT` is opened for appending, the clock moves, three bytes are written, the clock moves, the
file is closed. -/
namespace Example
open Sdmmc.Props.C02Fs.Example Sdmmc.Props.C02Reopen.Example Sdmmc.Props.C09Hist.Example

theorem q0_invC : VolInvC q0 ghA := C10Inv.volInvC_of_quiescent q0_inv (mirrorA _) q1_quiescent.1

/-- The state before the first close (the file still open and dirty) has the crash invariant … -/
theorem mgr_invC : VolInvC mgr ghA := by
  refine ⟨invA, mirrorA _, ?_⟩
  intro f hf
  have : f = file := by simpa [mgr] using hf
  subst this
  left
  decide +kernel

/-- … and its medium mounts (`Props.C02Reopen.Example.mount_ok`); hence so does the medium the close leaves
(`Lemmas.VolCrash.step_mounts_after`), with the geometry of the writer's record. -/
theorem q0_mounts : ∃ w, mountPure (q0.dev.disk.get 0) 0 q0.dev.disk.get = .ok w ∧ SameGeom vol w :=
  Lemmas.VolCrash.step_mounts_after mgr_invC (.closeFile 7) trivial 0 vol0 mount_ok ⟨_, _, rfl⟩

/-- After the history no file is open. -/
theorem esA_quiescent : (runClk q0 esA).1.files = [] := by decide +kernel

/-- The hypotheses of `c02_final` hold; its conclusion at the end of the history (prefix 6: the close). -/
theorem esA_final : ∃ gh' a w, VolInv (runClk q0 esA).1 gh' ∧ Abs (runClk q0 esA).1 gh' a ∧ AInv a ∧
    mountPure ((runClk q0 esA).1.dev.disk.get 0) 0 (runClk q0 esA).1.dev.disk.get = .ok w ∧ SameGeom gh'.vol w ∧
    FreshShows (runClk q0 esA).1 0 a ∧ IndependentShows (runClk q0 esA).1 gh'.vol a := by
  obtain ⟨w0, hw0, hs0⟩ := q0_mounts
  have hfin := c02_final_end (s := q0) (gh := ghA) (a0 := Lemmas.AbsFs.absOf0 q0 ghA) q0_invC
    (Lemmas.AbsFs.abs_absOf0 q1_quiescent.1) q1_quiescent.1 esA q1_quiescent.2.2 0 w0 hw0 hs0.symm esA_quiescent
  obtain ⟨gh', a, w, h1, h3, _, h5, _, h7, h8, h9, h10⟩ := hfin
  exact ⟨gh', a, w, h1, h3, h5, h7, h8, h9, h10⟩

/-- … and at the quiescent prefixes 0 and 1 (before the file is opened); prefix 2 is not quiescent. -/
example : (runClk q0 (esA.take 0)).1.files = [] ∧ (runClk q0 (esA.take 1)).1.files = [] ∧
    (runClk q0 (esA.take 2)).1.files.length = 1 := by
  refine ⟨?_, ?_, ?_⟩ <;> decide +kernel

/-- **Evaluated** (in `Props.C02Fs.Example`): the writer's medium is `diskQ` block for block (`writer_medium`), it
mounts (`fresh_mounts`), the fresh manager run on it answers handles 100, 101, 102, length 603, 603 bytes, a listing
with size 603 and modification time 12:07:02 = `fatRound` of the clock at the WRITE (`fresh_reads_evaluated`), and
`FreshShows` / `IndependentShows` are instantiated there (`fresh_reads`, the last example). -/
theorem evaluated : q1.dev.disk.m.toList = diskQ.m.toList ∧
    mountPure (freshQ.dev.disk.get 0) 0 freshQ.dev.disk.get = .ok vol0 :=
  ⟨writer_medium, fresh_mounts⟩

end Example

end Sdmmc.Props.C02Final
