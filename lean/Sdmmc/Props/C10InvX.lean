/-
C10 for WHOLE API CALLS, STRENGTHENED — at every crash point of every call of every history the medium satisfies
`CrashInvX v d gh' X'` (`Spec/VolumeResidue.lean`) for explicit `gh'`, `X'`:

  `CrashInv` (as `Props.C10Inv` proves)  ∧  `Owns v d (gh'.G ++ X')`  ∧  `EmptyNoCluster`.

* `Owns (gh'.G ++ X')` — THE LOST CLUSTERS FORM CHAINS: the chains of the crash ghost and the lost chains `X'` are chains
  (in range, acyclic, end-of-chain terminated), pairwise disjoint, and they are ALL that is in use.  `Props.C10Inv` only
  had "lost clusters are permitted" (`OwnsLoose`).  What a crash of the library loses: a cluster marked end-of-chain but
  not yet linked (allocation: `[c]`); the tail cut off by `truncate_cluster_chain`, shrinking from its head while it is
  released (ONE chain: `VolCrashX.owns_trunc_stage`); the chain of a deleted file while it is released; the chain of an
  open file whose on-disk slot does not name it yet (a written, unflushed file).
* `EmptyNoCluster` — a file entry whose cluster field is 0 stores size 0.  `Props.C10Inv` dropped the clause `sizes`
  wholesale.  This needs a stronger invariant of API histories: `VolInvCX` (`Spec/VolumeCrashX.lean`) = `VolInvC` ∧
  `RawEmptyOK`: the on-disk slot of every OPEN file stores size 0 when it names no cluster (for closed files it follows
  from `VolInv`).  `api_step_invariantCX`: it is preserved by every covered call; `volInvCX_of_quiescent`: it holds
  whenever no file is open.

Property theorems only; proofs: `Lemmas/VolCrashX*.lean` — `Lemmas/VolCrash*.lean` restated for the predicate `CIX` with
EXACT records at every crash stage (`VolCrashXStep.lean`: `owns_within`, `owns_add_eof`, `owns_trunc_stage`,
`owns_free_stage` from the `CrashFat.Stage` / `CrashAlloc.AllocCrash` descriptions; `VolCrashXWriteOwn.lean`: the write
loop) and `RawOKX`; neither `Props/C10Inv.lean` nor `Lemmas/VolCrash*.lean` is edited.

WHAT IS PROVED (every constructor of `Op`, every outcome, every crash point).
* `api_crash_invariantX`, `history_crash_invariantX` — `CrashInvX` at every crash point of every covered call / history.
* `api_step_invariantCX`, `api_history_invariantCX` — `VolInvCX` is an invariant of covered histories.
* `crash_then_mount` — **every crash point of every covered history mounts into `FaultInv`**: if the medium the history
  starts from mounts (partition `idx`, geometry of the volume), then for every crash point `dk` there are a ghost `gh'`
  and lost chains `X'` such that EVERY fresh manager on `dk` mounts — `open_raw_volume` answers the handle, writes
  nothing — into a state with `FaultInv t1 { gh' with vol := vm } X'`, tables empty, cache coherent, no fault pending.
  (`Props.C10Continue.crash_point_continues` without its extra hypothesis.)
* `crash_then_any_history` — and when in addition the stored sizes fit their chains at `dk` (`SizesFit`: every crash
  point but those inside a truncating open), ANY covered history after the mount keeps the invariant of C03 up to the
  lost chains `X'`, every call answering `Ok` or an error (`Props.C10Continue.history_after_crash_fit`).

`Mirror` AT A CRASH POINT (stated; NOT proved at API level — see `mirror_at_crash_points`).  `FaultInv` reads FAT copy 1
only.  What holds: `MirrorBut v dk` (`Spec/Crash.lean`): there is ONE block `b` of FAT copy 1 such that every FAT entry
held in another block of copy 1 reads the same in copy 2 — the `update_fat` the crash cut had written copy 1 of that
sector and not yet copy 2.  PROVED for every FAT-level piece (`Lemmas.CrashFat.truncate_crash`, `free_crash`,
`Lemmas.CrashAlloc.alloc_crash`: `Lag v d0 d := Mirror v d0 → MirrorBut v d`) and for histories of FAT operations
(`Props.C10Crash.crash_step_mirror`, `crash_history_mirror`: `Spec.Forest.step` under `Exact`).  At the API level it
would need `Mirror` at every boundary between the pieces of a call (the engine lemmas `Lemmas/VolEng*` do not carry it;
the licences of C04 give it at the END of a call only and do not pair the two writes of an `update_fat`).  Evaluated:
`Example.mirror_but_at_crash_point`.
-/
import Sdmmc.Lemmas.VolCrashXHist
import Sdmmc.Props.C10Inv
import Sdmmc.Props.C10Continue

namespace Sdmmc.Props.C10InvX
open Sdmmc.Model Sdmmc.Model.Fat Sdmmc.Spec.Volume
open Sdmmc.Spec hiding run step NoFault Coherent
open Sdmmc.Props.C03Inv (Covered CoveredAll CoveredAllRun)
open Sdmmc.Props.C04Hist (nameCovered_of_covered nameCovered_of_coveredAll)
open Sdmmc.Lemmas.Mounted (FreshMgr)
open Sdmmc.Lemmas.CrashCont (Mounted VolInvLost)

/-! ### The invariant -/

theorem volInvCX_def (s : Mgr) (gh : Ghost) :
    VolInvCX s gh ↔ VolInv s gh ∧ Mirror gh.vol s.dev.disk ∧ RawOK gh.vol.fatType s.dev.disk s.files ∧
      RawEmptyOK gh.vol.fatType s.dev.disk s.files :=
  ⟨fun h => ⟨h.inv.inv, h.inv.mirror, h.inv.raw, h.rawEmpty⟩, fun h => ⟨⟨h.1, h.2.1, h.2.2.1⟩, h.2.2.2⟩⟩

/-- With no file open the two raw clauses are empty. -/
theorem volInvCX_of_quiescent {s : Mgr} {gh : Ghost} (hI : VolInv s gh) (hm : Mirror gh.vol s.dev.disk) (hq : s.files = []) :
    VolInvCX s gh :=
  ⟨C10Inv.volInvC_of_quiescent hI hm hq, fun f hf => by rw [hq] at hf; cases hf⟩

/-! ### One call -/

/-- **`api_crash_invariantX`.**  Every crash point of every covered API call satisfies `CrashInvX` — crash-consistent,
the lost clusters forming the chains `X'`, file entries without a cluster empty — for an explicit ghost `gh'`. -/
theorem api_crash_invariantX (s : Mgr) (op : Op) (gh : Ghost) (hI : VolInvCX s gh) (hc : Covered s op) (k : Nat) :
    ∃ gh' X', CrashInvX gh.vol (crashDisk s.dev.disk (step s op).2.writes k) gh' X' :=
  Lemmas.VolCrashX.step_crashInvX hI op (nameCovered_of_covered hc) k

theorem api_crash_invariantX_all (v0 : FatVolume) (s : Mgr) (op : Op) (gh : Ghost) (hI : VolInvCX s gh)
    (hc : CoveredAll v0 s op) (k : Nat) :
    ∃ gh' X', CrashInvX gh.vol (crashDisk s.dev.disk (step s op).2.writes k) gh' X' :=
  Lemmas.VolCrashX.step_crashInvX hI op (nameCovered_of_coveredAll hc) k

/-- **`VolInvCX` is preserved by every covered call.** -/
theorem api_step_invariantCX (v0 : FatVolume) (s : Mgr) (op : Op) (gh : Ghost) (hI : VolInvCX s gh) (h0 : SameGeom v0 gh.vol)
    (hc : CoveredAll v0 s op) : ∃ gh', VolInvCX (step s op).1 gh' ∧ SameGeom v0 gh'.vol := by
  obtain ⟨gh', hC', hg'⟩ := C10Inv.api_step_invariantC v0 s op gh hI.inv h0 hc
  refine ⟨gh', ⟨hC', ?_⟩, hg'⟩
  have hraw := Lemmas.VolCrashX.step_rawEmpty hI op (nameCovered_of_coveredAll hc)
  have : gh'.vol.fatType = gh.vol.fatType := (h0.symm.trans hg').fatType
  rw [this]
  exact hraw

/-! ### Histories -/

theorem api_history_invariantCX (v0 : FatVolume) (ops : List Op) (s : Mgr) (gh : Ghost) (hI : VolInvCX s gh)
    (h0 : SameGeom v0 gh.vol) (hc : CoveredAllRun v0 s ops) : ∃ gh', VolInvCX (run s ops).1 gh' ∧ SameGeom v0 gh'.vol := by
  induction ops generalizing s gh with
  | nil => exact ⟨gh, hI, h0⟩
  | cons op ops ih =>
    obtain ⟨gh1, h1, g1⟩ := api_step_invariantCX v0 s op gh hI h0 hc.1
    obtain ⟨gh2, h2, g2⟩ := ih (step s op).1 gh1 h1 g1 hc.2
    exact ⟨gh2, by unfold run; exact h2, g2⟩

theorem crashInvX_sameGeom {v v' : FatVolume} {d : Disk} {gh : Ghost} {X : List (List Nat)} (hs : SameGeom v v')
    (h : CrashInvX v d gh X) : CrashInvX v' d gh X := by
  obtain ⟨hb, hcore⟩ := Lemmas.VolCrash.crashInv_iff.1 h.inv
  refine ⟨Lemmas.VolCrash.crashInv_iff.2 ⟨hb, Lemmas.VolCrash.core_sameGeom hs hcore⟩,
    Lemmas.WriteRefines.owns_sameGeom hs h.lost, ?_⟩
  rw [hs.fatType]
  intro x hx o ho
  rw [Lemmas.VolMed.dirSlots_sameGeom hs] at ho
  exact h.empty x hx o ho

/-- **`history_crash_invariantX`.**  At every crash point inside ANY call of ANY covered history — the `n`-th call, issued
in the state the first `n` calls leave; any prefix `k` of its device writes — the medium satisfies `CrashInvX` for the
reference geometry `v0`. -/
theorem history_crash_invariantX (v0 : FatVolume) (ops : List Op) (s : Mgr) (gh : Ghost) (hI : VolInvCX s gh)
    (h0 : SameGeom v0 gh.vol) (hc : CoveredAllRun v0 s ops) (n : Nat) (op : Op) (hn : ops[n]? = some op) (k : Nat) :
    ∃ gh' X', CrashInvX v0 (crashDisk (run s (ops.take n)).1.dev.disk (step (run s (ops.take n)).1 op).2.writes k) gh' X' := by
  obtain ⟨ghn, hIn, hgn⟩ := api_history_invariantCX v0 (ops.take n) s gh hI h0 (C03Inv.coveredAllRun_take v0 hc n)
  obtain ⟨gh', X', hX⟩ := api_crash_invariantX_all v0 _ op ghn hIn (C10Inv.coveredAllRun_get v0 hc n op hn) k
  exact ⟨gh', X', crashInvX_sameGeom hgn.symm hX⟩

/-! ### Crash, then mount -/

/-- **`crash_then_mount`.**  `s` satisfies `VolInvCX` and its medium mounts (partition `idx`, to a record of the
geometry `v0` of the volume); `ops` is any covered history.  For EVERY crash point of the history — any prefix `k` of the
device writes of the `n`-th call — there are a ghost `gh'` and lost chains `X'` of the crashed medium `dk` such that
EVERY fresh manager on `dk` mounts into `FaultInv` with exactly that ghost (carrying the mounted record) and those lost
chains: `open_raw_volume idx` answers the handle, writes nothing, and leaves the tables empty, the cache coherent and no
fault pending (`Mounted`). -/
theorem crash_then_mount (v0 : FatVolume) (ops : List Op) (s : Mgr) (gh : Ghost) (hI : VolInvCX s gh) (h0 : SameGeom v0 gh.vol)
    (hc : CoveredAllRun v0 s ops) (idx : Nat) (vm0 : FatVolume) (hm : mountPure (s.dev.disk.get 0) idx s.dev.disk.get = .ok vm0)
    (hsg : SameGeom vm0 v0) (n : Nat) (op : Op) (hn : ops[n]? = some op) (k : Nat) :
    ∃ gh' X' vm, SameGeom v0 vm ∧
      CrashInvX v0 (crashDisk (run s (ops.take n)).1.dev.disk (step (run s (ops.take n)).1 op).2.writes k) gh' X' ∧
      ∀ t0, FreshMgr t0 →
        t0.dev.disk = crashDisk (run s (ops.take n)).1.dev.disk (step (run s (ops.take n)).1 op).2.writes k →
        ∃ t1, Mounted t0 idx vm t1 ∧ FaultInv t1 { gh' with vol := vm } X' := by
  obtain ⟨gh', X', hX⟩ := history_crash_invariantX v0 ops s gh hI h0 hc n op hn k
  obtain ⟨w, hw, hsw⟩ := C10Inv.history_crash_mounts_from_start v0 ops s gh hI.inv h0 hc n op hn k idx vm0 hm hsg
  refine ⟨gh', X', w, hsw, hX, fun t0 hfr hd => ?_⟩
  rw [← hd] at hw hX
  exact C10Continue.crash_mount_establishes_faultinv hfr hX hw hsw

/-- **`crash_then_any_history`.**  … and when the stored sizes fit their chains on the crashed medium (`SizesFit`: every
crash point except those of a truncating open between the cut of the chain and the rewrite of the slot), the fresh
manager mounts into the invariant of C03 up to the lost chains `X'` — nothing else weakened —, and ANY covered history
from there keeps it, with the SAME lost chains, every call answering `Ok` or an error. -/
theorem crash_then_any_history (v0 : FatVolume) (ops : List Op) (s : Mgr) (gh : Ghost) (hI : VolInvCX s gh)
    (h0 : SameGeom v0 gh.vol) (hc : CoveredAllRun v0 s ops) (idx : Nat) (vm0 : FatVolume)
    (hm : mountPure (s.dev.disk.get 0) idx s.dev.disk.get = .ok vm0) (hsg : SameGeom vm0 v0) (n : Nat) (op : Op)
    (hn : ops[n]? = some op) (k : Nat) :
    ∃ gh' X' vm, SameGeom v0 vm ∧
      (SizesFit v0 (crashDisk (run s (ops.take n)).1.dev.disk (step (run s (ops.take n)).1 op).2.writes k) gh' →
        ∀ t0, FreshMgr t0 →
          t0.dev.disk = crashDisk (run s (ops.take n)).1.dev.disk (step (run s (ops.take n)).1 op).2.writes k →
          ∃ t1, Mounted t0 idx vm t1 ∧ VolInvLost X' t1 { gh' with vol := vm } ∧
            ∀ (after : List Op), C11Hist.CoveredRun t1 after → ∀ j,
              ∃ gh'', VolInvLost X' (run t1 (after.take j)).1 gh'' ∧ SameGeom vm gh''.vol ∧
                ∀ o, o ∈ (run t1 (after.take j)).2 → Clean o.result) := by
  obtain ⟨gh', X', hX⟩ := history_crash_invariantX v0 ops s gh hI h0 hc n op hn k
  obtain ⟨w, hw, hsw⟩ := C10Inv.history_crash_mounts_from_start v0 ops s gh hI.inv h0 hc n op hn k idx vm0 hm hsg
  refine ⟨gh', X', w, hsw, fun hS t0 hfr hd => ?_⟩
  rw [← hd] at hw hX hS
  exact C10Continue.history_after_crash_fit hfr hX hS hw hsw

/-! ### `Mirror` at a crash point -/

/-- **What is proved about the two FAT copies at a crash point** (FAT-level pieces; see the header for the API level):
during `truncate_cluster_chain` started on a medium with identical copies, every crash point has copies identical except
possibly in ONE sector (`MirrorBut`).  The same holds for `free_cluster_chain` (`Lemmas.CrashFat.free_crash`) and
`alloc_cluster` (`Lemmas.CrashAlloc.alloc_crash`). -/
theorem mirror_at_crash_points (s : FS) (c x : Nat) (pre tail : List Nat) (hn : Lemmas.FBasic.NoFault s)
    (hc : Lemmas.FBasic.Coherent s) (hb : BlocksOK s.dev.disk) (hg : WFGeom s.vol)
    (hch : Chain s.vol s.dev.disk c (pre ++ x :: tail)) (hm : Mirror s.vol s.dev.disk) :
    ∃ s', truncateClusterChain x s = (.ok (), s') ∧
      Lemmas.CrashBase.CrashAll (fun d => MirrorBut s.vol d) s s' := by
  obtain ⟨s', ht, hcr⟩ := Lemmas.CrashFat.truncate_crash s c x pre tail hn hc hb hg hch
  exact ⟨s', ht, hcr.mono fun d hd => hd.2 hm⟩

end Sdmmc.Props.C10InvX
