/-
C09 with several open volumes — the EXAMPLE MEDIUM of `Props/Slow/C09MultiEx.lean` (test material; the heavy kernel evaluations
are kept in this file).

One device with a partition table holding TWO FAT16 partitions: partition 0 in blocks 1 … 4103 — the medium of
`Props.C02Reopen.Example` (smallest FAT16 volume; `A.TXT` of the root directory open through handle 7, 600 bytes written to
clusters 2 → 3, not yet flushed: the entry on the medium still says "empty file") — and partition 1 in blocks 4104 … 8206, a
second volume of the same geometry with an empty root directory.  BOTH volumes are open (handles 3 and 6), each with a handle
on its root directory (5 and 4).

* `invNC` — the state satisfies `VolInvNC` (the one-volume checker on both projections, `Lemmas.VolN.volInvN_two`; one FAT
  copy per volume; the on-disk slot of the open file names no cluster);
* `mount_ok2` — the medium mounts as partition 0, to the geometry of the first volume (evaluated);
* `rootN` — the open file sits in the root directory of its volume.
-/
import Sdmmc.Lemmas.SurviveN4
import Sdmmc.Props.C09HistEx
import Sdmmc.Props.C10Multi

namespace Sdmmc.Lemmas.SurviveN.Example
open Sdmmc.Model Sdmmc.Model.Fat Sdmmc.Spec.Volume
open Sdmmc.Spec hiding run step NoFault Coherent
open Sdmmc.Props
open Sdmmc.Lemmas.VolTree (fkey spos)
open Sdmmc.Props.C02Reopen.Example Sdmmc.Props.C09Hist.Example

/-- Partition table: partition 0 (type 0x06) in blocks 1 … 4103, partition 1 (type 0x06) in blocks 4104 … 8206. -/
def mbr2 : Block :=
  zeros 446 ++ [0x00, 0, 0, 0, 0x06, 0, 0, 0, 1, 0, 0, 0, 0x07, 0x10, 0, 0] ++
    [0x00, 0, 0, 0, 0x06, 0, 0, 0, 0x08, 0x10, 0, 0, 0x07, 0x10, 0, 0] ++ zeros 32 ++ [0x55, 0xAA]

/-- The FAT of an empty volume. -/
def fatEmpty : Block := [0xF8, 0xFF, 0xFF, 0xFF] ++ zeros 508

/-- The medium of `Props.C02Reopen.Example` with a second partition behind it. -/
def disk2 : Disk :=
  (((((((Disk.empty.set 0 mbr2).set 1 bpbBlk).set 2 fatBlk).set 18 dirBlk).set 19 blkA).set 20 blkB).set 4104 bpbBlk).set 4105
    fatEmpty

/-- The record of the second volume: the geometry of the first, 4103 blocks further on. -/
def volB : FatVolume := { vol0 with lbaStart := 4104 }

def vinfoB : VolInfo := { rawVolume := 6, idx := 1, vol := volB }

/-- Both volumes open; `A.TXT` of volume 3 open through handle 7 and written to. -/
def mgrN : Mgr :=
  { dev := { disk := disk2 }, nextId := 8, vols := [vinfo, vinfoB],
    dirs := [{ rawDirectory := 5, rawVolume := 3, cluster := Gen.CLUSTER_ROOT_DIR },
             { rawDirectory := 4, rawVolume := 6, cluster := Gen.CLUSTER_ROOT_DIR }],
    files := [file], maxVols := 2, maxDirs := 4, maxFiles := 4, clock := clk }

/-- The ghost of the second volume: no chain, no sub-directory. -/
def ghB : Ghost := { vol := volB, G := [], dirs := [] }

def ghsN : List Ghost := [ghA, ghB]

theorem invP0 : VolInv (proj mgrN 0) ghA := Lemmas.VolCheck.checkVolInv_sound (proj mgrN 0) ghA (by decide +kernel)

theorem invP1 : VolInv (proj mgrN 1) ghB := Lemmas.VolCheck.checkVolInv_sound (proj mgrN 1) ghB (by decide +kernel)

theorem invN : VolInvN mgrN ghsN :=
  Lemmas.VolN.volInvN_two (va := vinfo) (vb := vinfoB) rfl invP0 invP1 (by decide) (by decide) (by decide)
    (by intro f hf; left; rw [List.mem_singleton.1 hf]; rfl) (by decide)

theorem mirrorN2 : MirrorN mgrN ghsN := by
  intro gh hgh
  have : gh = ghA ∨ gh = ghB := by simpa [ghsN] using hgh
  rcases this with rfl | rfl
  · exact mirrorA _
  · intro c _ b2 h
    have : (none : Option Nat) = some b2 := h
    cases this

theorem invNC : VolInvNC mgrN ghsN := by
  refine ⟨invN, mirrorN2, (C10Multi.rawOKN_def mgrN).2 ?_⟩
  intro f hf vi hvi e
  have hf' : f = file := List.mem_singleton.1 hf
  subst hf'
  have hv : vi = vinfo ∨ vi = vinfoB := by simpa [mgrN] using hvi
  rcases hv with rfl | rfl
  · left; decide +kernel
  · exact absurd e (by decide)

/-- The medium mounts as partition 0, to the geometry of the first volume. -/
theorem mount_ok2 : mountPure (mgrN.dev.disk.get 0) 0 mgrN.dev.disk.get = .ok vol0 := by decide +kernel

/-- … and as partition 1, to the record of the second. -/
theorem mount_ok2b : mountPure (mgrN.dev.disk.get 0) 1 mgrN.dev.disk.get = .ok volB := by decide +kernel

/-- The open file sits in the root directory of its volume (the ghost has no other directory). -/
theorem rootN : ∃ o, o ∈ objects 0 (dirSlots ghA.vol mgrN.dev.disk ghA.G 0) ∧ spos o = fkey file := by
  obtain ⟨h, hh, o, ho, h1, h2, _⟩ := invP0.med.tree.fileSlots file (List.mem_cons_self)
  have h0 : h = 0 := by
    have : h ∈ [0] := hh
    exact List.mem_singleton.1 this
  subst h0
  exact ⟨o, ho, Prod.ext h1 h2⟩

theorem handle_foundN : mgrN.files.findIdx? (·.rawFile = 7) = some 0 := by decide

end Sdmmc.Lemmas.SurviveN.Example
