/-
C10 strengthened — evaluated examples / non-vacuity of `Props/C10InvX.lean` (tests, labelled as tests).

* `mgrC_invCX`, `crash_then_mount_instance`, `crash_then_any_history_instance`: the theorems applied to the smallest FAT16
  volume of `Props/C10ContinueExample.lean` (`mgrC`: 4085 clusters, `A.TXT`), the history `[make_dir "D"]` (`run mgrC ([…].take 0)` is `mgrC`), crash point 1
  (cluster 4 marked, not yet entered in the root directory).
* `mirror_but_at_crash_point`: the hand-built FAT16 volume WITH TWO FAT COPIES (`Lemmas.VolExample.mgr1`, blocks 1 and 2),
  `make_dir` in `SUB`: the call writes blocks 1, 2 (the two copies of the FAT sector), 8 (the new directory), 6 (the
  parent).  After the FIRST write the copies differ — `Mirror` fails — in exactly the one sector the `update_fat` in
  flight had reached: `MirrorBut` holds with `b = 1`; at all other crash points the copies are identical.
-/
import Sdmmc.Props.C10InvX
import Sdmmc.Props.Slow.C10ContinueExample

namespace Sdmmc.Props.C10InvX.Example
open Sdmmc.Model Sdmmc.Model.Fat Sdmmc.Spec.Volume
open Sdmmc.Spec hiding run step NoFault Coherent
open Sdmmc.Props.C10Continue.Example (mgrC g0 mgrC_inv mgrC_invC freshOn fresh_freshOn disk1_mounts)
open Sdmmc.Props.C02Reopen.Example (vol0)
open Sdmmc.Lemmas.Mounted (FreshMgr)
open Sdmmc.Lemmas.CrashCont (Mounted VolInvLost)
open Sdmmc.Lemmas.VolExample (mgr1 vol16)

theorem mgrC_invCX : VolInvCX mgrC g0 := volInvCX_of_quiescent mgrC_inv mgrC_invC.mirror rfl

/-- `crash_then_mount` applied: the medium crashed after the first write of `make_dir_in_dir(root, "D")` mounts into
`FaultInv` for some ghost and lost chains of the crashed medium. -/
theorem crash_then_mount_instance :
    ∃ gh' X' vm, SameGeom vol0 vm ∧
      CrashInvX vol0 (crashDisk (run mgrC ([Op.mkdir 1 [68]].take 0)).1.dev.disk
        (step (run mgrC ([Op.mkdir 1 [68]].take 0)).1 (.mkdir 1 [68])).2.writes 1) gh' X' ∧
      ∀ t0, FreshMgr t0 →
        t0.dev.disk = crashDisk (run mgrC ([Op.mkdir 1 [68]].take 0)).1.dev.disk
          (step (run mgrC ([Op.mkdir 1 [68]].take 0)).1 (.mkdir 1 [68])).2.writes 1 →
        ∃ t1, Mounted t0 0 vm t1 ∧ FaultInv t1 { gh' with vol := vm } X' :=
  crash_then_mount vol0 [.mkdir 1 [68]] mgrC g0 mgrC_invCX (SameGeom.refl _) ⟨C03All.name_ok_all _, trivial⟩ 0 vol0
    disk1_mounts (SameGeom.refl _) 0 (.mkdir 1 [68]) rfl 1

/-- The two FAT copies at the crash points of `make_dir_in_dir(SUB, "D")` on the volume with two FAT copies. -/
def wsM : List (Nat × Block) := (step mgr1 (.mkdir 3 [68])).2.writes

/-- Are the two copies identical (checked entry by entry)? -/
def mirrorB (d : Disk) : Bool :=
  (List.range (endCluster vol16)).all fun c =>
    match fatBlock2 vol16 c with
    | some b2 => decide (d.get b2 = d.get (fatBlock vol16 c))
    | none => true

theorem mirrorB_iff (d : Disk) : mirrorB d = true ↔ Mirror vol16 d := by
  unfold mirrorB Mirror
  rw [List.all_eq_true]
  constructor
  · intro h c hc b2 hb
    have := h c (List.mem_range.2 hc)
    rw [hb] at this
    exact of_decide_eq_true this
  · intro h c hc
    cases hb : fatBlock2 vol16 c with
    | none => rfl
    | some b2 => exact decide_eq_true (h c (List.mem_range.1 hc) b2 hb)

/-- Evaluated (TEST): the call writes blocks 1, 2, 8, 6; the copies are identical at the crash points 0, 2, 3, 4 and
differ at crash point 1 (copy 1 of the sector written, copy 2 not yet); there `MirrorBut` holds: all entries live in
block 1 of copy 1, the one exempted sector. -/
theorem mirror_but_at_crash_point :
    wsM.map (·.1) = [1, 2, 8, 6] ∧
    (List.range 5).map (fun k => mirrorB (crashDisk mgr1.dev.disk wsM k)) = [true, false, true, true, true] ∧
    ¬ Mirror vol16 (crashDisk mgr1.dev.disk wsM 1) ∧ MirrorBut vol16 (crashDisk mgr1.dev.disk wsM 1) := by
  refine ⟨by decide +kernel, by decide +kernel, ?_, ⟨1, fun c hc hne => ?_⟩⟩
  · rw [← mirrorB_iff]
    decide +kernel
  · exfalso
    apply hne
    have : ∀ c, c < endCluster vol16 → fatBlock vol16 c = 1 := by decide +kernel
    exact this c hc

end Sdmmc.Props.C10InvX.Example
