/-
C09 headline, several open volumes (`Props/C09Main2.lean`) — non-vacuity, all hypotheses discharged (thorough tier: builds on
the example medium of `Props/Slow/SurviveNExample.lean`, ~110 s of kernel evaluation, and on `Props/Slow/C09MultiEx.lean`).

The medium: one device with a partition table and TWO FAT16 partitions, both open (volume handles 3 and 6); `A.TXT` (600
bytes) of volume 3 is open through handle 7 and was written to.
-/
import Sdmmc.Props.C09Main2
import Sdmmc.Props.Slow.C09MultiEx

namespace Sdmmc.Props.C09Main2.Example
open Sdmmc.Model Sdmmc.Model.Fat Sdmmc.Spec.Volume
open Sdmmc.Spec hiding run step NoFault Coherent
open Sdmmc.Props.C02Reopen.Example Sdmmc.Props.C09Hist.Example Sdmmc.Lemmas.SurviveN.Example
open Sdmmc.Props.C09Multi.Example

/-- Both calls (`close_file 7`, `flush_file 7` with the handle left open): the theorem applies … -/
example (call : Op) (hcall : call = .closeFile 7 ∨ call = .flush 7) :=
  C09_main2_partial vol mgrN ghsN invNC 0 vinfo ghA rfl rfl (SameGeom.refl _) 7 0 file handle_foundN rfl rfl rfl 0 [] rootN
    (.nil 0 (Lemmas.VolTree.zero_mem_dirIds _)) (fun _ hy => nomatch hy) 0 vol0 mount_ok2 ⟨_, _, (sameGeom : vol = _)⟩ call
    (hcall.imp id fun e => ⟨e, by decide⟩)

/-- … and its criterion holds of histories that do a lot on BOTH volumes: `others` (everything on the other volume, under
the SAME name, then that volume is closed) is `UntouchedN`; `busy2` (both volumes) satisfies the syntactic criterion. -/
example := others_untouched
example := busy2_names
example := busy2_keeps_open
example := busy2_covered
example := busy2_fresh

/-- At every crash point of `others` a fresh manager mounts partition 0, opens `A.TXT`, is told 600 bytes and reads them. -/
example := survives_example
example := survives_example_syntactic

end Sdmmc.Props.C09Main2.Example
