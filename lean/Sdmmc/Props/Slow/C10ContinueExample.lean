/-
CONTINUATION AFTER A CRASH — the evaluated examples of `Props/C10Continue.lean` (tests, labelled as tests; a file of its
own because the kernel evaluation of the executable checkers over the 4085 FAT entries of the smallest FAT16 volume
takes minutes).

The medium: `Props.C02Reopen.Example.disk1` (= `Props.C15Fs.Example16`): partition 0 at block 1, 4085 clusters of one
block, one FAT (blocks 2 … 17), root directory at block 18, cluster `c` at block `c + 17`; `A.TXT` = 600 bytes
(512 × 0xAA, 88 × 0xBB) in clusters 2 → 3.

* `crash_points_checked`: all crash points of `make_dir_in_dir` and of a truncating `open_file_in_dir` satisfy `CrashInvX`.
* `crashed_mkdir_mounted_listed_read`, `crashed_truncate_mounted_listed_read`: each crashed medium mounted by a fresh
  manager, the root listed, `A.TXT` opened and read.
* `mount_instance`, `continues_instance`, `delete_instance`: the theorems of `Props.C10Continue` applied (non-vacuity).
* `history_after_crash_checked`: a mutating history on the medium crashed inside `make_dir` keeps `FaultInv`.
* `lost_cluster_without_chain`, `sized_entry_without_cluster`: the two media that separate `CrashInv` from `FaultInv`.
-/
import Sdmmc.Props.C10Continue
import Sdmmc.Props.C15Fs

namespace Sdmmc.Props.C10Continue
open Sdmmc.Model Sdmmc.Model.Fat Sdmmc.Spec.Volume
open Sdmmc.Spec hiding run step NoFault Coherent
open Sdmmc.Lemmas.Mounted (FreshMgr)
open Sdmmc.Lemmas.CrashCont (Mounted VolInvLost)

namespace Example
open Sdmmc.Props.C02Reopen.Example (disk1 vol0 nameStr nameA B)
open Sdmmc.Lemmas.CrashCont (crashInvXB crashInvXB_sound sizesFitB sizesFitB_sound)
open Sdmmc.Lemmas.FaultHist (checkFaultInv checkFaultInv_sound)

/-- The smallest FAT16 volume (4085 clusters; partition 0 at block 1; `A.TXT` = 600 bytes, 512 × 0xAA then 88 × 0xBB, in
clusters 2 → 3: the medium of `Props.C02Reopen.Example` after its close, `Props.C15Fs.Example16`), the volume open
(handle 0) and the root directory open (handle 1). -/
def mgrC : Mgr :=
  { dev := { disk := disk1 }, nextId := 2, vols := [{ rawVolume := 0, idx := 0, vol := vol0 }],
    dirs := [{ rawDirectory := 1, rawVolume := 0, cluster := 4294967292 }], files := [],
    maxVols := 1, maxDirs := 4, maxFiles := 4 }
def g0 : Ghost := { vol := vol0, G := [[2, 3]], dirs := [] }

theorem mgrC_inv : VolInv mgrC g0 := Lemmas.VolCheck.checkVolInv_sound mgrC g0 (by decide +kernel)

theorem mgrC_invC : VolInvC mgrC g0 :=
  C10Inv.volInvC_of_quiescent mgrC_inv (fun c _ b2 hb => by
    have : fatBlock2 g0.vol c = none := rfl
    rw [this] at hb; cases hb) rfl

/-- The device writes of `make_dir_in_dir(root, "D")` and of `open_file_in_dir(root, "A.TXT", ReadWriteTruncate)`. -/
def wsMk : List (Nat × Block) := (step mgrC (.mkdir 1 [68])).2.writes
def wsTr : List (Nat × Block) := (step mgrC (.openFile 1 nameStr .ReadWriteTruncate)).2.writes
/-- The media a power cut can leave. -/
def dkMk (k : Nat) : Disk := crashDisk disk1 wsMk k
def dkTr (k : Nat) : Disk := crashDisk disk1 wsTr k

/-- `make_dir`: the FAT (cluster 4 marked), the new directory's block, the parent's block.  Truncating open: the FAT
twice (cluster 2 terminated; cluster 3 freed), then the root block (size 0). -/
theorem writes_evaluated : wsMk.map (·.1) = [2, 21, 18] ∧ wsTr.map (·.1) = [2, 2, 18] := by decide +kernel

def gD : Ghost := { vol := vol0, G := [[2, 3], [4]], dirs := [(4, 0)] }
def gT : Ghost := { vol := vol0, G := [[2]], dirs := [] }

/-- Evaluated (TEST): at EVERY crash point of the two calls the strengthened invariant `CrashInvX` holds (sound checker),
with the lost chains one expects: cluster 4 while `D` is not yet entered in its parent; cluster 3 between the cut of
`A.TXT`'s chain and its release.  `SizesFit` fails exactly between the cut and the slot rewrite of the truncating open. -/
theorem crash_points_checked :
    [crashInvXB vol0 (dkMk 0) g0 [], crashInvXB vol0 (dkMk 1) g0 [[4]], crashInvXB vol0 (dkMk 2) g0 [[4]],
     crashInvXB vol0 (dkMk 3) gD [], crashInvXB vol0 (dkTr 0) g0 [], crashInvXB vol0 (dkTr 1) gT [[3]],
     crashInvXB vol0 (dkTr 2) gT [], crashInvXB vol0 (dkTr 3) gT []] = [true, true, true, true, true, true, true, true] ∧
    [sizesFitB vol0 (dkMk 1) g0, sizesFitB vol0 (dkTr 0) g0, sizesFitB vol0 (dkTr 1) gT, sizesFitB vol0 (dkTr 2) gT,
     sizesFitB vol0 (dkTr 3) gT] = [true, true, false, false, true] := by decide +kernel


/-! ### Mounting the crashed media -/

/-- A fresh manager on the medium `d`. -/
def freshOn (d : Disk) : Mgr := { dev := { disk := d }, nextId := 0, maxVols := 1, maxDirs := 4, maxFiles := 4 }

theorem fresh_freshOn (d : Disk) : FreshMgr (freshOn d) :=
  ⟨rfl, rfl, rfl, rfl, rfl, fun i h => (by cases h), rfl⟩

/-- Mount, open the root, list it, open `A.TXT` read-only, ask its length, read 1000 bytes, read 10 more. -/
def probe : List Op :=
  [.openVolume 0, .openRoot 0, .list 1, .openFile 1 nameStr .ReadOnly, .length 2, .read 2 1000, .read 2 10]

/-- An answer, for display: a handle / a number `[[n]]`; listed entries as `name bytes ++ [size, cluster]`; bytes read
as `[[length, first byte]]`; an error shows as `none`. -/
def brief : Res Payload → Option (List (List Nat))
  | .ok (.handle h) => some [[h]]
  | .ok (.num n) => some [[n]]
  | .ok (.entries es) => some (es.map fun e => e.name.map (·.toNat) ++ [e.size, e.cluster])
  | .ok (.bytes b) => some [[b.length, (b.headD 0).toNat]]
  | .ok .unit => some []
  | _ => none

/-- `A.TXT`, `D`, `E.DAT` as listed: the 11 name bytes, then size and cluster. -/
def lA (size cluster : Nat) : List Nat := [65, 32, 32, 32, 32, 32, 32, 32, 84, 88, 84, size, cluster]
def lD (size cluster : Nat) : List Nat := [68, 32, 32, 32, 32, 32, 32, 32, 32, 32, 32, size, cluster]
def lE (size cluster : Nat) : List Nat := [69, 32, 32, 32, 32, 32, 32, 32, 68, 65, 84, size, cluster]

/-- Evaluated (TEST): the medium crashed after 0, 1, 2, 3 of the three writes of `make_dir_in_dir(root, "D")`: it mounts
(handle 0), the root opens (1), the listing shows `A.TXT` (600 bytes, cluster 2) — and `D` (cluster 4) only after the last
write —, `A.TXT` opens (2), has length 600, and `read` returns its 600 bytes (first byte 0xAA), then nothing. -/
theorem crashed_mkdir_mounted_listed_read :
    (List.range 4).map (fun k => (run (freshOn (dkMk k)) probe).2.map fun o => brief o.result) =
      [[some [[0]], some [[1]], some [lA 600 2], some [[2]], some [[600]], some [[600, 170]],
        some [[0, 0]]],
       [some [[0]], some [[1]], some [lA 600 2], some [[2]], some [[600]], some [[600, 170]],
        some [[0, 0]]],
       [some [[0]], some [[1]], some [lA 600 2], some [[2]], some [[600]], some [[600, 170]],
        some [[0, 0]]],
       [some [[0]], some [[1]], some [lA 600 2, lD 0 4], some [[2]], some [[600]],
        some [[600, 170]], some [[0, 0]]]] := by decide +kernel

/-- Evaluated (TEST): the medium crashed inside `open_file_in_dir(root, "A.TXT", ReadWriteTruncate)`.  Before the first
write: the file as it was.  After the chain was cut (1 or 2 writes) and before the slot was rewritten: the entry still
says 600 bytes over a ONE-cluster chain — the stale size in the direction "size > capacity", clause (3) of `FaultInv` —:
it mounts, lists, opens; `read(1000)` answers `Err(EndOfFile)` after the first cluster (an error, not a panic), a shorter
`read` succeeds.  After the last write: an empty file. -/
theorem crashed_truncate_mounted_listed_read :
    (List.range 4).map (fun k => (run (freshOn (dkTr k)) probe).2.map fun o => brief o.result) =
      [[some [[0]], some [[1]], some [lA 600 2], some [[2]], some [[600]], some [[600, 170]],
        some [[0, 0]]],
       [some [[0]], some [[1]], some [lA 600 2], some [[2]], some [[600]], none,
        some [[10, 170]]],
       [some [[0]], some [[1]], some [lA 600 2], some [[2]], some [[600]], none,
        some [[10, 170]]],
       [some [[0]], some [[1]], some [lA 0 2], some [[2]], some [[0]], some [[0, 0]],
        some [[0, 0]]]] := by decide +kernel

/-! ### The theorems applied -/

theorem dkMk_eq (k : Nat) : dkMk k = crashDisk mgrC.dev.disk (step mgrC (.mkdir 1 [68])).2.writes k := rfl

-- the elaborator must not evaluate the crashed media when it unifies (the kernel does, in `decide +kernel`)
attribute [local irreducible] dkMk dkTr

theorem dkMk1_inv : CrashInvX vol0 (dkMk 1) g0 [[4]] := crashInvXB_sound (by decide +kernel)

theorem dkMk1_mounts : mountPure ((dkMk 1).get 0) 0 (dkMk 1).get = .ok vol0 := by decide +kernel

/-- `crash_mount_establishes_faultinv` applied to the medium crashed after the first write of `make_dir`: the fresh
manager mounts into `FaultInv` with the lost chain `[4]`. -/
theorem mount_instance : ∃ t1, Mounted (freshOn (dkMk 1)) 0 vol0 t1 ∧ FaultInv t1 { g0 with vol := vol0 } [[4]] :=
  crash_mount_establishes_faultinv (fresh_freshOn _) dkMk1_inv dkMk1_mounts (SameGeom.refl _)

/-- … nothing but the lost chain is weakened there (`SizesFit`): `VolInv` with lost chains. -/
theorem mount_instance_fit : ∃ t1, Mounted (freshOn (dkMk 1)) 0 vol0 t1 ∧ VolInvLost [[4]] t1 { g0 with vol := vol0 } :=
  crash_mount_establishes_volInvLost (fresh_freshOn _) dkMk1_inv (sizesFitB_sound (by decide +kernel)) dkMk1_mounts
    (SameGeom.refl _)

theorem disk1_mounts : mountPure (mgrC.dev.disk.get 0) 0 mgrC.dev.disk.get = .ok vol0 := by decide +kernel

/-- `crash_point_continues` applied: C10Inv for the call `make_dir` issued in `mgrC`, crash point 1, and the residue
clauses by the checker. -/
theorem continues_instance :
    ∃ vm t1, SameGeom vol0 vm ∧ Mounted (freshOn (dkMk 1)) 0 vm t1 ∧ FaultInv t1 { g0 with vol := vm } [[4]] := by
  have hX := dkMk1_inv
  rw [dkMk_eq 1] at hX
  exact crash_point_continues mgrC (.mkdir 1 [68]) g0 mgrC_invC (C03All.name_ok_all _) 1 0 vol0 disk1_mounts (SameGeom.refl _)
    g0 [[4]] ⟨hX.lost, hX.empty⟩ hX.inv (freshOn (dkMk 1)) (fresh_freshOn _) (dkMk_eq 1)

/-- `delete_after_crash` applied: on the medium crashed inside `make_dir`, mounted, `delete_file_in_dir` (of whatever:
here through a handle that is not open — the theorem does not care) keeps `FaultInv` with the lost chain `[4]`. -/
theorem delete_instance :
    ∃ t1, Mounted (freshOn (dkMk 1)) 0 vol0 t1 ∧ ∃ gh', FaultInv (step t1 (.delete 1 nameStr)).1 gh' [[4]] ∧
      SameGeom vol0 gh'.vol ∧ (step t1 (.delete 1 nameStr)).1.dev.faults = [] ∧ Clean (step t1 (.delete 1 nameStr)).2.result :=
  delete_after_crash (fresh_freshOn _) dkMk1_inv dkMk1_mounts (SameGeom.refl _) 1 nameStr

/-! ### A mutating history after the crash -/

/-- The mounted state. -/
def t1 : Mgr := (run (freshOn (dkMk 1)) [.openVolume 0]).1

/-- Open the root (1), create `E.DAT` (2), write 600 bytes, close it, make the directory `D`, delete `A.TXT`, list. -/
def after : List Op :=
  [.openRoot 0, .openFile 1 [69, 46, 68, 65, 84] .ReadWriteCreate, .write 2 (List.replicate 600 7), .closeFile 2,
   .mkdir 1 [68], .delete 1 nameStr, .list 1]

/-- The ghost of a state: its volume record, the given chains and sub-directories. -/
def ghAt (s : Mgr) (G : List (List Nat)) (dirs : List (Nat × Nat)) : Ghost :=
  { vol := (s.vols.headD default).vol, G := G, dirs := dirs }

/-- The chains / sub-directories after each prefix: `E.DAT` gets clusters 5 → 6 (NOT the lost cluster 4), `D` cluster 7,
`A.TXT`'s chain 2 → 3 is released. -/
def ghosts : List (List (List Nat) × List (Nat × Nat)) :=
  [([[2, 3]], []), ([[2, 3]], []), ([[2, 3]], []), ([[2, 3], [5, 6]], []), ([[2, 3], [5, 6]], []),
   ([[2, 3], [5, 6], [7]], [(7, 0)]), ([[5, 6], [7]], [(7, 0)]), ([[5, 6], [7]], [(7, 0)])]

/-- Evaluated (TEST): after EVERY prefix of the history the sound checker of `FaultInv` accepts the state, with the lost
chain `[4]` unchanged and with the volume's own cluster size (no size is stale here); every call answers `Ok`; the final
listing shows `E.DAT` (600 bytes, cluster 5) and `D` (cluster 7). -/
theorem history_after_crash_checked :
    (List.range 8).map (fun k => checkFaultInv (run t1 (after.take k)).1
      (ghAt (run t1 (after.take k)).1 (ghosts.getD k ([], [])).1 (ghosts.getD k ([], [])).2) [[4]] 512) =
      [true, true, true, true, true, true, true, true] ∧
    (run t1 after).2.map (fun o => brief o.result) =
      [some [[1]], some [[2]], some [], some [], some [], some [],
       some [lE 600 5, lD 0 7]] := by decide +kernel

/-- … hence `FaultInv` after the whole history (soundness of the checker). -/
theorem history_after_crash_faultinv :
    FaultInv (run t1 after).1 (ghAt (run t1 after).1 [[5, 6], [7]] [(7, 0)]) [[4]] :=
  checkFaultInv_sound _ _ _ 512 (by decide +kernel)

/-! ### The two media that separate `CrashInv` from `FaultInv` -/

/-- `disk1` with the FAT entry of cluster 5 set to 6: cluster 5 is in use, referenced by nothing, and links to the FREE
cluster 6. -/
def diskA : Disk := disk1.set 2 (((disk1.get 2).take 10) ++ [6, 0] ++ ((disk1.get 2).drop 12))

/-- **(1) `CrashInv ∧ FatEntriesOK` does not give lost CHAINS** (TEST + proof).  `diskA` is crash-consistent, all its FAT
entries are valid (hence, `Props.C10Inv.crash_fsck_ok`, the crash variant of fsck is clean; evaluated outside the
kernel: no problem, cluster 5 listed as leaked) — and NO family of chains `Owns` it: no ghost, no `X`.  The library copes: a fresh manager mounts it, creates `E.DAT` and writes 1500 bytes —
through cluster 6, which the lost cluster links to — and lists both files. -/
theorem lost_cluster_without_chain :
    CrashInv vol0 diskA g0 ∧ FatEntriesOK vol0 diskA ∧ (∀ L, ¬ Owns vol0 diskA L) ∧
    (run (freshOn diskA) [.openVolume 0, .openRoot 0, .openFile 1 [69, 46, 68, 65, 84] .ReadWriteCreate,
      .write 2 (List.replicate 1500 7), .closeFile 2, .list 1]).2.map (fun o => brief o.result) =
      [some [[0]], some [[1]], some [[2]], some [], some [],
       some [lA 600 2, lE 1500 4]] := by
  refine ⟨Lemmas.VolCrash.Fsck.crashInvB_sound (by decide +kernel), Lemmas.VolCrash.Fsck.fatEntriesOKB_sound (by decide +kernel),
    ?_, by decide +kernel⟩
  exact Lemmas.CrashCont.no_owns_of_link_to_free (c := 5) (n := 6) (by decide +kernel) (by decide +kernel) (by decide +kernel)

/-- `disk1` with a second root entry `E.DAT`: cluster field 0, size 5. -/
def eBad : DirEntry :=
  { name := [69, 32, 32, 32, 32, 32, 32, 32, 68, 65, 84], mtime := default, ctime := default, attributes := 0x20, cluster := 0, size := 5, entryBlock := 18,
    entryOffset := 32 }
def diskB : Disk := disk1.set 18 (((disk1.get 18).take 32) ++ eBad.serialize .fat16 ++ zeros 448)

/-- **(2) `CrashInv ∧ FatEntriesOK` does not give `EmptyNoCluster`** (TEST).  `diskB` is crash-consistent, all FAT
entries valid (crash-fsck clean: as above); the entry `E.DAT` has no cluster and size 5 (`EmptyNoCluster` fails: checker).  A
fresh manager mounts it, opens `E.DAT` read-only, is told length 5 — and `read` returns FIVE BYTES OF `A.TXT`'s first
cluster (0xAA …): the model computes the block of "cluster 0" as the first data block (natural-number `0 - 2 = 0`; the
crate's `cluster - 2` underflows).  Appending to it allocates a cluster and stores size 8. -/
theorem sized_entry_without_cluster :
    CrashInv vol0 diskB g0 ∧ FatEntriesOK vol0 diskB ∧
    Lemmas.CrashCont.emptyNoClusterB vol0.fatType g0.dirs (dirSlots vol0 diskB g0.G) = false ∧
    (run (freshOn diskB) [.openVolume 0, .openRoot 0, .list 1, .openFile 1 [69, 46, 68, 65, 84] .ReadOnly, .length 2,
      .read 2 10]).2.map (fun o => brief o.result) =
      [some [[0]], some [[1]], some [lA 600 2, lE 5 0], some [[2]], some [[5]],
       some [[5, 170]]] := by
  refine ⟨Lemmas.VolCrash.Fsck.crashInvB_sound (by decide +kernel), Lemmas.VolCrash.Fsck.fatEntriesOKB_sound (by decide +kernel),
    by decide +kernel, by decide +kernel⟩

end Example

end Sdmmc.Props.C10Continue
