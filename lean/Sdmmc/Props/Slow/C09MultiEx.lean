/-
C09 with several open volumes — NON-VACUITY of `Props/C09Multi.lean` (tests, labelled as tests; evaluated by the kernel where
something is evaluated).

THE MEDIUM (`Props/Slow/SurviveNExample.lean`).  One device with a partition table holding TWO FAT16 partitions: partition 0 in
blocks 1 … 4103 — the medium of `Props.C02Reopen.Example`: `A.TXT` of the root directory open through handle 7, 600 bytes `B`
(512 × AA, 88 × BB) written to clusters 2 → 3, not yet flushed — and partition 1 in blocks 4104 … 8206, a second volume of the
same geometry with an empty root directory.  BOTH volumes are open (handles 3 and 6), root-directory handles 5 and 4.  The
state satisfies `VolInvNC` and the medium really mounts (`invNC`, `mount_ok2`).

WHAT IS SHOWN.
* `others` — a history after `close_file 7` that works on the OTHER volume and uses THE SAME NAME there: it creates `A.TXT`
  on volume 6 in the TRUNCATING mode `ReadWriteCreateOrTruncate`, writes 700 bytes, closes, makes a directory, DELETES `A.TXT`
  of volume 6, closes the directory handle, CLOSES VOLUME 6, opens the root directory of volume 3 again.  Syntactically this
  history names the file (`others_names_the_file`: `NeverNames` fails); no call of it is addressed to volume 3
  (`others_foreign`, evaluated), hence it is `UntouchedN`.
* `survives_example` — `flush_or_close_survives_multi` applies with ALL hypotheses discharged: `close_file 7` answers `Ok`, and
  at EVERY crash point of `others` any fresh manager mounts partition 0, opens the root directory, opens `A.TXT`, is told 600
  bytes and reads `B`.
* `survives_example_syntactic` — the syntactic criterion, on a history (`busy2`) that works on BOTH volumes; the `flush_file`
  case: the theorem applies (`flush_applies`).
-/
import Sdmmc.Props.C09Multi
import Sdmmc.Props.Slow.SurviveNExample

namespace Sdmmc.Props.C09Multi
open Sdmmc.Model Sdmmc.Model.Fat Sdmmc.Spec.Volume
open Sdmmc.Spec hiding run step NoFault Coherent
open Sdmmc.Props.C03Multi (CoveredN CoveredNRun)
open Sdmmc.Props.C01Multi (FreshRun)
open Sdmmc.Props.C09Hist (FreshReads)
open Sdmmc.Lemmas.Survive (Kept PathOn HistCrash NeverNames)
open Sdmmc.Lemmas.SurviveN (KeptN TargetsN UntouchedN ForeignN IsOpen ROAtN Mounts)
open Sdmmc.Lemmas.ReadRefines (MgrOK)
open Sdmmc.Lemmas.VolTree (fkey spos)
open Sdmmc.Lemmas.MainC09 (Shows)

namespace Example
open Sdmmc.Props.C02Reopen.Example Sdmmc.Props.C09Hist.Example Sdmmc.Lemmas.SurviveN.Example

/-- After `close_file 7`: everything on the OTHER volume (handle 6, root-directory handle 4), under the SAME NAME. -/
def others : List Op :=
  [.openFile 4 nameStr .ReadWriteCreateOrTruncate, .write 8 (List.replicate 700 0x55), .closeFile 8, .mkdir 4 [0x44],
   .delete 4 nameStr, .closeDir 4, .closeVolume 6, .openRoot 3, .hasOpen]

/-- A checker for `ForeignN` (test helper). -/
def foreignNB (hv : Nat) : Mgr → List Op → Bool
  | _, [] => true
  | s, op :: ops =>
    (match target s op with
      | none => true
      | some i =>
        match s.vols[i]? with
        | none => true
        | some vi => vi.rawVolume != hv) &&
    (match op with
      | .closeVolume v => v != hv
      | _ => true) && foreignNB hv (step s op).1 ops

theorem foreignN_of_check {hv : Nat} : ∀ {s : Mgr} {ops : List Op}, foreignNB hv s ops = true → ForeignN hv s ops
  | _, [], _ => trivial
  | s, op :: ops, h => by
    unfold foreignNB at h
    rw [Bool.and_eq_true, Bool.and_eq_true] at h
    refine ⟨fun i vi ht hvi => ?_, fun e => ?_, foreignN_of_check h.2⟩
    · have := h.1.1
      rw [ht] at this
      simp only [hvi] at this
      simpa using this
    · have := h.1.2
      rw [e] at this
      simp at this

/-- The state `close_file 7` leaves. -/
@[irreducible] def sC : Mgr := (step mgrN (.closeFile 7)).1

theorem sC_def : sC = (step mgrN (.closeFile 7)).1 := by unfold sC; rfl

/-- No call of `others` is addressed to volume 3, and none closes it — evaluated. -/
theorem others_foreign : ForeignN 3 sC others := by
  rw [sC_def]
  exact foreignN_of_check (by decide +kernel)

/-- Evaluated (TEST): every call of `others` answers `Ok`; the blocks each call writes — all in partition 1 (4104 … 8206);
afterwards only volume 3 is open.  `close_file 7` itself wrote block 18, the root directory of partition 0. -/
theorem others_evaluated :
    (run sC others).2.map (fun o => ((match o.result with | .ok _ => true | _ => false), o.writes.map (·.1))) =
      [(true, [4121]), (true, [4105, 4122, 4105, 4105, 4123]), (true, [4121]), (true, [4105, 4124, 4121]),
       (true, [4121, 4105, 4105, 4105]), (true, []), (true, []), (true, []), (true, [])] ∧
    (run sC others).1.vols.map (·.rawVolume) = [3] ∧ (step mgrN (.closeFile 7)).2.writes.map (·.1) = [18] := by
  rw [sC_def]
  decide +kernel

/-- Syntactically `others` DOES name the file: the purely syntactic criterion of the one-volume theorem would reject it. -/
theorem others_names_the_file : ¬ NeverNames file.entry.name others := by
  intro h
  rcases h.1 with e | e
  · cases e
  · exact e (by decide)

theorem others_covered : CoveredNRun mgrN (.closeFile 7 :: others) := by
  refine ⟨trivial, trivial, trivial, trivial, trivial, trivial, trivial, trivial, trivial, trivial, trivial⟩

theorem others_fresh : FreshRun mgrN (.closeFile 7 :: others) := by
  refine ⟨trivial, trivial, trivial, trivial, trivial, trivial, trivial, trivial, trivial, trivial, trivial⟩

/-- `close_file 7` answers `Ok` and leaves a `KeptN` state for `A.TXT` of the root directory of volume 3, no handle of the
volume at its slot. -/
theorem kept_after_close : (step mgrN (.closeFile 7)).2.result = .ok .unit ∧
    KeptN vol file.entry (chainOf ghA.G file.entry.cluster) [] 0 3 sC ∧ ∀ g, g ∈ volFiles sC 3 → fkey g ≠ fkey file := by
  obtain ⟨r1, h, _, hh, hall⟩ := close_establishes_keptN vol mgrN ghsN invNC 0 vinfo ghA rfl rfl (SameGeom.refl _) 7 0 file
    handle_foundN rfl rfl rfl
  have h0 : h = 0 := by
    have : h ∈ [0] := hh
    exact List.mem_singleton.1 this
  subst h0
  obtain ⟨hK, hnone⟩ := hall [] (.nil 0 (Lemmas.VolTree.zero_mem_dirIds _)) (fun _ hy => nomatch hy)
  rw [sC_def]
  exact ⟨r1, hK, hnone⟩

/-- Calls on the other volume are automatically untouched for the file — although they use its name. -/
theorem others_untouched : UntouchedN 3 0 file.entry.name (file.entry.entryBlock, file.entry.entryOffset) sC others := by
  have hc := others_covered.2
  have hf := others_fresh.2
  rw [← sC_def] at hc hf
  exact other_volume_calls_untouched storableA others sC kept_after_close.2.1 hc hf others_foreign

theorem content_BN : fileContent vol mgrN.dev.disk (chainOf ghA.G file.entry.cluster) file.entry.size = B := by decide +kernel

/-- What a fresh manager on the medium `dk` does: mount partition 0, open the root directory, open `A.TXT`, learn the length
600, read `B`. -/
def FreshReadsB (dk : Disk) : Prop :=
  ∀ (t0 : Mgr), MgrOK t0 → t0.dev.disk = dk → t0.vols = [] → t0.dirs = [] → t0.files = [] →
    0 < t0.maxVols → 0 < t0.maxDirs → 0 < t0.maxFiles → t0.nextId + 2 < 4294967296 →
    ∃ t1 t2 t3, openRawVolume 0 t0 = (.ok t0.nextId, t1) ∧ openRootDir t0.nextId t1 = (.ok (t0.nextId + 1), t2) ∧
      openFileInDir (t0.nextId + 1) nameStr .ReadOnly t2 = (.ok (t0.nextId + 2), t3) ∧
      fileLength (t0.nextId + 2) t3 = (.ok 600, t3) ∧
      ∀ n, ∃ t4, read (t0.nextId + 2) n t3 = (.ok (B.take n), t4)

theorem freshReadsB_of_shows {dk : Disk}
    (hS : Shows vol file.entry (chainOf ghA.G file.entry.cluster) [] 0 mgrN.dev.disk 0 dk) : FreshReadsB dk := by
  intro t0 a1 a2 a3 a4 a5 a6 a7 a8 a9
  obtain ⟨_, _, hrd⟩ := hS
  obtain ⟨t1, t2, dh, t3, t4, g1, g2, g3, g4, _, _, g6, g7⟩ := hrd t0 [] nameStr a1 a2 a3 a4 a5 a6 a7 a8 a9 trivial (by decide)
  have e3 : (Res.ok (t0.nextId + 1), t2) = (Res.ok dh, t3) := g3
  injection e3 with e31 e32
  injection e31 with e31
  subst e31 e32
  refine ⟨t1, t2, t4, g1, g2, g4, g6, fun n => ?_⟩
  obtain ⟨t5, hr, _, _⟩ := g7 n
  refine ⟨t5, ?_⟩
  rw [← content_BN]; exact hr

/-- **The property on the two-volume example, all hypotheses discharged**: `A.TXT` of volume 3 is closed; then, whatever
`others` does on volume 6 — under the same name —, at EVERY crash point of it (after any number of the block writes of any
call) the medium shows the file (`Shows`), and a fresh manager mounts partition 0, opens the root directory, opens `A.TXT`, is
told 600 bytes and reads `B`. -/
theorem survives_example : (step mgrN (.closeFile 7)).2.result = .ok .unit ∧
    ∀ dk, HistCrash sC others dk →
      Shows vol file.entry (chainOf ghA.G file.entry.cluster) [] 0 mgrN.dev.disk 0 dk ∧ FreshReadsB dk := by
  obtain ⟨hres, hall⟩ := flush_or_close_survives_multi vol mgrN ghsN invNC 0 vinfo ghA rfl rfl (SameGeom.refl _) 7 0 file
    handle_foundN rfl rfl rfl 0 [] rootN (.nil 0 (Lemmas.VolTree.zero_mem_dirIds _)) (fun _ hy => nomatch hy) 0 vol0 mount_ok2
    ⟨_, _, (sameGeom : vol = _)⟩ (.closeFile 7) (.inl rfl)
  refine ⟨hres, fun dk hk => ?_⟩
  rw [sC_def] at hk
  obtain ⟨j, op, n, hj, rfl⟩ := (C09Hist.histCrash_iff _ _ _).1 hk
  have hu := others_untouched
  rw [sC_def] at hu
  have hS := hall others others_covered others_fresh (.inl hu) j op n hj
  exact ⟨hS, freshReadsB_of_shows hS⟩

/-! ### The syntactic criterion; `flush_file` -/

/-- A history after the close that works on BOTH volumes: `B.TXT` is created and filled on volume 6, `C.TXT` on volume 3, a
directory is made next to `A.TXT`, `C.TXT` is deleted, `A.TXT` is opened read-only and read, volume 6 is closed.  It contains
no `open_file_in_dir` of "A.TXT" in a writing mode, no `delete_file_in_dir` of it, and no `close_volume 3`. -/
def busy2 : List Op :=
  [.openFile 4 [0x42, 0x2E, 0x54, 0x58, 0x54] .ReadWriteCreate, .write 8 (List.replicate 700 0x55),
   .openFile 5 [0x43, 0x2E, 0x54, 0x58, 0x54] .ReadWriteCreate, .write 9 (List.replicate 600 0x66), .closeFile 8, .closeFile 9,
   .mkdir 5 [0x44], .delete 5 [0x43, 0x2E, 0x54, 0x58, 0x54], .openFile 5 nameStr .ReadOnly, .read 10 4, .closeFile 10,
   .closeDir 4, .closeVolume 6]

/-- Evaluated (TEST): every call of `busy2` answers `Ok`; the calls on volume 6 write blocks of partition 1, the calls on
volume 3 blocks of partition 0 (2: FAT, 18: root directory, 21 …: data). -/
theorem busy2_evaluated :
    (run sC busy2).2.map (fun o => ((match o.result with | .ok _ => true | _ => false), o.writes.map (·.1))) =
      [(true, [4121]), (true, [4105, 4122, 4105, 4105, 4123]), (true, [18]), (true, [2, 21, 2, 2, 22]), (true, [4121]),
       (true, [18]), (true, [2, 23, 18]), (true, [18, 2, 2, 2]), (true, []), (true, []), (true, []), (true, []),
       (true, [])] := by
  rw [sC_def]
  decide +kernel

theorem busy2_names : NeverNames file.entry.name busy2 := by
  refine ⟨.inr (by decide), ⟨.inr (by decide), by decide, .inl rfl, trivial⟩⟩

theorem busy2_keeps_open : ∀ op, op ∈ busy2 → op ≠ .closeVolume 3 := by
  intro op hop e
  subst e
  unfold busy2 at hop
  simp only [List.mem_cons, List.not_mem_nil, or_false, reduceCtorEq, false_or, Op.closeVolume.injEq] at hop
  exact absurd hop (by decide)

theorem busy2_covered : CoveredNRun mgrN (.closeFile 7 :: busy2) := by
  refine ⟨trivial, trivial, trivial, trivial, trivial, trivial, trivial, trivial, trivial, trivial, trivial, trivial, trivial,
    trivial, trivial⟩

theorem busy2_fresh : FreshRun mgrN (.closeFile 7 :: busy2) := by
  refine ⟨trivial, trivial, trivial, trivial, trivial, trivial, trivial, trivial, trivial, trivial, trivial, trivial, trivial,
    trivial, trivial⟩

/-- **The syntactic criterion on the example**: at every crash point of `busy2` a fresh manager reads `B`. -/
theorem survives_example_syntactic : ∀ dk, HistCrash sC busy2 dk → FreshReadsB dk := by
  obtain ⟨_, hall⟩ := flush_or_close_survives_multi vol mgrN ghsN invNC 0 vinfo ghA rfl rfl (SameGeom.refl _) 7 0 file
    handle_foundN rfl rfl rfl 0 [] rootN (.nil 0 (Lemmas.VolTree.zero_mem_dirIds _)) (fun _ hy => nomatch hy) 0 vol0 mount_ok2
    ⟨_, _, (sameGeom : vol = _)⟩ (.closeFile 7) (.inl rfl)
  intro dk hk
  rw [sC_def] at hk
  obtain ⟨j, op, n, hj, rfl⟩ := (C09Hist.histCrash_iff _ _ _).1 hk
  exact freshReadsB_of_shows (hall busy2 busy2_covered busy2_fresh (.inr ⟨rfl, busy2_names, busy2_keeps_open⟩) j op n hj)

/-- The `flush_file` case (handle left open): the theorem applies to the example state. -/
example := flush_or_close_survives_multi vol mgrN ghsN invNC 0 vinfo ghA rfl rfl (SameGeom.refl _) 7 0 file
  handle_foundN rfl rfl rfl 0 [] rootN (.nil 0 (Lemmas.VolTree.zero_mem_dirIds _)) (fun _ hy => nomatch hy) 0 vol0 mount_ok2
  ⟨_, _, (sameGeom : vol = _)⟩ (.flush 7) (.inr ⟨rfl, by decide⟩)

/-- Part (a) on the example needs no mounting: slot, chain and contents at every crash point of `others`. -/
example (dk : Disk) (hk : HistCrash sC others dk) :=
  flushed_file_intact_multi vol file.entry (chainOf ghA.G file.entry.cluster) [] 0 3 sC kept_after_close.2.1 storableA others
    (by have := others_covered.2; rw [← sC_def] at this; exact this)
    (by have := others_fresh.2; rw [← sC_def] at this; exact this) others_untouched dk hk

end Example

end Sdmmc.Props.C09Multi
