/-
C07, tie to the source text, manager level (open modes and guards): `solve_mode_variant`, the
`Attributes` predicates, `delete_file_in_dir` and `open_dir` (volume_mgr.rs, filesystem/attributes.rs),
machine-translated into `Sdmmc.Gen.FunsMgr`, against `Model/Mgr.lean`.
-/
import Sdmmc.Gen.FunsMgr
import Sdmmc.Model.Mgr
import Sdmmc.Lemmas.GenMgr
import Sdmmc.Lemmas.GenBits
import Sdmmc.Props.C08GenM
import Sdmmc.Props.C01GenM

set_option linter.unusedSimpArgs false

namespace Sdmmc.Props.C07GenM

open Sdmmc Sdmmc.Model Sdmmc.Gen Sdmmc.Lemmas.GenMgr Sdmmc.Lemmas.DirMgr Sdmmc.Lemmas.GenBits
open Sdmmc.Props.C08GenM (get_file_by_id_eq get_volume_by_id_eq get_dir_by_id_eq file_is_open_eq generate_eq)

/-- `solve_mode_variant`, all six modes, both cases. -/
theorem solve_mode_variant_eq (mode : Mode) (isSome : Bool) :
    FunsMgr.solve_mode_variant mode isSome = solveModeVariant mode isSome := by
  cases mode <;> cases isSome <;> rfl

/-- `Attributes::is_directory`: `(self.0 & 0x10) == 0x10`. -/
theorem is_directory_eq (a : Nat) : FunsMgr.Attributes_is_directory a = Attr.isDirectory a := by
  unfold FunsMgr.Attributes_is_directory Attr.isDirectory
  rw [show ATTR_DIRECTORY = 16 from rfl]
  have := and_bit_eq a 4
  simp only [Nat.reducePow] at this
  simp only [this]

/-- `Attributes::is_read_only`: `(self.0 & 0x01) == 0x01`. -/
theorem is_read_only_eq (a : Nat) : FunsMgr.Attributes_is_read_only a = Attr.isReadOnly a := by
  unfold FunsMgr.Attributes_is_read_only Attr.isReadOnly
  have := and_bit_eq a 0
  simp only [Nat.reducePow, Nat.div_one] at this
  simp only [this]

theorem getDirById_state (raw : Nat) (s : Mgr) : (getDirById raw s).2 = s := by
  unfold getDirById; split <;> rfl
theorem getVolumeById_state (raw : Nat) (s : Mgr) : (getVolumeById raw s).2 = s := by
  unfold getVolumeById; split <;> rfl
theorem getDir_state (i : Nat) (s : Mgr) : (getDir i s).2 = s := by
  unfold getDir; split <;> rfl
theorem toSfn_state (name : List Nat) (s : Mgr) : (toSfn name s).2 = s := by
  unfold toSfn; cases Sfn.createFromStr name <;> rfl

/-- **`delete_file_in_dir` whole**: look the name up, refuse directories and open files, remove the
entry, then give the clusters back (two runs on the volume, which is one run of the sequence). -/
theorem delete_file_in_dir_eq (directory : Nat) (name : List Nat) (s : Mgr) :
    FunsMgr.VolumeManager_delete_file_in_dir directory name s =
      if s.locked then (.err .LockError, s) else deleteFileInDir directory name s := by
  unfold FunsMgr.VolumeManager_delete_file_in_dir deleteFileInDir
  simp only [bind_apply, get_apply, get_dir_by_id_eq, get_volume_by_id_eq]
  cases hl : s.locked
  · simp only [ite_apply, Bool.false_eq_true, if_false, bind_apply]
    have h1 := getDirById_state directory s
    rcases hg : getDirById directory s with ⟨r, s1⟩
    rw [hg] at h1; simp only at h1; subst h1
    cases r <;> simp only []
    rename_i di
    have h2 := getDir_state di s1
    rcases hd : getDir di s1 with ⟨r2, s2⟩
    rw [hd] at h2; simp only at h2; subst h2
    cases r2 <;> simp only []
    rename_i d
    have h3 := getVolumeById_state d.rawVolume s2
    rcases hv : getVolumeById d.rawVolume s2 with ⟨r3, s3⟩
    rw [hv] at h3; simp only at h3; subst h3
    cases r3 <;> simp only []
    rename_i vi
    have h4 := toSfn_state name s3
    rcases ht : toSfn name s3 with ⟨r4, s4⟩
    rw [ht] at h4; simp only at h4; subst h4
    cases r4 <;> simp only []
    rename_i sfn
    have hfiles := withVol_files vi (Fat.findDirectoryEntry d.cluster sfn) s4
    rcases hw : withVol vi (Fat.findDirectoryEntry d.cluster sfn) s4 with ⟨r5, s5⟩
    rw [hw] at hfiles; simp only at hfiles
    cases r5 <;> simp only [bind_apply, get_apply]
    rename_i e
    rw [is_directory_eq]
    cases hdir : Attr.isDirectory e.attributes
    · simp only [Bool.false_eq_true, if_false, ite_apply, pure_apply, bind_apply, get_apply, file_is_open_eq]
      cases hfo : fileIsOpen s5 d.rawVolume e
      · simp only [Bool.false_eq_true, if_false, pure_apply]
        have h6 := getVolumeById_state d.rawVolume s5
        rcases hv2 : getVolumeById d.rawVolume s5 with ⟨r6, s6⟩
        rw [hv2] at h6; simp only at h6; subst h6
        cases r6 <;> simp only []
        rename_i vi2
        have hseq := withVol_seq vi2 (Fat.deleteDirectoryEntry d.cluster sfn) (Fat.freeClusterChain e.cluster) s6
        rw [mbind_apply] at hseq
        rw [← hseq]
        rcases withVol vi2 (Fat.deleteDirectoryEntry d.cluster sfn) s6 with ⟨r7, s7⟩
        cases r7 <;> simp only [get_apply, bind_apply]
        rcases withVol vi2 (Fat.freeClusterChain e.cluster) s7 with ⟨r8, s8⟩
        cases r8 <;> simp only [get_apply, bind_apply, pure_apply]
      · simp only [if_true, fail_apply]
    · simp only [if_true, ite_apply, fail_apply]
  · simp only [ite_apply, if_true, fail_apply]

/-! ### `open_dir` -/

theorem this_dir_eq : FunsMgr.ShortFileName_this_dir = Sfn.thisDir := by decide

theorem getVolumeById_valid {raw i : Nat} {s s' : Mgr} (h : getVolumeById raw s = (.ok i, s')) :
    ∃ vi, s.vols[i]? = some vi := by
  unfold getVolumeById at h
  split at h
  · rename_i j hj
    cases h
    have := List.findIdx?_eq_some_iff_getElem.mp hj
    obtain ⟨hlt, _⟩ := this
    exact ⟨s.vols[i], List.getElem?_eq_getElem hlt⟩
  · cases h

theorem getVolInfo_ok (s : Mgr) (i : Nat) (vi : VolInfo) (h : s.vols[i]? = some vi) : getVolInfo i s = (.ok vi, s) := by
  unfold getVolInfo; rw [h]
theorem getDir_ok (s : Mgr) (i : Nat) (d : DirInfo) (h : s.dirs[i]? = some d) : getDir i s = (.ok d, s) := by
  unfold getDir; rw [h]
theorem getDir_ok_inv {s s' : Mgr} {i : Nat} {d : DirInfo} (h : getDir i s = (.ok d, s')) : s.dirs[i]? = some d := by
  unfold getDir at h
  split at h
  · rename_i d' hd; cases h; exact hd
  · cases h

theorem withVol_dirs {α : Type} (volIdx : Nat) (f : F α) (s : Mgr) : (withVol volIdx f s).2.dirs = s.dirs := by
  cases h : s.vols[volIdx]? with
  | none => rw [withVol_none volIdx f s h]
  | some vi => rw [withVol_eq volIdx f s vi h]
theorem withVol_maxDirs {α : Type} (volIdx : Nat) (f : F α) (s : Mgr) : (withVol volIdx f s).2.maxDirs = s.maxDirs := by
  cases h : s.vols[volIdx]? with
  | none => rw [withVol_none volIdx f s h]
  | some vi => rw [withVol_eq volIdx f s vi h]
theorem withVol_nextId {α : Type} (volIdx : Nat) (f : F α) (s : Mgr) : (withVol volIdx f s).2.nextId = s.nextId := by
  cases h : s.vols[volIdx]? with
  | none => rw [withVol_none volIdx f s h]
  | some vi => rw [withVol_eq volIdx f s vi h]
theorem withVol_volAt {α : Type} (volIdx : Nat) (f : F α) (s : Mgr) (vi : VolInfo) (h : s.vols[volIdx]? = some vi) :
    ∃ vi', (withVol volIdx f s).2.vols[volIdx]? = some vi' ∧ vi'.rawVolume = vi.rawVolume := by
  rw [withVol_eq volIdx f s vi h]
  have hlt : volIdx < s.vols.length := by
    rcases Nat.lt_or_ge volIdx s.vols.length with hl | hl
    · exact hl
    · rw [List.getElem?_eq_none hl] at h; cases h
  refine ⟨{ vi with vol := (f { dev := s.dev, cache := s.cache, vol := vi.vol }).2.vol }, ?_, rfl⟩
  simp only [List.getElem?_set_self hlt]

/-- **`open_dir` whole**: "." opens the parent again; any other name is looked up and must be a
directory.  (The second capacity check — the `push(..).map_err(|_| TooManyOpenDirs)` — cannot fail
after the first one; the model omits it.) -/
theorem open_dir_eq (parentDir : Nat) (name : List Nat) (s : Mgr) :
    FunsMgr.VolumeManager_open_dir parentDir name s =
      if s.locked then (.err .LockError, s) else openDir parentDir name s := by
  unfold FunsMgr.VolumeManager_open_dir openDir
  simp only [bind_apply, get_apply, get_dir_by_id_eq, get_volume_by_id_eq, generate_eq, this_dir_eq]
  cases hl : s.locked
  · simp only [ite_apply, Bool.false_eq_true, if_false, bind_apply]
    by_cases hfull : s.dirs.length ≥ s.maxDirs
    · simp only [hfull, if_true, fail_apply]
    simp only [hfull, if_false, pure_apply]
    have h1 := getDirById_state parentDir s
    rcases hg : getDirById parentDir s with ⟨r, s1⟩
    rw [hg] at h1; simp only at h1; subst h1
    cases r <;> simp only []
    rename_i di
    have h2 := getDir_state di s1
    rcases hd : getDir di s1 with ⟨r2, s2⟩
    rw [hd] at h2; simp only at h2; subst h2
    cases r2 <;> simp only []
    rename_i d
    have hdi := getDir_ok_inv hd
    have h3 := getVolumeById_state d.rawVolume s2
    rcases hv : getVolumeById d.rawVolume s2 with ⟨r3, s3⟩
    have hvalid := fun i (h : r3 = .ok i) => getVolumeById_valid (by rw [hv, h] : getVolumeById d.rawVolume s2 = (.ok i, s3))
    rw [hv] at h3; simp only at h3; subst h3
    cases r3 <;> simp only []
    rename_i vidx
    obtain ⟨vi, hvi⟩ := hvalid vidx rfl
    have h4 := toSfn_state name s3
    rcases ht : toSfn name s3 with ⟨r4, s4⟩
    rw [ht] at h4; simp only at h4; subst h4
    cases r4 <;> simp only []
    rename_i sfn
    rw [getVolInfo_ok s4 vidx vi hvi]
    simp only [ite_apply]
    by_cases hthis : sfn = Sfn.thisDir
    · simp only [hthis, if_true, bind_apply, generate]
      have hvi' : ({ s4 with nextId := (s4.nextId + 1) % 4294967296 } : Mgr).vols[vidx]? = some vi := hvi
      have hdi' : ({ s4 with nextId := (s4.nextId + 1) % 4294967296 } : Mgr).dirs[di]? = some d := hdi
      simp only [getVolInfo_ok _ vidx vi hvi', getDir_ok _ di d hdi', get_apply, hfull, if_false, ite_apply,
        modify_apply, bind_apply, pure_apply]
    · simp only [hthis, if_false, bind_apply, get_apply, getDir_ok s4 di d hdi]
      have hdirs := withVol_dirs vidx (Fat.findDirectoryEntry d.cluster sfn) s4
      have hmax := withVol_maxDirs vidx (Fat.findDirectoryEntry d.cluster sfn) s4
      obtain ⟨vi', hvi', hraw⟩ := withVol_volAt vidx (Fat.findDirectoryEntry d.cluster sfn) s4 vi hvi
      rcases hw : withVol vidx (Fat.findDirectoryEntry d.cluster sfn) s4 with ⟨r5, s5⟩
      rw [hw] at hdirs hmax hvi'; simp only at hdirs hmax hvi'
      cases r5 <;> simp only [bind_apply, pure_apply, get_apply]
      rename_i e
      rw [is_directory_eq]
      cases hdir : Attr.isDirectory e.attributes
      · simp only [Bool.false_eq_true, not_false_eq_true, if_true, ite_apply, fail_apply, Bool.not_false]
      · simp only [not_true_eq_false, if_false, ite_apply, pure_apply, bind_apply, generate, Bool.not_true,
          Bool.false_eq_true]
        have hvi'' : ({ s5 with nextId := (s5.nextId + 1) % 4294967296 } : Mgr).vols[vidx]? = some vi' := hvi'
        have hfull5 : ¬ s5.dirs.length ≥ s5.maxDirs := by rw [hdirs, hmax]; exact hfull
        simp only [getVolInfo_ok _ vidx vi' hvi'', get_apply, hfull5, if_false, ite_apply, modify_apply, bind_apply,
          pure_apply, hraw]
  · simp only [ite_apply, if_true, fail_apply]

/-! ### `open_file_in_dir` -/

theorem getVolumeById_raw {raw i : Nat} {s s' : Mgr} {vi : VolInfo} (h : getVolumeById raw s = (.ok i, s'))
    (hvi : s.vols[i]? = some vi) : vi.rawVolume = raw := by
  unfold getVolumeById at h
  split at h
  · rename_i j hj
    cases h
    obtain ⟨hlt, hp, _⟩ := List.findIdx?_eq_some_iff_getElem.mp hj
    rw [List.getElem?_eq_getElem hlt] at hvi
    cases hvi
    simpa using hp
  · cases h

theorem seek_end0 (f : FileInfo) : (FunsMgr.FileInfo_seek_from_end f 0).2 = { f with currentOffset := f.entry.size } := by
  unfold FunsMgr.FileInfo_seek_from_end
  simp only [show ¬ 0 > f.entry.size from Nat.not_lt_zero _, if_false, Nat.sub_zero]

/-- **`open_file_in_dir` whole**, unlocked: the table-full guard, the look-up, the mode decision table
(`NotFound` is acceptable exactly for the three creating modes; an open file is refused;
`solve_mode_variant`; `ReadWriteCreate` on an existing name is `FileAlreadyExists`; a read-only entry is
refused for every writing mode; a directory is refused), creation through `write_new_directory_entry`,
`ReadOnly` / `ReadWriteAppend` (positioned at the end) / `ReadWriteTruncate` (chain truncated, length 0, new
modification time, entry written) and the push of the new `FileInfo` — equal to the model's `openFileInDir`
for every state, name and mode. -/
theorem open_file_in_dir_eq (directory : Nat) (name : List Nat) (mode : Mode) (s : Mgr) (hl : s.locked = false) :
    FunsMgr.VolumeManager_open_file_in_dir directory name mode s = openFileInDir directory name mode s := by
  unfold FunsMgr.VolumeManager_open_file_in_dir openFileInDir
  simp only [bind_apply, get_apply, get_dir_by_id_eq, get_volume_by_id_eq, generate_eq, hl, ite_apply,
    Bool.false_eq_true, if_false]
  by_cases hfull : s.files.length ≥ s.maxFiles
  · simp only [hfull, if_true, fail_apply]
  simp only [hfull, if_false, pure_apply]
  have h1 := getDirById_state directory s
  rcases hg : getDirById directory s with ⟨r, s1⟩
  rw [hg] at h1; simp only at h1; subst h1
  cases r <;> simp only []
  rename_i di
  have h2 := getDir_state di s1
  rcases hd : getDir di s1 with ⟨r2, s2⟩
  rw [hd] at h2; simp only at h2; subst h2
  cases r2 <;> simp only []
  rename_i d
  have hdi := getDir_ok_inv hd
  have h3 := getVolumeById_state d.rawVolume s2
  rcases hv : getVolumeById d.rawVolume s2 with ⟨r3, s3⟩
  have hvalid := fun i (h : r3 = .ok i) => getVolumeById_valid (by rw [hv, h] : getVolumeById d.rawVolume s2 = (.ok i, s3))
  have hraw := fun i vi (h : r3 = .ok i) (hvi : s2.vols[i]? = some vi) =>
    getVolumeById_raw (by rw [hv, h] : getVolumeById d.rawVolume s2 = (.ok i, s3)) hvi
  rw [hv] at h3; simp only at h3; subst h3
  cases r3 <;> simp only []
  rename_i vidx
  obtain ⟨vi, hvi⟩ := hvalid vidx rfl
  have hvraw := hraw vidx vi rfl hvi
  rw [getVolInfo_ok s3 vidx vi hvi]
  simp only []
  have h4 := toSfn_state name s3
  rcases ht : toSfn name s3 with ⟨r4, s4⟩
  rw [ht] at h4; simp only at h4; subst h4
  cases r4 <;> simp only []
  rename_i sfn
  simp only [getDir_ok s4 di d hdi, attempt_apply, solve_mode_variant_eq, is_read_only_eq, is_directory_eq,
    file_is_open_eq, show FunsMgr.Attributes_create_from_fat 0 = 0 from rfl, Sdmmc.Props.C01GenM.update_length_eq, seek_end0]
  have hfiles := withVol_files vidx (Fat.findDirectoryEntry d.cluster sfn) s4
  have hdirs := withVol_dirs vidx (Fat.findDirectoryEntry d.cluster sfn) s4
  have hclock := withVol_clock vidx (Fat.findDirectoryEntry d.cluster sfn) s4
  obtain ⟨vi', hvi', hraw'⟩ := withVol_volAt vidx (Fat.findDirectoryEntry d.cluster sfn) s4 vi hvi
  rcases hw : withVol vidx (Fat.findDirectoryEntry d.cluster sfn) s4 with ⟨r5, s5⟩
  rw [hw] at hfiles hdirs hclock hvi'; simp only at hfiles hdirs hclock hvi'
  have hdi5 : s5.dirs[di]? = some d := by rw [hdirs]; exact hdi
  cases r5 with
  | ok e =>
    simp only [pure_apply, bind_apply, hvraw, ne_eq, reduceCtorEq, not_false_eq_true, decide_true, ite_apply,
      get_apply]
    cases hfo : fileIsOpen s5 d.rawVolume e
    case true => simp only [if_true, fail_apply]
    case false =>
      simp only [Bool.false_eq_true, if_false]
      have hsolve2 : ∀ m, solveModeVariant (solveModeVariant m true) true = solveModeVariant m true := by
        intro m; cases m <;> rfl
      rw [hsolve2]
      cases hm : solveModeVariant mode true
      all_goals simp only [Option.isSome, hm]
      all_goals simp only [solveModeVariant, reduceCtorEq, if_false, if_true, fail_apply, true_and, and_true,
        not_true_eq_false, not_false_eq_true, and_false, ne_eq, ite_apply, bind_apply, pure_apply, hfo,
        Bool.false_eq_true, FileInfo.updateLength]
      case ReadOnly =>
        cases Attr.isDirectory e.attributes <;> simp only [Bool.false_eq_true, if_false, if_true]
        all_goals simp only [generate, modify_apply, bind_apply]
      case ReadWriteAppend =>
        cases Attr.isReadOnly e.attributes <;> simp only [Bool.false_eq_true, if_false, if_true]
        cases Attr.isDirectory e.attributes <;> simp only [Bool.false_eq_true, if_false, if_true]
        all_goals simp only [generate, modify_apply, bind_apply]
      case ReadWriteTruncate =>
        cases Attr.isReadOnly e.attributes <;> simp only [Bool.false_eq_true, if_false, if_true]
        cases Attr.isDirectory e.attributes <;> simp only [Bool.false_eq_true, if_false, if_true]
        simp only [generate, bind_apply]
        have hck := withVol_clock vidx (Fat.truncateClusterChain e.cluster) { s5 with nextId := (s5.nextId + 1) % 4294967296 }
        rcases hw6 : withVol vidx (Fat.truncateClusterChain e.cluster) { s5 with nextId := (s5.nextId + 1) % 4294967296 } with ⟨r6, s6⟩
        rw [hw6] at hck
        simp only at hck
        cases r6 <;> simp only [get_apply, bind_apply, pure_apply]
        rw [hck]
        rcases withVol vidx _ s6 with ⟨r7, s7⟩
        cases r7 <;> simp only [get_apply, bind_apply, pure_apply, modify_apply]
      case ReadWriteCreateOrTruncate => cases mode <;> simp [solveModeVariant] at hm
      case ReadWriteCreateOrAppend => cases mode <;> simp [solveModeVariant] at hm
  | err er =>
    cases er
    case NotFound =>
      by_cases hcreate : mode = .ReadWriteCreate ∨ mode = .ReadWriteCreateOrTruncate ∨ mode = .ReadWriteCreateOrAppend
      · have hc' : ((decide (mode = Mode.ReadWriteCreate) || decide (mode = Mode.ReadWriteCreateOrTruncate)) ||
            decide (mode = Mode.ReadWriteCreateOrAppend)) = true := by
          rcases hcreate with h | h | h <;> simp [h]
        simp only [hc', hcreate, if_true, pure_apply, bind_apply, get_apply, ne_eq, not_true_eq_false, decide_false,
          ite_apply]
        have hsv : solveModeVariant mode false = .ReadWriteCreate := by
          rcases hcreate with h | h | h <;> subst h <;> rfl
        simp only [hsv, Option.isSome, if_true, if_false, getDir_ok s5 di d hdi5, show CLUSTER_EMPTY = 0 from rfl,
          bind_apply]
        rcases getVolumeById d.rawVolume s5 with ⟨r6, s6⟩
        cases r6 <;> simp only []
        rcases withVol _ _ s6 with ⟨r7, s7⟩
        cases r7 <;> simp only [generate, modify_apply, bind_apply, pure_apply]
      · have hc' : ¬ ((decide (mode = Mode.ReadWriteCreate) || decide (mode = Mode.ReadWriteCreateOrTruncate)) ||
            decide (mode = Mode.ReadWriteCreateOrAppend)) = true := by
          simp only [Bool.or_eq_true, decide_eq_true_eq]; intro h; apply hcreate; rcases h with (h | h) | h <;> simp [h]
        simp only [hc', hcreate, if_false, fail_apply, bind_apply, ite_apply, Bool.false_eq_true]
    all_goals simp only [fail_apply, bind_apply, lift_apply, Res.bind]
  | panic m => simp only [panic_apply, bind_apply, lift_apply, Res.bind]
  | diverged => simp only [bind_apply, lift_apply, Res.bind]; rfl

theorem open_file_in_dir_locked (directory : Nat) (name : List Nat) (mode : Mode) (s : Mgr) (hl : s.locked = true) :
    FunsMgr.VolumeManager_open_file_in_dir directory name mode s = (.err .LockError, s) := by
  unfold FunsMgr.VolumeManager_open_file_in_dir
  simp only [bind_apply, get_apply, hl, ite_apply, if_true, fail_apply]

end Sdmmc.Props.C07GenM
