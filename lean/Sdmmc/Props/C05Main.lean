/-
C05 — HEADLINE THEOREM.

PROPERTY (verbatim from `properties.jsonl`).
statement:
  "When no file is open, the set of clusters marked in use equals exactly the union of the chains of the live files
  and directories, so deleting or truncating a file makes its clusters available again. A volume accepts data up to
  its nominal capacity and no further: a write that does not fit reports an out-of-space error, everything reported
  as written is readable, and a fill / delete / refill cycle can be repeated indefinitely."
quantifier:
  "all histories mixing create, extend, truncate, delete and mkdir, including ones that drive the volume to exactly
  full and back, on all geometries (in particular cluster counts for which the last FAT sector is exactly full and
  ones where it is not)"

HOW TO READ `C05_main`.
* `run s ops` runs the history `ops` of API calls from the manager state `s` (`Model/Mgr.lean`); `(run s (ops.take k)).1` is
  the state after the first `k` calls, whatever they answered (create, extend, truncate, delete, mkdir, failing calls).
* `VolInvN s ghs`, `MirrorN s ghs`, `proj s i` (`Spec/VolumeN.lean`): the invariant of API histories with one ghost `gh` per
  open volume (volume record `gh.vol`, the list `gh.G` of ALL cluster chains of the volume, the sub-directories `gh.dirs`),
  identical FAT copies, and the manager as volume record `i` sees it: the same device and cache, its own volume record,
  its own open directories and files.  The clauses of `Space t gh` are about `t := proj … i`: they speak about ONE volume of
  a manager that may have several open; clause (same) says that a call addressed to that volume answers, reads and
  writes on the real manager exactly what it does on `t`.
* `isUsed v d c` — cluster `c` is a data cluster (`2 ≤ c < endCluster v`) whose FAT entry is neither 0 nor the bad mark;
  `isFree` — the entry is 0; `freeCount v d` — the number of free data clusters; `Full`; `Chain v d c cs` — `cs` is the FAT
  chain starting at `c` (`Spec/Chain.lean`, `Spec/Forest.lean`, `Spec/DataPlane.lean`).  `chainOf G c` — the chain of `G`
  whose first cluster is `c` (`[]` if none, e.g. `c = 0`); `dirSlots`, `objects`, `entries`, `sName`, `sCluster`, `isDirE`,
  `pendOf` (the open file sitting at a slot), `rootHead`, `dirIds`, `dirIdOf` (`Spec/Volume.lean`).
* `clusterBytesLen v` = bytes per cluster; `C05Capacity.needed n0 total cb = max (max n0 1) ⌈total / cb⌉` — the clusters a
  file of `n0` clusters needs to hold `total` bytes (an empty file gets its first cluster even for a zero-byte write);
  `absFile v d f cs` — the byte-array view of an open file (`Spec/Chain.lean`), `ByteFile.write` the model's write.
* `roundsState dir name bss n t` — the state after `n` rounds "create `name` in `dir` (handle `nextId`), write the buffers
  `bss j`, close, delete `name`"; `RoundAnswers dir name bs cap t` — the answers of the next round from `t`: create `Ok`,
  every write of `bs` `Ok`, every further non-empty write (within `MAX_FILE_SIZE`) `DiskFull`, close `Ok`, delete `Ok`
  (`Lemmas/CycleRound.lean`, quoted by `roundsState_def` / `roundAnswers_def` below).

CLAUSES — for EVERY `k` (the state after every prefix of the history), for EVERY open volume (record `i`, ghost `gh`,
`t := proj … i`), in the order of the sentence:
  (exact)    when no file of the volume is open: every list of `gh.G` is the FAT chain of its first cluster, a cluster is
             marked in use IFF it lies in one of them, and the first clusters of these chains are — one to one, as a
             permutation — the FAT32 root, the sub-directories and the first clusters named by the live file entries:
             the set in use is exactly the union of the chains of the live files and directories;
  (delete)   deleting a plain file that is not open answers `Ok`; afterwards the chain list is the old one WITHOUT the chain
             of the file, and the number of free clusters has grown by the length of that chain (so by (exact) and
             (capacity) they are available again);
  (truncate) opening such a file (not read-only) with `ReadWriteTruncate` answers the handle and gives back the chain
             BEHIND ITS FIRST CLUSTER: free clusters `+ (length - 1)`.  The first cluster stays with the file (this is what
             the crate does; it is not leaked: the file still owns it);
  (capacity) a `write` of `data` through any open writable file handle, at offset `o` with `o + |data| ≤ MAX_FILE_SIZE`,
             on a file of `n0` clusters with `F` free clusters: it answers `Ok` IFF `needed n0 (o + |data|) cb - n0 ≤ F`,
             and an out-of-space error (`DiskFull`, or `NotEnoughSpace` exactly when the file has no cluster and none is
             free) IFF not — there is no third answer; `Ok` stores everything; an out-of-space answer stores exactly the
             `k` bytes that fit, `o + k = (n0 + F) * cb`, and leaves NO free cluster (the volume took data up to its
             capacity and no further); and whatever was stored is readable: seek to any `p` and `read n` answer the bytes
             `(bytes'.drop p).take n` of the byte-array model `bytes'` = old contents with `data.take k` written at `o`;
  (cycle)    from a state with no file of the volume open, a directory handle, a name the directory does not hold and a
             free directory slot, `F ≥ 1` free clusters (`F * cb ≤ MAX_FILE_SIZE`): after ANY number `n` of rounds
             create / fill with `F * cb` bytes (any number of calls of any sizes) / close / delete the volume has the
             same chains, the same sub-directories, `F` free clusters and no open file, and round `n + 1` again
             accepts exactly `F * cb` bytes (`RoundAnswers`): the cycle can be repeated indefinitely;
  (same)     a call addressed to this volume gives on the real manager the output (answer, device writes, device reads)
             it gives on `t`, and the states correspond (`ProjRel`: up to the order of the handle tables).
and, for all geometries (all volume records, all media, any start / end cluster):
  (search)   the free-cluster search — the function MACHINE-TRANSLATED from `FatVolume::find_next_free_cluster`
             (`Gen/FunsM.lean`; `Props.C05GenM`: equal to the model's) — returns the FIRST free entry of `[start, end)`
             and `NotEnoughSpace` only if there is none: never an entry behind the last cluster (slack of the last FAT
             sector), never a miss (the last free cluster is usable).

HYPOTHESES.
* `VolInvN s ghs`, `MirrorN s ghs` at the start: hold of a fresh manager (`Lemmas.Main.fresh_manager_invariant`, second
  example below), hence of every state a covered history reaches (`Props.C03Multi.api_history_invariant_multi`).
* `CoveredNRun s ops`: about `open_volume` calls that SUCCEED only — fresh volume handle, partition overlapping no open
  one, the mounted record describes a sound volume with identical FAT copies (`Props.C15Fs.mount_establishes_invariant`).
* In (capacity): `o + |data| ≤ MAX_FILE_SIZE` — beyond it a write is cut at `MAX_FILE_SIZE` and answers `DiskFull` although
  the volume need not be full (`Props.C01Write.write_refines_unbounded`): not an out-of-space situation.
* In (cycle): the directory has a free slot — otherwise the create makes the DIRECTORY grow by one cluster, which it
  keeps (`Props.C05Cycle.create_counts`): the capacity of later rounds is `F - 1`, nothing leaks.
* In (search): no scheduled device fault, coherent cache (device faults are C11), enough fuel for the translated loops.
No hypothesis on names (`Props.C03All.name_ok_all`), on the geometry beyond `WFGeom` (part of the invariant: any cluster
count, any blocks per cluster, FAT16 / FAT32, one or two FATs), on fill level.

STATUS: PROVED IN FULL.  Facts of the model (= of the Rust) a reader might not expect, all visible in the statement:
truncation keeps the first cluster; a zero-byte write to an empty file needs a cluster (`needed … ≥ 1`), so on a full
volume it answers `NotEnoughSpace` (`Props.C05Capacity.Example.zero_write_on_full`).  With device faults the exactness is
false (a failed FAT write can leak a cluster: `Props.C05Forest.Example.fault_leaks`); that is C11's subject.
-/
import Sdmmc.Lemmas.MainC05
import Sdmmc.Lemmas.MainBase
import Sdmmc.Props.C03Multi
import Sdmmc.Props.C05
import Sdmmc.Props.C05GenM
import Sdmmc.Props.C05Forest

namespace Sdmmc.Props.C05Main
open Sdmmc.Model Sdmmc.Model.Fat Sdmmc.Spec.Volume
open Sdmmc.Spec hiding run step NoFault Coherent
open Sdmmc.Props.C03Multi (CoveredNRun)
open Sdmmc.Props.C05Capacity (needed)
open Sdmmc.Lemmas.Cycle (roundState roundsState RoundAnswers)
open Sdmmc.Lemmas.Capacity (writeMany)
open Sdmmc.Lemmas.VolN (LabelFresh ProjRel)

/-! ### The two definitions of `Lemmas/CycleRound.lean` the clause (cycle) speaks about -/

theorem roundsState_def (directory : Nat) (name : List Nat) (bss : Nat → List Bytes) (n : Nat) (s : Mgr) :
    roundsState directory name bss 0 s = s ∧
    roundsState directory name bss (n + 1) s =
      (deleteFileInDir directory name
        (closeFile (roundsState directory name bss n s).nextId
          (writeMany (roundsState directory name bss n s).nextId (bss n)
            (openFileInDir directory name .ReadWriteCreate (roundsState directory name bss n s)).2).2).2).2 := ⟨rfl, rfl⟩

theorem roundAnswers_def (directory : Nat) (name : List Nat) (bs : List Bytes) (cap : Nat) (s : Mgr) :
    RoundAnswers directory name bs cap s ↔
      (openFileInDir directory name .ReadWriteCreate s).1 = .ok s.nextId ∧
      (writeMany s.nextId bs (openFileInDir directory name .ReadWriteCreate s).2).1 = bs.map (fun _ => .ok ()) ∧
      (∀ data : Bytes, data ≠ [] → cap + data.length ≤ Gen.MAX_FILE_SIZE →
        (Model.write s.nextId data (writeMany s.nextId bs (openFileInDir directory name .ReadWriteCreate s).2).2).1 =
          .err .DiskFull) ∧
      (closeFile s.nextId (writeMany s.nextId bs (openFileInDir directory name .ReadWriteCreate s).2).2).1 = .ok () ∧
      (deleteFileInDir directory name
        (closeFile s.nextId (writeMany s.nextId bs (openFileInDir directory name .ReadWriteCreate s).2).2).2).1 = .ok () :=
  Iff.rfl

/-! ### The clauses, for one volume -/

/-- The clauses of the sentence, for one volume: `t` the manager as the volume sees it, `gh` its ghost. -/
structure Space (t : Mgr) (gh : Ghost) : Prop where
  exact : t.files = [] →
    (∀ cs, cs ∈ gh.G → Chain gh.vol t.dev.disk (cs.headD 0) cs) ∧
    (∀ c, isUsed gh.vol t.dev.disk c ↔ ∃ cs, cs ∈ gh.G ∧ c ∈ cs) ∧
    List.Perm
      (rootHead gh.vol ++ gh.dirs.map Prod.fst ++
        (dirIds gh.dirs).flatMap fun h =>
          (((objects h (dirSlots gh.vol t.dev.disk gh.G h)).filter fun o => !isDirE o).map (sCluster gh.vol.fatType)).filter
            fun c => decide (c ≠ 0))
      (gh.G.map fun cs => cs.headD 0)
  delete : ∀ (directory di : Nat) (name : List Nat) (d : DirInfo) (sfn : Bytes) (o : Slot),
    t.dirs.findIdx? (·.rawDirectory = directory) = some di → t.dirs[di]? = some d →
    (∃ volIdx, t.vols.findIdx? (·.rawVolume = d.rawVolume) = some volIdx) → Sfn.createFromStr name = .ok sfn →
    o ∈ objects (dirIdOf d.cluster) (dirSlots gh.vol t.dev.disk gh.G (dirIdOf d.cluster)) → isDirE o = false → sName o = sfn →
    pendOf t.files o = none →
    ∃ t' gh', deleteFileInDir directory name t = (.ok (), t') ∧ VolInv t' gh' ∧ SameGeom gh.vol gh'.vol ∧
      t'.files = t.files ∧ t'.dirs = t.dirs ∧ gh'.dirs = gh.dirs ∧
      gh'.G = gh.G.erase (chainOf gh.G (sCluster gh.vol.fatType o)) ∧
      freeCount gh.vol t'.dev.disk = freeCount gh.vol t.dev.disk + (chainOf gh.G (sCluster gh.vol.fatType o)).length
  truncate : ∀ (directory di : Nat) (name : List Nat) (d : DirInfo) (sfn : Bytes) (o : Slot),
    t.files.length < t.maxFiles →
    t.dirs.findIdx? (·.rawDirectory = directory) = some di → t.dirs[di]? = some d →
    (∃ volIdx, t.vols.findIdx? (·.rawVolume = d.rawVolume) = some volIdx) → Sfn.createFromStr name = .ok sfn →
    o ∈ objects (dirIdOf d.cluster) (dirSlots gh.vol t.dev.disk gh.G (dirIdOf d.cluster)) → isDirE o = false → sName o = sfn →
    pendOf t.files o = none → Attr.isReadOnly (sAttr o) = false →
    ∃ t' gh', openFileInDir directory name .ReadWriteTruncate t = (.ok t.nextId, t') ∧ VolInv t' gh' ∧
      SameGeom gh.vol gh'.vol ∧
      freeCount gh.vol t'.dev.disk = freeCount gh.vol t.dev.disk + ((chainOf gh.G (sCluster gh.vol.fatType o)).length - 1)
  capacity : ∀ (h i : Nat) (f : FileInfo) (data : Bytes),
    t.files.findIdx? (·.rawFile = h) = some i → t.files[i]? = some f → f.mode ≠ .ReadOnly →
    f.currentOffset + data.length ≤ Gen.MAX_FILE_SIZE →
    ∃ k r t', Model.write h data t = (r, t') ∧ k ≤ data.length ∧
      (r = .ok () ↔ needed (chainOf gh.G f.entry.cluster).length (f.currentOffset + data.length) (clusterBytesLen gh.vol) -
          (chainOf gh.G f.entry.cluster).length ≤ freeCount gh.vol t.dev.disk) ∧
      ((r = .err .DiskFull ∨ r = .err .NotEnoughSpace) ↔
        freeCount gh.vol t.dev.disk < needed (chainOf gh.G f.entry.cluster).length (f.currentOffset + data.length)
          (clusterBytesLen gh.vol) - (chainOf gh.G f.entry.cluster).length) ∧
      (r = .ok () → k = data.length) ∧
      (r ≠ .ok () → f.currentOffset + k = ((chainOf gh.G f.entry.cluster).length + freeCount gh.vol t.dev.disk) *
          clusterBytesLen gh.vol ∧
        freeCount gh.vol t'.dev.disk = 0 ∧ Full gh.vol t'.dev.disk ∧
        (r = .err .NotEnoughSpace ↔ (chainOf gh.G f.entry.cluster).length + freeCount gh.vol t.dev.disk = 0)) ∧
      ∀ p n, p ≤ ((absFile gh.vol t.dev.disk f (chainOf gh.G f.entry.cluster)).write (data.take k)).bytes.length →
        ∃ t2 t3, fileSeekFromStart h p t' = (.ok (), t2) ∧
          read h n t2 =
            (.ok ((((absFile gh.vol t.dev.disk f (chainOf gh.G f.entry.cluster)).write (data.take k)).bytes.drop p).take n),
            t3)
  cycle : t.files = [] → 0 < t.maxFiles →
    ∀ (directory di : Nat) (d : DirInfo) (name : List Nat) (sfn : Bytes),
    t.dirs.findIdx? (·.rawDirectory = directory) = some di → t.dirs[di]? = some d →
    (∃ volIdx, t.vols.findIdx? (·.rawVolume = d.rawVolume) = some volIdx) → Sfn.createFromStr name = .ok sfn →
    sfn ∉ (entries (dirSlots gh.vol t.dev.disk gh.G (dirIdOf d.cluster))).map sName →
    (∃ x, x ∈ dirSlots gh.vol t.dev.disk gh.G (dirIdOf d.cluster) ∧ (first x = 0 ∨ first x = 0xE5)) →
    1 ≤ freeCount gh.vol t.dev.disk → freeCount gh.vol t.dev.disk * clusterBytesLen gh.vol ≤ Gen.MAX_FILE_SIZE →
    ∀ (bss : Nat → List Bytes), (∀ j, (bss j).flatten.length = freeCount gh.vol t.dev.disk * clusterBytesLen gh.vol) →
    ∀ n : Nat,
      (∃ ghn, VolInv (roundsState directory name bss n t) ghn ∧ (roundsState directory name bss n t).files = [] ∧
        ghn.G = gh.G ∧ ghn.dirs = gh.dirs ∧ SameGeom gh.vol ghn.vol ∧
        freeCount ghn.vol (roundsState directory name bss n t).dev.disk = freeCount gh.vol t.dev.disk) ∧
      RoundAnswers directory name (bss n) (freeCount gh.vol t.dev.disk * clusterBytesLen gh.vol)
        (roundsState directory name bss n t)

/-- The one-volume invariant gives the clauses. -/
theorem space_of_inv {t : Mgr} {gh : Ghost} (hI : VolInv t gh) : Space t gh where
  exact := fun hq => ⟨hI.med.owns.1, (C03Inv.no_leak_when_quiescent hI hq).1, (C03Inv.no_leak_when_quiescent hI hq).2⟩
  delete := fun directory di name d sfn _ hdi hd hvo hsfn ho hod hsn hp =>
    Lemmas.MainC05.delete_gives_back hI directory di name d sfn hdi hd hvo hsfn ho hod hsn hp
  truncate := fun directory di name d sfn _ hroom hdi hd hvo hsfn ho hod hsn hp hro =>
    Lemmas.MainC05.truncate_gives_back hI directory di name d sfn hroom hdi hd hvo hsfn ho hod hsn hp hro
  capacity := fun _ _ _ data hidx hf hmode hmax => Lemmas.MainC05.write_capacity hI hidx hf hmode data hmax
  cycle := fun hq hroom directory di d name sfn hdi hd hvo hsfn hfresh hslot hF hcap bss htotal n =>
    Lemmas.MainC05.cycle_of_inv hI hq hroom directory di d name sfn hdi hd hvo hsfn hfresh hslot hF hcap bss htotal n

/-- **C05.**  See the header. -/
theorem C05_main :
    (∀ (ops : List Op) (s : Mgr) (ghs : List Ghost), VolInvN s ghs → MirrorN s ghs → CoveredNRun s ops → ∀ k : Nat,
      ∃ ghs', VolInvN (run s (ops.take k)).1 ghs' ∧ MirrorN (run s (ops.take k)).1 ghs' ∧
        ∀ (i : Nat) (vi : VolInfo) (gh : Ghost), (run s (ops.take k)).1.vols[i]? = some vi → ghs'[i]? = some gh →
          -- (exact) (delete) (truncate) (capacity) (cycle)
          Space (proj (run s (ops.take k)).1 i) gh ∧
          -- (same)
          ∀ op, target (run s (ops.take k)).1 op = some i → LabelFresh (run s (ops.take k)).1 op →
            (step (run s (ops.take k)).1 op).2 = (step (proj (run s (ops.take k)).1 i) op).2 ∧
            ProjRel vi.rawVolume i (step (run s (ops.take k)).1 op).1 (step (proj (run s (ops.take k)).1 i) op).1) ∧
    -- (search)
    (∀ (s : FS) (start endC fuel : Nat), C05.NoFault s → C05.Coherent s → fuel ≥ (endC - start) + 2 →
      (∀ c s', Gen.FunsM.FatVolume_find_next_free_cluster fuel start endC s = (.ok c, s') →
        start ≤ c ∧ c < endC ∧ C05.entryOnDisk s.vol s.dev.disk c = 0 ∧
        (∀ c', start ≤ c' → c' < c → C05.entryOnDisk s.vol s.dev.disk c' ≠ 0) ∧ s'.dev.disk = s.dev.disk) ∧
      ((∃ c s', Gen.FunsM.FatVolume_find_next_free_cluster fuel start endC s = (.ok c, s')) ∨
        ((Gen.FunsM.FatVolume_find_next_free_cluster fuel start endC s).1 = .err .NotEnoughSpace ∧
          ∀ c, start ≤ c → c < endC → C05.entryOnDisk s.vol s.dev.disk c ≠ 0))) := by
  refine ⟨fun ops s ghs hI hm hc k => ?_, fun s start endC fuel hn hco hf => ?_⟩
  · obtain ⟨ghs', hI', hm'⟩ := C03Multi.api_history_invariant_multi_prefix ops s ghs hI hm hc k
    refine ⟨ghs', hI', hm', fun i vi gh hvi hgh => ⟨?_, fun op ht hlf => ?_⟩⟩
    · have hP : VolInv (proj (run s (ops.take k)).1 i) gh := by
        rw [C03Multi.proj_def hvi]; exact Lemmas.VolN.volInv_proj hI' hvi hgh
      exact space_of_inv hP
    · obtain ⟨_, _, hout, hrel⟩ := C03Multi.answers_are_single_volume_answers _ op ghs' hI' hm' ht hvi hgh hlf
      exact ⟨hout, hrel⟩
  · rw [C05GenM.find_next_free_cluster_eq start endC fuel hf]
    refine ⟨fun c s' h => ?_, ?_⟩
    · obtain ⟨h1, h2, h3, h4, h5, _⟩ := C05.findNextFree_sound s s' start endC c hn hco h
      exact ⟨h1, h2, h3, h4, h5⟩
    · rcases C05.findNextFree_complete s start endC hn hco with h | ⟨h1, h2, _⟩
      · exact .inl h
      · exact .inr ⟨h1, h2⟩

/-! ### Non-vacuity -/

namespace Example
open Sdmmc.Lemmas.VolExample Sdmmc.Lemmas.VolN.Example2
open Sdmmc.Props.C03Multi.Example (two_volumes two_volumes_mirror ops ops_covered)

/-- On the two-volume state of `Props.C03Multi` (FAT16 + FAT32 on one device) and its history `ops` (creates, writes, a
flush, a `mkdir`, closes, a delete, …) the history part applies after every call. -/
example (k : Nat) := C05_main.1 ops mgr2 ghs2 two_volumes two_volumes_mirror ops_covered k

/-- From a fresh manager: the start hypotheses hold outright. -/
example (s : Mgr) (hf : s.dev.faults = []) (hcc : ∀ i, s.cache.tag = some i → s.cache.blk = s.dev.disk.get i)
    (hl : s.locked = false) (hv : s.vols = []) (hd : s.dirs = []) (hfl : s.files = []) (ops : List Op)
    (hc : CoveredNRun s ops) (k : Nat) :=
  C05_main.1 ops s [] (Lemmas.Main.fresh_manager_invariant s hf hcc hl hv hd hfl).1
    (Lemmas.Main.fresh_manager_invariant s hf hcc hl hv hd hfl).2 hc k

/-- The clauses are not vacuous: on the quiescent FAT16 state `mgr1` of `Lemmas.VolExample` (chains `[[2, 3], [4], [5]]`,
15 free clusters) the hypotheses of (cycle) hold for the root directory and the name "N.TXT"
(`Props.C05Cycle.Example.quiet_root`), so for EVERY `n` the state after `n` fill / delete rounds has 15 free clusters
again and the next round is answered `Ok … Ok`, `DiskFull` beyond `15 * 512` bytes … -/
example (n : Nat) := C05Cycle.Example.cycle_root n
/-- … and (exact) applies to it: no file is open. -/
example := (space_of_inv mgr1_inv).exact rfl
/-- (capacity), on the `Writable` state of `Props.C05Capacity.Example`: the out-of-space case and the `Ok` case both occur
(`write_fails_iff_no_space` instantiated there; the engine, run, answers `DiskFull` resp. `Ok`). -/
example := C05Capacity.Example.writableS
/-- The exactness is false with device faults: a failed FAT write leaks a cluster. -/
example := C05Forest.Example.fault_leaks

end Example

end Sdmmc.Props.C05Main
