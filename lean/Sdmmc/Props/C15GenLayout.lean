/-
C15, tie to the source text, second part: consequences of `Props/C15Gen.lean` that go through the
existing lemmas about the model's `create_from_bytes` / `parse_volume` (`Lemmas/C15.lean`): the FAT-type
boundaries as a statement about the translated function, and the model's `parse_volume` placing
everything where the translated `let`s of the source put it.
-/
import Sdmmc.Props.C15Gen
import Sdmmc.Lemmas.C15

namespace Sdmmc.Props.C15GenLayout

open Sdmmc Sdmmc.Model Sdmmc.Gen Sdmmc.Props.C15Gen

/-- The FAT-type decision read off the translated source: with a good footer, sums in range, enough
blocks and a non-zero cluster size, a volume of `cc` clusters is rejected below 4085, FAT16 below 65525. -/
theorem fat_type_boundaries (d : Bytes) (b : Funs.Bpb) (h : Funs.Bpb_create_from_bytes d = .ok b) :
    4085 ≤ b.cluster_count ∧ (b.fat_type = .Fat16 ↔ b.cluster_count < 65525) := by
  have e := create_from_bytes_eq d
  rw [h] at e
  rcases hc : Bpb.createFromBytes d with ⟨ft, cc⟩ | err | m | _
  · rw [hc] at e
    have hb := Lemmas.C15.createFromBytes_ok hc
    obtain ⟨_, _, _, _, _, h4085, hk⟩ := hb
    cases ft
    · simp only [ofRes, Option.some.injEq, Except.ok.injEq] at e
      subst e
      rcases hk with ⟨_, hlt⟩ | ⟨h, _⟩
      · exact ⟨h4085, by simp only [true_iff]; exact hlt⟩
      · cases h
    · simp only [ofRes, Option.some.injEq, Except.ok.injEq] at e
      subst e
      rcases hk with ⟨h, _⟩ | ⟨_, hge, _⟩
      · cases h
      · exact ⟨h4085, by simp only [reduceCtorEq, false_iff]; omega⟩
  · rw [hc] at e
    cases err <;> simp [ofRes] at e
  · rw [hc] at e; simp [ofRes] at e
  · rw [hc] at e; simp [ofRes] at e

/-- **The volume the model's `parse_volume` builds is laid out by the source's arithmetic**: whenever
the model's first half of `parse_volume` succeeds on a boot sector, the positions it records are the
values of the translated `let`s of `parse_volume` (FAT16 arm resp. FAT32 arm). -/
theorem parse_volume_layout (bpb : Bytes) (lba nb : Nat) (v : FatVolume)
    (h : parseVolumeBpb bpb lba nb = .ok v) :
    v.fatStart = Funs.parse_volume_fat_start bpb ∧
    v.secondFatStart = Funs.parse_volume_second_fat_start bpb ∧
    (v.fatType = .fat16 →
      v.firstRootDirBlock = Funs.parse_volume_fat16_first_root_dir_block bpb ∧
      v.firstDataBlock = Funs.parse_volume_fat16_first_data_block bpb) ∧
    (v.fatType = .fat32 →
      v.firstDataBlock = Funs.parse_volume_fat32_first_data_block bpb ∧
      Funs.parse_volume_fat32_info_block_idx lba (Funs.Bpb_fs_info bpb) = .ok v.infoLocation) := by
  rcases hc : Bpb.createFromBytes bpb with ⟨ft, cc⟩ | err | m | _
  · cases ft
    · rw [Lemmas.C15.parseVolumeBpb_fat16 lba nb hc] at h
      split at h
      · cases h
      · cases h
        refine ⟨rfl, rfl, fun _ => ⟨rfl, rfl⟩, fun h32 => ?_⟩
        cases h32
    · rw [Lemmas.C15.parseVolumeBpb_fat32 lba nb hc] at h
      split at h
      · cases h
      · rename_i hle
        cases h
        refine ⟨rfl, rfl, fun h16 => ?_, fun _ => ⟨rfl, ?_⟩⟩
        · cases h16
        · rw [fat32_info_block_idx_eq, fs_info_eq, if_neg (by unfold U32_MAX; omega)]
          rfl
  all_goals
    exfalso
    simp only [parseVolumeBpb, hc] at h
    first | exact Res.noConfusion h | cases h

end Sdmmc.Props.C15GenLayout
