/-
C16 / C04 with SEVERAL OPEN VOLUMES — "the FAT copies stay identical" and "the FAT32 free-space record stays truthful",
for every open volume of ONE device, along histories of ALL calls.

The one-volume theorems are `Props.C04Hist` (`Mirror`) and `Props.C16Hist2` (`Bal`, `DeltaOK`, `step_accounting`,
`history_accounting`); the multi-volume invariant and its preservation are `Props.C03Multi` (`VolInvN`, `MirrorN`,
`api_history_invariant_multi`).  Property theorems only; the proofs are in `Sdmmc.Lemmas.VolNAcct`.

WHAT IS PROVED.

* `copies_identical_multi` — after every prefix of every history the invariant holds with identical FAT copies, and
  spelled out per volume record: `Mirror vi.vol disk` for every open volume record `vi`.
* The free-space record PER VOLUME.  Offsets are indexed by the raw volume handle, `δ : Nat → Int`:
  `CountOKN δ s` — every open volume record `vi` is in balance with ITS offset, `Bal (δ vi.rawVolume) vi.vol disk` (the
  in-memory free count, when known, plus `δ vi.rawVolume` is the number of free FAT entries of that volume);
  `DeltaOKN δ s` — each of these offsets is in the range where the `u32` count cannot saturate (`C16Hist2.DeltaOK`; the
  two excluded points are evaluated in `C16Hist2.Example`: `underreporting_count_drifts`, `saturating_count_drifts`).
  `step_accounting_multi`: every call — all 23 constructors of `Op`, whatever it answers — keeps
  `VolInvCN s ghs δ := VolInvN ∧ MirrorN ∧ CountOKN δ ∧ DeltaOKN δ` with the SAME `δ`: a call on volume `i` moves the count
  and the free FAT entries of volume `i` together and touches neither the record nor the FAT of another volume.
  `history_accounting_multi`, `history_accounting_multi_prefix`: so does every history, after every call.
* `exact_stays_exact_multi` — `δ = 0`: a known in-memory free count of every open volume IS the number of free FAT
  entries of that volume, after every prefix of every history.

HYPOTHESES.  `CoveredCN δ s op`, about `open_volume` only (nothing is required of the other 22 constructors):
`C03Multi.CoveredN` (IF the mount succeeds: fresh handle, disjoint partition, sound volume with identical FAT copies)
and `MountInBalance` — IF the mount succeeds with handle `h`, the record it appended is in balance with offset `δ h` on
the present medium, and `δ h` is in range.  This is forced: what an unmounted partition's information sector says about
its FAT is a fact about the medium that no invariant of the OPEN volumes can know; `Example.lying_info_sector_mounts`
evaluates a medium whose information sector over-states the free count: the mount succeeds and the record is out of
balance.  For `δ = 0` the range condition is automatic (`mountInBalance_zero`).  No name hypothesis, no `LabelFresh`
hypothesis (`get_root_volume_label` changes neither a volume record nor the medium, whatever handle it lists with).
-/
import Sdmmc.Lemmas.VolNAcct
import Sdmmc.Props.C03Multi
import Sdmmc.Props.C16Hist2

namespace Sdmmc.Props.C16Multi
open Sdmmc.Model Sdmmc.Model.Fat Sdmmc.Spec.Volume
open Sdmmc.Spec hiding run step NoFault Coherent
open Sdmmc.Props.C03Multi (CoveredN CoveredNRun)
open Sdmmc.Props.C16Hist2 (Bal DeltaOK)
open Sdmmc.Lemmas.VolN (LabelFresh)

/-! ### Item 1: the FAT copies of every open volume stay identical -/

/-- What `MirrorN` says for the volume records: the FAT copies of every open volume agree. -/
theorem mirror_of_mirrorN {s : Mgr} {ghs : List Ghost} (hI : VolInvN s ghs) (hm : MirrorN s ghs) :
    ∀ vi, vi ∈ s.vols → Mirror vi.vol s.dev.disk := by
  intro vi hvi
  obtain ⟨j, hj⟩ : ∃ j : Nat, s.vols[j]? = some vi := List.getElem?_of_mem hvi
  have hjlt : j < ghs.length := by rw [hI.len]; exact (List.getElem?_eq_some_iff.1 hj).1
  have hg : ghs[j]? = some ghs[j] := List.getElem?_eq_getElem hjlt
  rw [hI.vols j vi _ hj hg]
  exact hm _ (List.mem_of_getElem? hg)

/-- **`copies_identical_multi`.**  After every prefix of every history the invariant of several open volumes holds with
identical FAT copies — for every open volume record `vi`, both FAT copies of `vi.vol` agree on the medium. -/
theorem copies_identical_multi (ops : List Op) (s : Mgr) (ghs : List Ghost) (hI : VolInvN s ghs) (hm : MirrorN s ghs)
    (hc : CoveredNRun s ops) (k : Nat) :
    ∃ ghs', VolInvN (run s (ops.take k)).1 ghs' ∧ MirrorN (run s (ops.take k)).1 ghs' ∧
      ∀ vi, vi ∈ (run s (ops.take k)).1.vols → Mirror vi.vol (run s (ops.take k)).1.dev.disk := by
  obtain ⟨ghs', h1, h2⟩ := C03Multi.api_history_invariant_multi_prefix ops s ghs hI hm hc k
  exact ⟨ghs', h1, h2, mirror_of_mirrorN h1 h2⟩

/-! ### Item 2: the free-space record, per volume -/

/-- Every open volume is in balance, with the offset of ITS handle. -/
def CountOKN (δ : Nat → Int) (s : Mgr) : Prop := ∀ vi, vi ∈ s.vols → Bal (δ vi.rawVolume) vi.vol s.dev.disk

/-- The offset of every open volume is in the range where its count cannot saturate. -/
def DeltaOKN (δ : Nat → Int) (s : Mgr) : Prop := ∀ vi, vi ∈ s.vols → DeltaOK vi.vol (δ vi.rawVolume)

/-- The invariant of accounting histories with several open volumes. -/
structure VolInvCN (s : Mgr) (ghs : List Ghost) (δ : Nat → Int) : Prop where
  inv : VolInvN s ghs
  mirror : MirrorN s ghs
  count : CountOKN δ s
  delta : DeltaOKN δ s

theorem volInvCN_iff (s : Mgr) (ghs : List Ghost) (δ : Nat → Int) :
    VolInvCN s ghs δ ↔ VolInvN s ghs ∧ MirrorN s ghs ∧ CountOKN δ s ∧ DeltaOKN δ s :=
  ⟨fun h => ⟨h.inv, h.mirror, h.count, h.delta⟩, fun h => ⟨h.1, h.2.1, h.2.2.1, h.2.2.2⟩⟩

theorem countOKN_iff (δ : Nat → Int) (s : Mgr) : CountOKN δ s ↔ Lemmas.VolN.CountOKN δ s := Iff.rfl
theorem deltaOKN_iff (δ : Nat → Int) (s : Mgr) : DeltaOKN δ s ↔ Lemmas.VolN.DeltaOKN δ s := Iff.rfl

/-- The hypothesis on `open_volume` for the accounting: IF the mount succeeds, with handle `h`, the record it appended is
in balance with offset `δ h` on the present medium, and `δ h` is in range. -/
def MountInBalance (δ : Nat → Int) (s : Mgr) : Op → Prop
  | .openVolume idx => ∀ h s', openRawVolume idx (Lemmas.MHoare.resetLogs s) = (.ok h, s') → ∀ vi, s'.vols.getLast? = some vi →
      Bal (δ h) vi.vol s.dev.disk ∧ DeltaOK vi.vol (δ h)
  | _ => True

/-- The calls covered (only `open_volume` is constrained). -/
def CoveredCN (δ : Nat → Int) (s : Mgr) (op : Op) : Prop := CoveredN s op ∧ MountInBalance δ s op

/-- A history all of whose `open_volume` calls satisfy `CoveredCN` in the state they are issued in. -/
def CoveredCNRun (δ : Nat → Int) : Mgr → List Op → Prop
  | _, [] => True
  | s, op :: ops => CoveredCN δ s op ∧ CoveredCNRun δ (step s op).1 ops

theorem coveredNRun_of_coveredCNRun {δ : Nat → Int} : ∀ {s : Mgr} {ops : List Op}, CoveredCNRun δ s ops → CoveredNRun s ops
  | _, [], _ => trivial
  | _, _ :: _, h => ⟨h.1.1, coveredNRun_of_coveredCNRun h.2⟩

theorem coveredCNRun_take {δ : Nat → Int} : ∀ {s : Mgr} {ops : List Op}, CoveredCNRun δ s ops → ∀ k, CoveredCNRun δ s (ops.take k)
  | _, [], _, _ => by rw [List.take_nil]; trivial
  | _, _ :: _, _, 0 => trivial
  | _, _ :: _, h, k + 1 => ⟨h.1, coveredCNRun_take h.2 k⟩

/-- `open_volume`? -/
def isMount : Op → Bool
  | .openVolume _ => true
  | _ => false

/-- A history without `open_volume` is covered. -/
theorem coveredCNRun_of_no_mount (δ : Nat → Int) :
    ∀ (s : Mgr) (ops : List Op), (ops.all fun op => !isMount op) = true → CoveredCNRun δ s ops
  | _, [], _ => trivial
  | s, op :: ops, h => by
    rw [List.all_cons, Bool.and_eq_true] at h
    refine ⟨?_, coveredCNRun_of_no_mount δ _ ops h.2⟩
    cases op with
    | openVolume idx => exact absurd h.1 (fun e => Bool.noConfusion e)
    | _ => exact ⟨trivial, trivial⟩

/-- For the exact record (`δ = 0`) the range condition of `MountInBalance` follows from `CoveredN`: it is enough that the
record a successful mount appends is exact on the present medium. -/
theorem mountInBalance_zero (s : Mgr) (idx : Nat) (hc : CoveredN s (.openVolume idx))
    (hex : ∀ h s', openRawVolume idx (Lemmas.MHoare.resetLogs s) = (.ok h, s') → ∀ vi, s'.vols.getLast? = some vi →
      ∀ n, vi.vol.freeClustersCount = some n → n = freeCount vi.vol s.dev.disk) :
    CoveredCN (fun _ => 0) s (.openVolume idx) := by
  refine ⟨hc, fun h s' hr vi hvi => ⟨(C16Hist2.bal_zero _ _).2 (hex h s' hr vi hvi), ?_⟩⟩
  obtain ⟨_, _, gh, _, hM, _⟩ := hc h s' hr vi hvi
  exact C16Hist2.deltaOK_zero _ hM.geom

/-- A call addressed to volume record `i`: the one-volume theorem (`Lemmas.AcctAll.step_countOK`) on the projection, the
frame for the other volumes. -/
theorem step_count_target {s : Mgr} {ghs : List Ghost} {δ : Nat → Int} (hI : VolInvCN s ghs δ) (op : Op) {i : Nat}
    (ht : target s op = some i) (hf : LabelFresh s op) : CountOKN δ (step s op).1 ∧ DeltaOKN δ (step s op).1 := by
  obtain ⟨vi, hvi⟩ := C03Multi.target_lt ht
  have hilt : i < ghs.length := by rw [hI.inv.len]; exact (List.getElem?_eq_some_iff.1 hvi).1
  obtain ⟨gh, hgh⟩ : ∃ gh, ghs[i]? = some gh := ⟨_, List.getElem?_eq_getElem hilt⟩
  obtain ⟨gh', hL, _, _⟩ := C03Multi.lifted_of_target hI.inv hI.mirror op ht hvi hgh hf
  have hP : VolInv (proj s i) gh := by rw [C03Multi.proj_def hvi]; exact Lemmas.VolN.volInv_proj hI.inv hvi hgh
  have hCP : Lemmas.AcctAll.CountOK (δ vi.rawVolume) (proj s i) := by
    rw [C03Multi.proj_def hvi]; exact Lemmas.VolN.countOK_projH hI.count hvi
  have hDP : DeltaOK gh.vol (δ vi.rawVolume) := by
    rw [← hI.inv.vols i vi gh hvi hgh]; exact hI.delta vi (List.mem_of_getElem? hvi)
  exact Lemmas.VolN.countN_targeted hI.inv hvi hgh hL hI.count hI.delta
    (Lemmas.AcctAll.step_countOK hP op (C04Hist.nameCovered_of_coveredAll (C03Multi.coveredAll_proj ht gh.vol (proj s i)))
      (fun idx e => by subst e; cases ht) hDP hCP)

/-- **`step_accounting_multi`.**  Every covered API call — all 23 constructors of `Op`, whatever it answers — keeps the
invariant `VolInvCN` with the SAME offsets `δ`: an allocation or a freed chain on volume `i` moves the in-memory count of
record `i` and the free FAT entries of partition `i` together; no other record and no FAT block of another partition
changes; `close_volume` writes one information sector, a FAT block of no volume; `open_volume` only reads. -/
theorem step_accounting_multi (s : Mgr) (op : Op) (ghs : List Ghost) (δ : Nat → Int) (hI : VolInvCN s ghs δ)
    (hc : CoveredCN δ s op) : ∃ ghs', VolInvCN (step s op).1 ghs' δ := by
  obtain ⟨ghs', h1, h2⟩ := C03Multi.api_step_invariant_multi s op ghs hI.inv hI.mirror hc.1
  suffices h : CountOKN δ (step s op).1 ∧ DeltaOKN δ (step s op).1 from ⟨ghs', h1, h2, h.1, h.2⟩
  by_cases hl : ∃ v, op = .label v
  · obtain ⟨v, rfl⟩ := hl
    exact Lemmas.VolN.countN_label hI.inv.unlocked v ⟨hI.count, hI.delta⟩
  · cases ht : target s op with
    | some i => exact step_count_target hI op ht (by cases op <;> first | trivial | exact absurd ⟨_, rfl⟩ hl)
    | none =>
      exact Lemmas.VolN.countN_untargeted hI.inv hI.mirror op ht ⟨hI.count, hI.delta⟩
        (fun idx e => by subst e; exact hc.2)

/-- **`history_accounting_multi`.**  Every covered history keeps `VolInvCN` with the same offsets. -/
theorem history_accounting_multi (ops : List Op) (s : Mgr) (ghs : List Ghost) (δ : Nat → Int) (hI : VolInvCN s ghs δ)
    (hc : CoveredCNRun δ s ops) : ∃ ghs', VolInvCN (run s ops).1 ghs' δ := by
  induction ops generalizing s ghs with
  | nil => exact ⟨ghs, hI⟩
  | cons op ops ih =>
    obtain ⟨ghs1, h1⟩ := step_accounting_multi s op ghs δ hI hc.1
    obtain ⟨ghs2, h2⟩ := ih (step s op).1 ghs1 h1 hc.2
    exact ⟨ghs2, by unfold run; exact h2⟩

/-- … after every call of the history. -/
theorem history_accounting_multi_prefix (ops : List Op) (s : Mgr) (ghs : List Ghost) (δ : Nat → Int) (hI : VolInvCN s ghs δ)
    (hc : CoveredCNRun δ s ops) (k : Nat) : ∃ ghs', VolInvCN (run s (ops.take k)).1 ghs' δ :=
  history_accounting_multi (ops.take k) s ghs δ hI (coveredCNRun_take hc k)

/-! ### Item 3: the exact record stays exact -/

/-- **`exact_stays_exact_multi`.**  If in `s` the known in-memory free count of every open volume is the number of free
FAT entries of that volume, then so it is after every prefix of every covered history (`δ = 0`; every volume mounted on
the way is exact when mounted: `CoveredCN (fun _ => 0)`, cf. `mountInBalance_zero`). -/
theorem exact_stays_exact_multi (ops : List Op) (s : Mgr) (ghs : List Ghost) (hI : VolInvN s ghs) (hm : MirrorN s ghs)
    (hex : ∀ vi, vi ∈ s.vols → ∀ n, vi.vol.freeClustersCount = some n → n = freeCount vi.vol s.dev.disk)
    (hc : CoveredCNRun (fun _ => 0) s ops) (k : Nat) :
    ∀ vi, vi ∈ (run s (ops.take k)).1.vols → ∀ n, vi.vol.freeClustersCount = some n →
      n = freeCount vi.vol (run s (ops.take k)).1.dev.disk := by
  have h0 : VolInvCN s ghs (fun _ => 0) :=
    ⟨hI, hm, fun vi hvi => (C16Hist2.bal_zero _ _).2 (hex vi hvi),
     fun vi hvi => C16Hist2.deltaOK_zero _ (Lemmas.VolN.wf_of_mem hI hvi).choose_spec.2⟩
  obtain ⟨ghs', h'⟩ := history_accounting_multi_prefix ops s ghs _ h0 hc k
  exact fun vi hvi => (C16Hist2.bal_zero _ _).1 (h'.count vi hvi)

/-! ### Non-vacuity and evaluated histories (tests, labelled as tests)

The two-volume medium of `Props.C03Multi.Example`: a FAT16 volume (handle 1, blocks 0 … 39; FAT16 records carry no free
count: `Bal` is vacuous there) and a FAT32 volume (handle 5, blocks 40 … 79, 15 of 20 clusters free, the in-memory count
says `some 15`: `δ 5 = 0`). -/

namespace Example
open Sdmmc.Lemmas.VolExample Sdmmc.Lemmas.VolN.Example2
open Sdmmc.Props.C03Multi.Example (two_volumes two_volumes_mirror ops)

/-- The recorded free count of the FAT32 volume of the two-volume medium is exact. -/
theorem mgr2_count : freeCount vol32b disk2 = 15 := by decide +kernel

/-- The two-volume example state satisfies the accounting invariant with `δ = 0` for every handle. -/
theorem invCN2 : VolInvCN mgr2 ghs2 (fun _ => 0) where
  inv := two_volumes
  mirror := two_volumes_mirror
  count := by
    intro vi hvi
    have : vi = { rawVolume := 1, idx := 0, vol := vol16 } ∨ vi = { rawVolume := 5, idx := 1, vol := vol32b } := by
      simpa [mgr2] using hvi
    rcases this with rfl | rfl
    · intro n hn; cases hn
    · exact (C16Hist2.bal_zero _ _).2 (fun n hn => by cases hn; exact mgr2_count.symm)
  delta := fun vi hvi => C16Hist2.deltaOK_zero _ (Lemmas.VolN.wf_of_mem two_volumes hvi).choose_spec.2

/-- The history of `Props.C03Multi.Example` (calls on both volumes, `close_volume` of the FAT32 volume refused, then
accepted) contains no `open_volume`: it is covered. -/
theorem ops_coveredC : CoveredCNRun (fun _ => 0) mgr2 ops :=
  coveredCNRun_of_no_mount _ _ _ (by decide)

/-- The history theorem applies: after every prefix every open volume is in balance with offset 0 … -/
theorem ops_accounting (k : Nat) : ∃ ghs', VolInvCN (run mgr2 (ops.take k)).1 ghs' (fun _ => 0) :=
  history_accounting_multi_prefix ops mgr2 ghs2 _ invCN2 ops_coveredC k

/-- … that is, a known count is the number of free FAT entries of its volume … -/
theorem ops_exact (k : Nat) : ∀ vi, vi ∈ (run mgr2 (ops.take k)).1.vols → ∀ n, vi.vol.freeClustersCount = some n →
    n = freeCount vi.vol (run mgr2 (ops.take k)).1.dev.disk :=
  exact_stays_exact_multi ops mgr2 ghs2 two_volumes two_volumes_mirror
    (fun vi hvi => (C16Hist2.bal_zero _ _).1 (invCN2.count vi hvi)) ops_coveredC k

/-- … and the FAT copies of both volumes agree after every prefix. -/
theorem ops_mirror (k : Nat) : ∀ vi, vi ∈ (run mgr2 (ops.take k)).1.vols → Mirror vi.vol (run mgr2 (ops.take k)).1.dev.disk :=
  let ⟨_, _, _, h⟩ := copies_identical_multi ops mgr2 ghs2 two_volumes two_volumes_mirror C03Multi.Example.ops_covered k
  h

/-- Evaluated (TEST): after each of the 14 calls, the volume records (handle, in-memory count), the free FAT entries of the
FAT16 partition and of the FAT32 partition.  The write of 700 bytes to `M.TXT` takes 2 clusters of the FAT32 volume
(15 → 13), `mkdir D` one more (13 → 12): count and free entries of volume 5 move together, while the calls on the FAT16
volume (write 600 bytes: 15 → 13; delete `A.TXT`: 13 → 15) move neither; after `close_volume 5` the record is gone. -/
theorem ops_counts :
    (List.range 15).map (fun k => ((run mgr2 (ops.take k)).1.vols.map (fun v => (v.rawVolume, v.vol.freeClustersCount)),
      freeCount vol16 (run mgr2 (ops.take k)).1.dev.disk, freeCount vol32b (run mgr2 (ops.take k)).1.dev.disk)) =
    [([(1, none), (5, some 15)], 15, 15), ([(1, none), (5, some 15)], 15, 15), ([(1, none), (5, some 15)], 15, 15),
     ([(1, none), (5, some 15)], 13, 15), ([(1, none), (5, some 13)], 13, 13), ([(1, none), (5, some 13)], 13, 13),
     ([(1, none), (5, some 12)], 13, 12), ([(1, none), (5, some 12)], 13, 12), ([(1, none), (5, some 12)], 15, 12),
     ([(1, none), (5, some 12)], 15, 12), ([(1, none), (5, some 12)], 15, 12), ([(1, none), (5, some 12)], 15, 12),
     ([(1, none), (5, some 12)], 15, 12), ([(1, none)], 15, 12), ([(1, none)], 15, 12)] := by decide +kernel

/-- Evaluated (TEST): just before the FAT32 volume is closed (after 12 calls) its record's count equals `freeCount` of the
medium; the close writes that count to the information sector (block 41, offset 488). -/
theorem ops_final_count :
    (run mgr2 (ops.take 12)).1.vols.map (fun v => (v.rawVolume, v.vol.freeClustersCount)) = [(1, none), (5, some 12)] ∧
    freeCount vol32b (run mgr2 (ops.take 12)).1.dev.disk = 12 ∧
    readU32 ((run mgr2 ops).1.dev.disk.get 41) 488 = 12 ∧ freeCount vol32b (run mgr2 ops).1.dev.disk = 12 := by
  decide +kernel

/-- A per-volume offset that is NOT constant: the same state with the FAT32 record saying `some 17` (two more than are
free: `δ 5 = -2`), the FAT16 volume with offset 0.  The invariant holds with these offsets, the history theorem applies,
and the engine, run, keeps the offset `-2` on volume 5 (TEST): 17 / 15, 15 / 13, 14 / 12. -/
def mgrO : Mgr :=
  { mgr2 with vols := [{ rawVolume := 1, idx := 0, vol := vol16 },
                       { rawVolume := 5, idx := 1, vol := { vol32b with freeClustersCount := some 17 } }] }
def ghsO : List Ghost := [gh1, { gh32b with vol := { vol32b with freeClustersCount := some 17 } }]
def δO : Nat → Int := fun h => if h = 5 then -2 else 0

theorem mgrO_inv : VolInvN mgrO ghsO :=
  Lemmas.VolN.volInvN_two (va := { rawVolume := 1, idx := 0, vol := vol16 })
    (vb := { rawVolume := 5, idx := 1, vol := { vol32b with freeClustersCount := some 17 } }) rfl
    (Lemmas.VolCheck.checkVolInv_sound _ _ (by decide +kernel)) (Lemmas.VolCheck.checkVolInv_sound _ _ (by decide +kernel))
    (by decide) (by decide) (by decide) (by intro f hf; cases hf) (by decide)

theorem mgrO_mirror : MirrorN mgrO ghsO := by
  intro gh hgh
  have : gh = gh1 ∨ gh = { gh32b with vol := { vol32b with freeClustersCount := some 17 } } := by simpa [ghsO] using hgh
  rcases this with rfl | rfl
  · exact C04Hist.Example.mirror_of_check _ _ (by decide +kernel)
  · exact C04Hist.Example.mirror_of_check _ _ (by decide +kernel)

theorem invCNO : VolInvCN mgrO ghsO δO where
  inv := mgrO_inv
  mirror := mgrO_mirror
  count := by
    intro vi hvi
    have : vi = { rawVolume := 1, idx := 0, vol := vol16 } ∨
        vi = { rawVolume := 5, idx := 1, vol := { vol32b with freeClustersCount := some 17 } } := by
      simpa [mgrO] using hvi
    rcases this with rfl | rfl
    · intro n hn; cases hn
    · intro n hn
      cases hn
      have e : freeCount ({ vol32b with freeClustersCount := some 17 } : FatVolume) mgrO.dev.disk = 15 := by decide +kernel
      rw [e]; decide
  delta := by
    intro vi hvi
    have : vi = { rawVolume := 1, idx := 0, vol := vol16 } ∨
        vi = { rawVolume := 5, idx := 1, vol := { vol32b with freeClustersCount := some 17 } } := by
      simpa [mgrO] using hvi
    rcases this with rfl | rfl
    · exact C16Hist2.deltaOK_zero _ (Lemmas.VolN.wf_of_mem mgrO_inv hvi).choose_spec.2
    · exact ⟨by decide, by decide⟩

theorem opsO_accounting (k : Nat) : ∃ ghs', VolInvCN (run mgrO (ops.take k)).1 ghs' δO :=
  history_accounting_multi_prefix ops mgrO ghsO _ invCNO
    (coveredCNRun_of_no_mount _ _ _ (by decide)) k

theorem opsO_counts :
    [0, 4, 6, 12].map (fun k => ((run mgrO (ops.take k)).1.vols.map (fun v => (v.rawVolume, v.vol.freeClustersCount)),
      freeCount vol32b (run mgrO (ops.take k)).1.dev.disk)) =
    [([(1, none), (5, some 17)], 15), ([(1, none), (5, some 15)], 13), ([(1, none), (5, some 14)], 12),
     ([(1, none), (5, some 14)], 12)] := by decide +kernel

/-! #### The excluded point: `open_volume` of a partition whose information sector does not tell the truth

The FAT32 medium of `Props.C02Reopen.Example32` (partition 0 from block 1, 65525 clusters: the smallest FAT32 volume; a
smaller one cannot be mounted as FAT32) with an information sector that records 70000 free clusters — more than the volume
has FAT entries.  No volume is open: `VolInvCN` holds with every `δ`.  `open_volume 0` succeeds, hands out handle 0, and
the record it appends carries the count 70000: it is NOT in balance with offset 0.  Hence `MountInBalance`. -/

def infoLie : Block :=
  [0x52, 0x52, 0x61, 0x41] ++ zeros 480 ++ [0x72, 0x72, 0x41, 0x61, 0x70, 0x11, 0x01, 0, 5, 0, 0, 0] ++ zeros 12 ++
    [0, 0, 0x55, 0xAA]
def sLie : Mgr :=
  { dev := { disk := C02Reopen.Example32.disk.set 2 infoLie }, nextId := 0, maxVols := 2, maxDirs := 4, maxFiles := 4 }

theorem sLie_inv (δ : Nat → Int) : VolInvCN sLie [] δ where
  inv :=
    { noFault := rfl, coherent := fun i h => (by cases h), unlocked := rfl, len := rfl
      vols := fun i vi gh h => (by cases h), handles := List.nodup_nil, indices := List.nodup_nil
      parts := fun i j vi vj h => (by cases h), med := fun i vi gh h => (by cases h), fileVols := fun f h => (by cases h)
      openDirs := fun di h => (by cases h), inertDirs := fun di h => (by cases h) }
  mirror := fun gh h => (by cases h)
  count := fun vi h => (by cases h)
  delta := fun vi h => (by cases h)

theorem lying_info_sector_mounts :
    (match (step sLie (.openVolume 0)).2.result with | .ok (.handle h) => some h | _ => none) = some 0 ∧
    (step sLie (.openVolume 0)).1.vols.map (fun v => (v.rawVolume, v.vol.freeClustersCount, endCluster v.vol)) =
      [(0, some 70000, 65527)] ∧
    ¬ CountOKN (fun _ => 0) (step sLie (.openVolume 0)).1 := by
  have h1 : (match (step sLie (.openVolume 0)).2.result with | .ok (.handle h) => some h | _ => none) = some 0 := by
    decide +kernel
  have h2 : (step sLie (.openVolume 0)).1.vols.map (fun v => (v.rawVolume, v.vol.freeClustersCount, endCluster v.vol)) =
      [(0, some 70000, 65527)] := by decide +kernel
  refine ⟨h1, h2, fun hC => ?_⟩
  obtain ⟨w, ws, hw, he, _⟩ := List.map_eq_cons_iff.1 h2
  have hmem : w ∈ (step sLie (.openVolume 0)).1.vols := by rw [hw]; exact List.mem_cons_self
  have hcnt : w.vol.freeClustersCount = some 70000 := congrArg (fun p => p.2.1) he
  have hend : endCluster w.vol = 65527 := congrArg (fun p => p.2.2) he
  have hb := (C16Hist2.bal_zero _ _).1 (hC w hmem) 70000 hcnt
  have hle : freeCount w.vol (step sLie (.openVolume 0)).1.dev.disk ≤ endCluster w.vol := by
    unfold freeCount
    exact Nat.le_trans List.countP_le_length (by rw [List.length_range]; exact Nat.le_refl _)
  omega

end Example

end Sdmmc.Props.C16Multi
