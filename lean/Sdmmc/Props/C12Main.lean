/-
C12 — headline theorem.

Property C12, `statement` (verbatim):
  "For every supported card kind (version 1 and version 2 standard capacity, high capacity), with
  data CRC enabled or disabled, a block read returns the 512 bytes the card stores at that block
  number, a block write stores exactly the given bytes at that block number and nowhere else, and
  a multi-block transfer is equivalent to the same single-block transfers in order. The reported
  capacity in blocks and bytes equals the capacity encoded in the card's specific-data register
  for its register layout, and the card kind is identified correctly."
`quantifier.text` (verbatim):
  "all card kinds x CRC on/off x capacities, all block numbers and transfer lengths (1..n
  blocks), all payloads, and all legal card timings (response delay 0-8 bytes, data-token delay,
  busy periods of any length below the driver's timeouts), over any sequence of reads and writes"

`C12_main_partial` is ONE statement: the driver model run against the specification card
(`Spec/Card.lean`, through `cardBus`, `Props/C12.lean`) from power-up through ANY list of public
calls, for every card kind, every register `csd` (= every capacity), both CRC modes
(`s.useCrc` is arbitrary), every `acquire_retries`, every legal timing, every payload.

How to read it.  The abstract device `absCall` / `absRun` (`Props/C12Session.lean`, spelled out
by the `absCall_*` lemmas below) says what each call SHOULD answer and what the blocks SHOULD
hold afterwards: `read n idx` = blocks `idx … idx+n-1` of the store; `write blocks idx` =
overwrite `idx … idx+len-1` and nothing else; `num_blocks` / `num_bytes` = the capacity encoded in
the register for its own layout (`Spec.Card.capacityOfCsd`, the specification's formulas);
`get_card_type` = the card's kind.  `runSession` runs the calls through the driver.
`getBlock c j` = what the card's memory holds at block `j`.  `violations` = the card's own list of
protocol violations.  `expandAll` replaces every multi-block call by the single-block calls in order.

Standing hypotheses (each discharged by `decide`/`rfl` in the example below):
* conforming card = `Spec.Card`, freshly powered: `s.bus = Spec.Card.mk kind csd …` (empty
  memory; every payload of the session is arbitrary), fresh driver `s.cardType = none`;
* Legal card timing: `ncr ≤ DEFAULT_COMMAND_RETRIES`, `nac ≤ DEFAULT_READ_RETRIES`,
  `busy ≤ DEFAULT_WRITE_RETRIES`, `initPolls ≤ DEFAULT_COMMAND_RETRIES`, `gap ≤ 1`
  (these budgets are far above the property's "0-8 bytes");
* every call `Legal kind csd` (`Props/C12Session.lean`): block ranges inside the card and inside
  what the driver can address for the kind, 512-byte blocks, and the register conditions below.

PARTIAL — what is missing, clause by clause:
* read / write / multi = singles / card kind: proved as stated, over any sequence — EXCEPT
  (a) sessions containing `mark_card_uninit` (`Legal .markUninit = False`: re-identification of a
  card that may still be busy is not proved; per call see `C13Main.RecoversConforming`);
  (b) `busy ≤ DEFAULT_COMMAND_RETRIES ∨ MultiReadsLast calls`: after a multi-block read the driver
  returns while the card is still busy (CMD12 is answered R1b) and the NEXT command waits with the
  command budget only.  Known finding, evaluated in `Props/C12Session.lean`: `busy = 10001`,
  `[read 2 0, read 1 0]` → the second call returns `TimeoutWaitNotBusy`.
* capacity: equals the register's capacity only under the register conditions in `Legal`:
  (c) `num_bytes` on a version-1 register needs `READ_BL_LEN ≥ 9` (known finding:
  `C12.capacity_matches_spec_v1_bytes`); (d) `num_blocks` on a version-2 register needs
  `C_SIZE < 0x3FFFFF` (the driver's `u32` arithmetic saturates: `C12.capacity_v2_saturates`);
  (e) a version-1 CARD must carry a version-1 register (the driver picks the layout by card kind
  for SD1: `csdV2 3` on an SD1 card gives 256 instead of 4096 blocks, `Props/C12EndToEnd.lean`).
* out-of-range calls are outside the sentence; what happens is `session_read_out_of_range`,
  `session_write_out_of_range`.
The last two fields tie the model's address scaling and capacity formulas to the functions
REGENERATED FROM THE SOURCE (`Gen.Funs`, `Props/C12Gen.lean`).
-/
import Sdmmc.Props.C12Session
import Sdmmc.Props.C12Gen

namespace Sdmmc.Props.C12Main
open Sdmmc.Model Sdmmc.Model.Sd Sdmmc.Gen
open Sdmmc.Spec.Card (Card Kind getBlock zeros512 capacityOfCsd)
open Sdmmc.Props.C12 (cardBus)
open Sdmmc.Props.C12EndToEnd (typeOfKind)
open Sdmmc.Props.C12Session

/-! The abstract device, spelled out. -/
theorem absCall_read (kind : Kind) (csd : List UInt8) (st : Store) (n idx : Nat) :
    absCall kind csd st (.read n idx) = (.blocks ((List.range' idx n).map st), st) := rfl
theorem absCall_write (kind : Kind) (csd : List UInt8) (st : Store) (blocks : List Bytes) (idx : Nat) :
    absCall kind csd st (.write blocks idx) = (.unit, writeStore st idx blocks) := rfl
theorem writeStore_def (st : Store) (idx : Nat) (blocks : List Bytes) (j : Nat) :
    writeStore st idx blocks j =
      if idx ≤ j ∧ j < idx + blocks.length then blocks.getD (j - idx) zeros512 else st j := rfl
theorem absCall_numBlocks (kind : Kind) (csd : List UInt8) (st : Store) :
    absCall kind csd st .numBlocks = (.num (capacityOfCsd csd), st) := rfl
theorem absCall_numBytes (kind : Kind) (csd : List UInt8) (st : Store) :
    absCall kind csd st .numBytes = (.num (512 * capacityOfCsd csd), st) := rfl
theorem absCall_cardType (kind : Kind) (csd : List UInt8) (st : Store) :
    absCall kind csd st .cardType = (.ctype (some (typeOfKind kind)), st) := rfl

/-- The clauses of C12 for the session `calls` from the state `s` (fresh driver, fresh card). -/
structure Clauses (kind : Kind) (csd : List UInt8) (ncr nac busy gap : Nat) (s : St Card) (calls : List Call) : Prop where
  /-- every call returns `Ok` with the abstract device's answer (reads: the stored blocks;
  capacity: the register's; card type: the card's kind); afterwards the card's memory is the
  abstract store (writes stored exactly the given bytes, nothing else changed); the card
  recorded no violation; CRC mode as configured -/
  answers : ∃ s', runSession cardBus calls s = (.ok (absRun kind csd emptyStore calls).1, s') ∧
    (∀ j, getBlock s'.bus j = (absRun kind csd emptyStore calls).2 j) ∧ s'.bus.violations = [] ∧
    s'.useCrc = s.useCrc
  /-- … and so after every single call of the session -/
  every_step : ∀ pre post, calls = pre ++ post → pre ≠ [] →
    ∃ s₁, runSession cardBus pre s = (.ok (absRun kind csd emptyStore pre).1, s₁) ∧
      SessionState kind csd ncr nac busy gap (absRun kind csd emptyStore pre).2 s₁
  /-- a multi-block transfer is equivalent to the same single-block transfers in order -/
  multi_eq_singles : ∃ as₁ s₁ as₂ s₂, runSession cardBus calls s = (.ok as₁, s₁) ∧
    runSession cardBus (expandAll calls) s = (.ok as₂, s₂) ∧
    blocksOf as₁ = blocksOf as₂ ∧ infoOf as₁ = infoOf as₂ ∧
    (∀ j, getBlock s₁.bus j = getBlock s₂.bus j) ∧ s₁.bus.violations = [] ∧ s₂.bus.violations = []
  /-- the address scaling of `read`/`write` is the source's, for every card type and block number -/
  address_is_source : ∀ (ct : Option CardType) (idx : Nat), (∀ m, startIdx ct idx ≠ .panic m) →
    C12Gen.ofSRes (startIdx ct idx) = some (Funs.read_start_idx (ct.map C12Gen.toCardType) idx) ∧
    Funs.write_start_idx (ct.map C12Gen.toCardType) idx = Funs.read_start_idx (ct.map C12Gen.toCardType) idx
  /-- the capacity formulas are the source's, for every register -/
  capacity_is_source : ∀ d : Bytes,
    Funs.CsdV1_card_capacity_blocks d = Csd.v1CapacityBlocks d ∧
    Funs.CsdV1_card_capacity_bytes d = Csd.v1CapacityBytes d ∧
    Funs.CsdV2_card_capacity_blocks d = Csd.v2CapacityBlocks d ∧
    Funs.CsdV2_card_capacity_bytes d = Csd.v2CapacityBytes d

theorem C12_main_partial (kind : Kind) (csd : List UInt8) (ncr nac busy initPolls gap : Nat)
    (hncr : ncr ≤ DEFAULT_COMMAND_RETRIES) (hnac : nac ≤ DEFAULT_READ_RETRIES)
    (hbusy : busy ≤ DEFAULT_WRITE_RETRIES) (hpolls : initPolls ≤ DEFAULT_COMMAND_RETRIES) (hgap : gap ≤ 1)
    (s : St Card) (hbus : s.bus = Spec.Card.mk kind csd ncr nac busy initPolls gap) (hct : s.cardType = none)
    (calls : List Call) (hlegal : ∀ c ∈ calls, Legal kind csd c)
    (hbr : busy ≤ DEFAULT_COMMAND_RETRIES ∨ MultiReadsLast calls) :
    Clauses kind csd ncr nac busy gap s calls where
  answers := by
    obtain ⟨s', h, hm, hv, hu, _⟩ := session_correct kind csd ncr nac busy initPolls gap hncr hnac hbusy hpolls hgap
      s hbus hct calls hlegal hbr
    exact ⟨s', h, hm, hv, hu⟩
  every_step := fun pre post hc hpre => by
    subst hc
    obtain ⟨s₁, _, h1, hS, _⟩ := session_every_step kind csd ncr nac busy initPolls gap hncr hnac hbusy hpolls hgap
      s hbus hct pre post hpre hlegal hbr
    exact ⟨s₁, h1, hS⟩
  multi_eq_singles := session_multi_eq_singles kind csd ncr nac busy initPolls gap hncr hnac hbusy hpolls hgap
    s hbus hct calls hlegal hbr
  address_is_source := fun ct idx h => ⟨C12Gen.read_start_idx_eq ct idx h, rfl⟩
  capacity_is_source := fun d => ⟨C12Gen.v1_capacity_blocks_eq d, C12Gen.v1_capacity_bytes_eq d,
    C12Gen.v2_capacity_blocks_eq d, C12Gen.v2_capacity_bytes_eq d⟩

namespace Example

/-- The demo session of `Props/C12Session.lean` (every kind of call, a multi-block read in the
middle) on a freshly powered high-capacity card, slowest legal response, 1000 ACMD41 polls, either
CRC mode: all standing hypotheses discharged. -/
example (s : St Card) (hbus : s.bus = Spec.Card.mk .SDHC (Spec.Card.csdV2 3) 8 100 3 1000) (hct : s.cardType = none) :
    Clauses .SDHC (Spec.Card.csdV2 3) 8 100 3 0 s demoSession :=
  C12_main_partial .SDHC (Spec.Card.csdV2 3) 8 100 3 1000 0 (by decide) (by decide) (by decide) (by decide)
    (by decide) s hbus hct demoSession (demoSession_legal .SDHC (by decide)) (Or.inl (by decide))

/-- … and what the abstract device answers there (evaluated). -/
example : (absRun .SDHC (Spec.Card.csdV2 3) emptyStore demoSession).1 =
    [.unit, .blocks [demoBlock 2, demoBlock 3], .num 4096, .unit, .ctype (some .SDHC), .blocks [demoBlock 9],
     .num 2097152, .blocks [zeros512, zeros512, zeros512]] := rfl

end Example

end Sdmmc.Props.C12Main
