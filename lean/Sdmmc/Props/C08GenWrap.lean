/-
C08, tie to the source text, wrapper level: the RAII wrappers `File` (filesystem/files.rs), `Directory`
(filesystem/directory.rs), `Volume` (lib.rs) and `VolumeManager::open_volume` (volume_mgr.rs), machine-translated by
tools/translate_wrap.py into `Sdmmc.Gen.FunsWrap` on top of the machine translation of the manager
(`Sdmmc.Gen.FunsMgr`), are the hand-written `Model/Wrap.lean`, which `Props/C08Wrap.lean` reasons about.

In words:
* wrapping a raw handle (`to_file`, `new`, ..) and unwrapping it (`to_raw_file`, ..) change nothing and CALL nothing:
  the translations are pure functions, the identity (`wrap_unwrap_id`).  For `to_raw_*` this is the `mem::forget`: the
  translator appends `<impl Drop for T>::drop` to a function that ends while it still owns a `T`; without the
  `forget` the translation of `to_raw_file` would be a computation that closes the file, and `wrap_unwrap_id` would not
  even be well-typed.
* `close(self)` is the raw close and nothing else — the destructor does not run after it, for the same reason
  (`file_close_eq`, `dir_close_eq`, `volume_close_eq`);
* `Drop` is the raw close with an `Err` swallowed: stated against the model (`*_drop_eq`) and, with no hypothesis at
  all, as a relation between the two translations (`drop_is_close_swallowed`);
* `change_dir` opens the new directory FIRST, then closes the old one with `.unwrap()`, and holds the new handle
  (`change_dir_eq`);
* `open_dir`, `open_file_in_dir`, `open_root_dir`, `open_volume` are the manager's call, the handle wrapped;
  `delete_file_in_dir`, `find_directory_entry`, `make_dir_in_dir` are the manager's call (the last two from
  `Gen/FunsMgr2.lean`); `iterate_dir`, `iterate_dir_lfn`, whose callback the wrapper keeps abstract, pass their arguments
  and the result through to whatever the manager method is (`pass_through`).

`FlushOK` is the hypothesis of the manager-level `flush_file` / `close_file` theorems (`Props/C02GenM.lean`).
Proofs: `Sdmmc.Lemmas.GenWrap`, `Sdmmc.Lemmas.GenWrapRaii`.
-/
import Sdmmc.Lemmas.GenWrapRaii
import Sdmmc.Props.C08Wrap

namespace Sdmmc.Props.C08GenWrap

open Sdmmc Sdmmc.Model Sdmmc.Gen
open Sdmmc.Lemmas.GenWrap (FlushOK)

/-! ### Wrapping and unwrapping -/

/-- `RawFile::to_file`, `File::new`, `File::to_raw_file` and their `Directory` / `Volume` counterparts are the
identity on the handle, and pure: no call, no destructor. -/
theorem wrap_unwrap_id (h : Nat) :
    FunsWrap.File_new h = h ∧ FunsWrap.RawFile_to_file h = h ∧ FunsWrap.File_to_raw_file h = h ∧
    FunsWrap.Directory_new h = h ∧ FunsWrap.RawDirectory_to_directory h = h ∧ FunsWrap.Directory_to_raw_directory h = h ∧
    FunsWrap.Volume_new h = h ∧ FunsWrap.RawVolume_to_volume h = h ∧ FunsWrap.Volume_to_raw_volume h = h :=
  Lemmas.GenWrapRaii.wrap_id h

/-! ### `close` -/

/-- `File::close(self)` is the model's `File.close` (= `call (closeFile f)`). -/
theorem file_close_eq (f : Nat) (s : Mgr) (hok : FlushOK s) : FunsWrap.File_close f s = Wrap.File.close f s :=
  Lemmas.GenWrapRaii.file_close_eq f s hok
/-- `Directory::close(self)`. -/
theorem dir_close_eq (d : Nat) : FunsWrap.Directory_close d = Wrap.Directory.close d :=
  Lemmas.GenWrapRaii.dir_close_eq d
/-- `Volume::close(self)`. -/
theorem volume_close_eq (v : Nat) : FunsWrap.Volume_close v = Wrap.Volume.close v :=
  Lemmas.GenWrapRaii.volume_close_eq v

/-! ### `Drop` -/

/-- `Drop for File` is the model's `File.drop` (= `ignoreErr (call (closeFile f))`). -/
theorem file_drop_eq (f : Nat) (s : Mgr) (hok : FlushOK s) : FunsWrap.File_Drop_drop f s = Wrap.File.drop f s :=
  Lemmas.GenWrapRaii.file_drop_eq f s hok
/-- `Drop for Directory`. -/
theorem dir_drop_eq (d : Nat) : FunsWrap.Directory_Drop_drop d = Wrap.Directory.drop d :=
  Lemmas.GenWrapRaii.dir_drop_eq d
/-- `Drop for Volume`. -/
theorem volume_drop_eq (v : Nat) : FunsWrap.Volume_Drop_drop v = Wrap.Volume.drop v :=
  Lemmas.GenWrapRaii.volume_drop_eq v

/-- **A destructor is `close` with the result swallowed** — between the translations themselves, for every state,
no hypothesis. -/
theorem drop_is_close_swallowed (x : Nat) :
    FunsWrap.File_Drop_drop x = FunsWrap.discardErr (FunsWrap.File_close x) ∧
    FunsWrap.Directory_Drop_drop x = FunsWrap.discardErr (FunsWrap.Directory_close x) ∧
    FunsWrap.Volume_Drop_drop x = FunsWrap.discardErr (FunsWrap.Volume_close x) :=
  Lemmas.GenWrapRaii.drop_is_close_swallowed x

/-! ### `Directory`, `Volume`, `open_volume` -/

/-- `Directory::change_dir`: `open_dir` (`?`), then `close_dir(old).unwrap()`, then the new handle is held. -/
theorem change_dir_eq (d : Nat) (name : List Nat) :
    FunsWrap.Directory_change_dir d name = Wrap.Directory.changeDir d name :=
  Lemmas.GenWrapRaii.change_dir_eq d name
/-- `Directory::open_dir`. -/
theorem open_dir_eq (d : Nat) (name : List Nat) : FunsWrap.Directory_open_dir d name = Wrap.Directory.openDir d name :=
  Lemmas.GenWrapRaii.open_dir_eq d name
/-- `Directory::open_file_in_dir`. -/
theorem open_file_in_dir_eq (d : Nat) (name : List Nat) (mode : Mode) :
    FunsWrap.Directory_open_file_in_dir d name mode = Wrap.Directory.openFileInDir d name mode :=
  Lemmas.GenWrapRaii.open_file_in_dir_eq d name mode
/-- `Directory::delete_file_in_dir`. -/
theorem delete_file_in_dir_eq (d : Nat) (name : List Nat) :
    FunsWrap.Directory_delete_file_in_dir d name = Wrap.Directory.deleteFileInDir d name :=
  Lemmas.GenWrapRaii.delete_file_in_dir_eq d name
/-- `Volume::open_root_dir`. -/
theorem open_root_dir_eq (v : Nat) : FunsWrap.Volume_open_root_dir v = Wrap.Volume.openRootDir v :=
  Lemmas.GenWrapRaii.open_root_dir_eq v
/-- `VolumeManager::open_volume`. -/
theorem open_volume_eq (i : Nat) : FunsWrap.VolumeManager_open_volume i = Wrap.openVolume i :=
  Lemmas.GenWrapRaii.open_volume_eq i

/-- `Directory::find_directory_entry`: the manager's method (`Gen/FunsMgr2.lean`, `Props/C06GenMgr.lean`) on the
wrapper's handle; with the model, `call (findDirectoryEntry d name)`. -/
theorem find_directory_entry_eq (d : Nat) (name : List Nat) :
    FunsWrap.Directory_find_directory_entry d name = Wrap.Directory.findDirectoryEntry d name :=
  Lemmas.GenWrapRaii.find_directory_entry_eq d name
/-- `Directory::make_dir_in_dir` (`Props/C03GenMgr.lean`). -/
theorem make_dir_in_dir_eq (d : Nat) (name : List Nat) :
    FunsWrap.Directory_make_dir_in_dir d name = Wrap.Directory.makeDirInDir d name :=
  Lemmas.GenWrapRaii.make_dir_in_dir_eq d name

/-- `iterate_dir`, `iterate_dir_lfn`: whatever the manager's method is (`impl`; the callback type `F` and the LFN buffer
type `B` are abstract), the wrapper is that method on the wrapper's handle.  (`Gen/FunsMgr2.lean` has the two manager
methods with the callback as the list of its calls, `Props/C06GenMgr.lean`; the wrapper keeps the callback abstract.) -/
theorem pass_through :
    (∀ (F : Type) (impl : Nat → F → M Unit) d func, FunsWrap.Directory_iterate_dir impl d func = impl d func) ∧
    (∀ (B F : Type) (impl : Nat → B → F → M B) d buf func,
      FunsWrap.Directory_iterate_dir_lfn impl d buf func = impl d buf func) :=
  Lemmas.GenWrapRaii.pass_through

/-! ### Evaluated examples -/

namespace Example
open Sdmmc.Props.C01Read.Example Sdmmc.Props.C08Wrap.Example

/-- The TRANSLATION computes (the manager of `Props/C08Wrap.lean`: root directory open twice, handles 4 and 3,
one slot free): `change_dir("SUB")` on 4 is `Ok`, the wrapper now holds 5, in the slot where 4 was. -/
example : (FunsWrap.Directory_change_dir 4 [83, 85, 66] mgrD).1 = .ok 5 ∧
    dirTable (FunsWrap.Directory_change_dir 4 [83, 85, 66] mgrD).2 = [(5, 6), (3, CLUSTER_ROOT_DIR)] := by
  refine ⟨?_, ?_⟩ <;> decide +kernel

/-- A full table: `TooManyOpenDirs`, the old handle is still open (the `open_dir` comes first); a name that does not
exist: `NotFound`, likewise. -/
example : (FunsWrap.Directory_change_dir 4 [83, 85, 66] { mgrD with maxDirs := 2 }).1 = .err .TooManyOpenDirs ∧
    dirTable (FunsWrap.Directory_change_dir 4 [83, 85, 66] { mgrD with maxDirs := 2 }).2 =
      [(4, CLUSTER_ROOT_DIR), (3, CLUSTER_ROOT_DIR)] ∧
    (FunsWrap.Directory_change_dir 4 [65] mgrD).1 = .err .NotFound := by
  refine ⟨?_, ?_, ?_⟩ <;> decide +kernel

/-- Dropping / closing: a stale handle is `Ok(())` for `drop`, `BadHandle` for `close`; dropping handle 4 removes it. -/
example : (FunsWrap.Directory_Drop_drop 4 mgrD).1 = .ok () ∧
    dirTable (FunsWrap.Directory_Drop_drop 4 mgrD).2 = [(3, CLUSTER_ROOT_DIR)] ∧
    (FunsWrap.Directory_Drop_drop 9 mgrD).1 = .ok () ∧ (FunsWrap.Directory_close 9 mgrD).1 = .err .BadHandle := by
  refine ⟨?_, ?_, ?_, ?_⟩ <;> decide +kernel

/-- A volume in use: `drop` says `Ok(())` and leaves it open, `close` says `VolumeStillInUse`.  A file: `close`
removes it from the table; with the manager borrowed `close` is `LockError`, `drop` is `Ok(())` and the handle
leaks. -/
example : (FunsWrap.Volume_Drop_drop 0 mgrD).1 = .ok () ∧ (FunsWrap.Volume_Drop_drop 0 mgrD).2.vols.length = 1 ∧
    (FunsWrap.Volume_close 0 mgrD).1 = .err .VolumeStillInUse ∧
    (FunsWrap.File_close 1 mgr).1 = .ok () ∧ (FunsWrap.File_close 1 mgr).2.files.map (·.rawFile) = [2] ∧
    (FunsWrap.File_close 1 { mgr with locked := true }).1 = .err .LockError ∧
    (FunsWrap.File_Drop_drop 1 { mgr with locked := true }).1 = .ok () ∧
    (FunsWrap.File_Drop_drop 1 { mgr with locked := true }).2.files.map (·.rawFile) = [1, 2] := by
  refine ⟨?_, ?_, ?_, ?_, ?_, ?_, ?_, ?_⟩ <;> decide +kernel

/-- `find_directory_entry` / `make_dir_in_dir` through the wrapper (now whole: wrapper and manager method both
translated): `SUB` is found in cluster 6; making it again is `DirAlreadyExists`; with the manager borrowed `LockError`. -/
example : (match (FunsWrap.Directory_find_directory_entry 4 [83, 85, 66] mgrD).1 with | .ok e => e.cluster | _ => 0) = 6 ∧
    (FunsWrap.Directory_make_dir_in_dir 4 [83, 85, 66] mgrD).1 = .err .DirAlreadyExists ∧
    (FunsWrap.Directory_make_dir_in_dir 4 [65] { mgrD with locked := true }).1 = .err .LockError := by
  refine ⟨?_, ?_, ?_⟩ <;> decide +kernel

/-- `FlushOK` holds of the example managers. -/
example : FlushOK mgr ∧ FlushOK mgrD := by
  refine ⟨?_, ?_⟩ <;> (unfold FlushOK; decide)

end Example

end Sdmmc.Props.C08GenWrap
