/-
C03 (delete) and C02 (the directory entry of an open file), tie to the source text, FAT level:
`FatVolume::delete_entry_in_block`, `FatVolume::delete_directory_entry`, `FatVolume::write_entry_to_disk`
(fat/volume.rs), machine-translated into `Sdmmc.Gen.FunsDir`, against `Model.Fat.deleteDirectoryEntry`,
`Model.Fat.writeEntryToDisk`.

`delete_entry_in_block_eq` and `write_entry_to_disk_eq` are unconditional.  `delete_directory_entry_eq_partial` holds
for every fuel above `chainFuel v + (blocks per step) + 2` when the model's answer is not `diverged` (the model's
walk carries its own fuel `chainFuel v`, see `Props/C06GenM.lean`).
-/
import Sdmmc.Gen.FunsDir
import Sdmmc.Model.Fat
import Sdmmc.Lemmas.GenMgrIO
import Sdmmc.Props.C01GenFind
import Sdmmc.Props.C06GenM

set_option linter.unusedSimpArgs false

namespace Sdmmc.Props.C03GenM

open Sdmmc Sdmmc.Model Sdmmc.Model.Fat Sdmmc.Gen Sdmmc.Lemmas.GenMgrIO
open Sdmmc.Lemmas.FBasic
open Sdmmc.Props.C06GenM (slot_eq slotsFrom slotsOf_eq slotsFrom_succ cacheRead_vol next16_ne_root nextCluster_vol
  range_iter clusterToBlock_root32)

/-! ### `write_entry_to_disk` -/

theorem serialize_length (ft : FatType) (e : DirEntry) (hn : e.name.length ≤ 11 ∨ True) :
    (DirEntry.serialize ft e).length = 32 := by
  unfold DirEntry.serialize leU16 leU32 zeros
  cases ft <;>
    simp only [List.length_append, List.length_take, List.length_replicate, List.length_cons, List.length_nil,
      Timestamp.serializeToFat, leU16] <;> omega

theorem write_entry_to_disk_eq (e : DirEntry) : FunsDir.FatVolume_write_entry_to_disk e = writeEntryToDisk e := by
  funext fs
  unfold FunsDir.FatVolume_write_entry_to_disk writeEntryToDisk
  simp only [bind_apply, getVol_apply]
  cases hfty : fs.vol.fatType
  all_goals
    simp only []
    rcases cacheRead e.entryBlock fs with ⟨r, fs1⟩
    cases r <;> simp only []
    simp only [cacheBlk, cacheModify, pure_apply]
    rw [show ∀ (ft : FatType), List.take e.entryOffset fs1.cache.blk ++ DirEntry.serialize ft e ++
        List.drop (e.entryOffset + 32) fs1.cache.blk = splice fs1.cache.blk e.entryOffset (DirEntry.serialize ft e) from
      fun ft => by unfold splice; rw [serialize_length ft e (.inr trivial)]]
    rcases writeBack _ with ⟨r2, fs2⟩
    cases r2 <;> rfl

/-! ### `delete_entry_in_block` -/

/-- `write_back` fails with the device's error only. -/
theorem writeBack_err (fs : FS) (e : Err) (h : (writeBack fs).1 = .err e) : e = .DeviceError := by
  cases ht : fs.cache.tag with
  | none => rw [writeBack_none fs ht] at h; cases h
  | some idx =>
    rcases writeBack_cases fs idx ht with ⟨s1, _, h2⟩ | ⟨s1, _, h2⟩
    · rw [h2] at h; cases h
    · rw [h2] at h; cases h; rfl

/-- The loop over the slots of `delete_entry_in_block` is the model's `deleteInSlots`. -/
theorem delete_slots_loop (v : FatVolume) (name : Bytes) :
    ∀ (n i : Nat), i + n = 16 → ∀ fs : FS, ∃ c,
      FunsDir.FatVolume_delete_entry_in_block_loop1 v name fs.cache.blk n i fs =
        (match deleteInSlots name (slotsFrom fs.cache.blk i n) with
         | some off => (cacheModify (fun b => b.set off (UInt8.ofNat 0xE5)) >>= fun _ => writeBack >>= fun u =>
             pure (Except.error u)) fs
         | none => (.ok (Except.ok c), fs))
  | 0, i, _, fs => ⟨i, rfl⟩
  | n + 1, i, h, fs => by
    rw [FunsDir.FatVolume_delete_entry_in_block_loop1, slotsFrom_succ, deleteInSlots]
    simp only [slot_eq]
    by_cases he : OnDisk.isEnd (slice fs.cache.blk (i * 32) 32) = true
    · rw [if_pos he, if_pos he]
      exact ⟨i + 1, rfl⟩
    · rw [if_neg he, if_neg he]
      by_cases hm : OnDisk.matches (slice fs.cache.blk (i * 32) 32) name = true
      · rw [if_pos hm, if_pos hm]
        exact ⟨0, rfl⟩
      · rw [if_neg hm, if_neg hm]
        simp only [cacheBlk, bind_apply]
        exact delete_slots_loop v name n (i + 1) (by omega) fs

/-- `delete_entry_in_block(name, block)`: read the block, mark the matching slot, write it back. -/
theorem delete_entry_in_block_eq (name : Bytes) (b : Nat) :
    FunsDir.FatVolume_delete_entry_in_block name b =
      (cacheRead b >>= fun _ => cacheBlk >>= fun blk =>
        match deleteInSlots name (slotsOf blk) with
        | some off => cacheModify (fun b => b.set off (UInt8.ofNat 0xE5)) >>= fun _ => writeBack
        | none => F.fail .NotFound) := by
  funext fs
  unfold FunsDir.FatVolume_delete_entry_in_block
  simp only [bind_apply, getVol_apply]
  rcases cacheRead b fs with ⟨r, fs1⟩
  cases r <;> simp only []
  simp only [cacheBlk, bind_apply]
  obtain ⟨c, hc⟩ := delete_slots_loop fs.vol name 16 0 rfl fs1
  rw [hc, slotsOf_eq]
  cases deleteInSlots name (slotsFrom fs1.cache.blk 0 16) with
  | none => rfl
  | some off =>
    simp only [bind_apply, cacheModify]
    rcases writeBack _ with ⟨r2, fs2⟩
    cases r2 <;> rfl

/-! ### The blocks of one step -/

def dblocksOut (x : Res Bool) (done : FunsM.BlockIter) : Res (Except Unit FunsM.BlockIter) :=
  match x with
  | .ok true => .ok (.error ())
  | .ok false => .ok (.ok done)
  | .err e => .err e
  | .panic m => .panic m
  | .diverged => .diverged

set_option hygiene false in
/-- The same proof for the FAT16 and the FAT32 copy of the loop over the blocks. -/
local macro "delete_blocks_tac" loop:ident : tactic => `(tactic| (
  intro n
  induction n with
  | zero =>
    intro first fuel fs hf
    obtain ⟨fuel', rfl⟩ : ∃ f', fuel = f' + 1 := ⟨fuel - 1, by omega⟩
    rw [$loop:ident]
    simp only [FunsM.BlockIter_next, Nat.add_zero, ge_iff_le, Nat.le_refl, if_true, deleteBlocks, pure_apply, dblocksOut]
  | succ n ih =>
    intro first fuel fs hf
    obtain ⟨fuel', rfl⟩ : ∃ f', fuel = f' + 1 := ⟨fuel - 1, by omega⟩
    rw [$loop:ident, deleteBlocks]
    have hlt : ¬ first ≥ first + (n + 1) := by omega
    simp only [FunsM.BlockIter_next, hlt, if_false, FunsM.BlockIdx_add, bind_apply, attempt_apply,
      delete_entry_in_block_eq]
    have hres := Sdmmc.Lemmas.FBasic.cacheRead_result first fs
    rcases hcr : cacheRead first fs with ⟨r, fs1⟩
    rw [hcr] at hres
    simp only at hres
    cases r with
    | ok u =>
      simp only [cacheBlk, bind_apply]
      cases hfi : deleteInSlots name (slotsOf fs1.cache.blk) with
      | some off =>
        simp only [bind_apply, cacheModify]
        have hwe := writeBack_err { fs1 with cache := { fs1.cache with blk := fs1.cache.blk.set off (UInt8.ofNat 0xE5) } }
        rcases hwb : writeBack { fs1 with cache := { fs1.cache with blk := fs1.cache.blk.set off (UInt8.ofNat 0xE5) } }
          with ⟨r2, fs2⟩
        rw [hwb] at hwe
        cases r2 with
        | ok u2 => simp only [pure_apply, lift_apply, bind_apply, dblocksOut]
        | err e =>
          have := hwe e rfl
          subst this
          simp only [lift_apply, bind_apply, dblocksOut]
        | panic m => rfl
        | diverged => rfl
      | none =>
        simp only [fail_apply, pure_apply]
        have h2 : first + (n + 1) = first + 1 + n := by omega
        rw [h2]
        exact ih (first + 1) fuel' fs1 (by omega)
    | err e =>
      rcases hres with h | h
      · cases h
      · cases h
        simp only [lift_apply, bind_apply, dblocksOut]
    | panic m => rcases hres with h | h <;> cases h
    | diverged => rcases hres with h | h <;> cases h
  ))

theorem delete_blocks16 (v : FatVolume) (name : Bytes) : ∀ (n first fuel : Nat) (fs : FS), fuel ≥ n + 1 →
    FunsDir.FatVolume_delete_directory_entry_loop2 v name fuel { inclusive_end := first + n, current := first } fs =
      (dblocksOut (deleteBlocks name n first fs).1 { inclusive_end := first + n, current := first + n },
       (deleteBlocks name n first fs).2) := by
  delete_blocks_tac FunsDir.FatVolume_delete_directory_entry_loop2

theorem delete_blocks32 (v : FatVolume) (name : Bytes) : ∀ (n first fuel : Nat) (fs : FS), fuel ≥ n + 1 →
    FunsDir.FatVolume_delete_directory_entry_loop4 v name fuel { inclusive_end := first + n, current := first } fs =
      (dblocksOut (deleteBlocks name n first fs).1 { inclusive_end := first + n, current := first + n },
       (deleteBlocks name n first fs).2) := by
  delete_blocks_tac FunsDir.FatVolume_delete_directory_entry_loop4

/-- A scan that found nothing has written nothing: the volume record is the one it started with. -/
theorem deleteBlocks_vol (name : Bytes) : ∀ (n b : Nat) (fs : FS), (deleteBlocks name n b fs).2.vol = fs.vol
  | 0, _, _ => rfl
  | n + 1, b, fs => by
    rw [deleteBlocks]
    simp only [bind_apply]
    have hv := C06GenM.cacheRead_vol b fs
    rcases hcr : cacheRead b fs with ⟨r, fs1⟩
    rw [hcr] at hv
    have hv : fs1.vol = fs.vol := hv
    cases r with
    | ok u =>
      simp only [cacheBlk, bind_apply]
      cases deleteInSlots name (slotsOf fs1.cache.blk) with
      | some off =>
        simp only [bind_apply, cacheModify]
        have hw := writeBack_vol { fs1 with cache := { fs1.cache with blk := fs1.cache.blk.set off (UInt8.ofNat 0xE5) } }
        rcases hwb : writeBack { fs1 with cache := { fs1.cache with blk := fs1.cache.blk.set off (UInt8.ofNat 0xE5) } }
          with ⟨r2, fs2⟩
        rw [hwb] at hw
        cases r2 <;> exact hw.trans hv
      | none => rw [deleteBlocks_vol name n (b + 1) fs1]; exact hv
    | err e => exact hv
    | panic m => exact hv
    | diverged => exact hv

/-! ### The walk along the chain -/

/-- What `delete_directory_entry` does with the answer of its outer loop. -/
def finishD {σ : Type} (r : Except Unit σ) : F Unit :=
  match r with
  | Except.error u => pure u
  | Except.ok _ => F.fail .NotFound

theorem delete_walk16 (v : FatVolume) (name : Bytes) (hft : v.fatType = .fat16) :
    ∀ (fuelM fuelG : Nat) (w : DirWalk) (fs : FS), fs.vol = v →
      (w.fixedRoot = true ↔ w.cluster = 4294967292) →
      fuelG ≥ fuelM + w.dirSize + 1 → (deleteWalk name fuelM w fs).1 ≠ .diverged →
      (FunsDir.FatVolume_delete_directory_entry_loop1 v name w.dirSize fuelG (some w.cluster, w.firstBlock) >>= finishD) fs =
        deleteWalk name fuelM w fs := by
  intro fuelM
  induction fuelM with
  | zero =>
    intro fuelG w fs _ _ _ hnd
    exact (hnd rfl).elim
  | succ fuelM ih =>
    intro fuelG w fs hv hroot hG hnd
    obtain ⟨fuel, rfl⟩ : ∃ f, fuelG = f + 1 := ⟨fuelG - 1, by omega⟩
    rw [deleteWalk] at hnd ⊢
    rw [bind_apply, FunsDir.FatVolume_delete_directory_entry_loop1]
    simp only [range_iter, bind_apply, getVol_apply] at hnd ⊢
    rw [delete_blocks16 v name w.dirSize w.firstBlock fuel fs (by omega)]
    have hv1 := deleteBlocks_vol name w.dirSize w.firstBlock fs
    rcases hfb : deleteBlocks name w.dirSize w.firstBlock fs with ⟨r, fs1⟩
    rw [hfb] at hv1 hnd
    simp only at hv1 hnd
    cases r with
    | ok b =>
      cases b with
      | true => rfl
      | false =>
        simp only [dblocksOut, ite_apply, bind_apply, pure_apply, Bool.false_eq_true, if_false] at hnd ⊢
        obtain ⟨fuel', rfl⟩ : ∃ f, fuel = f + 1 := ⟨fuel - 1, by omega⟩
        by_cases hfr : w.fixedRoot = true
        · have hc : ¬ (w.cluster ≠ 4294967292) := fun h => h (hroot.mp hfr)
          simp only [hfr, if_true, hc, if_false, pure_apply, bind_apply]
          rfl
        · have hc : w.cluster ≠ 4294967292 := fun h => hfr (hroot.mpr h)
          simp only [hfr, if_false, hc, ne_eq, not_false_eq_true, if_true, attempt_apply, bind_apply,
            Bool.false_eq_true] at hnd ⊢
          have hv2 := nextCluster_vol w.cluster fs1
          have hne := next16_ne_root w.cluster
          rcases hnc : nextCluster w.cluster fs1 with ⟨rn, fs2⟩
          rw [hnc] at hv2 hnd
          simp only at hv2 hnd
          cases rn with
          | ok n =>
            simp only [pure_apply, bind_apply] at hnd ⊢
            have hn := hne n fs1 (by rw [hv1, hv]; exact hft) (by rw [hnc])
            rw [hv]
            exact ih (fuel' + 1)
              { cluster := n, firstBlock := clusterToBlock v n, dirSize := w.dirSize, fixedRoot := false } fs2
              (by rw [hv2, hv1, hv]) ⟨fun h => (by cases h), fun h => (hn h).elim⟩ (by simp only []; omega)
              (by rw [hv] at hnd; exact hnd)
          | err e =>
            cases e
            case EndOfFile => rfl
            all_goals rfl
          | panic m => rfl
          | diverged => rfl
    | err e => rfl
    | panic m => rfl
    | diverged => rfl

theorem delete_walk32 (v : FatVolume) (name : Bytes) :
    ∀ (fuelM fuelG : Nat) (w : DirWalk) (fs : FS), fs.vol = v → w.fixedRoot = false →
      w.firstBlock = clusterToBlock v w.cluster → w.dirSize = v.blocksPerCluster →
      fuelG ≥ fuelM + w.dirSize + 1 → (deleteWalk name fuelM w fs).1 ≠ .diverged →
      (FunsDir.FatVolume_delete_directory_entry_loop3 v name fuelG (some w.cluster) >>= finishD) fs =
        deleteWalk name fuelM w fs := by
  intro fuelM
  induction fuelM with
  | zero =>
    intro fuelG w fs _ _ _ _ _ hnd
    exact (hnd rfl).elim
  | succ fuelM ih =>
    intro fuelG w fs hv hfr hfb0 hds hG hnd
    obtain ⟨fuel, rfl⟩ : ∃ f, fuelG = f + 1 := ⟨fuelG - 1, by omega⟩
    rw [deleteWalk] at hnd ⊢
    rw [bind_apply, FunsDir.FatVolume_delete_directory_entry_loop3]
    simp only [range_iter, bind_apply, getVol_apply] at hnd ⊢
    rw [← hfb0, ← hds, delete_blocks32 v name w.dirSize w.firstBlock fuel fs (by omega)]
    have hv1 := deleteBlocks_vol name w.dirSize w.firstBlock fs
    rcases hfb : deleteBlocks name w.dirSize w.firstBlock fs with ⟨r, fs1⟩
    rw [hfb] at hv1 hnd
    simp only at hv1 hnd
    cases r with
    | ok b =>
      cases b with
      | true => rfl
      | false =>
        simp only [dblocksOut, ite_apply, bind_apply, pure_apply, hfr, Bool.false_eq_true, if_false, attempt_apply]
          at hnd ⊢
        obtain ⟨fuel', rfl⟩ : ∃ f, fuel = f + 1 := ⟨fuel - 1, by omega⟩
        have hv2 := nextCluster_vol w.cluster fs1
        rcases hnc : nextCluster w.cluster fs1 with ⟨rn, fs2⟩
        rw [hnc] at hv2 hnd
        simp only at hv2 hnd
        cases rn with
        | ok n =>
          simp only [pure_apply, bind_apply] at hnd ⊢
          rw [hv]
          exact ih (fuel' + 1)
            { cluster := n, firstBlock := clusterToBlock v n, dirSize := w.dirSize, fixedRoot := false } fs2
            (by rw [hv2, hv1, hv]) rfl rfl hds (by simp only []; omega) (by rw [hv] at hnd; exact hnd)
        | err e =>
          cases e
          case EndOfFile => rfl
          all_goals rfl
        | panic m => rfl
        | diverged => rfl
    | err e => rfl
    | panic m => rfl
    | diverged => rfl

/-! ### `delete_directory_entry` -/

/-- `delete_directory_entry(dir, name)` is the model's `deleteDirectoryEntry dir.cluster name`, for every fuel above
`chainFuel v + (blocks per step) + 2`, when the model's answer is not `diverged`. -/
theorem delete_directory_entry_eq_partial (fuel : Nat) (dir : DirInfo) (name : Bytes) (fs : FS)
    (hfuel : fuel ≥ chainFuel fs.vol + (dirWalkStart fs.vol dir.cluster).dirSize + 2)
    (hnd : (Fat.deleteDirectoryEntry dir.cluster name fs).1 ≠ .diverged) :
    FunsDir.FatVolume_delete_directory_entry fuel dir name fs = Fat.deleteDirectoryEntry dir.cluster name fs := by
  unfold FunsDir.FatVolume_delete_directory_entry Fat.deleteDirectoryEntry at *
  simp only [bind_apply, getVol_apply] at hnd ⊢
  cases hft : fs.vol.fatType with
  | fat16 =>
    simp only []
    have hw : dirWalkStart fs.vol dir.cluster =
        { cluster := dir.cluster,
          firstBlock := if dir.cluster = 4294967292 then FunsM.BlockIdx_add fs.vol.lbaStart fs.vol.firstRootDirBlock
            else clusterToBlock fs.vol dir.cluster,
          dirSize := if dir.cluster = 4294967292 then FunsDir.BlockCount_from_bytes (fs.vol.rootEntriesCount * 32)
            else fs.vol.blocksPerCluster,
          fixedRoot := decide (dir.cluster = 4294967292) } := by
      unfold dirWalkStart
      simp only [hft]
      have hr : CLUSTER_ROOT_DIR = 4294967292 := rfl
      rw [hr]
      by_cases h : dir.cluster = 4294967292
      · simp only [h, if_true, decide_true]
        rfl
      · simp only [h, if_false, decide_false]
    rw [hw] at hnd hfuel ⊢
    have := delete_walk16 fs.vol name hft (chainFuel fs.vol) fuel _ fs rfl (by simp) (by simp only [] at hfuel ⊢; omega) hnd
    rw [← this]
    refine congrFun (congrArg _ (funext fun r => ?_)) fs
    cases r <;> rfl
  | fat32 =>
    simp only []
    have hw : dirWalkStart fs.vol dir.cluster =
        { cluster := if dir.cluster = 4294967292 then fs.vol.firstRootDirCluster else dir.cluster,
          firstBlock := clusterToBlock fs.vol dir.cluster, dirSize := fs.vol.blocksPerCluster, fixedRoot := false } := by
      unfold dirWalkStart
      simp only [hft]
      rfl
    rw [hw] at hnd hfuel ⊢
    have := delete_walk32 fs.vol name (chainFuel fs.vol) fuel _ fs rfl rfl
      (by simp only []; exact (clusterToBlock_root32 fs.vol hft dir.cluster).symm) rfl
      (by simp only [] at hfuel ⊢; omega) hnd
    rw [← this]
    by_cases h : dir.cluster = 4294967292
    · simp only [h, if_true]
      refine congrFun (congrArg _ (funext fun r => ?_)) fs
      cases r <;> rfl
    · simp only [h, if_false]
      refine congrFun (congrArg _ (funext fun r => ?_)) fs
      cases r <;> rfl

end Sdmmc.Props.C03GenM
