/-
C02 — After flush/close the medium holds the files, readable by any FAT reader.

Property theorems only; helper lemmas live in `Sdmmc.Lemmas.DirEntryIO`, `DirSlots`, `DirFrames`,
`DirMgr` (on top of `FatOps`, `C18`, `Listing`).

THE FULL THEOREM (not proved — partial).  With `g` the geometry of the volume, `Spec.Fs` the
independent FAT reader and `remount d` a fresh `VolumeManager` on the raw medium `d`:

    theorem c02_durable (s : Mgr) (ops : List Op) (file : Nat)
        (hmount : well-formed mounted volume, no faults, coherent cache, 512-byte blocks)
        (hlast : the history `ops` ends in a successful `flush file` or `closeFile file`)
        (f : the open-file record of `file` at that point, path `p`) :
        let d := (run s ops).1.dev.disk
        -- this library, freshly mounted, and the independent reader agree and show the file:
        lookup (remount d) p = Spec.Fs lookup g d p = some e ∧
        e.name = f.entry.name ∧ e.size = f.entry.size ∧ e.attributes = f.entry.attributes ∧
        Spec.Fs.fileBytes g d (chain of e.cluster) e.size = the bytes written through the handle ∧
        e.ctime = the clock value at creation ∧ e.mtime = the clock value at the last write ∧
        -- every file and directory the history did not touch:
        ∀ path q not touched by `ops`, its entry and its contents on `d` are those on `s.dev.disk`

WHAT IS PROVED HERE are the component facts, each for an arbitrary fault-free, coherent state with
512-byte blocks:

* `flush_writes_entry` (F level) with the manager wrappers `flush_clean_writes_nothing` /
  `flush_dirty_runs_flushF`: flushing a dirty file writes the info sector (FAT32 only) and then exactly
  one directory block — the entry's —, changing only the 32 bytes of the slot, which then hold the
  serialised entry; flushing a clean file writes nothing.
* `entry_persists`: decoding that slot from the new medium returns the open file's entry — name,
  attributes, size, first cluster, creation and modification time (C18 round trip).
* `write_sets_mtime_archive`, `write_keeps_identity`: after EVERY `write` that gets past its checks
  (valid handle, volume open, mode not `ReadOnly`) — whatever its outcome: ok, `DiskFull`,
  `AllocationError`, a device error, … — the entry has `mtime = clock`, the archive bit set and
  `dirty = true`; no `write` at all changes any open file's name, creation time or slot position.
* `create_entry_fields`, `created_slot_is_first_free`, `create_entry_fields_walk`: a created entry has
  size 0, `ctime = mtime = now`, the given name / attributes / first cluster, and sits at the first
  free slot of the first block that has one.
* `untouched_slots_preserved_flush` / `_create` / `_delete`: each of the three directory writers
  changes one slot (one byte, for delete) of one block; all other bytes of the medium are identical.

HISTORY (repaired defect, see `Example.failed_write_carries_new_mtime`): in the crate as first
modelled, `write` set the archive bit and the modification time only after its loop, so a `write`
that failed part-way (`DiskFull` after some blocks went out) left a longer, dirty file with the OLD
time stamp, which the next flush stored.  Crate and model now record the modification right after
setting `dirty`; `write_sets_mtime_archive` is the statement that this holds on every path.

NOT PROVED: the composition into the remount statement above (needs the chain / directory-tree
representation invariant of C03 and the data-path theorem of C01 lifted to the medium), and the
agreement of `Spec.Fs` with the model's reader on the flushed file (tested by the harness at every
quiescent point).
-/
import Sdmmc.Lemmas.DirEntryIO
import Sdmmc.Lemmas.DirSlots
import Sdmmc.Lemmas.DirFrames
import Sdmmc.Lemmas.DirMgr
import Sdmmc.Lemmas.Listing

namespace Sdmmc.Props.C02
open Sdmmc.Model Sdmmc.Model.Fat Sdmmc.Spec

/-! ### Vocabulary -/

def NoFault (s : FS) : Prop := s.dev.faults = []
def Coherent (s : FS) : Prop := ∀ i, s.cache.tag = some i → s.cache.blk = s.dev.disk.get i
def BlocksOK (d : Disk) : Prop := ∀ i, (d.get i).length = 512

/-- A timestamp is FAT-representable: the decoding of some date / time words with non-zero month
and day fields (same as `Props.C18.FatTime`). -/
def FatTime (t : Timestamp) : Prop :=
  ∃ date time, date < 65536 ∧ time < 65536 ∧ date / 32 % 16 ≠ 0 ∧ date % 32 ≠ 0 ∧ t = Timestamp.fromFat date time

/-- What `update_info_sector` does to the info block. -/
def infoPatch (v : FatVolume) (b : Block) : Block :=
  let b1 := match v.freeClustersCount with
    | some c => splice b Gen.INFO_WRITE_FREE_LO (leU32 c)
    | none => b
  match v.nextFreeCluster with
  | some c => splice b1 Gen.INFO_WRITE_NEXT_LO (leU32 c)
  | none => b1

/-- What `flush_file` runs on the volume for a dirty file. -/
def flushF (e : DirEntry) : F Unit := do
  updateInfoSector
  writeEntryToDisk e

/-- The 32 bytes of the directory slot at offset `off` of block `b`. -/
def slotPos (b off : Nat) : Nat → Nat → Prop := fun b' i => b' = b ∧ off ≤ i ∧ i < off + 32
/-- No position of `P` is a position of `Q`. -/
def Avoids (P Q : Nat → Nat → Prop) : Prop := ∀ b i, P b i → ¬ Q b i
/-- The bytes at the (block, byte) positions `P` are the same on `d'` as on `d`. -/
def SameOn (P : Nat → Nat → Prop) (d d' : Disk) : Prop :=
  ∀ b i, P b i → (d'.get b).getD i 0 = (d.get b).getD i 0

/-- What no step of `write` changes in an open file (and: once dirty, it stays dirty). -/
def SameIdentity (f f' : FileInfo) : Prop :=
  f'.rawFile = f.rawFile ∧ f'.rawVolume = f.rawVolume ∧ f'.mode = f.mode ∧ f'.entry.name = f.entry.name ∧
  f'.entry.ctime = f.entry.ctime ∧ f'.entry.entryBlock = f.entry.entryBlock ∧
  f'.entry.entryOffset = f.entry.entryOffset ∧ (f.dirty = true → f'.dirty = true)
/-- The open-file table keeps its length and every file keeps its identity. -/
def FilesKeep (l l' : List FileInfo) : Prop :=
  l'.length = l.length ∧ ∀ (i : Nat) (f : FileInfo), l[i]? = some f → ∃ f', l'[i]? = some f' ∧ SameIdentity f f'
/-- Whatever the state and the outcome, `m` keeps every open file's identity and the clock. -/
def KeepsFiles {α : Type} (m : M α) : Prop := ∀ s, FilesKeep s.files (m s).2.files ∧ (m s).2.clock = s.clock

/-- Shape of a created entry, wherever it was put. -/
def IsNewEntry (name : Bytes) (att fc : Nat) (now : Timestamp) (e : DirEntry) : Prop :=
  ∃ b off, e = DirEntry.new name att fc now b off ∧ off < 512 ∧ off % 32 = 0

/-- The specification's view of a directory block (as in `Props.C06`). -/
abbrev Slot := Nat × Nat × Bytes
def firstByte (d : Bytes) : Nat := byteAt d 0
def blockSlots (b : Nat) (blk : Block) : List Slot :=
  (List.range 16).map fun i => (b, 32 * i, (blk.drop (32 * i)).take 32)

/-! ### Flush -/

/-- `flush_file` of a dirty file, F level (`flushF e` = `update_info_sector; write_entry_to_disk e`).
It succeeds.  First step: nothing (FAT16, or nothing to record) or one write of the info sector;
blocks other than the info sector are untouched by it.  Second step: exactly one block write, to
`e.entryBlock`; every other block is identical, inside that block every byte outside
`[entryOffset, entryOffset + 32)` is preserved, and the slot then holds `e.serialize`. -/
theorem flush_writes_entry (s : FS) (e : DirEntry) (hn : NoFault s) (hc : Coherent s) (hb : BlocksOK s.dev.disk)
    (ho : e.entryOffset + 32 ≤ 512) (hname : e.name.length = 11) :
    ∃ s1 s', updateInfoSector s = (.ok (), s1) ∧ writeEntryToDisk e s1 = (.ok (), s') ∧ flushF e s = (.ok (), s') ∧
      NoFault s' ∧ Coherent s' ∧ s'.vol = s.vol ∧ BlocksOK s'.dev.disk ∧
      (s1.dev.wlog = s.dev.wlog ∧ s1.dev.disk = s.dev.disk ∨
        s.vol.fatType = .fat32 ∧
          s1.dev.wlog = (s.vol.infoLocation, infoPatch s.vol (s.dev.disk.get s.vol.infoLocation)) :: s.dev.wlog) ∧
      (∀ i, i ≠ s.vol.infoLocation → s1.dev.disk.get i = s.dev.disk.get i) ∧
      (∃ p, s'.dev.wlog = (e.entryBlock, p) :: s1.dev.wlog ∧ s'.dev.disk = s1.dev.disk.set e.entryBlock p) ∧
      (∀ b, b ≠ e.entryBlock → s'.dev.disk.get b = s1.dev.disk.get b) ∧
      (∀ i, i < e.entryOffset ∨ e.entryOffset + 32 ≤ i →
        (s'.dev.disk.get e.entryBlock).getD i 0 = (s1.dev.disk.get e.entryBlock).getD i 0) ∧
      slice (s'.dev.disk.get e.entryBlock) e.entryOffset 32 = e.serialize s.vol.fatType :=
  Lemmas.DirEntryIO.flushF_spec s e hn hc hb ho hname

/-- Manager level: flushing a file that is not dirty changes nothing and writes nothing. -/
theorem flush_clean_writes_nothing (file fileIdx : Nat) (f : FileInfo) (s : Mgr)
    (h1 : getFileById file s = (.ok fileIdx, s)) (h2 : getFile fileIdx s = (.ok f, s)) (hd : f.dirty = false) :
    flushFile file s = (.ok (), s) :=
  Lemmas.DirMgr.flushFile_clean file fileIdx f s h1 h2 hd

/-- Manager level: flushing a dirty file (valid handle, volume open, and the entry has a cluster
or is empty — otherwise the `assert!` fires) runs `flushF f.entry` on the file's volume. -/
theorem flush_dirty_runs_flushF (file fileIdx volIdx : Nat) (f : FileInfo) (s : Mgr)
    (h1 : getFileById file s = (.ok fileIdx, s)) (h2 : getFile fileIdx s = (.ok f, s)) (hd : f.dirty = true)
    (h3 : getVolumeById f.rawVolume s = (.ok volIdx, s))
    (hassert : ¬ (f.entry.size ≠ 0 ∧ f.entry.cluster = 0)) :
    flushFile file s = withVol volIdx (flushF f.entry) s :=
  Lemmas.DirMgr.flushFile_dirty file fileIdx volIdx f s h1 h2 hd h3 hassert

/-- After `write_entry_to_disk e`, decoding the slot from the NEW medium gives back `e`: name,
attributes, size, first cluster, creation time and modification time are what the open file held.
(`e`: 11-byte name, attribute byte, 32-bit size, cluster representable in the FAT type's entry,
FAT-representable times, and not the encoding "directory with cluster 0", which reads as the root.) -/
theorem entry_persists (s : FS) (e : DirEntry) (hn : NoFault s) (hc : Coherent s) (hb : BlocksOK s.dev.disk)
    (ho : e.entryOffset + 32 ≤ 512) (hname : e.name.length = 11)
    (hattr : e.attributes < 256) (hsize : e.size < 4294967296)
    (hcl : match s.vol.fatType with | .fat16 => e.cluster < 65536 | .fat32 => e.cluster < 4294967296)
    (hm : FatTime e.mtime) (hct : FatTime e.ctime)
    (hroot : ¬ (e.cluster = 0 ∧ Attr.isDirectory e.attributes = true)) :
    (writeEntryToDisk e s).1 = .ok () ∧
    OnDisk.getEntry s.vol.fatType (slice ((writeEntryToDisk e s).2.dev.disk.get e.entryBlock) e.entryOffset 32)
      e.entryBlock e.entryOffset = e :=
  Lemmas.DirEntryIO.entry_persists s e hn hc hb ho hname hattr hsize hcl hm hct hroot

/-! ### Write -/

/-- After EVERY `write` that gets past its checks (valid handle `file` at table index `fileIdx`,
volume open, file not opened `ReadOnly`) — whatever the call returns: ok, `DiskFull`,
`NotEnoughSpace`, `AllocationError`, a device error, even a panic —: the clock did not move; the
file's record is dirty, its modification time is the clock value, its attributes are the old ones
with the archive bit set, and handle, volume, mode, name, creation time and slot position are what
they were. -/
theorem write_sets_mtime_archive (file fileIdx volIdx : Nat) (f : FileInfo) (buffer : Bytes) (s : Mgr)
    (h1 : getFileById file s = (.ok fileIdx, s)) (h2 : getFile fileIdx s = (.ok f, s))
    (h3 : getVolumeById f.rawVolume s = (.ok volIdx, s)) (hmode : f.mode ≠ .ReadOnly) :
    (write file buffer s).2.clock = s.clock ∧
    ∃ f', (write file buffer s).2.files[fileIdx]? = some f' ∧ f'.dirty = true ∧ f'.entry.mtime = s.clock ∧
      f'.entry.attributes = Attr.setArchive f.entry.attributes ∧ f'.entry.attributes / 32 % 2 = 1 ∧
      SameIdentity f f' :=
  Lemmas.DirMgr.write_stamps file fileIdx volIdx f buffer s h1 h2 h3 hmode

/-- …and a `write` refused because the file was opened `ReadOnly` changes nothing at all. -/
theorem write_readOnly_changes_nothing (file fileIdx volIdx : Nat) (f : FileInfo) (buffer : Bytes) (s : Mgr)
    (h1 : getFileById file s = (.ok fileIdx, s)) (h2 : getFile fileIdx s = (.ok f, s))
    (h3 : getVolumeById f.rawVolume s = (.ok volIdx, s)) (hmode : f.mode = .ReadOnly) :
    write file buffer s = (.err .ReadOnly, s) :=
  Lemmas.DirMgr.write_readOnly_refused file fileIdx volIdx f buffer s h1 h2 h3 hmode

/-- Any `write` — successful, failing, panicking — leaves every open file's handle, volume, mode,
name, creation time and slot position alone, never clears a dirty flag, and does not move the clock:
the creation time never changes after creation. -/
theorem write_keeps_identity (file : Nat) (buffer : Bytes) : KeepsFiles (write file buffer) :=
  Lemmas.DirMgr.write_keeps file buffer

/-! ### Create -/

/-- A successful `write_new_directory_entry` on one cluster / the fixed root: the entry has the
given name, attributes and first cluster, size 0, `ctime = mtime = now`; it sits in the first block
of the run that has a non-live slot, at the first such slot (`firstFreeSlot`), and that slot of the
new medium holds its serialisation. -/
theorem create_entry_fields (name : Bytes) (att fc : Nat) (now : Timestamp) (n blockIdx : Nat) (s s' : FS)
    (e : DirEntry) (hn : NoFault s) (hc : Coherent s) (hb : BlocksOK s.dev.disk) (hname : name.length = 11)
    (h : writeNewBlocks name att fc now n blockIdx s = (.ok (some e), s')) :
    e.name = name ∧ e.attributes = att ∧ e.cluster = fc ∧ e.size = 0 ∧ e.ctime = now ∧ e.mtime = now ∧
    blockIdx ≤ e.entryBlock ∧ e.entryBlock < blockIdx + n ∧
    firstFreeSlot (slotsOf (s.dev.disk.get e.entryBlock)) = some e.entryOffset ∧
    (∀ b', blockIdx ≤ b' → b' < e.entryBlock → firstFreeSlot (slotsOf (s.dev.disk.get b')) = none) ∧
    slice (s'.dev.disk.get e.entryBlock) e.entryOffset 32 = e.serialize s.vol.fatType :=
  Lemmas.DirSlots.create_entry_fields name att fc now n blockIdx s s' e hn hc hb hname h

/-- What "first free slot" means in the specification's terms (C06): the block's slot list splits
as `pre ++ slot :: post` with `slot` at that offset, free (`0x00` or `0xE5`), and every slot of
`pre` live. -/
theorem created_slot_is_first_free (b : Nat) (blk : Block) (off : Nat) :
    firstFreeSlot (slotsOf blk) = some off ↔
      ∃ pre s post, blockSlots b blk = pre ++ s :: post ∧ s.2.1 = off ∧
        (firstByte s.2.2 = 0 ∨ firstByte s.2.2 = 0xE5) ∧
        ∀ p ∈ pre, firstByte p.2.2 ≠ 0 ∧ firstByte p.2.2 ≠ 0xE5 :=
  Lemmas.Listing.first_free_slot_spec b blk off

/-- The whole `write_new_directory_entry` (cluster walk, directory growth included), any state:
the entry it returns is a fresh entry with the given fields at a slot-aligned offset. -/
theorem create_entry_fields_walk (dirCluster : Nat) (name : Bytes) (att fc : Nat) (now : Timestamp)
    (s s' : FS) (e : DirEntry) (h : writeNewDirectoryEntry dirCluster name att fc now s = (.ok e, s')) :
    IsNewEntry name att fc now e :=
  Lemmas.DirSlots.writeNewDirectoryEntry_entry dirCluster name att fc now s s' e h

/-! ### Frames: what "entry-for-entry unchanged" rests on -/

/-- `write_entry_to_disk e` (flush, truncate-on-open): every block other than `e.entryBlock` is
identical afterwards, and so is every byte of `e.entryBlock` outside the slot of `e`. -/
theorem untouched_slots_preserved_flush (s : FS) (e : DirEntry) (hn : NoFault s) (hc : Coherent s) (hb : BlocksOK s.dev.disk)
    (ho : e.entryOffset + 32 ≤ 512) (hname : e.name.length = 11) :
    ∃ s', writeEntryToDisk e s = (.ok (), s') ∧ NoFault s' ∧ Coherent s' ∧ s'.vol = s.vol ∧ BlocksOK s'.dev.disk ∧
      (∃ p, s'.dev.wlog = (e.entryBlock, p) :: s.dev.wlog ∧ s'.dev.disk = s.dev.disk.set e.entryBlock p) ∧
      (∀ b, b ≠ e.entryBlock → s'.dev.disk.get b = s.dev.disk.get b) ∧
      (∀ i, i < e.entryOffset ∨ e.entryOffset + 32 ≤ i →
        (s'.dev.disk.get e.entryBlock).getD i 0 = (s.dev.disk.get e.entryBlock).getD i 0) ∧
      slice (s'.dev.disk.get e.entryBlock) e.entryOffset 32 = e.serialize s.vol.fatType :=
  Lemmas.DirEntryIO.writeEntry_frame s e hn hc hb ho hname

/-- Creating an entry: the slot written is the one recorded in the returned entry, it was free
(first byte `0x00` or `0xE5`), every other block is identical, and any set of positions that avoids
that slot is byte-identical afterwards. -/
theorem untouched_slots_preserved_create (name : Bytes) (att fc : Nat) (now : Timestamp) (n blockIdx : Nat) (s s' : FS)
    (e : DirEntry) (hn : NoFault s) (hc : Coherent s) (hb : BlocksOK s.dev.disk) (hname : name.length = 11)
    (h : writeNewBlocks name att fc now n blockIdx s = (.ok (some e), s')) :
    e = DirEntry.new name att fc now e.entryBlock e.entryOffset ∧
    blockIdx ≤ e.entryBlock ∧ e.entryBlock < blockIdx + n ∧ e.entryOffset + 32 ≤ 512 ∧ e.entryOffset % 32 = 0 ∧
    (byteAt (s.dev.disk.get e.entryBlock) e.entryOffset = 0 ∨ byteAt (s.dev.disk.get e.entryBlock) e.entryOffset = 0xE5) ∧
    (∀ b, b ≠ e.entryBlock → s'.dev.disk.get b = s.dev.disk.get b) ∧
    slice (s'.dev.disk.get e.entryBlock) e.entryOffset 32 = e.serialize s.vol.fatType ∧
    BlocksOK s'.dev.disk ∧
    ∀ P : Nat → Nat → Prop, Avoids P (slotPos e.entryBlock e.entryOffset) → SameOn P s.dev.disk s'.dev.disk :=
  Lemmas.DirFrames.writeNewBlocks_sameOn name att fc now n blockIdx s s' e hn hc hb hname h

/-- Deleting an entry: exactly one byte of one block changes — the first byte of the first slot
matching the name; every other byte of the medium is identical afterwards. -/
theorem untouched_slots_preserved_delete (name : Bytes) (n blockIdx : Nat) (s s' : FS) (hn : NoFault s) (hc : Coherent s)
    (h : deleteBlocks name n blockIdx s = (.ok true, s')) :
    ∃ b off, blockIdx ≤ b ∧ b < blockIdx + n ∧ off + 32 ≤ 512 ∧ off % 32 = 0 ∧
      OnDisk.matches (slice (s.dev.disk.get b) off 32) name = true ∧ byteAt (s.dev.disk.get b) off ≠ 0 ∧
      s'.dev.disk = s.dev.disk.set b ((s.dev.disk.get b).set off (UInt8.ofNat 0xE5)) ∧
      (∀ b' i, (b' ≠ b ∨ i ≠ off) → (s'.dev.disk.get b').getD i 0 = (s.dev.disk.get b').getD i 0) ∧
      ∀ P : Nat → Nat → Prop, ¬ P b off → SameOn P s.dev.disk s'.dev.disk :=
  Lemmas.DirFrames.deleteBlocks_sameOn name n blockIdx s s' hn hc h

/-! ### Non-vacuity and the finding (tests, labelled as tests) -/

namespace Example

/-- A full two-cluster FAT16 volume: clusters 2 and 3 are both end-of-chain entries. -/
def vol : FatVolume :=
  { lbaStart := 0, numBlocks := 200, name := [], blocksPerCluster := 1, firstDataBlock := 10, fatStart := 1,
    secondFatStart := none, freeClustersCount := none, nextFreeCluster := none, clusterCount := 2,
    fatType := .fat16, rootEntriesCount := 16, firstRootDirBlock := 9, infoLocation := 0, firstRootDirCluster := 0 }
def fatBlk : Block := [0xF8, 0xFF, 0xFF, 0xFF, 0xFF, 0xFF, 0xFF, 0xFF] ++ zeros 504
def nameA : Bytes := [0x41, 0x20, 0x20, 0x20, 0x20, 0x20, 0x20, 0x20, 0x54, 0x58, 0x54]
def t0 : Timestamp := Timestamp.fromFat 0x4A8F 0xBF7D
def clk : Timestamp := Timestamp.fromFat 0x5B21 0x6000
/-- An open, empty file `A.TXT` whose single cluster is cluster 2; entry in slot 0 of block 9. -/
def entry : DirEntry :=
  { name := nameA, mtime := t0, ctime := t0, attributes := 0, cluster := 2, size := 0, entryBlock := 9, entryOffset := 0 }
def file0 : FileInfo :=
  { rawFile := 1, rawVolume := 0, curClusterOff := 0, curCluster := 2, currentOffset := 0, mode := .ReadWriteAppend,
    entry := entry, dirty := false }
def mgr : Mgr :=
  { dev := { disk := Disk.empty.set 1 fatBlk }, nextId := 5, vols := [{ rawVolume := 0, idx := 0, vol := vol }],
    files := [file0], maxVols := 1, maxDirs := 4, maxFiles := 4, clock := clk }
def st : FS := { dev := mgr.dev, cache := {}, vol := vol }

def ok? {α} : Res α → Option α | .ok a => some a | _ => none
def err? {α} : Res α → Option Err | .err e => some e | _ => none

example : NoFault st := rfl
example : Coherent st := by intro i h; cases h
example : FatTime t0 ∧ FatTime clk :=
  ⟨⟨0x4A8F, 0xBF7D, by decide, by decide, by decide, by decide, rfl⟩,
   ⟨0x5B21, 0x6000, by decide, by decide, by decide, by decide, rfl⟩⟩

/-- Flushing the entry and decoding the slot from the new medium gives the entry back. -/
example : OnDisk.getEntry .fat16 (slice ((flushF entry st).2.dev.disk.get 9) 0 32) 9 0 = entry := by decide +kernel

/-- A successful three-byte write: dirty, `mtime = clock`, archive bit set, `ctime` unchanged. -/
example : ((write 1 [1, 2, 3] mgr).2.files.map fun f =>
    (f.entry.size, f.dirty, decide (f.entry.mtime = clk), f.entry.attributes, decide (f.entry.ctime = t0))) =
    [(3, true, true, 0x20, true)] := by decide +kernel

/-- The repaired defect.  A 600-byte write on the full volume: the first 512 bytes go out
(block 10), then the chain cannot be extended and the call returns `DiskFull`.  The file is now 512
bytes long and dirty — and it carries the NEW modification time and the archive bit … -/
theorem failed_write_carries_new_mtime :
    err? (write 1 (List.replicate 600 7) mgr).1 = some .DiskFull ∧
    (write 1 (List.replicate 600 7) mgr).2.dev.wlog.map (·.1) = [10] ∧
    ((write 1 (List.replicate 600 7) mgr).2.files.map fun f =>
      (f.entry.size, f.dirty, decide (f.entry.mtime = clk), decide (f.entry.ctime = t0), f.entry.attributes)) =
      [(512, true, true, true, 0x20)] := by decide +kernel

/-- … and the following flush stores the new length (512) with the new modification time. -/
theorem failed_write_mtime_reaches_the_medium :
    let s1 := (write 1 (List.replicate 600 7) mgr).2
    let e := OnDisk.getEntry .fat16 (slice ((flushFile 1 s1).2.dev.disk.get 9) 0 32) 9 0
    ok? (flushFile 1 s1).1 = some () ∧ e.size = 512 ∧ e.mtime = clk ∧ e.ctime = t0 ∧ e.attributes = 0x20 := by
  decide +kernel

end Example

end Sdmmc.Props.C02
