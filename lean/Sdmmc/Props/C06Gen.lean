/-
C06 (and C17 / C18), tie to the source text: the machine translations of `OnDiskDirEntry::{is_end,
is_valid, is_lfn, matches, lfn_contents}` (fat/ondiskdirentry.rs) and `Attributes::is_lfn`
(filesystem/attributes.rs) in `Sdmmc.Gen.FunsEnt` are equal to the model's `OnDisk.*`
(`Model/DirEntry.lean`), for every byte list.
-/
import Sdmmc.Gen.FunsEnt
import Sdmmc.Model.DirEntry
import Sdmmc.Lemmas.GenBits

namespace Sdmmc.Props.C06Gen

open Sdmmc Sdmmc.Model Sdmmc.Lemmas.GenBits
open Sdmmc.Gen (FunsEnt.OnDiskDirEntry_is_end FunsEnt.OnDiskDirEntry_is_valid FunsEnt.OnDiskDirEntry_is_lfn
  FunsEnt.OnDiskDirEntry_matches FunsEnt.OnDiskDirEntry_lfn_contents)

theorem rdByte_eq (d : Bytes) (i : Nat) : Gen.Funs.rdByte d i = byteAt d i := rfl

theorem byteAt_lt (d : Bytes) (i : Nat) : byteAt d i < 256 := UInt8.toNat_lt _

theorem is_end_eq (d : Bytes) : Gen.FunsEnt.OnDiskDirEntry_is_end d = OnDisk.isEnd d := rfl

theorem is_valid_eq (d : Bytes) : Gen.FunsEnt.OnDiskDirEntry_is_valid d = OnDisk.isValid d := by
  unfold Gen.FunsEnt.OnDiskDirEntry_is_valid OnDisk.isValid
  rw [is_end_eq, rdByte_eq]
  cases OnDisk.isEnd d <;> simp

theorem raw_attr_eq (d : Bytes) : Gen.FunsEnt.OnDiskDirEntry_raw_attr d = OnDisk.rawAttr d := rfl

theorem attr_is_lfn_eq (a : Nat) : Gen.FunsEnt.Attributes_is_lfn a = Attr.isLfn a := by
  unfold Gen.FunsEnt.Attributes_is_lfn Attr.isLfn
  rw [and_15]
  rfl

theorem is_lfn_eq (d : Bytes) : Gen.FunsEnt.OnDiskDirEntry_is_lfn d = OnDisk.isLfn d := by
  unfold Gen.FunsEnt.OnDiskDirEntry_is_lfn OnDisk.isLfn Gen.FunsEnt.Attributes_create_from_fat
  simp only [attr_is_lfn_eq, raw_attr_eq]

/-- `matches(sfn)`: not a long-name fragment, and the first eleven bytes are the name. -/
theorem matches_eq (d : Bytes) (sfn : Gen.FunsEnt.ShortFileName) :
    Gen.FunsEnt.OnDiskDirEntry_matches d sfn = OnDisk.matches d sfn.contents := by
  unfold Gen.FunsEnt.OnDiskDirEntry_matches OnDisk.matches
  rw [is_lfn_eq]
  cases OnDisk.isLfn d <;> simp

theorem bit6 (x : Nat) : (x &&& 64 ≠ 0) ↔ x / 64 % 2 = 1 := by
  have h := and_bit x 6
  have e : (2 : Nat) ^ 6 = 64 := rfl
  rw [e] at h
  rw [h]
  omega

/-- `lfn_contents`: the start flag, the sequence number, the checksum and the thirteen code units. -/
theorem lfn_contents_eq (d : Bytes) : Gen.FunsEnt.OnDiskDirEntry_lfn_contents d = OnDisk.lfnContents d := by
  unfold Gen.FunsEnt.OnDiskDirEntry_lfn_contents OnDisk.lfnContents
  rw [is_lfn_eq]
  cases OnDisk.isLfn d
  · rfl
  · simp only [if_true, rdByte_eq, and_31, readU16]
    congr 2
    exact decide_eq_decide.mpr (bit6 _)

end Sdmmc.Props.C06Gen
