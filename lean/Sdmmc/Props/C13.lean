/-
C13 — The SD card driver detects every detectable transfer error, never hangs, and recovers.

Property theorems only; helper lemmas live in `Sdmmc.Lemmas.Sd*`.
Model: `Sdmmc.Model.Sd` (mirrors `SdCardInner` in /repo/src/sdcard/mod.rs, retry budgets
regenerated from the source), generic in the SPI bus: every theorem below holds for every bus
state type `σ`, every bus `B : BusOps σ` (whatever the card answers: nothing, busy forever,
garbage, an SPI error at any transaction) and every driver state.

"Never hangs": every function of the model is structurally recursive on the retry budget that
exists in the Rust code (Lean accepts no other recursion here), so every call terminates; the
`traffic_bound_*` theorems below make the bound explicit in bytes on the bus and `delay_us` calls.

How "an SPI error happened during the call" is expressed: the model logs what it puts on the
bus (`events`), but an SPI failure of a multi-byte transaction leaves no trace there.  So the
SPI theorems are stated on `recBus B`, the bus `B` wrapped in a recorder: it behaves exactly as
`B` on the `σ` component (`recBus_xfer`, `recBus_delay`) and additionally keeps the transcript
of all transactions, requests and answers.  `spiFailures` counts the failed ones.  Since `B` is
arbitrary, `recBus B` ranges over all bus behaviours.
-/
import Sdmmc.Lemmas.SdTraffic
import Sdmmc.Lemmas.SdCalls
import Sdmmc.Lemmas.SdCrc

namespace Sdmmc.Props.C13
open Sdmmc.Model Sdmmc.Model.Sd Sdmmc.Gen Sdmmc.Spec

variable {σ : Type} (B : BusOps σ)

/-! ## Bounded traffic -/

/-- Number of bytes the driver has put on the bus so far. -/
def traffic (s : St σ) : Nat := (s.events.map fun e => e.bytes.length).sum

/-- `m` puts at most `b` bytes on the bus and calls `delay_us` at most `d` times, from every
state, whatever the bus answers. -/
def Bounded {α : Type} (m : S σ α) (b d : Nat) : Prop :=
  ∀ s, traffic (m s).2 ≤ traffic s + b ∧ (m s).2.delays ≤ s.delays + d

/-- bytes of one `card_command`: busy wait, frame, stuff byte (CMD12), response wait -/
def cmdB : Nat := (DEFAULT_COMMAND_RETRIES + 1) + 6 + 1 + (DEFAULT_COMMAND_RETRIES + 1)
/-- `delay_us` calls of one `card_command` -/
def cmdD : Nat := DEFAULT_COMMAND_RETRIES + DEFAULT_COMMAND_RETRIES
/-- bytes of one `read_data` of `len` bytes: token wait, payload, CRC -/
def rdB (len : Nat) : Nat := (DEFAULT_READ_RETRIES + 1) + len + 2
/-- bytes of one `write_data` of `len` bytes: token, payload, CRC, data response -/
def wrB (len : Nat) : Nat := 1 + len + 2 + 1
/-- bytes of `acquire` with `r` acquire retries: the CMD0 loop (with its 255 flush bytes per
round), CMD59, the CMD8 loop, the ACMD41 loop, CMD58 with its four bytes, the trailing byte -/
def acqB (r : Nat) : Nat :=
  (r + 1) * (cmdB + 255) + cmdB + (DEFAULT_COMMAND_RETRIES + 1) * (cmdB + 4)
    + (DEFAULT_COMMAND_RETRIES + 1) * (cmdB + cmdB) + (cmdB + 4) + 1
def acqD (r : Nat) : Nat :=
  (r + 1) * (cmdD + 1) + cmdD + (DEFAULT_COMMAND_RETRIES + 1) * (cmdD + 1)
    + (DEFAULT_COMMAND_RETRIES + 1) * (cmdD + cmdD + 1) + cmdD
def readB (n : Nat) : Nat := cmdB + n * rdB 512 + cmdB
def readD (n : Nat) : Nat := cmdD + n * DEFAULT_READ_RETRIES + cmdD
/-- total payload of the blocks handed to `write` (`512 * blocks.length` for real blocks) -/
def payload (blocks : List Bytes) : Nat := (blocks.map List.length).sum
/-- bytes of `write`: three commands (CMD55, ACMD23, CMD25 — the single-block path needs two), the
busy waits after ACMD23, before the stop token and after it, the stop token, the byte clocked and
discarded after it (N_BR), and per block a busy
wait, token, CRC, data response and the payload -/
def writeB (blocks : List Bytes) : Nat :=
  cmdB + cmdB + cmdB + (DEFAULT_WRITE_RETRIES + 1) + (DEFAULT_WRITE_RETRIES + 1) + 1 + 1 + (DEFAULT_WRITE_RETRIES + 1)
    + blocks.length * ((DEFAULT_WRITE_RETRIES + 1) + 4) + payload blocks
def writeD (blocks : List Bytes) : Nat :=
  cmdD + cmdD + cmdD + DEFAULT_WRITE_RETRIES + DEFAULT_WRITE_RETRIES + DEFAULT_WRITE_RETRIES
    + blocks.length * DEFAULT_WRITE_RETRIES
def csdB : Nat := cmdB + rdB 16
def csdD : Nat := cmdD + DEFAULT_READ_RETRIES

/-- bytes of the operation part of a call (after `check_init`) -/
def opB : Call → Nat
  | .read n _ => readB n
  | .write blocks _ => writeB blocks
  | .numBlocks => csdB
  | .numBytes => csdB
  | .cardType => 0
  | .markUninit => 0

def opD : Call → Nat
  | .read n _ => readD n
  | .write blocks _ => writeD blocks
  | .numBlocks => csdD
  | .numBytes => csdD
  | .cardType => 0
  | .markUninit => 0

/-- The bound on SPI traffic of one public call: a fixed function of the call's block count
(and payload), the configured `acquire_retries` and the retry budgets of the source. -/
def callBound (c : Call) (acquireRetries : Nat) : Nat := acqB acquireRetries + opB c
/-- The bound on `delay_us(10)` calls of one public call. -/
def callDelayBound (c : Call) (acquireRetries : Nat) : Nat := acqD acquireRetries + opD c

/-- Each polling loop exchanges at most budget + 1 bytes and sleeps at most budget times. -/
theorem traffic_bound_waitNotBusy (n : Nat) : Bounded (waitNotBusy B n) (n + 1) n :=
  Lemmas.Sd.waitNotBusy_bounded B n
theorem traffic_bound_waitResponse (c n : Nat) : Bounded (waitResponse B c n) (n + 1) n :=
  Lemmas.Sd.waitResponse_bounded B c n
theorem traffic_bound_waitToken (n : Nat) : Bounded (waitToken B n) (n + 1) n :=
  Lemmas.Sd.waitToken_bounded B n

theorem traffic_bound_cardCommand (c arg : Nat) : Bounded (cardCommand B c arg) cmdB cmdD :=
  Lemmas.Sd.cardCommand_bounded B c arg
theorem traffic_bound_readData (len : Nat) : Bounded (readData B len) (rdB len) DEFAULT_READ_RETRIES :=
  Lemmas.Sd.readData_bounded B len
theorem traffic_bound_writeData (tok : Nat) (buf : Bytes) : Bounded (writeData B tok buf) (wrB buf.length) 0 :=
  Lemmas.Sd.writeData_bounded B tok buf
/-- Without an SPI error `write_data` puts exactly token + payload + 2 CRC bytes + 1 response
byte on the bus. -/
theorem traffic_exact_writeData (tok : Nat) (buf : Bytes) (s : St σ)
    (h : (writeData B tok buf s).1 ≠ .err .Transport) :
    traffic (writeData B tok buf s).2 = traffic s + (1 + buf.length + 2 + 1) :=
  Lemmas.Sd.writeData_traffic_exact B tok buf s h
theorem traffic_bound_read (n idx : Nat) : Bounded (Sd.read B n idx) (readB n) (readD n) :=
  Lemmas.Sd.read_bounded B n idx
theorem traffic_bound_write (blocks : List Bytes) (idx : Nat) :
    Bounded (write B blocks idx) (writeB blocks) (writeD blocks) :=
  Lemmas.Sd.write_bounded B blocks idx
theorem traffic_bound_readCsd : Bounded (readCsd B) csdB csdD := Lemmas.Sd.readCsd_bounded B
/-- `acquire`, in terms of the configured `acquire_retries` of the state it starts in. -/
theorem traffic_bound_acquire (s : St σ) :
    traffic (acquire B s).2 ≤ traffic s + acqB s.acquireRetries ∧
    (acquire B s).2.delays ≤ s.delays + acqD s.acquireRetries :=
  Lemmas.Sd.acquire_boundedAt B s

/-- Whatever the card does — answers nothing, stays busy forever, dies at any byte, the bus
fails at any transaction — every driver call returns after at most `callBound` bytes of SPI
traffic and `callDelayBound` calls of `delay_us(10)`. -/
theorem call_traffic_bound (c : Call) (s : St σ) :
    traffic (call B c s).2 ≤ traffic s + callBound c s.acquireRetries ∧
    (call B c s).2.delays ≤ s.delays + callDelayBound c s.acquireRetries :=
  Lemmas.Sd.call_boundedAt B c s

/-- The events added between two states, oldest first. -/
def evsNew (s s' : St σ) : List Event := (s'.events.take (s'.events.length - s.events.length)).reverse

/-- The log only grows (so the differences above are meaningful), and the options are never touched. -/
theorem call_log_extends (c : Call) (s : St σ) :
    (call B c s).2.events = (evsNew s (call B c s).2).reverse ++ s.events ∧
    (call B c s).2.useCrc = s.useCrc ∧ (call B c s).2.acquireRetries = s.acquireRetries :=
  Lemmas.Sd.call_events_extend B c s

/-- For real 512-byte blocks the payload is `512 * count`, so `callBound` is a function of the
block count. -/
theorem payload_of_blocks (blocks : List Bytes) (h : ∀ b ∈ blocks, b.length = 512) :
    payload blocks = 512 * blocks.length := by
  induction blocks with
  | nil => rfl
  | cons b rest ih =>
    have hb := h b (by simp)
    have := ih fun x hx => h x (by simp [hx])
    simp only [payload, List.map_cons, List.sum_cons, List.length_cons] at this ⊢
    omega

/-! ## CRC -/

/-- Everything that went over the bus: request, and answer (`none` = SPI error), newest first. -/
abbrev Transcript := List (Bytes × Option Bytes)

/-- The bus `B` with a recorder attached. -/
def recBus (B : BusOps σ) : BusOps (σ × Transcript) where
  xfer := fun st out =>
    let (b', r) := B.xfer st.1 out
    ((b', (out, r) :: st.2), r)
  delay := fun st => (B.delay st.1, st.2)

/-- The recorder does not change the behaviour of the bus. -/
theorem recBus_xfer (st : σ × Transcript) (out : Bytes) :
    ((recBus B).xfer st out).1.1 = (B.xfer st.1 out).1 ∧ ((recBus B).xfer st out).2 = (B.xfer st.1 out).2 ∧
    ((recBus B).xfer st out).1.2 = (out, (B.xfer st.1 out).2) :: st.2 := ⟨rfl, rfl, rfl⟩
theorem recBus_delay (st : σ × Transcript) : (recBus B).delay st = (B.delay st.1, st.2) := rfl

/-- A byte as the bit vector the CRC functions work on. -/
def toBV (b : UInt8) : BitVec 8 := BitVec.ofNat 8 b.toNat

/-- With CRC enabled a read returns success only if the received CRC matches the received data:
`read_data` returns `ok buf` only if the last two transactions on the bus were the payload
transaction, answered with exactly `buf`, and the two-byte CRC transaction, answered with bytes
that — when CRC checking is on — are the big-endian `crc16` of `buf`. -/
theorem read_ok_implies_crc (len : Nat) (s s' : St (σ × Transcript)) (buf : Bytes)
    (h : readData (recBus B) len s = (.ok buf, s')) :
    ∃ crcBytes t, s'.bus.2 = (List.replicate 2 0xFF, some crcBytes) :: (List.replicate len 0xFF, some buf) :: t ∧
      (s.useCrc = true → (crcBytes.getD 0 0).toNat * 256 + (crcBytes.getD 1 0).toNat = crc16Nat buf) :=
  Lemmas.Sd.read_ok_implies_crc B len s s' buf h

/-- Any corruption the CRC-16 can detect yields an error: if the 514 bytes the bus delivered
for a block (512 for the payload transaction, 2 for the CRC transaction) are a consistent frame
— some payload `m` followed by its CRC-16 — damaged by a burst of at most 16 bits (single-bit
errors included; C19 proves this is what the polynomial detects), then `read_data` with CRC on
does not return success. -/
theorem corruption_detected (s s' : St (σ × Transcript)) (hcrc : s.useCrc = true)
    (m : List (BitVec 8)) (hm : m.length = 512) (off : Nat) (bits : List Bool) (hne : bits ≠ [])
    (hlen : bits.length ≤ 16) (hfirst : bits.head? = some true) (hfit : off + bits.length ≤ 4112)
    (buf crcBytes : Bytes) (hc : crcBytes.length = 2)
    (hrx : (buf ++ crcBytes).map toBV =
      xorMsg (m ++ [(crc16 m).extractLsb' 8 8, (crc16 m).extractLsb' 0 8]) (errPattern 514 off bits))
    (t : Transcript)
    (htr : s'.bus.2 = (List.replicate 2 0xFF, some crcBytes) :: (List.replicate 512 0xFF, some buf) :: t)
    (r : SRes Bytes) (h : readData (recBus B) 512 s = (r, s')) : ∀ b, r ≠ .ok b :=
  Lemmas.Sd.corruption_detected B s s' hcrc m hm off bits hne hlen hfirst hfit buf crcBytes hc hrx t htr r h

/-! ## Errors the card reports -/

/-- A data block the card does not acknowledge as accepted is an error, in either CRC mode: if
the last thing `write_data` did was to read the data-response byte `st` (the log shows 256 if
that read failed on the bus) and `st & 0x1F ≠ 0b00101`, it returns `WriteError` (`Transport`
for 256). -/
theorem unacknowledged_write_is_error (tok : Nat) (buf : Bytes) (s : St σ) (st : Nat)
    (h : (writeData B tok buf s).2.events.head? = some (.poll st)) (hst : st % 32 ≠ 5) :
    (writeData B tok buf s).1 = .err (if st = 256 then .Transport else .WriteError) :=
  Lemmas.Sd.unacknowledged_write_is_error B tok buf s st h hst

/-- Conversely `write_data` succeeds only after reading a data response that says "accepted". -/
theorem write_ok_acknowledged (tok : Nat) (buf : Bytes) (s : St σ) (h : (writeData B tok buf s).1 = .ok ()) :
    ∃ st, (writeData B tok buf s).2.events.head? = some (.poll st) ∧ st % 32 = 5 :=
  Lemmas.Sd.write_ok_acknowledged B tok buf s h

/-- A single-block write up to (not including) the status query: CMD24, the data block, the busy wait. -/
def writeSingleData (B : BusOps σ) (b : Bytes) (start : Nat) : S σ Unit := do
  let _ ← cardCommand B CMD24 start
  writeData B DATA_START_BLOCK b
  waitNotBusy B DEFAULT_WRITE_RETRIES

/-- The status query that ends a single-block write: CMD13, whose R2 answer is the R1 byte
returned by `card_command` plus one more byte. -/
def writeStatusCheck (B : BusOps σ) : S σ Unit := do
  let r ← cardCommand B CMD13 0
  if r ≠ 0 then S.fail .WriteError else
  let r2 ← readByte B
  if r2 ≠ 0 then S.fail .WriteError else pure ()

/-- `write` of one block is exactly: address, data phase, status check. -/
theorem write_single_eq (b : Bytes) (idx : Nat) : write B [b] idx = (do
    let s ← S.get
    let start ← S.lift (startIdx s.cardType idx)
    writeSingleData B b start
    writeStatusCheck B) :=
  Lemmas.Sd.write_single_eq B b idx

/-- A single-block write the card's status reports as failed is an error, in either CRC mode:
if CMD13's R1 byte is not zero, or the byte after it is not zero, `write` returns `WriteError`. -/
theorem failed_status_is_error (b : Bytes) (idx start : Nat) (s s1 : St σ)
    (hstart : startIdx s.cardType idx = .ok start) (hpre : writeSingleData B b start s = (.ok (), s1))
    (r : Nat) (s2 : St σ) (h13 : cardCommand B CMD13 0 s1 = (.ok r, s2)) :
    (r ≠ 0 → write B [b] idx s = (.err .WriteError, s2)) ∧
    (r = 0 → ∀ r2 s3, readByte B s2 = (.ok r2, s3) → r2 ≠ 0 → write B [b] idx s = (.err .WriteError, s3)) :=
  Lemmas.Sd.failed_status_is_error B b idx start s s1 hstart hpre r s2 h13

/-- `k` polls that all returned 0xFF. -/
def ffPolls (k : Nat) : List Event := List.replicate k (Event.poll 255)

/-- An unexpected token is an error, in either CRC mode: if the last byte `read_data` fetched
is neither 0xFF (still waiting), nor the start token 0xFE, nor an SPI failure (logged as 256),
then everything it fetched before was 0xFF — it is the first token — and the result is `ReadError`. -/
theorem unexpected_token_is_error (len : Nat) (s : St σ) (g : Nat)
    (h : (readData B len s).2.events.head? = some (.poll g)) (hg : g < 255) (hne : g ≠ 254) :
    (readData B len s).1 = .err .ReadError ∧ ∃ k, evsNew s (readData B len s).2 = ffPolls k ++ [.poll g] :=
  Lemmas.Sd.unexpected_token_is_error B len s g h hg hne

/-! ## SPI errors -/

/-- Number of failed transactions in a transcript. -/
def spiFailures (t : Transcript) : Nat := (t.filter fun x => x.2.isNone).length

/-- If any transaction fails while `m` runs, `m` returns `Transport`. -/
def SpiStrict {α : Type} (m : S (σ × Transcript) α) : Prop :=
  ∀ s, spiFailures s.bus.2 ≤ spiFailures (m s).2.bus.2 ∧
    (spiFailures s.bus.2 < spiFailures (m s).2.bus.2 → (m s).1 = .err .Transport)

/-- An SPI bus error yields an error: if any transaction fails during a public call (other than
`get_card_type`, see below) the call returns an error, in either CRC mode. -/
theorem spi_error_is_error (c : Call) (hc : c ≠ .cardType) (s : St (σ × Transcript))
    (h : spiFailures s.bus.2 < spiFailures (call (recBus B) c s).2.bus.2) :
    ∃ e, (call (recBus B) c s).1 = .err e :=
  (Lemmas.Sd.call_spiWeak B c hc s).2 h

/-- Every function below the public calls reports an SPI error as `Transport`. -/
theorem spi_error_is_transport_cardCommand (c arg : Nat) : SpiStrict (cardCommand (recBus B) c arg) :=
  Lemmas.Sd.cardCommand_spi B c arg
theorem spi_error_is_transport_cardAcmd (c arg : Nat) : SpiStrict (cardAcmd (recBus B) c arg) :=
  Lemmas.Sd.cardAcmd_spi B c arg
theorem spi_error_is_transport_readData (len : Nat) : SpiStrict (readData (recBus B) len) :=
  Lemmas.Sd.readData_spi B len
theorem spi_error_is_transport_writeData (tok : Nat) (buf : Bytes) : SpiStrict (writeData (recBus B) tok buf) :=
  Lemmas.Sd.writeData_spi B tok buf
theorem spi_error_is_transport_acquireBody : SpiStrict (acquireBody (recBus B)) :=
  Lemmas.Sd.acquireBody_spi B
theorem spi_error_is_transport_read1 (idx : Nat) : SpiStrict (Sd.read (recBus B) 1 idx) :=
  Lemmas.Sd.read1_spi B idx
/-- (single-block write; for a multiple-block write see `spi_error_is_error` — its block loop's own
error wins over an SPI error in the stop sequence that is always attempted) -/
theorem spi_error_is_transport_write1 (b : Bytes) (idx : Nat) : SpiStrict (write (recBus B) [b] idx) :=
  Lemmas.Sd.write1_spi B b idx
/-- Any `write` reports an SPI error as an error. -/
theorem spi_error_is_error_write (blocks : List Bytes) (idx : Nat) (s : St (σ × Transcript))
    (h : spiFailures s.bus.2 < spiFailures (write (recBus B) blocks idx s).2.bus.2) :
    ∃ e, (write (recBus B) blocks idx s).1 = .err e :=
  (Lemmas.Sd.write_spiWeak B blocks idx s).2 h
theorem spi_error_is_transport_readCsd : SpiStrict (readCsd (recBus B)) := Lemmas.Sd.readCsd_spi B

/-- `acquire`: `Transport`, unless the closure of `acquire` had already failed with its own
error and only the extra trailing byte hit the SPI error ("a failure of the card beats a failure
of this extra byte" in the source); then that earlier error is returned. -/
theorem spi_error_in_acquire (s : St (σ × Transcript))
    (h : spiFailures s.bus.2 < spiFailures (acquire (recBus B) s).2.bus.2) :
    (acquire (recBus B) s).1 = .err .Transport ∨
    ∃ e, (acquireBody (recBus B) s).1 = .err e ∧ (acquire (recBus B) s).1 = .err e :=
  Lemmas.Sd.acquire_spi_exact B s h

def isMultiRead : Call → Bool
  | .read n _ => n != 1
  | _ => false

def isMultiWrite : Call → Bool
  | .write blocks _ => blocks.length != 1
  | _ => false

/-- `_partial`: the exact error code of a *call*.  On an initialised card every call except
`get_card_type` and multi-block reads and writes reports an SPI error as `Transport`.  Not
covered, because false: (1) a call on an uninitialised card whose `acquire` closure failed on its
own and whose trailing byte then hit an SPI error returns the closure's error
(`spi_error_in_acquire`); (2) a multi-block read whose block loop failed (say with `CrcError`) and
whose CMD12 then hit an SPI error returns the loop's error; (3) likewise a multi-block write whose
block loop failed (say with `WriteError`) and whose stop sequence — attempted either way, so that
the card is not left waiting for data blocks — then hit an SPI error returns the loop's error.
All still return an error (`spi_error_is_error`). -/
theorem spi_error_is_transport_partial (c : Call) (s : St (σ × Transcript)) (hi : s.cardType.isSome)
    (hc : c ≠ .cardType) (hm : isMultiRead c = false) (hw : isMultiWrite c = false)
    (h : spiFailures s.bus.2 < spiFailures (call (recBus B) c s).2.bus.2) :
    (call (recBus B) c s).1 = .err .Transport :=
  Lemmas.Sd.call_spi_transport_partial B c s hi hc hm hw h

/-- `get_card_type` has no error channel (`check_init().ok()?`): it always answers — with the
card type when `check_init` succeeded, with "none" when it failed for whatever reason. -/
theorem cardType_call_total (s : St σ) :
    ((checkInit B s).1 = .ok () →
      (call B .cardType s).1 = .ok (.ctype (checkInit B s).2.cardType) ∧ (checkInit B s).2.cardType.isSome) ∧
    (∀ e, (checkInit B s).1 = .err e → (call B .cardType s).1 = .ok (.ctype none)) ∧
    ∃ o, (call B .cardType s).1 = .ok (.ctype o) :=
  Lemmas.Sd.call_cardType_total B s

/-! ## Initialisation state -/

/-- A failed initialisation leaves the card marked uninitialised. -/
theorem failed_init_leaves_uninit (s s' : St σ) (e : SdErr) (h : acquire B s = (.err e, s')) :
    s'.cardType = none :=
  Lemmas.Sd.failed_init_leaves_uninit B s s' e h

/-- A successful one marks it initialised. -/
theorem ok_init_marks_init (s s' : St σ) (h : acquire B s = (.ok (), s')) : s'.cardType.isSome :=
  Lemmas.Sd.acquire_ok_sets B s s' h

/-- `check_init` runs `acquire` exactly when the card is marked uninitialised. -/
theorem checkInit_runs_acquire_iff (s : St σ) :
    checkInit B s = if s.cardType.isNone then acquire B s else (.ok (), s) :=
  Lemmas.Sd.checkInit_apply B s

/-- `mark_card_uninit` sets `card_type` to `None` and touches nothing else (no bus traffic). -/
theorem mark_uninit_resets (s : St σ) :
    call B .markUninit s = (.ok .unit, { s with cardType := none }) :=
  Lemmas.Sd.mark_uninit_resets B s

/-- Once marked uninitialised the card is initialised again by the next call: the call starts
with a complete `acquire` (which reads nothing of the driver state but the bus and the two
options), and carries on with the operation exactly if that succeeds. -/
theorem reinit_after_mark_uninit (s : St σ) :
    let s0 := (call B .markUninit s).2
    s0.cardType = none ∧ s0.bus = s.bus ∧ checkInit B s0 = acquire B s0 ∧
    ((acquire B s0).1 = .ok () → (acquire B s0).2.cardType.isSome) :=
  ⟨rfl, rfl, Lemmas.Sd.checkInit_of_none B _ rfl, (Lemmas.Sd.acquire_cardType B _).1⟩

/-! ## Non-vacuity (tests) -/

/-- A bus that replays recorded answers (`none` = SPI error), then answers 0xFF forever. -/
def replayBus : BusOps (List (Option Bytes)) where
  xfer := fun st out =>
    match st with
    | [] => ([], some (List.replicate out.length 0xFF))
    | r :: rest => (rest, r.map fun bs => bs ++ List.replicate (out.length - bs.length) 0xFF)
  delay := fun st => st

/-- The card accepts a block (data response 0xE5). -/
example : (writeData replayBus 0xFE [1, 2, 3] { bus := [some [], some [], some [], some [0xE5]] }).1 = .ok () :=
  rfl
/-- The card rejects a block with a CRC error response (0x0B): hypotheses of
`unacknowledged_write_is_error` hold, and so does its conclusion. -/
example :
    let r := writeData replayBus 0xFE [1, 2, 3] { bus := [some [], some [], some [], some [0x0B]] }
    r.2.events.head? = some (.poll 0x0B) ∧ 0x0B % 32 ≠ 5 ∧ r.1 = .err .WriteError := ⟨rfl, by decide, rfl⟩
/-- An SPI error is possible and counted. -/
example : spiFailures ((recBus replayBus).xfer ([none], []) [0xFF]).1.2 = 1 := by decide
/-- A card that answers nothing at all: the call fails, within the bound (a test of the definitions;
the bound itself is the theorem). -/
example : callBound (.read 1 0) 50 = 601494051 ∧ callDelayBound (.read 1 0) 50 = 601190053 := by decide

/-- Answers of a version-1 card during initialisation with CRC off (CMD0 → idle, CMD8 → illegal
command, CMD55 → idle, ACMD41 → ready, trailing byte). -/
def sd1Answers : List (Option Bytes) :=
  [some [], some [1], some [0xFF], some [], some [5], some [0xFF], some [], some [1],
   some [0xFF], some [], some [0], some [0xFF]]

/-- Recovery, end to end on a concrete bus: the first call hits an SPI error in the very first
transaction, fails with `Transport` and leaves the card uninitialised; after `mark_card_uninit`
the card answers, and the next call initialises it (as an SD1 card) and succeeds. -/
example :
    let s0 : St (List (Option Bytes)) :=
      { bus := none :: some [0xFF] :: sd1Answers, useCrc := false, acquireRetries := 2 }
    let r1 := call replayBus .numBlocks s0
    let r2 := call replayBus .markUninit r1.2
    let r3 := call replayBus .cardType r2.2
    ((match r1.1 with | .err .Transport => true | _ => false) &&
     r1.2.cardType.isNone &&
     (match r3.1 with | .ok (.ctype (some .SD1)) => true | _ => false) &&
     r3.2.cardType.isSome) = true := by
  decide +kernel

end Sdmmc.Props.C13
