/-
# C10, clause 5 at API level — no directory exposes uninitialised cluster contents as entries

(`Spec/VolumeInit.lean`: `InitCluster`, `dirClusters`, `DirClustersInit`, `DirtyOf`; proofs: `Lemmas/VolCrashD*.lean`.)

**`crash_dir_clusters_initialised`.**  `s` is any state of any API history (`VolInvCX s gh`, `Props/C10InvX.lean`), `op`
any covered call, `k` any number of its device writes carried out before the power fails, `dk` the crashed medium.
There are a tree `gh'` and lost chains `X'` of `dk` with `CrashInvX gh.vol dk gh' X'` (the crash-point statement of
`Props/C10InvX.lean`) such that for EVERY directory `h` of that tree and EVERY cluster `c` of its chain

* `c` was in use on the medium BEFORE the call (`isUsed gh.vol s.dev.disk c`), or
* `c` is an `InitCluster` of `dk`: every byte of its first block from offset 64 on is zero and all its other blocks are
  zero blocks — the cluster holds at most two directory slots, at its very beginning, and is blank otherwise.

So a cluster that was FREE before the call and is part of a directory at the crash point (`crash_fresh_dir_cluster`)
shows nothing of what it held while it was free: it is blank (a directory grew: `alloc_cluster(.., zero = true)` blanks
it before it is linked), or blank except for the one entry `write_new_directory_entry` put into its first slot, or —
the cluster of a new sub-directory — blank except for its `.` and `..` entries (`make_dir` marks the cluster, writes the
dot block, blanks the other blocks, and only then names the cluster in the parent).

**The free clusters are arbitrary.**  The hypothesis `VolInvCX s gh` says nothing about the contents of the clusters that
are not in use: `invariant_ignores_free_clusters` — `VolInvCX` survives ANY change of those contents (`DirtyOf`), the one
cached block excepted.  `crash_dir_clusters_initialised_dirty` states the theorem with the dirty medium `d'` universally
quantified.  (`Props/C10InitExample.lean` evaluates it on a medium whose free clusters are full of stale entries.)

**Histories** (`history_crash_dir_clusters_initialised`): the same at every crash point of every call of every covered
history; "before the call" is the medium the first `n` calls leave.

## Deviations (reported)

* The first disjunct is "`c` was in use before the call", not "`c` belonged to the chain of that very directory before the
  call".  The two differ only for clusters that were in use before — clusters whose contents the call did not take from a
  free cluster, which is what the clause is about; tracking the identity of directories across the call (a `delete` /
  `mkdir` changes the tree) is not needed for it.  With `CrashInvX` (chains of distinct roots are disjoint, lost clusters
  form chains of their own) a cluster in use before the call that is in a directory chain at the crash point was in a
  chain of the pre-call tree (`crash_dir_clusters_initialised_tree`: `c ∈ gh.G.flatten`).
* `InitCluster` allows TWO slots at the beginning of the cluster (the dot entries of a new directory) also for a cluster
  a directory grew by (which gets one entry): one predicate for both cases.  The FAT16 fixed root region is not a
  cluster chain, never grows, and has no clusters (`dirClusters … 0 = []` on FAT16).
-/
import Sdmmc.Lemmas.VolCrashDHist
import Sdmmc.Lemmas.VolCrashDDirty
import Sdmmc.Props.C10InvX

namespace Sdmmc.Props.C10Init
open Sdmmc.Model Sdmmc.Model.Fat Sdmmc.Spec.Volume
open Sdmmc.Spec hiding run step NoFault Coherent
open Sdmmc.Props.C03Inv (Covered CoveredAll CoveredAllRun)
open Sdmmc.Props.C04Hist (nameCovered_of_covered nameCovered_of_coveredAll)
open Sdmmc.Lemmas.VolCrashD (onDisk)

/-! ### The vocabulary, unfolded -/

theorem initCluster_def (v : FatVolume) (d : Disk) (c : Nat) :
    InitCluster v d c ↔
      (∀ i, 64 ≤ i → byteAt (d.get (clusterToBlock v c)) i = 0) ∧
      ∀ j, 0 < j → j < v.blocksPerCluster → d.get (clusterToBlock v c + j) = zeroBlock := Iff.rfl

theorem dirClustersInit_def (v : FatVolume) (P : Nat → Prop) (d : Disk) (gh : Ghost) :
    DirClustersInit v P d gh ↔ ∀ h, h ∈ dirIds gh.dirs → ∀ c, c ∈ dirClusters v gh.G h → P c ∨ InitCluster v d c := Iff.rfl

theorem dirtyOf_def (v : FatVolume) (d d' : Disk) :
    DirtyOf v d d' ↔ BlocksOK d' ∧
      ∀ i, (∀ c j, InRange v c → ¬ isUsed v d c → j < v.blocksPerCluster → i ≠ clusterToBlock v c + j) → d'.get i = d.get i :=
  Iff.rfl

/-- A blank cluster is an `InitCluster`. -/
theorem initCluster_of_blank (v : FatVolume) (d : Disk) (c : Nat) (hz : ClusterZero v d c) (hpos : 0 < v.blocksPerCluster) :
    InitCluster v d c := Lemmas.VolCrashD.initCluster_of_zero hz hpos

/-- `dirClusters` is the chain `dirSlots` reads the directory from. -/
theorem dirClusters_eq_dirChain (v : FatVolume) (G : List (List Nat)) (h : Nat) :
    dirClusters v G h = Lemmas.VolMed.dirChain v G h := Lemmas.VolCrashD.dirClusters_eq v G h

/-! ### One call -/

/-- **`crash_dir_clusters_initialised`** (see the header). -/
theorem crash_dir_clusters_initialised (s : Mgr) (op : Op) (gh : Ghost) (hI : VolInvCX s gh) (hc : Covered s op) (k : Nat) :
    ∃ gh' X', CrashInvX gh.vol (crashDisk s.dev.disk (step s op).2.writes k) gh' X' ∧
      ∀ h, h ∈ dirIds gh'.dirs → ∀ c, c ∈ dirClusters gh.vol gh'.G h →
        isUsed gh.vol s.dev.disk c ∨ InitCluster gh.vol (crashDisk s.dev.disk (step s op).2.writes k) c :=
  Lemmas.VolCrashD.step_dirInit hI op (nameCovered_of_covered hc) k

theorem crash_dir_clusters_initialised_all (v0 : FatVolume) (s : Mgr) (op : Op) (gh : Ghost) (hI : VolInvCX s gh)
    (hc : CoveredAll v0 s op) (k : Nat) :
    ∃ gh' X', CrashInvX gh.vol (crashDisk s.dev.disk (step s op).2.writes k) gh' X' ∧
      ∀ h, h ∈ dirIds gh'.dirs → ∀ c, c ∈ dirClusters gh.vol gh'.G h →
        isUsed gh.vol s.dev.disk c ∨ InitCluster gh.vol (crashDisk s.dev.disk (step s op).2.writes k) c :=
  Lemmas.VolCrashD.step_dirInit hI op (nameCovered_of_coveredAll hc) k

/-- The same with the first disjunct read off the pre-call tree: `c` is a cluster of one of the chains `gh.G` of the files
and directories of the volume before the call. -/
theorem crash_dir_clusters_initialised_tree (s : Mgr) (op : Op) (gh : Ghost) (hI : VolInvCX s gh) (hc : Covered s op) (k : Nat) :
    ∃ gh' X', CrashInvX gh.vol (crashDisk s.dev.disk (step s op).2.writes k) gh' X' ∧
      ∀ h, h ∈ dirIds gh'.dirs → ∀ c, c ∈ dirClusters gh.vol gh'.G h →
        c ∈ gh.G.flatten ∨ InitCluster gh.vol (crashDisk s.dev.disk (step s op).2.writes k) c := by
  obtain ⟨gh', X', hX, hD⟩ := crash_dir_clusters_initialised s op gh hI hc k
  exact ⟨gh', X', hX, fun h hh c hcc => (hD h hh c hcc).imp (fun hu => (hI.inv.inv.med.owns.2.2 c).1 hu) id⟩

/-- **A cluster that was free before the call** and belongs to a directory at the crash point is an `InitCluster`:
nothing of its previous contents is left. -/
theorem crash_fresh_dir_cluster (s : Mgr) (op : Op) (gh : Ghost) (hI : VolInvCX s gh) (hc : Covered s op) (k : Nat) :
    ∃ gh' X', CrashInvX gh.vol (crashDisk s.dev.disk (step s op).2.writes k) gh' X' ∧
      ∀ h, h ∈ dirIds gh'.dirs → ∀ c, c ∈ dirClusters gh.vol gh'.G h → isFree gh.vol s.dev.disk c →
        InitCluster gh.vol (crashDisk s.dev.disk (step s op).2.writes k) c := by
  obtain ⟨gh', X', hX, hD⟩ := crash_dir_clusters_initialised s op gh hI hc k
  exact ⟨gh', X', hX, fun h hh c hcc hf => (hD h hh c hcc).resolve_left fun hu => hu.2.1 hf⟩

/-! ### The free clusters are arbitrary -/

/-- **The invariant of API histories does not look into the clusters that are not in use.** -/
theorem invariant_ignores_free_clusters (s : Mgr) (gh : Ghost) (hI : VolInvCX s gh) (d' : Disk)
    (hd : DirtyOf gh.vol s.dev.disk d') (hcache : ∀ i, s.cache.tag = some i → d'.get i = s.dev.disk.get i) :
    VolInvCX (onDisk s d') gh := Lemmas.VolCrashD.volInvCX_dirty hI hd hcache

/-- **Clause 5 with the dirty medium universally quantified**: whatever the clusters not in use hold when the call is
issued (`d'`), at every crash point every directory cluster was in use before the call or is an `InitCluster`. -/
theorem crash_dir_clusters_initialised_dirty (s : Mgr) (op : Op) (gh : Ghost) (hI : VolInvCX s gh) (d' : Disk)
    (hd : DirtyOf gh.vol s.dev.disk d') (hcache : ∀ i, s.cache.tag = some i → d'.get i = s.dev.disk.get i)
    (hc : Covered (onDisk s d') op) (k : Nat) :
    ∃ gh' X', CrashInvX gh.vol (crashDisk d' (step (onDisk s d') op).2.writes k) gh' X' ∧
      ∀ h, h ∈ dirIds gh'.dirs → ∀ c, c ∈ dirClusters gh.vol gh'.G h →
        isUsed gh.vol d' c ∨ InitCluster gh.vol (crashDisk d' (step (onDisk s d') op).2.writes k) c :=
  crash_dir_clusters_initialised (onDisk s d') op gh (invariant_ignores_free_clusters s gh hI d' hd hcache) hc k

/-! ### Histories -/

/-- **Every crash point of every call of every covered history.**  "Before the call" is the medium the first `n` calls
leave. -/
theorem history_crash_dir_clusters_initialised (v0 : FatVolume) (ops : List Op) (s : Mgr) (gh : Ghost) (hI : VolInvCX s gh)
    (h0 : SameGeom v0 gh.vol) (hc : CoveredAllRun v0 s ops) (n : Nat) (op : Op) (hn : ops[n]? = some op) (k : Nat) :
    ∃ gh' X', CrashInvX v0 (crashDisk (run s (ops.take n)).1.dev.disk (step (run s (ops.take n)).1 op).2.writes k) gh' X' ∧
      ∀ h, h ∈ dirIds gh'.dirs → ∀ c, c ∈ dirClusters v0 gh'.G h →
        isUsed v0 (run s (ops.take n)).1.dev.disk c ∨
        InitCluster v0 (crashDisk (run s (ops.take n)).1.dev.disk (step (run s (ops.take n)).1 op).2.writes k) c := by
  obtain ⟨ghn, hIn, hgn⟩ := C10InvX.api_history_invariantCX v0 (ops.take n) s gh hI h0 (C03Inv.coveredAllRun_take v0 hc n)
  obtain ⟨gh', X', hX, hD⟩ :=
    crash_dir_clusters_initialised_all v0 _ op ghn hIn (C10Inv.coveredAllRun_get v0 hc n op hn) k
  refine ⟨gh', X', C10InvX.crashInvX_sameGeom hgn.symm hX, fun h hh c hcc => ?_⟩
  have hcl : dirClusters ghn.vol gh'.G h = dirClusters v0 gh'.G h := by
    obtain ⟨a, b, e⟩ := hgn
    rw [e]; rfl
  rcases hD h hh c (by rw [hcl]; exact hcc) with hu | hi
  · exact .inl (by rw [hgn.isUsed] at hu; exact hu)
  · exact .inr (Lemmas.VolCrashD.initCluster_sameGeom hgn.symm hi)

end Sdmmc.Props.C10Init
