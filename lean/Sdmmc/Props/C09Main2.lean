/-
C09 — HEADLINE THEOREM, second version: ANY NUMBER of open volumes on one device.

PROPERTY (verbatim from `properties.jsonl`).
statement:
  "Once flush or close of a file has returned success, cutting power after any later block write - during any
  subsequent operation on other files, directories or the volume - and mounting the medium afresh shows that file
  with at least the flushed length and exactly the flushed contents, until the file itself is next modified,
  truncated or deleted."
quantifier:
  "every prefix of the block-write sequence that follows a successful flush/close, over all histories of subsequent
  operations (creates, extends, truncates, deletes, mkdirs in the same and other directories, volume close) and all
  geometries; block writes are assumed atomic and ordered"

WHAT CHANGED AGAINST `Props/C09Main.lean`.  `C09_main_partial` there is about a manager with ONE open volume (`VolInvC`).
Here the manager has ANY NUMBER of open volumes (one block cache, ONE handle generator, global table limits): the file
lives on one of them; the history after the flush / close may interleave ARBITRARY calls on the other volumes — creates,
writes, deletes (also of files with the SAME NAME), mkdirs, `close_volume` of other volumes, `open_volume` of further
partitions — with calls on the file's own volume.  The "(scope) ONE open volume" item of the gap list of `C09Main` is closed
(`Props/C09Multi.lean`, `Props/C10Multi.lean`).

HOW TO READ `C09_main2_partial`.
* `s` is a manager state between two calls, `ghs` one ghost per open volume (`Spec/VolumeN.lean`).  The file: `hd` is the handle
  of the open file `f` (`hidx`, `hfk`: the first record of the file table with that handle), which was written to
  (`f.dirty = true`), of the volume record `i` (`vi`, ghost `gh`; `hfv`).  It sits in directory number `h` of THAT volume
  (`0` = root directory, else the first cluster), to which the sub-directory entries `ys` lead from the root directory
  (`PathOn`, `Props.C09Hist.pathOn_def`; `ys = []`: a file of the root directory).  The medium of `s` mounts partition `idx`
  with the geometry `v0` of the volume.
* `call` is `close_file hd`, or `flush_file hd` — the handle is then LEFT OPEN.
* `ops` is ANY history of API calls after `call`, on any of the open volumes.  The criterion — "until the file itself is next
  modified, truncated or deleted" — is `UntouchedN` (`Props.C09Multi.untouchedN_def`, `targetsN_def`): every call is issued
  while the file's volume is open, and no call is, in the state it is issued in, ADDRESSED TO THE FILE'S VOLUME (its
  directory / file handle leads to that volume's record) and there an `open_file_in_dir` of a spelling of the file's name in
  its directory in a TRUNCATING mode, a `delete_file_in_dir` of it, or a `write` through a (not read-only) handle of it
  (`Props.C09Hist.targets_def` on the projection `proj s i`).  A call addressed to ANOTHER volume, or to none, never targets
  the file, whatever name it uses (`Props.C09Multi.not_targetsN_of_foreign`, `other_volume_calls_untouched`).  For
  `close_file` a purely syntactic criterion suffices: `NeverNames` (`Props.C09Hist.neverNames_def`: the LIST of calls contains
  no `open_file_in_dir` in a mode other than `ReadOnly` and no `delete_file_in_dir` of a spelling of the name — on any volume,
  which is more than necessary) and no `close_volume` of the file's volume.
* The crash point: `crashDisk d ws n` (`Spec/Crash.lean`) is the medium `d` with the first `n` of the block writes `ws`
  applied; `(step t op).2.writes` the block writes of the call `op` issued in `t`, in order.  EVERY call `ops[j]`, EVERY `n`.
* `Shows` (`Props.C09Main.shows_def`), with `e := f.entry` the flushed entry, `cs := chainOf gh.G f.entry.cluster` the file's
  chain, `fileContent v0 s.dev.disk cs e.size` THE FLUSHED CONTENTS (by clause (bytes) the bytes the abstract file system of
  C01 holds for the file when `call` is issued):
    (a) on the crashed medium the slot still holds the 32 bytes of the flushed entry, the chain is `cs`, the contents are
        the flushed contents;
    (b) it is crash-consistent for the file's volume (`CrashInv`, C10), `ys` still lead to `h`, and the slot is the FIRST
        entry with the file's name in directory `h`;
    (c) `FreshReads` (`Props.C09Main.freshReads_def`): ANY fresh manager on it mounts partition `idx`, opens the root directory,
        walks `open_dir` along any spellings of the names of `ys`, opens the file `ReadOnly` by any spelling of its name, is
        told the flushed length and `read`s exactly the flushed contents, writing nothing.

HYPOTHESES.
* `VolInvNC s ghs` (`Props.C10Multi.volInvNC_def`) = `VolInvN` (C03 for several volumes) ∧ `MirrorN` (identical FAT copies) ∧
  `RawOKN` (the on-disk entry of an open file names no cluster or the file's).  Every fresh manager has it
  (`Props.C10Multi.fresh_manager`); every history keeps it (`api_history_invariant_crash_multi`).
* `CoveredNRun` (`Props.C03Multi`): about `open_volume` calls that SUCCEED only — fresh handle, disjoint partition, sound
  volume.  `FreshRun` (`Props.C01Multi`): about `get_root_volume_label` only — the handle of its temporary directory is
  unused (fails only after a wrap of the 32-bit handle generator).
* `hm`, `hsg`: the medium mounts the file's partition when `call` is issued.  `hnames`: no directory on the path is entered
  through `.` / `..`.  `flush_file` only: `f.entry.cluster ≠ 0` (as in `Props/C09Main.lean`).

STATUS: PARTIAL — every clause of the sentence is proved, at every crash point, for every history on any number of volumes,
files of any directory, FAT16 and FAT32.  What is left:
* (close of the file's volume) the file is followed while its volume stays open; the crash points OF a successful
  `close_volume` of that volume are covered (`Props.C09Multi.one_call_multi`), what comes after is not: a later `open_volume`
  of the same partition gives the volume a new handle, and nothing links the two.  (One open volume: `Props/C09Main.lean`
  does cover histories continuing after `close_volume`.)
* (flush) the empty-file corner `f.entry.cluster ≠ 0`; no purely SYNTACTIC criterion for the `flush_file` case.
* (reader) the depth of the path is bounded by the reader's directory table (`ys.length + 1 ≤ maxDirs`, as in the crate).
* Fault-free device (a crash is the device no longer accepting writes; failing writes: C11).
-/
import Sdmmc.Props.C09Multi
import Sdmmc.Props.C09Main

namespace Sdmmc.Props.C09Main2
open Sdmmc.Model Sdmmc.Model.Fat Sdmmc.Spec.Volume
open Sdmmc.Spec hiding run step NoFault Coherent
open Sdmmc.Props.C03Multi (CoveredNRun)
open Sdmmc.Props.C01Multi (FreshRun)
open Sdmmc.Lemmas.Survive (PathOn NeverNames)
open Sdmmc.Lemmas.SurviveN (UntouchedN)
open Sdmmc.Lemmas.VolTree (fkey spos)
open Sdmmc.Lemmas.MainC09 (Shows)

/-- **C09, several open volumes.**  See the header. -/
theorem C09_main2_partial (v0 : FatVolume) (s : Mgr) (ghs : List Ghost) (hI : VolInvNC s ghs) (i : Nat)
    (vi : VolInfo) (gh : Ghost) (hvi : s.vols[i]? = some vi) (hgh : ghs[i]? = some gh) (h0 : SameGeom v0 gh.vol)
    (hd k : Nat) (f : FileInfo) (hidx : s.files.findIdx? (·.rawFile = hd) = some k) (hfk : s.files[k]? = some f)
    (hfv : f.rawVolume = vi.rawVolume) (hdirty : f.dirty = true) (h : Nat) (ys : List Slot)
    (hdir : ∃ o, o ∈ objects h (dirSlots gh.vol s.dev.disk gh.G h) ∧ spos o = fkey f)
    (hpath : PathOn gh.vol.fatType gh.dirs (dirSlots gh.vol s.dev.disk gh.G) 0 ys h)
    (hnames : ∀ y, y ∈ ys → sName y ≠ Sfn.thisDir ∧ sName y ≠ Sfn.parentDir)
    (idx : Nat) (vm : FatVolume) (hm : mountPure (s.dev.disk.get 0) idx s.dev.disk.get = .ok vm) (hsg : SameGeom vm v0)
    (call : Op) (hcall : call = .closeFile hd ∨ (call = .flush hd ∧ f.entry.cluster ≠ 0)) :
    -- "flush or close of a file has returned success"
    (step s call).2.result = .ok .unit ∧
    -- (bytes) the flushed contents are the file's bytes in the abstract file system (C01) of its volume
    (∀ a, Lemmas.AbsFs.Abs (proj s i) gh a → ∃ k' af m, Spec.AbsFs.fileOf a hd = some (k', af) ∧
      (a.slots af.dir)[af.idx]? = some (.file m (fileContent v0 s.dev.disk (chainOf gh.G f.entry.cluster) f.entry.size))) ∧
    -- "cutting power after any later block write, during any subsequent operation on other files, directories or the
    -- volume" — or on any other volume — "until the file itself is next modified, truncated or deleted"
    ∀ ops, CoveredNRun s (call :: ops) → FreshRun s (call :: ops) →
      (UntouchedN vi.rawVolume h f.entry.name (f.entry.entryBlock, f.entry.entryOffset) (step s call).1 ops ∨
        (call = .closeFile hd ∧ NeverNames f.entry.name ops ∧ ∀ op, op ∈ ops → op ≠ .closeVolume vi.rawVolume)) →
      ∀ (j : Nat) (op : Op) (n : Nat), ops[j]? = some op →
        -- "… and mounting the medium afresh shows that file with at least the flushed length and exactly the flushed contents"
        Shows v0 f.entry (chainOf gh.G f.entry.cluster) ys h s.dev.disk idx
          (crashDisk (run (step s call).1 (ops.take j)).1.dev.disk
            (step (run (step s call).1 (ops.take j)).1 op).2.writes n) := by
  obtain ⟨hres, hall⟩ := C09Multi.flush_or_close_survives_multi v0 s ghs hI i vi gh hvi hgh h0 hd k f hidx hfk hfv hdirty h ys
    hdir hpath hnames idx vm hm hsg call hcall
  exact ⟨hres, fun a hA => C09Multi.flushed_contents_are_model_bytes_multi v0 hI hvi hgh h0 hidx hfk hfv hA, hall⟩

/-- The one-volume headline is the special case of a manager whose volume table has one record (`Props/C09Main.lean`; there
the history may also continue after `close_volume`). -/
example := @C09Main.C09_main_partial

/-! ### Non-vacuity

The hypotheses are discharged on a medium with a partition table and TWO FAT16 partitions, both open, in
`Props/Slow/C09Main2Ex.lean` (thorough tier: the medium needs ~110 s of kernel evaluation): `A.TXT` of volume 3 is closed;
then files of the SAME NAME are created, filled and deleted on volume 6, volume 6 is closed …; at every crash point a fresh
manager reads the 600 bytes.  Here, without evaluation: calls on other volumes never target the file. -/

example {s : Mgr} {hv h : Nat} {N : Bytes} {pos : Nat × Nat} {op : Op}
    (hfo : ∀ (i : Nat) (vi : VolInfo), target s op = some i → s.vols[i]? = some vi → vi.rawVolume ≠ hv) :
    ¬ Lemmas.SurviveN.TargetsN s hv h N pos op := C09Multi.not_targetsN_of_foreign hfo

end Sdmmc.Props.C09Main2
