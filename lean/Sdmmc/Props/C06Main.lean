/-
C06 — headline theorem.

Property C06, `statement` (verbatim):
  "Iterating a directory yields every live entry exactly once, in on-disk order, with the name,
  size, attributes, timestamps and start cluster stored on disk, and yields no deleted entry, no
  long-name fragment and nothing past the end marker. Lookup by name and opening a sub-directory
  succeed exactly for names that the listing contains, including dot and dot-dot, and lead to the
  directory the entry designates."
`quantifier.text` (verbatim):
  "all directory contents (any mix of live, deleted, long-name and volume-label slots; directories
  spanning many clusters with fragmented chains; FAT16 fixed-size roots of any size; FAT32 roots at
  any start cluster), before and after any history of create/delete/mkdir"

`C06_main_partial` is ONE statement in two layers.

* `Raw` — on the bytes of the medium, for EVERY content of every block: the FAT-layer functions
  (`Model/Fat.lean`: `iterateRaw`, `findDirectoryEntry`) against the specification of a directory
  written here from the FAT specification (`Props/C06.lean`): a directory is a sequence of
  32-byte slots (`blockSlots`, `dirSlots`, `chainSlots`: cluster after cluster of ANY chain `cs`,
  fragmented or not, any length; the FAT16 root region of any size); a slot whose first byte is
  0x00 ends it (`beforeEnd`), 0xE5 marks a deleted slot (`live`), attribute low nibble 0xF a
  long-name fragment (`isFragment`); `decode` reads name, attributes, start cluster (both halves on
  FAT32), size and the date/time words at the FAT offsets; `listing` = live, not fragment,
  decoded, in order.  Hypotheses: no injected device fault and a coherent cache (`NoFault`,
  `Coherent`: faults are C11), and `DirChain`: `cs` IS the directory's chain in the FAT (each
  cluster links to the next, the last is end-of-chain) — which C03's invariant provides.
* `Api` — at the API (`step s (.list d)`, `.find`, `.openDir`), in every state with the volume
  invariant `VolInv` — hence (`history`) before and after ANY history of the 24 calls — against
  the byte-array model of the tree (`Spec/AbsFs.lean`; `Abs s gh a` relates them; the tree is the
  medium's slots: `C15Fs.mounted_tree`, `C15Main`): the listing is the file / directory slots in
  slot order; lookup succeeds iff the name is listed; `open_dir` follows `openDirS` (`absStep_openDir`): `.` opens
  the same directory, any other name must be found and be a directory slot, and the new handle
  designates the directory `t` that slot points to (`..` included: an ordinary slot).

Standing hypotheses of `Api`: `VolInv s gh`, `Abs s gh a` (exists: `C01Fs.abs_exists`), `NameOK`
(name not stored with a 0xE5 first byte: always true since the 0x05 substitution, `C03All`),
`FsCoveredRun` for histories.

PARTIAL — three known findings (each evaluated in `Props/C06.lean`, `Example`), and one gap:
* F3: the crate's long-name test is `attr & 0x0F == 0x0F`, the specification's `attr & 0x3F ==
  0x0F`: a short entry with the (invalid) attribute 0x1F / 0x2F / 0x3F is hidden from listing and
  lookup.  "Every live entry" is therefore "every live entry that is not a fragment BY THE CRATE'S
  TEST" (`isFragment`).
* F1: raw lookup compares deleted slots too — `name.head? ≠ some 0xE5` in `lookup_iff_listed_*`;
  unreachable through the API since the 0x05 substitution (`C18Main`, `C03All`).
* F2: raw lookup does not stop at an end marker in an EARLIER block — `CleanTail` (everything
  after the first end marker is zero: what the specification promises and the crate maintains)
  in `lookup_iff_listed_*`.
* gap: the `Api` layer reports name, attributes, size and timestamps (`view`), not the start
  cluster; the start cluster is in the `Raw` layer (`decode`), and "leads to the directory the
  entry designates" is `Api.open_dir`.
-/
import Sdmmc.Props.C06
import Sdmmc.Props.C01Fs

namespace Sdmmc.Props.C06Main
open Sdmmc.Model Sdmmc.Model.Fat
open Sdmmc.Spec.Volume (VolInv Ghost)
open Sdmmc.Spec (SameGeom)
open Sdmmc.Spec.AbsFs (AbsFs Meta view OpenDir)
open Sdmmc.Lemmas.AbsFs (Abs NameOK FsCoveredRun)
open Sdmmc.Props.C06

theorem listing_def (ft : FatType) (ss : List Slot) :
    listing ft ss = ((live ss).filter fun s => !isFragment s.2.2).map (decode ft) := rfl
theorem live_def (ss : List Slot) :
    live ss = (ss.takeWhile fun s => decide (firstByte s.2.2 ≠ 0)).filter fun s => decide (firstByte s.2.2 ≠ 0xE5) := rfl
theorem decode_def (ft : FatType) (s : Slot) : decode ft s =
    { name := s.2.2.take 11
      mtime := Timestamp.fromFat (readU16 s.2.2 24) (readU16 s.2.2 22)
      ctime := Timestamp.fromFat (readU16 s.2.2 16) (readU16 s.2.2 14)
      attributes := byteAt s.2.2 11
      cluster :=
        if (match ft with
            | .fat32 => readU16 s.2.2 20 * 65536 + readU16 s.2.2 26
            | .fat16 => readU16 s.2.2 26) = 0 ∧ byteAt s.2.2 11 / 16 % 2 = 1 then 0xFFFFFFFC
        else (match ft with
            | .fat32 => readU16 s.2.2 20 * 65536 + readU16 s.2.2 26
            | .fat16 => readU16 s.2.2 26)
      size := readU32 s.2.2 28
      entryBlock := s.1
      entryOffset := s.2.1 } := rfl
theorem chainSlots_def (v : FatVolume) (disk : Disk) (cs : List Nat) :
    chainSlots v disk cs = cs.flatMap fun c => dirSlots disk (clusterToBlock v c) v.blocksPerCluster := rfl

/-- The abstract step of `open_dir`, outside a callback, IS `openDirS` (`Spec/AbsFs.lean`): table full →
`TooManyOpenDirs`; bad handle / bad name → that error; `.` → a new handle on the same directory; otherwise
the name must be found (`NotFound`) and be a directory slot (`OpenedFileAsDir`), and the new handle is on the
directory `t` the slot points to. -/
theorem absStep_openDir (a : AbsFs) (hl : a.locked = false) (d : Nat) (name : List Nat) (out : AbsFs × Res Payload) :
    Spec.AbsFs.absStep a (.openDir d name) out ↔ Spec.AbsFs.openDirS a d name out.1 out.2 := by
  simp [Spec.AbsFs.absStep, hl]

/-- The raw layer, in the FAT-layer state `s`. -/
structure Raw (s : FS) : Prop where
  /-- a chained directory (every FAT32 directory, every FAT16 sub-directory): the walk returns the
  live slots of the chain up to the first end marker, in order, decoded; nothing is written -/
  chain_listing : ∀ (dirCluster : Nat) (cs : List Nat), ¬ (s.vol.fatType = .fat16 ∧ dirCluster = 0xFFFFFFFC) →
    DirChain s.vol s.dev.disk (startCluster s.vol dirCluster :: cs) → cs.length ≤ s.vol.clusterCount + 2 →
    ∃ s', iterateRaw dirCluster s =
        (.ok ((live (chainSlots s.vol s.dev.disk (startCluster s.vol dirCluster :: cs))).map
              (fun x => (decode s.vol.fatType x, x.2.2))), s') ∧
      s'.dev.disk = s.dev.disk ∧ s'.dev.wlog = s.dev.wlog
  /-- the FAT16 fixed-size root, of any size -/
  fat16_root_listing : s.vol.fatType = .fat16 →
    ∃ s', iterateRaw 0xFFFFFFFC s =
        (.ok ((live (dirSlots s.dev.disk (s.vol.lbaStart + s.vol.firstRootDirBlock)
                (blockCountFromBytes (s.vol.rootEntriesCount * 32)))).map
              (fun x => (decode .fat16 x, x.2.2))), s') ∧
      s'.dev.disk = s.dev.disk ∧ s'.dev.wlog = s.dev.wlog
  /-- lookup in a chained directory -/
  chain_lookup : ∀ (dirCluster : Nat) (name : Bytes) (cs : List Nat),
    ¬ (s.vol.fatType = .fat16 ∧ dirCluster = 0xFFFFFFFC) →
    DirChain s.vol s.dev.disk (startCluster s.vol dirCluster :: cs) → cs.length ≤ s.vol.clusterCount + 2 →
    ∃ s', Fat.findDirectoryEntry dirCluster name s =
        ((lookupChain s.vol s.dev.disk name (startCluster s.vol dirCluster :: cs)).elim (.err .NotFound) .ok, s') ∧
      s'.dev.disk = s.dev.disk ∧ s'.dev.wlog = s.dev.wlog
  /-- lookup in the FAT16 root -/
  fat16_root_lookup : s.vol.fatType = .fat16 → ∀ name : Bytes,
    ∃ s', Fat.findDirectoryEntry 0xFFFFFFFC name s =
        ((lookupBlocks .fat16 s.dev.disk name (s.vol.lbaStart + s.vol.firstRootDirBlock)
                  (blockCountFromBytes (s.vol.rootEntriesCount * 32))).elim (.err .NotFound) .ok, s') ∧
      s'.dev.disk = s.dev.disk ∧ s'.dev.wlog = s.dev.wlog

/-- Facts about slot sequences (no state). -/
structure SlotFacts : Prop where
  /-- what the API hands out of a raw walk is the specification's `listing`: no fragment -/
  api_listing : ∀ (ft : FatType) (ss : List Slot),
    ((((live ss).map fun x => (decode ft x, x.2.2)).map (·.1)).filter fun e => !Attr.isLfn e.attributes) = listing ft ss
  /-- lookup finds exactly the first listed entry with the name — `.` and `..` included -/
  lookup_iff_listed_chain : ∀ (v : FatVolume) (disk : Disk) (name : Bytes) (cs : List Nat),
    name.head? ≠ some 0xE5 → CleanTail (chainSlots v disk cs) →
    lookupChain v disk name cs = (listing v.fatType (chainSlots v disk cs)).find? (fun e => decide (e.name = name))
  lookup_iff_listed_blocks : ∀ (ft : FatType) (disk : Disk) (name : Bytes) (n b : Nat),
    name.head? ≠ some 0xE5 → CleanTail (dirSlots disk b n) →
    lookupBlocks ft disk name b n = (listing ft (dirSlots disk b n)).find? (fun e => decide (e.name = name))

/-- The API layer, in a state with the volume invariant. -/
structure Api (s : Mgr) (gh : Ghost) (a : AbsFs) : Prop where
  /-- iterating yields the file / directory slots of the directory, in slot order -/
  listing : ∀ (d : Nat) (od : OpenDir), Spec.AbsFs.dirOf a d = .ok od →
    ∃ es, (step s (.list d)).2.result = .ok (.entries es) ∧
      es.map view = (a.slots od.dir).filterMap Spec.AbsFs.Slot.meta?
  /-- lookup succeeds exactly for the names the listing contains -/
  lookup : ∀ (d : Nat) (name : List Nat), NameOK name → ∀ (od : OpenDir) (sfn : Bytes),
    Spec.AbsFs.dirCtx a d name = .ok (od, sfn) →
    ∃ es, (step s (.list d)).2.result = .ok (.entries es) ∧
      (sfn ∈ es.map (·.name) →
        ∃ e, (step s (.find d name)).2.result = .ok (.entry e) ∧ e.name = sfn ∧ view e ∈ es.map view) ∧
      (sfn ∉ es.map (·.name) → (step s (.find d name)).2.result = .err .NotFound)
  /-- opening a sub-directory: `.` the same directory; otherwise the name must be found and be a
  directory slot, and the handle designates the directory that slot points to -/
  open_dir : ∀ (d : Nat) (name : List Nat), NameOK name →
    ∃ gh' a', VolInv (step s (.openDir d name)).1 gh' ∧ Abs (step s (.openDir d name)).1 gh' a' ∧
      Spec.AbsFs.absStep a (.openDir d name) (a', (step s (.openDir d name)).2.result)
  /-- before and after any history: the invariant and the refinement hold again -/
  history : ∀ ops, FsCoveredRun gh.vol s ops →
    ∃ gh' a', VolInv (run s ops).1 gh' ∧ Abs (run s ops).1 gh' a' ∧ SameGeom gh.vol gh'.vol

theorem C06_main_partial :
    (∀ s : FS, NoFault s → Coherent s → Raw s) ∧ SlotFacts ∧
    (∀ (s : Mgr) (gh : Ghost) (a : AbsFs), VolInv s gh → Abs s gh a → Api s gh a) := by
  refine ⟨fun s hn hc => ?_, ?_, fun s gh a hI hA => ?_⟩
  · exact
    { chain_listing := fun dc cs hk hch hl => by
        obtain ⟨s', h, h1, h2, _⟩ := iterate_chain_spec s dc cs hn hc hk hch hl
        exact ⟨s', h, h1, h2⟩
      fat16_root_listing := fun h16 => by
        obtain ⟨s', h, h1, h2, _⟩ := iterate_fat16_root_spec s hn hc h16
        exact ⟨s', h, h1, h2⟩
      chain_lookup := fun dc name cs hk hch hl => by
        obtain ⟨s', h, h1, h2, _⟩ := find_chain_spec s dc name cs hn hc hk hch hl
        exact ⟨s', h, h1, h2⟩
      fat16_root_lookup := fun h16 name => by
        obtain ⟨s', h, h1, h2, _⟩ := find_fat16_root_spec name s hn hc h16
        exact ⟨s', h, h1, h2⟩ }
  · exact ⟨iterate_dir_listing, find_chain_iff_listed, find_blocks_iff_listed⟩
  · exact
    { listing := fun d od hd => C01Fs.listing_is_live_entries_in_order hI hA d hd
      lookup := fun d name hname od sfn hctx => C01Fs.lookup_iff_listed hI hA d name hname hctx
      open_dir := fun d name hname => by
        obtain ⟨gh', a', h1, _, h3, h4⟩ := C01Fs.fs_step_refines gh.vol hI hA (SameGeom.refl _) (.openDir d name) hname
        exact ⟨gh', a', h1, h3, h4⟩
      history := fun ops hc => by
        obtain ⟨gh', a', h1, h2, h3, _⟩ := C01Fs.fs_history_refines gh.vol ops hI hA (SameGeom.refl _) hc
        exact ⟨gh', a', h1, h3, h2⟩ }

namespace Example
open Sdmmc.Props.C06.Example

/-- The block of `Props/C06.lean` (a fragment, the live `FOO.TXT`, a deleted slot, `..`, the end
marker, stale bytes): the listing reports `FOO.TXT` and `..` with their stored fields — start
cluster included — and nothing else. -/
example : (listing .fat16 (blockSlots 7 blk)).map (fun e => (e.name, e.attributes, e.cluster, e.size, e.entryBlock, e.entryOffset)) =
    [(foo.take 11, 0x20, 5, 100, 7, 32), (dotdot.take 11, 0x10, 0xFFFFFFFC, 0, 7, 96)] := by decide

/-- `Raw`'s hypotheses hold of a fault-free state with an empty cache. -/
example : Raw { dev := { disk := twoBlocks }, cache := {}, vol := default } :=
  C06_main_partial.1 _ rfl (fun i h => by cases h)

/-- `Api`'s hypotheses hold of the example volume `VolExample.mgr1` (root with a file and a sub-directory). -/
example : ∃ a, Api Lemmas.VolExample.mgr1 Lemmas.VolExample.gh1 a := by
  obtain ⟨a, hA⟩ := C01Fs.abs_exists Lemmas.VolExample.mgr1_inv
  exact ⟨a, C06_main_partial.2.2 _ _ a Lemmas.VolExample.mgr1_inv hA⟩

end Example

end Sdmmc.Props.C06Main
