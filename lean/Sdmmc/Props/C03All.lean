/-
C03, all names — with the 0x05 substitution in `ShortFileName::create_from_str` (a name whose first
byte would be 0xE5, the deleted-entry marker, is stored with 0x05 there) the name restriction of the
volume-invariant history theorem disappears.

Property theorems only; the proofs are in `Sdmmc.Lemmas.NameE5` (`createFromStr_first_byte`: for EVERY
name the short form does not start with 0xE5) and `Sdmmc.Props.C03Inv` (`api_history_invariant`).
Model: `Sdmmc.Model.Sfn.createFromStr` (with `kanjiStore`), `Sdmmc.Model.step` / `run`.

STATUS: PROVED (no theorem below is `_partial`).

`api_history_invariant` had two hypotheses (`CoveredAllRun`): `NameOK` for the names given to `openDir` /
`openFile` / `delete` / `mkdir` (accepted deviation (a): a name whose short form starts with 0xE5 was stored as
/ matched a deleted slot), and, for an `openVolume` issued while no volume is open, that the record it mounts has
the geometry of the reference record.  `name_ok_all` discharges the first for every name; what is left is
`RemountRun`, the remount hypothesis alone.  Histories that never call `open_volume` need no hypothesis at all
(`api_history_invariant_no_remount`).
-/
import Sdmmc.Props.C03Inv
import Sdmmc.Lemmas.NameE5

namespace Sdmmc.Props.C03All
open Sdmmc.Model Sdmmc.Model.Fat Sdmmc.Spec.Volume
open Sdmmc.Spec hiding run step NoFault Coherent
open Sdmmc.Props.C03Inv (NameOK CoveredAll CoveredAllRun)

/-- **Every name is covered**: the short form `create_from_str` answers never starts with 0xE5. -/
theorem name_ok_all (name : List Nat) : NameOK name :=
  fun _ h => Lemmas.NameE5.createFromStr_first_byte h

/-- The one hypothesis left: an `openVolume` issued while NO volume is open mounts — if it mounts anything — a
record with the geometry of `v0`.  (Same text as the `openVolume` clause of `C03Inv.CoveredAll`.) -/
def Remount (v0 : FatVolume) (s : Mgr) : Op → Prop
  | .openVolume idx => s.vols ≠ [] ∨
      ∀ h s', openRawVolume idx (Lemmas.MHoare.resetLogs s) = (.ok h, s') → ∀ vi, vi ∈ s'.vols → SameGeom v0 vi.vol
  | _ => True

/-- A history all of whose `openVolume` calls satisfy `Remount` in the state they are issued in. -/
def RemountRun (v0 : FatVolume) : Mgr → List Op → Prop
  | _, [] => True
  | s, op :: ops => Remount v0 s op ∧ RemountRun v0 (step s op).1 ops

/-- `CoveredAll` is `Remount`: the name clauses hold of every name. -/
theorem coveredAll_iff_remount (v0 : FatVolume) (s : Mgr) (op : Op) : CoveredAll v0 s op ↔ Remount v0 s op := by
  cases op <;> first
    | exact Iff.rfl
    | exact ⟨fun _ => trivial, fun _ => name_ok_all _⟩

theorem coveredAllRun_iff_remountRun (v0 : FatVolume) : ∀ (s : Mgr) (ops : List Op),
    CoveredAllRun v0 s ops ↔ RemountRun v0 s ops
  | _, [] => Iff.rfl
  | s, op :: ops =>
    ⟨fun h => ⟨(coveredAll_iff_remount v0 s op).1 h.1, (coveredAllRun_iff_remountRun v0 _ ops).1 h.2⟩,
     fun h => ⟨(coveredAll_iff_remount v0 s op).2 h.1, (coveredAllRun_iff_remountRun v0 _ ops).2 h.2⟩⟩

/-- One call, any name. -/
theorem api_step_invariant_all_names (v0 : FatVolume) (s : Mgr) (op : Op) (gh : Ghost) (hI : VolInv s gh)
    (h0 : SameGeom v0 gh.vol) (hc : Remount v0 s op) :
    ∃ gh', VolInv (step s op).1 gh' ∧ SameGeom v0 gh'.vol :=
  C03Inv.api_history_invariant v0 [op] s gh hI h0 ⟨(coveredAll_iff_remount v0 s op).2 hc, trivial⟩

/-- **Histories of ANY calls with ANY names**: the volume invariant holds at the end; the only hypothesis is the
remount one. -/
theorem api_history_invariant_all_names (v0 : FatVolume) (ops : List Op) (s : Mgr) (gh : Ghost) (hI : VolInv s gh)
    (h0 : SameGeom v0 gh.vol) (hc : RemountRun v0 s ops) :
    ∃ gh', VolInv (run s ops).1 gh' ∧ SameGeom v0 gh'.vol :=
  C03Inv.api_history_invariant v0 ops s gh hI h0 ((coveredAllRun_iff_remountRun v0 s ops).2 hc)

/-- … and after every call of the history. -/
theorem api_history_invariant_all_names_prefix (v0 : FatVolume) (ops : List Op) (s : Mgr) (gh : Ghost)
    (hI : VolInv s gh) (h0 : SameGeom v0 gh.vol) (hc : RemountRun v0 s ops) (k : Nat) :
    ∃ gh', VolInv (run s (ops.take k)).1 gh' ∧ SameGeom v0 gh'.vol :=
  C03Inv.api_history_invariant_prefix v0 ops s gh hI h0 ((coveredAllRun_iff_remountRun v0 s ops).2 hc) k

/-- A history without `open_volume` satisfies the remount hypothesis trivially … -/
theorem remountRun_of_no_openVolume (v0 : FatVolume) : ∀ (s : Mgr) (ops : List Op),
    (∀ op ∈ ops, ∀ i, op ≠ .openVolume i) → RemountRun v0 s ops
  | _, [], _ => trivial
  | s, op :: ops, h => by
    refine ⟨?_, remountRun_of_no_openVolume v0 _ ops fun o ho => h o (List.mem_cons_of_mem _ ho)⟩
    cases op with
    | openVolume i => exact absurd rfl (h _ List.mem_cons_self i)
    | _ => trivial

/-- … so for such histories there is NO hypothesis besides the invariant at the start. -/
theorem api_history_invariant_no_remount (ops : List Op) (s : Mgr) (gh : Ghost) (hI : VolInv s gh)
    (hno : ∀ op ∈ ops, ∀ i, op ≠ .openVolume i) (k : Nat) :
    ∃ gh', VolInv (run s (ops.take k)).1 gh' ∧ SameGeom gh.vol gh'.vol :=
  api_history_invariant_all_names_prefix gh.vol ops s gh hI (SameGeom.refl gh.vol)
    (remountRun_of_no_openVolume gh.vol s ops hno) k

/-! ### Non-vacuity (tests, evaluated by the kernel)

The quiescent FAT16 example medium of `C03Inv.Example` (handles 2 and 3: the open root / `SUB` directories; new
handles start at 10).  A history with names beginning with U+00E5 — the names `C03Inv` had to exclude: create
`å.TXT` in the root, write 600 bytes, flush, make the directory `å` in `SUB`, look `å.TXT` up, close it, open the
directory `å`, delete `å.TXT`, look it up again. -/
namespace Example
open Sdmmc.Lemmas.VolExample Sdmmc.Props.C03Inv.Example

def aring : List Nat := [0xE5, 46, 84, 88, 84]

def opsA : List Op :=
  [.openFile 2 aring .ReadWriteCreate, .write 10 (List.replicate 600 7), .flush 10, .mkdir 3 [0xE5],
   .find 2 aring, .closeFile 10, .openDir 3 [0xE5], .delete 2 aring, .find 2 aring]

/-- The short form: 0x05 first, not 0xE5; upper-case `å` = U+00C5 is a different character and is stored as is. -/
example : Sfn.createFromStr aring = .ok ([0x05, 32, 32, 32, 32, 32, 32, 32, 84, 88, 84].map UInt8.ofNat) ∧
    Sfn.createFromStr [0xC5] = .ok ([0xC5, 32, 32, 32, 32, 32, 32, 32, 32, 32, 32].map UInt8.ofNat) := by
  decide +kernel

/-- The history theorem applies with NO hypothesis about the names: the invariant holds after every call. -/
theorem opsA_invariant (k : Nat) : ∃ gh', VolInv (run mgr1 (opsA.take k)).1 gh' ∧ SameGeom gh1.vol gh'.vol :=
  api_history_invariant_no_remount opsA mgr1 gh1 mgr1_inv
    (by
      intro op hop i he
      subst he
      unfold opsA at hop
      iterate 9 (rcases List.mem_cons.mp hop with h | hop; (· cases h))
      cases hop) k

/-- The calls really did something: all answer `Ok` except the last lookup (`NotFound`: the file was deleted), and
the entry found by name is stored with first byte 0x05. -/
theorem opsA_results :
    (run mgr1 opsA).2.map (fun o => match o.result with
      | .ok (.entry e) => e.name.map UInt8.toNat
      | .ok _ => [1]
      | .err .NotFound => [2]
      | _ => [0]) =
    [[1], [1], [1], [1], [0x05, 32, 32, 32, 32, 32, 32, 32, 84, 88, 84], [1], [1], [1], [2]] := by decide +kernel

end Example

end Sdmmc.Props.C03All
