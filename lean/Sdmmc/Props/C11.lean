/-
C11 — If any block-device read or write fails during an API call, that call returns an error.

Property theorems only; helper lemmas live in `Sdmmc.Lemmas.Fault*`.

Model: the block device is a value (`Sdmmc.Model.Dev`): `faults : List Nat` lists the indices
(in `calls` numbering) of the device calls that fail, so *every* fault sequence is a value of
`faults`; the ghost counter `failed` is incremented exactly when a device call fails and is never
read by the model.  All theorems below hold for every state, every `faults` list, every argument.

What is proved here
* `fault_reported` — the main theorem: whenever `failed` grew during `step s op`, the result is
  `.err e`: never `ok` (so never a fabricated, empty or truncated answer), never `panic`, never
  `diverged` (the four outcomes of `Res` are distinct constructors).
* `failed_monotone` — `failed` never decreases, so "`failed` changed" means "a device call failed".
* `fat_fault_strict` — every function of the FAT engine (`Model/Fat.lean`) turns a device failure
  into exactly `DeviceError` (`make_dir`: into some error), with the compositional rules
  (`faultStrict_bind`, `faultStrict_attempt_bind`, …) the proof is built from.
* `api_fault_reported` — the same, method by method, for the manager.
* `handles_survive_fault`, `closeFile_fault` — after a call that did not return `Ok` the three
  handle tables hold exactly the handles they held before (every operation except `closeFile`);
  `close_file` returns the flush error *and* removes the handle.
* `read_retry_offset`, `cacheRead_fail_tag` — a failed `read` leaves every file offset where it
  was; a failed cache fill leaves the cache tag empty, so the scribbled buffer is never served.
* `readonly_ops_write_nothing`, `readonly_ops_keep_cache_coherent` — read-only calls (failed or
  not) issue no device write, leave the medium as it was and keep the cache coherent with it: a
  retry sees the same medium and never a scribbled buffer.
* `cache_coherent_after_any_call`, `writeBack_fail_tag` — with the repaired `BlockCache::write_back` (a failed
  device write clears the tag) EVERY call, mutating or not, failed or not, keeps the cache coherent.

Not proved here (checked by the fault-injection oracle of the harness instead): that the retried
read-only call returns the fault-free answer (needs cache transparency of every reading
function), absence of duplicate names after a failed creating call and intactness of uninvolved
files on the medium (these are C10/C03-style statements about the order of writes).
-/
import Sdmmc.Lemmas.Fault
import Sdmmc.Lemmas.FaultCohApi

namespace Sdmmc.Props.C11
open Sdmmc.Model Sdmmc.Model.Fat Sdmmc.Lemmas.Fault

/-! ### The notions (definitions live in `Sdmmc.Lemmas.FaultBase` / `FaultMgr`; spelled out here) -/

/-- `FaultStrict m`: any device failure during `m` surfaces as `DeviceError` — not `ok`, not
another error, not `panic`, not `diverged`. -/
theorem faultStrict_def {α} (m : F α) :
    FaultStrict m ↔ ∀ s, (m s).2.dev.failed ≠ s.dev.failed → (m s).1 = .err .DeviceError := Iff.rfl

/-- `FaultWeak m`: any device failure during `m` yields some error. -/
theorem faultWeak_def {α} (m : F α) :
    FaultWeak m ↔ ∀ s, (m s).2.dev.failed ≠ s.dev.failed → ∃ e, (m s).1 = .err e := Iff.rfl

/-- `FaultMono m`: `failed` does not decrease during `m`. -/
theorem faultMono_def {α} (m : F α) : FaultMono m ↔ ∀ s, s.dev.failed ≤ (m s).2.dev.failed := Iff.rfl

/-- `FaultReported m` (manager level): any device failure during `m` is reported as an error. -/
theorem faultReported_def {α} (m : M α) :
    FaultReported m ↔ ∀ s, (m s).2.dev.failed ≠ s.dev.failed → ∃ e, (m s).1 = .err e := Iff.rfl

/-- `MStrict m` (manager level): any device failure during `m` surfaces as `DeviceError`. -/
theorem mStrict_def {α} (m : M α) :
    MStrict m ↔ ∀ s, (m s).2.dev.failed ≠ s.dev.failed → (m s).1 = .err .DeviceError := Iff.rfl

/-! ### The device and the cache -/

/-- A device read either fails (`DeviceError`, `failed + 1`) or succeeds (`failed` unchanged). -/
theorem devRead_strict (idx : Nat) : FaultStrict (devRead idx) ∧ FaultMono (devRead idx) :=
  ⟨FaultStrict.devRead idx, FaultMono.devRead idx⟩

theorem devWrite_strict (idx : Nat) : FaultStrict (devWrite idx) ∧ FaultMono (devWrite idx) :=
  ⟨FaultStrict.devWrite idx, FaultMono.devWrite idx⟩

/-- The one-block cache passes device failures on unchanged. -/
theorem cache_strict (idx dup : Nat) (f : Block → Block) :
    FaultStrict (cacheRead idx) ∧ FaultStrict writeBack ∧ FaultStrict (writeBackWithDuplicate dup) ∧
    FaultStrict (blankMut idx) ∧ FaultStrict (cacheModify f) ∧ FaultStrict cacheBlk :=
  ⟨.cacheRead idx, .writeBack, .writeBackWithDuplicate dup, .blankMut idx, .cacheModify f, .cacheBlk⟩

/-- After a failing device read the cache tag is `none` (the Rust clears `block_idx` before
calling the device), the error is `DeviceError` and exactly one more call has failed: the
scribbled buffer is never served when the call is retried. -/
theorem cacheRead_fail_tag (idx : Nat) (s : FS) (e : Err) (h : (cacheRead idx s).1 = .err e) :
    (cacheRead idx s).2.cache.tag = none ∧ e = .DeviceError ∧ (cacheRead idx s).2.dev.failed = s.dev.failed + 1 :=
  Lemmas.Fault.cacheRead_fail_tag idx s e h

/-- … and after a successful one the tag names the block that was asked for. -/
theorem cacheRead_ok_tag (idx : Nat) (s : FS) (h : (cacheRead idx s).1 = .ok ()) :
    (cacheRead idx s).2.cache.tag = some idx :=
  Lemmas.Fault.cacheRead_ok_tag idx s h

/-- After a failing write-back the cache tag is `none` as well (the repaired `BlockCache::write_back` /
`write_back_with_duplicate` forget the block when a device write fails): the block that did not reach the medium
is never served again. -/
theorem writeBack_fail_tag (s : FS) (e : Err) :
    ((writeBack s).1 = .err e → (writeBack s).2.cache.tag = none) ∧
    (∀ dup, (writeBackWithDuplicate dup s).1 = .err e → (writeBackWithDuplicate dup s).2.cache.tag = none) := by
  refine ⟨fun h => ?_, fun dup h => ?_⟩
  · cases ht : s.cache.tag with
    | none => rw [Lemmas.Fault.writeBack_none ht] at h; cases h
    | some idx =>
      rcases Lemmas.Fault.devWrite_result idx s with hr | hr
      · rw [Lemmas.Fault.writeBack_ok ht hr, hr] at h; cases h
      · rw [Lemmas.Fault.writeBack_fail ht hr]
  · cases ht : s.cache.tag with
    | none => rw [Lemmas.Fault.writeBackDup_none dup ht] at h; cases h
    | some idx =>
      rcases Lemmas.Fault.devWrite_result idx s with hr | hr
      · rcases Lemmas.Fault.devWrite_result dup (devWrite idx s).2 with hr2 | hr2
        · rw [Lemmas.Fault.writeBackDup_ok_ok dup ht hr hr2, hr2] at h; cases h
        · rw [Lemmas.Fault.writeBackDup_ok_fail dup ht hr hr2]
      · rw [Lemmas.Fault.writeBackDup_fail dup ht hr]

/-! ### The compositional rules -/

theorem faultStrict_pure {α} (a : α) : FaultStrict (pure a : F α) := .pure a
theorem faultStrict_lift {α} (r : Res α) : FaultStrict (F.lift r) := .lift r
theorem faultStrict_fail {α} (e : Err) : FaultStrict (F.fail e : F α) := .fail e
theorem faultStrict_getVol : FaultStrict F.getVol := .getVol
theorem faultStrict_modifyVol (f : FatVolume → FatVolume) : FaultStrict (F.modifyVol f) := .modifyVol f

/-- Sequencing: when `m` returned `ok`, nothing failed inside `m`, so a failure of the whole
happened in the continuation. -/
theorem faultStrict_bind {α β} {m : F α} {f : α → F β} (hm : FaultStrict m) (hf : ∀ a, FaultStrict (f a)) :
    FaultStrict (m >>= f) := .bind hm hf

/-- The Rust `match m { Ok(..) => .., Err(Error::EndOfFile) => .., Err(e) => return Err(e) }`:
if `m` is strict, every arm is strict and the arm taken for `DeviceError` returns `DeviceError`
(in `Fat.lean` it is always `other => F.lift other` / `F.lift (other.bind _)`), the whole is strict:
the arms for `EndOfFile`, `NotEnoughSpace`, `NotFound` are entered only when nothing failed in `m`. -/
theorem faultStrict_attempt_bind {α β} {m : F α} {k : Res α → F β}
    (hm : FaultStrict m) (hk : ∀ r, FaultStrict (k r))
    (hdev : ∀ s, (k (.err .DeviceError) s).1 = .err .DeviceError) :
    FaultStrict (F.attempt m >>= k) := .attempt_bind hm hk hdev

/-- `withVol` lifts both notions to the manager. -/
theorem withVol_reported {α} (i : Nat) (f : F α) :
    (FaultStrict f → MStrict (withVol i f)) ∧ (FaultWeak f → FaultReported (withVol i f)) :=
  ⟨MStrict.withVol i, FaultReported.withVol i⟩

/-! ### The FAT engine -/

/-- Every function of `Sdmmc.Model.Fat`, for all arguments (the recursive ones for every fuel):
a device failure during the call surfaces as `DeviceError`.  `make_dir` satisfies the weaker
form: its clean-up (`let _ = free_cluster_chain(..)`) drops its own outcome and the original
error of `write_new_directory_entry` is returned. -/
theorem fat_fault_strict :
    (∀ c n, FaultStrict (updateFat c n)) ∧
    (∀ c, FaultStrict (nextCluster c)) ∧
    (∀ fuel cur endC, FaultStrict (findNextFreeCluster fuel cur endC)) ∧
    (∀ a b, FaultStrict (findNextFree a b)) ∧
    (∀ n first, FaultStrict (zeroBlocks n first)) ∧
    (∀ prev zero, FaultStrict (allocCluster prev zero)) ∧
    (∀ fuel next, FaultStrict (truncateLoop fuel next)) ∧
    (∀ c, FaultStrict (truncateClusterChain c)) ∧
    (∀ c, FaultStrict (freeClusterChain c)) ∧
    FaultStrict updateInfoSector ∧
    (∀ e, FaultStrict (writeEntryToDisk e)) ∧
    (∀ n b, FaultStrict (iterateBlocks n b)) ∧
    (∀ fuel w, FaultStrict (iterateWalk fuel w)) ∧
    (∀ d, FaultStrict (iterateRaw d)) ∧
    (∀ name n b, FaultStrict (findBlocks name n b)) ∧
    (∀ name fuel w, FaultStrict (findWalk name fuel w)) ∧
    (∀ d name, FaultStrict (Fat.findDirectoryEntry d name)) ∧
    (∀ name n b, FaultStrict (deleteBlocks name n b)) ∧
    (∀ name fuel w, FaultStrict (deleteWalk name fuel w)) ∧
    (∀ d name, FaultStrict (deleteDirectoryEntry d name)) ∧
    (∀ name att fc now n b, FaultStrict (writeNewBlocks name att fc now n b)) ∧
    (∀ name att fc now fuel w, FaultStrict (writeNewWalk name att fc now fuel w)) ∧
    (∀ d name att fc now, FaultStrict (writeNewDirectoryEntry d name att fc now)) ∧
    (∀ parent sfn att now, FaultWeak (makeDir parent sfn att now)) :=
  Lemmas.Fault.fat_fault_strict

/-- `failed` never decreases in the FAT engine. -/
theorem fat_fault_mono :
    (∀ c n, FaultMono (updateFat c n)) ∧
    (∀ c, FaultMono (nextCluster c)) ∧
    (∀ a b, FaultMono (findNextFree a b)) ∧
    (∀ n first, FaultMono (zeroBlocks n first)) ∧
    (∀ prev zero, FaultMono (allocCluster prev zero)) ∧
    (∀ c, FaultMono (truncateClusterChain c)) ∧
    (∀ c, FaultMono (freeClusterChain c)) ∧
    FaultMono updateInfoSector ∧
    (∀ e, FaultMono (writeEntryToDisk e)) ∧
    (∀ d, FaultMono (iterateRaw d)) ∧
    (∀ d name, FaultMono (Fat.findDirectoryEntry d name)) ∧
    (∀ d name, FaultMono (deleteDirectoryEntry d name)) ∧
    (∀ d name att fc now, FaultMono (writeNewDirectoryEntry d name att fc now)) ∧
    (∀ parent sfn att now, FaultMono (makeDir parent sfn att now)) :=
  Lemmas.Fault.fat_fault_mono

/-- `find_data_on_disk` hands its outcome back next to the advanced position: a device failure
shows as the inner `DeviceError`, and the function itself never returns `Err`. -/
theorem findDataOnDisk_fault (fileStart off : Nat) (start : Nat × Nat) (s : FS) :
    ((findDataOnDisk fileStart off start s).2.dev.failed ≠ s.dev.failed →
      ∃ st, (findDataOnDisk fileStart off start s).1 = .ok (st, .err .DeviceError)) ∧
    (∀ e, (findDataOnDisk fileStart off start s).1 ≠ .err e) :=
  ⟨findDataOnDisk_inner fileStart off start s, findDataOnDisk_noErr fileStart off start s⟩

/-! ### The manager -/

/-- Every public method reports device failures.  `iterate_dir_lfn`'s callback fold (`lfnFold`)
does no device access; `close_file` returns the flush result although it removes the handle;
`write` may convert the error (`alloc_cluster(..).is_err() → DiskFull`) — still an error. -/
theorem api_fault_reported :
    (∀ i, FaultReported (openRawVolume i)) ∧
    (∀ v, FaultReported (openRootDir v)) ∧
    (∀ d name, FaultReported (openDir d name)) ∧
    (∀ d, FaultReported (closeDir d)) ∧
    (∀ v, FaultReported (closeVolume v)) ∧
    (∀ d name, MStrict (Model.findDirectoryEntry d name)) ∧
    (∀ d, MStrict (iterateDir d)) ∧
    (∀ d n, MStrict (iterateDirLfn d n)) ∧
    (∀ d name mode, FaultReported (openFileInDir d name mode)) ∧
    (∀ d name, FaultReported (deleteFileInDir d name)) ∧
    (∀ d name, FaultReported (makeDirInDir d name)) ∧
    (∀ f n, FaultReported (Model.read f n)) ∧
    (∀ f buf, FaultReported (write f buf)) ∧
    (∀ f, MStrict (flushFile f)) ∧
    (∀ f, FaultReported (closeFile f)) ∧
    (∀ v, FaultReported (getRootVolumeLabel v)) ∧
    (∀ f, MStrict (fileEof f)) ∧ (∀ f, MStrict (fileLength f)) ∧ (∀ f, MStrict (fileOffset f)) ∧
    (∀ f n, MStrict (fileSeekFromStart f n)) ∧ (∀ f n, MStrict (fileSeekFromCurrent f n)) ∧
    (∀ f n, MStrict (fileSeekFromEnd f n)) :=
  ⟨openRawVolume_reported, openRootDir_reported, openDir_reported, closeDir_reported, closeVolume_reported,
   findDirectoryEntry_mstrict, iterateDir_mstrict, iterateDirLfn_mstrict, openFileInDir_reported,
   deleteFileInDir_reported, makeDirInDir_reported, read_reported, write_reported, flushFile_mstrict,
   closeFile_reported, getRootVolumeLabel_reported, fileEof_mstrict, fileLength_mstrict, fileOffset_mstrict,
   fileSeekFromStart_mstrict, fileSeekFromCurrent_mstrict, fileSeekFromEnd_mstrict⟩

/-- **Main theorem.**  For every state, every fault sequence and every operation: if a device
call failed during the API call, the call returned an error — never `Ok` (hence never a
fabricated answer such as an empty or truncated listing), never a panic, never a hang
(`panic` and `diverged` are outcomes of `Res` distinct from `err`). -/
theorem fault_reported (s : Mgr) (op : Op) (h : (step s op).1.dev.failed ≠ s.dev.failed) :
    ∃ e, (step s op).2.result = .err e :=
  step_reported s op h

/-- `failed` never decreases: `failed ≠` in `fault_reported` means "at least one device call of
this API call failed". -/
theorem failed_monotone (s : Mgr) (op : Op) : s.dev.failed ≤ (step s op).1.dev.failed :=
  step_failed_mono s op

/-! ### Handles after a failed call -/

/-- The open handles: volumes, directories, files (`Lemmas.Fault.handles`). -/
theorem handles_def (s : Mgr) :
    handles s = (s.vols.map (·.rawVolume), s.dirs.map (·.rawDirectory), s.files.map (·.rawFile)) := rfl

/-- Every operation other than `closeFile`: whenever the call does not return `Ok` — in
particular when it returns `DeviceError` — the three tables hold exactly the handles they held
before, so every handle can still be used and closed (`openFileInDir`, `openDir`, … push only on
success; `closeDir`/`closeVolume` remove only on success; `get_root_volume_label` closes the
directory it opened on every path). -/
theorem handles_survive_fault (s : Mgr) (op : Op) (hop : ∀ f, op ≠ .closeFile f)
    (hres : ∀ p, (step s op).2.result ≠ .ok p) : handles (step s op).1 = handles s :=
  step_hfail s op hop hres

/-- `closeFile f` on an open handle whose flush fails: the error is returned *and* the file
handle is removed (`Vec::swap_remove` at its index) — the caller must not use it again — while
the volume and directory handles stay. -/
theorem closeFile_fault (s : Mgr) (f i : Nat) (hl : s.locked = false)
    (hi : s.files.findIdx? (fun x => decide (x.rawFile = f)) = some i) :
    (∀ e, (flushFile f (resetLogs s)).1 = .err e → (step s (.closeFile f)).2.result = .err e) ∧
    handles (step s (.closeFile f)).1 = ((handles s).1, (handles s).2.1, swapRemove (handles s).2.2 i) :=
  step_closeFile s f i hl hi

/-- `swap_remove` at a valid index removes exactly one element. -/
theorem swapRemove_length {α} (l : List α) (i : Nat) (h : i < l.length) : (swapRemove l i).length + 1 = l.length :=
  Lemmas.Fault.swapRemove_length l i h

/-! ### Retrying -/

/-- A failed `read` leaves the offset of every open file — in particular of the file read —
unchanged (the `while` loop restores `start_offset` on both error paths; `find_data_on_disk`
never returns `Err` at the outer level, so the unrestored arm is not taken with an error). -/
theorem read_retry_offset (s : Mgr) (f n : Nat) (e : Err) (h : (Model.read f n s).1 = .err e) :
    (Model.read f n s).2.files.map (fun x => (x.rawFile, x.currentOffset)) =
      s.files.map (fun x => (x.rawFile, x.currentOffset)) :=
  read_err_offsets f n s e h

/-- The read-only operations: everything except `closeVolume`, `openFile`, `write`, `flush`,
`closeFile`, `delete`, `mkdir`. -/
theorem readOnlyOp_def (op : Op) : readOnlyOp op = true ↔
    (∀ v, op ≠ .closeVolume v) ∧ (∀ d n m, op ≠ .openFile d n m) ∧ (∀ f b, op ≠ .write f b) ∧
    (∀ f, op ≠ .flush f) ∧ (∀ f, op ≠ .closeFile f) ∧ (∀ d n, op ≠ .delete d n) ∧ (∀ d n, op ≠ .mkdir d n) := by
  cases op <;> simp [readOnlyOp]

/-- `read`, `find`, `list`, `listLfn`, `openDir`, `length`/`offset`/`eof` (and `openVolume`,
`openRoot`, `closeDir`, the seeks, `hasOpen`, `label`) never issue a device write and never change
the medium — with or without faults: a failed read-only call leaves the medium untouched and
a fault-free retry sees the same medium. -/
theorem readonly_ops_write_nothing (s : Mgr) (op : Op) (h : readOnlyOp op = true) :
    (step s op).1.dev.disk = s.dev.disk ∧ (step s op).2.writes = [] :=
  step_readonly_nowrite s op h

/-- `MCoh s`: the one-block cache is coherent with the medium. -/
theorem mCoh_def (s : Mgr) : MCoh s ↔ ∀ i, s.cache.tag = some i → s.cache.blk = s.dev.disk.get i := Iff.rfl

/-- A read-only call — failed or not — keeps the cache coherent with the medium: whatever a
failing device read scribbled into the buffer is never tagged, hence never served to the retry. -/
theorem readonly_ops_keep_cache_coherent (s : Mgr) (op : Op) (h : readOnlyOp op = true) (hc : MCoh s) :
    MCoh (step s op).1 :=
  step_readonly_coherent s op h hc

/-- **After ANY call — all 24 operations, failed or not, under any fault schedule — the cache is coherent with the
medium** if it was before: a tagged buffer holds what the medium holds at that block.  (A failed device read clears
the tag before the device is called; a failed write-back clears it afterwards; between the two, inside one engine
function, the buffer is modified but every engine function writes it back — or drops it — before it returns.) -/
theorem cache_coherent_after_any_call (s : Mgr) (op : Op) (hc : MCoh s) : MCoh (step s op).1 :=
  Lemmas.FaultCoh.step_coherent s op hc

/-! ### Non-vacuity: a concrete state in which the faults fire -/

def vol16 : FatVolume :=
  { lbaStart := 0, numBlocks := 64, name := [], blocksPerCluster := 1, firstDataBlock := 4, fatStart := 1,
    secondFatStart := none, freeClustersCount := none, nextFreeCluster := none, clusterCount := 8,
    fatType := .fat16, rootEntriesCount := 16, firstRootDirBlock := 3, infoLocation := 0, firstRootDirCluster := 0 }

def entryA : DirEntry :=
  { name := [65,32,32,32,32,32,32,32,84,88,84].map UInt8.ofNat, mtime := default, ctime := default,
    attributes := 32, cluster := 2, size := 5, entryBlock := 3, entryOffset := 0 }

def fileA : FileInfo :=
  { rawFile := 7, rawVolume := 0, curClusterOff := 0, curCluster := 2, currentOffset := 0,
    mode := .ReadWriteAppend, entry := entryA, dirty := true }

/-- One volume, the root directory (handle 1) and one dirty file (handle 7) open; the device
fails its next call. -/
def s0 : Mgr :=
  { dev := { disk := Disk.empty, faults := [0] }, nextId := 8,
    vols := [{ rawVolume := 0, idx := 0, vol := vol16 }],
    dirs := [{ rawDirectory := 1, rawVolume := 0, cluster := Gen.CLUSTER_ROOT_DIR }],
    files := [fileA], maxVols := 1, maxDirs := 4, maxFiles := 4 }

-- the hypothesis of `fault_reported` holds for a listing, a read, a write and a mkdir …
example : (step s0 (.list 1)).1.dev.failed ≠ s0.dev.failed := by decide
example : (step s0 (.read 7 5)).1.dev.failed ≠ s0.dev.failed := by decide
example : (step s0 (.write 7 [1, 2, 3])).1.dev.failed ≠ s0.dev.failed := by decide
example : (step s0 (.mkdir 1 [68])).1.dev.failed ≠ s0.dev.failed := by decide
-- … and the result is the error, not an empty listing / a short read
example : (step s0 (.list 1)).2.result = .err .DeviceError := by rfl
example : (step s0 (.read 7 5)).2.result = .err .DeviceError := by rfl
-- `handles_survive_fault`: the failed calls are not `Ok`, the tables are as before
example : ∀ p, (step s0 (.read 7 5)).2.result ≠ .ok p := by intro p h; cases h
example : handles (step s0 (.read 7 5)).1 = ([0], [1], [7]) := by rfl
-- `closeFile_fault`: the flush fails, the error is returned and handle 7 is gone
example : s0.files.findIdx? (fun x => decide (x.rawFile = 7)) = some 0 := by rfl
example : (flushFile 7 (resetLogs s0)).1 = .err .DeviceError := by rfl
example : (step s0 (.closeFile 7)).2.result = .err .DeviceError := by rfl
example : handles (step s0 (.closeFile 7)).1 = ([0], [1], []) := by rfl
-- `read_retry_offset` / `cacheRead_fail_tag`: offset still 0, cache tag empty after the failed read
example : (Model.read 7 5 s0).1 = .err .DeviceError := by rfl
example : (step s0 (.read 7 5)).1.files.map (·.currentOffset) = [0] := by rfl
example : (step s0 (.read 7 5)).1.cache.tag = none := by rfl
-- `readonly_ops_write_nothing` applies to them
example : readOnlyOp (.read 7 5) = true ∧ readOnlyOp (.list 1) = true := by decide
example : MCoh s0 := by intro i h; cases h
-- a `FaultStrict` function on a state where the fault fires
example : (nextCluster 2 { dev := s0.dev, cache := {}, vol := vol16 }).2.dev.failed ≠ s0.dev.failed := by decide
example : (nextCluster 2 { dev := s0.dev, cache := {}, vol := vol16 }).1 = .err .DeviceError := by rfl

end Sdmmc.Props.C11
