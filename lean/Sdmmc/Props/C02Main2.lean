/-
C02 — HEADLINE THEOREM, second version: ANY NUMBER of open volumes on one device.

PROPERTY (verbatim from `properties.jsonl`).
statement:
  "Once a file has been flushed or closed, a completely fresh mount of the raw block device - by this library and by
  an independent FAT reader written from the specification - shows that file under its name with exactly the flushed
  length and contents, the directory/file attribute, a creation time that never changes after creation and a
  modification time equal to the clock value at the last write. Every file and directory that the history did not
  touch is byte-for-byte and entry-for-entry unchanged."
quantifier:
  "all histories of create/write/truncate/append/delete/mkdir ending in flush or close, all FAT16/FAT32 geometries
  and pre-populated trees (nested directories, long-name entries, deleted slots, fragmented chains), remount taken
  at every quiescent point"

WHAT CHANGED AGAINST `Props/C02Main.lean`.  `C02_main_partial` there is about a manager with ONE open volume.  Here the manager
has ANY NUMBER of open volumes (one block cache, one handle generator, global table limits); the remount is taken at every
point of every history at which THE VOLUME READ BACK has no open file — the other volumes may have open, written-to files.
The "(scope) one open volume" item of the gap list of `C02Main` is closed for the clauses (history), (mounts), (tree),
(length), (reader), (spec) and for (untouched) ACROSS volumes (`Props/C02Multi.lean`); the clauses (times) and (untouched)
WITHIN a volume stay one-volume theorems (below: NOT LIFTED).

HOW TO READ `C02_main2_partial`.
* The writer.  `s` satisfies `VolInvNC s ghs` (`Props.C10Multi.volInvNC_def`: C03's invariant for several volumes, identical
  FAT copies, `RawOKN`); `A0` is its abstract counterpart (`AbsN s ghs A0`, `Props.C01Multi`; it exists:
  `Props.C01Multi.abs_exists_multi`): the multi-volume byte-array file system `AbsFsN` (`Spec/AbsFsN.lean`);
  `viewOf A hv` is the ONE-volume abstract file system (`Spec/AbsFs.lean`: per directory the slots `.file m bytes` / `.dir m
  target` / `.deleted` / `.frag`) that volume `hv` is in `A`.  `run s (ops.take k)` runs the first `k` calls of ANY history
  `ops` on any of the volumes; `sk` is the state they leave.
* The volume read back: record `j` (`vj`, ghost `gh0`) of `s`; the medium of `s` mounts its partition `vj.idx` to its
  geometry (`hmnt`, `hsg`); no call among the first `k` is `close_volume vj.rawVolume` (`hno`) — the volume is tracked by its
  raw handle: record indices move when another volume is closed.
* The fresh mount: `t` is ANY manager with empty tables, a fault-free device and a coherent cache on the medium of `sk`
  (`FreshOn`, `Props.C02Fs.freshOn_def`): the raw block device, nothing else.
* Clauses of part I (`∃ ghsk Ak i vi gh w`: ghosts and abstract state of `sk`; the record of the volume in `sk`; what a
  mount of its partition yields):
    (history)   the byte-array model makes the same history with the SAME answers, ending in `Ak` (C01, several volumes);
    (open)      the volume is still open in `sk`: same handle, same partition index, same geometry;
    (mounts)    the medium of `sk` mounts its partition, to the geometry of the volume — DERIVED from the mount at the start;
  and, if the volume has no open file in `sk`, about `viewOf Ak vi.rawVolume`, the tree the model says the volume has:
    (length)    the stored size of every file is the length of its bytes — "exactly the flushed length";
    (spec)      `IndependentShows` (`Props.C02Main.independentShows_def`): the independent reader `Spec.Fs` finds every file
                entry at the same index with the same name, attribute byte and size, and returns its bytes ((H1) `NoOne`);
    (tree)      `open_volume vi.idx` on any fresh `t` answers its first handle, and the mounted manager's abstract tree has
                exactly the directories and slots of that view — every entry (name, attribute byte, both time stamps,
                size), every file's bytes;
    (reader)    `FreshShows` (`Props.C02Main.freshShows_def`): this library as reader — `open_volume`, `open_root_dir`,
                `open_dir` along any path, `open_file_in_dir`, `file_length`, `read n`, `iterate_dir` — answers the handles in
                order, `m.size`, `bytes.take n`, and exactly the listing of the directory.
* Part II, (untouched) across volumes: after a history NONE of whose calls works on the volume `hv` (`ForeignRun`,
  `Props.C01Multi`: every call's handle leads to another volume record or to none) — whatever it does on the other volumes —,
  a fresh mount shows the tree `hv` had AT THE START: (length), (spec), (tree), (reader) for `viewOf A0 hv`.

NOT LIFTED (use the one-volume `Props.C02Main.C02_main_partial` for a volume that is the only one open):
* (times) — "a creation time that never changes after creation and a modification time equal to the clock value at the last
  write" — and (untouched) for single SLOTS within a volume are statements about histories WITH CLOCK MOVEMENTS (`runClk`,
  `ghostRun`, `GInv`) of the one-volume abstract file system; `absRunN` has no `tick`, and between two calls on a volume the
  calls on other volumes change what its view shares (next handle, open-directory records), so the view does not make a
  one-volume run.  Available per call: `Props.C02Multi.targeted_call_keeps_ghost` (a call addressed to the volume IS a
  one-volume event on its view and keeps the slot ghost true); per volume: the stored entries a fresh mount shows — times
  included — are those of the model's view (tree).
* a remount while a flushed file of THAT volume is still open: `Props.C09Main2.C09_main2_partial` at the crash point `n = 0`.
* Fault-free device.

HYPOTHESES: `VolInvNC` (every fresh manager: `Props.C10Multi.fresh_manager`; kept by every history); `CoveredNRun` (about
`open_volume` calls that succeed only), `FreshRun` (about `get_root_volume_label` only) — as in `Props.C01Multi`; the mount at
the start; inside `FreshShows`: the reader's handle generator does not wrap and its tables have room.

STATUS: PARTIAL (see NOT LIFTED).
-/
import Sdmmc.Props.C02Multi
import Sdmmc.Props.C02Main

namespace Sdmmc.Props.C02Main2
open Sdmmc.Model Sdmmc.Model.Fat Sdmmc.Spec.Volume
open Sdmmc.Spec hiding run step NoFault Coherent
open Sdmmc.Spec.AbsFs (AbsFsN viewOf absRunN Meta)
open Sdmmc.Lemmas.VolN (AbsN)
open Sdmmc.Lemmas.AbsFs (Abs FreshOn)
open Sdmmc.Props.C03Multi (CoveredNRun)
open Sdmmc.Props.C01Multi (FreshRun ForeignRun)
open Sdmmc.Props.C02Final (FreshShows IndependentShows)

/-- What a fresh mount shows of the one-volume abstract tree `a`, for the volume record `vi` (ghost `gh`) of the state `sk`:
the clauses (length), (spec), (tree), (reader). -/
structure ShowsTree (sk : Mgr) (vi : VolInfo) (gh : Ghost) (a : Spec.AbsFs.AbsFs) : Prop where
  length : ∀ x, x ∈ a.ids → ∀ (j : Nat) (m : Meta) (bytes : Bytes), (a.slots x)[j]? = some (.file m bytes) → m.size = bytes.length
  spec : IndependentShows sk gh.vol a
  tree : ∀ t, FreshOn sk t → ∃ gh'' a', (step t (.openVolume vi.idx)).2.result = .ok (.handle t.nextId) ∧
    VolInv (step t (.openVolume vi.idx)).1 gh'' ∧ Abs (step t (.openVolume vi.idx)).1 gh'' a' ∧ a'.ids = a.ids ∧
    ∀ h, h ∈ a.ids → a'.slots h = a.slots h
  reader : FreshShows sk vi.idx a

/-- **C02, several open volumes.**  See the header. -/
theorem C02_main2_partial {s : Mgr} {ghs : List Ghost} {A0 : AbsFsN} (hI : VolInvNC s ghs) (hA : AbsN s ghs A0)
    (ops : List Op) (hc : CoveredNRun s ops) (hf : FreshRun s ops) :
    -- I. every prefix, every volume that is not closed on the way
    (∀ (k j : Nat) (vj : VolInfo) (gh0 : Ghost), s.vols[j]? = some vj → ghs[j]? = some gh0 →
      (∀ op, op ∈ ops.take k → op ≠ .closeVolume vj.rawVolume) →
      ∀ vm, mountPure (s.dev.disk.get 0) vj.idx s.dev.disk.get = .ok vm → SameGeom vm gh0.vol →
      ∃ (ghsk : List Ghost) (Ak : AbsFsN) (i : Nat) (vi : VolInfo) (gh : Ghost) (w : FatVolume),
        -- (history)
        (absRunN A0 (ops.take k) ((run s (ops.take k)).2.map (·.result)) Ak ∧ VolInvN (run s (ops.take k)).1 ghsk ∧
          MirrorN (run s (ops.take k)).1 ghsk ∧ AbsN (run s (ops.take k)).1 ghsk Ak) ∧
        -- (open)
        ((run s (ops.take k)).1.vols[i]? = some vi ∧ ghsk[i]? = some gh ∧ vi.rawVolume = vj.rawVolume ∧ vi.idx = vj.idx ∧
          SameGeom gh0.vol gh.vol) ∧
        -- (mounts)
        (mountPure ((run s (ops.take k)).1.dev.disk.get 0) vi.idx (run s (ops.take k)).1.dev.disk.get = .ok w ∧
          SameGeom gh.vol w) ∧
        -- (length) (spec) (tree) (reader)
        (volFiles (run s (ops.take k)).1 vi.rawVolume = [] →
          ShowsTree (run s (ops.take k)).1 vi gh (viewOf Ak vi.rawVolume))) ∧
    -- II. (untouched) across volumes
    (∀ hv, ForeignRun hv s ops → ∃ ghs', VolInvN (run s ops).1 ghs' ∧ MirrorN (run s ops).1 ghs' ∧
      ∀ (i : Nat) (vi : VolInfo) (gh : Ghost), (run s ops).1.vols[i]? = some vi → ghs'[i]? = some gh → vi.rawVolume = hv →
        volFiles (run s ops).1 hv = [] →
        ∀ w, mountPure ((run s ops).1.dev.disk.get 0) vi.idx (run s ops).1.dev.disk.get = .ok w → SameGeom gh.vol w →
          ShowsTree (run s ops).1 vi gh (viewOf A0 hv)) := by
  refine ⟨fun k j vj gh0 hvj hgh0 hno vm hmnt hsg => ?_, fun hv hfo => ?_⟩
  · obtain ⟨ghsk, Ak, i, vi, gh, w, h1, h2, h3, h4⟩ :=
      C02Multi.c02_final_multi_mounts hI hA ops hc hf k hvj hgh0 hno vm hmnt hsg
    exact ⟨ghsk, Ak, i, vi, gh, w, h1, h2, h3, fun hq => let ⟨a, b, c, d⟩ := h4 hq; ⟨a, b, c, d⟩⟩
  · obtain ⟨ghs', h1, h2, h3⟩ := C02Multi.untouched_volume_fresh_mount ops s ghs A0 hI.inv hI.mirror hA hc hf hv hfo
    refine ⟨ghs', h1, h2, fun i vi gh hvi hgh e hq w hw hsg => ?_⟩
    obtain ⟨a, b, c⟩ := h3 i vi gh hvi hgh e hq
    obtain ⟨d, e'⟩ := c w hw hsg
    exact ⟨a, b, d, e'⟩

/-! ### Non-vacuity -/

namespace Example
open Sdmmc.Lemmas.VolExample Sdmmc.Lemmas.VolN.Example2
open Sdmmc.Props.C02Multi.Example (ops3 ops3_covered ops3_fresh)

/-- The two-volume state of `Props.C03Multi` (FAT16 handle 1, FAT32 handle 5; `VolInvNC`: `Props.C10Multi.Example`) and the
history `ops3` of `Props.C02Multi.Example` (a file of the FAT32 volume is opened for appending, written, closed): the
theorem applies for any abstract counterpart of the start state (one exists: `Props.C01Multi.Example.two_volumes_abs`). -/
example (A0 : AbsFsN) (hA0 : AbsN mgr2 ghs2 A0) :=
  C02_main2_partial C10Multi.Example.two_volumes_crash hA0 ops3 ops3_covered ops3_fresh

example : ∃ A0, AbsN mgr2 ghs2 A0 := C01Multi.Example.two_volumes_abs

/-- Evaluated (`Props.C02Multi.Example.ops3_mid`, `ops3_final`): at prefix 2 the FAT32 volume has an open DIRTY file, the
FAT16 volume has none — and (length), (spec), (reader) hold for the FAT16 volume there.  (The hand-built two-volume medium
has no partition table, so the mount at the start stays a hypothesis in these instances; a medium that mounts, with the
evaluated reader: `Props.C02Fs.Example.fresh_reads_evaluated`; two mounting partitions: `Props/Slow/C09MultiEx.lean`.) -/
example := C02Multi.Example.ops3_mid
example := C02Multi.Example.ops3_final

end Example

end Sdmmc.Props.C02Main2
