/-
C19, tie to the source text: the loops of `crc7` and `crc16` (sdcard/proto.rs), machine-translated
as folds over the byte list in `Sdmmc.Gen.Funs`, are equal to the hand-written `BitVec` model in
`Model/Crc.lean`, for every byte list.
-/
import Sdmmc.Gen.Funs
import Sdmmc.Model.Crc
import Sdmmc.Lemmas.GenBits

namespace Sdmmc.Props.C19Gen

open Sdmmc Sdmmc.Model Sdmmc.Gen

/-- A byte of the translated functions read as the model's `BitVec 8`. -/
def toBV (b : UInt8) : BitVec 8 := BitVec.ofNat 8 b.toNat

/-- Two folds whose states stay related step by step end in related states. -/
theorem foldl_rel {α β γ δ : Type} (f : α → γ → α) (g : β → δ → β) (t : γ → δ) (R : α → β → Prop)
    (hstep : ∀ a b c, R a b → R (f a c) (g b (t c))) :
    ∀ (l : List γ) (a : α) (b : β), R a b → R (List.foldl f a l) (List.foldl g b (l.map t)) := by
  intro l
  induction l with
  | nil => intro a b h; exact h
  | cons c l ih => intro a b h; exact ih _ _ (hstep a b c h)

/-- The body of the inner `for _bit in 0..8` loop, as it stands in the translation (state `(crc, d)`). -/
def bitStep (st : Nat × Nat) (_bit : Nat) : Nat × Nat :=
  let crc := st.1
  let d := st.2
  let crc := (crc <<< 1) % 256
  let crc := if ((d &&& 128) ^^^ (crc &&& 128)) ≠ 0 then crc ^^^ 9 else crc
  let d := (d <<< 1) % 256
  (crc, d)

/-- The body of the outer `for mut d in data` loop, as it stands in the translation. -/
def byteStep (crc : Nat) (d : UInt8) : Nat := (List.foldl bitStep (crc, d.toNat) (List.range' 0 8)).1

/-- The translation IS these two loops (checked by unfolding: an edit of the Rust loop breaks this `rfl`). -/
theorem gen_crc7_shape (data : List UInt8) :
    Funs.crc7 data = ((List.foldl byteStep 0 data <<< 1) % 256) ||| 1 := rfl

theorem bitStep_rel (c dv : BitVec 8) (i : Nat) :
    bitStep (c.toNat, dv.toNat) i =
      ((Model.crc7BitStep (c, dv)).1.toNat, (Model.crc7BitStep (c, dv)).2.toNat) := by
  unfold bitStep Model.crc7BitStep
  simp only []
  have hcond : ((((dv &&& 0x80#8) ^^^ ((c <<< 1) &&& 0x80#8)) != 0#8) = true) ↔
      ((dv.toNat &&& 128) ^^^ ((c.toNat <<< 1) % 256 &&& 128)) ≠ 0 := by
    rw [bne_iff_ne, ne_eq, ne_eq, ← BitVec.toNat_inj]
    simp only [BitVec.toNat_xor, BitVec.toNat_and, BitVec.toNat_shiftLeft, BitVec.toNat_ofNat, Nat.reducePow,
      Nat.reduceMod]
  by_cases h : ((dv.toNat &&& 128) ^^^ ((c.toNat <<< 1) % 256 &&& 128)) ≠ 0
  · rw [if_pos h, if_pos (hcond.mpr h)]
    simp only [BitVec.toNat_xor, BitVec.toNat_shiftLeft, BitVec.toNat_ofNat, crc7Poly, Nat.reducePow, Nat.reduceMod]
  · rw [if_neg h, if_neg (fun hh => h (hcond.mp hh))]
    simp only [BitVec.toNat_shiftLeft, Nat.reducePow]

theorem byteStep_rel (c : BitVec 8) (d : UInt8) :
    byteStep c.toNat d = (Model.crc7ByteStep c (toBV d)).toNat := by
  unfold byteStep Model.crc7ByteStep
  have hd : d.toNat = (toBV d).toNat := by
    unfold toBV
    rw [BitVec.toNat_ofNat, Nat.mod_eq_of_lt (UInt8.toNat_lt d)]
  rw [hd, show List.range' 0 8 = [0, 1, 2, 3, 4, 5, 6, 7] from by decide]
  simp only [List.foldl, bitStep_rel]

/-- `crc7` as translated from the source (outer fold over the bytes, inner fold over the eight
bit positions, final `(crc << 1) | 1`) equals the model's `crc7`, for every byte list. -/
theorem crc7_eq (data : List UInt8) : Funs.crc7 data = (Model.crc7 (data.map toBV)).toNat := by
  rw [gen_crc7_shape]
  unfold Model.crc7 Model.crc7Raw
  have key : List.foldl byteStep 0 data = (List.foldl Model.crc7ByteStep 0#8 (data.map toBV)).toNat :=
    foldl_rel byteStep _ toBV (fun n b => n = b.toNat)
      (fun a b c h => by subst h; exact byteStep_rel b c) data 0 0#8 rfl
  rw [key]
  simp only [BitVec.toNat_or, BitVec.toNat_shiftLeft, BitVec.toNat_ofNat, Nat.reducePow, Nat.reduceMod]

/-- `crc16` as translated from the source equals the model's `crc16`, for every byte list. -/
theorem crc16_eq (data : List UInt8) : Funs.crc16 data = (Model.crc16 (data.map toBV)).toNat := by
  unfold Funs.crc16 Model.crc16
  simp only []
  refine foldl_rel _ Model.crc16Step toBV (fun (n : Nat) (b : BitVec 16) => n = b.toNat) ?step data 0 0#16 rfl
  intro a b c h
  subst h
  have hc : c.toNat < 256 := UInt8.toNat_lt c
  simp only [Model.crc16Step, toBV, crc16ShrA, crc16ShlB, crc16ShlC, BitVec.toNat_xor, BitVec.toNat_or,
    BitVec.toNat_and, BitVec.toNat_shiftLeft, BitVec.toNat_ushiftRight, BitVec.toNat_setWidth, BitVec.toNat_ofNat,
    Nat.reducePow, Nat.reduceMod]
  rw [Nat.mod_eq_of_lt (show c.toNat % 256 < 65536 by omega), Nat.mod_eq_of_lt hc]

/-- Evaluated: CMD0's five bytes give the well-known `0x95`; the CRC16 of `"123456789"` is `0x31C3`. -/
example : Funs.crc7 [0x40, 0, 0, 0, 0] = 0x95 := by decide +kernel
example : Funs.crc16 [0x31, 0x32, 0x33, 0x34, 0x35, 0x36, 0x37, 0x38, 0x39] = 0x31C3 := by decide +kernel

end Sdmmc.Props.C19Gen
