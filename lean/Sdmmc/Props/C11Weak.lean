/-
C11 — CALLS ON OPEN FILES FROM THE WEAK INVARIANT: towards the last exclusion of `Props/C11Main2.lean`.

`Props/C11HistD` / `C11Main2` exclude ONE call: an `open_file_in_dir` that keeps the stored size, of a closed file whose entry
is DAMAGED (the residue of a device failure inside a truncating open).  That open succeeds and hands out a record whose size
exceeds its chain; the state then satisfies only the WEAK invariant `FaultInvE` (`Spec/VolumeFaultE.lean`: `FileOK.size_fits`
given up).  What do calls on such a handle do?

PROVED HERE, from `FaultInvE s gh X` — ANY state of the weak invariant: any number of open files whose records say more
than their chains hold —, under ANY fault schedule, for ANY handle:
* `file_read_only_call_from_weak_invariant` — `read`, `seek_from_start` / `_current` / `_end`, `length`, `offset`,
  `is_eof`: the call answers `Ok` or an error — NEVER a panic or a hang: the `assert!(to_copy != 0)` of `read` cannot fire,
  the cluster walk stops at the end-of-chain mark with `EndOfFile` — and `FaultInvE` holds again WITH THE SAME ghost and
  lost chains; the medium is untouched.  (A `read` that crosses the end of the chain answers `EndOfFile` and restores the
  offset; one that stays inside answers the bytes: `Props.C11HistT.Example.damaged_read`, evaluated.)
* `close_unmodified_from_weak_invariant` — `close_file` of a file that was not written (`dirty = false`: nothing to flush):
  `Ok`, the handle leaves the table, `FaultInvE` again with the same ghost and lost chains, the medium untouched.
  Closing the handle of the damaged file gives back the state before it was opened, up to the handle counter, the cache and
  the device counters — evaluated: `Example.damaged_handle_excursion` (`VolInvS 188` again).

NOT PROVED (what `NotDamagedRun` still stands for): calls on OTHER handles, and mutating calls (`write`, `flush`, `close_file`
of a MODIFIED file) on such a handle, from a state in which such a handle is open — the strong lemmas (`Lemmas/VolD*`) need
`FileOK` of every open file; and that the excluded open itself leaves `FaultInvE` (evaluated only).  A history theorem without
`NotDamagedRun` needs the hybrid invariant "`VolInvS k` except that some UNMODIFIED handles are loose" through all 24 calls.
-/
import Sdmmc.Spec.VolumeFaultE
import Sdmmc.Lemmas.LooseApi
import Sdmmc.Props.C11HistD

namespace Sdmmc.Props.C11Weak
open Sdmmc.Model Sdmmc.Model.Fat Sdmmc.Spec.Volume
open Sdmmc.Spec hiding run step NoFault Coherent

/-- `read`, the three seeks, `length`, `offset`, `is_eof`. -/
def fileReadOnlyOp : Op → Bool
  | .read _ _ | .seekStart _ _ | .seekCur _ _ | .seekEnd _ _ | .length _ | .offset _ | .eof _ => true
  | _ => false

theorem fileReadOnlyOp_iff (op : Op) : fileReadOnlyOp op = Lemmas.Loose.fileRO op := by cases op <;> rfl

/-- **`file_read_only_call_from_weak_invariant`.**  From the weak invariant, whatever is scheduled, on any handle: a `read`,
a seek or an observer answers `Ok` or an error, leaves the weak invariant — same ghost, same lost chains —, and does not
touch the medium or the volume table. -/
theorem file_read_only_call_from_weak_invariant {s : Mgr} {gh : Ghost} {X : List (List Nat)} (hI : FaultInvE s gh X) (op : Op)
    (hop : fileReadOnlyOp op = true) :
    Clean (step s op).2.result ∧ FaultInvE (step s op).1 gh X ∧ (step s op).1.dev.disk = s.dev.disk ∧
    (step s op).1.vols = s.vols := by
  obtain ⟨h1, h2⟩ := Lemmas.Loose.step_fileRO_weak hI.inv op (by rw [← fileReadOnlyOp_iff]; exact hop)
  exact ⟨h1, ⟨h2.inv, Lemmas.Loose.rawAll_weakOut h2 hI.entries⟩, h2.disk, h2.vols⟩

/-- **`close_unmodified_from_weak_invariant`.**  From the weak invariant: `close_file` of a file that was not written
answers `Ok` (an unknown handle: `BadHandle`), the handle leaves the table, the weak invariant holds again — same ghost,
same lost chains —, the medium is untouched. -/
theorem close_unmodified_from_weak_invariant {s : Mgr} {gh : Ghost} {X : List (List Nat)} (hI : FaultInvE s gh X) (file : Nat)
    (hclean : ∀ f, f ∈ s.files → f.rawFile = file → f.dirty = false) :
    Clean (step s (.closeFile file)).2.result ∧ FaultInvE (step s (.closeFile file)).1 gh X ∧
    (step s (.closeFile file)).1.dev.disk = s.dev.disk ∧
    (file ∈ s.files.map (·.rawFile) → (step s (.closeFile file)).2.result = .ok .unit ∧
      (step s (.closeFile file)).1.files.length + 1 = s.files.length) := by
  obtain ⟨h1, h2, h3⟩ := Lemmas.Loose.step_closeFile_weak hI.inv file hclean
  exact ⟨h1, ⟨h2.inv, Lemmas.Loose.rawAll_weakOut h2 hI.entries⟩, h2.disk, h3⟩

/-- Any sequence of such calls. -/
theorem file_read_only_history_from_weak_invariant : ∀ (ops : List Op) {s : Mgr} {gh : Ghost} {X : List (List Nat)},
    FaultInvE s gh X → (∀ op, op ∈ ops → fileReadOnlyOp op = true) →
    FaultInvE (run s ops).1 gh X ∧ (run s ops).1.dev.disk = s.dev.disk ∧ ∀ o, o ∈ (run s ops).2 → Clean o.result
  | [], _, _, _, hI, _ => ⟨hI, rfl, fun o ho => by cases ho⟩
  | op :: ops, s, gh, X, hI, h => by
    obtain ⟨h1, h2, h3, _⟩ := file_read_only_call_from_weak_invariant hI op (h op List.mem_cons_self)
    obtain ⟨a, b, c⟩ := file_read_only_history_from_weak_invariant ops h2 fun o ho => h o (List.mem_cons_of_mem _ ho)
    rw [Lemmas.WriteSetInv.run_cons]
    refine ⟨a, b.trans h3, fun o ho => ?_⟩
    rcases List.mem_cons.1 ho with rfl | ho
    · exact h1
    · exact c o ho

/-! ### The damaged file, opened `ReadOnly` (evaluated, and the theorems instantiated) -/

namespace Example
open Sdmmc.Lemmas.VolExample Sdmmc.Lemmas.VolCheck
open Sdmmc.Lemmas.FaultHist (checkFaultInv checkFaultInv_sound)
open Sdmmc.Lemmas.VolD (checkVolInvS)
open Sdmmc.Props.C11Hist.Example (ghOf nameA)
open Sdmmc.Props.C11HistT.Example (dmg outcome)

/-- The state after the excluded call: `A.TXT` (700 bytes stored, chain `[2]`) opened `ReadOnly`, handle 11. -/
def sLoose : Mgr := (step (dmg 7) (.openFile 2 nameA .ReadOnly)).1

/-- It satisfies the weak invariant (checker) and no entry is ahead of its record … -/
theorem sLoose_faultInvE : FaultInvE sLoose (ghOf sLoose [[2], [4], [5], [6]]) [] :=
  ⟨checkFaultInv_sound _ _ _ 4294967296 (by decide +kernel), of_decide_eq_true (by decide +kernel)⟩

/-- … so every sequence of reads, seeks and observers on the damaged handle — and on `E.DAT`, handle 4 — keeps it
(the theorem, instantiated) … -/
example (ops : List Op) (h : ∀ op, op ∈ ops → fileReadOnlyOp op = true) :=
  file_read_only_history_from_weak_invariant ops sLoose_faultInvE h

/-- … **the excursion, evaluated**: read 100 bytes (`Ok`), seek to 500, read 50 bytes — across the end of the one-cluster
chain: `EndOfFile` (1), the offset restored —, `offset` (500), `length` (700), close (`Ok`).  While the handle is open `VolInvS`
fails for every slack (`fileOK`); after the close `VolInvS 188` holds again — the state before the open, up to counters. -/
theorem damaged_handle_excursion :
    (run sLoose [.read 11 100, .seekStart 11 500, .read 11 50, .offset 11, .length 11, .closeFile 11]).2.map
      (fun o => outcome o.result) = [0, 0, 1, 0, 0, 0] ∧
    checkVolInvS 188 sLoose (ghOf sLoose [[2], [4], [5], [6]]) [] = false ∧
    checkVolInvS 188 (run sLoose [.read 11 100, .seekStart 11 500, .read 11 50, .offset 11, .length 11, .closeFile 11]).1
      (ghOf sLoose [[2], [4], [5], [6]]) [] = true ∧
    (run sLoose [.read 11 100, .seekStart 11 500, .read 11 50, .offset 11, .length 11, .closeFile 11]).1.files.map (·.rawFile) =
      (dmg 7).files.map (·.rawFile) := by
  refine ⟨?_, ?_, ?_, ?_⟩ <;> decide +kernel

end Example

end Sdmmc.Props.C11Weak
