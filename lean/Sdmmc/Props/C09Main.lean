/-
C09 — HEADLINE THEOREM.

PROPERTY (verbatim from `properties.jsonl`).
statement:
  "Once flush or close of a file has returned success, cutting power after any later block write - during any
  subsequent operation on other files, directories or the volume - and mounting the medium afresh shows that file
  with at least the flushed length and exactly the flushed contents, until the file itself is next modified,
  truncated or deleted."
quantifier:
  "every prefix of the block-write sequence that follows a successful flush/close, over all histories of subsequent
  operations (creates, extends, truncates, deletes, mkdirs in the same and other directories, volume close) and all
  geometries; block writes are assumed atomic and ordered"

HOW TO READ `C09_main`.
* The situation: `s` is a manager state between two calls; `hd` is the handle of the open file `f` (`hidx`, `hf`: the
  first record of the file table with that handle value), which was written to (`f.dirty = true`: otherwise flush / close
  store nothing and there is nothing to speak of).  The file sits in directory number `h` (`0` = root directory, otherwise
  the first cluster), to which the sub-directory entries `ys` lead from the root directory (`PathOn`, `pathOn_def`;
  `ys = []`: a file of the root directory).  The medium of `s` mounts as partition `idx`.
* `call` is `close_file hd`, or `flush_file hd` — the handle is then LEFT OPEN.
* `ops` is ANY history of API calls after `call`; the criterion `Untouched` (`untouched_def`, `targets_def`) is "until the
  file itself is next modified, truncated or deleted": no call of `ops` is — in the state it is issued in — an
  `open_file_in_dir` of a spelling of the file's name in its directory in a TRUNCATING mode, a `delete_file_in_dir` of
  it, or a `write` through a (not read-only) handle of it.  Everything else is allowed: creating, extending,
  truncating, deleting other files, `mkdir`, in the same and in other directories, growing the directory, reading the
  file, opening it read-only or for append without writing, flushing / closing handles of it AGAIN, closing the volume.
  For `close_file` the purely syntactic `NeverNames` (`neverNames_def`: the LIST of calls contains no `open_file_in_dir`
  in a mode other than `ReadOnly` and no `delete_file_in_dir` of a spelling of the name) suffices.
* The crash point: `crashDisk d ws k` (`Spec/Crash.lean`) is the medium `d` with the first `k` of the block writes `ws`
  applied (block writes atomic and ordered); `(step t op).2.writes` are the block writes of the call `op` issued in state
  `t`, in order.  The theorem speaks of EVERY call `ops[j]` and EVERY `k` (`k = 0`: the boundary before the call, `k ≥`
  the number of writes: after it).
* "Mounting the medium afresh shows that file …": `Shows` (`shows_def`), with `e := f.entry` the flushed entry,
  `cs := chainOf gh.G f.entry.cluster` the file's chain and `fileContent v0 s.dev.disk cs e.size` THE FLUSHED CONTENTS — by
  clause (bytes) exactly the bytes the abstract file system of C01 holds for the file when `call` is issued (what every
  `write` so far stored and `read` returns: `Props.C01Fs`):
    (a) on `dk` the slot still holds the 32 bytes of the flushed entry (name, attributes, times, first cluster, the
        flushed length `e.size`), the file's chain is still `cs`, and its contents are the flushed contents;
    (b) `dk` is crash-consistent (`CrashInv`, property C10) for a record of its tree in which `ys` still lead from the
        root directory to `h`, and the slot is the FIRST entry with the file's name in directory `h` of `dk`;
    (c) `FreshReads` (`freshReads_def`): ANY fresh manager on `dk` (empty tables, any handle counter without wrap) mounts
        partition `idx`, opens the root directory, walks `open_dir` along any spellings of the names of `ys`, opens the
        file `ReadOnly` by any spelling of its name, is told the length `e.size` — the flushed length — and `read`s
        exactly `(flushed contents).take n`, writing nothing.

HYPOTHESES.
* `VolInvC s gh` (`Props.C10Inv.volInvC_def`): the invariant of API histories `VolInv` (C03), identical FAT copies, and
  `RawOK` (the on-disk entry of an open file names no cluster or the file's cluster).  Holds after a mount
  (`Props.C15Fs.mount_establishes_invariant` + `Props.C10Inv.volInvC_of_quiescent`) and is preserved by every covered
  history (`Props.C10Inv.api_history_invariantC`).  `SameGeom v0 gh.vol`: `v0` is the volume record up to the
  allocation hints (`Spec/Volume.lean`).
* `CoveredAllRun v0 s (call :: ops)` (`Props.C03Inv`): restricts only `open_volume` calls that succeed (after a
  `close_volume`: they must re-mount the same partition) — `Props.C03All.coveredAllRun_iff_remountRun`.
* `hm`, `hsg`: the medium mounts when `call` is issued (a fresh mount can only be asked of a medium with a partition
  table; the manager itself does not need one to go on working on an open volume).
* `hnames`: no directory on the path is entered through `.` or `..` entries.
* `flush_file` only: `f.entry.cluster ≠ 0`.  A handle that was written to has no cluster only if its FIRST `write` to an
  empty file failed for lack of space (`write` marks the handle before allocating); the flushed entry is then an empty
  file.  Needed because the proof follows the handle's record through the abstract file system, which does not see
  first clusters.

STATUS: PARTIAL — the theorem is `C09_main_partial` because of the SCOPE, not of a clause:
* every clause of the sentence is proved, at every crash point, for every history, for files of any directory, FAT16 and
  FAT32, any geometry (`WFGeom`, in `VolInv`);
* (scope) ONE open volume: `VolInv` / `VolInvC` describe a manager with at most one open volume.  The crash invariant has
  not been lifted to several volumes on one device (`VolInvN` has no crash counterpart yet); C01/C03/C04/C16 have.
* (flush) the empty-file corner above (`f.entry.cluster ≠ 0`), and no purely SYNTACTIC criterion for the `flush_file` case
  (`Untouched` mentions handle values, known at run time only);
* (reader) the depth of the path is bounded by the reader's directory table (`ys.length + 1 ≤ maxDirs`, as in the crate);
  the independent reader `Spec.Fs` at crash points: `Props.C09Hist.spec_reader_survives_syntactic`.
-/
import Sdmmc.Lemmas.MainC09
import Sdmmc.Props.C09HistEx

namespace Sdmmc.Props.C09Main
open Sdmmc.Model Sdmmc.Model.Fat Sdmmc.Spec.Volume
open Sdmmc.Spec hiding run step NoFault Coherent
open Sdmmc.Props.C03Inv (Covered CoveredAll CoveredAllRun)
open Sdmmc.Props.C09Hist (FreshReads)
open Sdmmc.Lemmas.Survive (Untouched NeverNames PathOn Spells openPath)
open Sdmmc.Lemmas.ReadRefines (MgrOK)
open Sdmmc.Lemmas.VolTree (fkey spos)
open Sdmmc.Lemmas.MainC09 (Shows)

/-- `Shows`, spelled out. -/
theorem shows_def (v0 : FatVolume) (e : DirEntry) (cs : List Nat) (ys : List Slot) (h : Nat) (d0 : Disk) (idx : Nat) (dk : Disk) :
    Shows v0 e cs ys h d0 idx dk ↔
      (BlocksOK dk ∧ slice (dk.get e.entryBlock) e.entryOffset 32 = e.serialize v0.fatType ∧
        ((e.cluster < 2 ∧ cs = [] ∧ e.size = 0) ∨ Chain v0 dk e.cluster cs) ∧
        ∀ n, fileContent v0 dk cs n = fileContent v0 d0 cs n) ∧
      (∃ ghk, CrashInv v0 dk ghk ∧ PathOn v0.fatType ghk.dirs (dirSlots v0 dk ghk.G) 0 ys h ∧
        Lemmas.Reopen.FirstHit (dirSlots v0 dk ghk.G h) e.name
          (e.entryBlock, e.entryOffset, slice (dk.get e.entryBlock) e.entryOffset 32)) ∧
      FreshReads v0 e cs ys d0 idx dk := Iff.rfl

/-- `FreshReads`, spelled out (`openRawVolume`, `openRootDir`, `openFileInDir`, `fileLength`, `read`: the API calls of
`Model/`; `openPath`: `Props.C09Hist.openPath_def`; `Spells`: `spells_def`; `MgrOK`: fault-free device, coherent cache). -/
theorem freshReads_def (v0 : FatVolume) (e : DirEntry) (cs : List Nat) (ys : List Slot) (d0 : Disk) (idx : Nat) (dk : Disk) :
    FreshReads v0 e cs ys d0 idx dk ↔
      ∀ (t0 : Mgr) (names : List (List Nat)) (name : List Nat), MgrOK t0 → t0.dev.disk = dk → t0.vols = [] → t0.dirs = [] →
        t0.files = [] → 0 < t0.maxVols → ys.length + 1 ≤ t0.maxDirs → 0 < t0.maxFiles →
        t0.nextId + ys.length + 2 < 4294967296 → Spells names ys → Sfn.createFromStr name = .ok e.name →
        ∃ t1 t2 dh t3 t4, openRawVolume idx t0 = (.ok t0.nextId, t1) ∧
          openRootDir t0.nextId t1 = (.ok (t0.nextId + 1), t2) ∧
          openPath (t0.nextId + 1) names t2 = (.ok dh, t3) ∧
          openFileInDir dh name .ReadOnly t3 = (.ok (t0.nextId + ys.length + 2), t4) ∧
          t4.dev.disk = dk ∧ t4.dev.wlog = t0.dev.wlog ∧
          fileLength (t0.nextId + ys.length + 2) t4 = (.ok e.size, t4) ∧
          ∀ n, ∃ t5, read (t0.nextId + ys.length + 2) n t4 = (.ok ((fileContent v0 d0 cs e.size).take n), t5) ∧
            t5.dev.disk = dk ∧ t5.dev.wlog = t0.dev.wlog := Iff.rfl

/-- **C09.**  See the header.  (`_partial`: one open volume; `flush_file` of a file that owns a cluster.) -/
theorem C09_main_partial (v0 : FatVolume) (s : Mgr) (gh : Ghost) (hI : VolInvC s gh) (h0 : SameGeom v0 gh.vol)
    (hd i : Nat) (f : FileInfo) (hidx : s.files.findIdx? (·.rawFile = hd) = some i) (hf : s.files[i]? = some f)
    (hdirty : f.dirty = true) (h : Nat) (ys : List Slot)
    (hdir : ∃ o, o ∈ objects h (dirSlots gh.vol s.dev.disk gh.G h) ∧ spos o = fkey f)
    (hpath : PathOn gh.vol.fatType gh.dirs (dirSlots gh.vol s.dev.disk gh.G) 0 ys h)
    (hnames : ∀ y, y ∈ ys → sName y ≠ Sfn.thisDir ∧ sName y ≠ Sfn.parentDir)
    (idx : Nat) (vm : FatVolume) (hm : mountPure (s.dev.disk.get 0) idx s.dev.disk.get = .ok vm) (hsg : SameGeom vm v0)
    (call : Op) (hcall : call = .closeFile hd ∨ (call = .flush hd ∧ f.entry.cluster ≠ 0)) :
    -- "flush or close of a file has returned success"
    (step s call).2.result = .ok .unit ∧
    -- (bytes) the flushed contents are the file's bytes in the abstract file system of C01
    (∀ a, Lemmas.AbsFs.Abs s gh a → ∃ af m, Spec.AbsFs.fileOf a hd = some (i, af) ∧
      (a.slots af.dir)[af.idx]? = some (.file m (fileContent v0 s.dev.disk (chainOf gh.G f.entry.cluster) f.entry.size))) ∧
    -- "cutting power after any later block write, during any subsequent operation …, until the file itself is next
    -- modified, truncated or deleted"
    ∀ ops, CoveredAllRun v0 s (call :: ops) →
      (Untouched h f.entry.name (f.entry.entryBlock, f.entry.entryOffset) (step s call).1 ops ∨
        (call = .closeFile hd ∧ NeverNames f.entry.name ops)) →
      ∀ (j : Nat) (op : Op) (k : Nat), ops[j]? = some op →
        -- "… and mounting the medium afresh shows that file with at least the flushed length and exactly the flushed contents"
        Shows v0 f.entry (chainOf gh.G f.entry.cluster) ys h s.dev.disk idx
          (crashDisk (run (step s call).1 (ops.take j)).1.dev.disk (step (run (step s call).1 (ops.take j)).1 op).2.writes k) := by
  obtain ⟨hres, hall⟩ := Lemmas.MainC09.flush_or_close_survives v0 s gh hI h0 hd i f hidx hf hdirty h ys hdir hpath hnames
    idx vm hm hsg call hcall
  refine ⟨hres, fun a hA => Lemmas.MainC09.flushed_contents_are_model_bytes v0 hI.inv h0 hA hidx hf, ?_⟩
  intro ops hc hcrit j op k hj
  exact hall ops hc hcrit _ ((C09Hist.histCrash_iff _ ops _).2 ⟨j, op, k, hj, rfl⟩)

/-! ### Non-vacuity -/

namespace Example
open Sdmmc.Props.C02Reopen.Example Sdmmc.Props.C09Hist.Example

/-- `A.TXT` (600 bytes) of the FAT16 root directory, open through handle 7 and written to, on a medium with a partition
table: both calls, the theorem applies … -/
example (call : Op) (hcall : call = .closeFile 7 ∨ call = .flush 7) :=
  C09_main_partial vol mgr ghA invCA (SameGeom.refl _) 7 0 file handle_found rfl rfl 0 [] rootA
    (.nil 0 (Lemmas.VolTree.zero_mem_dirIds _)) (fun _ hy => nomatch hy) 0 vol0 mount_ok ⟨_, _, (sameGeom : vol = _)⟩ call
    (hcall.imp id fun e => ⟨e, by decide⟩)

/-- … and its criterion holds of histories that do a lot: `busy` (after the close: creates, fills and deletes another
file, makes a directory, reads `A.TXT` again, closes the volume) and `afterFlush` (after the flush: reads through the
handle, flushes it AGAIN, creates a file, seeks, closes the handle). -/
example : CoveredAllRun vol mgr (.closeFile 7 :: busy) ∧ NeverNames file.entry.name busy ∧
    ∀ t, Untouched 0 file.entry.name (18, 0) t afterFlush := ⟨busy_covered, busy_names, afterFlush_untouched⟩

end Example

namespace ExampleSub
open Sdmmc.Lemmas.VolExample Sdmmc.Props.C09Hist.ExampleSub

/-- A file of a sub-directory (`E.DAT` of `SUB`, path `[ySub]`), on any partition index the medium mounts as. -/
example (idx : Nat) (vm : FatVolume) (hm : mountPure (mgr0.dev.disk.get 0) idx mgr0.dev.disk.get = .ok vm)
    (hsg : SameGeom vm vol16) :=
  C09_main_partial vol16 mgr0 gh0 C10Inv.Example.open_file (SameGeom.refl _) 4 0 fileE (by decide) rfl rfl 4 [ySub] in_SUB
    path_SUB names_SUB idx vm hm hsg (.closeFile 4) (.inl rfl)

end ExampleSub

end Sdmmc.Props.C09Main
