/-
C18 — headline theorem.

Property C18, `statement` (verbatim):
  "Encoding a directory entry and decoding it again returns the same name, attributes, start
  cluster, size and timestamps for both FAT types, and the encoded bytes sit at the offsets the
  FAT specification assigns. Every representable FAT date/time (1980-2107, two-second resolution)
  survives decode-then-encode unchanged and calendar timestamps in that range survive
  encode-then-decode up to the two-second rounding. Parsing a file name accepts exactly the valid
  8.3 names over ISO-8859-1, upper-cases them, pads with spaces, and printing a parsed name and
  parsing it again gives the same 11 bytes."
`quantifier.text` (verbatim):
  "all 2^32 (date,time) field pairs; all timestamps 1980-01-01..2107-12-31; all directory entries
  over boundary values of each field (cluster ids up to 2^28-1, sizes up to 2^32-1, all 256
  attribute bytes); all strings up to length 13 over a character set containing every class the
  parser distinguishes (letters of both cases, digits, dot, space, each forbidden punctuation
  mark, control, Latin-1 high half, non-Latin-1)"

`C18_main` is ONE statement, `Clauses`, every field universally quantified: all directory entries
(both FAT types), all `u16` date/time word pairs, all calendar timestamps, all strings (lists of
code points of any length, any value).

How to read it.  Model: `Model/DirEntry.lean` (`DirEntry.serialize`, `OnDisk.getEntry`),
`Model/Timestamp.lean` (`fromFat`, `fatDate`, `fatTime`, `fromCalendar`), `Model/Name.lean`
(`Sfn.createFromStr`, `Sfn.display`).  `readU16 d o` / `readU32 d o` / `byteAt d o`: little-endian
reads at byte offset `o`.  `FatTime t` (`Props/C18.lean`): `t` is the decoding of some date/time
words with non-zero month and day fields.  `Spec.Name83.parse` (`Spec/Name83.lean`, trusted) is
the specification of valid 8.3 names: base 1..8 and extension 0..3 characters in 0x21..0xFF minus
the forbidden punctuation, upper-cased (`upper`), padded with 0x20 (`pad`), and the first byte
0x05 when the first character is U+00E5 (FAT's escape for the deleted-entry marker 0xE5);
`name83_parse_def` spells it out.  Timestamp decode / encode are tied to the functions
REGENERATED FROM THE SOURCE in the last field (`Props/C18Gen.lean`).

Hypotheses (all are the ranges of the Rust field types, not restrictions):
* entry: 11 name bytes, attribute < 2^8, size < 2^32, cluster < 2^16 (FAT16) / < 2^32 (FAT32;
  the property's 2^28−1 is inside), timestamps FAT-representable;
* date/time words < 2^16.
ONE exception, a documented reading of the source, evaluated below (`Example.dotdot_reads_root`):
a DIRECTORY entry with start cluster 0 decodes with the root-directory cluster (this is how
`..` entries pointing to the root are stored) — `¬ (cluster = 0 ∧ directory)` in `roundtrip`.

Full / partial: FULL (with that exception stated).  Beyond the sentence: date words with a zero
month or day field (volume labels) decode to month / day 1 (`C18.ts_zero_fields`).
-/
import Sdmmc.Props.C18
import Sdmmc.Props.C18Gen

namespace Sdmmc.Props.C18Main
open Sdmmc.Model Sdmmc.Props.C18

theorem name83_parse_def (s : List Nat) : Spec.Name83.parse s =
    if s = [0x2E, 0x2E] then some (UInt8.ofNat 0x2E :: UInt8.ofNat 0x2E :: List.replicate 9 (UInt8.ofNat 0x20))
    else if s = [] ∨ s = [0x2E] then some (UInt8.ofNat 0x2E :: List.replicate 10 (UInt8.ofNat 0x20))
    else
      let base := s.takeWhile (· ≠ 0x2E)
      let rest := s.dropWhile (· ≠ 0x2E)
      let ext := rest.drop 1
      if 1 ≤ base.length ∧ base.length ≤ 8 ∧ base.all Spec.Name83.nameChar ∧ ext.length ≤ 3 ∧
          ext.all Spec.Name83.nameChar
      then some (Spec.Name83.padBase base ++ Spec.Name83.pad 3 ext) else none := rfl

theorem fatTime_def (t : Timestamp) : FatTime t ↔
    ∃ date time, date < 65536 ∧ time < 65536 ∧ date / 32 % 16 ≠ 0 ∧ date % 32 ≠ 0 ∧ t = Timestamp.fromFat date time :=
  Iff.rfl

structure Clauses : Prop where
  /-- encode then decode: same name, attributes, start cluster, size, timestamps; both FAT types -/
  roundtrip : ∀ (ft : FatType) (e : DirEntry), e.name.length = 11 → e.attributes < 256 → e.size < 4294967296 →
    (match ft with | .fat16 => e.cluster < 65536 | .fat32 => e.cluster < 4294967296) →
    FatTime e.mtime → FatTime e.ctime → ¬ (e.cluster = 0 ∧ Attr.isDirectory e.attributes = true) →
    OnDisk.getEntry ft (e.serialize ft) e.entryBlock e.entryOffset = e
  /-- the encoded bytes sit at the offsets of the FAT specification's short directory entry -/
  layout : ∀ (ft : FatType) (e : DirEntry), e.name.length = 11 → e.attributes < 256 → e.size < 4294967296 →
    e.cluster < 4294967296 → e.mtime.WF → e.ctime.WF →
    let d := e.serialize ft
    d.length = 32 ∧ d.take 11 = e.name ∧ byteAt d 11 = e.attributes ∧ byteAt d 12 = 0 ∧ byteAt d 13 = 0 ∧
    readU16 d 14 = e.ctime.fatTime ∧ readU16 d 16 = e.ctime.fatDate ∧ readU16 d 18 = 0 ∧
    readU16 d 20 = (match ft with | .fat16 => 0 | .fat32 => e.cluster / 65536) ∧
    readU16 d 22 = e.mtime.fatTime ∧ readU16 d 24 = e.mtime.fatDate ∧
    readU16 d 26 = e.cluster % 65536 ∧ readU32 d 28 = e.size
  /-- … and the decoder's field table (generated from the `define_field!` rows) reads those offsets -/
  parse_table :
    Gen.dirent_raw_attr = [(11, 0, 8)] ∧ Gen.dirent_create_time = [(14, 0, 16)] ∧ Gen.dirent_create_date = [(16, 0, 16)] ∧
    Gen.dirent_first_cluster_hi = [(20, 0, 16)] ∧ Gen.dirent_write_time = [(22, 0, 16)] ∧ Gen.dirent_write_date = [(24, 0, 16)] ∧
    Gen.dirent_first_cluster_lo = [(26, 0, 16)] ∧ Gen.dirent_file_size = [(28, 0, 32)]
  /-- every FAT date/time word pair with non-zero month and day fields survives decode-then-encode -/
  decode_encode : ∀ date time, date < 65536 → time < 65536 → date / 32 % 16 ≠ 0 → date % 32 ≠ 0 →
    (Timestamp.fromFat date time).fatTime = time ∧ (Timestamp.fromFat date time).fatDate = date
  /-- calendar timestamps 1980..2107 survive encode-then-decode up to the two-second rounding -/
  encode_decode : ∀ (y mo d h mi s : Nat) (t : Timestamp), 1980 ≤ y ∧ y ≤ 2107 →
    Timestamp.fromCalendar y mo d h mi s = .ok t →
    Timestamp.fromFat t.fatDate t.fatTime = { t with seconds := t.seconds / 2 * 2 } ∧
    t.fatDate = (y - 1980) * 512 + mo * 32 + d ∧ t.fatTime = h * 2048 + mi * 32 + s / 2
  /-- … and every calendar timestamp in that range is accepted -/
  calendar_accepted : ∀ (y mo d h mi s : Nat),
    (∃ t, Timestamp.fromCalendar y mo d h mi s = .ok t) ↔
      (1970 ≤ y ∧ y ≤ 2225 ∧ 1 ≤ mo ∧ mo ≤ 12 ∧ 1 ≤ d ∧ d ≤ 31 ∧ h ≤ 23 ∧ mi ≤ 59 ∧ s ≤ 59)
  /-- parsing accepts exactly the valid 8.3 names, upper-cases, pads -/
  name_parse : ∀ (s : List Nat) (n : Bytes), Sfn.createFromStr s = .ok n ↔ Spec.Name83.parse s = some n
  /-- printing a parsed name and parsing it again gives the same 11 bytes -/
  name_print_parse : ∀ (s : List Nat) (n : Bytes), Sfn.createFromStr s = .ok n →
    Sfn.createFromStr (Sfn.display n) = .ok n ∧ Sfn.display n = Spec.Name83.canon s
  /-- the timestamp codec is the source's: decode for all words, encode for all `u8` fields -/
  source : (∀ date time, C18Gen.toModel (Gen.Funs.Timestamp_from_fat date time) = Timestamp.fromFat date time) ∧
    (∀ date time, date < 65536 → Gen.Funs.Timestamp_from_fat_ok date time) ∧
    (∀ t : Timestamp, t.year_since_1970 < 256 → t.zero_indexed_month < 256 → t.hours < 256 → t.minutes < 256 →
      Gen.Funs.Timestamp_serialize_to_fat t.year_since_1970 t.zero_indexed_month t.zero_indexed_day
        t.hours t.minutes t.seconds = Timestamp.serializeToFat t)

theorem C18_main : Clauses where
  roundtrip := fun ft e h1 h2 h3 h4 h5 h6 h7 => dirent_roundtrip ft e h1 h2 h3 h4 h5 h6 h7
  layout := fun ft e h1 h2 h3 h4 h5 h6 => dirent_layout ft e h1 h2 h3 h4 h5 h6
  parse_table := dirent_parse_table
  decode_encode := fun date time hd ht hm hday => ts_decode_encode date time hd ht hm hday
  encode_decode := fun y mo d h mi s t hy hok => ts_encode_decode y mo d h mi s t hy hok
  calendar_accepted := fun y mo d h mi s => from_calendar_accepts_iff y mo d h mi s
  name_parse := fun s n => sfn_parse_iff s n
  name_print_parse := fun s n h => ⟨sfn_display_parse s n h, sfn_parse_display s n h⟩
  source := ⟨C18Gen.from_fat_eq, C18Gen.from_fat_ok, C18Gen.serialize_to_fat_eq⟩

namespace Example

def ts : Timestamp := Timestamp.fromFat 0x4A8F 0xBF7D

/-- A file entry (FAT32, cluster 0x0ABCDEF, size 2^32−1): all hypotheses of `roundtrip` hold. -/
def e1 : DirEntry :=
  { name := [0x48, 0x49, 0x20, 0x20, 0x20, 0x20, 0x20, 0x20, 0x54, 0x58, 0x54].map UInt8.ofNat, mtime := ts, ctime := ts,
    attributes := 0x20, cluster := 0x0ABCDEF, size := 4294967295, entryBlock := 9, entryOffset := 64 }

example : OnDisk.getEntry .fat32 (e1.serialize .fat32) 9 64 = e1 :=
  C18_main.roundtrip .fat32 e1 (by decide) (by decide) (by decide) (by decide)
    ⟨0x4A8F, 0xBF7D, by decide, by decide, by decide, by decide, rfl⟩
    ⟨0x4A8F, 0xBF7D, by decide, by decide, by decide, by decide, rfl⟩ (by decide)

/-- The excluded point: a directory entry with start cluster 0 reads back with the root-directory
cluster (`CLUSTER_ROOT_DIR`), everything else the same. -/
theorem dotdot_reads_root :
    (OnDisk.getEntry .fat32 ({ e1 with attributes := 0x10, cluster := 0 }.serialize .fat32) 9 64) =
      { e1 with attributes := 0x10, cluster := Gen.CLUSTER_ROOT_DIR } := by decide +kernel

example : Sfn.createFromStr [0x68, 0x69, 0x2E, 0x74, 0x78, 0x74] = .ok e1.name := by decide
example : Sfn.display e1.name = [0x48, 0x49, 0x2E, 0x54, 0x58, 0x54] := by decide

end Example

end Sdmmc.Props.C18Main
