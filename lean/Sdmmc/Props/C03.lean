/-
C03 — The volume stays a well-formed FAT file system after every operation.

Property theorems only; helper lemmas live in `Sdmmc.Lemmas.DirFat`, `DirSlots`, `DirMake`, `DirMgr`
(on top of `FatOps`, `FatLens`, `DirOps`).

THE FULL THEOREM (not proved — partial).  With `g : Spec.Fs.Geom` the geometry of the mounted
volume, `pend s` the pending (cluster, size) of the open files of `s` at their slots, and
`Spec.Fs.fsck` the independent structure checker of `Sdmmc.Spec.Fs`:

    theorem c03_sound (s : Mgr) (ops : List Op)
        (hmount : every volume record of s satisfies Spec.WFGeom and HintOK, no faults scheduled,
                  cache coherent, all blocks 512 bytes, both FAT copies identical)
        (h0 : (Spec.Fs.fsck g s.dev.disk (pend s) true).problems = []) :
        ∀ k ≤ ops.length,
          let sk := (run s (ops.take k)).1
          (Spec.Fs.fsck g sk.dev.disk (pend sk) true).problems = []

i.e. after every API call (success or error) every chain starts in range, is acyclic, ends in an
end-of-chain mark, passes through no free / reserved / bad entry, shares no cluster with another
chain and is long enough for the recorded size; names are unique per directory; sub-directories
have correct `.` and `..`; nothing follows the end-of-directory marker.

WHAT IS PROVED HERE are the per-step facts that argument is made of, each for an arbitrary
fault-free, coherent state of a well-formed volume:

* FAT steps.  `alloc_extends_chain` / `alloc_first_cluster`: the cluster an allocation hands out is
  in range and was free, afterwards it is an end-of-chain entry, the predecessor (if any) links to it,
  and *every other entry of the volume reads exactly as before* — the extended chain gains exactly
  `c`, no other chain changes, so no cross-link and no cycle can arise.  `free_marks_free`: freeing
  writes the free mark into the cluster's own entry and changes no other entry.
  `truncate_first_write` / `truncate_noop`: a truncation first terminates the kept prefix, and does
  nothing at all for an empty or already terminated chain.  `fat_copies_stay_identical`.
* Directory steps.  `new_slot_before_end`: a new entry goes into the first non-live slot of its block,
  leaving no hole and never landing behind the end marker; `delete_keeps_clean_tail`: deletion turns
  a live first byte into `0xE5` and never creates a `0x00`; both keep "everything after the first
  `0x00` slot is `0x00`" (`CleanTailBlock`).  `makeDir_dot_entries`: the block a new directory starts
  with has `.` (own cluster) in slot 0, `..` (parent cluster, 0 for the root) in slot 1 and zeros
  elsewhere, the remaining blocks of its cluster are written as zeros, all before the parent is touched.
* Name uniqueness.  `name_uniqueness_guard_mkdir`, `name_uniqueness_guard_create`: the entry-creating
  code runs only when the lookup of that name answered `NotFound`; a found entry gives an error and
  no write.

NOT PROVED: the composition over whole API calls and histories into the `fsck` predicate above (needs
the chain representation invariant tying `Spec.Fs.chain` to these entry-level facts, and the walk of
`writeNewDirectoryEntry` / `deleteDirectoryEntry` across clusters); chain length versus recorded size
after `write`; the error paths of `makeDir` (clean-up after a failed parent update).  Those are
covered by the harness (`fsck` after every call of generated histories).
-/
import Sdmmc.Lemmas.DirFat
import Sdmmc.Lemmas.DirSlots
import Sdmmc.Lemmas.DirMake
import Sdmmc.Lemmas.DirMgr

namespace Sdmmc.Props.C03
open Sdmmc.Model Sdmmc.Model.Fat Sdmmc.Spec

/-! ### Vocabulary -/

def NoFault (s : FS) : Prop := s.dev.faults = []
def Coherent (s : FS) : Prop := ∀ i, s.cache.tag = some i → s.cache.blk = s.dev.disk.get i
def BlocksOK (d : Disk) : Prop := ∀ i, (d.get i).length = 512
/-- The in-memory next-free hint never names a reserved entry. -/
def HintOK (v : FatVolume) : Prop := ∀ n, v.nextFreeCluster = some n → 2 ≤ n
/-- FAT copy 2 is block-for-block identical to copy 1. -/
def Mirror (v : FatVolume) (d : Disk) : Prop :=
  ∀ c, c < endCluster v → ∀ b2, fatBlock2 v c = some b2 → d.get b2 = d.get (fatBlock v c)

/-- The raw FAT entry of cluster `c` as stored in FAT copy 1 of the medium. -/
def rawEntry (v : FatVolume) (d : Disk) (c : Nat) : Nat :=
  rawFatEntry v.fatType (d.get (fatBlock v c)) (fatEntOffset v c)
/-- The raw FAT entry of cluster `c` in FAT copy 2, when there is one. -/
def rawEntry2 (v : FatVolume) (d : Disk) (c : Nat) : Option Nat :=
  (fatBlock2 v c).map fun b2 => rawFatEntry v.fatType (d.get b2) (fatEntOffset v c)
/-- The entry as the allocator reads it (FAT32: low 28 bits); `0` means free. -/
def entryOnDisk (v : FatVolume) (d : Disk) (c : Nat) : Nat :=
  let raw := rawFatEntry v.fatType (d.get (fatBlock v c)) (fatEntOffset v c)
  match v.fatType with | .fat16 => raw | .fat32 => raw % 268435456

/-- The blocks one FAT update writes. -/
def fatWrites (v : FatVolume) (c : Nat) : List Nat :=
  fatBlock v c :: (match fatBlock2 v c with | some b => [b] | none => [])
/-- The write-log entries of one FAT update with payload `p`, newest first. -/
def fatWriteLog (v : FatVolume) (c : Nat) (p : Block) : List (Nat × Block) :=
  match fatBlock2 v c with
  | none => [(fatBlock v c, p)]
  | some b2 => [(b2, p), (fatBlock v c, p)]
/-- The sector `update_fat c val` writes: the FAT sector of `c` with `c`'s entry patched. -/
def fatPayload (s : FS) (c val : Nat) : Block :=
  patchFatBlock s.vol.fatType (s.dev.disk.get (fatBlock s.vol c)) (fatEntOffset s.vol c) val

/-- Everything after a `0x00` slot of the directory block is a `0x00` slot. -/
def CleanTailBlock (blk : Block) : Prop :=
  ∀ i j, i < j → j < 16 → byteAt blk (32 * i) = 0 → byteAt blk (32 * j) = 0

/-- The `.` entry of a new directory at cluster `c`. -/
def dotEntry (c att : Nat) (now : Timestamp) (startBlock : Nat) : DirEntry :=
  { name := Sfn.thisDir, mtime := now, ctime := now, attributes := att, cluster := c, size := 0,
    entryBlock := startBlock, entryOffset := 0 }
/-- The `..` entry: the parent's cluster, or 0 when the parent is the root directory. -/
def dotdotEntry (parent att : Nat) (now : Timestamp) (startBlock : Nat) : DirEntry :=
  { name := Sfn.parentDir, mtime := now, ctime := now, attributes := att,
    cluster := if parent = Gen.CLUSTER_ROOT_DIR then Gen.CLUSTER_EMPTY else parent, size := 0,
    entryBlock := startBlock, entryOffset := Gen.DIRENT_LEN }
/-- The first block of a new directory as `make_dir` writes it. -/
def dirBlock (ft : FatType) (c parent att : Nat) (now : Timestamp) (startBlock : Nat) : Block :=
  splice (splice zeroBlock 0 (DirEntry.serialize ft (dotEntry c att now startBlock))) Gen.DIRENT_LEN
    (DirEntry.serialize ft (dotdotEntry parent att now startBlock))

/-! ### FAT steps -/

/-- Extending a chain (`alloc_cluster(Some(p), zero)`, `p` a cluster in use).  The new cluster `c`
lies in `[2, end_cluster)`, was free and is not `p`; afterwards `c` reads as end-of-chain, `p` reads
as `c`, and every other cluster's entry reads exactly as before.  So the extended chain gains
exactly `c` and every other chain is unchanged.  Identical FAT copies stay identical. -/
theorem alloc_extends_chain (s s' : FS) (p c : Nat) (zero : Bool) (hn : NoFault s) (hc : Coherent s)
    (hb : BlocksOK s.dev.disk) (hg : WFGeom s.vol) (hh : HintOK s.vol)
    (hp : p < endCluster s.vol) (hpu : entryOnDisk s.vol s.dev.disk p ≠ 0)
    (h : allocCluster (some p) zero s = (.ok c, s')) :
    2 ≤ c ∧ c < endCluster s.vol ∧ p ≠ c ∧ entryOnDisk s.vol s.dev.disk c = 0 ∧
    decodeNext s.vol.fatType (rawEntry s.vol s'.dev.disk c) = .err .EndOfFile ∧
    decodeNext s.vol.fatType (rawEntry s.vol s'.dev.disk p) = .ok c ∧
    (∀ c', c' < endCluster s.vol → c' ≠ c → c' ≠ p → rawEntry s.vol s'.dev.disk c' = rawEntry s.vol s.dev.disk c') ∧
    (Mirror s.vol s.dev.disk → Mirror s.vol s'.dev.disk) ∧
    NoFault s' ∧ Coherent s' ∧ BlocksOK s'.dev.disk :=
  Lemmas.DirFat.alloc_extends_chain s s' p c zero hn hc hb hg hh hp hpu h

/-- The first cluster of a file or of a new directory (`alloc_cluster(None, zero)`): only the entry
of the new cluster changes; it was free and now reads as end-of-chain. -/
theorem alloc_first_cluster (s s' : FS) (c : Nat) (zero : Bool) (hn : NoFault s) (hc : Coherent s)
    (hb : BlocksOK s.dev.disk) (hg : WFGeom s.vol) (hh : HintOK s.vol)
    (h : allocCluster none zero s = (.ok c, s')) :
    2 ≤ c ∧ c < endCluster s.vol ∧ entryOnDisk s.vol s.dev.disk c = 0 ∧
    decodeNext s.vol.fatType (rawEntry s.vol s'.dev.disk c) = .err .EndOfFile ∧
    (∀ c', c' < endCluster s.vol → c' ≠ c → rawEntry s.vol s'.dev.disk c' = rawEntry s.vol s.dev.disk c') ∧
    (Mirror s.vol s.dev.disk → Mirror s.vol s'.dev.disk) ∧
    NoFault s' ∧ Coherent s' ∧ BlocksOK s'.dev.disk :=
  Lemmas.DirFat.alloc_first_cluster s s' c zero hn hc hb hg hh h

/-- Freeing one cluster (`update_fat(c, EMPTY)`): afterwards the entry of `c` reads as free (FAT16:
0; FAT32: low 28 bits 0, top nibble kept) and no other entry of the volume has changed — in copy 1,
and in copy 2 when the copies were identical; blocks that are not FAT sectors of `c` are untouched. -/
theorem free_marks_free (s : FS) (c : Nat) (hn : NoFault s) (hc : Coherent s) (hg : WFGeom s.vol)
    (hcl : c < endCluster s.vol) (hb : BlocksOK s.dev.disk) :
    ∃ s', updateFat c Gen.CLUSTER_EMPTY s = (.ok (), s') ∧ Coherent s' ∧ NoFault s' ∧ s'.vol = s.vol ∧
      BlocksOK s'.dev.disk ∧ entryOnDisk s.vol s'.dev.disk c = 0 ∧
      (∀ c', c' < endCluster s.vol → c' ≠ c → rawEntry s.vol s'.dev.disk c' = rawEntry s.vol s.dev.disk c') ∧
      (Mirror s.vol s.dev.disk → Mirror s.vol s'.dev.disk ∧
        ∀ c', c' < endCluster s.vol → c' ≠ c → rawEntry2 s.vol s'.dev.disk c' = rawEntry2 s.vol s.dev.disk c') ∧
      (∀ i, i ∉ fatWrites s.vol c → s'.dev.disk.get i = s.dev.disk.get i) :=
  Lemmas.DirFat.free_marks_free s c hn hc hg hcl hb

/-- Every FAT update keeps identical FAT copies identical. -/
theorem fat_copies_stay_identical (s : FS) (c val : Nat) (hn : NoFault s) (hc : Coherent s) (hg : WFGeom s.vol)
    (hcl : c < endCluster s.vol) (hm : Mirror s.vol s.dev.disk) :
    Mirror s.vol (updateFat c val s).2.dev.disk :=
  Lemmas.FatOps.updateFat_mirror s c val hn hc hg hcl hm

/-- Cutting a chain behind `cl` (`truncate_cluster_chain(cl)`, `cl ≥ 2`, the entry of `cl` links on
to `n`): the first device writes of the call are those of `update_fat(cl, END_OF_FILE)`, and that
payload makes `cl` read as end-of-chain — the kept prefix is terminated before anything is freed. -/
theorem truncate_first_write (s : FS) (cl n : Nat) (hn : NoFault s) (hc : Coherent s) (hb : BlocksOK s.dev.disk)
    (h2 : 2 ≤ cl) (hle : cl ≤ U32_MAX / 4)
    (hnext : decodeNext s.vol.fatType (rawEntry s.vol s.dev.disk cl) = .ok n) :
    (∃ rest, (truncateClusterChain cl s).2.dev.wlog =
      rest ++ fatWriteLog s.vol cl (fatPayload s cl Gen.CLUSTER_END_OF_FILE) ++ s.dev.wlog) ∧
    decodeNext s.vol.fatType (rawFatEntry s.vol.fatType (fatPayload s cl Gen.CLUSTER_END_OF_FILE) (fatEntOffset s.vol cl)) =
      .err .EndOfFile :=
  Lemmas.DirFat.truncate_first_write_eof s cl n hn hc hb h2 hle hnext

/-- An empty chain (`cl < 2`) or a chain that ends at `cl`: the truncation succeeds and writes
nothing. -/
theorem truncate_noop (s : FS) (cl : Nat) (hn : NoFault s) (hc : Coherent s)
    (h : cl < 2 ∨ (cl ≤ U32_MAX / 4 ∧ decodeNext s.vol.fatType (rawEntry s.vol s.dev.disk cl) = .err .EndOfFile)) :
    (truncateClusterChain cl s).1 = .ok () ∧ (truncateClusterChain cl s).2.dev.wlog = s.dev.wlog ∧
    (truncateClusterChain cl s).2.dev.disk = s.dev.disk ∧ (truncateClusterChain cl s).2.vol = s.vol :=
  Lemmas.DirFat.truncate_noop s cl hn hc h

/-! ### Directory steps -/

/-- Creating an entry in a run of directory blocks (`write_new_directory_entry`, one cluster / the
fixed root).  The slot `i` chosen in block `e.entryBlock` is the first one whose first byte is `0x00`
or `0xE5`; it now starts with the first byte of the name; every earlier slot of the block is live
and every other slot keeps its first byte — so no hole is left before the new entry and the entry is
not behind the end marker.  If the block had a clean tail it still has one (for a name that does not
start with `0x00`, which `ShortFileName` never produces).  No other block changes. -/
theorem new_slot_before_end (name : Bytes) (att fc : Nat) (now : Timestamp) (n blockIdx : Nat) (s s' : FS)
    (e : DirEntry) (hn : NoFault s) (hc : Coherent s) (hb : BlocksOK s.dev.disk) (hname : name.length = 11)
    (h0 : byteAt name 0 ≠ 0)
    (h : writeNewBlocks name att fc now n blockIdx s = (.ok (some e), s')) :
    (∃ i, i < 16 ∧ e.entryOffset = 32 * i ∧
      (byteAt (s.dev.disk.get e.entryBlock) (32 * i) = 0 ∨ byteAt (s.dev.disk.get e.entryBlock) (32 * i) = 0xE5) ∧
      byteAt (s'.dev.disk.get e.entryBlock) (32 * i) = byteAt name 0 ∧
      (∀ k, k < i → byteAt (s.dev.disk.get e.entryBlock) (32 * k) ≠ 0 ∧ byteAt (s.dev.disk.get e.entryBlock) (32 * k) ≠ 0xE5) ∧
      (∀ k, k < 16 → k ≠ i → byteAt (s'.dev.disk.get e.entryBlock) (32 * k) = byteAt (s.dev.disk.get e.entryBlock) (32 * k))) ∧
    (CleanTailBlock (s.dev.disk.get e.entryBlock) → CleanTailBlock (s'.dev.disk.get e.entryBlock)) ∧
    (∀ b, b ≠ e.entryBlock → s'.dev.disk.get b = s.dev.disk.get b) :=
  Lemmas.DirSlots.create_clean_tail name att fc now n blockIdx s s' e hn hc hb hname h0 h

/-- Deleting an entry (`delete_directory_entry`, one cluster / the fixed root): one byte — the first
byte of a slot that was not an end marker — becomes `0xE5`.  No `0x00` byte is created anywhere, a
clean tail stays clean, no other block changes. -/
theorem delete_keeps_clean_tail (name : Bytes) (n blockIdx : Nat) (s s' : FS) (hn : NoFault s) (hc : Coherent s)
    (h : deleteBlocks name n blockIdx s = (.ok true, s')) :
    ∃ b i, blockIdx ≤ b ∧ b < blockIdx + n ∧ i < 16 ∧ byteAt (s.dev.disk.get b) (32 * i) ≠ 0 ∧
      s'.dev.disk = s.dev.disk.set b ((s.dev.disk.get b).set (32 * i) (UInt8.ofNat 0xE5)) ∧
      (∀ b' j, byteAt (s'.dev.disk.get b') j = 0 → byteAt (s.dev.disk.get b') j = 0) ∧
      (CleanTailBlock (s.dev.disk.get b) → CleanTailBlock (s'.dev.disk.get b)) ∧
      (∀ b', b' ≠ b → s'.dev.disk.get b' = s.dev.disk.get b') :=
  Lemmas.DirSlots.delete_clean_tail name n blockIdx s s' hn hc h

/-- The first block of a new directory: slot 0 is the `.` entry (own cluster `c`), slot 1 the `..`
entry (the parent's cluster, 0 for the root directory), both with the given attributes, size 0 and
times `now`; every other byte of the block is zero — a well-formed directory with a clean tail. -/
theorem dir_block_layout (ft : FatType) (c parent att : Nat) (now : Timestamp) (startBlock : Nat) :
    (dirBlock ft c parent att now startBlock).length = 512 ∧
    slice (dirBlock ft c parent att now startBlock) 0 32 = DirEntry.serialize ft (dotEntry c att now startBlock) ∧
    slice (dirBlock ft c parent att now startBlock) 32 32 = DirEntry.serialize ft (dotdotEntry parent att now startBlock) ∧
    ∀ i, 64 ≤ i → (dirBlock ft c parent att now startBlock).getD i 0 = 0 :=
  Lemmas.DirMake.dirBlock_facts ft c parent att now startBlock

/-- `make_dir` (success path), its device writes oldest last: the FAT write(s) allocating the new
cluster `c` — in range, free before —; the first block of `c` holding `dirBlock` (`.`, `..`, zeros);
the remaining blocks of `c` written as zeros; and only after all of that the write(s) that create
the entry in the parent (`new`, at least one). -/
theorem makeDir_dot_entries (s s' : FS) (parent : Nat) (sfn : Bytes) (att : Nat) (now : Timestamp)
    (hn : NoFault s) (hc : Coherent s) (hh : HintOK s.vol) (h : makeDir parent sfn att now s = (.ok (), s')) :
    ∃ c pay new, 2 ≤ c ∧ c < endCluster s.vol ∧ entryOnDisk s.vol s.dev.disk c = 0 ∧ new ≠ [] ∧
      s'.dev.wlog =
        new ++ (((List.range (s.vol.blocksPerCluster - 1)).map fun i => (clusterToBlock s.vol c + 1 + i, zeroBlock)).reverse ++
          ((clusterToBlock s.vol c, dirBlock s.vol.fatType c parent att now (clusterToBlock s.vol c)) ::
            fatWriteLog s.vol c pay)) ++ s.dev.wlog :=
  Lemmas.DirMake.makeDir_writes s s' parent sfn att now hn hc hh h

/-! ### Name uniqueness -/

/-- `make_dir_in_dir` after the handle checks: the lookup of the name writes nothing, and what
follows is decided by its answer alone — only `NotFound` leads to `make_dir`; a found entry gives
`DirAlreadyExists` / `FileAlreadyExists` in the state the lookup left; any other outcome of the
lookup is returned as is.  So a second entry of an existing name is never created. -/
theorem name_uniqueness_guard_mkdir (directory parentIdx volIdx : Nat) (name : List Nat) (sfn : Bytes) (parent : DirInfo)
    (s s' : Mgr) (r : Res DirEntry) (hroom : s.dirs.length < s.maxDirs)
    (h1 : getDirById directory s = (.ok parentIdx, s)) (h2 : getDir parentIdx s = (.ok parent, s))
    (h3 : getVolumeById parent.rawVolume s = (.ok volIdx, s)) (h4 : Sfn.createFromStr name = .ok sfn)
    (h6 : withVol volIdx (Fat.findDirectoryEntry parent.cluster sfn) s = (r, s')) :
    s'.dev.disk = s.dev.disk ∧ s'.dev.wlog = s.dev.wlog ∧
    makeDirInDir directory name s =
      match r with
      | .ok e => (.err (if Attr.isDirectory e.attributes then .DirAlreadyExists else .FileAlreadyExists), s')
      | .err .NotFound => withVol volIdx (Fat.makeDir parent.cluster sfn Gen.ATTR_DIRECTORY s.clock) s'
      | .err e => (.err e, s')
      | .panic m => (.panic m, s')
      | .diverged => (.diverged, s') :=
  Lemmas.DirMgr.makeDirInDir_guard directory parentIdx volIdx name sfn parent s s' r hroom h1 h2 h3 h4 h6

/-- `open_file_in_dir(.., ReadWriteCreate)` when the lookup finds the name: the call fails —
`FileAlreadyOpen` if that entry is open, else `FileAlreadyExists` —, nothing was written, the open-file
table is unchanged. -/
theorem name_uniqueness_guard_create (directory dirIdx volIdx : Nat) (name : List Nat) (sfn : Bytes) (d : DirInfo)
    (s s' : Mgr) (e : DirEntry) (hroom : s.files.length < s.maxFiles)
    (h1 : getDirById directory s = (.ok dirIdx, s)) (h2 : getDir dirIdx s = (.ok d, s))
    (h3 : getVolumeById d.rawVolume s = (.ok volIdx, s)) (h4 : Sfn.createFromStr name = .ok sfn)
    (h6 : withVol volIdx (Fat.findDirectoryEntry d.cluster sfn) s = (.ok e, s')) :
    s'.dev.disk = s.dev.disk ∧ s'.dev.wlog = s.dev.wlog ∧ s'.files = s.files ∧
    openFileInDir directory name .ReadWriteCreate s =
      (.err (if fileIsOpen s' d.rawVolume e then .FileAlreadyOpen else .FileAlreadyExists), s') :=
  Lemmas.DirMgr.openFile_create_guard directory dirIdx volIdx name sfn d s s' e hroom h1 h2 h3 h4 h6

/-- …and when the lookup answers `NotFound`, the call is exactly: create the entry (size 0, no
cluster, times = the clock) in the directory, then enter the file in the table. -/
theorem create_only_after_not_found (directory dirIdx volIdx : Nat) (name : List Nat) (sfn : Bytes) (d : DirInfo)
    (s s' : Mgr) (hroom : s.files.length < s.maxFiles)
    (h1 : getDirById directory s = (.ok dirIdx, s)) (h2 : getDir dirIdx s = (.ok d, s))
    (h3 : getVolumeById d.rawVolume s = (.ok volIdx, s)) (h4 : Sfn.createFromStr name = .ok sfn)
    (h6 : withVol volIdx (Fat.findDirectoryEntry d.cluster sfn) s = (.err .NotFound, s'))
    (h3' : getVolumeById d.rawVolume s' = (.ok volIdx, s')) :
    openFileInDir directory name .ReadWriteCreate s =
      match withVol volIdx (Fat.writeNewDirectoryEntry d.cluster sfn 0 Gen.CLUSTER_EMPTY s'.clock) s' with
      | (.ok entry, s2) =>
        (.ok s2.nextId, { s2 with
          nextId := (s2.nextId + 1) % 4294967296
          files := s2.files ++ [{ rawFile := s2.nextId, rawVolume := d.rawVolume, curClusterOff := 0,
                                  curCluster := entry.cluster, currentOffset := 0, mode := .ReadWriteCreate,
                                  entry := entry, dirty := false }] })
      | (.err e, s2) => (.err e, s2)
      | (.panic m, s2) => (.panic m, s2)
      | (.diverged, s2) => (.diverged, s2) :=
  Lemmas.DirMgr.openFile_create_notFound directory dirIdx volIdx name sfn d s s' hroom h1 h2 h3 h4 h6 h3'

/-! ### Non-vacuity (tests, labelled as tests) -/

namespace Example

/-- A 20-cluster FAT16 volume with two FAT copies, one block per cluster. -/
def vol : FatVolume :=
  { lbaStart := 0, numBlocks := 200, name := [], blocksPerCluster := 1, firstDataBlock := 10, fatStart := 1,
    secondFatStart := some 3, freeClustersCount := none, nextFreeCluster := none, clusterCount := 20,
    fatType := .fat16, rootEntriesCount := 16, firstRootDirBlock := 9, infoLocation := 0, firstRootDirCluster := 0 }
/-- FAT: cluster 2 → 3, cluster 3 end of chain, everything else free. -/
def fatBlk : Block := [0xF8, 0xFF, 0xFF, 0xFF, 3, 0, 0xFF, 0xFF] ++ zeros 504
def st : FS := { dev := { disk := (Disk.empty.set 1 fatBlk).set 3 fatBlk }, cache := {}, vol := vol }

example : NoFault st := rfl
example : Coherent st := by intro i h; cases h
example : HintOK vol := by intro n h; cases h
example : entryOnDisk vol st.dev.disk 3 ≠ 0 ∧ entryOnDisk vol st.dev.disk 4 = 0 := by decide

def ok? {α} : Res α → Option α | .ok a => some a | _ => none

/-- Extending the chain 2 → 3 hands out cluster 4: 3 then links to 4, 4 is end-of-chain, the entry
of 2 is untouched; both copies carry the same sector. -/
example :
    let r := allocCluster (some 3) false st
    ok? r.1 = some 4 ∧ rawEntry vol r.2.dev.disk 2 = 3 ∧ rawEntry vol r.2.dev.disk 3 = 4 ∧
    rawEntry vol r.2.dev.disk 4 = 0xFFFF ∧ rawEntry2 vol r.2.dev.disk 3 = some 4 := by decide +kernel

/-- Truncating at cluster 2 (which links on to 3): the first write marks 2 as end of chain. -/
example : ok? (decodeNext .fat16 (rawEntry vol st.dev.disk 2)) = some 3 := by decide
example : (((truncateClusterChain 2 st).2.dev.wlog.reverse.head?).map fun w => (w.1, w.2.take 8)) =
    some (1, [0xF8, 0xFF, 0xFF, 0xFF, 0xFF, 0xFF, 0xFF, 0xFF]) := by decide +kernel

/-- A directory block: a live entry, a deleted one, then the end marker. -/
def dirBlk : Block := (0x41 :: zeros 31) ++ (0xE5 :: zeros 31) ++ zeros 448
example : CleanTailBlock dirBlk := by
  intro i j hij hj
  have hi : i < 16 := by omega
  revert hij
  revert i
  revert j
  decide +kernel
example : firstFreeSlot (slotsOf dirBlk) = some 32 := by decide +kernel

/-- The `..` entry of a directory made in the root names cluster 0. -/
example : (dotdotEntry Gen.CLUSTER_ROOT_DIR 0x10 default 10).cluster = 0 ∧ (dotdotEntry 7 0x10 default 10).cluster = 7 := by
  decide

end Example

end Sdmmc.Props.C03
