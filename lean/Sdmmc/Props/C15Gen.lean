/-
C15, tie to the source text: the machine translations (in `Sdmmc.Gen.Funs`, regenerated from the
crate by tools/extract.py) of the `Bpb` accessors and derived quantities of fat/bpb.rs, of
`Bpb::create_from_bytes` (with the 4085 / 65525 FAT-type boundaries), of `BlockCount::from_bytes`
and of the layout arithmetic of `parse_volume` (fat/volume.rs) are equal to the hand-written model.
-/
import Sdmmc.Gen.Funs
import Sdmmc.Model.Mount
import Sdmmc.Lemmas.GenBits

namespace Sdmmc.Props.C15Gen

open Sdmmc Sdmmc.Model Sdmmc.Gen

/-! ### The `define_field!` accessors (expanded by the translator from the macro text in structure.rs) -/

theorem rdByte_eq (b : Bytes) (i : Nat) : Funs.rdByte b i = byteAt b i := rfl

theorem blocks_per_cluster_eq (d : Bytes) : Funs.Bpb_blocks_per_cluster d = Bpb.blocksPerCluster d := rfl
theorem reserved_block_count_eq (d : Bytes) : Funs.Bpb_reserved_block_count d = Bpb.reservedBlockCount d := rfl
theorem num_fats_eq (d : Bytes) : Funs.Bpb_num_fats d = Bpb.numFats d := rfl
theorem root_entries_count_eq (d : Bytes) : Funs.Bpb_root_entries_count d = Bpb.rootEntriesCount d := rfl
theorem total_blocks16_eq (d : Bytes) : Funs.Bpb_total_blocks16 d = Bpb.totalBlocks16 d := rfl
theorem total_blocks32_eq (d : Bytes) : Funs.Bpb_total_blocks32 d = Bpb.totalBlocks32 d := rfl
theorem fat_size16_eq (d : Bytes) : Funs.Bpb_fat_size16 d = Bpb.fatSize16 d := rfl
theorem fat_size32_eq (d : Bytes) : Funs.Bpb_fat_size32 d = Bpb.fatSize32 d := rfl
theorem footer_eq (d : Bytes) : Funs.Bpb_footer d = Bpb.footer d := rfl
theorem fs_ver_eq (d : Bytes) : Funs.Bpb_fs_ver d = Bpb.fsVer d := rfl
theorem fs_info_eq (d : Bytes) : Funs.Bpb_fs_info d = Bpb.fsInfo d := rfl

/-! ### Derived quantities -/

/-- `Bpb::fat_size`. -/
theorem fat_size_eq (d : Bytes) : Funs.Bpb_fat_size d = Bpb.fatSize d := rfl
/-- `Bpb::total_blocks`. -/
theorem total_blocks_eq (d : Bytes) : Funs.Bpb_total_blocks d = Bpb.totalBlocks d := rfl
/-- `Bpb::total_clusters` returns the stored cluster count. -/
theorem total_clusters_eq (cc : Nat) : Funs.Bpb_total_clusters cc = cc := rfl
/-- `Bpb::fs_info_block`: nothing on FAT16, the `fs_info` field on FAT32. -/
theorem fs_info_block_eq (d : Bytes) :
    Funs.Bpb_fs_info_block d .Fat16 = none ∧ Funs.Bpb_fs_info_block d .Fat32 = some (Bpb.fsInfo d) := ⟨rfl, rfl⟩
/-- `BlockCount::from_bytes`. -/
theorem from_bytes_eq (n : Nat) : Funs.BlockCount_from_bytes n = blockCountFromBytes n := rfl
/-- `BlockCount::offset_bytes`. -/
theorem offset_bytes_eq (s off : Nat) : Funs.BlockCount_offset_bytes s off = s + off / BLOCK_LEN_U32 := rfl

example : Funs.BlockCount_from_bytes 1025 = 3 := by decide
example : Funs.Bpb_fat_size (List.replicate 22 0 ++ [0x34, 0x12] ++ List.replicate 488 0) = 0x1234 := by decide

/-! ### `Bpb::create_from_bytes` -/

def toFatType : Funs.FatType → Model.FatType
  | .Fat16 => .fat16
  | .Fat32 => .fat32

/-- A model outcome read as the translated function's `Except String Bpb`: the model's
`FormatError msg` is the Rust `&'static str` error. -/
def ofRes : Res (Model.FatType × Nat) → Option (Except String Funs.Bpb)
  | .ok (.fat16, cc) => some (.ok { fat_type := .Fat16, cluster_count := cc })
  | .ok (.fat32, cc) => some (.ok { fat_type := .Fat32, cluster_count := cc })
  | .err (.FormatError s) => some (.error s)
  | _ => none

/-- `Bpb::create_from_bytes` as translated from the source equals the model's `createFromBytes`,
for every sector: same FAT type and cluster count, or the same error string.  In particular the
boundaries `cluster_count < 4085` (FAT12, rejected) and `cluster_count < 65525` (FAT16) are the
source's. -/
theorem create_from_bytes_eq (d : Bytes) :
    some (Funs.Bpb_create_from_bytes d) = ofRes (Bpb.createFromBytes d) := by
  unfold Funs.Bpb_create_from_bytes Bpb.createFromBytes
  simp only [footer_eq, root_entries_count_eq, num_fats_eq, fat_size_eq, reserved_block_count_eq, from_bytes_eq,
    total_blocks_eq, blocks_per_cluster_eq, fs_ver_eq]
  rw [show BPB_FOOTER_VALUE = 43605 from rfl, show DIRENT_LEN = 32 from rfl, show U32_MAX = 4294967295 from rfl,
    show FAT12_LIMIT = 4085 from rfl, show FAT16_LIMIT = 65525 from rfl]
  by_cases h0 : Bpb.footer d = 43605
  case neg => simp only [h0, ne_eq, not_false_eq_true, if_true]; rfl
  simp only [h0, ne_eq, not_true_eq_false, if_false]
  by_cases h1 : Bpb.numFats d * Bpb.fatSize d > 4294967295
  · have h1' : ¬ Bpb.numFats d * Bpb.fatSize d < 4294967296 := by omega
    simp only [h1, h1', if_true, if_false]; rfl
  have h1' : Bpb.numFats d * Bpb.fatSize d < 4294967296 := by omega
  simp only [h1, h1', if_true, if_false, Option.bind]
  by_cases h2 : Bpb.numFats d * Bpb.fatSize d + Bpb.reservedBlockCount d > 4294967295
  · have h2' : ¬ Bpb.numFats d * Bpb.fatSize d + Bpb.reservedBlockCount d < 4294967296 := by omega
    simp only [h2, h2', if_true, if_false]; rfl
  have h2' : Bpb.numFats d * Bpb.fatSize d + Bpb.reservedBlockCount d < 4294967296 := by omega
  simp only [h2, h2', if_true, if_false]
  by_cases h3 : Bpb.numFats d * Bpb.fatSize d + Bpb.reservedBlockCount d +
      blockCountFromBytes (Bpb.rootEntriesCount d * 32) > 4294967295
  · have h3' : ¬ Bpb.numFats d * Bpb.fatSize d + Bpb.reservedBlockCount d +
      blockCountFromBytes (Bpb.rootEntriesCount d * 32) < 4294967296 := by omega
    simp only [h3, h3', if_true, if_false]; rfl
  have h3' : Bpb.numFats d * Bpb.fatSize d + Bpb.reservedBlockCount d +
      blockCountFromBytes (Bpb.rootEntriesCount d * 32) < 4294967296 := by omega
  simp only [h3, h3', if_true, if_false]
  by_cases h4 : Bpb.totalBlocks d < Bpb.numFats d * Bpb.fatSize d + Bpb.reservedBlockCount d +
      blockCountFromBytes (Bpb.rootEntriesCount d * 32)
  · have h4' : ¬ Bpb.numFats d * Bpb.fatSize d + Bpb.reservedBlockCount d +
      blockCountFromBytes (Bpb.rootEntriesCount d * 32) ≤ Bpb.totalBlocks d := by omega
    simp only [h4, h4', if_true, if_false]; rfl
  have h4' : Bpb.numFats d * Bpb.fatSize d + Bpb.reservedBlockCount d +
      blockCountFromBytes (Bpb.rootEntriesCount d * 32) ≤ Bpb.totalBlocks d := by omega
  simp only [h4, h4', if_true, if_false]
  by_cases h5 : Bpb.blocksPerCluster d = 0
  · simp only [h5, if_true]; rfl
  simp only [h5, if_false]
  by_cases h6 : (Bpb.totalBlocks d - (Bpb.numFats d * Bpb.fatSize d + Bpb.reservedBlockCount d +
      blockCountFromBytes (Bpb.rootEntriesCount d * 32))) / Bpb.blocksPerCluster d < 4085
  · simp only [h6, if_true]; rfl
  simp only [h6, if_false]
  by_cases h7 : (Bpb.totalBlocks d - (Bpb.numFats d * Bpb.fatSize d + Bpb.reservedBlockCount d +
      blockCountFromBytes (Bpb.rootEntriesCount d * 32))) / Bpb.blocksPerCluster d < 65525
  · simp only [h7, if_true]; rfl
  simp only [h7, if_false]
  by_cases h8 : Bpb.fsVer d = 0
  · simp [h8, ofRes]
  · simp [h8, ofRes]

/-- A sector with 512-byte blocks, one block per cluster, one reserved block, two FATs of 32
blocks, 512 root entries and 8000 blocks in all: 7903 clusters, FAT16. -/
def exampleBpb : Bytes :=
  List.replicate 11 0 ++ [0x00, 0x02, 0x01, 0x01, 0x00, 0x02, 0x00, 0x02, 0x00, 0x00, 0xF8, 0x20, 0x00] ++
    List.replicate 8 0 ++ [0x40, 0x1F, 0x00, 0x00] ++ List.replicate 474 0 ++ [0x55, 0xAA]

example : exampleBpb.length = 512 := by decide +kernel
example : Funs.Bpb_create_from_bytes exampleBpb = .ok { fat_type := .Fat16, cluster_count := 7903 } := by
  decide +kernel
example : Funs.Bpb_create_from_bytes (List.replicate 512 0) = .error "Bad BPB footer" := by decide +kernel

/-! ### Layout arithmetic of `parse_volume` -/

/-- `let fat_start = BlockCount(u32::from(bpb.reserved_block_count()))`. -/
theorem fat_start_eq (d : Bytes) : Funs.parse_volume_fat_start d = Bpb.reservedBlockCount d := rfl

/-- `let second_fat_start = if bpb.num_fats() == 2 { Some(fat_start + BlockCount(bpb.fat_size())) } else { None }`. -/
theorem second_fat_start_eq (d : Bytes) :
    Funs.parse_volume_second_fat_start d =
      if Bpb.numFats d = 2 then some (Bpb.reservedBlockCount d + Bpb.fatSize d) else none := rfl

/-- FAT16 `root_dir_blocks`. -/
theorem fat16_root_dir_blocks_eq (d : Bytes) :
    Funs.parse_volume_fat16_root_dir_blocks d =
      (Bpb.rootEntriesCount d * DIRENT_LEN + (BLOCK_LEN_U32 - 1)) / BLOCK_LEN_U32 := rfl

/-- FAT16 `first_root_dir_block`. -/
theorem fat16_first_root_dir_block_eq (d : Bytes) :
    Funs.parse_volume_fat16_first_root_dir_block d =
      Bpb.reservedBlockCount d + Bpb.numFats d * Bpb.fatSize d := rfl

/-- FAT16 `first_data_block`. -/
theorem fat16_first_data_block_eq (d : Bytes) :
    Funs.parse_volume_fat16_first_data_block d =
      Bpb.reservedBlockCount d + Bpb.numFats d * Bpb.fatSize d +
        (Bpb.rootEntriesCount d * DIRENT_LEN + (BLOCK_LEN_U32 - 1)) / BLOCK_LEN_U32 := rfl

/-- FAT32 `first_data_block`. -/
theorem fat32_first_data_block_eq (d : Bytes) :
    Funs.parse_volume_fat32_first_data_block d = Bpb.reservedBlockCount d + Bpb.numFats d * Bpb.fatSize d := rfl

/-- FAT32 `info_block_idx`: `lba_start.0.checked_add(info_location.0).map(BlockIdx).ok_or(..)`. -/
theorem fat32_info_block_idx_eq (lba info : Nat) :
    Funs.parse_volume_fat32_info_block_idx lba info =
      if lba + info > U32_MAX then .error "FormatError: Info sector out of range" else .ok (lba + info) := by
  unfold Funs.parse_volume_fat32_info_block_idx
  by_cases h : lba + info > U32_MAX
  · have h' : ¬ lba + info < 4294967296 := by unfold U32_MAX at h; omega
    simp only [h, h', if_true, if_false]; rfl
  · have h' : lba + info < 4294967296 := by unfold U32_MAX at h; omega
    simp only [h, h', if_true, if_false]; rfl

example : Funs.parse_volume_fat16_first_data_block exampleBpb = 97 := by decide +kernel
example : Funs.parse_volume_second_fat_start exampleBpb = some 33 := by decide +kernel

end Sdmmc.Props.C15Gen
