/-
C12, end to end — the driver model `Sdmmc.Model.Sd` run against the specification card
`Sdmmc.Spec.Card` as its SPI bus (`Sdmmc.Props.C12.cardBus`): single- and multiple-block reads and
writes for every card kind and either CRC mode, multi-block transfers against the same
single-block transfers in order, and the reported capacity.

Property theorems only; the symbolic execution lives in `Sdmmc.Lemmas.SdCardSim2*`.

Reading guide.  Every theorem is about one driver call on a state `s : St Card` whose bus
`s.bus` is the card.  The card's timing (`ncr`, `nac`, `busy`) is arbitrary within the driver's
retry budgets; `s.useCrc` is arbitrary (the card must not check CRCs the driver does not send:
`CrcAgree`).  The conclusion always gives the result, what happened to the card's memory
(`getBlock`), that nothing else about the card changed and no protocol violation was recorded
(`SameCard`, `violations`), and the state the card is left in (`Settled`, `busyLeft`).

What "ready again" means, precisely: after a single-block read, a write of any number of blocks
or a register read the card is `Settled` with `busyLeft = 0`.  For the writes the driver has
polled the busy signal away with `wait_not_busy`, budget `DEFAULT_WRITE_RETRIES`: for a single
block after the data response, followed by the status read CMD13; for a multiple-block write
after the stop token and one byte that is clocked and discarded (see below).  After a
*multiple-block read* the card is `Settled` but still has `busyLeft = busy` bytes of busy signal
to send (CMD12 is answered R1b: R1, then busy directly): the driver does not wait for them; the
next command's `wait_not_busy` does, with the smaller budget `DEFAULT_COMMAND_RETRIES`.  That is
why every theorem accepts `busyLeft ≤ DEFAULT_COMMAND_RETRIES` on entry rather than `busyLeft = 0`.

The gap N_BR (`Card.stopGap`): the specification allows a card to take up to one byte after the
stop token of a multiple-block write before it pulls the line low.  The write theorems hold for
`stopGap ≤ 1`: after `write_byte(STOP_TRAN_TOKEN)` the driver does one `read_byte()` whose value
it discards — it swallows the gap byte (or, with `stopGap = 0`, the first busy byte) — and only
then `wait_not_busy`.  (CMD12's R1b has no such gap, and the read side of the driver is unchanged.)

History: before the repair the multiple-block write returned right after the stop token and left
`busyLeft = busy`; with `DEFAULT_COMMAND_RETRIES < busy ≤ DEFAULT_WRITE_RETRIES` the next command
then failed with `TimeoutWaitNotBusy` (reproduced on the crate: a read after a 2-block write on a
card busy for 12000 polls).  `write_multi_correct` now concludes `busyLeft = 0`, and
`write_multi_then_read` states the scenario that used to fail.
Second repair: an error inside the block loop of a multiple-block write used to return at once,
WITHOUT the stop token, leaving the card inside the write (the next command frame arrived "while
the card waits for a data token").  Now the loop's error is remembered, the stop sequence (busy
wait, stop token, busy wait) is attempted either way, and the loop's error is returned:
`write_multi_refused_block`, `write_refused_then_read`.

Outside the hypotheses (evaluated on the model with `#eval`, not theorems):
* `crcOn` but not `useCrc` (excluded by `CrcAgree`): the card answers the 0xFFFF "CRC" with the
  data response "CRC error", `write` returns `WriteError`, nothing is stored.
* `busy = DEFAULT_WRITE_RETRIES + 1`: the single-block `write` returns `TimeoutWaitNotBusy` — after
  the card has stored the block; the multiple-block `write` returns it from the wait in front of
  the second block, with the first block stored (the stop sequence is attempted, but its own busy
  wait times out as well, so no stop token is sent).
* `DEFAULT_COMMAND_RETRIES < busy`: a multiple-block *read* succeeds and leaves `busyLeft = busy`;
  the next command then fails with `TimeoutWaitNotBusy` (`busy = 10001`: fails; `busy = 10000`:
  succeeds).  (No `wait_not_busy` follows CMD12 in the driver.)
* `stopGap = 2` (not allowed by the specification; excluded by `stopGap ≤ 1`): after the stop token
  the discarded byte swallows one gap byte, `wait_not_busy` reads the second 0xFF and returns at
  once; the multiple-block `write` returns `Ok` with the card about to be busy for all its `busy`
  bytes: with `busy = 12000` the next command fails with `TimeoutWaitNotBusy`, with `busy` within
  the command budget it succeeds.  No violation either way.
* `ncr = DEFAULT_COMMAND_RETRIES + 1`: `TimeoutCommand`; `nac = DEFAULT_READ_RETRIES + 1`: `TimeoutReadBuffer`.
* card type and kind that do not fit (`Addressable`): the driver never looks at the R1 answer to
  CMD17/18/24/25, so with `card_type = SDHC` on a standard-capacity card `write(.., 512)` silently
  writes block 1; at a misaligned or out-of-range address the card refuses the command, the driver
  sends the data block anyway (recorded as violations) and returns `WriteError`.
* an SD1 card type with a version-2 register (excluded in `num_blocks_correct`): the version-1
  formula is applied to it (256 instead of 4096 blocks for `csdV2 3`).
-/
import Sdmmc.Props.C12
import Sdmmc.Lemmas.SdCardSim2Seq
import Sdmmc.Lemmas.SdCardSim2Init
import Sdmmc.Lemmas.SdCardSim2Refuse

namespace Sdmmc.Props.C12EndToEnd
open Sdmmc.Model Sdmmc.Model.Sd Sdmmc.Gen
open Sdmmc.Spec.Card (Card Kind getBlock zeros512 capacityOfCsd)
open Sdmmc.Props.C12 (cardBus)

/-! ## Vocabulary -/

/-- An initialised card between commands: out of the idle state, in the ready phase, no partial
command frame, no streaming read, nothing queued for output.  (It may still be signalling busy:
see `busyLeft`.) -/
def Settled (c : Card) : Prop :=
  c.initialised = true ∧ c.idle = false ∧ c.cmdBuf = [] ∧ c.phase = .ready ∧ c.streaming = none ∧ c.out = []

/-- The driver's idea of the card type fits the card's kind, and block `idx` has an address in
that mode: the block number itself, below 2^32, for a high-capacity card; the byte address
`idx * 512`, below 2^32, for a standard-capacity card (version 1 or 2). -/
def Addressable (ct : Option CardType) (k : Kind) (idx : Nat) : Prop :=
  (ct = some .SDHC ∧ k = .SDHC ∧ idx < 4294967296) ∨
  ((ct = some .SD1 ∨ ct = some .SD2) ∧ (k = .SD1 ∨ k = .SD2) ∧ idx < 8388608)

/-- The card does not check data CRCs unless the driver sends them.  (`acquire` establishes
`crcOn = useCrc`; for reads the card sends a CRC either way and the driver checks it or not.) -/
def CrcAgree (s : St Card) : Prop := s.bus.crcOn = true → s.useCrc = true

/-- Nothing about the card's identity, geometry, register, timing or CRC mode changed. -/
def SameCard (c c' : Card) : Prop :=
  c'.kind = c.kind ∧ c'.capacity = c.capacity ∧ c'.csd = c.csd ∧ c'.ncr = c.ncr ∧ c'.nac = c.nac ∧
  c'.busy = c.busy ∧ c'.crcOn = c.crcOn ∧ c'.stopGap = c.stopGap


/-- `n` single-block reads of consecutive blocks, in order, results concatenated. -/
def readSingles {σ : Type} (B : BusOps σ) : Nat → Nat → S σ (List Bytes)
  | 0, _ => pure []
  | n + 1, idx => do
    let b ← Sd.read B 1 idx
    let rest ← readSingles B n (idx + 1)
    pure (b ++ rest)

/-- Single-block writes of the given blocks to consecutive block numbers, in order. -/
def writeSingles {σ : Type} (B : BusOps σ) : List Bytes → Nat → S σ Unit
  | [], _ => pure ()
  | b :: rest, idx => do
    Sd.write B [b] idx
    writeSingles B rest (idx + 1)

/-! Glue to the lemma files (same definitions there). -/

private theorem settled_iff (c : Card) : Settled c ↔ Lemmas.SdCardSim2.Settled c :=
  ⟨fun ⟨a, b, c, d, e, f⟩ => ⟨a, b, c, d, e, f⟩, fun ⟨a, b, c, d, e, f⟩ => ⟨a, b, c, d, e, f⟩⟩

private theorem readSingles_eq {σ : Type} (B : BusOps σ) (n idx : Nat) :
    readSingles B n idx = Lemmas.SdCardSim2.readSingles B n idx := by
  induction n generalizing idx with
  | zero => rfl
  | succ n ih => simp only [readSingles, Lemmas.SdCardSim2.readSingles, ih]

private theorem writeSingles_eq {σ : Type} (B : BusOps σ) (blocks : List Bytes) (idx : Nat) :
    writeSingles B blocks idx = Lemmas.SdCardSim2.writeSingles B blocks idx := by
  induction blocks generalizing idx with
  | nil => rfl
  | cons b rest ih => simp only [writeSingles, Lemmas.SdCardSim2.writeSingles, ih]

private theorem outcome {s s' : St Card} (h : Lemmas.SdCardSim2.Outcome s s') :
    SameCard s.bus s'.bus ∧ s'.bus.violations = s.bus.violations ∧ Settled s'.bus ∧
      s'.cardType = s.cardType ∧ s'.useCrc = s.useCrc := by
  obtain ⟨⟨u1, u2, u3, u4, u5, u6, u7, u8, u9⟩, hs, hc, hu⟩ := h
  exact ⟨⟨u1, u2, u3, u4, u5, u6, u7, u9⟩, u8, (settled_iff _).2 hs, hc, hu⟩

/-! ## Single-block write -/

/-- A block write stores exactly the given bytes at that block number and nowhere else — every
card kind (through `Addressable`), data CRC enabled or disabled, any card timing within the
retry budgets (response delay `ncr ≤ DEFAULT_COMMAND_RETRIES`, programming time
`busy ≤ DEFAULT_WRITE_RETRIES`).  `write(&[blk], idx)` succeeds; afterwards block `idx` holds
`blk`, every other block holds what it held, the card recorded no violation and is settled and
no longer busy: the driver has waited for the busy signal to end and read the card status
(CMD13: R1 = 0, status byte = 0). -/
theorem write_single_correct (s : St Card) (hS : Settled s.bus)
    (hbl : s.bus.busyLeft ≤ DEFAULT_COMMAND_RETRIES) (hncr : s.bus.ncr ≤ DEFAULT_COMMAND_RETRIES)
    (hbusy : s.bus.busy ≤ DEFAULT_WRITE_RETRIES) (hcrc : CrcAgree s)
    (idx : Nat) (hadr : Addressable s.cardType s.bus.kind idx) (hidx : idx < s.bus.capacity)
    (blk : Bytes) (hlen : blk.length = 512) :
    ∃ s', Sd.write cardBus [blk] idx s = (.ok (), s') ∧
      getBlock s'.bus idx = blk ∧ (∀ j, j ≠ idx → getBlock s'.bus j = getBlock s.bus j) ∧
      SameCard s.bus s'.bus ∧ s'.bus.violations = s.bus.violations ∧ Settled s'.bus ∧ s'.bus.busyLeft = 0 ∧
      s'.cardType = s.cardType ∧ s'.useCrc = s.useCrc := by
  obtain ⟨s', h, hm, hb, ho⟩ :=
    Lemmas.SdCardSim2.write_single_sum s ((settled_iff _).1 hS) hbl hncr hbusy hcrc idx hadr hidx blk hlen
  obtain ⟨o1, o2, o3, o4, o5⟩ := outcome ho
  refine ⟨s', h, ?_, fun j hj => ?_, o1, o2, o3, hb, o4, o5⟩
  · rw [Lemmas.SdCardSim2.getBlock_insert s.bus s'.bus idx blk hm, if_pos rfl]
  · rw [Lemmas.SdCardSim2.getBlock_insert s.bus s'.bus idx blk hm, if_neg (fun h => hj h.symm)]

/-- … for a high-capacity card (block addressing). -/
theorem write_single_correct_sdhc (s : St Card) (hct : s.cardType = some .SDHC) (hk : s.bus.kind = .SDHC)
    (hS : Settled s.bus) (hbl : s.bus.busyLeft ≤ DEFAULT_COMMAND_RETRIES)
    (hncr : s.bus.ncr ≤ DEFAULT_COMMAND_RETRIES) (hbusy : s.bus.busy ≤ DEFAULT_WRITE_RETRIES) (hcrc : CrcAgree s)
    (idx : Nat) (hidx : idx < s.bus.capacity) (h32 : idx < 4294967296) (blk : Bytes) (hlen : blk.length = 512) :
    ∃ s', Sd.write cardBus [blk] idx s = (.ok (), s') ∧
      getBlock s'.bus idx = blk ∧ (∀ j, j ≠ idx → getBlock s'.bus j = getBlock s.bus j) ∧
      SameCard s.bus s'.bus ∧ s'.bus.violations = s.bus.violations ∧ Settled s'.bus ∧ s'.bus.busyLeft = 0 ∧
      s'.cardType = s.cardType ∧ s'.useCrc = s.useCrc :=
  write_single_correct s hS hbl hncr hbusy hcrc idx (Or.inl ⟨hct, hk, h32⟩) hidx blk hlen

/-- … for a standard-capacity card, version 1 or 2 (byte addressing: the driver sends `idx * 512`,
the card divides). -/
theorem write_single_correct_standard (s : St Card) (hct : s.cardType = some .SD1 ∨ s.cardType = some .SD2)
    (hk : s.bus.kind = .SD1 ∨ s.bus.kind = .SD2)
    (hS : Settled s.bus) (hbl : s.bus.busyLeft ≤ DEFAULT_COMMAND_RETRIES)
    (hncr : s.bus.ncr ≤ DEFAULT_COMMAND_RETRIES) (hbusy : s.bus.busy ≤ DEFAULT_WRITE_RETRIES) (hcrc : CrcAgree s)
    (idx : Nat) (hidx : idx < s.bus.capacity) (h23 : idx < 8388608) (blk : Bytes) (hlen : blk.length = 512) :
    ∃ s', Sd.write cardBus [blk] idx s = (.ok (), s') ∧
      getBlock s'.bus idx = blk ∧ (∀ j, j ≠ idx → getBlock s'.bus j = getBlock s.bus j) ∧
      SameCard s.bus s'.bus ∧ s'.bus.violations = s.bus.violations ∧ Settled s'.bus ∧ s'.bus.busyLeft = 0 ∧
      s'.cardType = s.cardType ∧ s'.useCrc = s.useCrc :=
  write_single_correct s hS hbl hncr hbusy hcrc idx (Or.inr ⟨hct, hk, h23⟩) hidx blk hlen

/-! ## Single-block read -/

/-- A block read returns the 512 bytes the card stores at that block number — every card kind,
data CRC checked by the driver or not, any card timing within the retry budgets (`ncr`, and the
data-access delay `nac ≤ DEFAULT_READ_RETRIES`).  Memory untouched, no violation, card settled and
not busy.  (Generalises `C12.read_single_correct_sdhc` to every kind and to a card still busy on
entry.) -/
theorem read_single_correct (s : St Card) (hS : Settled s.bus)
    (hbl : s.bus.busyLeft ≤ DEFAULT_COMMAND_RETRIES) (hncr : s.bus.ncr ≤ DEFAULT_COMMAND_RETRIES)
    (hnac : s.bus.nac ≤ DEFAULT_READ_RETRIES)
    (idx : Nat) (hadr : Addressable s.cardType s.bus.kind idx) (hidx : idx < s.bus.capacity)
    (hlen : (getBlock s.bus idx).length = 512) :
    ∃ s', Sd.read cardBus 1 idx s = (.ok [getBlock s.bus idx], s') ∧ s'.bus.mem = s.bus.mem ∧
      SameCard s.bus s'.bus ∧ s'.bus.violations = s.bus.violations ∧ Settled s'.bus ∧ s'.bus.busyLeft = 0 ∧
      s'.cardType = s.cardType ∧ s'.useCrc = s.useCrc := by
  obtain ⟨s', h, hm, hb, ho⟩ :=
    Lemmas.SdCardSim2.read_single_sum s ((settled_iff _).1 hS) hbl hncr hnac idx hadr hidx hlen
  obtain ⟨o1, o2, o3, o4, o5⟩ := outcome ho
  exact ⟨s', h, hm, o1, o2, o3, hb, o4, o5⟩

/-- … for a standard-capacity card, version 1 or 2: block `idx` is returned (the driver sends
`idx * 512`, the card divides). -/
theorem read_single_correct_standard (s : St Card) (hct : s.cardType = some .SD1 ∨ s.cardType = some .SD2)
    (hk : s.bus.kind = .SD1 ∨ s.bus.kind = .SD2)
    (hS : Settled s.bus) (hbl : s.bus.busyLeft ≤ DEFAULT_COMMAND_RETRIES)
    (hncr : s.bus.ncr ≤ DEFAULT_COMMAND_RETRIES) (hnac : s.bus.nac ≤ DEFAULT_READ_RETRIES)
    (idx : Nat) (hidx : idx < s.bus.capacity) (h23 : idx < 8388608)
    (hlen : (getBlock s.bus idx).length = 512) :
    ∃ s', Sd.read cardBus 1 idx s = (.ok [getBlock s.bus idx], s') ∧ s'.bus.mem = s.bus.mem ∧
      SameCard s.bus s'.bus ∧ s'.bus.violations = s.bus.violations ∧ Settled s'.bus ∧ s'.bus.busyLeft = 0 ∧
      s'.cardType = s.cardType ∧ s'.useCrc = s.useCrc :=
  read_single_correct s hS hbl hncr hnac idx (Or.inr ⟨hct, hk, h23⟩) hidx hlen

/-! ## Multiple-block read -/

/-- A multiple-block read (`n ≠ 1` blocks: CMD18, the streamed blocks, CMD12) returns the blocks
`idx, …, idx + n - 1` the card stores, in order; memory untouched, no violation — including for
the CMD12 frame sent while the card is already sending block `idx + n`.  The card is left settled
but signalling busy for `busy` more bytes (CMD12 is answered R1b): the driver returns without
waiting for that.  (The blocks up to and including `idx + n`, the one the card starts to send
before CMD12 arrives, must be 512 bytes long in the card's memory.) -/
theorem read_multi_correct (s : St Card) (hS : Settled s.bus)
    (hbl : s.bus.busyLeft ≤ DEFAULT_COMMAND_RETRIES) (hncr : s.bus.ncr ≤ DEFAULT_COMMAND_RETRIES)
    (hnac : s.bus.nac ≤ DEFAULT_READ_RETRIES) (n idx : Nat) (hn : n ≠ 1)
    (hadr : Addressable s.cardType s.bus.kind idx) (hidx : idx < s.bus.capacity)
    (hcap : idx + n ≤ s.bus.capacity)
    (hlen : ∀ j, idx ≤ j → j ≤ idx + n → j < s.bus.capacity → (getBlock s.bus j).length = 512) :
    ∃ s', Sd.read cardBus n idx s = (.ok ((List.range' idx n).map (getBlock s.bus)), s') ∧
      s'.bus.mem = s.bus.mem ∧ SameCard s.bus s'.bus ∧ s'.bus.violations = s.bus.violations ∧
      Settled s'.bus ∧ s'.bus.busyLeft = s.bus.busy ∧ s'.cardType = s.cardType ∧ s'.useCrc = s.useCrc := by
  obtain ⟨s', h, hm, hb, ho⟩ :=
    Lemmas.SdCardSim2.read_multi_sum s ((settled_iff _).1 hS) hbl hncr hnac n idx hn hadr hidx hcap hlen
  obtain ⟨o1, o2, o3, o4, o5⟩ := outcome ho
  exact ⟨s', h, hm, o1, o2, o3, hb, o4, o5⟩

/-- … for a high-capacity card and `n ≥ 2`. -/
theorem read_multi_correct_sdhc (s : St Card) (hct : s.cardType = some .SDHC) (hk : s.bus.kind = .SDHC)
    (hS : Settled s.bus) (hbl : s.bus.busyLeft ≤ DEFAULT_COMMAND_RETRIES)
    (hncr : s.bus.ncr ≤ DEFAULT_COMMAND_RETRIES) (hnac : s.bus.nac ≤ DEFAULT_READ_RETRIES)
    (n idx : Nat) (hn : 2 ≤ n) (hcap : idx + n ≤ s.bus.capacity) (h32 : idx < 4294967296)
    (hlen : ∀ j, idx ≤ j → j ≤ idx + n → j < s.bus.capacity → (getBlock s.bus j).length = 512) :
    ∃ s', Sd.read cardBus n idx s = (.ok ((List.range' idx n).map (getBlock s.bus)), s') ∧
      s'.bus.mem = s.bus.mem ∧ SameCard s.bus s'.bus ∧ s'.bus.violations = s.bus.violations ∧
      Settled s'.bus ∧ s'.bus.busyLeft = s.bus.busy ∧ s'.cardType = s.cardType ∧ s'.useCrc = s.useCrc :=
  read_multi_correct s hS hbl hncr hnac n idx (by omega) (Or.inl ⟨hct, hk, h32⟩) (by omega) hcap hlen

/-- A multiple-block read is equivalent to the same single-block reads in order: same blocks
returned, same (unchanged) card memory afterwards. -/
theorem read_multi_eq_singles (s : St Card) (hS : Settled s.bus)
    (hbl : s.bus.busyLeft ≤ DEFAULT_COMMAND_RETRIES) (hncr : s.bus.ncr ≤ DEFAULT_COMMAND_RETRIES)
    (hnac : s.bus.nac ≤ DEFAULT_READ_RETRIES) (n idx : Nat) (hn : 2 ≤ n)
    (hadr : ∀ k, k < n → Addressable s.cardType s.bus.kind (idx + k)) (hcap : idx + n ≤ s.bus.capacity)
    (hlen : ∀ j, idx ≤ j → j ≤ idx + n → j < s.bus.capacity → (getBlock s.bus j).length = 512) :
    ∃ bs s₁ s₂, Sd.read cardBus n idx s = (.ok bs, s₁) ∧ readSingles cardBus n idx s = (.ok bs, s₂) ∧
      s₁.bus.mem = s₂.bus.mem ∧ s₁.bus.violations = s₂.bus.violations := by
  obtain ⟨s₁, h1, m1, _, o1⟩ := Lemmas.SdCardSim2.read_multi_sum s ((settled_iff _).1 hS) hbl hncr hnac n idx
    (by omega) (by have := hadr 0 (by omega); rw [Nat.add_zero] at this; exact this) (by omega) hcap hlen
  obtain ⟨s₂, h2, m2, _, o2⟩ := Lemmas.SdCardSim2.readSingles_card n idx s ((settled_iff _).1 hS) hbl hncr hnac
    hadr hcap (fun j h1 h2 => hlen j h1 (by omega) (by omega))
  refine ⟨_, s₁, s₂, h1, ?_, m1.trans m2.symm,
    o1.unchanged.2.2.2.2.2.2.2.1.trans o2.unchanged.2.2.2.2.2.2.2.1.symm⟩
  rw [readSingles_eq]; exact h2

/-! ## Multiple-block write -/

/-- A multiple-block write (any number of blocks other than one: ACMD23, CMD25, each block behind
a 0xFC token, the stop token) stores block `j` of the slice at block number `idx + j` and changes
no other block; no violation.  After the stop token the driver clocks and discards one byte and
then waits (budget `DEFAULT_WRITE_RETRIES`) for the card to finish programming: the card is left
settled and no longer busy — for a card that takes no or one byte to signal busy after the stop
token (`stopGap ≤ 1`). -/
theorem write_multi_correct (s : St Card) (hS : Settled s.bus)
    (hbl : s.bus.busyLeft ≤ DEFAULT_COMMAND_RETRIES) (hncr : s.bus.ncr ≤ DEFAULT_COMMAND_RETRIES)
    (hbusy : s.bus.busy ≤ DEFAULT_WRITE_RETRIES) (hgap : s.bus.stopGap ≤ 1) (hcrc : CrcAgree s)
    (blocks : List Bytes) (idx : Nat) (hn : blocks.length ≠ 1)
    (hadr : Addressable s.cardType s.bus.kind idx) (hidx : idx < s.bus.capacity)
    (hcap : idx + blocks.length ≤ s.bus.capacity) (hlen : ∀ b ∈ blocks, b.length = 512) :
    ∃ s', Sd.write cardBus blocks idx s = (.ok (), s') ∧
      (∀ j (hj : j < blocks.length), getBlock s'.bus (idx + j) = blocks[j]) ∧
      (∀ i, i < idx ∨ idx + blocks.length ≤ i → getBlock s'.bus i = getBlock s.bus i) ∧
      SameCard s.bus s'.bus ∧ s'.bus.violations = s.bus.violations ∧ Settled s'.bus ∧
      s'.bus.busyLeft = 0 ∧ s'.cardType = s.cardType ∧ s'.useCrc = s.useCrc := by
  obtain ⟨s', h, hm, hb, ho⟩ := Lemmas.SdCardSim2.write_multi_sum s ((settled_iff _).1 hS) hbl hncr hbusy hgap hcrc
    blocks idx hn hadr hidx hcap hlen
  obtain ⟨o1, o2, o3, o4, o5⟩ := outcome ho
  refine ⟨s', h, fun j hj => ?_, fun i hi => ?_, o1, o2, o3, hb, o4, o5⟩
  · rw [Lemmas.SdCardSim2.getBlock_writeMem s.bus s'.bus idx blocks hm, if_pos ⟨by omega, by omega⟩,
      Nat.add_sub_cancel_left]
    simp [List.getD_eq_getElem?_getD, hj]
  · rw [Lemmas.SdCardSim2.getBlock_writeMem s.bus s'.bus idx blocks hm, if_neg (by omega)]

/-- … for a high-capacity card and at least two blocks. -/
theorem write_multi_correct_sdhc (s : St Card) (hct : s.cardType = some .SDHC) (hk : s.bus.kind = .SDHC)
    (hS : Settled s.bus) (hbl : s.bus.busyLeft ≤ DEFAULT_COMMAND_RETRIES)
    (hncr : s.bus.ncr ≤ DEFAULT_COMMAND_RETRIES) (hbusy : s.bus.busy ≤ DEFAULT_WRITE_RETRIES)
    (hgap : s.bus.stopGap ≤ 1) (hcrc : CrcAgree s)
    (blocks : List Bytes) (idx : Nat) (hn : 2 ≤ blocks.length) (hcap : idx + blocks.length ≤ s.bus.capacity)
    (h32 : idx < 4294967296) (hlen : ∀ b ∈ blocks, b.length = 512) :
    ∃ s', Sd.write cardBus blocks idx s = (.ok (), s') ∧
      (∀ j (hj : j < blocks.length), getBlock s'.bus (idx + j) = blocks[j]) ∧
      (∀ i, i < idx ∨ idx + blocks.length ≤ i → getBlock s'.bus i = getBlock s.bus i) ∧
      SameCard s.bus s'.bus ∧ s'.bus.violations = s.bus.violations ∧ Settled s'.bus ∧
      s'.bus.busyLeft = 0 ∧ s'.cardType = s.cardType ∧ s'.useCrc = s.useCrc :=
  write_multi_correct s hS hbl hncr hbusy hgap hcrc blocks idx (by omega) (Or.inl ⟨hct, hk, h32⟩) (by omega) hcap hlen

/-- A multiple-block write is equivalent to the same single-block writes in order: the same
final card memory (and no violation either way). -/
theorem write_multi_eq_singles (s : St Card) (hS : Settled s.bus)
    (hbl : s.bus.busyLeft ≤ DEFAULT_COMMAND_RETRIES) (hncr : s.bus.ncr ≤ DEFAULT_COMMAND_RETRIES)
    (hbusy : s.bus.busy ≤ DEFAULT_WRITE_RETRIES) (hgap : s.bus.stopGap ≤ 1) (hcrc : CrcAgree s)
    (blocks : List Bytes) (idx : Nat) (hn : 2 ≤ blocks.length)
    (hadr : ∀ k, k < blocks.length → Addressable s.cardType s.bus.kind (idx + k))
    (hcap : idx + blocks.length ≤ s.bus.capacity) (hlen : ∀ b ∈ blocks, b.length = 512) :
    ∃ s₁ s₂, Sd.write cardBus blocks idx s = (.ok (), s₁) ∧ writeSingles cardBus blocks idx s = (.ok (), s₂) ∧
      s₁.bus.mem = s₂.bus.mem ∧ s₁.bus.violations = s₂.bus.violations := by
  obtain ⟨s₁, h1, m1, _, o1⟩ := Lemmas.SdCardSim2.write_multi_sum s ((settled_iff _).1 hS) hbl hncr hbusy hgap hcrc
    blocks idx (by omega) (by have := hadr 0 (by omega); rw [Nat.add_zero] at this; exact this) (by omega) hcap hlen
  obtain ⟨s₂, h2, m2, _, o2⟩ := Lemmas.SdCardSim2.writeSingles_card blocks idx s ((settled_iff _).1 hS) hbl hncr
    hbusy hcrc hadr hcap hlen
  refine ⟨s₁, s₂, h1, ?_, m1.trans m2.symm, o1.unchanged.2.2.2.2.2.2.2.1.trans o2.unchanged.2.2.2.2.2.2.2.1.symm⟩
  rw [writeSingles_eq]; exact h2

/-! ## Write, then read -/

/-- What was written is read back: after `write(&[blk], idx)`, `read(&mut [b], idx)` returns `blk`. -/
theorem write_then_read (s : St Card) (hS : Settled s.bus)
    (hbl : s.bus.busyLeft ≤ DEFAULT_COMMAND_RETRIES) (hncr : s.bus.ncr ≤ DEFAULT_COMMAND_RETRIES)
    (hnac : s.bus.nac ≤ DEFAULT_READ_RETRIES) (hbusy : s.bus.busy ≤ DEFAULT_WRITE_RETRIES) (hcrc : CrcAgree s)
    (idx : Nat) (hadr : Addressable s.cardType s.bus.kind idx) (hidx : idx < s.bus.capacity)
    (blk : Bytes) (hlen : blk.length = 512) :
    ∃ s' s'', Sd.write cardBus [blk] idx s = (.ok (), s') ∧ Sd.read cardBus 1 idx s' = (.ok [blk], s'') ∧
      s''.bus.violations = s.bus.violations := by
  obtain ⟨s', hw, hget, _, ⟨k1, k2, _, k4, k5, _, _⟩, hv, hS', hb', hct', _⟩ :=
    write_single_correct s hS hbl hncr hbusy hcrc idx hadr hidx blk hlen
  obtain ⟨s'', hr, _, _, hv', _⟩ := read_single_correct s' hS' (by rw [hb']; exact Nat.zero_le _) (by rw [k4]; exact hncr)
    (by rw [k5]; exact hnac) idx (by rw [hct', k1]; exact hadr) (by rw [k2]; exact hidx) (by rw [hget]; exact hlen)
  rw [hget] at hr
  exact ⟨s', s'', hw, hr, hv'.trans hv⟩

/-- The scenario that failed before the driver waited after the stop token: after a
multiple-block write on a card whose programming time is only within the *write* budget
(`busy ≤ DEFAULT_WRITE_RETRIES`, possibly above `DEFAULT_COMMAND_RETRIES`), a following
single-block read of any of the written blocks succeeds and returns that block. -/
theorem write_multi_then_read (s : St Card) (hS : Settled s.bus)
    (hbl : s.bus.busyLeft ≤ DEFAULT_COMMAND_RETRIES) (hncr : s.bus.ncr ≤ DEFAULT_COMMAND_RETRIES)
    (hnac : s.bus.nac ≤ DEFAULT_READ_RETRIES) (hbusy : s.bus.busy ≤ DEFAULT_WRITE_RETRIES) (hgap : s.bus.stopGap ≤ 1) (hcrc : CrcAgree s)
    (blocks : List Bytes) (idx : Nat) (hn : blocks.length ≠ 1)
    (hcap : idx + blocks.length ≤ s.bus.capacity) (hlen : ∀ b ∈ blocks, b.length = 512)
    (j : Nat) (hj : j < blocks.length) (hadr : Addressable s.cardType s.bus.kind (idx + j)) :
    ∃ s' s'', Sd.write cardBus blocks idx s = (.ok (), s') ∧
      Sd.read cardBus 1 (idx + j) s' = (.ok [blocks[j]], s'') ∧ s''.bus.violations = s.bus.violations := by
  have hadr0 : Addressable s.cardType s.bus.kind idx := by
    rcases hadr with ⟨h1, h2, h3⟩ | ⟨h1, h2, h3⟩
    · exact Or.inl ⟨h1, h2, by omega⟩
    · exact Or.inr ⟨h1, h2, by omega⟩
  obtain ⟨s', hw, hget, _, ⟨k1, k2, _, k4, k5, _, _⟩, hv, hS', hb', hct', _⟩ :=
    write_multi_correct s hS hbl hncr hbusy hgap hcrc blocks idx hn hadr0 (by omega) hcap hlen
  have hg := hget j hj
  obtain ⟨s'', hr, _, _, hv', _⟩ := read_single_correct s' hS' (by rw [hb']; exact Nat.zero_le _)
    (by rw [k4]; exact hncr) (by rw [k5]; exact hnac) (idx + j) (by rw [hct', k1]; exact hadr)
    (by rw [k2]; omega) (by rw [hg]; exact hlen _ (List.getElem_mem hj))
  rw [hg] at hr
  exact ⟨s', s'', hw, hr, hv'.trans hv⟩

/-! ## A refused block -/

/-- A block of a multiple-block write is refused by the card (here: the write starts inside the
card and runs over its end, so the first block beyond the end gets the data response "write
error"): `write` returns `WriteError`; the blocks before the refused one are stored, every other
block holds what it held; the driver has still sent the stop sequence, so the card is settled —
back in the ready phase, not waiting for data blocks — and not busy; and the card has recorded no
violation. -/
theorem write_multi_refused_block (s : St Card) (hS : Settled s.bus)
    (hbl : s.bus.busyLeft ≤ DEFAULT_COMMAND_RETRIES) (hncr : s.bus.ncr ≤ DEFAULT_COMMAND_RETRIES)
    (hbusy : s.bus.busy ≤ DEFAULT_WRITE_RETRIES) (hgap : s.bus.stopGap ≤ 1) (hcrc : CrcAgree s)
    (blocks : List Bytes) (idx : Nat) (hn : blocks.length ≠ 1)
    (hadr : Addressable s.cardType s.bus.kind idx) (hidx : idx < s.bus.capacity)
    (hover : s.bus.capacity < idx + blocks.length) (hlen : ∀ b ∈ blocks, b.length = 512) :
    ∃ s', Sd.write cardBus blocks idx s = (.err .WriteError, s') ∧
      (∀ j (hj : j < blocks.length), idx + j < s.bus.capacity → getBlock s'.bus (idx + j) = blocks[j]) ∧
      (∀ i, i < idx ∨ s.bus.capacity ≤ i → getBlock s'.bus i = getBlock s.bus i) ∧
      SameCard s.bus s'.bus ∧ s'.bus.violations = s.bus.violations ∧ Settled s'.bus ∧
      s'.bus.busyLeft = 0 ∧ s'.cardType = s.cardType ∧ s'.useCrc = s.useCrc := by
  obtain ⟨s', h, hm, hb, ho⟩ := Lemmas.SdCardSim2.write_multi_oor_sum s ((settled_iff _).1 hS) hbl hncr hbusy hgap hcrc
    blocks idx hn hadr hidx hover hlen
  obtain ⟨o1, o2, o3, o4, o5⟩ := outcome ho
  have hl : (blocks.take (s.bus.capacity - idx)).length = s.bus.capacity - idx := by
    rw [List.length_take]; omega
  refine ⟨s', h, fun j hj hin => ?_, fun i hi => ?_, o1, o2, o3, hb, o4, o5⟩
  · rw [Lemmas.SdCardSim2.getBlock_writeMem s.bus s'.bus idx _ hm, if_pos ⟨by omega, by rw [hl]; omega⟩,
      Nat.add_sub_cancel_left]
    simp [List.getD_eq_getElem?_getD, hj, show j < s.bus.capacity - idx by omega]
  · rw [Lemmas.SdCardSim2.getBlock_writeMem s.bus s'.bus idx _ hm, if_neg (by rw [hl]; omega)]

/-- … and the card is usable afterwards: a following single-block read of any block of the card
succeeds and returns what the card stores there — for a block written before the refused one,
the written data.  (Before the repair this read's command frame was a protocol violation.) -/
theorem write_refused_then_read (s : St Card) (hS : Settled s.bus)
    (hbl : s.bus.busyLeft ≤ DEFAULT_COMMAND_RETRIES) (hncr : s.bus.ncr ≤ DEFAULT_COMMAND_RETRIES)
    (hnac : s.bus.nac ≤ DEFAULT_READ_RETRIES) (hbusy : s.bus.busy ≤ DEFAULT_WRITE_RETRIES) (hgap : s.bus.stopGap ≤ 1) (hcrc : CrcAgree s)
    (blocks : List Bytes) (idx : Nat) (hn : blocks.length ≠ 1)
    (hover : s.bus.capacity < idx + blocks.length) (hlen : ∀ b ∈ blocks, b.length = 512)
    (j : Nat) (hj : j < blocks.length) (hin : idx + j < s.bus.capacity)
    (hadr : Addressable s.cardType s.bus.kind (idx + j)) :
    ∃ s' s'', Sd.write cardBus blocks idx s = (.err .WriteError, s') ∧
      Sd.read cardBus 1 (idx + j) s' = (.ok [blocks[j]], s'') ∧ s''.bus.violations = s.bus.violations := by
  have hadr0 : Addressable s.cardType s.bus.kind idx := by
    rcases hadr with ⟨h1, h2, h3⟩ | ⟨h1, h2, h3⟩
    · exact Or.inl ⟨h1, h2, by omega⟩
    · exact Or.inr ⟨h1, h2, by omega⟩
  obtain ⟨s', hw, hget, _, ⟨k1, k2, _, k4, k5, _, _⟩, hv, hS', hb', hct', _⟩ :=
    write_multi_refused_block s hS hbl hncr hbusy hgap hcrc blocks idx hn hadr0 (by omega) hover hlen
  have hg := hget j hj hin
  obtain ⟨s'', hr, _, _, hv', _⟩ := read_single_correct s' hS' (by rw [hb']; exact Nat.zero_le _)
    (by rw [k4]; exact hncr) (by rw [k5]; exact hnac) (idx + j) (by rw [hct', k1]; exact hadr)
    (by rw [k2]; exact hin) (by rw [hg]; exact hlen _ (List.getElem_mem hj))
  rw [hg] at hr
  exact ⟨s', s'', hw, hr, hv'.trans hv⟩

/-! ## Capacity -/

/-- The reported capacity in blocks equals the capacity encoded in the card's specific-data
register for its register layout: `num_blocks` against a settled card holding a 16-byte CSD
returns `capacityOfCsd` of that register — provided a version-1 card really holds a version-1
register, and short of the one saturating value of the version-2 formula (see
`C12.capacity_v2_saturates`).  The register is fetched with CMD9 and read like a data block. -/
theorem num_blocks_correct (s : St Card) (hS : Settled s.bus)
    (hbl : s.bus.busyLeft ≤ DEFAULT_COMMAND_RETRIES) (hncr : s.bus.ncr ≤ DEFAULT_COMMAND_RETRIES)
    (hnac : s.bus.nac ≤ DEFAULT_READ_RETRIES) (ct : CardType) (hct : s.cardType = some ct)
    (hlen : s.bus.csd.length = 16)
    (hv1 : ct = .SD1 → byteAt s.bus.csd 0 / 64 = 0)
    (hsat : byteAt s.bus.csd 0 / 64 ≠ 0 → Csd.v2DeviceSize s.bus.csd < 0x3FFFFF) :
    ∃ s', numBlocks cardBus s = (.ok (capacityOfCsd s.bus.csd), s') ∧ s'.bus.mem = s.bus.mem ∧
      s'.bus.violations = s.bus.violations ∧ Settled s'.bus ∧ s'.bus.busyLeft = 0 ∧
      s'.cardType = s.cardType ∧ s'.useCrc = s.useCrc := by
  obtain ⟨s', n, v2, hn, hc, a⟩ :=
    Lemmas.SdCardSim2.numBlocks_card s ((settled_iff _).1 hS) hbl hncr hnac ct hct hlen
  obtain ⟨csd', v2', hc', hspec⟩ := C12.numBlocks_matches_spec cardBus s s' n hn
  have : csd' = s.bus.csd := by
    have := hc.symm.trans hc'
    simp only [Prod.mk.injEq, SRes.ok.injEq] at this
    exact this.1.1.symm
  subst this
  have hn' : n = capacityOfCsd s.bus.csd := hspec (fun h => hv1 (by rw [hct] at h; exact Option.some.inj h)) hsat
  obtain ⟨h1, h2, h3, h4, h5, h6⟩ := hS
  refine ⟨s', by rw [← hn']; exact hn, by rw [a.1], by rw [a.1], ?_, by rw [a.1], a.2.1, a.2.2.1⟩
  rw [a.1]; exact ⟨h1, h2, h3, h4, h5, rfl⟩

/-- … and the reported capacity in bytes is 512 times that (a version-1 register must have
READ_BL_LEN ≥ 9, as every card with 512-byte blocks has). -/
theorem num_bytes_correct (s : St Card) (hS : Settled s.bus)
    (hbl : s.bus.busyLeft ≤ DEFAULT_COMMAND_RETRIES) (hncr : s.bus.ncr ≤ DEFAULT_COMMAND_RETRIES)
    (hnac : s.bus.nac ≤ DEFAULT_READ_RETRIES) (ct : CardType) (hct : s.cardType = some ct)
    (hlen : s.bus.csd.length = 16)
    (hv1 : ct = .SD1 → byteAt s.bus.csd 0 / 64 = 0)
    (hbl9 : byteAt s.bus.csd 0 / 64 = 0 → 9 ≤ byteAt s.bus.csd 5 % 16) :
    ∃ s', numBytes cardBus s = (.ok (512 * capacityOfCsd s.bus.csd), s') ∧ s'.bus.mem = s.bus.mem ∧
      s'.bus.violations = s.bus.violations ∧ Settled s'.bus ∧ s'.bus.busyLeft = 0 := by
  obtain ⟨s', n, v2, hn, hc, a⟩ :=
    Lemmas.SdCardSim2.numBytes_card s ((settled_iff _).1 hS) hbl hncr hnac ct hct hlen
  obtain ⟨csd', v2', hc', hspec⟩ := C12.numBytes_matches_spec cardBus s s' n hn
  have : csd' = s.bus.csd := by
    have := hc.symm.trans hc'
    simp only [Prod.mk.injEq, SRes.ok.injEq] at this
    exact this.1.1.symm
  subst this
  have hn' : n = 512 * capacityOfCsd s.bus.csd :=
    hspec (fun h => hv1 (by rw [hct] at h; exact Option.some.inj h)) hbl9
  obtain ⟨h1, h2, h3, h4, h5, h6⟩ := hS
  refine ⟨s', by rw [← hn']; exact hn, by rw [a.1], by rw [a.1], ?_, by rw [a.1]⟩
  rw [a.1]; exact ⟨h1, h2, h3, h4, h5, rfl⟩

/-! ## Identification -/

/-- The card type the driver should arrive at for a card of the given kind. -/
def typeOfKind : Kind → CardType
  | .SD1 => .SD1
  | .SD2 => .SD2
  | .SDHC => .SDHC

/-- A card with nothing in flight (as after power-up, or between commands): no partial command
frame, ready phase, no streaming read, not busy, nothing queued. -/
def Quiescent (c : Card) : Prop :=
  c.cmdBuf = [] ∧ c.phase = .ready ∧ c.streaming = none ∧ c.busyLeft = 0 ∧ c.out = []

/-- The card kind is identified correctly: `acquire`, with CRCs wanted or not, against a quiescent
card of any kind — response delay and number of ACMD41 polls the card needs within
`DEFAULT_COMMAND_RETRIES` — succeeds at the first attempt of every stage (CMD0, CMD59 if CRCs are
wanted, CMD8, the ACMD41 loop, CMD58 for a version-2 card), sets `card_type` to the card's kind,
and leaves the card exactly as the transfer theorems above need it: settled, not busy, checking
CRCs if and only if the driver uses them; memory, register, geometry and timing untouched; no
violation recorded. -/
theorem acquire_correct (s : St Card) (hq : Quiescent s.bus)
    (hncr : s.bus.ncr ≤ DEFAULT_COMMAND_RETRIES) (hpolls : s.bus.initPolls ≤ DEFAULT_COMMAND_RETRIES) :
    ∃ s', acquire cardBus s = (.ok (), s') ∧ s'.cardType = some (typeOfKind s.bus.kind) ∧
      Settled s'.bus ∧ s'.bus.busyLeft = 0 ∧ s'.bus.crcOn = s.useCrc ∧
      s'.bus.kind = s.bus.kind ∧ s'.bus.capacity = s.bus.capacity ∧ s'.bus.csd = s.bus.csd ∧
      s'.bus.ncr = s.bus.ncr ∧ s'.bus.nac = s.bus.nac ∧ s'.bus.busy = s.bus.busy ∧
      s'.bus.mem = s.bus.mem ∧ s'.bus.violations = s.bus.violations ∧ s'.useCrc = s.useCrc ∧
      s'.bus.stopGap = s.bus.stopGap := by
  obtain ⟨h1, h2, h3, h4, h5⟩ := hq
  obtain ⟨s', N, h, hb, hc, hu, _⟩ := Lemmas.SdCardSim2.acquire_card s ⟨h1, h2, h3, h4⟩ h5 hncr hpolls
  refine ⟨s', h, ?_, ?_, ?_, ?_, ?_, ?_, ?_, ?_, ?_, ?_, ?_, ?_, hu, ?_⟩ <;> try (rw [hb]; rfl)
  · rw [hc]; cases s.bus.kind <;> rfl
  · rw [hb]; exact ⟨rfl, rfl, rfl, rfl, rfl, rfl⟩

/-- … in particular for a freshly powered card `Spec.Card.mk kind …`. -/
theorem acquire_identifies_kind (kind : Kind) (csd : List UInt8) (ncr nac busy initPolls gap : Nat)
    (hncr : ncr ≤ DEFAULT_COMMAND_RETRIES) (hpolls : initPolls ≤ DEFAULT_COMMAND_RETRIES)
    (s : St Card) (hbus : s.bus = Spec.Card.mk kind csd ncr nac busy initPolls gap) :
    ∃ s', acquire cardBus s = (.ok (), s') ∧ s'.cardType = some (typeOfKind kind) ∧
      Settled s'.bus ∧ s'.bus.busyLeft = 0 ∧ s'.bus.crcOn = s.useCrc ∧ s'.bus.violations = [] := by
  obtain ⟨s', h, hc, hS, hb, hcrc, hk, _, _, _, _, _, _, hv, _, _⟩ :=
    acquire_correct s (by rw [hbus]; exact ⟨rfl, rfl, rfl, rfl, rfl⟩) (by rw [hbus]; exact hncr)
      (by rw [hbus]; exact hpolls)
  rw [hbus] at hc hv
  exact ⟨s', h, hc, hS, hb, hcrc, hv⟩

/-- From power-up to data, through the public calls: on a freshly powered card of any kind, with
CRCs on or off, `write(&[blk], idx)` (which first runs `acquire`) followed by `read(&mut [b], idx)`
returns `blk`, and the card has recorded no violation at all. -/
theorem fresh_card_write_then_read (kind : Kind) (csd : List UInt8) (ncr nac busy initPolls gap : Nat)
    (hncr : ncr ≤ DEFAULT_COMMAND_RETRIES) (hnac : nac ≤ DEFAULT_READ_RETRIES)
    (hbusy : busy ≤ DEFAULT_WRITE_RETRIES) (hpolls : initPolls ≤ DEFAULT_COMMAND_RETRIES)
    (s : St Card) (hbus : s.bus = Spec.Card.mk kind csd ncr nac busy initPolls gap) (hct : s.cardType = none)
    (idx : Nat) (hidx : idx < capacityOfCsd csd)
    (hadr : (kind = .SDHC ∧ idx < 4294967296) ∨ (kind ≠ .SDHC ∧ idx < 8388608))
    (blk : Bytes) (hlen : blk.length = 512) :
    ∃ s₁ s₂, call cardBus (.write [blk] idx) s = (.ok .unit, s₁) ∧
      call cardBus (.read 1 idx) s₁ = (.ok (.blocks [blk]), s₂) ∧ s₂.bus.violations = [] := by
  obtain ⟨s0, h0, hc0, hS0, hb0, hcrc0, hk0, hcap0, _, hncr0, hnac0, hbusy0, _, hv0, hu0, _⟩ :=
    acquire_correct s (by rw [hbus]; exact ⟨rfl, rfl, rfl, rfl, rfl⟩) (by rw [hbus]; exact hncr)
      (by rw [hbus]; exact hpolls)
  rw [hbus] at hc0 hk0 hcap0 hncr0 hnac0 hbusy0 hv0
  have hadr0 : Addressable s0.cardType s0.bus.kind idx := by
    rw [hc0, hk0]
    show Addressable (some (typeOfKind kind)) kind idx
    rcases hadr with ⟨rfl, h⟩ | ⟨hk, h⟩
    · exact Or.inl ⟨rfl, rfl, h⟩
    · cases kind
      · exact Or.inr ⟨Or.inl rfl, Or.inl rfl, h⟩
      · exact Or.inr ⟨Or.inr rfl, Or.inr rfl, h⟩
      · exact absurd rfl hk
  obtain ⟨s1, s2, hw1, hr2, hv2⟩ := write_then_read s0 hS0 (by rw [hb0]; exact Nat.zero_le _) (by rw [hncr0]; exact hncr)
    (by rw [hnac0]; exact hnac) (by rw [hbusy0]; exact hbusy) (fun h => by rw [hu0, ← hcrc0]; exact h) idx hadr0
    (by rw [hcap0]; exact hidx) blk hlen
  have hinit : checkInit cardBus s = (.ok (), s0) := by
    unfold checkInit; rw [Lemmas.Sd.bind_ok (Lemmas.Sd.get_apply s)]; simp only [hct, Option.isNone_none, if_true]
    exact h0
  have hct1 : s1.cardType = some (typeOfKind kind) := by
    obtain ⟨s', hw', _, _, _, _, _, _, hct', _⟩ :=
      write_single_correct s0 hS0 (by rw [hb0]; exact Nat.zero_le _) (by rw [hncr0]; exact hncr)
        (by rw [hbusy0]; exact hbusy) (fun h => by rw [hu0, ← hcrc0]; exact h) idx hadr0
        (by rw [hcap0]; exact hidx) blk hlen
    have : s' = s1 := by have := hw'.symm.trans hw1; simp only [Prod.mk.injEq, true_and] at this; exact this
    rw [← this, hct', hc0]; rfl
  have hinit1 : checkInit cardBus s1 = (.ok (), s1) := by
    unfold checkInit; rw [Lemmas.Sd.bind_ok (Lemmas.Sd.get_apply s1)]; simp only [hct1, Option.isNone_some]
    rfl
  refine ⟨s1, s2, ?_, ?_, by rw [hv2, hv0]; rfl⟩
  · show (do checkInit cardBus; write cardBus [blk] idx; pure Answer.unit : S Card Answer) s = _
    rw [Lemmas.Sd.bind_ok hinit, Lemmas.Sd.bind_ok hw1]; rfl
  · show (do checkInit cardBus; let bs ← Sd.read cardBus 1 idx; pure (Answer.blocks bs) : S Card Answer) s1 = _
    rw [Lemmas.Sd.bind_ok hinit1, Lemmas.Sd.bind_ok hr2]; rfl

/-! ## Non-vacuity (tests): the hypotheses are jointly satisfiable, on concrete cards -/

/-- A ready high-capacity card (4096 blocks) that checks CRCs, driven with CRCs on. -/
def demoSdhc : St Card :=
  { bus := { C12.demoCard with crcOn := true }, cardType := some .SDHC, useCrc := true }

/-- The same card not checking CRCs, driven with CRCs off. -/
def demoSdhcNoCrc : St Card := { bus := C12.demoCard, cardType := some .SDHC, useCrc := false }

/-- A ready version-1 standard-capacity card (2097152 blocks, slowest legal response), CRCs off. -/
def demoSd1 : St Card :=
  { bus := { Spec.Card.mk .SD1 (Spec.Card.csdV1 4095 7) 8 100 20000 0 with
             initialised := true, idle := false, spiMode := true },
    cardType := some .SD1, useCrc := false }

def demoBlock (x : UInt8) : Bytes := List.replicate 512 x

theorem demo_getBlock (c : Card) (h : c.mem = {}) (j : Nat) : (getBlock c j).length = 512 := by
  unfold getBlock; rw [h, Std.TreeMap.getD_emptyc, zeros512, List.length_replicate]

example : ∃ s', Sd.write cardBus [demoBlock 0xAB] 7 demoSdhc = (.ok (), s') ∧ getBlock s'.bus 7 = demoBlock 0xAB ∧
    getBlock s'.bus 8 = getBlock demoSdhc.bus 8 ∧ s'.bus.violations = [] := by
  obtain ⟨s', h, h1, h2, _, h3, _⟩ := write_single_correct_sdhc demoSdhc rfl rfl ⟨rfl, rfl, rfl, rfl, rfl, rfl⟩
    (by decide) (by decide) (by decide) (fun _ => rfl) 7 (by decide) (by decide) (demoBlock 0xAB)
    (List.length_replicate ..)
  exact ⟨s', h, h1, h2 8 (by decide), h3⟩

example : ∃ s', Sd.write cardBus [demoBlock 0xAB] 7 demoSdhcNoCrc = (.ok (), s') ∧
    getBlock s'.bus 7 = demoBlock 0xAB := by
  obtain ⟨s', h, h1, _⟩ := write_single_correct_sdhc demoSdhcNoCrc rfl rfl ⟨rfl, rfl, rfl, rfl, rfl, rfl⟩
    (by decide) (by decide) (by decide) (fun h => by cases h) 7 (by decide) (by decide) (demoBlock 0xAB)
    (List.length_replicate ..)
  exact ⟨s', h, h1⟩

example : ∃ s', Sd.write cardBus [demoBlock 1] 2097151 demoSd1 = (.ok (), s') ∧
    getBlock s'.bus 2097151 = demoBlock 1 := by
  obtain ⟨s', h, h1, _⟩ := write_single_correct_standard demoSd1 (Or.inl rfl) (Or.inl rfl)
    ⟨rfl, rfl, rfl, rfl, rfl, rfl⟩ (by decide) (by decide) (by decide) (fun h => by cases h) 2097151 (by decide)
    (by decide) (demoBlock 1) (List.length_replicate ..)
  exact ⟨s', h, h1⟩

example : ∃ s', Sd.read cardBus 1 2097151 demoSd1 = (.ok [zeros512], s') := by
  obtain ⟨s', h, _⟩ := read_single_correct_standard demoSd1 (Or.inl rfl) (Or.inl rfl)
    ⟨rfl, rfl, rfl, rfl, rfl, rfl⟩ (by decide) (by decide) (by decide) 2097151 (by decide) (by decide)
    (demo_getBlock _ rfl _)
  exact ⟨s', h⟩

/-- Three blocks up to the very last block of the card (the streaming read ends by itself there). -/
example : ∃ s', Sd.read cardBus 3 4093 demoSdhc = (.ok [zeros512, zeros512, zeros512], s') ∧
    s'.bus.busyLeft = 3 := by
  obtain ⟨s', h, _, _, _, _, hb, _⟩ := read_multi_correct_sdhc demoSdhc rfl rfl ⟨rfl, rfl, rfl, rfl, rfl, rfl⟩
    (by decide) (by decide) (by decide) 3 4093 (by decide) (by decide) (by decide)
    (fun j _ _ _ => demo_getBlock _ rfl j)
  exact ⟨s', h, hb⟩

example : ∃ s', Sd.write cardBus [demoBlock 1, demoBlock 2, demoBlock 3] 10 demoSdhc = (.ok (), s') ∧
    getBlock s'.bus 11 = demoBlock 2 ∧ getBlock s'.bus 13 = getBlock demoSdhc.bus 13 := by
  obtain ⟨s', h, h1, h2, _⟩ := write_multi_correct_sdhc demoSdhc rfl rfl ⟨rfl, rfl, rfl, rfl, rfl, rfl⟩
    (by decide) (by decide) (by decide) (by decide) (fun _ => rfl) [demoBlock 1, demoBlock 2, demoBlock 3] 10 (by decide)
    (by decide) (by decide) (by intro b hb; simp at hb; rcases hb with rfl | rfl | rfl <;> exact List.length_replicate ..)
  exact ⟨s', h, h1 1 (by decide), h2 13 (Or.inr (by decide))⟩

/-- The card of the defect report: busy for 12000 polls after programming, more than the command
budget.  A read after a 2-block write succeeds — whether the card signals busy at once … -/
example : ∃ s' s'', Sd.write cardBus [demoBlock 1, demoBlock 2] 10 { demoSdhc with bus.busy := 12000 } = (.ok (), s') ∧
    Sd.read cardBus 1 11 s' = (.ok [demoBlock 2], s'') := by
  obtain ⟨s', s'', h1, h2, _⟩ := write_multi_then_read { demoSdhc with bus.busy := 12000 } ⟨rfl, rfl, rfl, rfl, rfl, rfl⟩
    (by decide) (by decide) (by decide) (by decide) (by decide) (fun _ => rfl) [demoBlock 1, demoBlock 2] 10 (by decide)
    (by decide) (by intro b hb; simp at hb; rcases hb with rfl | rfl <;> exact List.length_replicate ..)
    1 (by decide) (Or.inl ⟨rfl, rfl, by decide⟩)
  exact ⟨s', s'', h1, h2⟩

/-- … or one byte after the stop token (`stopGap = 1`, N_BR): the byte the driver clocks and
discards after the stop token swallows the gap, so the busy wait sees the busy signal. -/
example : ∃ s' s'', Sd.write cardBus [demoBlock 1, demoBlock 2] 10
      { demoSdhc with bus.busy := 12000, bus.stopGap := 1 } = (.ok (), s') ∧
    Sd.read cardBus 1 11 s' = (.ok [demoBlock 2], s'') ∧ s''.bus.violations = [] := by
  obtain ⟨s', s'', h1, h2, h3⟩ := write_multi_then_read { demoSdhc with bus.busy := 12000, bus.stopGap := 1 }
    ⟨rfl, rfl, rfl, rfl, rfl, rfl⟩
    (by decide) (by decide) (by decide) (by decide) (by decide) (fun _ => rfl) [demoBlock 1, demoBlock 2] 10 (by decide)
    (by decide) (by intro b hb; simp at hb; rcases hb with rfl | rfl <;> exact List.length_replicate ..)
    1 (by decide) (Or.inl ⟨rfl, rfl, by decide⟩)
  exact ⟨s', s'', h1, h2, h3⟩

/-- Three blocks written at the last two blocks of the card: the third is refused, `WriteError`,
the first two are stored and can be read back. -/
example : ∃ s' s'', Sd.write cardBus [demoBlock 1, demoBlock 2, demoBlock 3] 4094 demoSdhc = (.err .WriteError, s') ∧
    Sd.read cardBus 1 4095 s' = (.ok [demoBlock 2], s'') ∧ s''.bus.violations = [] := by
  obtain ⟨s', s'', h1, h2, h3⟩ := write_refused_then_read demoSdhc ⟨rfl, rfl, rfl, rfl, rfl, rfl⟩
    (by decide) (by decide) (by decide) (by decide) (by decide) (fun _ => rfl) [demoBlock 1, demoBlock 2, demoBlock 3] 4094
    (by decide) (by decide)
    (by intro b hb; simp at hb; rcases hb with rfl | rfl | rfl <;> exact List.length_replicate ..)
    1 (by decide) (by decide) (Or.inl ⟨rfl, rfl, by decide⟩)
  exact ⟨s', s'', h1, h2, h3⟩

example : ∃ s', numBlocks cardBus demoSdhc = (.ok 4096, s') := by
  obtain ⟨s', h, _⟩ := num_blocks_correct demoSdhc ⟨rfl, rfl, rfl, rfl, rfl, rfl⟩ (by decide) (by decide) (by decide)
    .SDHC rfl (by decide) (by intro h; cases h) (by decide)
  exact ⟨s', h⟩

example : ∃ s', numBlocks cardBus demoSd1 = (.ok 2097152, s') := by
  obtain ⟨s', h, _⟩ := num_blocks_correct demoSd1 ⟨rfl, rfl, rfl, rfl, rfl, rfl⟩ (by decide) (by decide) (by decide)
    .SD1 rfl (by decide) (by decide) (by decide)
  exact ⟨s', h⟩

/-- Power-up to data for each kind, CRCs on. -/
example (kind : Kind) : ∃ s₁ s₂,
    call cardBus (.write [demoBlock 7] 100) { bus := Spec.Card.mk kind (Spec.Card.csdV2 3) 8 100 20000 1000 } =
      (.ok .unit, s₁) ∧
    call cardBus (.read 1 100) s₁ = (.ok (.blocks [demoBlock 7]), s₂) ∧ s₂.bus.violations = [] :=
  fresh_card_write_then_read kind (Spec.Card.csdV2 3) 8 100 20000 1000 0 (by decide) (by decide) (by decide) (by decide)
    _ rfl rfl 100 (by decide) (by cases kind <;> simp) (demoBlock 7) (List.length_replicate ..)

end Sdmmc.Props.C12EndToEnd
