/-
C05 (history form) — Cluster accounting is exact: no cluster is leaked, none is shared.

Property theorems only; the vocabulary (`isUsed`, `Partition`, `Forest`, `Owns`, `FatOp`, `step`,
`run`, `Exact`, `CountExact`) is `Sdmmc.Spec.Forest`, the proofs are `Sdmmc.Lemmas.Forest*`.
Model: `allocCluster`, `truncateClusterChain` (+ `truncateLoop`), `freeClusterChain`, `updateFat`,
`nextCluster` of `Sdmmc.Model.Fat`, mirroring `alloc_cluster`, `truncate_cluster_chain`,
`free_cluster_chain`, `update_fat`, `next_cluster` of /repo/src/fat/volume.rs.

WHAT IS PROVED (all volumes, all media, all histories; no bound on any size):

* `truncate_frees_exactly_tail`: `truncate_cluster_chain(x)` for `x` anywhere in a chain
  `pre ++ [x] ++ tail` returns `Ok`; afterwards the chain is `pre ++ [x]`, every cluster of `tail` is
  free, every other FAT entry (all clusters except `x` and `tail`) reads exactly as before, blocks
  outside the FAT are untouched, identical FAT copies stay identical, the known free count grew by
  `tail.length` (`u32` saturating, `satAdd`), the next-free hint is lowered to the first freed
  cluster.  `free_chain_frees_exactly_chain`: the same for `free_cluster_chain(c)` and the whole chain.
* `chain_fits_fuel`: FUEL ADEQUACY.  The model's loops take `chainFuel v = cluster_count + 3` fuel; a
  `Chain` has at most `cluster_count` clusters (pigeonhole on a repetition-free list of data
  clusters), so on a well-formed chain the loop never runs out — `diverged` is unreachable, no
  counterexample exists.
* `alloc_never_returns_used`: the cluster `alloc_cluster` hands out was free, hence not used, hence
  in no chain of the forest.
* `alloc_new_preserves`, `alloc_extend_preserves`, `forest_step`, `forest_history`: the invariant
  `Exact` — the engine state is `Ready` (no fault scheduled, cache coherent, 512-byte blocks,
  `WFGeom`, hint ≥ 2) and the client's record of its chains is exact (`Owns`: every list is the
  `Chain` of its first cluster, the lists are pairwise disjoint and repetition-free, and a cluster is
  `isUsed` iff it occurs in one of them) — is re-established by every `FatOp` on every state
  (success or `NotEnoughSpace`), hence holds after every history (`List.foldl step`).  `Forest` for
  the roots follows.  Also kept: the geometry of the volume record and the identity of FAT copies.
* `count_history`: the books are exact too — a known free count that equals the number of free
  clusters (`CountExact`) still does after every history: it never saturates and never underflows.
  `chains_determined`: the client's record carries no information beyond the roots.
* Corollaries over every reachable state: `no_leak` (a used cluster is in the chain of a root),
  `no_sharing` (a cluster occurs in at most one chain, at one position).

ASSUMPTIONS, stated plainly.  The history theorems are about fault-free runs: `Ready` contains
`NoFault`, i.e. no device call fails.  (With faults the invariant is false — a write error between
the FAT updates of one call leaves a leaked cluster, `Example.fault_leaks`; error propagation is
C11's subject.)
Bad-cluster marks are neither free nor used: no operation ever touches them.

HYPOTHESES THAT CANNOT BE DROPPED (`namespace Example`, each checked by evaluation of the model).
`Chain` demands that every link stays among the data clusters, ends in an end-of-chain mark and
never revisits a cluster.  Without it the statements about truncation are false, and the model —
like the Rust, whose FAT16 `next_cluster` accepts the entry `0x0000` as a link to cluster 0 — misbehaves:
* `Example.dangling_fat16`: a FAT16 chain `2 → 3 → 10` with `10` free.  `truncate_cluster_chain(2)`
  returns `Ok`, but walks on through cluster 10 to cluster 0, overwrites the reserved FAT entry 0
  (media descriptor `0xFFF8`) with `0x0000` and adds 3 to the free count although one cluster (3)
  was freed.
* `Example.cycle_fat16`: a FAT16 chain `2 → 3 → 4 → 3`.  Truncation terminates (the cycle is broken
  by its own frees), again zeroes FAT entry 0, and counts 4 freed clusters where 2 were freed.
* `Example.dangling_fat32`: on FAT32 the same dangling link is detected (`UnterminatedFatChain`), but
  only after the prefix was terminated and one cluster freed — the call fails half-way.
None of these states is reachable from an `Exact` state by fault-free histories (`forest_history`).
-/
import Sdmmc.Lemmas.ForestFinal

namespace Sdmmc.Props.C05Forest
open Sdmmc.Model Sdmmc.Model.Fat Sdmmc.Spec

/-! ### 1, 2: truncation and deletion free exactly what they should -/

/-- `truncate_cluster_chain(x)`, `x` anywhere in the chain of `c`. -/
theorem truncate_frees_exactly_tail (s : FS) (c x : Nat) (pre tail : List Nat) (hn : NoFault s) (hc : Coherent s)
    (hb : BlocksOK s.dev.disk) (hg : WFGeom s.vol) (hch : Chain s.vol s.dev.disk c (pre ++ [x] ++ tail)) :
    ∃ s', truncateClusterChain x s = (.ok (), s') ∧
      Chain s'.vol s'.dev.disk c (pre ++ [x]) ∧
      (∀ y, y ∈ tail → isFree s'.vol s'.dev.disk y) ∧
      (∀ z, z < endCluster s.vol → z ≠ x → z ∉ tail → fatRaw s'.vol s'.dev.disk z = fatRaw s.vol s.dev.disk z) ∧
      (tail = [] → s'.dev.disk = s.dev.disk) ∧
      (∀ i, regionOf s.vol i ≠ .fat → s'.dev.disk.get i = s.dev.disk.get i) ∧
      (Mirror s.vol s.dev.disk → Mirror s'.vol s'.dev.disk) ∧
      SameGeom s.vol s'.vol ∧
      s'.vol.freeClustersCount = s.vol.freeClustersCount.map (fun n => satAdd n tail.length) ∧
      s'.vol.nextFreeCluster = hintAfterTruncate s.vol.nextFreeCluster tail ∧
      NoFault s' ∧ Coherent s' ∧ BlocksOK s'.dev.disk ∧ WFGeom s'.vol :=
  Lemmas.ForestFinal.truncate_frees_exactly_tail s c x pre tail hn hc hb hg hch

/-- `free_cluster_chain(c)`, `cs` the chain of `c`. -/
theorem free_chain_frees_exactly_chain (s : FS) (c : Nat) (cs : List Nat) (hn : NoFault s) (hc : Coherent s)
    (hb : BlocksOK s.dev.disk) (hg : WFGeom s.vol) (hch : Chain s.vol s.dev.disk c cs) :
    ∃ s', freeClusterChain c s = (.ok (), s') ∧
      (∀ y, y ∈ cs → isFree s'.vol s'.dev.disk y) ∧
      (∀ z, z < endCluster s.vol → z ∉ cs → fatRaw s'.vol s'.dev.disk z = fatRaw s.vol s.dev.disk z) ∧
      (∀ i, regionOf s.vol i ≠ .fat → s'.dev.disk.get i = s.dev.disk.get i) ∧
      (Mirror s.vol s.dev.disk → Mirror s'.vol s'.dev.disk) ∧
      SameGeom s.vol s'.vol ∧
      s'.vol.freeClustersCount = s.vol.freeClustersCount.map (fun n => satAdd n cs.length) ∧
      s'.vol.nextFreeCluster = hintAfterFree s.vol.nextFreeCluster c cs.tail ∧
      NoFault s' ∧ Coherent s' ∧ BlocksOK s'.dev.disk ∧ WFGeom s'.vol :=
  Lemmas.ForestFinal.free_chain_frees_exactly_chain s c cs hn hc hb hg hch

/-- Fuel adequacy: every chain is shorter than the fuel the model's walks get. -/
theorem chain_fits_fuel (v : FatVolume) (d : Disk) (c : Nat) (cs : List Nat) (h : Chain v d c cs) :
    cs.length ≤ v.clusterCount ∧ cs.length < chainFuel v :=
  Lemmas.ForestFinal.chain_fits_fuel v d c cs h

/-- The free count is exact arithmetic as long as the sum fits `u32`. -/
theorem satAdd_exact (n k : Nat) (h : n + k ≤ U32_MAX) : satAdd n k = n + k :=
  Lemmas.ForestFinal.satAdd_exact n k h

/-! ### 6: allocation never hands out a cluster that is in use -/

theorem alloc_never_returns_used (s s' : FS) (prev : Option Nat) (zero : Bool) (c : Nat) (hn : NoFault s) (hc : Coherent s)
    (hh : HintOK s.vol) (h : allocCluster prev zero s = (.ok c, s')) :
    InRange s.vol c ∧ isFree s.vol s.dev.disk c ∧ ¬ isUsed s.vol s.dev.disk c ∧
    (∀ G, Owns s.vol s.dev.disk G → c ∉ G.flatten) ∧
    (∀ roots, Forest s.vol s.dev.disk roots → ∀ r cs, r ∈ roots → Chain s.vol s.dev.disk r cs → c ∉ cs) :=
  Lemmas.ForestFinal.alloc_never_returns_used s s' prev zero c hn hc hh h

/-! ### 3: allocation preserves the forest -/

/-- A new chain (`alloc_cluster(None, zero)`). -/
theorem alloc_new_preserves (s s' : FS) (G : List (List Nat)) (zero : Bool) (c : Nat) (h : Exact (s, G))
    (ha : allocCluster none zero s = (.ok c, s')) : Exact (s', G ++ [[c]]) :=
  Lemmas.ForestFinal.alloc_new_preserves s s' G zero c h ha

/-- An extension (`alloc_cluster(Some(p), zero)`, `p` the last cluster of chain `i`). -/
theorem alloc_extend_preserves (s s' : FS) (G : List (List Nat)) (i : Nat) (cs : List Nat) (p : Nat) (zero : Bool) (c : Nat)
    (h : Exact (s, G)) (hi : G[i]? = some cs) (hp : cs.getLast? = some p)
    (ha : allocCluster (some p) zero s = (.ok c, s')) : Exact (s', G.set i (cs ++ [c])) :=
  Lemmas.ForestFinal.alloc_extend_preserves s s' G i cs p zero c h hi hp ha

/-- The explicit-chains form implies the root-indexed form. -/
theorem forest_of_owns (v : FatVolume) (d : Disk) (G : List (List Nat)) (h : Owns v d G) : Forest v d (rootsOf G) :=
  Lemmas.ForestOwns.forest_of_owns h

/-! ### 4, 5: every step, every history -/

theorem forest_step (st : FS × List (List Nat)) (op : FatOp) (h : Exact st) :
    Exact (step st op) ∧ Forest (step st op).1.vol (step st op).1.dev.disk (rootsOf (step st op).2) ∧
    SameGeom st.1.vol (step st op).1.vol ∧
    (Mirror st.1.vol st.1.dev.disk → Mirror (step st op).1.vol (step st op).1.dev.disk) ∧
    (CountExact st.1 → CountExact (step st op).1) :=
  Lemmas.ForestFinal.forest_step st op h

/-- Every reachable state has no leaked and no shared cluster. -/
theorem forest_history (st : FS × List (List Nat)) (ops : List FatOp) (h : Exact st) :
    Exact (run st ops) ∧ Forest (run st ops).1.vol (run st ops).1.dev.disk (rootsOf (run st ops).2) ∧
    SameGeom st.1.vol (run st ops).1.vol ∧
    (Mirror st.1.vol st.1.dev.disk → Mirror (run st ops).1.vol (run st ops).1.dev.disk) ∧
    (CountExact st.1 → CountExact (run st ops).1) :=
  Lemmas.ForestFinal.forest_history st ops h

/-- Space is neither leaked nor invented in the books either: a free count that is known and right
stays right through every history (it never saturates, never underflows). -/
theorem count_history (st : FS × List (List Nat)) (ops : List FatOp) (h : Exact st) (hc : CountExact st.1) (n : Nat)
    (hn : (run st ops).1.vol.freeClustersCount = some n) : n = freeCount (run st ops).1.vol (run st ops).1.dev.disk :=
  (Lemmas.ForestFinal.forest_history st ops h).2.2.2.2 hc n hn

/-- The client's record carries no information beyond the roots: the medium determines the chains. -/
theorem chains_determined (v : FatVolume) (d : Disk) (G G' : List (List Nat)) (h : Owns v d G) (h' : Owns v d G')
    (hr : rootsOf G = rootsOf G') : G = G' :=
  Lemmas.ForestFinal.chains_determined h h' hr

/-- Nothing leaks: after any history a used cluster lies in the chain of one of the roots. -/
theorem no_leak (st : FS × List (List Nat)) (ops : List FatOp) (h : Exact st) (c : Nat)
    (hu : isUsed (run st ops).1.vol (run st ops).1.dev.disk c) :
    ∃ cs, cs ∈ (run st ops).2 ∧ c ∈ cs ∧ Chain (run st ops).1.vol (run st ops).1.dev.disk (cs.headD 0) cs :=
  Lemmas.ForestFinal.no_leak st ops h c hu

/-- Nothing is shared: after any history a cluster occurs in at most one chain, at one position. -/
theorem no_sharing (st : FS × List (List Nat)) (ops : List FatOp) (h : Exact st) (i j a b : Nat) (cs cs' : List Nat) (c : Nat)
    (hi : (run st ops).2[i]? = some cs) (hj : (run st ops).2[j]? = some cs')
    (ha : cs[a]? = some c) (hb : cs'[b]? = some c) : i = j ∧ a = b :=
  Lemmas.ForestFinal.no_sharing st ops h i j a b cs cs' c hi hj ha hb

/-! ### Non-vacuity and counterexamples (tests, labelled as tests) -/

namespace Example

deriving instance DecidableEq for Res

/-- A 20-cluster FAT16 volume with two FAT copies, one block per cluster; 14 clusters free. -/
def vol : FatVolume :=
  { lbaStart := 0, numBlocks := 200, name := [], blocksPerCluster := 1, firstDataBlock := 10, fatStart := 1,
    secondFatStart := some 3, freeClustersCount := some 14, nextFreeCluster := none, clusterCount := 20,
    fatType := .fat16, rootEntriesCount := 16, firstRootDirBlock := 9, infoLocation := 0, firstRootDirCluster := 0 }
/-- FAT: chain `2 → 3 → 4`, chain `5 → 6`, cluster 7 bad, clusters 8 … 21 free. -/
def fatBlk : Block := [0xF8, 0xFF, 0xFF, 0xFF, 3, 0, 4, 0, 0xFF, 0xFF, 6, 0, 0xFF, 0xFF, 0xF7, 0xFF] ++ zeros 496
def st : FS := { dev := { disk := (Disk.empty.set 1 fatBlk).set 3 fatBlk }, cache := {}, vol := vol }
def G0 : List (List Nat) := [[2, 3, 4], [5, 6]]

theorem st_ready : Ready st where
  noFault := rfl
  coherent := by intro i h; cases h
  blocksOK := by
    intro i
    show (((Disk.empty.set 1 fatBlk).set 3 fatBlk).get i).length = 512
    rw [Lemmas.FBasic.Disk.get_set, Lemmas.FBasic.Disk.get_set, Lemmas.FBasic.Disk.get_empty]
    split
    · decide +kernel
    · split
      · decide +kernel
      · exact Lemmas.FatOps.zeroBlock_length
  geom :=
    { bpc_pos := by decide
      fat_after_boot := by decide
      second_after_first := by intro s h; cases h; decide
      root16 := by intro _; decide
      root32 := by intro h; exact absurd h (by decide)
      data_fits := by decide
      count_bound := by show endCluster vol ≤ 0xFFF7; decide }
  hint := by intro n h; cases h

theorem st_owns : Owns st.vol st.dev.disk G0 := by
  refine ⟨?_, by decide, ?_⟩
  · intro cs hcs
    have : cs = [2, 3, 4] ∨ cs = [5, 6] := by simpa [G0] using hcs
    rcases this with rfl | rfl
    · exact Chain.link 2 3 _ (by decide) (by decide +kernel) (by decide)
        (Chain.link 3 4 _ (by decide) (by decide +kernel) (by decide) (Chain.last 4 (by decide) (by decide +kernel)))
    · exact Chain.link 5 6 _ (by decide) (by decide +kernel) (by decide) (Chain.last 6 (by decide) (by decide +kernel))
  · intro c
    by_cases hc : c < 22
    · have h : ∀ c, c < 22 → (isUsed st.vol st.dev.disk c ↔ c ∈ G0.flatten) := by decide +kernel
      exact h c hc
    · constructor
      · intro hu; exact absurd hu.1.2 hc
      · intro hm
        have : c = 2 ∨ c = 3 ∨ c = 4 ∨ c = 5 ∨ c = 6 := by simpa [G0] using hm
        omega

/-- The start state satisfies the invariant: two chains, a bad mark, free clusters. -/
theorem st_exact : Exact (st, G0) := ⟨st_ready, st_owns⟩

/-- The recorded free count (14) is the number of free clusters. -/
theorem st_count : CountExact st := by
  intro n hn
  cases hn
  decide +kernel

/-- Cluster 7 carries the bad mark: neither free nor used, in no chain. -/
example : isBad st.vol st.dev.disk 7 ∧ ¬ isUsed st.vol st.dev.disk 7 ∧ ¬ isFree st.vol st.dev.disk 7 := by decide +kernel

/-- A history: new chain (gets 8), extend chain 0 (gets 9), cut chain 0 behind its second cluster
(frees 4 and 9), delete chain 1 (frees 5 and 6), new chain with zeroing (gets 4, the lowest free). -/
def ops : List FatOp := [.newChain false, .extend 0 false, .truncate 0 1, .free 1, .newChain true]

example : (run (st, G0) (ops.take 1)).2 = [[2, 3, 4], [5, 6], [8]] := by decide +kernel
example : (run (st, G0) (ops.take 2)).2 = [[2, 3, 4, 9], [5, 6], [8]] := by decide +kernel
example : (run (st, G0) (ops.take 3)).2 = [[2, 3], [5, 6], [8]] := by decide +kernel
example : (run (st, G0) (ops.take 4)).2 = [[2, 3], [8]] := by decide +kernel
/-- The final record … -/
theorem final_chains : (run (st, G0) ops).2 = [[2, 3], [8], [4]] := by decide +kernel
/-- … and the final FAT: entries 0 … 21 (`0xFFF8` media, chain `2 → 3`, 4 and 8 single clusters, 7 bad). -/
theorem final_fat : (List.range 22).map (fatRaw (run (st, G0) ops).1.vol (run (st, G0) ops).1.dev.disk) =
    [0xFFF8, 0xFFFF, 3, 0xFFFF, 0xFFFF, 0, 0, 0xFFF7, 0xFFFF, 0, 0, 0, 0, 0, 0, 0, 0, 0, 0, 0, 0, 0] := by decide +kernel
/-- The free count went 14 → 13 → 12 → 14 → 16 → 15 and is the number of zero entries above; the
hint is the lowest free cluster. -/
theorem final_count : (run (st, G0) ops).1.vol.freeClustersCount = some 15 ∧
    (run (st, G0) ops).1.vol.nextFreeCluster = some 5 := by decide +kernel

/-- The history theorem applies to this history: the final state is exact, with the chains above. -/
theorem final_exact : Exact (run (st, G0) ops) ∧
    Forest (run (st, G0) ops).1.vol (run (st, G0) ops).1.dev.disk [2, 8, 4] ∧
    freeCount (run (st, G0) ops).1.vol (run (st, G0) ops).1.dev.disk = 15 := by
  obtain ⟨h1, h2, _⟩ := forest_history (st, G0) ops st_exact
  refine ⟨h1, ?_, (count_history (st, G0) ops st_exact st_count 15 final_count.1).symm⟩
  rw [final_chains] at h2
  exact h2

/-! #### Why `NoFault` is assumed -/

/-- The start state with the fourth device call failing. -/
def stFault : FS := { st with dev := { st.dev with faults := [3] } }

/-- Extending chain 0 (`alloc_cluster(Some(4))`) when the write that links 4 to the new cluster
fails: the call reports `DeviceError`, cluster 8 is already marked end-of-chain — used — but no chain
reaches it (the entries of all owned clusters are unchanged): a leaked cluster. -/
theorem fault_leaks :
    let r := allocCluster (some 4) false stFault
    r.1 = .err .DeviceError ∧ isUsed vol r.2.dev.disk 8 ∧ 8 ∉ G0.flatten ∧
    (∀ c, c ∈ G0.flatten → fatRaw vol r.2.dev.disk c = fatRaw vol st.dev.disk c) := by decide +kernel

/-! #### What `Chain` excludes -/

def ok? {α} : Res α → Bool | .ok _ => true | _ => false

/-- FAT16, `2 → 3 → 10` with cluster 10 free. -/
def danglingBlk : Block := [0xF8, 0xFF, 0xFF, 0xFF, 3, 0, 10, 0] ++ zeros 504
def stDangling : FS := { dev := { disk := (Disk.empty.set 1 danglingBlk).set 3 danglingBlk }, cache := {}, vol := vol }

/-- Truncating that chain at 2 reports success, zeroes the reserved FAT entry 0 (it held the media
descriptor `0xFFF8`) and adds 3 to the free count although only cluster 3 was freed. -/
theorem dangling_fat16 :
    let r := truncateClusterChain 2 stDangling
    fatRaw vol stDangling.dev.disk 0 = 0xFFF8 ∧ ok? r.1 = true ∧ fatRaw vol r.2.dev.disk 0 = 0 ∧
    r.2.vol.freeClustersCount = some 17 := by decide +kernel

/-- FAT16, `2 → 3 → 4 → 3`. -/
def cycleBlk : Block := [0xF8, 0xFF, 0xFF, 0xFF, 3, 0, 4, 0, 3, 0] ++ zeros 502
def stCycle : FS := { dev := { disk := (Disk.empty.set 1 cycleBlk).set 3 cycleBlk }, cache := {}, vol := vol }

/-- Truncating the cyclic chain at 2 terminates with success, zeroes FAT entry 0 and counts four
freed clusters where two (3 and 4) were freed. -/
theorem cycle_fat16 :
    let r := truncateClusterChain 2 stCycle
    ok? r.1 = true ∧ fatRaw vol r.2.dev.disk 0 = 0 ∧ fatRaw vol r.2.dev.disk 2 = 0xFFFF ∧
    fatRaw vol r.2.dev.disk 3 = 0 ∧ fatRaw vol r.2.dev.disk 4 = 0 ∧ r.2.vol.freeClustersCount = some 18 := by
  decide +kernel

/-- The same geometry as FAT32 (FAT copies at blocks 2 and 4). -/
def vol32 : FatVolume := { vol with fatType := .fat32, firstRootDirCluster := 2, infoLocation := 1, fatStart := 2,
                                    secondFatStart := some 4 }
/-- FAT32, `3 → 4 → 10` with cluster 10 free (cluster 2 is the root directory). -/
def dangling32Blk : Block :=
  [0xF8, 0xFF, 0xFF, 0x0F, 0xFF, 0xFF, 0xFF, 0x0F, 0xFF, 0xFF, 0xFF, 0x0F, 4, 0, 0, 0, 10, 0, 0, 0] ++ zeros 492
def stDangling32 : FS :=
  { dev := { disk := (Disk.empty.set 2 dangling32Blk).set 4 dangling32Blk }, cache := {}, vol := vol32 }

/-- FAT32 notices the dangling link, but only after terminating the prefix and freeing cluster 4. -/
theorem dangling_fat32 :
    let r := truncateClusterChain 3 stDangling32
    r.1 = .err .UnterminatedFatChain ∧ fatRaw vol32 r.2.dev.disk 0 = 0x0FFFFFF8 ∧
    fatRaw vol32 r.2.dev.disk 3 = 0x0FFFFFFF ∧ fatRaw vol32 r.2.dev.disk 4 = 0 ∧
    r.2.vol.freeClustersCount = some 15 := by decide +kernel

end Example

end Sdmmc.Props.C05Forest
