/-
C01, write side — a write through the engine does to the medium exactly what the byte-array model
does to its array, for EVERY state satisfying the file invariant: no bound on the amount written,
the file size, the chain length or its fragmentation; the chain is extended as often as needed; a
volume that runs full in the middle is covered (partial write, `DiskFull`).  Writing to one file
never changes what any other file reads back.  Histories of data-plane calls refine the abstract
data plane.

Property theorems only; the proofs are in `Sdmmc.Lemmas.WriteRefines*`:
`WriteRefinesBytes` (the byte-array write `splice`, the bytes of a chain after a block was patched),
`WriteRefinesStep` (loop invariant, locating / extending), `WriteRefinesLoop` (patching a block, the
loop), `WriteRefinesCall` (the call `write`), `WriteRefinesFrame` (what is left alone, write-then-
read), `WriteRefinesHist` (histories).
Specification vocabulary: `Sdmmc.Spec.Chain` (`Chain`, `chainBytes`, `ByteFile`, `FileOK`,
`absFile`), `Sdmmc.Spec.Forest` (`Owns`, `isFree`, `SameGeom`, `HintOK`), `Sdmmc.Spec.Geom`
(`WFGeom`), `Sdmmc.Spec.DataPlane` (`IsFatBlock`, `IsClusterBlock`, `InPartition`, `withChain`,
`Full`, the abstract data plane `DataPlane.Allowed` / `AllowedRun`, `DataPlane.DataInv`,
`DataPlane.absOf`).
Model: `Sdmmc.Model.write`, `writeLoop`, `writeBlockPart`, `findDataOnDisk`, `Fat.allocCluster`,
`step`, `run`.

STATUS: PROVED (all theorems below are complete; none is `_partial`).

Hypotheses beyond the read side (`MgrOK`, `WFGeom`, `FileOK`):
* `HintOK v.vol` — the next-free hint names no reserved FAT entry (mounting establishes it);
* `Owns v.vol d (withChain A cs B)` — the chain of the written file together with the chains `A`,
  `B` are exactly the chains of the volume, no cluster in two places (the invariant of C05);
* `cs = [] → f.curCluster < 2` — **an extra hypothesis `FileOK` does not give**: an empty file that
  owns no cluster has a cluster cursor that names no cluster.  `open` creates such files with cursor
  `(0, entry.cluster)`, `entry.cluster = 0`, and nothing moves the cursor of an empty file, so every
  reachable state satisfies it; without it the model (like the Rust) does the wrong thing:
  `Example.excluded_point` shows `write` patching a cluster of ANOTHER file when the cursor of the
  empty file happens to be `(0, c)` with `c` above the freshly allocated first cluster.

Outcomes of `write` on a writable file (`write_refines`, `write_refines_unbounded`):
* `Ok`, everything stored;
* `DiskFull`, a proper prefix stored, the volume has no free cluster left (or, without the
  `MAX_FILE_SIZE` hypothesis, the file reached `MAX_FILE_SIZE`);
* `NotEnoughSpace`, nothing stored: the file was empty, owned no cluster, and the volume is full
  (the model returns the allocator's error here, not `DiskFull`; this also happens for a write of
  ZERO bytes, which allocates the first cluster too).
-/
import Sdmmc.Props.C01Read
import Sdmmc.Lemmas.WriteRefinesHist

namespace Sdmmc.Props.C01Write
open Sdmmc.Model Sdmmc.Model.Fat Sdmmc.Spec Sdmmc.Props.C01Read

/-! ### 1. `write` refines the byte-array model -/

/-- **Main theorem.**  `h` is an open, writable file handle (slot `i`, record `f`) whose volume is
open (slot `vi`, record `v`); the record is consistent with the medium (`FileOK`, chain `cs`), and
`cs` together with `A`, `B` are the chains of the volume.  The write stays below `MAX_FILE_SIZE`.
Then `write h data` stores the first `k` bytes of `data`:

* outcome: all of them and `Ok`; or a proper prefix and `DiskFull`, the volume being full; or nothing
  and `NotEnoughSpace`, the file being empty without a cluster and the volume being full;
* tables: only file slot `i` and volume slot `vi` change, the volume record only in its two
  bookkeeping fields (`SameGeom`);
* refinement: the byte-array view afterwards is the model's `write` of `data.take k` applied to the
  view before — contents, length and position;
* the invariant holds again — for a chain `cs'` that has `cs` as a prefix — so the theorem (and
  `read_refines`) applies to the next call;
* frame: the bytes of every other chain of the volume are the same; every block that is neither a
  FAT block of the volume nor a block of a cluster of `cs'` is the same — in particular every block
  outside the partition; every device write logged is to a FAT block or to a block of `cs'`;
* the file record changes only in offset, cursor, size, first cluster, dirty flag, archive
  attribute and modification time. -/
theorem write_refines (s : Mgr) (h i vi : Nat) (data : Bytes) (f : FileInfo) (v : VolInfo) (cs : List Nat)
    (A B : List (List Nat)) (hs : MgrOK s)
    (hh : s.files.findIdx? (·.rawFile = h) = some i) (hf : s.files[i]? = some f)
    (hv : s.vols.findIdx? (·.rawVolume = f.rawVolume) = some vi) (hvi : s.vols[vi]? = some v)
    (hmode : f.mode ≠ .ReadOnly) (hg : WFGeom v.vol) (hhint : HintOK v.vol)
    (hok : FileOK v.vol s.dev.disk f cs) (hcur : cs = [] → f.curCluster < 2)
    (hown : Owns v.vol s.dev.disk (withChain A cs B))
    (hmax : f.currentOffset + data.length ≤ Gen.MAX_FILE_SIZE) :
    ∃ k r s' f' v' cs', write h data s = (r, s') ∧ k ≤ data.length ∧
      ((r = .ok () ∧ k = data.length) ∨
       (r = .err .DiskFull ∧ k < data.length ∧ cs' ≠ [] ∧ Full v'.vol s'.dev.disk) ∨
       (r = .err .NotEnoughSpace ∧ k = 0 ∧ cs' = [] ∧ Full v'.vol s'.dev.disk)) ∧
      s' = { s with dev := s'.dev, cache := s'.cache, files := s.files.set i f', vols := s.vols.set vi v' } ∧
      v' = { v with vol := v'.vol } ∧ SameGeom v.vol v'.vol ∧
      absFile v'.vol s'.dev.disk f' cs' = (absFile v.vol s.dev.disk f cs).write (data.take k) ∧
      FileOK v'.vol s'.dev.disk f' cs' ∧ (cs' = [] → f'.curCluster < 2) ∧ cs <+: cs' ∧
      Owns v'.vol s'.dev.disk (withChain A cs' B) ∧ MgrOK s' ∧ HintOK v'.vol ∧ WFGeom v'.vol ∧
      (∀ X, X ∈ A ++ B → chainBytes v.vol s'.dev.disk X = chainBytes v.vol s.dev.disk X) ∧
      (∀ b, ¬ IsFatBlock v.vol b → ¬ IsClusterBlock v.vol cs' b → s'.dev.disk.get b = s.dev.disk.get b) ∧
      (∀ b, ¬ InPartition v.vol b → s'.dev.disk.get b = s.dev.disk.get b) ∧
      (∃ new, s'.dev.wlog = new ++ s.dev.wlog ∧ ∀ w, w ∈ new → IsFatBlock v.vol w.1 ∨ IsClusterBlock v.vol cs' w.1) ∧
      f' = { f with currentOffset := f.currentOffset + k, curClusterOff := f'.curClusterOff, curCluster := f'.curCluster,
                    dirty := true,
                    entry := { f.entry with size := max f.entry.size (f.currentOffset + k), cluster := f'.entry.cluster,
                                            attributes := Attr.setArchive f.entry.attributes, mtime := s.clock } } :=
  Lemmas.WriteRefines.write_refines_spelled_max s h i vi data f v cs A B hs hh hf hv hvi hmode hg hhint hok hcur hown hmax

/-- The same without the `MAX_FILE_SIZE` hypothesis: there is one more way to end with `DiskFull`
and a proper prefix stored — the file has reached `MAX_FILE_SIZE` (what lies beyond is dropped, the
volume need not be full). -/
theorem write_refines_unbounded (s : Mgr) (h i vi : Nat) (data : Bytes) (f : FileInfo) (v : VolInfo) (cs : List Nat)
    (A B : List (List Nat)) (hs : MgrOK s)
    (hh : s.files.findIdx? (·.rawFile = h) = some i) (hf : s.files[i]? = some f)
    (hv : s.vols.findIdx? (·.rawVolume = f.rawVolume) = some vi) (hvi : s.vols[vi]? = some v)
    (hmode : f.mode ≠ .ReadOnly) (hg : WFGeom v.vol) (hhint : HintOK v.vol)
    (hok : FileOK v.vol s.dev.disk f cs) (hcur : cs = [] → f.curCluster < 2)
    (hown : Owns v.vol s.dev.disk (withChain A cs B)) :
    ∃ k r s' f' v' cs', write h data s = (r, s') ∧ k ≤ data.length ∧
      ((r = .ok () ∧ k = data.length) ∨
       (r = .err .DiskFull ∧ k < data.length ∧ cs' ≠ [] ∧
         (Full v'.vol s'.dev.disk ∨ Gen.MAX_FILE_SIZE ≤ f.currentOffset + k)) ∨
       (r = .err .NotEnoughSpace ∧ k = 0 ∧ cs' = [] ∧ Full v'.vol s'.dev.disk)) ∧
      s' = { s with dev := s'.dev, cache := s'.cache, files := s.files.set i f', vols := s.vols.set vi v' } ∧
      v' = { v with vol := v'.vol } ∧ SameGeom v.vol v'.vol ∧
      absFile v'.vol s'.dev.disk f' cs' = (absFile v.vol s.dev.disk f cs).write (data.take k) ∧
      FileOK v'.vol s'.dev.disk f' cs' ∧ (cs' = [] → f'.curCluster < 2) ∧ cs <+: cs' ∧
      Owns v'.vol s'.dev.disk (withChain A cs' B) ∧ MgrOK s' ∧ HintOK v'.vol ∧ WFGeom v'.vol ∧
      (∀ X, X ∈ A ++ B → chainBytes v.vol s'.dev.disk X = chainBytes v.vol s.dev.disk X) ∧
      (∀ b, ¬ IsFatBlock v.vol b → ¬ IsClusterBlock v.vol cs' b → s'.dev.disk.get b = s.dev.disk.get b) ∧
      (∀ b, ¬ InPartition v.vol b → s'.dev.disk.get b = s.dev.disk.get b) ∧
      (∃ new, s'.dev.wlog = new ++ s.dev.wlog ∧ ∀ w, w ∈ new → IsFatBlock v.vol w.1 ∨ IsClusterBlock v.vol cs' w.1) ∧
      f' = { f with currentOffset := f.currentOffset + k, curClusterOff := f'.curClusterOff, curCluster := f'.curCluster,
                    dirty := true,
                    entry := { f.entry with size := max f.entry.size (f.currentOffset + k), cluster := f'.entry.cluster,
                                            attributes := Attr.setArchive f.entry.attributes, mtime := s.clock } } :=
  Lemmas.WriteRefines.write_refines_spelled s h i vi data f v cs A B hs hh hf hv hvi hmode hg hhint hok hcur hown

/-- A write to a file opened read-only is refused and changes nothing at all. -/
theorem write_read_only (s : Mgr) (h i vi : Nat) (data : Bytes) (f : FileInfo)
    (hh : s.files.findIdx? (·.rawFile = h) = some i) (hf : s.files[i]? = some f)
    (hv : s.vols.findIdx? (·.rawVolume = f.rawVolume) = some vi) (hmode : f.mode = .ReadOnly) :
    write h data s = (.err .ReadOnly, s) :=
  Lemmas.WriteRefines.write_readOnly s h i vi data f hh hf hv hmode

/-- The loop of `write` on its own, from a state satisfying its invariant `WInv` (slot `i` holds a
consistent record `f` with non-empty chain `cs`, the chains `A ++ [cs] ++ B` are the chains of the
volume): it stores the first `k` bytes of the buffer — all of them, or, with `DiskFull`, as many as
fit before the volume ran full — and the invariant holds again.  `WProg` is the relation "`s'` is
`s` with `data` stored at the position of `f`" (byte-array contents, position, size, tables, frame).
Fuel above the buffer length suffices: every iteration stores at least one byte. -/
theorem write_loop_refines (i vi : Nat) (A B : List (List Nat)) (fuel : Nat) (buffer : Bytes) (s : Mgr) (f : FileInfo)
    (v : VolInfo) (cs : List Nat) (hfuel : buffer.length < fuel) (hinv : Lemmas.WriteRefines.WInv i vi A B s f v cs) :
    ∃ k r s' f' v' cs', writeLoop i vi fuel buffer s = (r, s') ∧ k ≤ buffer.length ∧
      ((r = .ok () ∧ k = buffer.length) ∨ (r = .err .DiskFull ∧ k < buffer.length ∧ Full v'.vol s'.dev.disk)) ∧
      Lemmas.WriteRefines.WInv i vi A B s' f' v' cs' ∧
      Lemmas.WriteRefines.WProg i vi s s' f f' v v' cs cs' (buffer.take k) :=
  Lemmas.WriteRefines.writeLoop_spec i vi A B fuel buffer s f v cs hfuel hinv

/-- The same through the transition function `step`, i.e. as the user of the API observes it: the
answer, the byte-array view afterwards, and every device write of the call goes to a FAT block of
the volume or to a block of a cluster of the file's chain. -/
theorem write_step_refines (s : Mgr) (h i vi : Nat) (data : Bytes) (f : FileInfo) (v : VolInfo) (cs : List Nat)
    (A B : List (List Nat)) (hs : MgrOK s)
    (hh : s.files.findIdx? (·.rawFile = h) = some i) (hf : s.files[i]? = some f)
    (hv : s.vols.findIdx? (·.rawVolume = f.rawVolume) = some vi) (hvi : s.vols[vi]? = some v)
    (hmode : f.mode ≠ .ReadOnly) (hg : WFGeom v.vol) (hhint : HintOK v.vol)
    (hok : FileOK v.vol s.dev.disk f cs) (hcur : cs = [] → f.curCluster < 2)
    (hown : Owns v.vol s.dev.disk (withChain A cs B)) :
    ∃ k f' v' cs', (step s (.write h data)).1.files[i]? = some f' ∧ (step s (.write h data)).1.vols[vi]? = some v' ∧
      k ≤ data.length ∧
      (((step s (.write h data)).2.result = .ok .unit ∧ k = data.length) ∨
       ((step s (.write h data)).2.result = .err .DiskFull ∧ k < data.length) ∨
       ((step s (.write h data)).2.result = .err .NotEnoughSpace ∧ k = 0)) ∧
      absFile v'.vol (step s (.write h data)).1.dev.disk f' cs' = (absFile v.vol s.dev.disk f cs).write (data.take k) ∧
      (∀ b, b ∈ (step s (.write h data)).2.writes → IsFatBlock v.vol b.1 ∨ IsClusterBlock v.vol cs' b.1) :=
  Lemmas.WriteRefines.write_step_refines s h i vi data f v cs A B hs hh hf hv hvi hmode hg hhint hok hcur hown

/-! ### 2. Other files -/

/-- **Writing to one file never changes what any other file reads back** — files of the same
volume.  `g` is another open file (slot `j ≠ i`), consistent with the medium, whose chain `X` is one
of the chains `A ++ B` (or `X = []`: an empty file).  After the write it is the same record in the
same slot, its byte-array view is the same, it is still consistent with the same chain, and the bytes
of its clusters are the same. -/
theorem write_other_files_untouched (s : Mgr) (h i vi : Nat) (data : Bytes) (f : FileInfo) (v : VolInfo) (cs : List Nat)
    (A B : List (List Nat)) (hs : MgrOK s)
    (hh : s.files.findIdx? (·.rawFile = h) = some i) (hf : s.files[i]? = some f)
    (hv : s.vols.findIdx? (·.rawVolume = f.rawVolume) = some vi) (hvi : s.vols[vi]? = some v)
    (hmode : f.mode ≠ .ReadOnly) (hg : WFGeom v.vol) (hhint : HintOK v.vol)
    (hok : FileOK v.vol s.dev.disk f cs) (hcur : cs = [] → f.curCluster < 2)
    (hown : Owns v.vol s.dev.disk (withChain A cs B))
    (j : Nat) (hj : j ≠ i) (g : FileInfo) (hgj : s.files[j]? = some g) (X : List Nat) (hX : X ∈ A ++ B ∨ X = [])
    (hokg : FileOK v.vol s.dev.disk g X) :
    ∃ v', (write h data s).2.vols[vi]? = some v' ∧ (write h data s).2.files[j]? = some g ∧
      absFile v'.vol (write h data s).2.dev.disk g X = absFile v.vol s.dev.disk g X ∧
      FileOK v'.vol (write h data s).2.dev.disk g X ∧
      chainBytes v.vol (write h data s).2.dev.disk X = chainBytes v.vol s.dev.disk X :=
  Lemmas.WriteRefines.write_other_same_volume s h i vi data f v cs A B hs hh hf hv hvi hmode hg hhint hok hcur hown
    j hj g hgj X hX hokg

/-- **… nor of any other volume.**  `g` is an open file consistent with the medium under a volume
record `w` whose partition shares no block with the written volume's.  Its record, byte-array view
and consistency are untouched, every other slot of the volume table is the same, and so is every
block of `w`'s partition. -/
theorem write_other_volume_untouched (s : Mgr) (h i vi : Nat) (data : Bytes) (f : FileInfo) (v : VolInfo) (cs : List Nat)
    (A B : List (List Nat)) (hs : MgrOK s)
    (hh : s.files.findIdx? (·.rawFile = h) = some i) (hf : s.files[i]? = some f)
    (hv : s.vols.findIdx? (·.rawVolume = f.rawVolume) = some vi) (hvi : s.vols[vi]? = some v)
    (hmode : f.mode ≠ .ReadOnly) (hg : WFGeom v.vol) (hhint : HintOK v.vol)
    (hok : FileOK v.vol s.dev.disk f cs) (hcur : cs = [] → f.curCluster < 2)
    (hown : Owns v.vol s.dev.disk (withChain A cs B))
    (j : Nat) (hj : j ≠ i) (g : FileInfo) (hgj : s.files[j]? = some g) (w : FatVolume) (hgw : WFGeom w)
    (hdisj : ∀ b, InPartition w b → ¬ InPartition v.vol b) (X : List Nat) (hokg : FileOK w s.dev.disk g X) :
    (write h data s).2.files[j]? = some g ∧
    (∀ vj, vj ≠ vi → (write h data s).2.vols[vj]? = s.vols[vj]?) ∧
    absFile w (write h data s).2.dev.disk g X = absFile w s.dev.disk g X ∧
    FileOK w (write h data s).2.dev.disk g X ∧
    (∀ b, InPartition w b → (write h data s).2.dev.disk.get b = s.dev.disk.get b) :=
  Lemmas.WriteRefines.write_other_volume s h i vi data f v cs A B hs hh hf hv hvi hmode hg hhint hok hcur hown
    j hj g hgj w hgw hdisj X hokg

/-! ### 3. Write, then read -/

/-- After a successful `write h data`, `seek_from_start h p` (any `p` up to the new length) and
`read h n` return the window `[p, p + n)` of the byte array the model holds after the write. -/
theorem write_then_read (s : Mgr) (h i vi : Nat) (data : Bytes) (f : FileInfo) (v : VolInfo) (cs : List Nat)
    (A B : List (List Nat)) (hs : MgrOK s)
    (hh : s.files.findIdx? (·.rawFile = h) = some i) (hf : s.files[i]? = some f)
    (hv : s.vols.findIdx? (·.rawVolume = f.rawVolume) = some vi) (hvi : s.vols[vi]? = some v)
    (hmode : f.mode ≠ .ReadOnly) (hg : WFGeom v.vol) (hhint : HintOK v.vol)
    (hok : FileOK v.vol s.dev.disk f cs) (hcur : cs = [] → f.curCluster < 2)
    (hown : Owns v.vol s.dev.disk (withChain A cs B))
    (s1 : Mgr) (hw : write h data s = (.ok (), s1)) (p n : Nat)
    (hp : p ≤ ((absFile v.vol s.dev.disk f cs).write data).bytes.length) :
    ∃ s2 s3, fileSeekFromStart h p s1 = (.ok (), s2) ∧
      read h n s2 = (.ok ((((absFile v.vol s.dev.disk f cs).write data).bytes.drop p).take n), s3) :=
  Lemmas.WriteRefines.write_then_read s h i vi data f v cs A B hs hh hf hv hvi hmode hg hhint hok hcur hown s1 hw p n hp

/-! ### 4. The byte-array write -/

/-- Two writes in a row are one write of the concatenation (byte-array model). -/
theorem byte_file_write_append (bf : ByteFile) (a b : Bytes) (hpos : bf.pos ≤ bf.bytes.length) :
    (bf.write a).write b = bf.write (a ++ b) := by
  rw [Lemmas.WriteRefines.byteFile_write_eq, Lemmas.WriteRefines.byteFile_write_eq, Lemmas.WriteRefines.byteFile_write_eq,
    Lemmas.WriteRefines.splice_splice _ _ _ _ hpos, List.length_append, Nat.add_assoc]

/-- Patching `src` into block `j` of the `k`-th cluster of a chain, at offset `off` inside the block,
is the byte-array write of `src` at position `k * cb + j * 512 + off` of the chain's bytes. -/
theorem chain_bytes_after_block_write (v : FatVolume) (d : Disk) (cs : List Nat) (k c j off : Nat) (src : Bytes)
    (hg : WFGeom v) (hb : Spec.BlocksOK d) (hnd : cs.Nodup) (hr : ∀ x, x ∈ cs → InRange v x)
    (hk : cs[k]? = some c) (hj : j < v.blocksPerCluster) (hoff : off + src.length ≤ 512) :
    chainBytes v (d.set (clusterToBlock v c + j) (splice (d.get (clusterToBlock v c + j)) off src)) cs =
      splice (chainBytes v d cs) (k * clusterBytesLen v + j * 512 + off) src :=
  Lemmas.WriteRefines.chainBytes_set v d cs k c j off src hg hb hnd hr hk hj hoff

/-! ### 5. Histories of data-plane calls (one open volume) -/

open Sdmmc.Spec.DataPlane in
/-- **Histories.**  On a manager with exactly one open volume satisfying `DataInv` (every open file
consistent with the medium, the non-empty chains of the open files and `rest` being exactly the
chains of the volume, no cluster in two places), every history of `read`, `write`, `seek_*`,
`length`, `offset`, `eof` calls — on ANY handles, open or not — answers exactly as the abstract data
plane (one byte array with a position per open file; `Spec/DataPlane.lean`) allows, ends in a state
satisfying `DataInv` again, and the abstraction of that state is the abstract end state.  In the
abstract data plane `read`, the seeks and the observers are functions; `write` stores all bytes
(`Ok`), or a proper prefix (`DiskFull`), or nothing (`NotEnoughSpace`), or is refused (`ReadOnly`);
unknown handles are answered `BadHandle` and change nothing; no call touches another file's array. -/
theorem data_history_refines (ops : List Op) (s : Mgr) (chains rest : List (List Nat))
    (hinv : DataInv s chains rest) (hops : ∀ op, op ∈ ops → IsDataOp op) :
    ∃ chains', DataInv (run s ops).1 chains' rest ∧
      AllowedRun (absOf s chains) ops ((run s ops).2.map (·.result)) (absOf (run s ops).1 chains') :=
  Lemmas.WriteRefines.data_history_refines ops s chains rest hinv hops

open Sdmmc.Spec.DataPlane in
/-- One call of such a history. -/
theorem data_step_refines (s : Mgr) (chains rest : List (List Nat)) (hinv : DataInv s chains rest) (op : Op)
    (hop : IsDataOp op) :
    ∃ chains', DataInv (step s op).1 chains' rest ∧
      Allowed (absOf s chains) op (step s op).2.result (absOf (step s op).1 chains') :=
  Lemmas.WriteRefines.data_step_refines s chains rest hinv op hop

/-! ### Non-vacuity (tests, evaluated by the kernel)

The FAT16 volume of `Props/C01Read.lean` (one block per cluster, 100 clusters, FAT in block 1, data
from block 10): a 1300-byte file in the fragmented chain 5 → 2 → 7 (blocks 13, 10, 15), a one-cluster
file in cluster 3, and an empty file that owns no cluster; all three open for writing. -/
namespace Example
open Sdmmc.Props.C01Read.Example

def fileW : FileInfo := { file with mode := .ReadWriteAppend }
def file2W : FileInfo := { file2 with mode := .ReadWriteAppend }
def entryE : DirEntry :=
  { name := [], mtime := default, ctime := default, attributes := 0x20, cluster := 0, size := 0, entryBlock := 9, entryOffset := 96 }
def fileE : FileInfo :=
  { rawFile := 3, rawVolume := 0, curClusterOff := 0, curCluster := 0, currentOffset := 0, mode := .ReadWriteCreate, entry := entryE, dirty := false }
def mgrW : Mgr := { mgr with files := [fileW, file2W, fileE] }
def data700 : Bytes := List.replicate 700 0x11

/-- A summary of the file table: offset, size, first cluster, cursor, dirty flag. -/
def summary (s : Mgr) : List (Nat × Nat × Nat × Nat × Nat × Bool) :=
  s.files.map fun f => (f.currentOffset, f.entry.size, f.entry.cluster, f.curClusterOff, f.curCluster, f.dirty)

theorem used_iff : ∀ c, isUsed vol disk c ↔ c ∈ [5, 2, 7, 3] := by
  intro c
  by_cases hc : c < 102
  · exact (by decide +kernel : ∀ c, c < 102 → (isUsed vol disk c ↔ c ∈ [5, 2, 7, 3])) c hc
  · constructor
    · intro h; exact absurd h.1.2 hc
    · intro h; simp at h; omega

/-- The chains of the two non-empty files are the chains of the volume. -/
theorem owns : Owns vol disk (withChain [] [5, 2, 7] [[3]]) := by
  refine ⟨?_, by decide, used_iff⟩
  intro cs hcs
  have : cs = [5, 2, 7] ∨ cs = [3] := by simpa [withChain] using hcs
  rcases this with rfl | rfl
  · exact chain
  · exact .last 3 ⟨by decide, by decide⟩ (by decide)

theorem fileOKW : FileOK vol disk fileW [5, 2, 7] := ⟨fileOK.chain, fileOK.size_fits, fileOK.pos_le, fileOK.cursor⟩
theorem mgrOKW : MgrOK mgrW := mgrOK
theorem hintOK : HintOK vol := fun n h => by cases h

/-- The byte-array model: 700 bytes written at offset 1000 of the 1300-byte file — 512 × AA,
488 × BB, 700 × 11; length 1700, position 1700. -/
example : ((absFile vol disk fileW [5, 2, 7]).write data700).bytes =
      List.replicate 512 0xAA ++ List.replicate 488 0xBB ++ List.replicate 700 0x11 ∧
    ((absFile vol disk fileW [5, 2, 7]).write data700).pos = 1700 := by decide +kernel

/-- The engine, run: `Ok`; offset and size 1700; the chain was extended by cluster 4 (the first free
one), the cursor is on it; the device writes were block 10 (partial), block 15 (whole), the FAT
twice (4 := end of chain, 7 := 4), block 12 = cluster 4 (partial); the other files are as before. -/
example : (write 1 data700 mgrW).1 = .ok () ∧
    summary (write 1 data700 mgrW).2 =
      [(1700, 1700, 5, 1536, 4, true), (0, 10, 3, 0, 3, false), (0, 0, 0, 0, 0, false)] ∧
    ((write 1 data700 mgrW).2.dev.wlog.map (·.1)).reverse = [10, 15, 1, 1, 12] ∧
    ((write 1 data700 mgrW).2.dev.disk.get 1).take 16 = [0, 0, 0, 0, 7, 0, 0xFF, 0xFF, 0xFF, 0xFF, 2, 0, 0, 0, 4, 0] := by
  decide +kernel

/-- Read back through the engine (seek to 0, read 1700 bytes): exactly the model's array. -/
example : ∀ s1, (write 1 data700 mgrW).2 = s1 → ∀ s2, (fileSeekFromStart 1 0 s1).2 = s2 →
    (read 1 1700 s2).1 = .ok (List.replicate 512 0xAA ++ List.replicate 488 0xBB ++ List.replicate 700 0x11) := by
  intro s1 h1 s2 h2; subst h1; subst h2; decide +kernel

/-- The second file reads back what it did before (block 11 = cluster 3 untouched). -/
example : (read 2 10 (write 1 data700 mgrW).2).1 = (read 2 10 mgrW).1 ∧
    (read 2 10 mgrW).1 = .ok (List.replicate 10 0xDD) := by decide +kernel

theorem handle_found : mgrW.files.findIdx? (·.rawFile = 1) = some 0 := by decide
theorem volume_found : mgrW.vols.findIdx? (·.rawVolume = fileW.rawVolume) = some 0 := by decide

/-- The main theorem applies to this state (its hypotheses are satisfiable) … -/
example : ∃ k r s' f' v' cs', write 1 data700 mgrW = (r, s') ∧ k ≤ data700.length ∧
    ((r = .ok () ∧ k = data700.length) ∨
     (r = .err .DiskFull ∧ k < data700.length ∧ cs' ≠ [] ∧ Full v'.vol s'.dev.disk) ∨
     (r = .err .NotEnoughSpace ∧ k = 0 ∧ cs' = [] ∧ Full v'.vol s'.dev.disk)) ∧
    s' = { mgrW with dev := s'.dev, cache := s'.cache, files := mgrW.files.set 0 f', vols := mgrW.vols.set 0 v' } ∧
    v' = { vinfo with vol := v'.vol } ∧ SameGeom vinfo.vol v'.vol ∧
    absFile v'.vol s'.dev.disk f' cs' = (absFile vinfo.vol mgrW.dev.disk fileW [5, 2, 7]).write (data700.take k) ∧
    FileOK v'.vol s'.dev.disk f' cs' ∧ (cs' = [] → f'.curCluster < 2) ∧ [5, 2, 7] <+: cs' ∧
    Owns v'.vol s'.dev.disk (withChain [] cs' [[3]]) ∧ MgrOK s' ∧ HintOK v'.vol ∧ WFGeom v'.vol ∧
    (∀ X, X ∈ [] ++ [[3]] → chainBytes vinfo.vol s'.dev.disk X = chainBytes vinfo.vol mgrW.dev.disk X) ∧
    (∀ b, ¬ IsFatBlock vinfo.vol b → ¬ IsClusterBlock vinfo.vol cs' b → s'.dev.disk.get b = mgrW.dev.disk.get b) ∧
    (∀ b, ¬ InPartition vinfo.vol b → s'.dev.disk.get b = mgrW.dev.disk.get b) ∧
    (∃ new, s'.dev.wlog = new ++ mgrW.dev.wlog ∧
      ∀ w, w ∈ new → IsFatBlock vinfo.vol w.1 ∨ IsClusterBlock vinfo.vol cs' w.1) ∧
    f' = { fileW with currentOffset := fileW.currentOffset + k, curClusterOff := f'.curClusterOff,
                      curCluster := f'.curCluster, dirty := true,
                      entry := { fileW.entry with size := max fileW.entry.size (fileW.currentOffset + k),
                                                  cluster := f'.entry.cluster,
                                                  attributes := Attr.setArchive fileW.entry.attributes,
                                                  mtime := mgrW.clock } } :=
  write_refines mgrW 1 0 0 data700 fileW vinfo [5, 2, 7] [] [[3]] mgrOKW handle_found rfl volume_found rfl
    (by decide) wfgeom hintOK fileOKW (fun h => by cases h) owns (by decide +kernel)

/-- … and so does the frame theorem: the second file is untouched by that write. -/
example : ∃ v', (write 1 data700 mgrW).2.vols[0]? = some v' ∧ (write 1 data700 mgrW).2.files[1]? = some file2W ∧
    absFile v'.vol (write 1 data700 mgrW).2.dev.disk file2W [3] = absFile vol disk file2W [3] ∧
    FileOK v'.vol (write 1 data700 mgrW).2.dev.disk file2W [3] ∧
    chainBytes vol (write 1 data700 mgrW).2.dev.disk [3] = chainBytes vol disk [3] :=
  write_other_files_untouched mgrW 1 0 0 data700 fileW vinfo [5, 2, 7] [] [[3]] mgrOKW handle_found rfl volume_found rfl
    (by decide) wfgeom hintOK fileOKW (fun h => by cases h) owns 1 (by decide) file2W rfl [3] (.inl (by decide))
    ⟨fileOK2.chain, fileOK2.size_fits, fileOK2.pos_le, fileOK2.cursor⟩

/-- The empty file: the first write allocates its first cluster (4), then extends the chain (6);
a write of ZERO bytes allocates the first cluster too. -/
example : (write 3 (List.replicate 600 0x22) mgrW).1 = .ok () ∧
    summary (write 3 (List.replicate 600 0x22) mgrW).2 =
      [(1000, 1300, 5, 1024, 7, false), (0, 10, 3, 0, 3, false), (600, 600, 4, 512, 6, true)] := by
  decide +kernel

example : (write 3 ([] : Bytes) mgrW).1 = .ok () ∧
    summary (write 3 ([] : Bytes) mgrW).2 =
      [(1000, 1300, 5, 1024, 7, false), (0, 10, 3, 0, 3, false), (0, 0, 4, 0, 4, true)] := by
  decide +kernel

/-! #### A volume that runs full

The same medium read through a volume record with 6 clusters (2 … 7): clusters 4 and 6 are free. -/

def volS : FatVolume := { vol with clusterCount := 6 }
def mgrS : Mgr := { mgrW with vols := [{ vinfo with vol := volS }] }

/-- 2000 bytes at offset 1000 of the three-cluster file: the two free clusters are appended, 1560
bytes are stored (up to the capacity 5 × 512 = 2560), the call answers `DiskFull`, and the file
record says so: offset and size 2560. -/
example : (write 1 (List.replicate 2000 0x11) mgrS).1 = .err .DiskFull ∧
    summary (write 1 (List.replicate 2000 0x11) mgrS).2 =
      [(2560, 2560, 5, 2048, 6, true), (0, 10, 3, 0, 3, false), (0, 0, 0, 0, 0, false)] := by decide +kernel

/-- On the now full volume a write to the empty file stores nothing and answers `NotEnoughSpace`
(the allocator's error, not `DiskFull`) — even a write of zero bytes; the record is marked dirty. -/
example : ∀ s1, (write 1 (List.replicate 2000 0x11) mgrS).2 = s1 →
    (write 3 (List.replicate 5 0x44) s1).1 = .err .NotEnoughSpace ∧
    (write 3 [] s1).1 = .err .NotEnoughSpace ∧
    summary (write 3 [] s1).2 = [(2560, 2560, 5, 2048, 6, true), (0, 10, 3, 0, 3, false), (0, 0, 0, 0, 0, true)] ∧
    (write 3 [] s1).2.dev.disk.m.toList = s1.dev.disk.m.toList := by
  intro s1 h1; subst h1; decide +kernel

/-! #### The excluded point

`FileOK` says nothing about the cursor of an empty file without a cluster.  With the cursor
`(0, 7)` — cluster 7 belongs to the FIRST file — a write to the empty file allocates cluster 4 as
its first cluster (`7 < 4` is false, so no rewind), then patches the block of cluster 7: the first
file reads back different bytes.  The hypothesis `cs = [] → f.curCluster < 2` excludes this state;
`open` never produces it. -/

def fileBad : FileInfo := { fileE with curCluster := 7 }
def mgrBad : Mgr := { mgr with files := [fileW, file2W, fileBad] }

theorem fileBad_ok : FileOK vol disk fileBad [] := ⟨.inl ⟨by decide, rfl, rfl⟩, by decide, by decide, .inl rfl⟩

theorem excluded_point :
    (write 3 (List.replicate 10 0x33) mgrBad).1 = .ok () ∧
    summary (write 3 (List.replicate 10 0x33) mgrBad).2 =
      [(1000, 1300, 5, 1024, 7, false), (0, 10, 3, 0, 3, false), (10, 10, 4, 0, 7, true)] ∧
    ((write 3 (List.replicate 10 0x33) mgrBad).2.dev.wlog.map (·.1)).reverse = [1, 15] ∧
    (read 1 12 (fileSeekFromStart 1 1024 (write 3 (List.replicate 10 0x33) mgrBad).2).2).1 =
      .ok (List.replicate 10 0x33 ++ List.replicate 2 0xCC) ∧
    (read 1 12 (fileSeekFromStart 1 1024 mgrBad).2).1 = .ok (List.replicate 12 0xCC) := by decide +kernel

/-! #### A history -/

open Sdmmc.Spec.DataPlane

theorem dataInv : DataInv mgrW [[5, 2, 7], [3], []] [] := by
  refine ⟨rfl, (fun i h => by cases h), blocksOK, rfl, ⟨vinfo, rfl⟩, wfgeom, hintOK, ?_, rfl, ?_⟩
  · exact owns
  · intro j f cs hf hc
    match j, hf, hc with
    | 0, hf, hc => cases hf; cases hc; exact ⟨rfl, fileOKW, fun h => by cases h⟩
    | 1, hf, hc =>
      cases hf; cases hc
      exact ⟨rfl, ⟨fileOK2.chain, fileOK2.size_fits, fileOK2.pos_le, fileOK2.cursor⟩, fun h => by cases h⟩
    | 2, hf, hc =>
      cases hf; cases hc
      exact ⟨rfl, ⟨.inl ⟨by decide, rfl, rfl⟩, by decide, by decide, .inl rfl⟩, fun _ => by decide⟩
    | j + 3, hf, _ => cases hf

/-- A history over good and bad handles. -/
def history : List Op :=
  [.write 1 data700, .seekStart 1 900, .read 1 200, .write 3 [1, 2, 3], .read 99 5, .seekEnd 3 3, .read 3 10,
   .length 1, .eof 3, .seekCur 2 (-1), .offset 2, .write 2 [9]]

/-- The invariant holds of the example state, so the history theorem applies … -/
example : ∃ chains', DataInv (run mgrW history).1 chains' [] ∧
    AllowedRun (absOf mgrW [[5, 2, 7], [3], []]) history ((run mgrW history).2.map (·.result))
      (absOf (run mgrW history).1 chains') :=
  data_history_refines history mgrW _ [] dataInv (by decide)

/-- An answer, made comparable: outcome class, error, bytes, number. -/
def view : Res Payload → Bool × Option Err × Option Bytes × Option Nat
  | .ok (.bytes b) => (true, none, some b, none)
  | .ok (.num n) => (true, none, none, some n)
  | .ok _ => (true, none, none, none)
  | .err e => (false, some e, none, none)
  | _ => (false, none, none, none)

/-- … and these are the answers of the engine: the reads return what was written (across the two
files), the bad handle is refused, lengths and offsets are the model's. -/
example : ((run mgrW history).2.map fun o => view o.result) =
    [(true, none, none, none), (true, none, none, none),
     (true, none, some (List.replicate 100 0xBB ++ List.replicate 100 0x11), none),
     (true, none, none, none), (false, some .BadHandle, none, none), (true, none, none, none),
     (true, none, some [1, 2, 3], none), (true, none, none, some 1700), (true, none, none, none),
     (false, some .InvalidOffset, none, none), (true, none, none, some 0), (true, none, none, none)] := by
  decide +kernel

end Example

end Sdmmc.Props.C01Write
