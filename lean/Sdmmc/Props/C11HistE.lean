/-
C11 over HISTORIES UNDER FAULTS, ARBITRARY PLACEMENT — continuation of `Props/C11HistB.lean`: the hypothesis
`EntryNotAhead` of a failing `close_file` is now a PROVED INVARIANT.

`VolInvLE s gh X` (`Spec/VolumeLostE.lean`) = `VolInvL s gh X` ∧ `EntriesNotAhead s`: for EVERY open file the 32-byte entry
on the medium names no cluster and size 0, or the record's first cluster and at most the record's size.

* ESTABLISHED: by the invariant alone whenever no open file is modified (`volInvLE_of_unmodified` — e.g. after mounting,
  and for every file `open_file_in_dir` adds: its record is the entry it read or wrote); 
* PRESERVED by every covered call under ANY schedule, a device failure falling anywhere but inside a TRUNCATING
  `open_file_in_dir` (`call_under_faults_E`).  Why: the table afterwards holds unmodified records (entry = record, by
  `VolInvL`) and records that DESCEND from one of the table before — same slot, a size that did not shrink, the same
  first cluster or none before (`Lemmas.FaultX.runOp_tab`) —; and on the medium the call leaves, the entries of the
  files open before keep their bytes or have become the record (`Lemmas.FaultX.step_disk`): a failing call writes a prefix
  of the fault-free writes (`make_dir_in_dir`: stage by stage), and the slot of an open file is written only by
  `flush_file` / `close_file` of THAT file; `write` writes no directory block; create / `make_dir` write a FREE slot;
  `delete` marks the slot of a file that is not open; a truncating open rewrites the slot of a file that is not open.

So `close_file` may fail at any device call with no side condition (`close_under_any_fault_E`), and the ONE remaining
restriction of the history theorem is: no device failure inside a TRUNCATING `open_file_in_dir` (`FailsOnlyIn classC`;
`history_under_faults_E_partial`; TARGET `history_under_faults`: no restriction, into the weaker `FaultInv`).
-/
import Sdmmc.Spec.VolumeLostE
import Sdmmc.Lemmas.FaultXRawRun
import Sdmmc.Props.C11HistB

namespace Sdmmc.Props.C11HistE
open Sdmmc.Model Sdmmc.Model.Fat Sdmmc.Spec.Volume
open Sdmmc.Spec hiding run step NoFault Coherent
open Sdmmc.Props.C11Inv (withFaults Covered retryOp NameOK)
open Sdmmc.Props.C11Hist (CoveredRun FailsOnlyIn Exhausted)
open Sdmmc.Props.C11HistB (nonTruncating)

/-- The calls in which a device failure is covered: all but a truncating `open_file_in_dir`. -/
def classC : Op → Bool
  | .openFile _ _ mode => nonTruncating mode
  | _ => true

theorem classC_iff (op : Op) : classC op = Lemmas.FaultX.classC op := by
  cases op <;> first | rfl | exact C11HistB.nonTruncating_iff _

theorem failsOnlyIn_iff : ∀ (ops : List Op) (s : Mgr),
    FailsOnlyIn classC s ops ↔ Lemmas.FaultHist.FailsOnlyIn Lemmas.FaultX.classC s ops
  | [], _ => Iff.rfl
  | op :: ops, s => and_congr (by rw [classC_iff]) (failsOnlyIn_iff ops _)

theorem entriesNotAhead_iff (s : Mgr) : EntriesNotAhead s ↔ ∀ file, EntryNotAhead s file :=
  Lemmas.FaultX.rawAll_iff s

theorem invFE_iff {s : Mgr} {gh : Ghost} :
    Lemmas.FaultX.InvFE gh s ↔ ∃ gh' X', VolInvLE s gh' X' ∧ SameGeom gh.vol gh'.vol :=
  ⟨fun ⟨h1, h2⟩ => let ⟨gh', X', h3, h4⟩ := Lemmas.FaultX.invF_iff.1 h1; ⟨gh', X', ⟨h3, h2⟩, h4⟩,
   fun ⟨gh', X', h1, h2⟩ => ⟨Lemmas.FaultX.invF_iff.2 ⟨gh', X', h1.inv, h2⟩, h1.entries⟩⟩

/-! ### Established -/

/-- **No open file modified: then no entry is ahead of its record** (by the invariant: the entry of an unmodified file IS
its record). -/
theorem volInvLE_of_unmodified {s : Mgr} {gh : Ghost} {X : List (List Nat)} (hI : VolInvL s gh X)
    (hcl : ∀ f, f ∈ s.files → f.dirty = false) : VolInvLE s gh X :=
  ⟨hI, Lemmas.FaultX.rawAll_of_clean (s := Lemmas.Retry.mclr s) (Lemmas.FaultX.volInvL_iff.1 hI) hcl⟩

/-- A state with the invariant and `EntriesNotAhead`, given any schedule. -/
theorem volInvLE_withFaults {s0 : Mgr} {gh : Ghost} (hI : VolInv s0 gh) (hE : EntriesNotAhead s0) (L : List Nat) :
    VolInvLE (withFaults L s0) gh [] :=
  ⟨C11HistB.volInvL_withFaults hI L, hE⟩

/-! ### Preserved -/

/-- **`call_under_faults_E`.**  From `VolInvLE`, ONE covered call under whatever is scheduled, a device call failing
anywhere but inside a truncating `open_file_in_dir`: `VolInvLE` holds again — for a ghost of the same geometry and some
lost chains —, and the call answers `Ok` or an error. -/
theorem call_under_faults_E {s : Mgr} {gh : Ghost} {X : List (List Nat)} (hI : VolInvLE s gh X) (op : Op) (hc : Covered s op)
    (hf : (step s op).1.dev.failed ≠ s.dev.failed → classC op = true) :
    (∃ gh' X', VolInvLE (step s op).1 gh' X' ∧ SameGeom gh.vol gh'.vol) ∧ Clean (step s op).2.result := by
  obtain ⟨h1, h2⟩ := Lemmas.FaultX.step_inv_C (invFE_iff.2 ⟨gh, X, hI, SameGeom.refl _⟩) op
    ((C11Inv.covered_iff s op).1 hc) (fun h => by rw [← classC_iff]; exact hf h)
  exact ⟨invFE_iff.1 h1, h2⟩

/-- **`close_file` keeps `VolInvLE` whatever device call of it fails** — no side condition. -/
theorem close_under_any_fault_E {s : Mgr} {gh : Ghost} {X : List (List Nat)} (hI : VolInvLE s gh X) (file : Nat) :
    (∃ gh' X', VolInvLE (step s (.closeFile file)).1 gh' X' ∧ SameGeom gh.vol gh'.vol) ∧
    Clean (step s (.closeFile file)).2.result :=
  call_under_faults_E hI _ trivial fun _ => rfl

/-! ### Histories -/

/-- **`history_under_faults_E_partial`** (TARGET `history_under_faults`: the same without `hf`, into `FaultInv`).  After
EVERY prefix of a covered history run under ANY schedule in which no device call fails inside a truncating
`open_file_in_dir`: `VolInvLE` — hence `FaultInv` — holds for a ghost of the same geometry and some lost chains, and
every call so far answered `Ok` or an error. -/
theorem history_under_faults_E_partial (ops : List Op) {s : Mgr} {gh : Ghost} {X : List (List Nat)} (hI : VolInvLE s gh X)
    (hc : CoveredRun s ops) (hf : FailsOnlyIn classC s ops) (k : Nat) :
    (∃ gh' X', VolInvLE (run s (ops.take k)).1 gh' X' ∧ FaultInv (run s (ops.take k)).1 gh' X' ∧ SameGeom gh.vol gh'.vol) ∧
    ∀ o, o ∈ (run s (ops.take k)).2 → Clean o.result := by
  obtain ⟨h1, h2⟩ := Lemmas.FaultX.history_inv_C ops (invFE_iff.2 ⟨gh, X, hI, SameGeom.refl _⟩)
    ((C11Hist.coveredRun_iff ops s).1 hc) ((failsOnlyIn_iff ops s).1 hf) k
  obtain ⟨gh', X', h3, h4⟩ := invFE_iff.1 h1
  exact ⟨⟨gh', X', h3, C11HistB.faultInv_of_volInvL h3.inv, h4⟩, h2⟩

/-- The same from a state with the invariant whose open files are unmodified, and an ARBITRARY schedule. -/
theorem history_under_faults_E_from_invariant (ops : List Op) {s0 : Mgr} {gh : Ghost} (hI : VolInv s0 gh)
    (hcl : ∀ f, f ∈ s0.files → f.dirty = false) (L : List Nat)
    (hc : CoveredRun (withFaults L s0) ops) (hf : FailsOnlyIn classC (withFaults L s0) ops) (k : Nat) :
    (∃ gh' X', VolInvLE (run (withFaults L s0) (ops.take k)).1 gh' X' ∧
      FaultInv (run (withFaults L s0) (ops.take k)).1 gh' X' ∧ SameGeom gh.vol gh'.vol) ∧
    ∀ o, o ∈ (run (withFaults L s0) (ops.take k)).2 → Clean o.result :=
  history_under_faults_E_partial ops (volInvLE_of_unmodified (C11HistB.volInvL_withFaults hI L) hcl) hc hf k

/-- **`names_unique_history_E_partial`** (same hypotheses).  After every prefix, every directory of the tree holds
pairwise distinct names on the medium. -/
theorem names_unique_history_E_partial (ops : List Op) {s : Mgr} {gh : Ghost} {X : List (List Nat)} (hI : VolInvLE s gh X)
    (hc : CoveredRun s ops) (hf : FailsOnlyIn classC s ops) (k : Nat) :
    ∃ gh' : Ghost, SameGeom gh.vol gh'.vol ∧ ∀ h, h ∈ dirIds gh'.dirs →
      ((entries (dirSlots gh'.vol (run s (ops.take k)).1.dev.disk gh'.G h)).map sName).Nodup := by
  obtain ⟨⟨gh', X', h1, _, h2⟩, _⟩ := history_under_faults_E_partial ops hI hc hf k
  exact ⟨gh', h2, h1.inv.med.tree.names⟩

/-- **`retry_history_E_partial`.**  In a history as above, the read-only call at position `k` fails; the schedule is
exhausted in the state it leaves.  The retry answers what the call answers in the fault-free continuation. -/
theorem retry_history_E_partial (ops : List Op) {s : Mgr} {gh : Ghost} {X : List (List Nat)} (hI : VolInvLE s gh X)
    (hc : CoveredRun s ops) (hf : FailsOnlyIn classC s ops) (k : Nat) (op : Op) (hop : retryOp op = true)
    (hvol : (run s (ops.take k)).1.vols ≠ [])
    (hfail : (step (run s (ops.take k)).1 op).1.dev.failed ≠ (run s (ops.take k)).1.dev.failed)
    (hx : Exhausted (step (run s (ops.take k)).1 op).1.dev) :
    (step (step (run s (ops.take k)).1 op).1 op).2.result = (step (clearFaults (run s (ops.take k)).1) op).2.result := by
  obtain ⟨⟨gh', X', h1, _, _⟩, _⟩ := history_under_faults_E_partial ops hI hc hf k
  exact C11HistB.retry_when_exhausted_L h1.inv hvol op hop hfail hx

/-! ### Non-vacuity (evaluated) -/

namespace Example
open Sdmmc.Lemmas.VolExample
open Sdmmc.Props.C11HistB.Example (opsB schedB opsB_covered)

instance (s : Mgr) : Decidable (EntriesNotAhead s) := by unfold EntriesNotAhead; infer_instance

/-- The example state with `E.DAT` open and modified: its entry on the medium (no cluster, size 0) is not ahead. -/
theorem mgr0_entries : EntriesNotAhead mgr0 := by decide +kernel

/-- The history of `Props.C11HistB.Example` — six failures, inside `write`, `delete`, `close_file`, `write`, `close_file`,
`make_dir_in_dir` —: no failure inside a truncating open; nothing else is asked any more. -/
theorem opsB_classC : FailsOnlyIn classC (withFaults schedB mgr0) opsB :=
  ⟨fun _ => rfl, fun _ => rfl, fun _ => rfl, fun _ => rfl, fun _ => rfl, fun _ => rfl, fun _ => rfl, fun _ => rfl, trivial⟩

theorem opsB_invariant_E (k : Nat) :
    ∃ gh' X', VolInvLE (run (withFaults schedB mgr0) (opsB.take k)).1 gh' X' ∧ SameGeom vol16 gh'.vol :=
  let ⟨⟨gh', X', h1, _, h2⟩, _⟩ := history_under_faults_E_partial opsB
    (volInvLE_withFaults mgr0_inv mgr0_entries schedB) opsB_covered opsB_classC k
  ⟨gh', X', h1, h2⟩

/-- **Excluded point**: the hand-made state of `Props.C11HistB.Example.stale_entry_breaks_sizes` (entry "900 bytes", record
5 bytes) satisfies `VolInv` but NOT `EntriesNotAhead` — it is not reachable: `VolInvLE` is an invariant. -/
theorem stale_state_excluded : decide (EntriesNotAhead C11HistB.Example.mgrStale) = false := by decide +kernel

end Example

end Sdmmc.Props.C11HistE
