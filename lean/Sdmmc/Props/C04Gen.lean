/-
C04 / C03, tie to the source text: the machine translations (in `Sdmmc.Gen.Funs`) of
`FatVolume::cluster_to_block`, of the FAT-entry addressing in `next_cluster` / `update_fat`
(block and byte offset of entry `n` for FAT16 and FAT32), of the entry decoding thresholds
(free / bad / end of chain) and of the values `update_fat` writes (fat/volume.rs) are equal to the
hand-written model in `Model/Fat.lean`.
-/
import Sdmmc.Gen.Funs
import Sdmmc.Model.Fat
import Sdmmc.Lemmas.GenBits

namespace Sdmmc.Props.C04Gen

open Sdmmc Sdmmc.Model Sdmmc.Model.Fat Sdmmc.Gen Sdmmc.Lemmas.GenBits

/-- The model's volume record read as the Rust `fat_specific_info`. -/
def infoOf (v : FatVolume) : Funs.FatSpecificInfo :=
  match v.fatType with
  | .fat16 => .Fat16 { first_root_dir_block := v.firstRootDirBlock, root_entries_count := v.rootEntriesCount }
  | .fat32 => .Fat32 { first_root_dir_cluster := v.firstRootDirCluster, info_location := v.infoLocation }

/-- `FatVolume::cluster_to_block` as translated from the source equals the model's `clusterToBlock`,
for every volume record and every cluster id (no range hypothesis: both sides use exact arithmetic
with truncated subtraction; `cluster_to_block_ok` below says where the Rust is defined). -/
theorem cluster_to_block_eq (v : FatVolume) (cluster : Nat) :
    Funs.FatVolume_cluster_to_block v.lbaStart v.blocksPerCluster v.firstDataBlock (infoOf v) cluster =
      clusterToBlock v cluster := by
  unfold Funs.FatVolume_cluster_to_block clusterToBlock infoOf Funs.BlockIdx_add Funs.BlockCount_add
  rw [show CLUSTER_ROOT_DIR = 4294967292 from rfl]
  cases v.fatType
  · by_cases hc : cluster = 4294967292
    · simp only [hc, if_true]
    · simp only [hc, if_false]
  · by_cases hc : cluster = 4294967292
    · simp only [hc, if_true]
    · simp only [hc, if_false]

/-- The generated side condition: an ordinary cluster id is at least 2 and no `u32` sum overflows.
In particular the translated source confirms the model's remark that `c - 2` needs `c ≥ 2`. -/
theorem cluster_to_block_ok_fat16 (v : FatVolume) (cluster : Nat) (h16 : v.fatType = .fat16)
    (hne : cluster ≠ CLUSTER_ROOT_DIR)
    (h : Funs.FatVolume_cluster_to_block_ok v.lbaStart v.blocksPerCluster v.firstDataBlock (infoOf v) cluster) :
    2 ≤ cluster ∧ clusterToBlock v cluster < 4294967296 := by
  unfold Funs.FatVolume_cluster_to_block_ok infoOf at h
  rw [h16] at h
  simp only [CLUSTER_ROOT_DIR] at hne
  simp only [if_neg hne, Funs.BlockIdx_add_ok, Funs.BlockCount_add_ok, Funs.BlockCount_add] at h
  refine ⟨h.1.1.1, ?_⟩
  unfold clusterToBlock
  rw [h16, show CLUSTER_ROOT_DIR = 4294967292 from rfl]
  simp only [if_neg hne]
  exact h.2

example : Funs.FatVolume_cluster_to_block 2048 8 600 (.Fat16 { first_root_dir_block := 568, root_entries_count := 512 }) 5
    = 2048 + 600 + 3 * 8 := by decide
example : Funs.FatVolume_cluster_to_block 2048 8 600 (.Fat16 { first_root_dir_block := 568, root_entries_count := 512 })
    0xFFFFFFFC = 2048 + 568 := by decide

/-- `FatVolume::bytes_per_cluster`. -/
theorem bytes_per_cluster_eq (v : FatVolume) :
    Funs.FatVolume_bytes_per_cluster v.blocksPerCluster = bytesPerCluster v := rfl

/-! ### Where FAT entry `n` lives -/

theorem fat16_block_eq (v : FatVolume) (h : v.fatType = .fat16) (cluster : Nat) :
    Funs.next_cluster_fat16_block v.lbaStart v.fatStart cluster = fatBlock v cluster := by
  unfold Funs.next_cluster_fat16_block fatBlock Funs.BlockIdx_add Funs.BlockCount_offset_bytes
  rw [h]; rfl

theorem fat32_block_eq (v : FatVolume) (h : v.fatType = .fat32) (cluster : Nat) :
    Funs.next_cluster_fat32_block v.lbaStart v.fatStart cluster = fatBlock v cluster := by
  unfold Funs.next_cluster_fat32_block fatBlock Funs.BlockIdx_add Funs.BlockCount_offset_bytes
  rw [h]; rfl

theorem fat16_offset_eq (v : FatVolume) (h : v.fatType = .fat16) (cluster : Nat) :
    Funs.next_cluster_fat16_offset cluster = fatEntOffset v cluster := by
  unfold Funs.next_cluster_fat16_offset fatEntOffset
  rw [h]; rfl

theorem fat32_offset_eq (v : FatVolume) (h : v.fatType = .fat32) (cluster : Nat) :
    Funs.next_cluster_fat32_offset cluster = fatEntOffset v cluster := by
  unfold Funs.next_cluster_fat32_offset fatEntOffset
  rw [h]; rfl

/-- `update_fat` addresses the entry by the very same expressions as `next_cluster`. -/
theorem update_fat_addressing :
    Funs.update_fat_fat16_block = Funs.next_cluster_fat16_block ∧
    Funs.update_fat_fat32_block = Funs.next_cluster_fat32_block ∧
    Funs.update_fat_fat16_offset = Funs.next_cluster_fat16_offset ∧
    Funs.update_fat_fat32_offset = Funs.next_cluster_fat32_offset := ⟨rfl, rfl, rfl, rfl⟩

/-- The second FAT (the `if let Some(second_fat_start)` of `update_fat`) is addressed by the same
expression with `second_fat_start` in place of `fat_start`. -/
theorem fat_block2_eq (v : FatVolume) (h : v.fatType = .fat16) (cluster : Nat) :
    fatBlock2 v cluster = v.secondFatStart.map fun s => Funs.next_cluster_fat16_block v.lbaStart s cluster := by
  unfold fatBlock2 Funs.next_cluster_fat16_block Funs.BlockIdx_add Funs.BlockCount_offset_bytes
  rw [h]; rfl

example : Funs.next_cluster_fat16_block 2048 4 1000 = 2048 + 4 + 3 := by decide
example : Funs.next_cluster_fat16_offset 1000 = 464 := by decide
example : Funs.next_cluster_fat32_offset 1000 = 416 := by decide

/-! ### Reading and decoding an entry -/

theorem fat16_entry_eq (blk : Bytes) (off : Nat) :
    Funs.next_cluster_fat16_entry blk off = rawFatEntry .fat16 blk off := rfl

/-- The FAT32 entry after the `& 0x0FFF_FFFF` of `next_cluster`. -/
theorem fat32_entry_eq (blk : Bytes) (off : Nat) :
    Funs.next_cluster_fat32_entry blk off = rawFatEntry .fat32 blk off % 268435456 := by
  unfold Funs.next_cluster_fat32_entry
  simp only [and_fff_ffff]
  rfl

/-- A model outcome read as the fragment's `Except String Nat`. -/
def ofRes : Res Nat → Option (Except String Nat)
  | .ok a => some (.ok a)
  | .err .BadCluster => some (.error "BadCluster")
  | .err .EndOfFile => some (.error "EndOfFile")
  | .err .UnterminatedFatChain => some (.error "UnterminatedFatChain")
  | _ => none

/-- FAT16 classification (`0xFFF7` bad, `0xFFF8..=0xFFFF` end of chain) for every `u16` entry. -/
theorem fat16_decode_eq (raw : Nat) (h : raw < 65536) :
    some (Funs.next_cluster_fat16_decode raw) = ofRes (decodeNext .fat16 raw) := by
  unfold Funs.next_cluster_fat16_decode decodeNext
  by_cases h1 : raw = 65527
  · simp only [h1, if_true]; rfl
  by_cases h2 : raw ≥ 65528
  · have h2' : 65528 ≤ raw ∧ raw ≤ 65535 := ⟨h2, by omega⟩
    simp only [h1, h2, h2', if_true, if_false]; rfl
  · simp only [h1, h2, if_false]; rfl

/-- FAT32 classification (0 free, `0x0FFFFFF7` bad, 1 and `0x0FFFFFF8..` end of chain) of the masked
entry, for every `u32` raw entry. -/
theorem fat32_decode_eq (raw : Nat) :
    some (Funs.next_cluster_fat32_decode (raw % 268435456)) = ofRes (decodeNext .fat32 raw) := by
  unfold Funs.next_cluster_fat32_decode decodeNext
  have hlt : raw % 268435456 < 268435456 := Nat.mod_lt _ (by decide)
  generalize raw % 268435456 = f at hlt ⊢
  simp only []
  by_cases h0 : f = 0
  · simp only [h0, if_true]; rfl
  by_cases h1 : f = 268435447
  · simp only [h1, if_true]; rfl
  by_cases h2 : f = 1 ∨ f ≥ 268435448
  · have h2' : f = 1 ∨ (268435448 ≤ f ∧ f ≤ 268435455) := by omega
    simp only [h0, h1, h2, h2', if_true, if_false]; rfl
  · have h2' : ¬ (f = 1 ∨ (268435448 ≤ f ∧ f ≤ 268435455)) := by omega
    simp only [h0, h1, h2, h2', if_false]; rfl

/-- Read + decode, both FAT types: the translated `next_cluster` arms against the model's
`decodeNext (rawFatEntry ..)`. -/
theorem next_cluster_entry_eq (blk : Bytes) (off : Nat) :
    some (Funs.next_cluster_fat16_decode (Funs.next_cluster_fat16_entry blk off)) =
      ofRes (decodeNext .fat16 (rawFatEntry .fat16 blk off)) ∧
    some (Funs.next_cluster_fat32_decode (Funs.next_cluster_fat32_entry blk off)) =
      ofRes (decodeNext .fat32 (rawFatEntry .fat32 blk off)) := by
  constructor
  · rw [fat16_entry_eq]
    apply fat16_decode_eq
    show readU16 blk off < 65536
    unfold readU16
    have := UInt8.toNat_lt (blk.getD off 0)
    have := UInt8.toNat_lt (blk.getD (off + 1) 0)
    unfold byteAt; omega
  · rw [fat32_entry_eq]
    exact fat32_decode_eq _

example : Funs.next_cluster_fat16_decode 0xFFF7 = .error "BadCluster" := by decide
example : Funs.next_cluster_fat16_decode 0xFFF8 = .error "EndOfFile" := by decide
example : Funs.next_cluster_fat16_decode 0xFFF6 = .ok 0xFFF6 := by decide
example : Funs.next_cluster_fat32_decode 0 = .error "UnterminatedFatChain" := by decide
example : Funs.next_cluster_fat32_decode 0x0FFFFFF8 = .error "EndOfFile" := by decide

/-! ### What `update_fat` writes -/

theorem fat16_written_eq (newValue : Nat) : Funs.update_fat_fat16_entry newValue = fat16Entry newValue := rfl
theorem fat32_written_eq (newValue : Nat) : Funs.update_fat_fat32_entry newValue = fat32Entry newValue := rfl

/-- The top-nibble merge `(existing & 0xF000_0000) | (entry & 0x0FFF_FFFF)` for a `u32` `existing`. -/
theorem fat32_merge_eq (existing entry : Nat) (h : existing < 4294967296) :
    Funs.update_fat_fat32_new existing entry = existing / 268435456 * 268435456 + entry % 268435456 := by
  unfold Funs.update_fat_fat32_new
  have h1 : existing &&& 4026531840 = existing / 2 ^ 28 * 2 ^ 28 := and_high existing 28 4 h
  simp only [h1, and_fff_ffff]
  exact or_eq_add _ _ 28 (Nat.mod_lt _ (by decide))

example : Funs.update_fat_fat32_new 0xA0000005 0xFFFFFFFF = 0xAFFFFFFF := by decide
example : Funs.update_fat_fat16_entry 0xFFFFFFFF = 0xFFFF := by decide

end Sdmmc.Props.C04Gen
