/-
C12, tie to the source text: the machine translations (in `Sdmmc.Gen.Funs`) of the CSD register
accessors (`define_field!` rows expanded from the macro text), of `card_capacity_bytes` /
`card_capacity_blocks` for both CSD layouts (sdcard/proto.rs) and of the address scaling at the top of
`read` / `write` (sdcard/mod.rs) are equal to the hand-written model.
-/
import Sdmmc.Gen.Funs
import Sdmmc.Model.Csd
import Sdmmc.Model.Sd
import Sdmmc.Lemmas.GenBits

namespace Sdmmc.Props.C12Gen

open Sdmmc Sdmmc.Model Sdmmc.Model.Sd Sdmmc.Gen Sdmmc.Lemmas.GenBits

theorem byteAt_lt (d : Bytes) (i : Nat) : byteAt d i < 256 := UInt8.toNat_lt _

/-- One step of a multi-part `define_field!` accessor: `result <<= n; result |= part`. -/
theorem acc_step (r p n W : Nat) (hp : p < 2 ^ n) (hr : r * 2 ^ n < W) :
    ((r <<< n) % W) ||| p = r * 2 ^ n + p := by
  rw [shl, Nat.mod_eq_of_lt hr, or_eq_add _ _ _ hp]

private theorem bit7 : ∀ b, b < 256 → (if (b &&& ((1 <<< 7) % 256)) ≠ 0 then 1 else 0) = b / 2 ^ 7 % 2 ^ 1 := by
  decide +kernel

/-! ### CSD version 1 -/

theorem v1_device_size_eq (d : Bytes) : Funs.CsdV1_device_size d = Csd.v1DeviceSize d := by
  unfold Funs.CsdV1_device_size Csd.v1DeviceSize Csd.field csdV1_device_size
  simp only [List.foldl, Csd.accessField, show ∀ i, Funs.rdByte d i = byteAt d i from fun _ => rfl, shr, and_3, and_255,
    Nat.zero_shiftLeft, Nat.zero_mod, Nat.zero_or, Nat.zero_mul, Nat.zero_add, Nat.reducePow, Nat.div_one]
  rw [acc_step _ _ 8 _ (by omega) (by omega), acc_step _ _ 2 _ (by omega) (by omega)]

theorem v1_device_size_multiplier_eq (d : Bytes) :
    Funs.CsdV1_device_size_multiplier d = Csd.v1DeviceSizeMultiplier d := by
  unfold Funs.CsdV1_device_size_multiplier Csd.v1DeviceSizeMultiplier Csd.field csdV1_device_size_multiplier
  simp only [List.foldl, Csd.accessField, show ∀ i, Funs.rdByte d i = byteAt d i from fun _ => rfl, bit7 _ (byteAt_lt d 10)]
  simp only [shr, and_3, Nat.zero_shiftLeft, Nat.zero_mod, Nat.zero_or, Nat.zero_mul, Nat.zero_add, Nat.reducePow,
    Nat.div_one]
  rw [acc_step _ _ 1 _ (by omega) (by omega)]

theorem v1_read_block_length_eq (d : Bytes) : Funs.CsdV1_read_block_length d = Csd.v1ReadBlockLength d := by
  unfold Funs.CsdV1_read_block_length Csd.v1ReadBlockLength Csd.field csdV1_read_block_length
  simp only [List.foldl, Csd.accessField, show ∀ i, Funs.rdByte d i = byteAt d i from fun _ => rfl, shr, and_15,
    Nat.zero_mul, Nat.zero_add, Nat.reducePow]

theorem v1DeviceSize_lt (d : Bytes) : Csd.v1DeviceSize d < 4096 := by
  unfold Csd.v1DeviceSize Csd.field csdV1_device_size
  simp only [List.foldl, Csd.accessField, Nat.reducePow]
  omega

theorem v1Shift_le (d : Bytes) : Csd.v1DeviceSizeMultiplier d + Csd.v1ReadBlockLength d + 2 ≤ 24 := by
  unfold Csd.v1DeviceSizeMultiplier Csd.v1ReadBlockLength Csd.field csdV1_device_size_multiplier csdV1_read_block_length
  simp only [List.foldl, Csd.accessField, Nat.reducePow]
  omega

/-- `CsdV1::card_capacity_bytes` as translated from the source equals the model, for every register image. -/
theorem v1_capacity_bytes_eq (d : Bytes) : Funs.CsdV1_card_capacity_bytes d = Csd.v1CapacityBytes d := by
  unfold Funs.CsdV1_card_capacity_bytes Csd.v1CapacityBytes
  simp only [v1_device_size_eq, v1_device_size_multiplier_eq, v1_read_block_length_eq, shl]
  apply Nat.mod_eq_of_lt
  have h1 := v1DeviceSize_lt d
  have h2 := v1Shift_le d
  calc (Csd.v1DeviceSize d + 1) * 2 ^ (Csd.v1DeviceSizeMultiplier d + Csd.v1ReadBlockLength d + 2)
      ≤ 4096 * 2 ^ 24 := Nat.mul_le_mul (by omega) (Nat.pow_le_pow_right (by decide) h2)
    _ < 18446744073709551616 := by decide

/-- The translated function cannot panic: the `u8` sum and the shift amount stay in range. -/
theorem v1_capacity_bytes_ok (d : Bytes) : Funs.CsdV1_card_capacity_bytes_ok d := by
  unfold Funs.CsdV1_card_capacity_bytes_ok
  simp only [v1_device_size_eq, v1_device_size_multiplier_eq, v1_read_block_length_eq]
  have h1 := v1DeviceSize_lt d
  have h2 := v1Shift_le d
  omega

/-- `CsdV1::card_capacity_blocks`. -/
theorem v1_capacity_blocks_eq (d : Bytes) : Funs.CsdV1_card_capacity_blocks d = Csd.v1CapacityBlocks d := by
  unfold Funs.CsdV1_card_capacity_blocks Csd.v1CapacityBlocks
  rw [v1_capacity_bytes_eq, shr]

/-! ### CSD version 2 -/

theorem v2_device_size_eq (d : Bytes) : Funs.CsdV2_device_size d = Csd.v2DeviceSize d := by
  unfold Funs.CsdV2_device_size Csd.v2DeviceSize Csd.field csdV2_device_size
  simp only [List.foldl, Csd.accessField, show ∀ i, Funs.rdByte d i = byteAt d i from fun _ => rfl, shr, and_63, and_255,
    Nat.zero_shiftLeft, Nat.zero_mod, Nat.zero_or, Nat.zero_mul, Nat.zero_add, Nat.reducePow, Nat.div_one]
  rw [acc_step (byteAt d 7 % 64) _ 8 _ (by omega) (by omega), acc_step _ _ 8 _ (by omega) (by omega)]

/-- `CsdV2::card_capacity_bytes`. -/
theorem v2_capacity_bytes_eq (d : Bytes) : Funs.CsdV2_card_capacity_bytes d = Csd.v2CapacityBytes d := by
  unfold Funs.CsdV2_card_capacity_bytes Csd.v2CapacityBytes
  rw [v2_device_size_eq]

/-- `CsdV2::card_capacity_blocks`. -/
theorem v2_capacity_blocks_eq (d : Bytes) : Funs.CsdV2_card_capacity_blocks d = Csd.v2CapacityBlocks d := by
  unfold Funs.CsdV2_card_capacity_blocks Csd.v2CapacityBlocks
  rw [v2_device_size_eq]
  rfl

/-- Evaluated: a version-1 register with `C_SIZE = 0xFFF`, `C_SIZE_MULT = 7`, `READ_BL_LEN = 9`: 1 GiB. -/
example : Funs.CsdV1_card_capacity_bytes
    [0x00, 0, 0, 0, 0, 0x09, 0x03, 0xFF, 0xC0, 0x03, 0x80, 0, 0, 0, 0, 0] = 1073741824 := by decide
/-- Evaluated: a version-2 register with `C_SIZE = 0x003B37` (7.4 GiB card): 15523840 blocks. -/
example : Funs.CsdV2_card_capacity_blocks
    [0x40, 0, 0, 0, 0, 0, 0, 0x00, 0x3B, 0x37, 0, 0, 0, 0, 0, 0] = 15523840 := by decide

/-! ### Address scaling in `read` / `write` -/

def toCardType : Model.Sd.CardType → Funs.CardType
  | .SD1 => .SD1
  | .SD2 => .SD2
  | .SDHC => .SDHC

/-- The model's outcome read as the translated fragment's `Except String Nat` (no image for a panic). -/
def ofSRes : SRes Nat → Option (Except String Nat)
  | .ok a => some (.ok a)
  | .err .CardNotFound => some (.error "CardNotFound")
  | _ => none

/-- `let start_idx = match self.card_type { Some(SD1 | SD2) => idx * 512, Some(SDHC) => idx, None => return Err(CardNotFound) }`
in `read`: equal to the model's `startIdx` wherever the model does not panic, for all card types and indices. -/
theorem read_start_idx_eq (ct : Option Model.Sd.CardType) (idx : Nat)
    (h : ∀ m, startIdx ct idx ≠ .panic m) :
    ofSRes (startIdx ct idx) = some (Funs.read_start_idx (ct.map toCardType) idx) := by
  unfold startIdx at *
  rcases ct with _ | _ | _ | _
  · rfl
  · simp only at h ⊢
    split at h
    · rename_i hle; simp only [if_pos hle]; rfl
    · exact absurd rfl (h _)
  · simp only at h ⊢
    split at h
    · rename_i hle; simp only [if_pos hle]; rfl
    · exact absurd rfl (h _)
  · rfl

/-- The model panics exactly where the generated side condition fails (`idx * 512` overflows `u32`). -/
theorem read_start_idx_ok_iff (ct : Option Model.Sd.CardType) (idx : Nat) :
    Funs.read_start_idx_ok (ct.map toCardType) idx ↔ ∀ m, startIdx ct idx ≠ .panic m := by
  unfold startIdx Funs.read_start_idx_ok
  rcases ct with _ | _ | _ | _
  · simp
  · simp only [Option.map, toCardType]
    constructor
    · intro h m; simp at h; rw [if_pos (by omega)]; intro e; cases e
    · intro h; simp
      by_cases hle : idx * 512 ≤ 4294967295
      · omega
      · rw [if_neg hle] at h; exact absurd rfl (h _)
  · simp only [Option.map, toCardType]
    constructor
    · intro h m; simp at h; rw [if_pos (by omega)]; intro e; cases e
    · intro h; simp
      by_cases hle : idx * 512 ≤ 4294967295
      · omega
      · rw [if_neg hle] at h; exact absurd rfl (h _)
  · simp [toCardType]

/-- `write` scales the address by the same expression as `read`. -/
theorem write_start_idx_eq_read (ct : Option Funs.CardType) (idx : Nat) :
    Funs.write_start_idx ct idx = Funs.read_start_idx ct idx := rfl

example : Funs.read_start_idx (some .SD2) 3 = .ok 1536 := by decide
example : Funs.read_start_idx (some .SDHC) 3 = .ok 3 := by decide
example : Funs.read_start_idx none 3 = .error "CardNotFound" := by decide

end Sdmmc.Props.C12Gen
