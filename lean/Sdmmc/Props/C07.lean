/-
C07 — Open modes, read-only protection and file/directory typing behave as documented.

Property theorems only; helper lemmas live in `Sdmmc.Lemmas.Modes`.
Model: `Sdmmc.Model.openFileInDir`, `deleteFileInDir`, `makeDirInDir`, `openDir`, `write`,
`solveModeVariant`, `fileIsOpen` (mirror /repo/src/volume_mgr.rs).

Shape of the statements.  Each of these calls first validates its handle and the name, then looks
the name up in the directory (`lookup`, the only part that touches the device), then decides.
The decision is stated outright as a function of the *outcome of that lookup*, which is never
unfolded: the theorems hold for every directory content, every FAT and every fault plan.  The
state a refusal leaves is the state right after the lookup; `lookup_writes_nothing` /
`lookup_state` show that this is the start state up to the read side of the device (call counter,
read log, failure count) and the block cache — that is "a refused call changes nothing on the
medium" (`refusal_no_writes`).
-/
import Sdmmc.Lemmas.Modes

namespace Sdmmc.Props.C07
open Sdmmc.Model
open Sdmmc.Lemmas.MHoare (resetLogs)

/-! ### Vocabulary -/

/-- `d` is an open directory handle with record `dir` (the table slot that the handle search
finds), the volume of `dir` is open at slot `vi`, and `name` is a valid 8.3 name with on-disk
form `sfn`. -/
def DirCtx (s : Mgr) (d : Nat) (name : List Nat) (dir : DirInfo) (vi : Nat) (sfn : Bytes) : Prop :=
  (∃ di, s.dirs.findIdx? (·.rawDirectory = d) = some di ∧ s.dirs[di]? = some dir) ∧
  s.vols.findIdx? (·.rawVolume = dir.rawVolume) = some vi ∧
  Sfn.createFromStr name = .ok sfn

/-- The directory lookup all the calls of C07 start with: outcome and state after it. -/
def lookup (vi : Nat) (dir : DirInfo) (sfn : Bytes) : M DirEntry :=
  withVol vi (Fat.findDirectoryEntry dir.cluster sfn)

/-- When, and with which error, `open_file_in_dir` refuses — the whole matrix: mode × lookup
outcome × "a file at this directory slot of this volume is open" (`isOpen`). `none`: not refused
at this point (the file is opened, created or truncated). -/
def openRefusal (mode : Mode) (r : Res DirEntry) (isOpen : DirEntry → Bool) : Option Err :=
  match r with
  | .err .NotFound =>
    if mode = .ReadWriteCreate ∨ mode = .ReadWriteCreateOrTruncate ∨ mode = .ReadWriteCreateOrAppend
    then none else some .NotFound
  | .err e => some e
  | .ok e =>
    if isOpen e then some .FileAlreadyOpen
    else if mode = .ReadWriteCreate then some .FileAlreadyExists
    else if Attr.isReadOnly e.attributes ∧ mode ≠ .ReadOnly then some .ReadOnly
    else if Attr.isDirectory e.attributes then some .OpenedDirAsFile
    else none
  | _ => none

/-- When `delete_file_in_dir` refuses. -/
def deleteRefusal (r : Res DirEntry) (isOpen : DirEntry → Bool) : Option Err :=
  match r with
  | .err e => some e
  | .ok e => if Attr.isDirectory e.attributes then some .DeleteDirAsFile
             else if isOpen e then some .FileAlreadyOpen else none
  | _ => none

/-- When `make_dir_in_dir` refuses. -/
def mkdirRefusal (r : Res DirEntry) : Option Err :=
  match r with
  | .ok e => if Attr.isDirectory e.attributes then some .DirAlreadyExists else some .FileAlreadyExists
  | .err .NotFound => none
  | .err e => some e
  | _ => none

/-- When `open_dir` (on a name other than `.`) refuses. -/
def openDirRefusal (r : Res DirEntry) : Option Err :=
  match r with
  | .ok e => if Attr.isDirectory e.attributes then none else some .OpenedFileAsDir
  | .err e => some e
  | _ => none

/-- The table record of a file opened on an existing directory entry. -/
def openedFile (d : DirInfo) (id : Nat) (e : DirEntry) (mode : Mode) (offset : Nat) : FileInfo :=
  { rawFile := id, rawVolume := d.rawVolume, curClusterOff := 0, curCluster := e.cluster,
    currentOffset := offset, mode := mode, entry := e, dirty := false }

/-- The table record of a file opened with truncation: length 0, modification time `now`. -/
def truncatedFile (d : DirInfo) (id : Nat) (e : DirEntry) (now : Timestamp) : FileInfo :=
  { (openedFile d id e .ReadWriteTruncate 0).updateLength 0 with
    entry := { ((openedFile d id e .ReadWriteTruncate 0).updateLength 0).entry with mtime := now } }

/-- The table record of a file that has just been created on directory entry `entry`. -/
def createdFile (d : DirInfo) (id : Nat) (entry : DirEntry) : FileInfo :=
  { rawFile := id, rawVolume := d.rawVolume, curClusterOff := 0, curCluster := entry.cluster,
    currentOffset := 0, mode := .ReadWriteCreate, entry := entry, dirty := false }

/-- What `step` reports for a call refused with `e` right after the lookup: the post-lookup state,
the error, no writes, the reads of the lookup. -/
def refusedAfterLookup (s : Mgr) (vi : Nat) (dir : DirInfo) (sfn : Bytes) (e : Err) : Mgr × Out :=
  ((lookup vi dir sfn (resetLogs s)).2,
   { result := .err e, writes := [], reads := (lookup vi dir sfn (resetLogs s)).2.dev.rlog.reverse })

/-! ### Mode resolution -/

/-- `solve_mode_variant`, all twelve cells: the create-or variants become append / truncate when
the name exists and create when it does not; the other modes are left alone. -/
theorem solve_mode_table :
    solveModeVariant .ReadOnly false = .ReadOnly ∧ solveModeVariant .ReadOnly true = .ReadOnly ∧
    solveModeVariant .ReadWriteAppend false = .ReadWriteAppend ∧
    solveModeVariant .ReadWriteAppend true = .ReadWriteAppend ∧
    solveModeVariant .ReadWriteTruncate false = .ReadWriteTruncate ∧
    solveModeVariant .ReadWriteTruncate true = .ReadWriteTruncate ∧
    solveModeVariant .ReadWriteCreate false = .ReadWriteCreate ∧
    solveModeVariant .ReadWriteCreate true = .ReadWriteCreate ∧
    solveModeVariant .ReadWriteCreateOrTruncate false = .ReadWriteCreate ∧
    solveModeVariant .ReadWriteCreateOrTruncate true = .ReadWriteTruncate ∧
    solveModeVariant .ReadWriteCreateOrAppend false = .ReadWriteCreate ∧
    solveModeVariant .ReadWriteCreateOrAppend true = .ReadWriteAppend :=
  Lemmas.Modes.solve_mode_table

/-! ### The lookup never writes -/

/-- The lookup leaves the write log and the medium alone — in every state, with or without device
faults. -/
theorem lookup_writes_nothing (vi : Nat) (dir : DirInfo) (sfn : Bytes) (s : Mgr) :
    (lookup vi dir sfn s).2.dev.wlog = s.dev.wlog ∧ (lookup vi dir sfn s).2.dev.disk = s.dev.disk :=
  Lemmas.Modes.lookup_writes_nothing vi dir sfn s

/-- More precisely: the state after the lookup is the state before it except for the device's call
counter, read log and failure count, and the block cache.  Tables, counter, volume records,
medium: untouched. -/
theorem lookup_state (vi : Nat) (dir : DirInfo) (sfn : Bytes) (s : Mgr) :
    (lookup vi dir sfn s).2 =
      { s with dev := { s.dev with calls := (lookup vi dir sfn s).2.dev.calls,
                                   rlog := (lookup vi dir sfn s).2.dev.rlog,
                                   failed := (lookup vi dir sfn s).2.dev.failed },
               cache := (lookup vi dir sfn s).2.cache } :=
  Lemmas.Modes.lookup_state vi dir sfn s

/-! ### `open_file_in_dir` -/

/-- The complete refusal matrix of `open_file_in_dir` (room in the file table, valid directory
handle on an open volume, valid name): whenever `openRefusal` names an error, that error is the
answer and the state is the post-lookup state (no table change, no handle drawn).  The named
cells follow. -/
theorem open_file_decision (s : Mgr) (d : Nat) (name : List Nat) (dir : DirInfo) (vi : Nat) (sfn : Bytes)
    (mode : Mode) (hc : DirCtx s d name dir vi sfn) (hroom : s.files.length < s.maxFiles) (e : Err)
    (h : openRefusal mode (lookup vi dir sfn s).1 (fileIsOpen s dir.rawVolume) = some e) :
    openFileInDir d name mode s = (.err e, (lookup vi dir sfn s).2) :=
  Lemmas.Modes.open_file_refusal mode hc hroom e h

section
variable (s : Mgr) (d : Nat) (name : List Nat) (dir : DirInfo) (vi : Nat) (sfn : Bytes)

/-- (a) A missing name is `NotFound` for the modes that do not create. -/
theorem open_missing_not_found (mode : Mode)
    (hm : mode = .ReadOnly ∨ mode = .ReadWriteAppend ∨ mode = .ReadWriteTruncate)
    (hc : DirCtx s d name dir vi sfn) (hroom : s.files.length < s.maxFiles)
    (hr : (lookup vi dir sfn s).1 = .err .NotFound) :
    openFileInDir d name mode s = (.err .NotFound, (lookup vi dir sfn s).2) :=
  Lemmas.Modes.open_missing mode hm hc hroom hr

/-- (b) Any other lookup error (a device fault, a bad cluster, …) is passed on, in every mode. -/
theorem open_lookup_error (mode : Mode) (hc : DirCtx s d name dir vi sfn) (hroom : s.files.length < s.maxFiles)
    (e : Err) (he : e ≠ .NotFound) (hr : (lookup vi dir sfn s).1 = .err e) :
    openFileInDir d name mode s = (.err e, (lookup vi dir sfn s).2) :=
  Lemmas.Modes.open_lookup_error mode hc hroom e he hr

/-- (c) A file that is open — an open file sits at the same (volume, directory block, slot) —
cannot be opened again, in any mode, through any directory handle. -/
theorem open_twice_refused (mode : Mode) (hc : DirCtx s d name dir vi sfn) (hroom : s.files.length < s.maxFiles)
    (en : DirEntry) (hr : (lookup vi dir sfn s).1 = .ok en) (ho : fileIsOpen s dir.rawVolume en = true) :
    openFileInDir d name mode s = (.err .FileAlreadyOpen, (lookup vi dir sfn s).2) :=
  Lemmas.Modes.open_already_open mode hc hroom en hr ho

/-- (d) `ReadWriteCreate` fails on an existing name (file or directory). -/
theorem create_on_existing_refused (hc : DirCtx s d name dir vi sfn) (hroom : s.files.length < s.maxFiles)
    (en : DirEntry) (hr : (lookup vi dir sfn s).1 = .ok en) (ho : fileIsOpen s dir.rawVolume en = false) :
    openFileInDir d name .ReadWriteCreate s = (.err .FileAlreadyExists, (lookup vi dir sfn s).2) :=
  Lemmas.Modes.open_create_existing hc hroom en hr ho

/-- (e) A file carrying the read-only attribute cannot be opened in any writing mode. -/
theorem readonly_attribute_blocks_writing (mode : Mode) (hm : mode ≠ .ReadOnly) (hm2 : mode ≠ .ReadWriteCreate)
    (hc : DirCtx s d name dir vi sfn) (hroom : s.files.length < s.maxFiles)
    (en : DirEntry) (hr : (lookup vi dir sfn s).1 = .ok en) (ho : fileIsOpen s dir.rawVolume en = false)
    (ha : Attr.isReadOnly en.attributes = true) :
    openFileInDir d name mode s = (.err .ReadOnly, (lookup vi dir sfn s).2) :=
  Lemmas.Modes.open_readonly_attr mode hm hm2 hc hroom en hr ho ha

/-- (f) A directory cannot be opened as a file (when (d), (e) do not apply first). -/
theorem directory_not_opened_as_file (mode : Mode) (hm2 : mode ≠ .ReadWriteCreate)
    (hc : DirCtx s d name dir vi sfn) (hroom : s.files.length < s.maxFiles)
    (en : DirEntry) (hr : (lookup vi dir sfn s).1 = .ok en) (ho : fileIsOpen s dir.rawVolume en = false)
    (hro : Attr.isReadOnly en.attributes = false ∨ mode = .ReadOnly)
    (hd : Attr.isDirectory en.attributes = true) :
    openFileInDir d name mode s = (.err .OpenedDirAsFile, (lookup vi dir sfn s).2) :=
  Lemmas.Modes.open_dir_as_file mode hm2 hc hroom en hr ho hro hd

/-- (g) `ReadOnly` on an existing plain file that is not open succeeds: the handle is the counter
value, the new table record has offset 0, the entry's length, mode `ReadOnly`; nothing else
changes beyond the lookup's reads. -/
theorem open_read_only (hc : DirCtx s d name dir vi sfn) (hroom : s.files.length < s.maxFiles)
    (en : DirEntry) (hr : (lookup vi dir sfn s).1 = .ok en) (ho : fileIsOpen s dir.rawVolume en = false)
    (hd : Attr.isDirectory en.attributes = false) :
    openFileInDir d name .ReadOnly s =
      (.ok s.nextId, { (lookup vi dir sfn s).2 with
        nextId := (s.nextId + 1) % 4294967296,
        files := s.files ++ [openedFile dir s.nextId en .ReadOnly 0] }) ∧
    (openedFile dir s.nextId en .ReadOnly 0).currentOffset = 0 ∧
    (openedFile dir s.nextId en .ReadOnly 0).length = en.size ∧
    (openedFile dir s.nextId en .ReadOnly 0).mode = .ReadOnly :=
  ⟨Lemmas.Modes.open_file_readOnly hc hroom en hr ho hd, rfl, rfl, rfl⟩

/-- (h) `ReadWriteAppend`, and `ReadWriteCreateOrAppend` on an existing name, start at the end:
the new record has `currentOffset = size` and mode `ReadWriteAppend`. -/
theorem open_append (mode : Mode) (hm : mode = .ReadWriteAppend ∨ mode = .ReadWriteCreateOrAppend)
    (hc : DirCtx s d name dir vi sfn) (hroom : s.files.length < s.maxFiles)
    (en : DirEntry) (hr : (lookup vi dir sfn s).1 = .ok en) (ho : fileIsOpen s dir.rawVolume en = false)
    (hro : Attr.isReadOnly en.attributes = false) (hd : Attr.isDirectory en.attributes = false) :
    openFileInDir d name mode s =
      (.ok s.nextId, { (lookup vi dir sfn s).2 with
        nextId := (s.nextId + 1) % 4294967296,
        files := s.files ++ [openedFile dir s.nextId en .ReadWriteAppend en.size] }) ∧
    (openedFile dir s.nextId en .ReadWriteAppend en.size).currentOffset = en.size :=
  ⟨Lemmas.Modes.open_file_append mode hm hc hroom en hr ho hro hd, rfl⟩

/-- (j) Truncate empties: `ReadWriteTruncate`, and `ReadWriteCreateOrTruncate` on an existing name,
on a plain writable file that is not open — whenever the call succeeds, the new record has length 0,
offset 0, mode `ReadWriteTruncate` and still points at the same directory slot.  (That the FAT
chain is cut and the entry rewritten on the medium is the subject of C03/C06.) -/
theorem open_truncate (mode : Mode) (hm : mode = .ReadWriteTruncate ∨ mode = .ReadWriteCreateOrTruncate)
    (hc : DirCtx s d name dir vi sfn) (hroom : s.files.length < s.maxFiles)
    (en : DirEntry) (hr : (lookup vi dir sfn s).1 = .ok en) (ho : fileIsOpen s dir.rawVolume en = false)
    (hro : Attr.isReadOnly en.attributes = false) (hd : Attr.isDirectory en.attributes = false)
    (h : Nat) (hok : (openFileInDir d name mode s).1 = .ok h) :
    (h = s.nextId ∧
     (openFileInDir d name mode s).2.files = s.files ++ [truncatedFile dir s.nextId en s.clock] ∧
     (openFileInDir d name mode s).2.nextId = (s.nextId + 1) % 4294967296) ∧
    (truncatedFile dir s.nextId en s.clock).length = 0 ∧
    (truncatedFile dir s.nextId en s.clock).currentOffset = 0 ∧
    (truncatedFile dir s.nextId en s.clock).mode = .ReadWriteTruncate ∧
    (truncatedFile dir s.nextId en s.clock).entry.entryBlock = en.entryBlock ∧
    (truncatedFile dir s.nextId en s.clock).entry.entryOffset = en.entryOffset :=
  ⟨Lemmas.Modes.open_file_truncate mode hm hc hroom en hr ho hro hd h hok, rfl, rfl, rfl, rfl, rfl⟩

/-- (k) The creating modes on a missing name (`ReadWriteCreate`, and both create-or variants, which
pick "create"): whenever the call succeeds, the new record is a file at offset 0 in mode
`ReadWriteCreate` on the entry the directory writer returned. -/
theorem open_create (mode : Mode)
    (hm : mode = .ReadWriteCreate ∨ mode = .ReadWriteCreateOrTruncate ∨ mode = .ReadWriteCreateOrAppend)
    (hc : DirCtx s d name dir vi sfn) (hroom : s.files.length < s.maxFiles)
    (hr : (lookup vi dir sfn s).1 = .err .NotFound)
    (h : Nat) (hok : (openFileInDir d name mode s).1 = .ok h) :
    h = s.nextId ∧
    ∃ entry, (openFileInDir d name mode s).2.files = s.files ++ [createdFile dir s.nextId entry] ∧
      (openFileInDir d name mode s).2.nextId = (s.nextId + 1) % 4294967296 :=
  Lemmas.Modes.open_file_create mode hm hc hroom hr h hok

/-- (i) An invalid 8.3 name is refused with the name error before any device access: the state is
unchanged, nothing is read. -/
theorem open_invalid_name (mode : Mode) (hroom : s.files.length < s.maxFiles)
    (hslot : ∃ di, s.dirs.findIdx? (·.rawDirectory = d) = some di ∧ s.dirs[di]? = some dir)
    (hvol : s.vols.findIdx? (·.rawVolume = dir.rawVolume) = some vi)
    (fe : FnErr) (hname : Sfn.createFromStr name = .error fe) :
    openFileInDir d name mode s = (.err (.FilenameError fe), s) :=
  Lemmas.Modes.open_file_bad_name mode hroom hslot hvol fe hname

/-! ### Read-only handles, delete, mkdir, open_dir -/

/-- A handle opened `ReadOnly` rejects `write` with `ReadOnly`; nothing is read or written, the
state is unchanged. -/
theorem readonly_handle_rejects_write (f : Nat) (data : Bytes) (i : Nat) (x : FileInfo) (v : Nat)
    (hl : s.locked = false)
    (hf : s.files.findIdx? (·.rawFile = f) = some i) (hx : s.files[i]? = some x)
    (hv : s.vols.findIdx? (·.rawVolume = x.rawVolume) = some v) (hm : x.mode = .ReadOnly) :
    write f data s = (.err .ReadOnly, s) ∧
    step s (.write f data) = (resetLogs s, { result := .err .ReadOnly, writes := [], reads := [] }) :=
  ⟨Lemmas.Modes.write_readOnly f data i x v hf hx hv hm,
   Lemmas.Modes.write_readOnly_step f data i x v hl hf hx hv hm⟩

/-- `delete_file_in_dir`: a directory is not deleted as a file (`DeleteDirAsFile`), an open file is
not deleted (`FileAlreadyOpen`), a lookup error — a missing name is `NotFound` — is passed on; the
state is the post-lookup state. -/
theorem delete_guards (hc : DirCtx s d name dir vi sfn) (e : Err)
    (h : deleteRefusal (lookup vi dir sfn s).1 (fileIsOpen s dir.rawVolume) = some e) :
    deleteFileInDir d name s = (.err e, (lookup vi dir sfn s).2) :=
  Lemmas.Modes.delete_refusal hc e h

/-- `make_dir_in_dir` on an existing name: `DirAlreadyExists` for a directory, `FileAlreadyExists`
for a file; other lookup errors are passed on. -/
theorem mkdir_guards (hc : DirCtx s d name dir vi sfn) (hroom : s.dirs.length < s.maxDirs) (e : Err)
    (h : mkdirRefusal (lookup vi dir sfn s).1 = some e) :
    makeDirInDir d name s = (.err e, (lookup vi dir sfn s).2) :=
  Lemmas.Modes.mkdir_refusal hc hroom e h

/-- `open_dir`: a file is not opened as a directory (`OpenedFileAsDir`); a missing name is
`NotFound`. -/
theorem open_dir_guards (hc : DirCtx s d name dir vi sfn) (hroom : s.dirs.length < s.maxDirs)
    (hnd : sfn ≠ Sfn.thisDir) (e : Err) (h : openDirRefusal (lookup vi dir sfn s).1 = some e) :
    openDir d name s = (.err e, (lookup vi dir sfn s).2) :=
  Lemmas.Modes.open_dir_refusal hc hroom hnd e h

/-! ### A refused call changes nothing on the medium -/

/-- As API calls: every refusal above answers with the error, *no device write*, and leaves the
post-lookup state … -/
theorem refusal_no_writes (hl : s.locked = false) (hc : DirCtx s d name dir vi sfn) (e : Err) :
    (∀ mode, s.files.length < s.maxFiles →
      openRefusal mode (lookup vi dir sfn (resetLogs s)).1 (fileIsOpen s dir.rawVolume) = some e →
      step s (.openFile d name mode) = refusedAfterLookup s vi dir sfn e) ∧
    (deleteRefusal (lookup vi dir sfn (resetLogs s)).1 (fileIsOpen s dir.rawVolume) = some e →
      step s (.delete d name) = refusedAfterLookup s vi dir sfn e) ∧
    (s.dirs.length < s.maxDirs → mkdirRefusal (lookup vi dir sfn (resetLogs s)).1 = some e →
      step s (.mkdir d name) = refusedAfterLookup s vi dir sfn e) ∧
    (s.dirs.length < s.maxDirs → sfn ≠ Sfn.thisDir → openDirRefusal (lookup vi dir sfn (resetLogs s)).1 = some e →
      step s (.openDir d name) = refusedAfterLookup s vi dir sfn e) :=
  ⟨fun mode hroom h => Lemmas.Modes.open_file_refusal_step mode hl hc hroom e h,
   fun h => Lemmas.Modes.delete_refusal_step hl hc e h,
   fun hroom h => Lemmas.Modes.mkdir_refusal_step hl hc hroom e h,
   fun hroom hnd h => Lemmas.Modes.open_dir_refusal_step hl hc hroom hnd e h⟩

/-- … in which the write list is empty, the medium is the one before the call, and so are the three
tables and the handle counter. -/
theorem refusal_state (e : Err) :
    (refusedAfterLookup s vi dir sfn e).2.writes = [] ∧
    (refusedAfterLookup s vi dir sfn e).1.dev.disk = s.dev.disk ∧
    (refusedAfterLookup s vi dir sfn e).1.files = s.files ∧
    (refusedAfterLookup s vi dir sfn e).1.dirs = s.dirs ∧
    (refusedAfterLookup s vi dir sfn e).1.vols = s.vols ∧
    (refusedAfterLookup s vi dir sfn e).1.nextId = s.nextId :=
  Lemmas.Modes.refusedAfterLookup_state s vi dir sfn e

end

/-! ### Non-vacuity (tests) -/

/-- One 32-byte directory slot: 11 name bytes, attribute byte, zeros, size 5 in the last four bytes. -/
def slot (nm : Bytes) (attr : Nat) : Bytes := nm ++ [UInt8.ofNat attr] ++ zeros 16 ++ [5, 0, 0, 0]

def nmA : Bytes := [0x41, 32, 32, 32, 32, 32, 32, 32, 0x54, 0x58, 0x54]   -- "A       TXT"
def nmR : Bytes := [0x52, 32, 32, 32, 32, 32, 32, 32, 0x54, 0x58, 0x54]   -- "R       TXT", read-only
def nmD : Bytes := [0x44, 32, 32, 32, 32, 32, 32, 32, 32, 32, 32]         -- "D          ", a directory

/-- A root directory block with a plain file, a read-only file and a directory. -/
def dirBlock : Block := slot nmA 0x20 ++ slot nmR 0x21 ++ slot nmD 0x10 ++ zeros (512 - 96)

/-- A FAT16 volume whose fixed root directory is block 1 (which sits in the block cache), root
directory open as handle 3, file table with room for two. -/
def sEx : Mgr :=
  { dev := { disk := Disk.empty }, cache := { tag := some 1, blk := dirBlock }, nextId := 5,
    vols := [{ rawVolume := 0, idx := 0,
               vol := { (default : FatVolume) with rootEntriesCount := 16, firstRootDirBlock := 1 } }],
    dirs := [{ rawDirectory := 3, rawVolume := 0, cluster := Gen.CLUSTER_ROOT_DIR }],
    maxVols := 1, maxDirs := 2, maxFiles := 2 }

def rootDir : DirInfo := { rawDirectory := 3, rawVolume := 0, cluster := Gen.CLUSTER_ROOT_DIR }

def nameA : List Nat := [0x41, 0x2E, 0x54, 0x58, 0x54]   -- "A.TXT"
def nameR : List Nat := [0x52, 0x2E, 0x54, 0x58, 0x54]   -- "R.TXT"

/-- The hypotheses of the decision theorems are satisfiable, and every row occurs. -/
example : DirCtx sEx 3 nameA rootDir 0 nmA ∧ sEx.files.length < sEx.maxFiles ∧ sEx.locked = false :=
  ⟨⟨⟨0, rfl, rfl⟩, rfl, rfl⟩, by decide, rfl⟩
-- (g) a plain file that is not open
example : ∃ en, (lookup 0 rootDir nmA sEx).1 = .ok en ∧ fileIsOpen sEx 0 en = false ∧
    Attr.isReadOnly en.attributes = false ∧ Attr.isDirectory en.attributes = false ∧ en.size = 5 :=
  ⟨_, rfl, rfl, rfl, rfl, rfl⟩
-- (e) a file with the read-only attribute
example : ∃ en, (lookup 0 rootDir nmR sEx).1 = .ok en ∧ Attr.isReadOnly en.attributes = true :=
  ⟨_, rfl, rfl⟩
example : openRefusal .ReadWriteAppend (lookup 0 rootDir nmR sEx).1 (fileIsOpen sEx 0) = some .ReadOnly := rfl
-- (f) a directory
example : openRefusal .ReadOnly (lookup 0 rootDir nmD sEx).1 (fileIsOpen sEx 0) = some .OpenedDirAsFile := rfl
example : deleteRefusal (lookup 0 rootDir nmD sEx).1 (fileIsOpen sEx 0) = some .DeleteDirAsFile := rfl
example : mkdirRefusal (lookup 0 rootDir nmD sEx).1 = some .DirAlreadyExists := rfl
example : mkdirRefusal (lookup 0 rootDir nmA sEx).1 = some .FileAlreadyExists := rfl
example : openDirRefusal (lookup 0 rootDir nmA sEx).1 = some .OpenedFileAsDir := rfl
-- (a) a missing name
example : (lookup 0 rootDir [0x42, 32, 32, 32, 32, 32, 32, 32, 32, 32, 32] sEx).1 = .err .NotFound := rfl
-- (d)
example : openRefusal .ReadWriteCreate (lookup 0 rootDir nmA sEx).1 (fileIsOpen sEx 0) = some .FileAlreadyExists := rfl
-- (c) after opening "A.TXT" it is open: a second open and a delete are refused
example : openRefusal .ReadOnly (lookup 0 rootDir nmA (step sEx (.openFile 3 nameA .ReadOnly)).1).1
    (fileIsOpen (step sEx (.openFile 3 nameA .ReadOnly)).1 0) = some .FileAlreadyOpen := rfl
example : (step (step sEx (.openFile 3 nameA .ReadOnly)).1 (.delete 3 nameA)).2.result = .err .FileAlreadyOpen := rfl
-- a read-only handle: `write` is refused
example : (step sEx (.openFile 3 nameA .ReadOnly)).2.result = .ok (.handle 5) ∧
    (step (step sEx (.openFile 3 nameA .ReadOnly)).1 (.write 5 [1, 2, 3])).2.result = .err .ReadOnly := ⟨rfl, rfl⟩
-- (h) append starts at the end
example : ((step sEx (.openFile 3 nameA .ReadWriteAppend)).1.files.map (·.currentOffset)) = [5] := rfl
-- (i) an invalid name
example : (step sEx (.openFile 3 [0x2A] .ReadOnly)).2.result = .err (.FilenameError .InvalidCharacter) := rfl

end Sdmmc.Props.C07
