/-
C01 — File reads return exactly the bytes written, at every offset, in every history.

Property theorems only; helper lemmas live in `Sdmmc.Lemmas.Files` (and `Sdmmc.Lemmas.ListingF`
for the cache/device primitives).
Model: `Sdmmc.Model.FileInfo` (cursor), `findDataOnDisk`, `walkClusters`, `writeBlockPart`,
`readLoop`, `writeLoop`, the `fileSeek*` / `fileLength` / `fileOffset` / `fileEof` calls.

STATUS: PARTIAL.  The full statement of C01 is

    theorem history_refines (s : Mgr) (m : SpecFiles) (op : Op)
        (hwf : WFfs s) (hnf : s.dev.faults = []) (href : Refines s m) :
        let (s', out) := step s op
        let (m', out') := specStep m op
        out.result = out' ∧ WFfs s' ∧ Refines s' m'

  where `SpecFiles` maps every open file handle to a plain byte array and an `SFile` cursor,
  `specStep` is the obvious array semantics of open / seek / read / write / flush / close
  (`read n` returns `bytes[pos .. min (pos+n) size]`, `write d` overwrites/extends at `pos`, …),
  `Refines s m` says that for every open file the cursor equals the model's and byte `i` of the
  array is byte `i % 512` of block `clusterToBlock (chain[i / bpc]) + i % bpc / 512` of the medium
  (through the cache), `chain` being the file's FAT chain, and `WFfs` is the volume invariant
  (chains of distinct files are disjoint, acyclic, inside the volume — C03).  Applied along
  `run`, this gives the property for all histories, including "writing to one file never changes
  what another file reads back" (disjoint chains + `cluster_blocks_disjoint` of C04 +
  `write_block_part_frame` below).

  `history_refines` IS NOT PROVED here: it needs the byte-level chain invariant (`Refines`, `WFfs`)
  and its preservation by `allocCluster` / `updateFat`, which belong to C03/C05.  The history-level
  claim is covered by the correspondence harness (byte-array reference model, C01 oracle).

What IS proved (each is a step of that proof, and each pins down one of the released regressions):
 * the cursor is the byte-array model's cursor: `seek_start_refines`, `seek_end_refines`,
   `seek_cur_refines`, `seek_frame`, `seek_inv`, `eof_refines`, `length_refines`, `left_refines`,
   `eof_iff_nothing_left`, and the API calls `file_seek_*_spec`, `file_observers_spec` (a seek
   changes one entry of the file table only — no other file, no device access);
 * `find_backward_restart`: a cluster cursor beyond the wanted offset is never used (the
   "backwards seek" regression);
 * `find_data_arith`, `find_data_eq`, `walk_compose`, `walk_from_cursor`, `walk_offset`: the
   block / offset / available triple is `desired % 512`, `512 - desired % 512`, block
   `(desired - o') / 512` of cluster `c'`, where `(o', c')` is what the walk over
   `(desired - start) / bpc` links from the (restarted) cursor reaches; `o'` is congruent to the
   cursor modulo the cluster size; the Rust `assert!` cannot fire; walking from a cursor that lies
   on the chain and walking from the start agree;
 * `write_block_part_frame` (+ `write_partial_preserves`, `write_whole_payload`): a block write
   writes one block, and a partial write leaves every byte outside `[off, off+len)` as the medium
   held it (the "block-start write zeroes the rest of the block" regression);
 * `write_loop_whole_iff`, `write_loop_step`: the "whole block" flag is passed exactly when all
   512 bytes are replaced;
 * `read_copies_slice`, `read_to_copy_bounds`, `read_to_copy_pos`, `slice_spec`: one iteration of
   `read` appends `toCopy` bytes of the located block starting at the located offset, never more
   than requested, never past the end of the file, never past the end of the block, and at least
   one (the Rust `assert!(to_copy != 0)` cannot fire).
-/
import Sdmmc.Lemmas.Files

namespace Sdmmc.Props.C01
open Sdmmc.Model Sdmmc.Model.Fat

/-! ### The cursor of the byte-array model -/

/-- The cursor of a plain in-memory file: its length and the current position. -/
structure SFile where
  size : Nat
  pos : Nat
  deriving DecidableEq, Repr

namespace SFile
/-- `seek(SeekFrom::Start(n))`: allowed inside `[0, size]`. -/
def seekStart (m : SFile) (n : Nat) : Option SFile := if n ≤ m.size then some ⟨m.size, n⟩ else none
/-- `seek(SeekFrom::End(-n))`. -/
def seekEnd (m : SFile) (n : Nat) : Option SFile := if n ≤ m.size then some ⟨m.size, m.size - n⟩ else none
/-- `seek(SeekFrom::Current(d))`. -/
def seekCur (m : SFile) (d : Int) : Option SFile :=
  if 0 ≤ (m.pos : Int) + d ∧ (m.pos : Int) + d ≤ (m.size : Int) then some ⟨m.size, ((m.pos : Int) + d).toNat⟩ else none
/-- The position is inside the file. -/
def Inv (m : SFile) : Prop := m.pos ≤ m.size
end SFile

/-- The model cursor an open-file record stands for. -/
def abs (f : FileInfo) : SFile := ⟨f.entry.size, f.currentOffset⟩

/-- Seeking from the start succeeds exactly for targets in `[0, size]` and lands on the target. -/
theorem seek_start_refines (f : FileInfo) (n : Nat) : (f.seekFromStart n).map abs = (abs f).seekStart n :=
  Lemmas.Files.seek_start_refines SFile.mk f n

/-- Seeking back from the end: target `size - n`, allowed for `n ≤ size`. -/
theorem seek_end_refines (f : FileInfo) (n : Nat) : (f.seekFromEnd n).map abs = (abs f).seekEnd n :=
  Lemmas.Files.seek_end_refines SFile.mk f n

/-- Relative seek: target `pos + d`, allowed exactly when it lies in `[0, size]`. -/
theorem seek_cur_refines (f : FileInfo) (d : Int) : (f.seekFromCurrent d).map abs = (abs f).seekCur d :=
  Lemmas.Files.seek_cur_refines SFile.mk f d

/-- A successful seek changes the offset and nothing else: directory entry (hence length), cluster
cursor, mode, dirty flag, handles are as before. -/
theorem seek_frame (f f' : FileInfo) (n : Nat) (d : Int)
    (h : f.seekFromStart n = some f' ∨ f.seekFromEnd n = some f' ∨ f.seekFromCurrent d = some f') :
    f' = { f with currentOffset := f'.currentOffset } :=
  Lemmas.Files.seek_frame f f' n d h

/-- Seeks establish (not merely preserve) the cursor invariant. -/
theorem seek_inv (f f' : FileInfo) (n : Nat) (d : Int)
    (h : f.seekFromStart n = some f' ∨ f.seekFromEnd n = some f' ∨ f.seekFromCurrent d = some f') :
    (abs f').Inv :=
  Lemmas.Files.seek_inv f f' n d h

theorem eof_refines (f : FileInfo) : f.eof = decide ((abs f).pos = (abs f).size) := rfl
theorem length_refines (f : FileInfo) : f.length = (abs f).size := rfl
theorem left_refines (f : FileInfo) : f.left = (abs f).size - (abs f).pos := rfl

/-- Under the invariant, end-of-file means no byte left. -/
theorem eof_iff_nothing_left (f : FileInfo) (h : (abs f).Inv) : f.eof = true ↔ f.left = 0 :=
  Lemmas.Files.eof_iff_left_zero f h

/-- The API calls: a seek touches one entry of the file table — no other file, no device. -/
theorem file_seek_start_spec (file offset i : Nat) (f : FileInfo) (s : Mgr)
    (h1 : getFileById file s = (.ok i, s)) (h2 : getFile i s = (.ok f, s)) :
    fileSeekFromStart file offset s =
      if offset ≤ f.entry.size then (.ok (), { s with files := s.files.set i { f with currentOffset := offset } })
      else (.err .InvalidOffset, s) :=
  Lemmas.Files.file_seek_start_spec file offset i f s h1 h2

theorem file_seek_end_spec (file offset i : Nat) (f : FileInfo) (s : Mgr)
    (h1 : getFileById file s = (.ok i, s)) (h2 : getFile i s = (.ok f, s)) :
    fileSeekFromEnd file offset s =
      if offset ≤ f.entry.size then
        (.ok (), { s with files := s.files.set i { f with currentOffset := f.entry.size - offset } })
      else (.err .InvalidOffset, s) :=
  Lemmas.Files.file_seek_end_spec file offset i f s h1 h2

theorem file_seek_cur_spec (file i : Nat) (d : Int) (f : FileInfo) (s : Mgr)
    (h1 : getFileById file s = (.ok i, s)) (h2 : getFile i s = (.ok f, s)) :
    fileSeekFromCurrent file d s =
      if 0 ≤ (f.currentOffset : Int) + d ∧ (f.currentOffset : Int) + d ≤ (f.entry.size : Int) then
        (.ok (), { s with files := s.files.set i { f with currentOffset := ((f.currentOffset : Int) + d).toNat } })
      else (.err .InvalidOffset, s) :=
  Lemmas.Files.file_seek_cur_spec file i d f s h1 h2

/-- Reported length, offset and end-of-file flag are the model cursor's; the state is untouched. -/
theorem file_observers_spec (file i : Nat) (f : FileInfo) (s : Mgr)
    (h1 : getFileById file s = (.ok i, s)) (h2 : getFile i s = (.ok f, s)) :
    fileLength file s = (.ok (abs f).size, s) ∧ fileOffset file s = (.ok (abs f).pos, s) ∧
    fileEof file s = (.ok (decide ((abs f).pos = (abs f).size)), s) :=
  Lemmas.Files.file_observers_spec file i f s h1 h2

/-! ### Locating a byte: `find_data_on_disk` -/

/-- The "backwards seek" regression: whatever the stale cursor `(o, c)` is, for an offset before it
the function behaves exactly as if the cursor were at the start of the file. -/
theorem find_backward_restart (fileStart desired o c : Nat) (h : desired < o) :
    findDataOnDisk fileStart desired (o, c) = findDataOnDisk fileStart desired (0, fileStart) :=
  Lemmas.Files.find_backward_restart fileStart desired o c h

/-- The start of the walk: the cursor, unless it lies beyond the wanted offset. -/
def restart (fileStart desired : Nat) (start : Nat × Nat) : Nat × Nat :=
  if desired < start.1 then (0, fileStart) else start

/-- Whenever a location is returned: offset in block and bytes available are `desired % 512` and
the rest of the block; the returned cursor `(o', c')` is at or before `desired` and less than a
cluster away; the block is block `(desired - o') / 512` of cluster `c'`; `o'` is the (restarted)
cursor plus a whole number of clusters. -/
theorem find_data_arith (fileStart desired : Nat) (start : Nat × Nat) (s s' : FS)
    (o' c' blk off avail : Nat)
    (h : findDataOnDisk fileStart desired start s = (.ok ((o', c'), .ok (blk, off, avail)), s')) :
    off = desired % 512 ∧ avail = 512 - desired % 512 ∧ o' ≤ desired ∧
    desired - o' < bytesPerCluster s.vol ∧
    blk = clusterToBlock s.vol c' + (desired - o') / 512 ∧
    o' = (restart fileStart desired start).1 +
      (desired - (restart fileStart desired start).1) / bytesPerCluster s.vol * bytesPerCluster s.vol ∧
    o' % bytesPerCluster s.vol = (restart fileStart desired start).1 % bytesPerCluster s.vol :=
  Lemmas.Files.find_data_arith fileStart desired start s s' o' c' blk off avail h

/-- How a walk outcome becomes the outcome of `find_data_on_disk`. -/
def located (v : FatVolume) (desired : Nat) (st : Nat × Nat) (r : Res Unit) : Res (Nat × Nat × Nat) :=
  match r with
  | .ok () => .ok (clusterToBlock v st.2 + (desired - st.1) / 512, desired % 512, 512 - desired % 512)
  | .err e => .err e
  | .panic m => .panic m
  | .diverged => .diverged

/-- `find_data_on_disk` in closed form for every non-degenerate volume: it is the cluster walk
over `(desired - start) / bpc` links from the (restarted) cursor, followed by pure arithmetic.
In particular it never panics on its `assert!(offset_from_cluster < bytes_per_cluster)`. -/
theorem find_data_eq (fileStart desired : Nat) (start : Nat × Nat) (s : FS)
    (hbpc : bytesPerCluster s.vol ≠ 0) :
    ∃ st' r s', walkClusters (bytesPerCluster s.vol)
        ((desired - (restart fileStart desired start).1) / bytesPerCluster s.vol)
        (restart fileStart desired start) s = (.ok (st', r), s') ∧
      findDataOnDisk fileStart desired start s = (.ok (st', located s.vol desired st' r), s') ∧
      (r = .ok () → st'.1 = (restart fileStart desired start).1 +
          (desired - (restart fileStart desired start).1) / bytesPerCluster s.vol * bytesPerCluster s.vol ∧
        st'.1 ≤ desired ∧ desired - st'.1 < bytesPerCluster s.vol) :=
  Lemmas.Files.find_data_eq fileStart desired start s hbpc

/-- The walk advances the byte position by one cluster per link followed — all `n` when it
succeeds — so the cursor's byte position and cluster stay in step. -/
theorem walk_offset (bpc n : Nat) (st st' : Nat × Nat) (r : Res Unit) (s s' : FS)
    (h : walkClusters bpc n st s = (.ok (st', r), s')) :
    ∃ k, k ≤ n ∧ st'.1 = st.1 + k * bpc ∧ (r = .ok () → k = n) :=
  Lemmas.Files.walk_offset bpc n st st' r s s' h

/-- Walking `a + b` links is walking `a` links and then, if that succeeded, `b` more from where
the first part stopped, in the state the first part left. -/
theorem walk_compose (bpc a b : Nat) (st : Nat × Nat) (s : FS) :
    walkClusters bpc (a + b) st s =
      match walkClusters bpc a st s with
      | (.ok (st1, .ok ()), s1) => walkClusters bpc b st1 s1
      | other => other :=
  Lemmas.Files.walk_compose bpc a b st s

/-- Hence a cursor that lies on the chain (`a` links from the first cluster) is as good as the
start: going on from it reaches what walking all the way from the start reaches. -/
theorem walk_from_cursor (bpc a b fileStart o c : Nat) (s s1 : FS)
    (h : walkClusters bpc a (0, fileStart) s = (.ok ((o, c), .ok ()), s1)) :
    walkClusters bpc (a + b) (0, fileStart) s = walkClusters bpc b (o, c) s1 :=
  Lemmas.Files.walk_from_cursor bpc a b fileStart o c s s1 h

/-! ### Writing one block -/

def NoFault (s : FS) : Prop := s.dev.faults = []
def Coherent (s : FS) : Prop := ∀ i, s.cache.tag = some i → s.cache.blk = s.dev.disk.get i

/-- The block write of `write` performs exactly one device write, to `blockIdx`, with payload
"old block with `data` copied in at `off`", where the old block is what the medium holds — or
zeros when the caller says the whole block is replaced. -/
theorem write_block_part_frame (blockIdx off : Nat) (data : Bytes) (whole : Bool) (s : FS)
    (hn : NoFault s) (hc : Coherent s) :
    ∃ s', writeBlockPart blockIdx off data whole s = (.ok (), s') ∧
      s'.dev.wlog = (blockIdx, splice (if whole then zeroBlock else s.dev.disk.get blockIdx) off data) :: s.dev.wlog ∧
      s'.dev.disk = s.dev.disk.set blockIdx (splice (if whole then zeroBlock else s.dev.disk.get blockIdx) off data) ∧
      s'.vol = s.vol ∧ NoFault s' ∧ Coherent s' :=
  Lemmas.Files.write_block_part_frame blockIdx off data whole s hn hc

/-- The "block-start write zeroes the rest of the block" regression: in a partial write every
byte outside `[off, off + data.length)` is what the medium held, and the bytes inside are `data`. -/
theorem write_partial_preserves (old data : Bytes) (off i : Nat) (h : off ≤ old.length) :
    (i < off ∨ off + data.length ≤ i → (splice old off data).getD i 0 = old.getD i 0) ∧
    (off ≤ i → i < off + data.length → (splice old off data).getD i 0 = data.getD (i - off) 0) :=
  ⟨Lemmas.Files.splice_outside old data off i h, Lemmas.Files.splice_inside old data off i h⟩

/-- When the whole block is replaced the payload is the data itself. -/
theorem write_whole_payload (data : Bytes) (h : data.length = 512) : splice zeroBlock 0 data = data :=
  Lemmas.Files.splice_whole data h

/-- The flag `write` passes is `blockOffset = 0 ∧ toCopy = blockAvail` with
`toCopy = min blockAvail n`; given what `find_data_on_disk` returns (`blockAvail = 512 - blockOffset`)
this holds exactly when all 512 bytes of the block are replaced. -/
theorem write_loop_whole_iff (blockOffset blockAvail n : Nat) (havail : blockAvail = 512 - blockOffset)
    (hoff : blockOffset < 512) :
    (blockOffset = 0 ∧ min blockAvail n = blockAvail) ↔ (blockOffset = 0 ∧ min blockAvail n = 512) :=
  Lemmas.Files.write_loop_whole_iff blockOffset blockAvail n havail hoff

/-- One iteration of the loop of `write` when the offset lies inside the chain: these are the
arguments the block write gets, and this is the new file record. -/
theorem write_loop_step (fileIdx volIdx fuel : Nat) (buffer : Bytes) (f : FileInfo)
    (cc : Nat × Nat) (blockIdx blockOffset blockAvail : Nat) (s s1 s2 : Mgr)
    (hne : buffer ≠ [])
    (hf : getFile fileIdx s = (.ok f, s))
    (hfind : withVol volIdx (findDataOnDisk f.entry.cluster f.currentOffset (f.curClusterOff, f.curCluster)) s
      = (.ok (cc, .ok (blockIdx, blockOffset, blockAvail)), s1))
    (hwrite : withVol volIdx (writeBlockPart blockIdx blockOffset (buffer.take (min blockAvail buffer.length))
        (decide (blockOffset = 0 ∧ min blockAvail buffer.length = blockAvail))) s1 = (.ok (), s2)) :
    writeLoop fileIdx volIdx (fuel + 1) buffer s =
      writeLoop fileIdx volIdx fuel (buffer.drop (min blockAvail buffer.length))
        { s2 with files := s2.files.modify fileIdx fun g =>
            let newOffset := g.currentOffset + min blockAvail buffer.length
            let g := { g with curClusterOff := cc.1, curCluster := cc.2 }
            let g := if newOffset > g.entry.size then g.updateLength newOffset else g
            { g with currentOffset := newOffset } } :=
  Lemmas.Files.write_loop_step fileIdx volIdx fuel buffer f cc blockIdx blockOffset blockAvail s s1 s2 hne hf hfind hwrite

/-! ### Reading one block -/

/-- One successful iteration of the loop of `read` appends `slice blk blockOffset toCopy` with
`toCopy = min (min blockAvail space) left`, advances the offset by `toCopy` and goes on with
`space - toCopy`. -/
theorem read_copies_slice (fileIdx volIdx startOffset fuel space : Nat) (acc blk : Bytes) (f : FileInfo)
    (cc : Nat × Nat) (blockIdx blockOffset blockAvail : Nat) (s s1 s3 : Mgr)
    (hf : getFile fileIdx s = (.ok f, s)) (hspace : space ≠ 0) (heof : f.eof = false)
    (hfind : withVol volIdx (findDataOnDisk f.entry.cluster f.currentOffset (f.curClusterOff, f.curCluster)) s
      = (.ok (cc, .ok (blockIdx, blockOffset, blockAvail)), s1))
    (hread : withVol volIdx (do cacheRead blockIdx; cacheBlk)
      { s1 with files := s1.files.modify fileIdx fun f => { f with curClusterOff := cc.1, curCluster := cc.2 } }
      = (.ok blk, s3))
    (hpos : min (min blockAvail space) f.left ≠ 0) :
    readLoop fileIdx volIdx startOffset (fuel + 1) space acc s =
      readLoop fileIdx volIdx startOffset fuel (space - min (min blockAvail space) f.left)
        (acc ++ slice blk blockOffset (min (min blockAvail space) f.left))
        { s3 with files := s3.files.modify fileIdx fun g =>
            { g with currentOffset := g.currentOffset + min (min blockAvail space) f.left } } :=
  Lemmas.Files.read_copies_slice fileIdx volIdx startOffset fuel space acc blk f cc blockIdx blockOffset blockAvail
    s s1 s3 hf hspace heof hfind hread hpos

/-- Never more than requested, never past the end of the file, never past the end of the block. -/
theorem read_to_copy_bounds (blockAvail space left : Nat) :
    min (min blockAvail space) left ≤ space ∧ min (min blockAvail space) left ≤ left ∧
    min (min blockAvail space) left ≤ blockAvail :=
  Lemmas.Files.read_to_copy_bounds blockAvail space left

/-- At least one byte per iteration: the `assert!(to_copy != 0)` of `read` cannot fire. -/
theorem read_to_copy_pos (f : FileInfo) (space desired : Nat) (hinv : (abs f).Inv)
    (hspace : space ≠ 0) (heof : f.eof = false) :
    min (min (512 - desired % 512) space) f.left ≠ 0 :=
  Lemmas.Files.read_to_copy_pos f space desired hinv hspace heof

/-- The appended bytes are bytes `off .. off+n-1` of the block, `n` of them. -/
theorem slice_spec (blk : Bytes) (off n : Nat) (h : off + n ≤ blk.length) :
    (slice blk off n).length = n ∧ ∀ i, i < n → (slice blk off n).getD i 0 = blk.getD (off + i) 0 :=
  ⟨Lemmas.Files.slice_length blk off n h, fun i hi => Lemmas.Files.slice_getD blk off n i hi⟩

/-! ### Non-vacuity (tests, evaluated by the kernel)

A FAT16 volume with one block per cluster; a 1000-byte file in clusters 2 → 3 (blocks 10 and 11,
filled with 0xAA). -/
namespace Example

def entry : DirEntry :=
  { name := [], mtime := default, ctime := default, attributes := 0x20, cluster := 2, size := 1000, entryBlock := 5, entryOffset := 32 }
/-- Offset 700, cluster cursor on the second cluster. -/
def file : FileInfo :=
  { rawFile := 1, rawVolume := 0, curClusterOff := 512, curCluster := 3, currentOffset := 700, mode := .ReadWriteAppend, entry := entry, dirty := false }

example : (file.seekFromStart 1000).map abs = some ⟨1000, 1000⟩ ∧ (file.seekFromStart 1001).map abs = none ∧
    (file.seekFromEnd 1000).map abs = some ⟨1000, 0⟩ ∧ (file.seekFromCurrent (-700)).map abs = some ⟨1000, 0⟩ ∧
    (file.seekFromCurrent (-701)).map abs = none ∧ (file.seekFromCurrent 301).map abs = none := by decide
example : (abs file).Inv := by show 700 ≤ 1000; decide

def get? {α} : Res α → Option α | .ok a => some a | _ => none
def vol : FatVolume :=
  { lbaStart := 0, numBlocks := 200, name := [], blocksPerCluster := 1, firstDataBlock := 10, fatStart := 1, secondFatStart := none, freeClustersCount := none, nextFreeCluster := none, clusterCount := 100, fatType := .fat16, rootEntriesCount := 16, firstRootDirBlock := 9, infoLocation := 0, firstRootDirCluster := 0 }
/-- FAT: cluster 2 → 3, cluster 3 → end of chain. -/
def fatBlk : Block := [0, 0, 0, 0, 3, 0, 0xFF, 0xFF] ++ zeros 504
def blkA : Block := List.replicate 512 0xAA
def st : FS := { dev := { disk := ((Disk.empty.set 1 fatBlk).set 10 blkA).set 11 blkA }, cache := {}, vol := vol }

example : NoFault st := rfl
example : Coherent st := by intro i h; cases h

/-- Forward from the start: one link followed, second cluster, block 11, offset 88. -/
example : (get? (findDataOnDisk 2 600 (0, 2) st).1).map (fun x => (x.1, get? x.2)) =
    some ((512, 3), some (11, 88, 424)) := by decide
/-- Backwards with a stale cursor on the second cluster: restarted, first cluster, block 10. -/
example : (get? (findDataOnDisk 2 100 (512, 3) st).1).map (fun x => (x.1, get? x.2)) =
    some ((0, 2), some (10, 100, 412)) := by decide
/-- Past the chain: the cursor is left on the last cluster (what `write` extends from). -/
example : (get? (findDataOnDisk 2 1100 (0, 2) st).1).map (fun x => (x.1, get? x.2)) =
    some ((512, 3), none) := by decide

/-- A three-byte write at the start of block 10: read-modify-write keeps the other 509 bytes … -/
example : (writeBlockPart 10 0 [1, 2, 3] false st).2.dev.wlog.map (fun w => (w.1, w.2.take 5, w.2.length)) =
    [(10, [1, 2, 3, 0xAA, 0xAA], 512)] := by decide +kernel
/-- … while the `whole` path would zero them (which is why the flag must mean "all 512 bytes"). -/
example : (writeBlockPart 10 0 [1, 2, 3] true st).2.dev.wlog.map (fun w => (w.1, w.2.take 5, w.2.length)) =
    [(10, [1, 2, 3, 0, 0], 512)] := by decide +kernel

/-- A small history through the public calls: write at 0, seek back, read across the written
bytes, seek to 510, read across the cluster boundary. -/
def file0 : FileInfo :=
  { rawFile := 1, rawVolume := 0, curClusterOff := 0, curCluster := 2, currentOffset := 0, mode := .ReadWriteAppend, entry := entry, dirty := false }
def mgr : Mgr :=
  { dev := st.dev, nextId := 5, vols := [{ rawVolume := 0, idx := 0, vol := vol }], files := [file0], maxVols := 1, maxDirs := 4, maxFiles := 4 }
def bytesOf : Out → Option Bytes
  | { result := .ok (.bytes b), .. } => some b
  | _ => none
example : (run mgr [.write 1 [1, 2, 3], .seekStart 1 0, .read 1 5, .seekStart 1 510, .read 1 4]).2.map bytesOf =
    [none, none, some [1, 2, 3, 0xAA, 0xAA], none, some [0xAA, 0xAA, 0xAA, 0xAA]] := by decide +kernel

end Example

end Sdmmc.Props.C01
