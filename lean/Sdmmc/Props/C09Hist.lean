/-
C09 over whole histories — "Once flush or close of a file has returned success, cutting power after any later block
write — during any subsequent operation on other files, directories or the volume — and mounting the medium afresh
shows that file with at least the flushed length and exactly the flushed contents, until the file itself is next
modified, truncated or deleted."

Property theorems only (non-vacuity: `Props/C09HistEx.lean`); proofs in `Sdmmc.Lemmas.Survive*` (`SurviveFrame`: crash
points, prefix-closed licences, the frame at every crash point; `SurviveFile`: first hit from clean tail + distinct names,
mounting across the frame; `SurviveRead`: the fresh reader of the root directory; `SurviveClose`: what flush / close leave
on the medium, the independent reader; `SurviveMain`; `SurviveAbs`: the file slot in the abstract file system of
`Props/C01Fs`; `SurviveNamed`, `SurviveNamed2`: every licence of a call that does not target the file is `NotNamed` for it;
`SurviveDir`, `SurviveDir2`: directory chains only grow, sub-directory entries are never rewritten, paths persist;
`SurviveFlush`: a repeated flush / close stores its entry with one block write; `SurviveTrack`, `SurviveTrack2`,
`SurviveStep`: one call; `SurviveRoot`, `SurviveWalk`, `SurviveWalk2`: the fresh reader walking a path on a crashed medium;
`SurviveFinal`: crash points, histories, the syntactic criteria; `SurviveEstablish`: `close_file` / `flush_file` establish
the invariant) on top of `Props/C04Hist.lean` (`LicenceFor`, `RunLicensed`, `NotNamed`, `Covers`), `Props/C03Inv.lean`
(`VolInv`, `CoveredAllRun`), `Props/C10Inv.lean` (`VolInvC`, `CrashInv` at every crash point, mounting),
`Props/C01Fs.lean` (the abstract file system) and `Props/C02Reopen.lean` (the reader).

CRASH POINTS.  `HistCrash s ops dk` (`histCrash_iff`): `dk` is the medium of the state some call `ops[j]` of the
history is issued in with the first `k` device writes of that call applied (`Spec.crashDisk`) — every medium a power
cut during the history can leave (`k = 0`: a call boundary; `k ≥` the number of writes: the boundary after the call).

STATUS: PROVED — files of ANY directory (root or sub-directory, any depth), FAT16 and FAT32, after `close_file` AND
after `flush_file` with the handle left open, at EVERY crash point, with a syntactic criterion.

WHAT IS PROVED.
1. `licensed_prefix_closed`, `step_crash_licensed`, `crash_frame`, `history_crash_frame`: the first `k` writes of a
   call are licensed by the call's licence; a byte no licence covers is unchanged at every crash point.
2. `unnamed_object_survives_crashes`: an object no licence of the history names is unchanged at EVERY crash point.
3. `flush_establishes`, `close_establishes`, `flushed_entry_facts`; `flushed_file_survives_partial` (kept: the version
   with the SEMANTIC hypothesis "no licence names the file"; (b), (c) only at call boundaries of FAT16 root files).
4. `spec_reader_survives` (semantic hypothesis), `spec_reader_survives_syntactic` (criterion below).
5. THE FULL STATEMENT.
   * `Kept v0 e cs ys h s gh` (`kept_def`): `s` satisfies `VolInvC`, its medium shows the flushed entry `e` with chain
     `cs`, the slot is a file object of directory `h`, the sub-directory entries `ys` lead from the root directory to `h`
     (`PathOn`, `pathOn_def`; `[]` for the root directory), and every open file at the slot has no unflushed changes OR
     still has `e` as its record.  `close_establishes_kept`: a successful `close_file` of a handle that was written to
     leaves such a state, with no handle at the slot; `flush_establishes_kept`: so does a successful `flush_file` (of a
     file that owns a cluster), the handle staying open with the flushed record.
   * The criterion.  `Targets s h N pos op` (`targets_def`): `op` is `open_file_in_dir` of (a spelling of) the name `N`
     through a handle of directory `h` in a TRUNCATING mode, or `delete_file_in_dir` of it, or `write` through a handle
     (not a read-only one) of an open file at the slot.  `Untouched` (`untouched_def`): no call of the history targets
     the file in the state it is issued in — this is "until the file itself is next modified, truncated or deleted".
     Opening the file `ReadOnly` — or even for appending, as long as nothing is written —, reading it, flushing or
     closing a handle of it again, and everything that happens to other files, directories and the volume is allowed.
     `untouched_of_never_opened`: if only read-only handles sit at the slot (none after a close) it suffices that no
     call opens the name in that directory in a mode other than `ReadOnly` or deletes it (`NeverOpened`);
     `never_opened_of_never_names`: for which it suffices that the LIST OF CALLS contains no `open_file_in_dir` in a
     mode other than `ReadOnly` and no `delete_file_in_dir` of any spelling of the name (`NeverNames`, purely syntactic).
   * `notNamed_of_syntactic` (every directory): from `Kept` with no unflushed handle at the slot, along a covered
     `Untouched` history, EVERY licence of the history is `NotNamed` for the file.  (Needed for it, and added to
     `LicenceFor` in `Lemmas/WriteSetInv.lean`: a created entry takes a FREE slot, the clusters a `write` appends were in
     no chain, `delete` / truncate name a CLOSED object, `flush` / `close` write only when the handle — the first record
     with that handle value — was written to, `write` writes only through a handle that is not read-only, the cluster a
     full directory grows by is free.)
   * `flushed_file_intact` — (a) at EVERY crash point.
   * **`flushed_file_survives`** — EVERY crash point `dk`: (a); (b) `dk` is crash-consistent (`CrashInv`, `Props.C10Inv`)
     for a record of its tree in which `ys` still lead from the root directory to `h` (directory chains only grow,
     sub-directory entries are never rewritten), and the slot is the first hit for the file's name in directory `h` of
     `dk`; (c) `dk` mounts and ANY fresh manager mounts, opens the root directory, walks the path with `open_dir`
     (`openPath`, any spellings of the names: `Spells`), opens the file by any spelling of its name and reads exactly
     the flushed contents, length included (`FreshReads`).
   * **`closed_file_survives`** — the same from the `close_file` call itself with the purely syntactic `NeverNames`;
     **`flushed_open_file_survives`** — from the `flush_file` call, the handle left open, with `Untouched`.
   HYPOTHESES, all explicit: `VolInvC` at the start (invariant of API histories, identical FAT copies, `RawOK` —
   `Props.C10Inv`); covered history (`CoveredAllRun`: by `Props/C03All` only the `open_volume` clause is a
   restriction); the medium mounts at the start; the entry is `Storable` (provided by `flushed_entry_facts`); the
   names of the sub-directory entries on the way are not `.` / `..`; for `flush_file`: the file owns a cluster
   (`f.entry.cluster ≠ 0` — the abstract file system does not see first clusters, so that the record of a handle that
   never got a cluster cannot be followed; in the model a handle that was written to lacks a cluster only when the
   first `write` to an empty file failed for lack of space: `write` marks the handle before it allocates); `ProperEnds` only for the independent reader on FAT32 (as in `Props/C02Reopen`).

HOW THE `flush_file` CASE WORKS.  The crate never clears `dirty`: a handle that was written to stays dirty after
`flush_file`, and a later `flush_file` / `close_file` of it stores its entry AGAIN.  `Kept` therefore allows a dirty handle
at the slot whose record is still the flushed entry; such a call (`Lemmas.Survive.Reflush`) stores the same 32 bytes with
ONE block write (`Lemmas.Survive.reflush_atomic`): at each of its crash points the slot's block is the old or the new
block, which carry the same slot bytes.  That the record is still the flushed entry is followed through the abstract
file system (pending entry unchanged unless written through) plus `RawOK` (first cluster).

WHAT IS NOT PROVED (residue).
* A purely syntactic criterion for the `flush_file` case (the handle left open): `flushed_open_file_survives` asks for
  `Untouched`, which speaks of the state each call is issued in ("no `write` through a handle at the slot"); handle values
  are only known at run time.
* The depth of the path is bounded by the reader's directory-handle table (`ys.length + 1 ≤ maxDirs`), as in the crate.
-/
import Sdmmc.Lemmas.SurviveEstablish
import Sdmmc.Props.C04Hist
import Sdmmc.Props.C02Reopen
import Sdmmc.Props.C10Inv
import Sdmmc.Props.C01Fs
import Sdmmc.Props.C03All

namespace Sdmmc.Props.C09Hist
open Sdmmc.Model Sdmmc.Model.Fat Sdmmc.Spec.Volume
open Sdmmc.Spec hiding run step NoFault Coherent
open Sdmmc.Props.C03Inv (Covered CoveredAll CoveredAllRun)
open Sdmmc.Props.C04Hist (VolInvM)
open Sdmmc.Lemmas.WriteSetInv (LicenceFor RunLicensed Covers NotNamed)
open Sdmmc.Lemmas.Survive (HistCrash FlushedOn Kept Obj Targets Untouched Modifies NeverOpened NeverNames slotOf PathOn Spells openPath)
open Sdmmc.Lemmas.ReadRefines (MgrOK)
open Sdmmc.Lemmas.VolTree (fkey spos)

/-! ### Crash points -/

/-- `HistCrash s ops dk`: `dk` is the medium of the state the `j`-th call is issued in with the first `k` device
writes of that call applied — for some `j`, `k`. -/
theorem histCrash_iff (s : Mgr) (ops : List Op) (dk : Disk) : HistCrash s ops dk ↔
    ∃ j op k, ops[j]? = some op ∧
      dk = crashDisk (run s (ops.take j)).1.dev.disk (step (run s (ops.take j)).1 op).2.writes k :=
  Lemmas.Survive.histCrash_iff s ops dk

theorem flushedOn_def (v : FatVolume) (d : Disk) (e : DirEntry) (cs : List Nat) : FlushedOn v d e cs ↔
    slice (d.get e.entryBlock) e.entryOffset 32 = e.serialize v.fatType ∧
    ((e.cluster < 2 ∧ cs = [] ∧ e.size = 0) ∨ Chain v d e.cluster cs) :=
  ⟨fun h => ⟨h.slot, h.chain⟩, fun h => ⟨h.1, h.2⟩⟩

/-! ### 1. Licences at crash points -/

/-- A prefix of a licensed list of writes is licensed. -/
theorem licensed_prefix_closed (v : FatVolume) (L : Licence) (ws : List (Nat × Block)) (d : Disk) (k : Nat)
    (h : AllLicensed v d L ws) : AllLicensed v d L (ws.take k) :=
  Lemmas.Survive.allLicensed_take ws d k h

/-- **`step_crash_licensed`**: under the invariant, for every `k`, the first `k` writes of a covered call are licensed
by the call's licence. -/
theorem step_crash_licensed (s : Mgr) (gh : Ghost) (op : Op) (hI : VolInvM s gh) (hc : Covered s op) :
    ∃ L, LicenceFor gh s.files s.dirs s.dev.disk op L ∧
      ∀ k, AllLicensed gh.vol s.dev.disk L ((step s op).2.writes.take k) := by
  obtain ⟨L, h1, h2, _⟩ := C04Hist.step_licensed s gh op hI hc
  exact ⟨L, h1, fun k => Lemmas.Survive.allLicensed_take _ _ k h2⟩

/-- **`crash_frame`**: a byte the licence of the call does not cover is unchanged at EVERY crash point of the call. -/
theorem crash_frame (s : Mgr) (gh : Ghost) (op : Op) (hI : VolInvM s gh) (hc : Covered s op) :
    ∃ L, LicenceFor gh s.files s.dirs s.dev.disk op L ∧
      ∀ b i, ¬ Covers gh.vol L b i → ∀ k,
        ((crashDisk s.dev.disk (step s op).2.writes k).get b).getD i 0 = (s.dev.disk.get b).getD i 0 := by
  obtain ⟨L, h1, h2, _⟩ := C04Hist.step_licensed s gh op hI hc
  exact ⟨L, h1, fun b i hn k => Lemmas.Survive.crash_frame h2 hn k⟩

/-- **`history_crash_frame`**: a byte that no licence of the history covers is unchanged at every crash point inside
any call of the history. -/
theorem history_crash_frame (v0 : FatVolume) (ops : List Op) (s : Mgr) (Ls : List Licence) (hR : RunLicensed v0 s ops Ls)
    (b i : Nat) (hn : ∀ L, L ∈ Ls → ¬ Covers v0 L b i) (dk : Disk) (hk : HistCrash s ops dk) :
    (dk.get b).getD i 0 = (s.dev.disk.get b).getD i 0 :=
  Lemmas.Survive.runLicensed_crash_frame hR hn dk hk

/-! ### 2. Unnamed objects at crash points -/

/-- **`unnamed_object_survives_crashes`**: an object — its slot at byte `so` (a multiple of 32) of the directory block
`sb`, its clusters `cs` — that no licence of the history names has, at EVERY crash point of the history, 512-byte
blocks around it, its 32 slot bytes, the FAT entries of its clusters, its `Chain` and its `chainBytes` identical to
the start. -/
theorem unnamed_object_survives_crashes (v0 : FatVolume) (ops : List Op) (s : Mgr) (gh : Ghost) (hI : VolInvM s gh)
    (h0 : SameGeom v0 gh.vol) (hc : CoveredAllRun v0 s ops) :
    ∃ Ls, RunLicensed v0 s ops Ls ∧
      ∀ (sb so : Nat) (cs : List Nat), (∀ c, c ∈ cs → InRange v0 c) →
        (regionOf v0 sb = .root ∨ regionOf v0 sb = .data) → so % 32 = 0 →
        (∀ L, L ∈ Ls → NotNamed v0 L sb so cs) → ∀ dk, HistCrash s ops dk →
        BlocksOK dk ∧ slice (dk.get sb) so 32 = slice (s.dev.disk.get sb) so 32 ∧
        (∀ x, x ∈ cs → fatRaw v0 dk x = fatRaw v0 s.dev.disk x) ∧
        (∀ c, Chain v0 s.dev.disk c cs → Chain v0 dk c cs) ∧
        chainBytes v0 dk cs = chainBytes v0 s.dev.disk cs := by
  obtain ⟨Ls, hR, _⟩ := C04Hist.history_licensed v0 ops s gh hI h0 hc
  exact ⟨Ls, hR, fun sb so cs hin hsreg hso hnn dk hk =>
    Lemmas.Survive.unnamed_object_at_crash (h0.symm.wfGeom hI.1.med.geom) hR hI.1.med.blocksOK sb so cs hin hsreg hso hnn dk hk⟩

/-! ### 3. The flushed file -/

/-- What the invariant says about the record `f` of an open file (chain `chainOf gh.G f.entry.cluster`): the entry can
be stored; its name starts neither with `0x00` nor `0xE5`; it is a plain short entry; its slot is an aligned slot of a
directory block that is no block of the file's own clusters; the clusters of its chain are data clusters; the chain
is long enough for the size. -/
theorem flushed_entry_facts (s : Mgr) (gh : Ghost) (hI : VolInv s gh) (f : FileInfo) (hfm : f ∈ s.files) :
    Lemmas.Reopen.Storable gh.vol.fatType f.entry ∧ byteAt f.entry.name 0 ≠ 0 ∧ byteAt f.entry.name 0 ≠ 0xE5 ∧
    f.entry.attributes % 16 ≠ 15 ∧ Attr.isDirectory f.entry.attributes = false ∧
    (regionOf gh.vol f.entry.entryBlock = .root ∨ regionOf gh.vol f.entry.entryBlock = .data) ∧
    f.entry.entryOffset % 32 = 0 ∧ f.entry.entryOffset + 32 ≤ 512 ∧
    (∀ c, c ∈ chainOf gh.G f.entry.cluster → InRange gh.vol c) ∧
    f.entry.size ≤ (chainOf gh.G f.entry.cluster).length * clusterBytesLen gh.vol ∧
    (∀ c, c ∈ chainOf gh.G f.entry.cluster → ∀ j, j < gh.vol.blocksPerCluster →
      clusterToBlock gh.vol c + j ≠ f.entry.entryBlock) :=
  Lemmas.Survive.file_entry_facts hI hfm

/-- **`close_file` of a dirty file returns success and leaves the flushed file on the medium**: the slot holds the
serialised record, the chain of the record's first cluster is `chainOf gh.G f.entry.cluster`, and the contents are
what they were before the call. -/
theorem close_establishes (s : Mgr) (gh : Ghost) (hI : VolInv s gh) (h i : Nat) (f : FileInfo)
    (hidx : s.files.findIdx? (·.rawFile = h) = some i) (hf : s.files[i]? = some f) (hd : f.dirty = true) :
    (step s (.closeFile h)).2.result = .ok .unit ∧
    FlushedOn gh.vol (step s (.closeFile h)).1.dev.disk f.entry (chainOf gh.G f.entry.cluster) ∧
    ∀ n, fileContent gh.vol (step s (.closeFile h)).1.dev.disk (chainOf gh.G f.entry.cluster) n =
      fileContent gh.vol s.dev.disk (chainOf gh.G f.entry.cluster) n :=
  Lemmas.Survive.close_step_flushed hI hidx hf hd

/-- The same for `flush_file` (the handle stays open). -/
theorem flush_establishes (s : Mgr) (gh : Ghost) (hI : VolInv s gh) (h i : Nat) (f : FileInfo)
    (hidx : s.files.findIdx? (·.rawFile = h) = some i) (hf : s.files[i]? = some f) (hd : f.dirty = true) :
    (step s (.flush h)).2.result = .ok .unit ∧
    FlushedOn gh.vol (step s (.flush h)).1.dev.disk f.entry (chainOf gh.G f.entry.cluster) ∧
    ∀ n, fileContent gh.vol (step s (.flush h)).1.dev.disk (chainOf gh.G f.entry.cluster) n =
      fileContent gh.vol s.dev.disk (chainOf gh.G f.entry.cluster) n :=
  Lemmas.Survive.flush_step_flushed hI hidx hf hd

/-- **`flushed_file_survives_partial`.**  `s1` satisfies the invariant (FAT copies identical); its medium shows the
flushed file: entry `e` (storable, a plain short entry, slot in an aligned slot of a directory block), clusters `cs`
(`close_establishes` / `flush_establishes` and `flushed_entry_facts` provide all of this after a successful close or
flush).  `ops` is any covered history from `s1`, `Ls` its licences.  If no licence names the file, then

(a) at EVERY crash point `dk` of the history: the blocks have 512 bytes, the slot holds the serialised entry and
    decodes to the flushed entry, the chain is `cs`, the FAT entries of `cs` are unchanged, and the contents are
    unchanged for every length;
(b), (c) on a FAT16 volume, for a file whose slot lies in the fixed root region, whose name starts neither with `0x00`
    nor `0xE5` and whose chain fits its size, when the medium of `s1` mounts as partition `idx` with the geometry of
    `v0`: in the state after the first `j` calls, for EVERY `j`, the slot is the first hit for the file's name in the
    root directory, and ANY fresh manager on that medium mounts, opens the root directory, opens the file by any
    spelling `name` of its stored name and reads `(fileContent v0 s1.dev.disk cs e.size).take n` — the flushed
    contents — writing nothing.

Full statement NOT proved: (b), (c) at crash points strictly inside a call, and for FAT32-root / sub-directory files;
see the header. -/
theorem flushed_file_survives_partial (v0 : FatVolume) (s1 : Mgr) (gh1 : Ghost) (hI : VolInvM s1 gh1) (h0 : SameGeom v0 gh1.vol)
    (ops : List Op) (hc : CoveredAllRun v0 s1 ops) (e : DirEntry) (cs : List Nat) (hF : FlushedOn v0 s1.dev.disk e cs)
    (hst : Lemmas.Reopen.Storable v0.fatType e) (hsreg : regionOf v0 e.entryBlock = .root ∨ regionOf v0 e.entryBlock = .data)
    (hal : e.entryOffset % 32 = 0) (hin : ∀ c, c ∈ cs → InRange v0 c) :
    ∃ Ls, RunLicensed v0 s1 ops Ls ∧ ((∀ L, L ∈ Ls → NotNamed v0 L e.entryBlock e.entryOffset cs) →
      (∀ dk, HistCrash s1 ops dk →
        BlocksOK dk ∧ slice (dk.get e.entryBlock) e.entryOffset 32 = e.serialize v0.fatType ∧
        Lemmas.Listing.decode v0.fatType (e.entryBlock, e.entryOffset, slice (dk.get e.entryBlock) e.entryOffset 32) =
          Lemmas.Reopen.stored e ∧
        ((e.cluster < 2 ∧ cs = [] ∧ e.size = 0) ∨ Chain v0 dk e.cluster cs) ∧
        (∀ x, x ∈ cs → fatRaw v0 dk x = fatRaw v0 s1.dev.disk x) ∧
        ∀ n, fileContent v0 dk cs n = fileContent v0 s1.dev.disk cs n) ∧
      (v0.fatType = .fat16 → v0.lbaStart + v0.firstRootDirBlock ≤ e.entryBlock →
        e.entryBlock < v0.lbaStart + v0.firstRootDirBlock + blockCountFromBytes (v0.rootEntriesCount * 32) →
        e.entryOffset + 32 ≤ 512 → byteAt e.name 0 ≠ 0 → byteAt e.name 0 ≠ 0xE5 → e.attributes % 16 ≠ 15 →
        Attr.isDirectory e.attributes = false → e.size ≤ cs.length * clusterBytesLen v0 →
        ∀ (idx : Nat) (vm : FatVolume), mountPure (s1.dev.disk.get 0) idx s1.dev.disk.get = .ok vm → SameGeom vm v0 →
        ∀ j,
          Lemmas.Reopen.FirstHit (Lemmas.Reopen.dirSlotsOf v0 (run s1 (ops.take j)).1.dev.disk 0xFFFFFFFC []) e.name
            (e.entryBlock, e.entryOffset, slice ((run s1 (ops.take j)).1.dev.disk.get e.entryBlock) e.entryOffset 32) ∧
          ∀ (t0 : Mgr) (name : List Nat), MgrOK t0 → t0.dev.disk = (run s1 (ops.take j)).1.dev.disk → t0.vols = [] →
            t0.dirs = [] → t0.files = [] → 0 < t0.maxVols → 0 < t0.maxDirs → 0 < t0.maxFiles →
            t0.nextId + 2 < 4294967296 → Sfn.createFromStr name = .ok e.name →
            ∃ t1 t2 t3, openRawVolume idx t0 = (.ok t0.nextId, t1) ∧
              openRootDir t0.nextId t1 = (.ok (t0.nextId + 1), t2) ∧
              openFileInDir (t0.nextId + 1) name .ReadOnly t2 = (.ok (t0.nextId + 2), t3) ∧
              t3.dev.disk = (run s1 (ops.take j)).1.dev.disk ∧ t3.dev.wlog = t0.dev.wlog ∧
              fileLength (t0.nextId + 2) t3 = (.ok e.size, t3) ∧
              ∀ n, ∃ t4, read (t0.nextId + 2) n t3 = (.ok ((fileContent v0 s1.dev.disk cs e.size).take n), t4) ∧
                t4.dev.disk = (run s1 (ops.take j)).1.dev.disk ∧ t4.dev.wlog = t0.dev.wlog)) := by
  have hg : WFGeom v0 := h0.symm.wfGeom hI.1.med.geom
  have hb := hI.1.med.blocksOK
  obtain ⟨Ls, hR, ghE, hIE, hgE⟩ := C04Hist.history_licensed v0 ops s1 gh1 hI h0 hc
  refine ⟨Ls, hR, fun hnn => ⟨fun dk hk => ?_, ?_⟩⟩
  · obtain ⟨hbk, hFk, hraw, hfc⟩ := Lemmas.Survive.flushed_at_crash hg hR hb e cs hF hin hsreg hal hnn dk hk
    refine ⟨hbk, hFk.slot, ?_, hFk.chain, hraw, hfc⟩
    rw [hFk.slot]
    exact Lemmas.Reopen.decode_serialize v0.fatType e hst
  · intro h16 hb1 hb2 ho hn0 hn5 hlfn hplain hfit idx vm hm hsg j
    have hst16 : Lemmas.Reopen.Storable .fat16 e := by rw [← h16]; exact hst
    -- the invariant at the boundary
    obtain ⟨ghj, hIj, hgj⟩ : ∃ gh, VolInv (run s1 (ops.take j)).1 gh ∧ SameGeom v0 gh.vol := by
      by_cases hj : j < ops.length
      · exact Lemmas.Survive.runLicensed_inv hR j hj
      · rw [List.take_of_length_le (by omega)]
        exact ⟨ghE, hIE.1, hgE⟩
    exact Lemmas.Survive.flushed_boundary_read hg h16 hR hb e cs hF hst16 hn0 hn5 hlfn hplain hb1 hb2 hal ho hin hfit hnn
      idx vm hm hsg j ghj hIj hgj

/-! ### 4. The independent reader -/

/-- **`spec_reader_survives`**: under the hypotheses of `flushed_file_survives_partial`, `g` the checker's geometry of
`v0` and no FAT32 entry of the file's chain being the reserved value 1 (`ProperEnds`), at EVERY crash point of the
history the independent reader `Spec.Fs` sees the flushed file: a reader slot with the 32 bytes at the file's position
has the record's name, attributes, first cluster and size; the reader's chain walk from that cluster gives `cs`; the
reader's file bytes for that chain and size are the flushed contents. -/
theorem spec_reader_survives (v0 : FatVolume) (s1 : Mgr) (gh1 : Ghost) (hI : VolInvM s1 gh1) (h0 : SameGeom v0 gh1.vol)
    (ops : List Op) (hc : CoveredAllRun v0 s1 ops) (e : DirEntry) (cs : List Nat) (hF : FlushedOn v0 s1.dev.disk e cs)
    (hst : Lemmas.Reopen.Storable v0.fatType e) (hsreg : regionOf v0 e.entryBlock = .root ∨ regionOf v0 e.entryBlock = .data)
    (hal : e.entryOffset % 32 = 0) (hin : ∀ c, c ∈ cs → InRange v0 c)
    (g : Fs.Geom) (hgm : C02Reopen.GeomOf v0 g) (hp : C02Reopen.ProperEnds v0 s1.dev.disk cs) :
    ∃ Ls, RunLicensed v0 s1 ops Ls ∧ ((∀ L, L ∈ Ls → NotNamed v0 L e.entryBlock e.entryOffset cs) →
      ∀ dk, HistCrash s1 ops dk → ∀ sl : Fs.Slot, sl.bytes = slice (dk.get e.entryBlock) e.entryOffset 32 →
        Fs.nameOf sl = e.name ∧ Fs.attrOf sl = e.attributes ∧ Fs.clusterOf g sl = e.cluster ∧ Fs.sizeOf sl = e.size ∧
        (cs ≠ [] → Fs.chain g dk (Fs.clusterOf g sl) = .ok cs) ∧
        Fs.fileBytes g dk cs (Fs.sizeOf sl) = fileContent v0 s1.dev.disk cs e.size) := by
  have hg : WFGeom v0 := h0.symm.wfGeom hI.1.med.geom
  obtain ⟨Ls, hR, _⟩ := C04Hist.history_licensed v0 ops s1 gh1 hI h0 hc
  refine ⟨Ls, hR, fun hnn dk hk sl hsl => ?_⟩
  obtain ⟨hbk, hFk, hraw, hfc⟩ := Lemmas.Survive.flushed_at_crash hg hR hI.1.med.blocksOK e cs hF hin hsreg hal hnn dk hk
  have := Lemmas.Survive.spec_reader_on v0 hg g hgm dk hbk e cs hst hFk hin
    (fun x hx h32 => by rw [hraw x hx]; exact hp x hx h32) sl hsl
  rw [hfc] at this
  exact this


/-! ### 5. The syntactic criterion and the full statement -/

/-- `PathOn ft dirs slots p ys h`: the sub-directory entries `ys` lead from directory `p` to directory `h` — the first
is an object of `p` that is a directory entry, each next one an object of the sub-directory the previous one designates
(`sCluster`), the last one designates `h`; `[]` leads from `p` to `p`. -/
theorem pathOn_def (ft : FatType) (dirs : List (Nat × Nat)) (slots : Nat → List Slot) (p h : Nat) :
    (PathOn ft dirs slots p [] h ↔ p ∈ dirIds dirs ∧ h = p) ∧
    ∀ y ys, PathOn ft dirs slots p (y :: ys) h ↔
      p ∈ dirIds dirs ∧ y ∈ objects p (slots p) ∧ isDirE y = true ∧ PathOn ft dirs slots (sCluster ft y) ys h := by
  refine ⟨⟨fun hP => ?_, fun ⟨h1, h2⟩ => by subst h2; exact .nil _ h1⟩, fun y ys => ⟨fun hP => ?_, fun ⟨h1, h2, h3, h4⟩ => .cons p y ys h h1 h2 h3 h4⟩⟩
  · cases hP with
    | nil _ hp => exact ⟨hp, rfl⟩
  · cases hP with
    | cons _ _ _ _ hp hy hd rest => exact ⟨hp, hy, hd, rest⟩

/-- `openPath d names`: `open_dir` along the names, from the handle `d`; `Spells names ys`: the names are spellings of
the stored names of the entries `ys`, one each. -/
theorem openPath_def (d : Nat) : openPath d [] = pure d ∧
    ∀ n ns, openPath d (n :: ns) = (openDir d n >>= fun d' => openPath d' ns) := ⟨rfl, fun _ _ => rfl⟩

theorem spells_def : (Spells [] [] ↔ True) ∧
    (∀ n ns y ys, Spells (n :: ns) (y :: ys) ↔ Sfn.createFromStr n = .ok (sName y) ∧ Spells ns ys) ∧
    (∀ n ns, ¬ Spells (n :: ns) []) ∧ (∀ y ys, ¬ Spells [] (y :: ys)) :=
  ⟨Iff.rfl, fun _ _ _ _ => Iff.rfl, fun _ _ h => h, fun _ _ h => h⟩

/-- `Kept v0 e cs ys h s gh`: the state `s` satisfies the invariant of API histories with ghost `gh`, identical FAT
copies and `RawOK` (`VolInvC` of `Props.C10Inv`), `gh.vol` has the geometry of `v0`; its medium shows the flushed file —
the slot holds the serialised entry `e`, `cs` is its chain —; the slot (position and 32-byte image) is a file object of
directory number `h` (`0` = root); every open file that sits at the slot has no unflushed changes or still has `e` as
its record (and then the file owns a cluster); and the sub-directory entries `ys` (none of them named `.` or `..`) lead
from the root directory to `h`. -/
theorem kept_def (v0 : FatVolume) (e : DirEntry) (cs : List Nat) (ys : List Slot) (h : Nat) (s : Mgr) (gh : Ghost) :
    Kept v0 e cs ys h s gh ↔
      VolInvC s gh ∧ SameGeom v0 gh.vol ∧ FlushedOn v0 s.dev.disk e cs ∧
      h ∈ dirIds gh.dirs ∧
      ((e.entryBlock, e.entryOffset, e.serialize v0.fatType) : Slot) ∈ objects h (dirSlots gh.vol s.dev.disk gh.G h) ∧
      isDirE (e.entryBlock, e.entryOffset, e.serialize v0.fatType) = false ∧
      (∀ f, f ∈ s.files → (f.entry.entryBlock, f.entry.entryOffset) = (e.entryBlock, e.entryOffset) →
        f.dirty = false ∨ (f.entry = e ∧ e.cluster ≠ 0)) ∧
      PathOn gh.vol.fatType gh.dirs (dirSlots gh.vol s.dev.disk gh.G) 0 ys h ∧
      ∀ y, y ∈ ys → sName y ≠ Sfn.thisDir ∧ sName y ≠ Sfn.parentDir :=
  ⟨fun hK => ⟨⟨hK.inv, hK.mirror, hK.raw⟩, hK.geom, hK.flushed, hK.dir, hK.mem, hK.file, hK.synced, hK.path, hK.pathNames⟩,
   fun ⟨a, c, d, e1, e2, e3, e4, e5, e6⟩ => ⟨a.inv, a.mirror, a.raw, c, d, e1, e2, e3, e4, e5, e6⟩⟩

/-- `Targets s h N pos op`: the call `op`, issued in state `s`, targets the file named `N` of directory `h` whose slot
sits at `pos`: `open_file_in_dir` of a spelling of `N` through a handle of directory `h` in a TRUNCATING mode,
`delete_file_in_dir` of it, or `write` through a handle (not a read-only one) of an open file that sits at `pos`. -/
theorem targets_def (s : Mgr) (h : Nat) (N : Bytes) (pos : Nat × Nat) :
    (∀ dh name mode, Targets s h N pos (.openFile dh name mode) ↔
      (mode = .ReadWriteTruncate ∨ mode = .ReadWriteCreateOrTruncate) ∧ Sfn.createFromStr name = .ok N ∧
        ∃ dir, dir ∈ s.dirs ∧ dir.rawDirectory = dh ∧ dirIdOf dir.cluster = h) ∧
    (∀ dh name, Targets s h N pos (.delete dh name) ↔
      Sfn.createFromStr name = .ok N ∧ ∃ dir, dir ∈ s.dirs ∧ dir.rawDirectory = dh ∧ dirIdOf dir.cluster = h) ∧
    (∀ hd data, Targets s h N pos (.write hd data) ↔
      ∃ f, f ∈ s.files ∧ f.rawFile = hd ∧ (f.entry.entryBlock, f.entry.entryOffset) = pos ∧ f.mode ≠ .ReadOnly) ∧
    (∀ op, (∀ dh name mode, op ≠ .openFile dh name mode) → (∀ dh name, op ≠ .delete dh name) →
      (∀ hd data, op ≠ .write hd data) → ¬ Targets s h N pos op) := by
  refine ⟨fun _ _ _ => Iff.rfl, fun _ _ => Iff.rfl, fun _ _ => Iff.rfl, ?_⟩
  intro op h1 h2 h3 ht
  cases op with
  | openFile d n m => exact h1 d n m rfl
  | delete d n => exact h2 d n rfl
  | write hd data => exact h3 hd data rfl
  | _ => exact ht

/-- `Untouched h N pos s ops`: no call of the history targets the file in the state it is issued in. -/
theorem untouched_def (h : Nat) (N : Bytes) (pos : Nat × Nat) (s : Mgr) :
    (Untouched h N pos s [] ↔ True) ∧
    ∀ op ops, Untouched h N pos s (op :: ops) ↔ ¬ Targets s h N pos op ∧ Untouched h N pos (step s op).1 ops :=
  ⟨Iff.rfl, fun _ _ => Iff.rfl⟩

theorem fsCoveredRun_of_coveredAllRun (v0 : FatVolume) : ∀ (s : Mgr) (ops : List Op), CoveredAllRun v0 s ops →
    Lemmas.AbsFs.FsCoveredRun v0 s ops
  | _, [], _ => trivial
  | s, op :: ops, h => ⟨C01Fs.fsCovered_of_coveredAll v0 h.1 (fun _ name _ => C03All.name_ok_all name),
      fsCoveredRun_of_coveredAllRun v0 _ ops h.2⟩

/-- **`close_establishes_kept`**: under `VolInvC`, `close_file` of a handle that was written to answers `Ok`, and the state
it leaves shows the flushed file (`Kept`) as an object of the directory `h` the file sat in — entry `f.entry`, chain
`chainOf gh.G f.entry.cluster`, for every path `ys` that led to `h` before the call —, with NO handle left at its slot. -/
theorem close_establishes_kept (v0 : FatVolume) (s : Mgr) (gh : Ghost) (hI : VolInvC s gh) (h0 : SameGeom v0 gh.vol)
    (hd i : Nat) (f : FileInfo) (hidx : s.files.findIdx? (·.rawFile = hd) = some i) (hf : s.files[i]? = some f)
    (hdirty : f.dirty = true) :
    (step s (.closeFile hd)).2.result = .ok .unit ∧
    ∃ h, (∃ o, o ∈ objects h (dirSlots gh.vol s.dev.disk gh.G h) ∧ spos o = fkey f) ∧ h ∈ dirIds gh.dirs ∧
      ∀ ys, PathOn gh.vol.fatType gh.dirs (dirSlots gh.vol s.dev.disk gh.G) 0 ys h →
        (∀ y, y ∈ ys → sName y ≠ Sfn.thisDir ∧ sName y ≠ Sfn.parentDir) →
        ∃ gh1, Kept v0 f.entry (chainOf gh.G f.entry.cluster) ys h (step s (.closeFile hd)).1 gh1 ∧
          ∀ g, g ∈ (step s (.closeFile hd)).1.files → fkey g ≠ fkey f :=
  Lemmas.Survive.close_kept hI.inv hI.mirror hI.raw h0 hidx hf hdirty

/-- **`flush_establishes_kept`** — the handle is LEFT OPEN: under `VolInvC`, `flush_file` of a handle that was written to,
of a file that owns a cluster, answers `Ok`, and the state it leaves is `Kept`: the handle (still marked as written to —
the crate never clears the mark) has the flushed entry as its record, so that a later `flush_file` / `close_file` of it
stores the same 32 bytes. -/
theorem flush_establishes_kept (v0 : FatVolume) (s : Mgr) (gh : Ghost) (hI : VolInvC s gh) (h0 : SameGeom v0 gh.vol)
    (hd i : Nat) (f : FileInfo) (hidx : s.files.findIdx? (·.rawFile = hd) = some i) (hf : s.files[i]? = some f)
    (hdirty : f.dirty = true) (hcl : f.entry.cluster ≠ 0) :
    (step s (.flush hd)).2.result = .ok .unit ∧
    ∃ h, (∃ o, o ∈ objects h (dirSlots gh.vol s.dev.disk gh.G h) ∧ spos o = fkey f) ∧ h ∈ dirIds gh.dirs ∧
      ∀ ys, PathOn gh.vol.fatType gh.dirs (dirSlots gh.vol s.dev.disk gh.G) 0 ys h →
        (∀ y, y ∈ ys → sName y ≠ Sfn.thisDir ∧ sName y ≠ Sfn.parentDir) →
        ∃ gh1, Kept v0 f.entry (chainOf gh.G f.entry.cluster) ys h (step s (.flush hd)).1 gh1 :=
  Lemmas.Survive.flush_kept hI.inv hI.mirror hI.raw h0 hidx hf hdirty hcl

/-- **`notNamed_of_syntactic`** (every directory, FAT16 and FAT32): from a `Kept` state in which no handle at the slot has
unflushed changes (e.g. after a close), the licences of a covered history that never targets the file (`Untouched`) are
ALL `NotNamed` for the file — creates take free slots, writes go to other files' chains and to unused clusters, deletes
and truncations name other objects, flushes and closes store other files' entries, directories grow by free clusters. -/
theorem notNamed_of_syntactic (v0 : FatVolume) (e : DirEntry) (cs : List Nat) (ys : List Slot) (h : Nat) (s : Mgr) (gh : Ghost)
    (hK : Kept v0 e cs ys h s gh) (hst : Lemmas.Reopen.Storable v0.fatType e) (ops : List Op) (hc : CoveredAllRun v0 s ops)
    (hu : Untouched h e.name (e.entryBlock, e.entryOffset) s ops)
    (hclean : ∀ f, f ∈ s.files → fkey f = (e.entryBlock, e.entryOffset) → f.dirty = false) :
    ∃ Ls, RunLicensed v0 s ops Ls ∧ ∀ L, L ∈ Ls → NotNamed v0 L e.entryBlock e.entryOffset cs :=
  Lemmas.Survive.kept_runLicensed hst ops s gh hK (fsCoveredRun_of_coveredAllRun v0 s ops hc) hu hclean

/-- If only read-only handles refer to the file (for instance none: it is closed), a history none of whose calls opens
the file in a mode other than `ReadOnly` or deletes it (`NeverOpened`: the name, through a handle of the file's
directory) never targets it. -/
theorem untouched_of_never_opened (v0 : FatVolume) (e : DirEntry) (cs : List Nat) (ys : List Slot) (h : Nat) (s : Mgr) (gh : Ghost)
    (hK : Kept v0 e cs ys h s gh) (hst : Lemmas.Reopen.Storable v0.fatType e) (ops : List Op) (hc : CoveredAllRun v0 s ops)
    (hro : ∀ f, f ∈ s.files → fkey f = (e.entryBlock, e.entryOffset) → f.mode = .ReadOnly)
    (hn : NeverOpened h e.name s ops) : Untouched h e.name (e.entryBlock, e.entryOffset) s ops :=
  Lemmas.Survive.untouched_of_neverOpened hst ops s gh hK (fsCoveredRun_of_coveredAllRun v0 s ops hc) hro hn

/-- `NeverOpened`, spelled out. -/
theorem neverOpened_def (h : Nat) (N : Bytes) (s : Mgr) :
    (NeverOpened h N s [] ↔ True) ∧
    (∀ op ops, NeverOpened h N s (op :: ops) ↔ ¬ Modifies s h N op ∧ NeverOpened h N (step s op).1 ops) ∧
    (∀ dh name mode, Modifies s h N (.openFile dh name mode) ↔
      mode ≠ .ReadOnly ∧ Sfn.createFromStr name = .ok N ∧ ∃ dir, dir ∈ s.dirs ∧ dir.rawDirectory = dh ∧ dirIdOf dir.cluster = h) ∧
    (∀ dh name, Modifies s h N (.delete dh name) ↔
      Sfn.createFromStr name = .ok N ∧ ∃ dir, dir ∈ s.dirs ∧ dir.rawDirectory = dh ∧ dirIdOf dir.cluster = h) :=
  ⟨Iff.rfl, fun _ _ => Iff.rfl, fun _ _ _ => Iff.rfl, fun _ _ => Iff.rfl⟩

/-- The PURELY SYNTACTIC condition — the list of calls contains no `open_file_in_dir` in a mode other than `ReadOnly`
and no `delete_file_in_dir` of any spelling of the name (`NeverNames`) — implies `NeverOpened`, for every directory and
from every state. -/
theorem never_opened_of_never_names (h : Nat) (N : Bytes) (ops : List Op) (s : Mgr) (hn : NeverNames N ops) :
    NeverOpened h N s ops :=
  Lemmas.Survive.neverOpened_of_neverNames h N ops s hn

theorem neverNames_def (N : Bytes) :
    (NeverNames N [] ↔ True) ∧
    (∀ d name mode ops, NeverNames N (.openFile d name mode :: ops) ↔
      (mode = .ReadOnly ∨ Sfn.createFromStr name ≠ .ok N) ∧ NeverNames N ops) ∧
    (∀ d name ops, NeverNames N (.delete d name :: ops) ↔ Sfn.createFromStr name ≠ .ok N ∧ NeverNames N ops) :=
  ⟨Iff.rfl, fun _ _ _ _ => Iff.rfl, fun _ _ _ => Iff.rfl⟩

/-- The medium every crash point of the history leaves keeps the file of a `Kept` state: the state the call is issued
in is `Kept`, and slot bytes, FAT entries and contents are those of the start. -/
theorem kept_at_crash (v0 : FatVolume) (e : DirEntry) (cs : List Nat) (ys : List Slot) (h : Nat) (s1 : Mgr) (gh1 : Ghost)
    (hK : Kept v0 e cs ys h s1 gh1) (hst : Lemmas.Reopen.Storable v0.fatType e) (ops : List Op) (hc : CoveredAllRun v0 s1 ops)
    (hu : Untouched h e.name (e.entryBlock, e.entryOffset) s1 ops) (j : Nat) (op : Op) (hj : ops[j]? = some op) (k : Nat) :
    ∃ ghj, Kept v0 e cs ys h (run s1 (ops.take j)).1 ghj ∧
      Lemmas.Survive.SameFile v0 e cs ghj ys (run s1 (ops.take j)).1.dev.disk
        (crashDisk (run s1 (ops.take j)).1.dev.disk (step (run s1 (ops.take j)).1 op).2.writes k) ∧
      (∀ x, x ∈ cs → fatRaw v0 (run s1 (ops.take j)).1.dev.disk x = fatRaw v0 s1.dev.disk x) ∧
      ∀ n, fileContent v0 (run s1 (ops.take j)).1.dev.disk cs n = fileContent v0 s1.dev.disk cs n := by
  have hfc := fsCoveredRun_of_coveredAllRun v0 s1 ops hc
  obtain ⟨ghj, hKj, hS⟩ := Lemmas.Survive.kept_history hst ops s1 gh1 hK hfc hu j op hj
  obtain ⟨_, r2, r3⟩ := Lemmas.Survive.kept_run hst (ops.take j) s1 gh1 hK (Lemmas.Survive.fsCoveredRun_take v0 ops s1 hfc j)
    (Lemmas.Survive.untouched_take h _ _ ops s1 hu j)
  exact ⟨ghj, hKj, hS k, r2, r3⟩

/-- **`flushed_file_intact`** — part (a) for a file of ANY directory (root or sub-directory, FAT16 and FAT32), after
`close_file` or `flush_file`: from a `Kept` state, along a covered history that never targets the file, at EVERY crash
point `dk` — inside any call —: the blocks have 512 bytes, the slot still holds the serialised entry and decodes to the
flushed entry, the chain is `cs`, the FAT entries of `cs` are unchanged, and the contents are unchanged for every
length. -/
theorem flushed_file_intact (v0 : FatVolume) (e : DirEntry) (cs : List Nat) (ys : List Slot) (h : Nat) (s1 : Mgr) (gh1 : Ghost)
    (hK : Kept v0 e cs ys h s1 gh1) (hst : Lemmas.Reopen.Storable v0.fatType e) (ops : List Op) (hc : CoveredAllRun v0 s1 ops)
    (hu : Untouched h e.name (e.entryBlock, e.entryOffset) s1 ops) (dk : Disk) (hk : HistCrash s1 ops dk) :
    BlocksOK dk ∧ slice (dk.get e.entryBlock) e.entryOffset 32 = e.serialize v0.fatType ∧
    Lemmas.Listing.decode v0.fatType (e.entryBlock, e.entryOffset, slice (dk.get e.entryBlock) e.entryOffset 32) =
      Lemmas.Reopen.stored e ∧
    ((e.cluster < 2 ∧ cs = [] ∧ e.size = 0) ∨ Chain v0 dk e.cluster cs) ∧
    (∀ x, x ∈ cs → fatRaw v0 dk x = fatRaw v0 s1.dev.disk x) ∧
    ∀ n, fileContent v0 dk cs n = fileContent v0 s1.dev.disk cs n := by
  obtain ⟨j, op, k, hj, rfl⟩ := (histCrash_iff s1 ops _).1 hk
  obtain ⟨ghj, hKj, hS, r2, r3⟩ := kept_at_crash v0 e cs ys h s1 gh1 hK hst ops hc hu j op hj k
  have hFk := hS.flushed hKj.flushed
  refine ⟨hS.blocks, hFk.slot, ?_, hFk.chain, fun x hx => (hS.fat x hx).trans (r2 x hx), fun n => ?_⟩
  · rw [hFk.slot]
    exact Lemmas.Reopen.decode_serialize v0.fatType e hst
  · rw [← r3 n]
    unfold fileContent
    rw [hS.bytes]

/-- What a fresh manager does on the medium `dk`: mount partition `idx`, open the root directory, `open_dir` along `names`
(spellings of the names of the sub-directory entries `ys`), open the file by a spelling `name` of the stored name of `e`,
learn the length `e.size`, and read `(fileContent v0 d0 cs e.size).take n` — exactly the contents the file had on the
medium `d0` — writing nothing. -/
def FreshReads (v0 : FatVolume) (e : DirEntry) (cs : List Nat) (ys : List Slot) (d0 : Disk) (idx : Nat) (dk : Disk) : Prop :=
  ∀ (t0 : Mgr) (names : List (List Nat)) (name : List Nat), MgrOK t0 → t0.dev.disk = dk → t0.vols = [] → t0.dirs = [] →
    t0.files = [] → 0 < t0.maxVols → ys.length + 1 ≤ t0.maxDirs → 0 < t0.maxFiles →
    t0.nextId + ys.length + 2 < 4294967296 → Spells names ys → Sfn.createFromStr name = .ok e.name →
    ∃ t1 t2 dh t3 t4, openRawVolume idx t0 = (.ok t0.nextId, t1) ∧
      openRootDir t0.nextId t1 = (.ok (t0.nextId + 1), t2) ∧
      openPath (t0.nextId + 1) names t2 = (.ok dh, t3) ∧
      openFileInDir dh name .ReadOnly t3 = (.ok (t0.nextId + ys.length + 2), t4) ∧
      t4.dev.disk = dk ∧ t4.dev.wlog = t0.dev.wlog ∧
      fileLength (t0.nextId + ys.length + 2) t4 = (.ok e.size, t4) ∧
      ∀ n, ∃ t5, read (t0.nextId + ys.length + 2) n t4 = (.ok ((fileContent v0 d0 cs e.size).take n), t5) ∧
        t5.dev.disk = dk ∧ t5.dev.wlog = t0.dev.wlog

theorem FreshReads.congr {v0 : FatVolume} {e : DirEntry} {cs : List Nat} {ys : List Slot} {d0 d0' : Disk} {idx : Nat} {dk : Disk}
    (h : FreshReads v0 e cs ys d0 idx dk) (hc : ∀ n, fileContent v0 d0 cs n = fileContent v0 d0' cs n) :
    FreshReads v0 e cs ys d0' idx dk := by
  intro t0 names name a1 a2 a3 a4 a5 a6 a7 a8 a9 a10 a11
  obtain ⟨t1, t2, dh, t3, t4, g1, g2, g3, g4, g5, g6, g7, g8⟩ := h t0 names name a1 a2 a3 a4 a5 a6 a7 a8 a9 a10 a11
  refine ⟨t1, t2, dh, t3, t4, g1, g2, g3, g4, g5, g6, g7, fun n => ?_⟩
  obtain ⟨t5, hr, hd5, hw5⟩ := g8 n
  exact ⟨t5, by rw [← hc]; exact hr, hd5, hw5⟩

/-- **`flushed_file_survives`** — the full statement: a file of ANY directory (root or sub-directory), FAT16 and FAT32,
after `close_file` (`close_establishes_kept`) or `flush_file` with the handle left open (`flush_establishes_kept`).

`s1` is a `Kept` state for the file (entry `e`, storable; chain `cs`) in directory `h`, reached from the root directory
through the sub-directory entries `ys` (`[]` for a file of the root directory); its medium mounts as partition `idx` with
the geometry of `v0`.  `ops` is ANY covered history from `s1` that never targets the file (`Untouched`: no
`open_file_in_dir` of its name in its directory in a truncating mode, no `delete_file_in_dir` of it, no `write` through a
handle of it — flushing or closing a handle of it again is allowed; see `untouched_of_never_opened` and
`never_opened_of_never_names` for the syntactic forms).  Then at EVERY crash point `dk` of the history — the medium after
any number of the block writes of any call —:

(a) the blocks have 512 bytes, the slot holds the serialised entry, the chain is `cs`, and the contents are the flushed
    contents for every length;
(b) `dk` is crash-consistent for some record `ghk` of its tree (`CrashInv`), in which `ys` still lead from the root
    directory to `h`, and the slot is the FIRST HIT for the file's name among the slots of directory `h` of `dk`;
(c) `dk` mounts as partition `idx`, and ANY fresh manager on `dk` mounts, opens the root directory, opens the
    sub-directories by any spellings of their names, opens the file by any spelling of its name, is told the length
    `e.size`, and reads `(fileContent v0 s1.dev.disk cs e.size).take n` — exactly the flushed contents — writing nothing
    (`FreshReads`). -/
theorem flushed_file_survives (v0 : FatVolume) (s1 : Mgr) (gh1 : Ghost) (e : DirEntry) (cs : List Nat) (ys : List Slot) (h : Nat)
    (hK : Kept v0 e cs ys h s1 gh1) (hst : Lemmas.Reopen.Storable v0.fatType e)
    (ops : List Op) (hc : CoveredAllRun v0 s1 ops) (hu : Untouched h e.name (e.entryBlock, e.entryOffset) s1 ops)
    (idx : Nat) (vm : FatVolume) (hm : mountPure (s1.dev.disk.get 0) idx s1.dev.disk.get = .ok vm) (hsg : SameGeom vm v0)
    (dk : Disk) (hk : HistCrash s1 ops dk) :
    (BlocksOK dk ∧ slice (dk.get e.entryBlock) e.entryOffset 32 = e.serialize v0.fatType ∧
      ((e.cluster < 2 ∧ cs = [] ∧ e.size = 0) ∨ Chain v0 dk e.cluster cs) ∧
      ∀ n, fileContent v0 dk cs n = fileContent v0 s1.dev.disk cs n) ∧
    (∃ ghk, CrashInv v0 dk ghk ∧ PathOn v0.fatType ghk.dirs (dirSlots v0 dk ghk.G) 0 ys h ∧
      Lemmas.Reopen.FirstHit (dirSlots v0 dk ghk.G h) e.name
        (e.entryBlock, e.entryOffset, slice (dk.get e.entryBlock) e.entryOffset 32)) ∧
    FreshReads v0 e cs ys s1.dev.disk idx dk := by
  have hI : VolInvC s1 gh1 := ⟨hK.inv, hK.mirror, hK.raw⟩
  have h0 := hK.geom
  obtain ⟨j, op, k, hj, rfl⟩ := (histCrash_iff s1 ops _).1 hk
  obtain ⟨ghj, hKj, hS, _, hcj⟩ := kept_at_crash v0 e cs ys h s1 gh1 hK hst ops hc hu j op hj k
  obtain ⟨⟨ghk, hC⟩, _⟩ := C10Inv.history_crash_invariant v0 ops s1 gh1 hI h0 hc j op hj k
  obtain ⟨w, hmw, hsw⟩ := C10Inv.history_crash_mounts_from_start v0 ops s1 gh1 hI h0 hc j op hj k idx vm hm hsg
  obtain ⟨r2, r4, rP, r5, r6⟩ := Lemmas.Survive.kept_crash hKj hst hS hC idx w hmw hsw
  refine ⟨⟨hS.blocks, r2.slot, r2.chain, fun n => (r4 n).trans (hcj n)⟩, ⟨ghk, hC, rP, ?_⟩, ?_⟩
  · rw [Lemmas.Survive.slotOf_of_flushed r2]; exact r5
  · exact FreshReads.congr r6 hcj

/-- What `closed_file_survives` and `flushed_open_file_survives` conclude at a crash point `dk`: the slot holds the flushed
entry `e`, the chain is `cs`, the contents are those of the medium `d0`, and any fresh manager reads them back
(`FreshReads`). -/
def ReadsBack (v0 : FatVolume) (e : DirEntry) (cs : List Nat) (ys : List Slot) (d0 : Disk) (idx : Nat) (dk : Disk) : Prop :=
  (BlocksOK dk ∧ slice (dk.get e.entryBlock) e.entryOffset 32 = e.serialize v0.fatType ∧
    ((e.cluster < 2 ∧ cs = [] ∧ e.size = 0) ∨ Chain v0 dk e.cluster cs) ∧
    ∀ n, fileContent v0 dk cs n = fileContent v0 d0 cs n) ∧
  FreshReads v0 e cs ys d0 idx dk

/-- The common part of the two corollaries: from the `Kept` state a successful `flush_file` / `close_file` leaves. -/
theorem reads_back_of_kept (v0 : FatVolume) (s : Mgr) (gh : Ghost) (hI : VolInvC s gh) (h0 : SameGeom v0 gh.vol)
    (op : Op) (hcov : CoveredAll v0 s op) (f : FileInfo) (hfm : f ∈ s.files) (ys : List Slot)
    (h : Nat) (gh1 : Ghost) (hK1 : Kept v0 f.entry (chainOf gh.G f.entry.cluster) ys h (step s op).1 gh1)
    (hcont : ∀ n, fileContent gh.vol (step s op).1.dev.disk (chainOf gh.G f.entry.cluster) n =
      fileContent gh.vol s.dev.disk (chainOf gh.G f.entry.cluster) n)
    (ops : List Op) (hc : CoveredAllRun v0 (step s op).1 ops)
    (hu : Untouched h f.entry.name (f.entry.entryBlock, f.entry.entryOffset) (step s op).1 ops)
    (idx : Nat) (vm : FatVolume) (hm : mountPure (s.dev.disk.get 0) idx s.dev.disk.get = .ok vm) (hsg : SameGeom vm v0)
    (dk : Disk) (hk : HistCrash (step s op).1 ops dk) :
    ReadsBack v0 f.entry (chainOf gh.G f.entry.cluster) ys s.dev.disk idx dk := by
  obtain ⟨hst, _⟩ := Lemmas.Survive.file_entry_facts hI.inv hfm
  have hst0 : Lemmas.Reopen.Storable v0.fatType f.entry := by rw [← h0.fatType]; exact hst
  -- the medium after the call mounts
  obtain ⟨w1, hw1, hsw1⟩ := C10Inv.history_mounts v0 [op] s gh hI h0 ⟨hcov, trivial⟩ idx vm hm hsg
  have hw1' : mountPure ((step s op).1.dev.disk.get 0) idx (step s op).1.dev.disk.get = .ok w1 := hw1
  have hcont0 : ∀ n, fileContent v0 (step s op).1.dev.disk (chainOf gh.G f.entry.cluster) n =
      fileContent v0 s.dev.disk (chainOf gh.G f.entry.cluster) n := by
    intro n
    rw [← Lemmas.WriteRefines.sameGeom_fileContent h0, ← Lemmas.WriteRefines.sameGeom_fileContent h0]
    exact hcont n
  obtain ⟨⟨r1, r2, r3, r4⟩, _, r6⟩ := flushed_file_survives v0 _ gh1 f.entry _ ys h hK1 hst0 ops hc hu idx w1 hw1' hsw1.symm dk hk
  exact ⟨⟨r1, r2, r3, fun n => (r4 n).trans (hcont0 n)⟩, FreshReads.congr r6 hcont0⟩

/-- **`closed_file_survives`** — the property from the call itself, with the purely syntactic criterion, for a file of
any directory.

`s` satisfies `VolInvC`; `hd` is the handle of the open file `f`, which was written to; the file sits in directory `h`,
to which the sub-directory entries `ys` lead from the root directory (`[]`: the file is in the root directory); the
medium of `s` mounts as partition `idx` with the geometry of `v0`.  Then `close_file hd` answers `Ok`, and for EVERY
covered history `ops` after it whose list of calls contains no `open_file_in_dir` in a mode other than `ReadOnly` and no
`delete_file_in_dir` of a spelling of the file's name (`NeverNames`), at EVERY crash point `dk` — the medium after any
number of the block writes of any call of `ops` —: `ReadsBack`: the slot holds the flushed entry, the chain is the
file's chain, and any fresh manager reads exactly the contents the file had when it was closed. -/
theorem closed_file_survives (v0 : FatVolume) (s : Mgr) (gh : Ghost) (hI : VolInvC s gh) (h0 : SameGeom v0 gh.vol)
    (hd i : Nat) (f : FileInfo) (hidx : s.files.findIdx? (·.rawFile = hd) = some i) (hf : s.files[i]? = some f)
    (hdirty : f.dirty = true) (h : Nat) (ys : List Slot)
    (hdir : ∃ o, o ∈ objects h (dirSlots gh.vol s.dev.disk gh.G h) ∧ spos o = fkey f)
    (hpath : PathOn gh.vol.fatType gh.dirs (dirSlots gh.vol s.dev.disk gh.G) 0 ys h)
    (hnames : ∀ y, y ∈ ys → sName y ≠ Sfn.thisDir ∧ sName y ≠ Sfn.parentDir)
    (ops : List Op) (hc : CoveredAllRun v0 s (.closeFile hd :: ops)) (hn : NeverNames f.entry.name ops)
    (idx : Nat) (vm : FatVolume) (hm : mountPure (s.dev.disk.get 0) idx s.dev.disk.get = .ok vm) (hsg : SameGeom vm v0) :
    (step s (.closeFile hd)).2.result = .ok .unit ∧
    ∀ dk, HistCrash (step s (.closeFile hd)).1 ops dk →
      ReadsBack v0 f.entry (chainOf gh.G f.entry.cluster) ys s.dev.disk idx dk := by
  have hfm : f ∈ s.files := List.mem_of_getElem? hf
  have hM := Lemmas.VolMed.medX_of_med hI.inv.med
  obtain ⟨hres, h', ⟨o, hoo, hpo⟩, hh, hall⟩ := Lemmas.Survive.close_kept hI.inv hI.mirror hI.raw h0 hidx hf hdirty
  obtain ⟨o0, ho0, hpo0⟩ := hdir
  obtain ⟨rfl, _⟩ := Lemmas.AbsFs.slot_unique hM hh hpath.end_mem (Lemmas.VolMed.mem_of_mem_objects hoo)
    (Lemmas.VolMed.mem_of_mem_objects ho0) (hpo.trans hpo0.symm)
  obtain ⟨gh1, hK1, hnone⟩ := hall ys hpath hnames
  refine ⟨hres, fun dk hk => ?_⟩
  obtain ⟨hst, _⟩ := Lemmas.Survive.file_entry_facts hI.inv hfm
  have hst0 : Lemmas.Reopen.Storable v0.fatType f.entry := by rw [← h0.fatType]; exact hst
  obtain ⟨_, _, hcont⟩ := Lemmas.Survive.close_step_flushed hI.inv hidx hf hdirty
  have hu := untouched_of_never_opened v0 f.entry _ ys h' _ gh1 hK1 hst0 ops hc.2
    (fun g hg hkey => absurd hkey (hnone g hg)) (never_opened_of_never_names h' f.entry.name ops _ hn)
  exact reads_back_of_kept v0 s gh hI h0 (.closeFile hd) hc.1 f hfm ys h' gh1 hK1 hcont ops hc.2 hu idx vm hm hsg dk hk

/-- **`flushed_open_file_survives`** — the `flush_file` case, the handle left open, for a file of any directory.

`s` satisfies `VolInvC`; `hd` is the handle of the open file `f`, which was written to and owns a cluster; the file sits
in directory `h`, reached through `ys`; the medium of `s` mounts.  Then `flush_file hd` answers `Ok`, and for EVERY covered
history `ops` after it that never targets the file (`Untouched`: no truncating `open_file_in_dir` of its name in its
directory, no `delete_file_in_dir` of it, no `write` through a handle of it — reading, seeking, flushing again and
closing are all allowed), at EVERY crash point: `ReadsBack` — any fresh manager reads exactly the contents the file had
when it was flushed. -/
theorem flushed_open_file_survives (v0 : FatVolume) (s : Mgr) (gh : Ghost) (hI : VolInvC s gh) (h0 : SameGeom v0 gh.vol)
    (hd i : Nat) (f : FileInfo) (hidx : s.files.findIdx? (·.rawFile = hd) = some i) (hf : s.files[i]? = some f)
    (hdirty : f.dirty = true) (hcl : f.entry.cluster ≠ 0) (h : Nat) (ys : List Slot)
    (hdir : ∃ o, o ∈ objects h (dirSlots gh.vol s.dev.disk gh.G h) ∧ spos o = fkey f)
    (hpath : PathOn gh.vol.fatType gh.dirs (dirSlots gh.vol s.dev.disk gh.G) 0 ys h)
    (hnames : ∀ y, y ∈ ys → sName y ≠ Sfn.thisDir ∧ sName y ≠ Sfn.parentDir)
    (ops : List Op) (hc : CoveredAllRun v0 s (.flush hd :: ops))
    (hu : Untouched h f.entry.name (f.entry.entryBlock, f.entry.entryOffset) (step s (.flush hd)).1 ops)
    (idx : Nat) (vm : FatVolume) (hm : mountPure (s.dev.disk.get 0) idx s.dev.disk.get = .ok vm) (hsg : SameGeom vm v0) :
    (step s (.flush hd)).2.result = .ok .unit ∧
    ∀ dk, HistCrash (step s (.flush hd)).1 ops dk →
      ReadsBack v0 f.entry (chainOf gh.G f.entry.cluster) ys s.dev.disk idx dk := by
  have hfm : f ∈ s.files := List.mem_of_getElem? hf
  have hM := Lemmas.VolMed.medX_of_med hI.inv.med
  obtain ⟨hres, h', ⟨o, hoo, hpo⟩, hh, hall⟩ := Lemmas.Survive.flush_kept hI.inv hI.mirror hI.raw h0 hidx hf hdirty hcl
  obtain ⟨o0, ho0, hpo0⟩ := hdir
  obtain ⟨rfl, _⟩ := Lemmas.AbsFs.slot_unique hM hh hpath.end_mem (Lemmas.VolMed.mem_of_mem_objects hoo)
    (Lemmas.VolMed.mem_of_mem_objects ho0) (hpo.trans hpo0.symm)
  obtain ⟨gh1, hK1⟩ := hall ys hpath hnames
  refine ⟨hres, fun dk hk => ?_⟩
  obtain ⟨_, _, hcont⟩ := Lemmas.Survive.flush_step_flushed hI.inv hidx hf hdirty
  exact reads_back_of_kept v0 s gh hI h0 (.flush hd) hc.1 f hfm ys h' gh1 hK1 hcont ops hc.2 hu idx vm hm hsg dk hk

/-- **`spec_reader_survives_syntactic`**: `spec_reader_survives` under the syntactic criterion — from a `Kept` state
(file of any directory), along a covered history that never targets the file, at EVERY crash point the independent
reader `Spec.Fs` sees the flushed file (slot fields, chain walk, file bytes); `ProperEnds`: no FAT32 entry of the
file's chain is the reserved value 1. -/
theorem spec_reader_survives_syntactic (v0 : FatVolume) (e : DirEntry) (cs : List Nat) (ys : List Slot) (h : Nat) (s1 : Mgr) (gh1 : Ghost)
    (hK : Kept v0 e cs ys h s1 gh1) (hst : Lemmas.Reopen.Storable v0.fatType e) (ops : List Op) (hc : CoveredAllRun v0 s1 ops)
    (hu : Untouched h e.name (e.entryBlock, e.entryOffset) s1 ops)
    (g : Fs.Geom) (hgm : C02Reopen.GeomOf v0 g) (hp : C02Reopen.ProperEnds v0 s1.dev.disk cs)
    (dk : Disk) (hk : HistCrash s1 ops dk) (sl : Fs.Slot) (hsl : sl.bytes = slice (dk.get e.entryBlock) e.entryOffset 32) :
    Fs.nameOf sl = e.name ∧ Fs.attrOf sl = e.attributes ∧ Fs.clusterOf g sl = e.cluster ∧ Fs.sizeOf sl = e.size ∧
    (cs ≠ [] → Fs.chain g dk (Fs.clusterOf g sl) = .ok cs) ∧
    Fs.fileBytes g dk cs (Fs.sizeOf sl) = fileContent v0 s1.dev.disk cs e.size := by
  obtain ⟨hbk, hslot, _, hch, hraw, hfc⟩ := flushed_file_intact v0 e cs ys h s1 gh1 hK hst ops hc hu dk hk
  obtain ⟨_, _, _, _, _, _, _, hin⟩ := hK.facts hst
  have hg : WFGeom v0 := hK.geom.symm.wfGeom hK.inv.med.geom
  have := Lemmas.Survive.spec_reader_on v0 hg g hgm dk hbk e cs hst ⟨hslot, hch⟩ hin
    (fun x hx h32 => by rw [hraw x hx]; exact hp x hx h32) sl hsl
  rw [hfc] at this
  exact this

end Sdmmc.Props.C09Hist
