/-
C09 over whole histories — "Once flush or close of a file has returned success, cutting power after any later block
write — during any subsequent operation on other files, directories or the volume — and mounting the medium afresh
shows that file with at least the flushed length and exactly the flushed contents, until the file itself is next
modified, truncated or deleted."

Property theorems only; proofs in `Sdmmc.Lemmas.Survive*` (`SurviveFrame`: crash points, prefix-closed licences, the
frame at every crash point; `SurviveFile`: first hit under the invariant, mounting across the frame; `SurviveRead`:
the fresh reader, the flushed file at crash points and boundaries; `SurviveClose`: what flush / close establish, the
independent reader; `SurviveMain`: assembly) on top of `Props/C04Hist.lean` (`VolInvM`, `LicenceFor`, `RunLicensed`,
`NotNamed`, `Covers`), `Props/C03Inv.lean` (`VolInv`, `CoveredAllRun`) and `Props/C02Reopen.lean` (the reader).

CRASH POINTS.  `HistCrash s ops dk` (`histCrash_iff`): `dk` is the medium of the state some call `ops[j]` of the
history is issued in with the first `k` device writes of that call applied (`Spec.crashDisk`) — every medium a power
cut during the history can leave.

WHAT IS PROVED.
1. `licensed_prefix_closed`, `step_crash_licensed`, `crash_frame`, `history_crash_frame`: the first `k` writes of a
   call are licensed by the call's licence; a byte no licence covers is unchanged at every crash point of a call /
   inside any call of a history.
2. `unnamed_object_survives_crashes`: an object (slot, chain) no licence of the history names has its 32 slot bytes,
   its FAT entries, its `Chain` and its `chainBytes` unchanged at EVERY crash point of the history.
3. `flush_establishes`, `close_establishes`: a successful flush / close of a dirty file under the invariant leaves a
   medium that shows the flushed file (`FlushedOn`: the slot holds the serialised record, the chain and contents are
   as before the call); `flushed_entry_facts`: what the invariant says about the record.
   **`flushed_file_survives_partial`** — the file flushed on the medium of a state `s1` (`VolInvM`), any covered history
   `ops` from `s1` none of whose licences names the file (`NotNamed` for the file's slot and chain):
   (a) at EVERY crash point `dk` of the history — inside any call, any directory, FAT16 and FAT32 —: 512-byte blocks,
       the slot still holds the serialised entry and decodes (`Listing.decode`) to the flushed entry (name, attributes,
       size, first cluster; time stamps at FAT resolution: `stored`), the chain is still `cs`, and
       `fileContent v0 dk cs n` is what it was for every `n` — in particular for the flushed size;
   (b), (c) at every CALL BOUNDARY (the state after the first `j` calls, every `j`), for a file of the FAT16 fixed ROOT
       directory: the slot is the first hit for the file's name in the root directory, the medium mounts with the same
       geometry, and ANY fresh manager on it mounts, opens the root directory, opens the file by any spelling of its
       name and reads exactly the flushed contents, writing nothing.
   MISSING for the full statement (hence `_partial`):
   * (b), (c) at crash points STRICTLY INSIDE a call.  The licences say which slots a call may change but not what
     it writes there; "first hit" needs, of every slot in front of the file's, a non-zero first byte and a different
     name at the crash point.  At call boundaries the invariant gives that (unique names, clean tails).
   * (b), (c) for files of FAT32 root directories and of sub-directories: the membership of the slot's block in the
     directory's chain of the LATER ghost has to be tracked through the history (the directory may grow), which the
     per-step theorems of `Props.C03Inv` do not export.
   * a purely syntactic sufficient condition for `NotNamed` ("no `openFile` in a writing mode / `delete` of that name
     in that directory"): `LicenceFor` does not record that a created slot was a free slot, nor that the clusters a
     `write` adds were unused; both facts are true of the model but would have to be threaded through
     `Lemmas.WriteSetCreate` / `WriteSetWrite` / `WriteSetInv` (existing files).  The hypothesis is therefore the
     semantic one, on the licences (`history_untouched_objects'` of `Props/C04Hist.lean` gives its `LicenceFor` form).
4. `spec_reader_survives`: at every crash point the independent reader `Spec.Fs` sees the flushed file: slot fields,
   chain walk, file bytes.
-/
import Sdmmc.Lemmas.SurviveMain
import Sdmmc.Props.C04Hist
import Sdmmc.Props.C02Reopen

namespace Sdmmc.Props.C09Hist
open Sdmmc.Model Sdmmc.Model.Fat Sdmmc.Spec.Volume
open Sdmmc.Spec hiding run step NoFault Coherent
open Sdmmc.Props.C03Inv (Covered CoveredAll CoveredAllRun)
open Sdmmc.Props.C04Hist (VolInvM)
open Sdmmc.Lemmas.WriteSetInv (LicenceFor RunLicensed Covers NotNamed)
open Sdmmc.Lemmas.Survive (HistCrash FlushedOn)
open Sdmmc.Lemmas.ReadRefines (MgrOK)

/-! ### Crash points -/

/-- `HistCrash s ops dk`: `dk` is the medium of the state the `j`-th call is issued in with the first `k` device
writes of that call applied — for some `j`, `k`. -/
theorem histCrash_iff (s : Mgr) (ops : List Op) (dk : Disk) : HistCrash s ops dk ↔
    ∃ j op k, ops[j]? = some op ∧
      dk = crashDisk (run s (ops.take j)).1.dev.disk (step (run s (ops.take j)).1 op).2.writes k :=
  Lemmas.Survive.histCrash_iff s ops dk

theorem flushedOn_def (v : FatVolume) (d : Disk) (e : DirEntry) (cs : List Nat) : FlushedOn v d e cs ↔
    slice (d.get e.entryBlock) e.entryOffset 32 = e.serialize v.fatType ∧
    ((e.cluster < 2 ∧ cs = [] ∧ e.size = 0) ∨ Chain v d e.cluster cs) :=
  ⟨fun h => ⟨h.slot, h.chain⟩, fun h => ⟨h.1, h.2⟩⟩

/-! ### 1. Licences at crash points -/

/-- A prefix of a licensed list of writes is licensed. -/
theorem licensed_prefix_closed (v : FatVolume) (L : Licence) (ws : List (Nat × Block)) (d : Disk) (k : Nat)
    (h : AllLicensed v d L ws) : AllLicensed v d L (ws.take k) :=
  Lemmas.Survive.allLicensed_take ws d k h

/-- **`step_crash_licensed`**: under the invariant, for every `k`, the first `k` writes of a covered call are licensed
by the call's licence. -/
theorem step_crash_licensed (s : Mgr) (gh : Ghost) (op : Op) (hI : VolInvM s gh) (hc : Covered s op) :
    ∃ L, LicenceFor gh s.files s.dirs s.dev.disk op L ∧
      ∀ k, AllLicensed gh.vol s.dev.disk L ((step s op).2.writes.take k) := by
  obtain ⟨L, h1, h2, _⟩ := C04Hist.step_licensed s gh op hI hc
  exact ⟨L, h1, fun k => Lemmas.Survive.allLicensed_take _ _ k h2⟩

/-- **`crash_frame`**: a byte the licence of the call does not cover is unchanged at EVERY crash point of the call. -/
theorem crash_frame (s : Mgr) (gh : Ghost) (op : Op) (hI : VolInvM s gh) (hc : Covered s op) :
    ∃ L, LicenceFor gh s.files s.dirs s.dev.disk op L ∧
      ∀ b i, ¬ Covers gh.vol L b i → ∀ k,
        ((crashDisk s.dev.disk (step s op).2.writes k).get b).getD i 0 = (s.dev.disk.get b).getD i 0 := by
  obtain ⟨L, h1, h2, _⟩ := C04Hist.step_licensed s gh op hI hc
  exact ⟨L, h1, fun b i hn k => Lemmas.Survive.crash_frame h2 hn k⟩

/-- **`history_crash_frame`**: a byte that no licence of the history covers is unchanged at every crash point inside
any call of the history. -/
theorem history_crash_frame (v0 : FatVolume) (ops : List Op) (s : Mgr) (Ls : List Licence) (hR : RunLicensed v0 s ops Ls)
    (b i : Nat) (hn : ∀ L, L ∈ Ls → ¬ Covers v0 L b i) (dk : Disk) (hk : HistCrash s ops dk) :
    (dk.get b).getD i 0 = (s.dev.disk.get b).getD i 0 :=
  Lemmas.Survive.runLicensed_crash_frame hR hn dk hk

/-! ### 2. Unnamed objects at crash points -/

/-- **`unnamed_object_survives_crashes`**: an object — its slot at byte `so` (a multiple of 32) of the directory block
`sb`, its clusters `cs` — that no licence of the history names has, at EVERY crash point of the history, 512-byte
blocks around it, its 32 slot bytes, the FAT entries of its clusters, its `Chain` and its `chainBytes` identical to
the start. -/
theorem unnamed_object_survives_crashes (v0 : FatVolume) (ops : List Op) (s : Mgr) (gh : Ghost) (hI : VolInvM s gh)
    (h0 : SameGeom v0 gh.vol) (hc : CoveredAllRun v0 s ops) :
    ∃ Ls, RunLicensed v0 s ops Ls ∧
      ∀ (sb so : Nat) (cs : List Nat), (∀ c, c ∈ cs → InRange v0 c) →
        (regionOf v0 sb = .root ∨ regionOf v0 sb = .data) → so % 32 = 0 →
        (∀ L, L ∈ Ls → NotNamed v0 L sb so cs) → ∀ dk, HistCrash s ops dk →
        BlocksOK dk ∧ slice (dk.get sb) so 32 = slice (s.dev.disk.get sb) so 32 ∧
        (∀ x, x ∈ cs → fatRaw v0 dk x = fatRaw v0 s.dev.disk x) ∧
        (∀ c, Chain v0 s.dev.disk c cs → Chain v0 dk c cs) ∧
        chainBytes v0 dk cs = chainBytes v0 s.dev.disk cs := by
  obtain ⟨Ls, hR, _⟩ := C04Hist.history_licensed v0 ops s gh hI h0 hc
  exact ⟨Ls, hR, fun sb so cs hin hsreg hso hnn dk hk =>
    Lemmas.Survive.unnamed_object_at_crash (h0.symm.wfGeom hI.1.med.geom) hR hI.1.med.blocksOK sb so cs hin hsreg hso hnn dk hk⟩

/-! ### 3. The flushed file -/

/-- What the invariant says about the record `f` of an open file (chain `chainOf gh.G f.entry.cluster`): the entry can
be stored; its name starts neither with `0x00` nor `0xE5`; it is a plain short entry; its slot is an aligned slot of a
directory block that is no block of the file's own clusters; the clusters of its chain are data clusters; the chain
is long enough for the size. -/
theorem flushed_entry_facts (s : Mgr) (gh : Ghost) (hI : VolInv s gh) (f : FileInfo) (hfm : f ∈ s.files) :
    Lemmas.Reopen.Storable gh.vol.fatType f.entry ∧ byteAt f.entry.name 0 ≠ 0 ∧ byteAt f.entry.name 0 ≠ 0xE5 ∧
    f.entry.attributes % 16 ≠ 15 ∧ Attr.isDirectory f.entry.attributes = false ∧
    (regionOf gh.vol f.entry.entryBlock = .root ∨ regionOf gh.vol f.entry.entryBlock = .data) ∧
    f.entry.entryOffset % 32 = 0 ∧ f.entry.entryOffset + 32 ≤ 512 ∧
    (∀ c, c ∈ chainOf gh.G f.entry.cluster → InRange gh.vol c) ∧
    f.entry.size ≤ (chainOf gh.G f.entry.cluster).length * clusterBytesLen gh.vol ∧
    (∀ c, c ∈ chainOf gh.G f.entry.cluster → ∀ j, j < gh.vol.blocksPerCluster →
      clusterToBlock gh.vol c + j ≠ f.entry.entryBlock) :=
  Lemmas.Survive.file_entry_facts hI hfm

/-- **`close_file` of a dirty file returns success and leaves the flushed file on the medium**: the slot holds the
serialised record, the chain of the record's first cluster is `chainOf gh.G f.entry.cluster`, and the contents are
what they were before the call. -/
theorem close_establishes (s : Mgr) (gh : Ghost) (hI : VolInv s gh) (h i : Nat) (f : FileInfo)
    (hidx : s.files.findIdx? (·.rawFile = h) = some i) (hf : s.files[i]? = some f) (hd : f.dirty = true) :
    (step s (.closeFile h)).2.result = .ok .unit ∧
    FlushedOn gh.vol (step s (.closeFile h)).1.dev.disk f.entry (chainOf gh.G f.entry.cluster) ∧
    ∀ n, fileContent gh.vol (step s (.closeFile h)).1.dev.disk (chainOf gh.G f.entry.cluster) n =
      fileContent gh.vol s.dev.disk (chainOf gh.G f.entry.cluster) n :=
  Lemmas.Survive.close_step_flushed hI hidx hf hd

/-- The same for `flush_file` (the handle stays open). -/
theorem flush_establishes (s : Mgr) (gh : Ghost) (hI : VolInv s gh) (h i : Nat) (f : FileInfo)
    (hidx : s.files.findIdx? (·.rawFile = h) = some i) (hf : s.files[i]? = some f) (hd : f.dirty = true) :
    (step s (.flush h)).2.result = .ok .unit ∧
    FlushedOn gh.vol (step s (.flush h)).1.dev.disk f.entry (chainOf gh.G f.entry.cluster) ∧
    ∀ n, fileContent gh.vol (step s (.flush h)).1.dev.disk (chainOf gh.G f.entry.cluster) n =
      fileContent gh.vol s.dev.disk (chainOf gh.G f.entry.cluster) n :=
  Lemmas.Survive.flush_step_flushed hI hidx hf hd

/-- **`flushed_file_survives_partial`.**  `s1` satisfies the invariant (FAT copies identical); its medium shows the
flushed file: entry `e` (storable, a plain short entry, slot in an aligned slot of a directory block), clusters `cs`
(`close_establishes` / `flush_establishes` and `flushed_entry_facts` provide all of this after a successful close or
flush).  `ops` is any covered history from `s1`, `Ls` its licences.  If no licence names the file, then

(a) at EVERY crash point `dk` of the history: the blocks have 512 bytes, the slot holds the serialised entry and
    decodes to the flushed entry, the chain is `cs`, the FAT entries of `cs` are unchanged, and the contents are
    unchanged for every length;
(b), (c) on a FAT16 volume, for a file whose slot lies in the fixed root region, whose name starts neither with `0x00`
    nor `0xE5` and whose chain fits its size, when the medium of `s1` mounts as partition `idx` with the geometry of
    `v0`: in the state after the first `j` calls, for EVERY `j`, the slot is the first hit for the file's name in the
    root directory, and ANY fresh manager on that medium mounts, opens the root directory, opens the file by any
    spelling `name` of its stored name and reads `(fileContent v0 s1.dev.disk cs e.size).take n` — the flushed
    contents — writing nothing.

Full statement NOT proved: (b), (c) at crash points strictly inside a call, and for FAT32-root / sub-directory files;
see the header. -/
theorem flushed_file_survives_partial (v0 : FatVolume) (s1 : Mgr) (gh1 : Ghost) (hI : VolInvM s1 gh1) (h0 : SameGeom v0 gh1.vol)
    (ops : List Op) (hc : CoveredAllRun v0 s1 ops) (e : DirEntry) (cs : List Nat) (hF : FlushedOn v0 s1.dev.disk e cs)
    (hst : Lemmas.Reopen.Storable v0.fatType e) (hsreg : regionOf v0 e.entryBlock = .root ∨ regionOf v0 e.entryBlock = .data)
    (hal : e.entryOffset % 32 = 0) (hin : ∀ c, c ∈ cs → InRange v0 c) :
    ∃ Ls, RunLicensed v0 s1 ops Ls ∧ ((∀ L, L ∈ Ls → NotNamed v0 L e.entryBlock e.entryOffset cs) →
      (∀ dk, HistCrash s1 ops dk →
        BlocksOK dk ∧ slice (dk.get e.entryBlock) e.entryOffset 32 = e.serialize v0.fatType ∧
        Lemmas.Listing.decode v0.fatType (e.entryBlock, e.entryOffset, slice (dk.get e.entryBlock) e.entryOffset 32) =
          Lemmas.Reopen.stored e ∧
        ((e.cluster < 2 ∧ cs = [] ∧ e.size = 0) ∨ Chain v0 dk e.cluster cs) ∧
        (∀ x, x ∈ cs → fatRaw v0 dk x = fatRaw v0 s1.dev.disk x) ∧
        ∀ n, fileContent v0 dk cs n = fileContent v0 s1.dev.disk cs n) ∧
      (v0.fatType = .fat16 → v0.lbaStart + v0.firstRootDirBlock ≤ e.entryBlock →
        e.entryBlock < v0.lbaStart + v0.firstRootDirBlock + blockCountFromBytes (v0.rootEntriesCount * 32) →
        e.entryOffset + 32 ≤ 512 → byteAt e.name 0 ≠ 0 → byteAt e.name 0 ≠ 0xE5 → e.attributes % 16 ≠ 15 →
        Attr.isDirectory e.attributes = false → e.size ≤ cs.length * clusterBytesLen v0 →
        ∀ (idx : Nat) (vm : FatVolume), mountPure (s1.dev.disk.get 0) idx s1.dev.disk.get = .ok vm → SameGeom vm v0 →
        ∀ j,
          Lemmas.Reopen.FirstHit (Lemmas.Reopen.dirSlotsOf v0 (run s1 (ops.take j)).1.dev.disk 0xFFFFFFFC []) e.name
            (e.entryBlock, e.entryOffset, slice ((run s1 (ops.take j)).1.dev.disk.get e.entryBlock) e.entryOffset 32) ∧
          ∀ (t0 : Mgr) (name : List Nat), MgrOK t0 → t0.dev.disk = (run s1 (ops.take j)).1.dev.disk → t0.vols = [] →
            t0.dirs = [] → t0.files = [] → 0 < t0.maxVols → 0 < t0.maxDirs → 0 < t0.maxFiles →
            t0.nextId + 2 < 4294967296 → Sfn.createFromStr name = .ok e.name →
            ∃ t1 t2 t3, openRawVolume idx t0 = (.ok t0.nextId, t1) ∧
              openRootDir t0.nextId t1 = (.ok (t0.nextId + 1), t2) ∧
              openFileInDir (t0.nextId + 1) name .ReadOnly t2 = (.ok (t0.nextId + 2), t3) ∧
              t3.dev.disk = (run s1 (ops.take j)).1.dev.disk ∧ t3.dev.wlog = t0.dev.wlog ∧
              fileLength (t0.nextId + 2) t3 = (.ok e.size, t3) ∧
              ∀ n, ∃ t4, read (t0.nextId + 2) n t3 = (.ok ((fileContent v0 s1.dev.disk cs e.size).take n), t4) ∧
                t4.dev.disk = (run s1 (ops.take j)).1.dev.disk ∧ t4.dev.wlog = t0.dev.wlog)) := by
  have hg : WFGeom v0 := h0.symm.wfGeom hI.1.med.geom
  have hb := hI.1.med.blocksOK
  obtain ⟨Ls, hR, ghE, hIE, hgE⟩ := C04Hist.history_licensed v0 ops s1 gh1 hI h0 hc
  refine ⟨Ls, hR, fun hnn => ⟨fun dk hk => ?_, ?_⟩⟩
  · obtain ⟨hbk, hFk, hraw, hfc⟩ := Lemmas.Survive.flushed_at_crash hg hR hb e cs hF hin hsreg hal hnn dk hk
    refine ⟨hbk, hFk.slot, ?_, hFk.chain, hraw, hfc⟩
    rw [hFk.slot]
    exact Lemmas.Reopen.decode_serialize v0.fatType e hst
  · intro h16 hb1 hb2 ho hn0 hn5 hlfn hplain hfit idx vm hm hsg j
    have hst16 : Lemmas.Reopen.Storable .fat16 e := by rw [← h16]; exact hst
    -- the invariant at the boundary
    obtain ⟨ghj, hIj, hgj⟩ : ∃ gh, VolInv (run s1 (ops.take j)).1 gh ∧ SameGeom v0 gh.vol := by
      by_cases hj : j < ops.length
      · exact Lemmas.Survive.runLicensed_inv hR j hj
      · rw [List.take_of_length_le (by omega)]
        exact ⟨ghE, hIE.1, hgE⟩
    exact Lemmas.Survive.flushed_boundary_read hg h16 hR hb e cs hF hst16 hn0 hn5 hlfn hplain hb1 hb2 hal ho hin hfit hnn
      idx vm hm hsg j ghj hIj hgj

/-! ### 4. The independent reader -/

/-- **`spec_reader_survives`**: under the hypotheses of `flushed_file_survives_partial`, `g` the checker's geometry of
`v0` and no FAT32 entry of the file's chain being the reserved value 1 (`ProperEnds`), at EVERY crash point of the
history the independent reader `Spec.Fs` sees the flushed file: a reader slot with the 32 bytes at the file's position
has the record's name, attributes, first cluster and size; the reader's chain walk from that cluster gives `cs`; the
reader's file bytes for that chain and size are the flushed contents. -/
theorem spec_reader_survives (v0 : FatVolume) (s1 : Mgr) (gh1 : Ghost) (hI : VolInvM s1 gh1) (h0 : SameGeom v0 gh1.vol)
    (ops : List Op) (hc : CoveredAllRun v0 s1 ops) (e : DirEntry) (cs : List Nat) (hF : FlushedOn v0 s1.dev.disk e cs)
    (hst : Lemmas.Reopen.Storable v0.fatType e) (hsreg : regionOf v0 e.entryBlock = .root ∨ regionOf v0 e.entryBlock = .data)
    (hal : e.entryOffset % 32 = 0) (hin : ∀ c, c ∈ cs → InRange v0 c)
    (g : Fs.Geom) (hgm : C02Reopen.GeomOf v0 g) (hp : C02Reopen.ProperEnds v0 s1.dev.disk cs) :
    ∃ Ls, RunLicensed v0 s1 ops Ls ∧ ((∀ L, L ∈ Ls → NotNamed v0 L e.entryBlock e.entryOffset cs) →
      ∀ dk, HistCrash s1 ops dk → ∀ sl : Fs.Slot, sl.bytes = slice (dk.get e.entryBlock) e.entryOffset 32 →
        Fs.nameOf sl = e.name ∧ Fs.attrOf sl = e.attributes ∧ Fs.clusterOf g sl = e.cluster ∧ Fs.sizeOf sl = e.size ∧
        (cs ≠ [] → Fs.chain g dk (Fs.clusterOf g sl) = .ok cs) ∧
        Fs.fileBytes g dk cs (Fs.sizeOf sl) = fileContent v0 s1.dev.disk cs e.size) := by
  have hg : WFGeom v0 := h0.symm.wfGeom hI.1.med.geom
  obtain ⟨Ls, hR, _⟩ := C04Hist.history_licensed v0 ops s1 gh1 hI h0 hc
  refine ⟨Ls, hR, fun hnn dk hk sl hsl => ?_⟩
  obtain ⟨hbk, hFk, hraw, hfc⟩ := Lemmas.Survive.flushed_at_crash hg hR hI.1.med.blocksOK e cs hF hin hsreg hal hnn dk hk
  have := Lemmas.Survive.spec_reader_on v0 hg g hgm dk hbk e cs hst hFk hin
    (fun x hx h32 => by rw [hraw x hx]; exact hp x hx h32) sl hsl
  rw [hfc] at this
  exact this

/-! ### Non-vacuity -/

namespace Example
open Sdmmc.Props.C02Reopen.Example

/-- The state of `Props.C02Reopen.Example`: the smallest FAT16 volume in partition 0 of a medium, the file `A.TXT` of the
root directory open (handle 7) and dirty — 600 bytes in clusters 2 → 3 while the medium still holds the entry of the
empty file.  Ghost: one chain, no sub-directory. -/
def ghA : Ghost := { vol := vol, G := [[2, 3]], dirs := [] }

theorem invA : VolInv mgr ghA := Lemmas.VolCheck.checkVolInv_sound mgr ghA (by decide +kernel)

theorem mirrorA (d : Disk) : Mirror vol d := fun c _ b2 h => by
  have : (none : Option Nat) = some b2 := h
  cases this

theorem invMA : VolInvM mgr ghA := ⟨invA, mirrorA _⟩

/-- The state the close leaves. -/
@[irreducible] def s1 : Mgr := (step mgr (.closeFile 7)).1

theorem s1_def : s1 = (step mgr (.closeFile 7)).1 := by unfold s1; rfl

theorem close_ok : (step mgr (.closeFile 7)).2.result = .ok .unit ∧ FlushedOn vol s1.dev.disk entry [2, 3] ∧
    ∀ n, fileContent vol s1.dev.disk [2, 3] n = fileContent vol disk [2, 3] n :=
  by rw [s1_def]; exact close_establishes mgr ghA invA 7 0 file handle_found rfl rfl

theorem inv1 : ∃ gh1, VolInvM s1 gh1 ∧ SameGeom vol gh1.vol :=
  by rw [s1_def]; exact C04Hist.step_invariantM vol mgr (.closeFile 7) ghA invMA (SameGeom.refl _) trivial

theorem mount1 : mountPure (s1.dev.disk.get 0) 0 s1.dev.disk.get = .ok vol0 := by decide +kernel

/-- Calls after the close that can only have the empty licence: a lookup, a listing, a query through the handle that is
no longer open, opening the root directory again. -/
def after : List Op := [.find 5 nameStr, .list 5, .length 7, .openRoot 3, .hasOpen]

theorem after_covered : CoveredAllRun vol s1 after :=
  C03Inv.coveredAllRun_of_coveredRun vol (by refine ⟨trivial, trivial, trivial, trivial, trivial, trivial⟩)

theorem content_B : fileContent vol disk [2, 3] entry.size = B := by decide +kernel

theorem storableA : Lemmas.Reopen.Storable vol.fatType entry := ⟨by decide, by decide, by decide, (by show entry.cluster < 65536; decide), by decide⟩

/-- **The property on the example.**  After the successful close of `A.TXT`, at EVERY crash point of the history `after`
the medium shows the flushed entry and the 600 flushed bytes `B`; and after every call of it a fresh manager mounts
partition 0, opens the root directory, opens "A.TXT" and reads `B`. -/
example : ∃ Ls, RunLicensed vol s1 after Ls ∧ (∀ L, L ∈ Ls → NotNamed vol L 18 0 [2, 3]) ∧
    (∀ dk, HistCrash s1 after dk →
      Lemmas.Listing.decode .fat16 (18, 0, slice (dk.get 18) 0 32) = Lemmas.Reopen.stored entry ∧
      Chain vol dk 2 [2, 3] ∧ fileContent vol dk [2, 3] 600 = B) ∧
    ∀ (j : Nat) (t0 : Mgr), MgrOK t0 → t0.dev.disk = (run s1 (after.take j)).1.dev.disk → t0.vols = [] → t0.dirs = [] →
      t0.files = [] → 0 < t0.maxVols → 0 < t0.maxDirs → 0 < t0.maxFiles → t0.nextId + 2 < 4294967296 →
      ∃ t1 t2 t3, openRawVolume 0 t0 = (.ok t0.nextId, t1) ∧ openRootDir t0.nextId t1 = (.ok (t0.nextId + 1), t2) ∧
        openFileInDir (t0.nextId + 1) nameStr .ReadOnly t2 = (.ok (t0.nextId + 2), t3) ∧
        fileLength (t0.nextId + 2) t3 = (.ok 600, t3) ∧
        ∀ n, ∃ t4, read (t0.nextId + 2) n t3 = (.ok (B.take n), t4) := by
  obtain ⟨gh1, hI1, hg1⟩ := inv1
  obtain ⟨Ls, hR, himp⟩ := flushed_file_survives_partial vol s1 gh1 hI1 hg1 after after_covered entry [2, 3] close_ok.2.1
    storableA (.inl (by decide)) (by decide) (by decide)
  have hnn : ∀ L, L ∈ Ls → NotNamed vol L entry.entryBlock entry.entryOffset [2, 3] := by
    intro L hL
    obtain ⟨k, op, gh', hk, _, _, hl⟩ := Lemmas.WriteSetInv.runLicensed_nth hR L hL
    generalize (run s1 (after.take k)).1 = t at hl
    have hnone : L = Licence.none := by
      match k, hk with
      | 0, hk => cases hk; cases hl; rfl
      | 1, hk => cases hk; cases hl; rfl
      | 2, hk => cases hk; cases hl; rfl
      | 3, hk => cases hk; cases hl; rfl
      | 4, hk => cases hk; cases hl; rfl
      | k + 5, hk => cases hk
    rw [hnone]
    exact ⟨(fun _ _ h => nomatch h), (fun _ h => nomatch h), (fun _ h => nomatch h), (fun _ h => nomatch h)⟩
  obtain ⟨ha, hbc⟩ := himp hnn
  have hB : fileContent vol s1.dev.disk [2, 3] 600 = B := by rw [close_ok.2.2 600]; exact content_B
  refine ⟨Ls, hR, hnn, fun dk hk => ?_, fun j t0 a1 a2 a3 a4 a5 a6 a7 a8 a9 => ?_⟩
  · obtain ⟨_, _, hdec, hch, _, hfc⟩ := ha dk hk
    refine ⟨hdec, ?_, by rw [hfc 600]; exact hB⟩
    rcases hch with ⟨h2, _⟩ | hch
    · exact absurd h2 (by decide)
    · exact hch
  · obtain ⟨_, hrd⟩ := hbc rfl (by decide) (by decide) (by decide) (by decide) (by decide) (by decide) (by decide) (by decide)
      0 vol0 mount1 ⟨_, _, (sameGeom : vol = _)⟩ j
    obtain ⟨t1, t2, t3, g1, g2, g3, _, _, g6, g7⟩ := hrd t0 nameStr a1 a2 a3 a4 a5 a6 a7 a8 a9 (by decide)
    refine ⟨t1, t2, t3, g1, g2, g3, g6, fun n => ?_⟩
    obtain ⟨t4, hr, _, _⟩ := g7 n
    exact ⟨t4, by rw [← hB]; exact hr⟩

/-- A call that does write — creating `B.TXT` in the same directory: at both crash points of its single block write
the slot of `A.TXT` holds the flushed entry (evaluated). -/
example : ∀ k, k ≤ 1 → slice ((crashDisk s1.dev.disk (step s1 (.openFile 5 [0x42, 0x2E, 0x54, 0x58, 0x54] .ReadWriteCreate)).2.writes k).get 18)
    0 32 = entry.serialize .fat16 := by decide +kernel

end Example

end Sdmmc.Props.C09Hist
