/-
C09 over whole histories — "Once flush or close of a file has returned success, cutting power after any later block
write — during any subsequent operation on other files, directories or the volume — and mounting the medium afresh
shows that file with at least the flushed length and exactly the flushed contents, until the file itself is next
modified, truncated or deleted."

Property theorems only; proofs in `Sdmmc.Lemmas.Survive*` (`SurviveFrame`: crash points, prefix-closed licences, the
frame at every crash point; `SurviveFile`: first hit from clean tail + distinct names, mounting across the frame;
`SurviveRead`: the fresh reader; `SurviveClose`: what flush / close leave on the medium, the independent reader;
`SurviveMain`; `SurviveAbs`: the file slot in the abstract file system of `Props/C01Fs`; `SurviveNamed`, `SurviveNamed2`:
every licence of a call that does not target the file is `NotNamed` for it; `SurviveTrack`, `SurviveTrack2`,
`SurviveStep`: one call; `SurviveRoot`: the root directory of a crashed medium and the reader; `SurviveFinal`: crash
points, histories, the syntactic criteria; `SurviveEstablish`: `close_file` establishes the invariant) on top of
`Props/C04Hist.lean` (`VolInvM`, `LicenceFor`, `RunLicensed`, `NotNamed`, `Covers`), `Props/C03Inv.lean` (`VolInv`,
`CoveredAllRun`), `Props/C10Inv.lean` (`VolInvC`, `CrashInv` at every crash point, mounting), `Props/C01Fs.lean` (the
abstract file system) and `Props/C02Reopen.lean` (the reader).

CRASH POINTS.  `HistCrash s ops dk` (`histCrash_iff`): `dk` is the medium of the state some call `ops[j]` of the
history is issued in with the first `k` device writes of that call applied (`Spec.crashDisk`) — every medium a power
cut during the history can leave (`k = 0`: a call boundary; `k ≥` the number of writes: the boundary after the call).

STATUS: PROVED for files of the ROOT directory, FAT16 and FAT32, after `close_file`, at EVERY crash point, with a
syntactic criterion.  Residue (stated plainly below): sub-directory files get (a) but not (b), (c); the `flush_file`
case keeps the semantic hypothesis.

WHAT IS PROVED.
1. `licensed_prefix_closed`, `step_crash_licensed`, `crash_frame`, `history_crash_frame`: the first `k` writes of a
   call are licensed by the call's licence; a byte no licence covers is unchanged at every crash point.
2. `unnamed_object_survives_crashes`: an object no licence of the history names is unchanged at EVERY crash point.
3. `flush_establishes`, `close_establishes`, `flushed_entry_facts`; `flushed_file_survives_partial` (kept: the version
   with the SEMANTIC hypothesis "no licence names the file"; (b), (c) only at call boundaries of FAT16 root files).
4. `spec_reader_survives` (semantic hypothesis), `spec_reader_survives_syntactic` (criterion below).
5. THE FULL STATEMENT.
   * `Kept v0 e cs h s gh` (`kept_def`): `s` satisfies the invariant (FAT copies identical), its medium shows the flushed
     entry `e` with chain `cs`, the slot is a file object of directory `h`, and no open file at the slot has unflushed
     changes.  `close_establishes_kept`: a successful `close_file` of a handle that was written to leaves such a state,
     with no handle at the slot.
   * The criterion.  `Targets s h N pos op` (`targets_def`): `op` is `open_file_in_dir` of (a spelling of) the name `N`
     through a handle of directory `h` in a TRUNCATING mode, or `delete_file_in_dir` of it, or `write` through a handle
     (not a read-only one) of an open file at the slot.  `Untouched` (`untouched_def`): no call of the history targets
     the file in the state it is issued in — this is "until the file itself is next modified, truncated or deleted".
     Opening the file `ReadOnly` — or even for appending, as long as nothing is written —, reading it, and everything
     that happens to other files, directories and the volume is allowed.
     `untouched_of_never_opened`: if only read-only handles sit at the slot (none after a close) it suffices that no
     call opens the name in that directory in a mode other than `ReadOnly` or deletes it (`NeverOpened`);
     `never_opened_of_never_names`: for which it suffices that the LIST OF CALLS contains no `open_file_in_dir` in a
     mode other than `ReadOnly` and no `delete_file_in_dir` of any spelling of the name (`NeverNames`, purely syntactic).
   * `notNamed_of_syntactic` (every directory, FAT16/FAT32): from `Kept`, along a covered `Untouched` history, EVERY
     licence of the history is `NotNamed` for the file.  (Needed for it, and added to `LicenceFor` in
     `Lemmas/WriteSetInv.lean`: a created entry takes a FREE slot, the clusters a `write` appends were in no chain,
     `delete` / truncate name a CLOSED object, `flush` / `close` write only when the handle was written to, `write`
     writes only through a handle that is not read-only, the cluster a full directory grows by is free.)
   * `flushed_file_intact` — (a) at EVERY crash point for a file of ANY directory (root or sub-directory).
   * **`flushed_file_survives`** — root-directory files, FAT16 and FAT32, EVERY crash point: (a), (b) first hit in the
     root directory of the crashed medium (on FAT32 the root chain of the crashed medium continues the one before),
     (c) the crashed medium mounts and ANY fresh manager mounts, opens the root directory, opens the file by any
     spelling of its name and reads exactly the flushed contents, length included.  Uses `Props.C10Inv`: every crash
     point is crash-consistent (`CrashInv`: clean tails and distinct names of the root directory of the crashed medium)
     and mounts.
   * **`closed_file_survives`** — the same from the `close_file` call itself with the purely syntactic `NeverNames`.
   HYPOTHESES, all explicit: `VolInvC` at the start (invariant of API histories, identical FAT copies, `RawOK` —
   `Props.C10Inv`); covered history (`CoveredAllRun`: by `Props/C03All` only the `open_volume` clause is a
   restriction); the medium mounts at the start; the entry is `Storable` (provided by `flushed_entry_facts`);
   `ProperEnds` only for the independent reader on FAT32 (as in `Props/C02Reopen`).

WHAT IS NOT PROVED (residue).
* (b), (c) for files of SUB-DIRECTORIES: (a) holds for them at every crash point (`flushed_file_intact`), and the
  machinery of one call (`Lemmas.Survive.kept_step`) is directory-generic, but "first hit" and the reader at crash points
  strictly inside a call need the sub-directory to be a directory of the crashed medium's ghost (`CrashInv` is stated
  with `∃ gh'`, and says nothing of which sub-directories it has) and the path from the root to be walked with
  `open_dir`; neither is done.
* The `flush_file` case with the handle left open: the crate never clears `dirty` (a handle that was written to stays
  dirty after `flush_file`), so a later `flush_file` / `close_file` of the same handle stores the entry AGAIN.  The bytes
  are the same if nothing was written in between, but the licences say only which slot a call may change, not what it
  writes there; `Kept` therefore asks for a clean (or no) handle at the slot, which a successful `close_file` provides and
  `flush_file` does not.  For `flush_file` the semantic form `flushed_file_survives_partial` remains.
-/
import Sdmmc.Lemmas.SurviveEstablish
import Sdmmc.Props.C04Hist
import Sdmmc.Props.C02Reopen
import Sdmmc.Props.C10Inv
import Sdmmc.Props.C01Fs
import Sdmmc.Props.C03All

namespace Sdmmc.Props.C09Hist
open Sdmmc.Model Sdmmc.Model.Fat Sdmmc.Spec.Volume
open Sdmmc.Spec hiding run step NoFault Coherent
open Sdmmc.Props.C03Inv (Covered CoveredAll CoveredAllRun)
open Sdmmc.Props.C04Hist (VolInvM)
open Sdmmc.Lemmas.WriteSetInv (LicenceFor RunLicensed Covers NotNamed)
open Sdmmc.Lemmas.Survive (HistCrash FlushedOn Kept Obj Targets Untouched Modifies NeverOpened NeverNames slotOf)
open Sdmmc.Lemmas.ReadRefines (MgrOK)
open Sdmmc.Lemmas.VolTree (fkey spos)

/-! ### Crash points -/

/-- `HistCrash s ops dk`: `dk` is the medium of the state the `j`-th call is issued in with the first `k` device
writes of that call applied — for some `j`, `k`. -/
theorem histCrash_iff (s : Mgr) (ops : List Op) (dk : Disk) : HistCrash s ops dk ↔
    ∃ j op k, ops[j]? = some op ∧
      dk = crashDisk (run s (ops.take j)).1.dev.disk (step (run s (ops.take j)).1 op).2.writes k :=
  Lemmas.Survive.histCrash_iff s ops dk

theorem flushedOn_def (v : FatVolume) (d : Disk) (e : DirEntry) (cs : List Nat) : FlushedOn v d e cs ↔
    slice (d.get e.entryBlock) e.entryOffset 32 = e.serialize v.fatType ∧
    ((e.cluster < 2 ∧ cs = [] ∧ e.size = 0) ∨ Chain v d e.cluster cs) :=
  ⟨fun h => ⟨h.slot, h.chain⟩, fun h => ⟨h.1, h.2⟩⟩

/-! ### 1. Licences at crash points -/

/-- A prefix of a licensed list of writes is licensed. -/
theorem licensed_prefix_closed (v : FatVolume) (L : Licence) (ws : List (Nat × Block)) (d : Disk) (k : Nat)
    (h : AllLicensed v d L ws) : AllLicensed v d L (ws.take k) :=
  Lemmas.Survive.allLicensed_take ws d k h

/-- **`step_crash_licensed`**: under the invariant, for every `k`, the first `k` writes of a covered call are licensed
by the call's licence. -/
theorem step_crash_licensed (s : Mgr) (gh : Ghost) (op : Op) (hI : VolInvM s gh) (hc : Covered s op) :
    ∃ L, LicenceFor gh s.files s.dirs s.dev.disk op L ∧
      ∀ k, AllLicensed gh.vol s.dev.disk L ((step s op).2.writes.take k) := by
  obtain ⟨L, h1, h2, _⟩ := C04Hist.step_licensed s gh op hI hc
  exact ⟨L, h1, fun k => Lemmas.Survive.allLicensed_take _ _ k h2⟩

/-- **`crash_frame`**: a byte the licence of the call does not cover is unchanged at EVERY crash point of the call. -/
theorem crash_frame (s : Mgr) (gh : Ghost) (op : Op) (hI : VolInvM s gh) (hc : Covered s op) :
    ∃ L, LicenceFor gh s.files s.dirs s.dev.disk op L ∧
      ∀ b i, ¬ Covers gh.vol L b i → ∀ k,
        ((crashDisk s.dev.disk (step s op).2.writes k).get b).getD i 0 = (s.dev.disk.get b).getD i 0 := by
  obtain ⟨L, h1, h2, _⟩ := C04Hist.step_licensed s gh op hI hc
  exact ⟨L, h1, fun b i hn k => Lemmas.Survive.crash_frame h2 hn k⟩

/-- **`history_crash_frame`**: a byte that no licence of the history covers is unchanged at every crash point inside
any call of the history. -/
theorem history_crash_frame (v0 : FatVolume) (ops : List Op) (s : Mgr) (Ls : List Licence) (hR : RunLicensed v0 s ops Ls)
    (b i : Nat) (hn : ∀ L, L ∈ Ls → ¬ Covers v0 L b i) (dk : Disk) (hk : HistCrash s ops dk) :
    (dk.get b).getD i 0 = (s.dev.disk.get b).getD i 0 :=
  Lemmas.Survive.runLicensed_crash_frame hR hn dk hk

/-! ### 2. Unnamed objects at crash points -/

/-- **`unnamed_object_survives_crashes`**: an object — its slot at byte `so` (a multiple of 32) of the directory block
`sb`, its clusters `cs` — that no licence of the history names has, at EVERY crash point of the history, 512-byte
blocks around it, its 32 slot bytes, the FAT entries of its clusters, its `Chain` and its `chainBytes` identical to
the start. -/
theorem unnamed_object_survives_crashes (v0 : FatVolume) (ops : List Op) (s : Mgr) (gh : Ghost) (hI : VolInvM s gh)
    (h0 : SameGeom v0 gh.vol) (hc : CoveredAllRun v0 s ops) :
    ∃ Ls, RunLicensed v0 s ops Ls ∧
      ∀ (sb so : Nat) (cs : List Nat), (∀ c, c ∈ cs → InRange v0 c) →
        (regionOf v0 sb = .root ∨ regionOf v0 sb = .data) → so % 32 = 0 →
        (∀ L, L ∈ Ls → NotNamed v0 L sb so cs) → ∀ dk, HistCrash s ops dk →
        BlocksOK dk ∧ slice (dk.get sb) so 32 = slice (s.dev.disk.get sb) so 32 ∧
        (∀ x, x ∈ cs → fatRaw v0 dk x = fatRaw v0 s.dev.disk x) ∧
        (∀ c, Chain v0 s.dev.disk c cs → Chain v0 dk c cs) ∧
        chainBytes v0 dk cs = chainBytes v0 s.dev.disk cs := by
  obtain ⟨Ls, hR, _⟩ := C04Hist.history_licensed v0 ops s gh hI h0 hc
  exact ⟨Ls, hR, fun sb so cs hin hsreg hso hnn dk hk =>
    Lemmas.Survive.unnamed_object_at_crash (h0.symm.wfGeom hI.1.med.geom) hR hI.1.med.blocksOK sb so cs hin hsreg hso hnn dk hk⟩

/-! ### 3. The flushed file -/

/-- What the invariant says about the record `f` of an open file (chain `chainOf gh.G f.entry.cluster`): the entry can
be stored; its name starts neither with `0x00` nor `0xE5`; it is a plain short entry; its slot is an aligned slot of a
directory block that is no block of the file's own clusters; the clusters of its chain are data clusters; the chain
is long enough for the size. -/
theorem flushed_entry_facts (s : Mgr) (gh : Ghost) (hI : VolInv s gh) (f : FileInfo) (hfm : f ∈ s.files) :
    Lemmas.Reopen.Storable gh.vol.fatType f.entry ∧ byteAt f.entry.name 0 ≠ 0 ∧ byteAt f.entry.name 0 ≠ 0xE5 ∧
    f.entry.attributes % 16 ≠ 15 ∧ Attr.isDirectory f.entry.attributes = false ∧
    (regionOf gh.vol f.entry.entryBlock = .root ∨ regionOf gh.vol f.entry.entryBlock = .data) ∧
    f.entry.entryOffset % 32 = 0 ∧ f.entry.entryOffset + 32 ≤ 512 ∧
    (∀ c, c ∈ chainOf gh.G f.entry.cluster → InRange gh.vol c) ∧
    f.entry.size ≤ (chainOf gh.G f.entry.cluster).length * clusterBytesLen gh.vol ∧
    (∀ c, c ∈ chainOf gh.G f.entry.cluster → ∀ j, j < gh.vol.blocksPerCluster →
      clusterToBlock gh.vol c + j ≠ f.entry.entryBlock) :=
  Lemmas.Survive.file_entry_facts hI hfm

/-- **`close_file` of a dirty file returns success and leaves the flushed file on the medium**: the slot holds the
serialised record, the chain of the record's first cluster is `chainOf gh.G f.entry.cluster`, and the contents are
what they were before the call. -/
theorem close_establishes (s : Mgr) (gh : Ghost) (hI : VolInv s gh) (h i : Nat) (f : FileInfo)
    (hidx : s.files.findIdx? (·.rawFile = h) = some i) (hf : s.files[i]? = some f) (hd : f.dirty = true) :
    (step s (.closeFile h)).2.result = .ok .unit ∧
    FlushedOn gh.vol (step s (.closeFile h)).1.dev.disk f.entry (chainOf gh.G f.entry.cluster) ∧
    ∀ n, fileContent gh.vol (step s (.closeFile h)).1.dev.disk (chainOf gh.G f.entry.cluster) n =
      fileContent gh.vol s.dev.disk (chainOf gh.G f.entry.cluster) n :=
  Lemmas.Survive.close_step_flushed hI hidx hf hd

/-- The same for `flush_file` (the handle stays open). -/
theorem flush_establishes (s : Mgr) (gh : Ghost) (hI : VolInv s gh) (h i : Nat) (f : FileInfo)
    (hidx : s.files.findIdx? (·.rawFile = h) = some i) (hf : s.files[i]? = some f) (hd : f.dirty = true) :
    (step s (.flush h)).2.result = .ok .unit ∧
    FlushedOn gh.vol (step s (.flush h)).1.dev.disk f.entry (chainOf gh.G f.entry.cluster) ∧
    ∀ n, fileContent gh.vol (step s (.flush h)).1.dev.disk (chainOf gh.G f.entry.cluster) n =
      fileContent gh.vol s.dev.disk (chainOf gh.G f.entry.cluster) n :=
  Lemmas.Survive.flush_step_flushed hI hidx hf hd

/-- **`flushed_file_survives_partial`.**  `s1` satisfies the invariant (FAT copies identical); its medium shows the
flushed file: entry `e` (storable, a plain short entry, slot in an aligned slot of a directory block), clusters `cs`
(`close_establishes` / `flush_establishes` and `flushed_entry_facts` provide all of this after a successful close or
flush).  `ops` is any covered history from `s1`, `Ls` its licences.  If no licence names the file, then

(a) at EVERY crash point `dk` of the history: the blocks have 512 bytes, the slot holds the serialised entry and
    decodes to the flushed entry, the chain is `cs`, the FAT entries of `cs` are unchanged, and the contents are
    unchanged for every length;
(b), (c) on a FAT16 volume, for a file whose slot lies in the fixed root region, whose name starts neither with `0x00`
    nor `0xE5` and whose chain fits its size, when the medium of `s1` mounts as partition `idx` with the geometry of
    `v0`: in the state after the first `j` calls, for EVERY `j`, the slot is the first hit for the file's name in the
    root directory, and ANY fresh manager on that medium mounts, opens the root directory, opens the file by any
    spelling `name` of its stored name and reads `(fileContent v0 s1.dev.disk cs e.size).take n` — the flushed
    contents — writing nothing.

Full statement NOT proved: (b), (c) at crash points strictly inside a call, and for FAT32-root / sub-directory files;
see the header. -/
theorem flushed_file_survives_partial (v0 : FatVolume) (s1 : Mgr) (gh1 : Ghost) (hI : VolInvM s1 gh1) (h0 : SameGeom v0 gh1.vol)
    (ops : List Op) (hc : CoveredAllRun v0 s1 ops) (e : DirEntry) (cs : List Nat) (hF : FlushedOn v0 s1.dev.disk e cs)
    (hst : Lemmas.Reopen.Storable v0.fatType e) (hsreg : regionOf v0 e.entryBlock = .root ∨ regionOf v0 e.entryBlock = .data)
    (hal : e.entryOffset % 32 = 0) (hin : ∀ c, c ∈ cs → InRange v0 c) :
    ∃ Ls, RunLicensed v0 s1 ops Ls ∧ ((∀ L, L ∈ Ls → NotNamed v0 L e.entryBlock e.entryOffset cs) →
      (∀ dk, HistCrash s1 ops dk →
        BlocksOK dk ∧ slice (dk.get e.entryBlock) e.entryOffset 32 = e.serialize v0.fatType ∧
        Lemmas.Listing.decode v0.fatType (e.entryBlock, e.entryOffset, slice (dk.get e.entryBlock) e.entryOffset 32) =
          Lemmas.Reopen.stored e ∧
        ((e.cluster < 2 ∧ cs = [] ∧ e.size = 0) ∨ Chain v0 dk e.cluster cs) ∧
        (∀ x, x ∈ cs → fatRaw v0 dk x = fatRaw v0 s1.dev.disk x) ∧
        ∀ n, fileContent v0 dk cs n = fileContent v0 s1.dev.disk cs n) ∧
      (v0.fatType = .fat16 → v0.lbaStart + v0.firstRootDirBlock ≤ e.entryBlock →
        e.entryBlock < v0.lbaStart + v0.firstRootDirBlock + blockCountFromBytes (v0.rootEntriesCount * 32) →
        e.entryOffset + 32 ≤ 512 → byteAt e.name 0 ≠ 0 → byteAt e.name 0 ≠ 0xE5 → e.attributes % 16 ≠ 15 →
        Attr.isDirectory e.attributes = false → e.size ≤ cs.length * clusterBytesLen v0 →
        ∀ (idx : Nat) (vm : FatVolume), mountPure (s1.dev.disk.get 0) idx s1.dev.disk.get = .ok vm → SameGeom vm v0 →
        ∀ j,
          Lemmas.Reopen.FirstHit (Lemmas.Reopen.dirSlotsOf v0 (run s1 (ops.take j)).1.dev.disk 0xFFFFFFFC []) e.name
            (e.entryBlock, e.entryOffset, slice ((run s1 (ops.take j)).1.dev.disk.get e.entryBlock) e.entryOffset 32) ∧
          ∀ (t0 : Mgr) (name : List Nat), MgrOK t0 → t0.dev.disk = (run s1 (ops.take j)).1.dev.disk → t0.vols = [] →
            t0.dirs = [] → t0.files = [] → 0 < t0.maxVols → 0 < t0.maxDirs → 0 < t0.maxFiles →
            t0.nextId + 2 < 4294967296 → Sfn.createFromStr name = .ok e.name →
            ∃ t1 t2 t3, openRawVolume idx t0 = (.ok t0.nextId, t1) ∧
              openRootDir t0.nextId t1 = (.ok (t0.nextId + 1), t2) ∧
              openFileInDir (t0.nextId + 1) name .ReadOnly t2 = (.ok (t0.nextId + 2), t3) ∧
              t3.dev.disk = (run s1 (ops.take j)).1.dev.disk ∧ t3.dev.wlog = t0.dev.wlog ∧
              fileLength (t0.nextId + 2) t3 = (.ok e.size, t3) ∧
              ∀ n, ∃ t4, read (t0.nextId + 2) n t3 = (.ok ((fileContent v0 s1.dev.disk cs e.size).take n), t4) ∧
                t4.dev.disk = (run s1 (ops.take j)).1.dev.disk ∧ t4.dev.wlog = t0.dev.wlog)) := by
  have hg : WFGeom v0 := h0.symm.wfGeom hI.1.med.geom
  have hb := hI.1.med.blocksOK
  obtain ⟨Ls, hR, ghE, hIE, hgE⟩ := C04Hist.history_licensed v0 ops s1 gh1 hI h0 hc
  refine ⟨Ls, hR, fun hnn => ⟨fun dk hk => ?_, ?_⟩⟩
  · obtain ⟨hbk, hFk, hraw, hfc⟩ := Lemmas.Survive.flushed_at_crash hg hR hb e cs hF hin hsreg hal hnn dk hk
    refine ⟨hbk, hFk.slot, ?_, hFk.chain, hraw, hfc⟩
    rw [hFk.slot]
    exact Lemmas.Reopen.decode_serialize v0.fatType e hst
  · intro h16 hb1 hb2 ho hn0 hn5 hlfn hplain hfit idx vm hm hsg j
    have hst16 : Lemmas.Reopen.Storable .fat16 e := by rw [← h16]; exact hst
    -- the invariant at the boundary
    obtain ⟨ghj, hIj, hgj⟩ : ∃ gh, VolInv (run s1 (ops.take j)).1 gh ∧ SameGeom v0 gh.vol := by
      by_cases hj : j < ops.length
      · exact Lemmas.Survive.runLicensed_inv hR j hj
      · rw [List.take_of_length_le (by omega)]
        exact ⟨ghE, hIE.1, hgE⟩
    exact Lemmas.Survive.flushed_boundary_read hg h16 hR hb e cs hF hst16 hn0 hn5 hlfn hplain hb1 hb2 hal ho hin hfit hnn
      idx vm hm hsg j ghj hIj hgj

/-! ### 4. The independent reader -/

/-- **`spec_reader_survives`**: under the hypotheses of `flushed_file_survives_partial`, `g` the checker's geometry of
`v0` and no FAT32 entry of the file's chain being the reserved value 1 (`ProperEnds`), at EVERY crash point of the
history the independent reader `Spec.Fs` sees the flushed file: a reader slot with the 32 bytes at the file's position
has the record's name, attributes, first cluster and size; the reader's chain walk from that cluster gives `cs`; the
reader's file bytes for that chain and size are the flushed contents. -/
theorem spec_reader_survives (v0 : FatVolume) (s1 : Mgr) (gh1 : Ghost) (hI : VolInvM s1 gh1) (h0 : SameGeom v0 gh1.vol)
    (ops : List Op) (hc : CoveredAllRun v0 s1 ops) (e : DirEntry) (cs : List Nat) (hF : FlushedOn v0 s1.dev.disk e cs)
    (hst : Lemmas.Reopen.Storable v0.fatType e) (hsreg : regionOf v0 e.entryBlock = .root ∨ regionOf v0 e.entryBlock = .data)
    (hal : e.entryOffset % 32 = 0) (hin : ∀ c, c ∈ cs → InRange v0 c)
    (g : Fs.Geom) (hgm : C02Reopen.GeomOf v0 g) (hp : C02Reopen.ProperEnds v0 s1.dev.disk cs) :
    ∃ Ls, RunLicensed v0 s1 ops Ls ∧ ((∀ L, L ∈ Ls → NotNamed v0 L e.entryBlock e.entryOffset cs) →
      ∀ dk, HistCrash s1 ops dk → ∀ sl : Fs.Slot, sl.bytes = slice (dk.get e.entryBlock) e.entryOffset 32 →
        Fs.nameOf sl = e.name ∧ Fs.attrOf sl = e.attributes ∧ Fs.clusterOf g sl = e.cluster ∧ Fs.sizeOf sl = e.size ∧
        (cs ≠ [] → Fs.chain g dk (Fs.clusterOf g sl) = .ok cs) ∧
        Fs.fileBytes g dk cs (Fs.sizeOf sl) = fileContent v0 s1.dev.disk cs e.size) := by
  have hg : WFGeom v0 := h0.symm.wfGeom hI.1.med.geom
  obtain ⟨Ls, hR, _⟩ := C04Hist.history_licensed v0 ops s1 gh1 hI h0 hc
  refine ⟨Ls, hR, fun hnn dk hk sl hsl => ?_⟩
  obtain ⟨hbk, hFk, hraw, hfc⟩ := Lemmas.Survive.flushed_at_crash hg hR hI.1.med.blocksOK e cs hF hin hsreg hal hnn dk hk
  have := Lemmas.Survive.spec_reader_on v0 hg g hgm dk hbk e cs hst hFk hin
    (fun x hx h32 => by rw [hraw x hx]; exact hp x hx h32) sl hsl
  rw [hfc] at this
  exact this


/-! ### 5. The syntactic criterion and the full statement -/

/-- `Kept v0 e cs h s gh`: the state `s` (invariant with ghost `gh`, FAT copies identical, geometry of `v0`) shows the
flushed file — its slot holds the serialised entry `e`, `cs` is its chain —, the slot (`slotOf`: position and 32-byte
image) is a file object of directory number `h` (`0` = root), and no open file that sits at it has unflushed
changes. -/
theorem kept_def (v0 : FatVolume) (e : DirEntry) (cs : List Nat) (h : Nat) (s : Mgr) (gh : Ghost) :
    Kept v0 e cs h s gh ↔
      VolInv s gh ∧ Mirror gh.vol s.dev.disk ∧ SameGeom v0 gh.vol ∧ FlushedOn v0 s.dev.disk e cs ∧
      h ∈ dirIds gh.dirs ∧
      ((e.entryBlock, e.entryOffset, e.serialize v0.fatType) : Slot) ∈ objects h (dirSlots gh.vol s.dev.disk gh.G h) ∧
      isDirE (e.entryBlock, e.entryOffset, e.serialize v0.fatType) = false ∧
      ∀ f, f ∈ s.files → (f.entry.entryBlock, f.entry.entryOffset) = (e.entryBlock, e.entryOffset) → f.dirty = false :=
  ⟨fun hK => ⟨hK.inv, hK.mirror, hK.geom, hK.flushed, hK.obj.dir, hK.obj.mem, hK.obj.file, hK.obj.quiet⟩,
   fun ⟨a, b, c, d, e1, e2, e3, e4⟩ => ⟨a, b, c, d, ⟨e1, e2, e3, e4⟩⟩⟩

/-- `Targets s h N pos op`: the call `op`, issued in state `s`, targets the file named `N` of directory `h` whose slot
sits at `pos`: `open_file_in_dir` of a spelling of `N` through a handle of directory `h` in a TRUNCATING mode,
`delete_file_in_dir` of it, or `write` through a handle (not a read-only one) of an open file that sits at `pos`. -/
theorem targets_def (s : Mgr) (h : Nat) (N : Bytes) (pos : Nat × Nat) :
    (∀ dh name mode, Targets s h N pos (.openFile dh name mode) ↔
      (mode = .ReadWriteTruncate ∨ mode = .ReadWriteCreateOrTruncate) ∧ Sfn.createFromStr name = .ok N ∧
        ∃ dir, dir ∈ s.dirs ∧ dir.rawDirectory = dh ∧ dirIdOf dir.cluster = h) ∧
    (∀ dh name, Targets s h N pos (.delete dh name) ↔
      Sfn.createFromStr name = .ok N ∧ ∃ dir, dir ∈ s.dirs ∧ dir.rawDirectory = dh ∧ dirIdOf dir.cluster = h) ∧
    (∀ hd data, Targets s h N pos (.write hd data) ↔
      ∃ f, f ∈ s.files ∧ f.rawFile = hd ∧ (f.entry.entryBlock, f.entry.entryOffset) = pos ∧ f.mode ≠ .ReadOnly) ∧
    (∀ op, (∀ dh name mode, op ≠ .openFile dh name mode) → (∀ dh name, op ≠ .delete dh name) →
      (∀ hd data, op ≠ .write hd data) → ¬ Targets s h N pos op) := by
  refine ⟨fun _ _ _ => Iff.rfl, fun _ _ => Iff.rfl, fun _ _ => Iff.rfl, ?_⟩
  intro op h1 h2 h3 ht
  cases op with
  | openFile d n m => exact h1 d n m rfl
  | delete d n => exact h2 d n rfl
  | write hd data => exact h3 hd data rfl
  | _ => exact ht

/-- `Untouched h N pos s ops`: no call of the history targets the file in the state it is issued in. -/
theorem untouched_def (h : Nat) (N : Bytes) (pos : Nat × Nat) (s : Mgr) :
    (Untouched h N pos s [] ↔ True) ∧
    ∀ op ops, Untouched h N pos s (op :: ops) ↔ ¬ Targets s h N pos op ∧ Untouched h N pos (step s op).1 ops :=
  ⟨Iff.rfl, fun _ _ => Iff.rfl⟩

theorem fsCoveredRun_of_coveredAllRun (v0 : FatVolume) : ∀ (s : Mgr) (ops : List Op), CoveredAllRun v0 s ops →
    Lemmas.AbsFs.FsCoveredRun v0 s ops
  | _, [], _ => trivial
  | s, op :: ops, h => ⟨C01Fs.fsCovered_of_coveredAll v0 h.1 (fun _ name _ => C03All.name_ok_all name),
      fsCoveredRun_of_coveredAllRun v0 _ ops h.2⟩

/-- **`close_establishes_kept`**: under the invariant (FAT copies identical), `close_file` of a handle that was
written to answers `Ok`, and the state it leaves shows the flushed file (`Kept`) as an object of the directory `h` the
file sat in — entry `f.entry`, chain `chainOf gh.G f.entry.cluster` —, with NO handle left at its slot. -/
theorem close_establishes_kept (v0 : FatVolume) (s : Mgr) (gh : Ghost) (hI : VolInvM s gh) (h0 : SameGeom v0 gh.vol)
    (hd i : Nat) (f : FileInfo) (hidx : s.files.findIdx? (·.rawFile = hd) = some i) (hf : s.files[i]? = some f)
    (hdirty : f.dirty = true) :
    (step s (.closeFile hd)).2.result = .ok .unit ∧
    ∃ h gh1, (∃ o, o ∈ objects h (dirSlots gh.vol s.dev.disk gh.G h) ∧ spos o = fkey f) ∧ h ∈ dirIds gh.dirs ∧
      Kept v0 f.entry (chainOf gh.G f.entry.cluster) h (step s (.closeFile hd)).1 gh1 ∧
      ∀ g, g ∈ (step s (.closeFile hd)).1.files → fkey g ≠ fkey f :=
  Lemmas.Survive.close_kept hI.1 hI.2 h0 hidx hf hdirty

/-- **`notNamed_of_syntactic`** (every directory, FAT16 and FAT32): from a `Kept` state, the licences of a covered
history that never targets the file (`Untouched`) are ALL `NotNamed` for the file — creates take free slots, writes go
to other files' chains and to unused clusters, deletes and truncations name other objects, flushes and closes store
other files' entries, directories grow by free clusters. -/
theorem notNamed_of_syntactic (v0 : FatVolume) (e : DirEntry) (cs : List Nat) (h : Nat) (s : Mgr) (gh : Ghost)
    (hK : Kept v0 e cs h s gh) (hst : Lemmas.Reopen.Storable v0.fatType e) (ops : List Op) (hc : CoveredAllRun v0 s ops)
    (hu : Untouched h e.name (e.entryBlock, e.entryOffset) s ops) :
    ∃ Ls, RunLicensed v0 s ops Ls ∧ ∀ L, L ∈ Ls → NotNamed v0 L e.entryBlock e.entryOffset cs :=
  Lemmas.Survive.kept_runLicensed hst ops s gh hK (fsCoveredRun_of_coveredAllRun v0 s ops hc) hu

/-- If only read-only handles refer to the file (for instance none: it is closed), a history none of whose calls opens
the file in a mode other than `ReadOnly` or deletes it (`NeverOpened`: the name, through a handle of the file's
directory) never targets it. -/
theorem untouched_of_never_opened (v0 : FatVolume) (e : DirEntry) (cs : List Nat) (h : Nat) (s : Mgr) (gh : Ghost)
    (hK : Kept v0 e cs h s gh) (hst : Lemmas.Reopen.Storable v0.fatType e) (ops : List Op) (hc : CoveredAllRun v0 s ops)
    (hro : ∀ f, f ∈ s.files → fkey f = (e.entryBlock, e.entryOffset) → f.mode = .ReadOnly)
    (hn : NeverOpened h e.name s ops) : Untouched h e.name (e.entryBlock, e.entryOffset) s ops :=
  Lemmas.Survive.untouched_of_neverOpened hst ops s gh hK (fsCoveredRun_of_coveredAllRun v0 s ops hc) hro hn

/-- `NeverOpened`, spelled out. -/
theorem neverOpened_def (h : Nat) (N : Bytes) (s : Mgr) :
    (NeverOpened h N s [] ↔ True) ∧
    (∀ op ops, NeverOpened h N s (op :: ops) ↔ ¬ Modifies s h N op ∧ NeverOpened h N (step s op).1 ops) ∧
    (∀ dh name mode, Modifies s h N (.openFile dh name mode) ↔
      mode ≠ .ReadOnly ∧ Sfn.createFromStr name = .ok N ∧ ∃ dir, dir ∈ s.dirs ∧ dir.rawDirectory = dh ∧ dirIdOf dir.cluster = h) ∧
    (∀ dh name, Modifies s h N (.delete dh name) ↔
      Sfn.createFromStr name = .ok N ∧ ∃ dir, dir ∈ s.dirs ∧ dir.rawDirectory = dh ∧ dirIdOf dir.cluster = h) :=
  ⟨Iff.rfl, fun _ _ => Iff.rfl, fun _ _ _ => Iff.rfl, fun _ _ => Iff.rfl⟩

/-- The PURELY SYNTACTIC condition — the list of calls contains no `open_file_in_dir` in a mode other than `ReadOnly`
and no `delete_file_in_dir` of any spelling of the name (`NeverNames`) — implies `NeverOpened`, for every directory and
from every state. -/
theorem never_opened_of_never_names (h : Nat) (N : Bytes) (ops : List Op) (s : Mgr) (hn : NeverNames N ops) :
    NeverOpened h N s ops :=
  Lemmas.Survive.neverOpened_of_neverNames h N ops s hn

theorem neverNames_def (N : Bytes) :
    (NeverNames N [] ↔ True) ∧
    (∀ d name mode ops, NeverNames N (.openFile d name mode :: ops) ↔
      (mode = .ReadOnly ∨ Sfn.createFromStr name ≠ .ok N) ∧ NeverNames N ops) ∧
    (∀ d name ops, NeverNames N (.delete d name :: ops) ↔ Sfn.createFromStr name ≠ .ok N ∧ NeverNames N ops) :=
  ⟨Iff.rfl, fun _ _ _ _ => Iff.rfl, fun _ _ _ => Iff.rfl⟩

/-- **`flushed_file_intact`** — part (a) for a file of ANY directory (root or sub-directory, FAT16 and FAT32): from a
`Kept` state, along a covered history that never targets the file, at EVERY crash point `dk` — inside any call —: the
blocks have 512 bytes, the slot still holds the serialised entry and decodes to the flushed entry, the chain is `cs`,
the FAT entries of `cs` are unchanged, and the contents are unchanged for every length. -/
theorem flushed_file_intact (v0 : FatVolume) (e : DirEntry) (cs : List Nat) (h : Nat) (s1 : Mgr) (gh1 : Ghost)
    (hK : Kept v0 e cs h s1 gh1) (hst : Lemmas.Reopen.Storable v0.fatType e) (ops : List Op) (hc : CoveredAllRun v0 s1 ops)
    (hu : Untouched h e.name (e.entryBlock, e.entryOffset) s1 ops) (dk : Disk) (hk : HistCrash s1 ops dk) :
    BlocksOK dk ∧ slice (dk.get e.entryBlock) e.entryOffset 32 = e.serialize v0.fatType ∧
    Lemmas.Listing.decode v0.fatType (e.entryBlock, e.entryOffset, slice (dk.get e.entryBlock) e.entryOffset 32) =
      Lemmas.Reopen.stored e ∧
    ((e.cluster < 2 ∧ cs = [] ∧ e.size = 0) ∨ Chain v0 dk e.cluster cs) ∧
    (∀ x, x ∈ cs → fatRaw v0 dk x = fatRaw v0 s1.dev.disk x) ∧
    ∀ n, fileContent v0 dk cs n = fileContent v0 s1.dev.disk cs n := by
  obtain ⟨Ls, hR, hnn⟩ := notNamed_of_syntactic v0 e cs h s1 gh1 hK hst ops hc hu
  obtain ⟨_, _, _, _, hreg, hal, _, hin⟩ := hK.facts hst
  have hg : WFGeom v0 := hK.geom.symm.wfGeom hK.inv.med.geom
  obtain ⟨hbk, hFk, hraw, hfc⟩ := Lemmas.Survive.flushed_at_crash hg hR hK.inv.med.blocksOK e cs hK.flushed hin hreg hal hnn dk hk
  refine ⟨hbk, hFk.slot, ?_, hFk.chain, hraw, hfc⟩
  rw [hFk.slot]
  exact Lemmas.Reopen.decode_serialize v0.fatType e hst

/-- **`flushed_file_survives`** — the full statement for a file of the ROOT directory, FAT16 and FAT32.

`s1` satisfies the invariant of API histories with identical FAT copies and `RawOK` (`VolInvC`, `Props.C10Inv`); its
medium shows the flushed file: entry `e` (storable), chain `cs` (`FlushedOn`); the file's slot is a file object of the
root directory, and no open file at that slot has unflushed changes (after a successful `close_file` there is none:
`close_establishes_kept`).  The medium of `s1` mounts as partition `idx` with the geometry of `v0`.  `ops` is ANY covered
history from `s1` that never targets the file (`Untouched`: no `open_file_in_dir` of its name in the root directory in a
truncating mode, no `delete_file_in_dir` of it, no `write` through a handle of it; see `untouched_of_never_opened` and
`never_opened_of_never_names` for the syntactic forms).  Then at EVERY crash point `dk` of the history — the medium
after any number of the block writes of any call —:

(a) the blocks have 512 bytes, the slot holds the serialised entry, the chain is `cs`, and the contents are the flushed
    contents for every length;
(b) the slot is the FIRST HIT for the file's name in the root directory of `dk` (the fixed root region on FAT16; on
    FAT32 the chain `rc` of the root cluster on `dk`, which continues the chain it had);
(c) `dk` mounts as partition `idx`, and ANY fresh manager on `dk` mounts, opens the root directory, opens the file by
    any spelling `name` of its stored name, is told the length `e.size`, and reads
    `(fileContent v0 s1.dev.disk cs e.size).take n` — exactly the flushed contents — writing nothing. -/
theorem flushed_file_survives (v0 : FatVolume) (s1 : Mgr) (gh1 : Ghost) (hI : VolInvC s1 gh1) (h0 : SameGeom v0 gh1.vol)
    (ops : List Op) (hc : CoveredAllRun v0 s1 ops) (e : DirEntry) (cs : List Nat) (hF : FlushedOn v0 s1.dev.disk e cs)
    (hst : Lemmas.Reopen.Storable v0.fatType e)
    (hobj : slotOf v0.fatType e ∈ objects 0 (dirSlots gh1.vol s1.dev.disk gh1.G 0))
    (hplain : Attr.isDirectory e.attributes = false)
    (hq : ∀ f, f ∈ s1.files → fkey f = (e.entryBlock, e.entryOffset) → f.dirty = false)
    (hu : Untouched 0 e.name (e.entryBlock, e.entryOffset) s1 ops)
    (idx : Nat) (vm : FatVolume) (hm : mountPure (s1.dev.disk.get 0) idx s1.dev.disk.get = .ok vm) (hsg : SameGeom vm v0)
    (dk : Disk) (hk : HistCrash s1 ops dk) :
    (BlocksOK dk ∧ slice (dk.get e.entryBlock) e.entryOffset 32 = e.serialize v0.fatType ∧
      ((e.cluster < 2 ∧ cs = [] ∧ e.size = 0) ∨ Chain v0 dk e.cluster cs) ∧
      ∀ n, fileContent v0 dk cs n = fileContent v0 s1.dev.disk cs n) ∧
    (∃ rc, (v0.fatType = .fat16 → rc = []) ∧ (v0.fatType = .fat32 → Chain v0 dk v0.firstRootDirCluster rc) ∧
      Lemmas.Reopen.FirstHit (Lemmas.Reopen.dirSlotsOf v0 dk 0xFFFFFFFC rc) e.name
        (e.entryBlock, e.entryOffset, slice (dk.get e.entryBlock) e.entryOffset 32)) ∧
    ∀ (t0 : Mgr) (name : List Nat), MgrOK t0 → t0.dev.disk = dk → t0.vols = [] → t0.dirs = [] → t0.files = [] →
      0 < t0.maxVols → 0 < t0.maxDirs → 0 < t0.maxFiles → t0.nextId + 2 < 4294967296 →
      Sfn.createFromStr name = .ok e.name →
      ∃ t1 t2 t3, openRawVolume idx t0 = (.ok t0.nextId, t1) ∧
        openRootDir t0.nextId t1 = (.ok (t0.nextId + 1), t2) ∧
        openFileInDir (t0.nextId + 1) name .ReadOnly t2 = (.ok (t0.nextId + 2), t3) ∧
        t3.dev.disk = dk ∧ t3.dev.wlog = t0.dev.wlog ∧
        fileLength (t0.nextId + 2) t3 = (.ok e.size, t3) ∧
        ∀ n, ∃ t4, read (t0.nextId + 2) n t3 = (.ok ((fileContent v0 s1.dev.disk cs e.size).take n), t4) ∧
          t4.dev.disk = dk ∧ t4.dev.wlog = t0.dev.wlog := by
  have hK : Kept v0 e cs 0 s1 gh1 :=
    ⟨hI.inv, hI.mirror, h0, hF, ⟨Lemmas.VolTree.zero_mem_dirIds _, hobj, by rw [Lemmas.Survive.slotOf_isDir _ e hst]; exact hplain, hq⟩⟩
  have hfc := fsCoveredRun_of_coveredAllRun v0 s1 ops hc
  obtain ⟨j, op, k, hj, rfl⟩ := (histCrash_iff s1 ops _).1 hk
  obtain ⟨ghj, L, hKj, hwf, hall, hnn, hav⟩ := Lemmas.Survive.kept_history hst ops s1 gh1 hK hfc hu j op hj
  obtain ⟨⟨ghk, hC⟩, _⟩ := C10Inv.history_crash_invariant v0 ops s1 gh1 hI h0 hc j op hj k
  obtain ⟨w, hmw, hsw⟩ := C10Inv.history_crash_mounts_from_start v0 ops s1 gh1 hI h0 hc j op hj k idx vm hm hsg
  obtain ⟨r1, r2, _, r4, r5, r6⟩ := Lemmas.Survive.kept_crash hKj hst hwf hall hnn hav k hC idx w hmw hsw
  -- the contents of the state the call is issued in are those of `s1`
  obtain ⟨Ls, hR, hnnAll⟩ := notNamed_of_syntactic v0 e cs 0 s1 gh1 hK hst ops hc hu
  obtain ⟨_, _, _, _, hreg, hal, _, hin⟩ := hK.facts hst
  have hg : WFGeom v0 := h0.symm.wfGeom hI.inv.med.geom
  obtain ⟨_, hcj⟩ := Lemmas.Survive.flushed_at_boundary hg hR hI.inv.med.blocksOK e cs hF hin hreg hal hnnAll j hKj.inv.med.blocksOK
  refine ⟨⟨r1, r2.slot, r2.chain, fun n => (r4 n).trans (hcj n)⟩, ?_, ?_⟩
  · refine ⟨Lemmas.VolMed.dirChain v0 ghk.G 0, ?_, ?_, ?_⟩
    · intro h16
      unfold Lemmas.VolMed.dirChain
      rw [if_pos ⟨rfl, h16⟩]
    · intro h32
      have hf0 : ¬ Lemmas.VolMed.isFixedRoot v0 0 := fun h => by have := h.2; rw [h32] at this; cases this
      obtain ⟨_, hCore⟩ := Lemmas.VolCrash.crashInv_iff.1 hC
      obtain ⟨m2, d2⟩ := Lemmas.VolCrash.Fsck.dirChain_spec hCore (Lemmas.VolTree.zero_mem_dirIds _) hf0
      have c2 := Lemmas.VolCrash.Fsck.lchain hCore m2
      rw [Lemmas.VolTree.headD_of_head? d2] at c2
      unfold Lemmas.VolMed.dirChain
      rw [if_neg hf0]
      have hd0 : Lemmas.VolMed.dirHead v0 0 = v0.firstRootDirCluster := by unfold Lemmas.VolMed.dirHead; rw [if_pos rfl]
      rw [hd0] at c2 ⊢
      exact c2
    · rw [Lemmas.Survive.slotOf_of_flushed r2]; exact r5
  · intro t0 name a1 a2 a3 a4 a5 a6 a7 a8 a9 a10
    obtain ⟨t1, t2, t3, g1, g2, g3, g4, g5, g6, g7⟩ := r6 t0 name a1 a2 a3 a4 a5 a6 a7 a8 a9 a10
    refine ⟨t1, t2, t3, g1, g2, g3, g4, g5, g6, fun n => ?_⟩
    obtain ⟨t4, hr, hd4, hw4⟩ := g7 n
    refine ⟨t4, ?_, hd4, hw4⟩
    rw [← hcj]; exact hr

/-- **`closed_file_survives`** — the property from the call itself, with the purely syntactic criterion.

`s` satisfies `VolInvC`; `hd` is the handle of the open file `f`, which was written to and sits in the ROOT directory;
the medium of `s` mounts as partition `idx` with the geometry of `v0`.  Then `close_file hd` answers `Ok`, and for EVERY
covered history `ops` after it whose list of calls contains no `open_file_in_dir` in a mode other than `ReadOnly` and no
`delete_file_in_dir` of a spelling of the file's name (`NeverNames`), at EVERY crash point `dk` — the medium after any
number of the block writes of any call of `ops` —: the slot holds the flushed entry, the chain is the file's chain,
and ANY fresh manager on `dk` mounts, opens the root directory, opens the file by any spelling of its name, is told the
length `f.entry.size` and reads exactly the contents the file had when it was closed
(`fileContent v0 s.dev.disk cs f.entry.size`, `cs` the file's chain) — writing nothing. -/
theorem closed_file_survives (v0 : FatVolume) (s : Mgr) (gh : Ghost) (hI : VolInvC s gh) (h0 : SameGeom v0 gh.vol)
    (hd i : Nat) (f : FileInfo) (hidx : s.files.findIdx? (·.rawFile = hd) = some i) (hf : s.files[i]? = some f)
    (hdirty : f.dirty = true)
    (hroot : ∃ o, o ∈ objects 0 (dirSlots gh.vol s.dev.disk gh.G 0) ∧ spos o = fkey f)
    (ops : List Op) (hc : CoveredAllRun v0 s (.closeFile hd :: ops)) (hn : NeverNames f.entry.name ops)
    (idx : Nat) (vm : FatVolume) (hm : mountPure (s.dev.disk.get 0) idx s.dev.disk.get = .ok vm) (hsg : SameGeom vm v0) :
    (step s (.closeFile hd)).2.result = .ok .unit ∧
    ∀ dk, HistCrash (step s (.closeFile hd)).1 ops dk →
      (BlocksOK dk ∧ slice (dk.get f.entry.entryBlock) f.entry.entryOffset 32 = f.entry.serialize v0.fatType ∧
        ((f.entry.cluster < 2 ∧ chainOf gh.G f.entry.cluster = [] ∧ f.entry.size = 0) ∨
          Chain v0 dk f.entry.cluster (chainOf gh.G f.entry.cluster)) ∧
        ∀ n, fileContent v0 dk (chainOf gh.G f.entry.cluster) n = fileContent v0 s.dev.disk (chainOf gh.G f.entry.cluster) n) ∧
      ∀ (t0 : Mgr) (name : List Nat), MgrOK t0 → t0.dev.disk = dk → t0.vols = [] → t0.dirs = [] → t0.files = [] →
        0 < t0.maxVols → 0 < t0.maxDirs → 0 < t0.maxFiles → t0.nextId + 2 < 4294967296 →
        Sfn.createFromStr name = .ok f.entry.name →
        ∃ t1 t2 t3, openRawVolume idx t0 = (.ok t0.nextId, t1) ∧
          openRootDir t0.nextId t1 = (.ok (t0.nextId + 1), t2) ∧
          openFileInDir (t0.nextId + 1) name .ReadOnly t2 = (.ok (t0.nextId + 2), t3) ∧
          t3.dev.disk = dk ∧ t3.dev.wlog = t0.dev.wlog ∧
          fileLength (t0.nextId + 2) t3 = (.ok f.entry.size, t3) ∧
          ∀ n, ∃ t4, read (t0.nextId + 2) n t3 =
              (.ok ((fileContent v0 s.dev.disk (chainOf gh.G f.entry.cluster) f.entry.size).take n), t4) ∧
            t4.dev.disk = dk ∧ t4.dev.wlog = t0.dev.wlog := by
  have hM := Lemmas.VolMed.medX_of_med hI.inv.med
  have hfm : f ∈ s.files := List.mem_of_getElem? hf
  obtain ⟨hres, h, gh1, ⟨o, ho, hpo⟩, hh, hK1, hnone⟩ := Lemmas.Survive.close_kept hI.inv hI.mirror h0 hidx hf hdirty
  obtain ⟨o0, ho0, hpo0⟩ := hroot
  obtain ⟨rfl, _⟩ := Lemmas.AbsFs.slot_unique hM hh (Lemmas.VolTree.zero_mem_dirIds _) (Lemmas.VolMed.mem_of_mem_objects ho)
    (Lemmas.VolMed.mem_of_mem_objects ho0) (hpo.trans hpo0.symm)
  refine ⟨hres, ?_⟩
  obtain ⟨hst, _, _, _, hplain, _⟩ := Lemmas.Survive.file_entry_facts hI.inv hfm
  have hst0 : Lemmas.Reopen.Storable v0.fatType f.entry := by rw [← h0.fatType]; exact hst
  -- `VolInvC` after the close, for the ghost of `Kept`
  obtain ⟨gh1', hIC1, hg1'⟩ := C10Inv.api_step_invariantC v0 s (.closeFile hd) gh hI h0 hc.1
  have hIC : VolInvC (step s (.closeFile hd)).1 gh1 := by
    refine ⟨hK1.inv, hK1.mirror, ?_⟩
    have e1 : gh1.vol.fatType = gh1'.vol.fatType := hK1.geom.fatType.trans hg1'.fatType.symm
    rw [e1]; exact hIC1.raw
  -- the criterion
  have hu := untouched_of_never_opened v0 f.entry _ 0 _ gh1 hK1 hst0 ops hc.2
    (fun g hg hk => absurd hk (hnone g hg)) (never_opened_of_never_names 0 f.entry.name ops _ hn)
  -- the medium after the close mounts
  obtain ⟨w1, hw1, hsw1⟩ := C10Inv.history_mounts v0 [.closeFile hd] s gh hI h0 ⟨hc.1, trivial⟩ idx vm hm hsg
  have hw1' : mountPure ((step s (.closeFile hd)).1.dev.disk.get 0) idx (step s (.closeFile hd)).1.dev.disk.get = .ok w1 := hw1
  -- the contents the close leaves are those before it
  obtain ⟨_, _, hcont⟩ := Lemmas.Survive.close_step_flushed hI.inv hidx hf hdirty
  have hcont0 : ∀ n, fileContent v0 (step s (.closeFile hd)).1.dev.disk (chainOf gh.G f.entry.cluster) n =
      fileContent v0 s.dev.disk (chainOf gh.G f.entry.cluster) n := by
    intro n
    rw [← Lemmas.WriteRefines.sameGeom_fileContent h0, ← Lemmas.WriteRefines.sameGeom_fileContent h0]
    exact hcont n
  intro dk hk
  obtain ⟨⟨r1, r2, r3, r4⟩, _, r6⟩ := flushed_file_survives v0 _ gh1 hIC hK1.geom ops hc.2 f.entry _ hK1.flushed hst0 hK1.obj.mem
    hplain hK1.obj.quiet hu idx w1 hw1' hsw1.symm dk hk
  refine ⟨⟨r1, r2, r3, fun n => (r4 n).trans (hcont0 n)⟩, ?_⟩
  intro t0 name a1 a2 a3 a4 a5 a6 a7 a8 a9 a10
  obtain ⟨t1, t2, t3, g1, g2, g3, g4, g5, g6, g7⟩ := r6 t0 name a1 a2 a3 a4 a5 a6 a7 a8 a9 a10
  refine ⟨t1, t2, t3, g1, g2, g3, g4, g5, g6, fun n => ?_⟩
  obtain ⟨t4, hr, hd4, hw4⟩ := g7 n
  refine ⟨t4, ?_, hd4, hw4⟩
  rw [← hcont0]; exact hr

/-- **`spec_reader_survives_syntactic`**: `spec_reader_survives` under the syntactic criterion — from a `Kept` state
(file of any directory), along a covered history that never targets the file, at EVERY crash point the independent
reader `Spec.Fs` sees the flushed file (slot fields, chain walk, file bytes); `ProperEnds`: no FAT32 entry of the
file's chain is the reserved value 1. -/
theorem spec_reader_survives_syntactic (v0 : FatVolume) (e : DirEntry) (cs : List Nat) (h : Nat) (s1 : Mgr) (gh1 : Ghost)
    (hK : Kept v0 e cs h s1 gh1) (hst : Lemmas.Reopen.Storable v0.fatType e) (ops : List Op) (hc : CoveredAllRun v0 s1 ops)
    (hu : Untouched h e.name (e.entryBlock, e.entryOffset) s1 ops)
    (g : Fs.Geom) (hgm : C02Reopen.GeomOf v0 g) (hp : C02Reopen.ProperEnds v0 s1.dev.disk cs)
    (dk : Disk) (hk : HistCrash s1 ops dk) (sl : Fs.Slot) (hsl : sl.bytes = slice (dk.get e.entryBlock) e.entryOffset 32) :
    Fs.nameOf sl = e.name ∧ Fs.attrOf sl = e.attributes ∧ Fs.clusterOf g sl = e.cluster ∧ Fs.sizeOf sl = e.size ∧
    (cs ≠ [] → Fs.chain g dk (Fs.clusterOf g sl) = .ok cs) ∧
    Fs.fileBytes g dk cs (Fs.sizeOf sl) = fileContent v0 s1.dev.disk cs e.size := by
  obtain ⟨Ls, hR, hnn⟩ := notNamed_of_syntactic v0 e cs h s1 gh1 hK hst ops hc hu
  obtain ⟨_, _, _, _, hreg, hal, _, hin⟩ := hK.facts hst
  have hg : WFGeom v0 := hK.geom.symm.wfGeom hK.inv.med.geom
  obtain ⟨hbk, hFk, hraw, hfc⟩ := Lemmas.Survive.flushed_at_crash hg hR hK.inv.med.blocksOK e cs hK.flushed hin hreg hal hnn dk hk
  have := Lemmas.Survive.spec_reader_on v0 hg g hgm dk hbk e cs hst hFk hin
    (fun x hx h32 => by rw [hraw x hx]; exact hp x hx h32) sl hsl
  rw [hfc] at this
  exact this

/-! ### Non-vacuity -/

namespace Example
open Sdmmc.Props.C02Reopen.Example

/-- The state of `Props.C02Reopen.Example`: the smallest FAT16 volume in partition 0 of a medium, the file `A.TXT` of the
root directory open (handle 7) and dirty — 600 bytes in clusters 2 → 3 while the medium still holds the entry of the
empty file.  Ghost: one chain, no sub-directory. -/
def ghA : Ghost := { vol := vol, G := [[2, 3]], dirs := [] }

theorem invA : VolInv mgr ghA := Lemmas.VolCheck.checkVolInv_sound mgr ghA (by decide +kernel)

theorem mirrorA (d : Disk) : Mirror vol d := fun c _ b2 h => by
  have : (none : Option Nat) = some b2 := h
  cases this

theorem invMA : VolInvM mgr ghA := ⟨invA, mirrorA _⟩

/-- The state the close leaves. -/
@[irreducible] def s1 : Mgr := (step mgr (.closeFile 7)).1

theorem s1_def : s1 = (step mgr (.closeFile 7)).1 := by unfold s1; rfl

theorem close_ok : (step mgr (.closeFile 7)).2.result = .ok .unit ∧ FlushedOn vol s1.dev.disk entry [2, 3] ∧
    ∀ n, fileContent vol s1.dev.disk [2, 3] n = fileContent vol disk [2, 3] n :=
  by rw [s1_def]; exact close_establishes mgr ghA invA 7 0 file handle_found rfl rfl

theorem inv1 : ∃ gh1, VolInvM s1 gh1 ∧ SameGeom vol gh1.vol :=
  by rw [s1_def]; exact C04Hist.step_invariantM vol mgr (.closeFile 7) ghA invMA (SameGeom.refl _) trivial

theorem mount1 : mountPure (s1.dev.disk.get 0) 0 s1.dev.disk.get = .ok vol0 := by decide +kernel

/-- Calls after the close that can only have the empty licence: a lookup, a listing, a query through the handle that is
no longer open, opening the root directory again. -/
def after : List Op := [.find 5 nameStr, .list 5, .length 7, .openRoot 3, .hasOpen]

theorem after_covered : CoveredAllRun vol s1 after :=
  C03Inv.coveredAllRun_of_coveredRun vol (by refine ⟨trivial, trivial, trivial, trivial, trivial, trivial⟩)

theorem content_B : fileContent vol disk [2, 3] entry.size = B := by decide +kernel

theorem storableA : Lemmas.Reopen.Storable vol.fatType entry := ⟨by decide, by decide, by decide, (by show entry.cluster < 65536; decide), by decide⟩

/-- **The property on the example.**  After the successful close of `A.TXT`, at EVERY crash point of the history `after`
the medium shows the flushed entry and the 600 flushed bytes `B`; and after every call of it a fresh manager mounts
partition 0, opens the root directory, opens "A.TXT" and reads `B`. -/
example : ∃ Ls, RunLicensed vol s1 after Ls ∧ (∀ L, L ∈ Ls → NotNamed vol L 18 0 [2, 3]) ∧
    (∀ dk, HistCrash s1 after dk →
      Lemmas.Listing.decode .fat16 (18, 0, slice (dk.get 18) 0 32) = Lemmas.Reopen.stored entry ∧
      Chain vol dk 2 [2, 3] ∧ fileContent vol dk [2, 3] 600 = B) ∧
    ∀ (j : Nat) (t0 : Mgr), MgrOK t0 → t0.dev.disk = (run s1 (after.take j)).1.dev.disk → t0.vols = [] → t0.dirs = [] →
      t0.files = [] → 0 < t0.maxVols → 0 < t0.maxDirs → 0 < t0.maxFiles → t0.nextId + 2 < 4294967296 →
      ∃ t1 t2 t3, openRawVolume 0 t0 = (.ok t0.nextId, t1) ∧ openRootDir t0.nextId t1 = (.ok (t0.nextId + 1), t2) ∧
        openFileInDir (t0.nextId + 1) nameStr .ReadOnly t2 = (.ok (t0.nextId + 2), t3) ∧
        fileLength (t0.nextId + 2) t3 = (.ok 600, t3) ∧
        ∀ n, ∃ t4, read (t0.nextId + 2) n t3 = (.ok (B.take n), t4) := by
  obtain ⟨gh1, hI1, hg1⟩ := inv1
  obtain ⟨Ls, hR, himp⟩ := flushed_file_survives_partial vol s1 gh1 hI1 hg1 after after_covered entry [2, 3] close_ok.2.1
    storableA (.inl (by decide)) (by decide) (by decide)
  have hnn : ∀ L, L ∈ Ls → NotNamed vol L entry.entryBlock entry.entryOffset [2, 3] := by
    intro L hL
    obtain ⟨k, op, gh', hk, _, _, hl⟩ := Lemmas.WriteSetInv.runLicensed_nth hR L hL
    generalize (run s1 (after.take k)).1 = t at hl
    have hnone : L = Licence.none := by
      match k, hk with
      | 0, hk => cases hk; cases hl; rfl
      | 1, hk => cases hk; cases hl; rfl
      | 2, hk => cases hk; cases hl; rfl
      | 3, hk => cases hk; cases hl; rfl
      | 4, hk => cases hk; cases hl; rfl
      | k + 5, hk => cases hk
    rw [hnone]
    exact ⟨(fun _ _ h => nomatch h), (fun _ h => nomatch h), (fun _ h => nomatch h), (fun _ h => nomatch h)⟩
  obtain ⟨ha, hbc⟩ := himp hnn
  have hB : fileContent vol s1.dev.disk [2, 3] 600 = B := by rw [close_ok.2.2 600]; exact content_B
  refine ⟨Ls, hR, hnn, fun dk hk => ?_, fun j t0 a1 a2 a3 a4 a5 a6 a7 a8 a9 => ?_⟩
  · obtain ⟨_, _, hdec, hch, _, hfc⟩ := ha dk hk
    refine ⟨hdec, ?_, by rw [hfc 600]; exact hB⟩
    rcases hch with ⟨h2, _⟩ | hch
    · exact absurd h2 (by decide)
    · exact hch
  · obtain ⟨_, hrd⟩ := hbc rfl (by decide) (by decide) (by decide) (by decide) (by decide) (by decide) (by decide) (by decide)
      0 vol0 mount1 ⟨_, _, (sameGeom : vol = _)⟩ j
    obtain ⟨t1, t2, t3, g1, g2, g3, _, _, g6, g7⟩ := hrd t0 nameStr a1 a2 a3 a4 a5 a6 a7 a8 a9 (by decide)
    refine ⟨t1, t2, t3, g1, g2, g3, g6, fun n => ?_⟩
    obtain ⟨t4, hr, _, _⟩ := g7 n
    exact ⟨t4, by rw [← hB]; exact hr⟩

/-- The state of the example satisfies `VolInvC`: the on-disk slot of the open file names no cluster yet. -/
theorem invCA : VolInvC mgr ghA := by
  refine ⟨invA, mirrorA _, ?_⟩
  intro f hf
  have hf' : f = file := List.mem_singleton.1 hf
  subst hf'
  left
  decide +kernel

/-- The open file sits in the root directory (the ghost has no other directory). -/
theorem rootA : ∃ o, o ∈ objects 0 (dirSlots ghA.vol mgr.dev.disk ghA.G 0) ∧ spos o = fkey file := by
  obtain ⟨h, hh, o, ho, h1, h2, _⟩ := invA.med.tree.fileSlots file List.mem_cons_self
  have h0 : h = 0 := by
    have : h ∈ [0] := hh
    exact List.mem_singleton.1 this
  subst h0
  exact ⟨o, ho, Prod.ext h1 h2⟩

/-- A history after the close that writes a lot — it creates, fills and deletes another file, makes a directory, and
reads `A.TXT` again through a read-only handle — but contains no `open_file_in_dir` of "A.TXT" in a writing mode and
no `delete_file_in_dir` of it. -/
def payload : Bytes := List.replicate 2000 0x55

def busy : List Op :=
  [.openFile 5 [0x42, 0x2E, 0x54, 0x58, 0x54] .ReadWriteCreate, .write 8 payload, .closeFile 8,
   .mkdir 5 [0x44], .openFile 5 nameStr .ReadOnly, .read 9 100, .closeFile 9, .delete 5 [0x42, 0x2E, 0x54, 0x58, 0x54],
   .closeVolume 3]

theorem busy_names : NeverNames file.entry.name busy := by
  refine ⟨.inr (by decide), ⟨.inl rfl, by decide, trivial⟩⟩

theorem busy_covered : CoveredAllRun vol mgr (.closeFile 7 :: busy) :=
  (C03All.coveredAllRun_iff_remountRun vol mgr _).2 (C03All.remountRun_of_no_openVolume vol mgr _ (by
    intro op hop i e
    subst e
    simp [busy] at hop))

/-- **The property on the example, full form**: `A.TXT` (600 bytes `B`) is closed; then, whatever `busy` does, at EVERY
crash point of it — after any number of its block writes — a fresh manager mounts partition 0, opens the root directory,
opens "A.TXT", is told 600 bytes and reads `B`. -/
example : (step mgr (.closeFile 7)).2.result = .ok .unit ∧
    ∀ dk, HistCrash (step mgr (.closeFile 7)).1 busy dk →
      ∀ (t0 : Mgr), MgrOK t0 → t0.dev.disk = dk → t0.vols = [] → t0.dirs = [] → t0.files = [] →
        0 < t0.maxVols → 0 < t0.maxDirs → 0 < t0.maxFiles → t0.nextId + 2 < 4294967296 →
        ∃ t1 t2 t3, openRawVolume 0 t0 = (.ok t0.nextId, t1) ∧ openRootDir t0.nextId t1 = (.ok (t0.nextId + 1), t2) ∧
          openFileInDir (t0.nextId + 1) nameStr .ReadOnly t2 = (.ok (t0.nextId + 2), t3) ∧
          fileLength (t0.nextId + 2) t3 = (.ok 600, t3) ∧
          ∀ n, ∃ t4, read (t0.nextId + 2) n t3 = (.ok (B.take n), t4) := by
  obtain ⟨hres, hall⟩ := closed_file_survives vol mgr ghA invCA (SameGeom.refl _) 7 0 file handle_found rfl rfl rootA busy
    busy_covered busy_names 0 vol0 mount_ok ⟨_, _, (sameGeom : vol = _)⟩
  refine ⟨hres, fun dk hk t0 a1 a2 a3 a4 a5 a6 a7 a8 a9 => ?_⟩
  obtain ⟨_, hrd⟩ := hall dk hk
  obtain ⟨t1, t2, t3, g1, g2, g3, _, _, g6, g7⟩ := hrd t0 nameStr a1 a2 a3 a4 a5 a6 a7 a8 a9 (by decide)
  refine ⟨t1, t2, t3, g1, g2, g3, g6, fun n => ?_⟩
  obtain ⟨t4, hr, _, _⟩ := g7 n
  refine ⟨t4, ?_⟩
  have hB : fileContent vol mgr.dev.disk (chainOf ghA.G file.entry.cluster) file.entry.size = B := content_B
  rw [← hB]; exact hr

/-- The criterion is needed: a history that truncates the file is excluded by it — `NeverNames` fails. -/
example : ¬ NeverNames file.entry.name [.openFile 5 nameStr .ReadWriteTruncate] := by
  intro h
  rcases h.1 with e | e
  · cases e
  · exact e (by decide)

/-- The excluded point, evaluated: re-opening `A.TXT` with `ReadWriteTruncate` after the close (three block writes)
leaves an entry of size 0 in the slot — the file IS modified, the criterion is needed (and says so: the call targets the
file). -/
example : (Lemmas.Listing.decode .fat16
      (18, 0, slice (((step s1 (.openFile 5 nameStr .ReadWriteTruncate)).1.dev.disk).get 18) 0 32)).size = 0 ∧
    (step s1 (.openFile 5 nameStr .ReadWriteTruncate)).2.writes.length = 3 := by
  rw [s1_def]; decide +kernel

example (s : Mgr) (hd : ∃ dir, dir ∈ s.dirs ∧ dir.rawDirectory = 5 ∧ dirIdOf dir.cluster = 0) :
    Targets s 0 file.entry.name (18, 0) (.openFile 5 nameStr .ReadWriteTruncate) :=
  ⟨.inl rfl, by decide, hd⟩

/-- A call that does write — creating `B.TXT` in the same directory: at both crash points of its single block write
the slot of `A.TXT` holds the flushed entry (evaluated). -/
example : ∀ k, k ≤ 1 → slice ((crashDisk s1.dev.disk (step s1 (.openFile 5 [0x42, 0x2E, 0x54, 0x58, 0x54] .ReadWriteCreate)).2.writes k).get 18)
    0 32 = entry.serialize .fat16 := by decide +kernel

end Example

end Sdmmc.Props.C09Hist
