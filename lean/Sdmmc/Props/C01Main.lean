/-
C01 — HEADLINE THEOREM.

PROPERTY (verbatim from `properties.jsonl`).
statement:
  "For any sequence of open, seek, read, write, flush and close calls on any set of simultaneously open files (on
  one or several volumes), every read returns exactly the bytes that a plain in-memory byte-array model of each file
  holds at the current offset, and the reported length, offset and end-of-file flag always equal the model's.
  Writing to one file never changes what any other file reads back."
quantifier:
  "all finite API histories (interleaved over up to MAX_FILES open files and several volumes), all write/read
  lengths and seek targets (including 0, sub-block, block-aligned, cluster-aligned and multi-cluster spans), all
  FAT16/FAT32 geometries (1..128 blocks per cluster, 1 or 2 FATs, any partition offset)"

HOW TO READ `C01_main`.
* The "plain in-memory byte-array model of each file" is the multi-volume abstract file system `Spec.AbsFs.AbsFsN`
  (`Sdmmc/Spec/AbsFsN.lean`, one-volume part `Sdmmc/Spec/AbsFs.lean`): no blocks, no clusters, no FAT, no cache; a file is
  a slot `.file meta bytes` of a directory of a volume's tree, `bytes : List UInt8` being its contents; an open file is a
  record with the handle, the volume, the slot it refers to (`dir`, `idx`), the position `pos` and the pending entry.
  `absRunN A ops answers A'` says that the calls `ops`, issued from `A`, may give `answers` and lead to `A'`
  (`Props.C01Multi`; the per-call relations are `readS`, `writeS`, `seekStartS`, … of `Spec/AbsFs.lean`: `readS_def`,
  `writeS_def` below quote the two that matter here).
* `AbsN s ghs A`: `A` is the abstract counterpart of the manager state `s` (`Props.C01Multi.absN_iff`); it exists for
  every state with the invariant (`C01Multi.abs_exists_multi`).
* `fileTarget s h = some i`, `s.vols[i]? = some vi`: the file handle `h` is open and belongs to the open volume record `vi`
  (`Spec/VolumeN.lean`).

CLAUSES (in the order of the sentence).
  (run)   every history is a run of the byte-array model WITH THE ANSWERS THE CALLS GAVE — open, seek, read, write,
          flush, close and all other calls, interleaved over any number of open files on any number of open volumes;
  and, in the state EVERY PREFIX of the history leaves (ghosts `ghsj`, abstract counterpart `Aj`), for every open file handle:
  (read)  `read h n` answers `(bytes.drop pos).take n`, `bytes` the model's contents of the file, `pos` the model's offset;
  (query) `file_length`, `file_offset`, `file_eof` answer `bytes.length`, `pos`, `pos = bytes.length`;
  (other) `write` through `h` changes no slot of the model but the one `h` refers to: every other file — of the same
          directory, of other directories, of other volumes — has the same bytes (hence, by (read), reads back the same).

HYPOTHESES (the standing ones).
* `VolInvN s ghs`, `MirrorN s ghs` — the invariant of API histories with several open volumes and identical FAT copies
  (`Spec/VolumeN.lean`).  Holds of a fresh manager (`Lemmas.Main.fresh_manager_invariant`) and is preserved by every covered
  history (`Props.C03Multi.api_history_invariant_multi`); every `open_volume` that succeeds on a sound partition keeps it.
* `CoveredNRun s ops` — about `open_volume` calls that SUCCEED only: the handle handed out is carried by no open volume
  (false only after the 32-bit handle generator wrapped), the partition overlaps no open one, the mounted record is sound
  with identical FAT copies (`Props.C03Multi`: the invariant cannot know what an unmounted partition holds).
* `FreshRun s ops` — about `get_root_volume_label` only: the handle of its temporary directory is unused (fails only after
  a wrap of the handle generator; finding of `Props.C01Multi`).
All FAT16 / FAT32 geometries, blocks per cluster, one or two FATs, partition offsets: nothing is assumed of the volume
records beyond the invariant (`WFGeom` is part of it).

STATUS: `C01_main` PROVED IN FULL as stated.  What the sentence says beyond it: nothing; what the statement does not say:
running out of clusters is not modelled in the byte-array model — a `write` may store a prefix and answer `DiskFull` /
`NotEnoughSpace` (`writeS_def`) —, and the RAII wrappers / `embedded-io` traits are `Props/C01Io.lean`.
SOURCE TIE: the position / length functions (`FileInfo::{eof, length, seek_from_*}`, `VolumeManager::file_eof`, `file_length`,
`file_offset`, `file_seek_from_*`), machine-translated from the Rust, equal the model's: `Props/C01GenM.lean`.
-/
import Sdmmc.Lemmas.MainC01
import Sdmmc.Lemmas.MainBase

namespace Sdmmc.Props.C01Main
open Sdmmc.Model Sdmmc.Model.Fat Sdmmc.Spec.Volume
open Sdmmc.Spec hiding run step NoFault Coherent
open Sdmmc.Spec.AbsFs (AbsFsN absRunN)
open Sdmmc.Lemmas.VolN (AbsN)
open Sdmmc.Props.C03Multi (CoveredNRun)
open Sdmmc.Props.C01Multi (FreshRun)

/-! ### The two relations of the byte-array model the clauses speak about -/

/-- `read` in the model: a bad handle is refused; otherwise the answer is what the byte array holds from the position
on, at most `n` bytes (`ByteFile.read`), and only the position moves. -/
theorem readS_def (a : Spec.AbsFs.AbsFs) (h n : Nat) (a' : Spec.AbsFs.AbsFs) (r : Res Payload) :
    Spec.AbsFs.readS a h n a' r ↔
      match Spec.AbsFs.fileOf a h with
      | none => a' = a ∧ r = .err .BadHandle
      | some (i, f) =>
        if !Spec.AbsFs.volOpen a f.volume then a' = a ∧ r = .err .BadHandle else
        ∃ m bytes, (a.slots f.dir)[f.idx]? = some (.file m bytes) ∧
          r = .ok (.bytes ((⟨bytes, f.pos⟩ : ByteFile).read n).1) ∧
          a' = { a with files := a.files.set i { f with pos := ((⟨bytes, f.pos⟩ : ByteFile).read n).2.pos } } := Iff.rfl

/-- `ByteFile.read`: the bytes from the position on, at most `n`. -/
theorem byteFile_read (bytes : Bytes) (pos n : Nat) :
    ((⟨bytes, pos⟩ : ByteFile).read n).1 = (bytes.drop pos).take n := rfl

/-- `write` in the model: refused on a bad or read-only handle; otherwise a prefix `data.take k` is written at the position
by the byte array's `write` (`k = |data|` exactly when the answer is `Ok`; `DiskFull` / `NotEnoughSpace` when the volume ran
out of clusters), the position moves by `k`, the pending entry gets the new length, the archive bit and the clock; no
other slot, no other open file changes. -/
theorem writeS_def (a : Spec.AbsFs.AbsFs) (h : Nat) (data : Bytes) (a' : Spec.AbsFs.AbsFs) (r : Res Payload) :
    Spec.AbsFs.writeS a h data a' r ↔
      match Spec.AbsFs.fileOf a h with
      | none => a' = a ∧ r = .err .BadHandle
      | some (i, f) =>
        if !Spec.AbsFs.volOpen a f.volume then a' = a ∧ r = .err .BadHandle
        else if f.mode = .ReadOnly then a' = a ∧ r = .err .ReadOnly
        else ∃ m bytes k, (a.slots f.dir)[f.idx]? = some (.file m bytes) ∧ k ≤ data.length ∧
          ((r = .ok .unit ∧ k = data.length) ∨ (r = .err .DiskFull ∧ k < data.length) ∨ (r = .err .NotEnoughSpace ∧ k = 0)) ∧
          a' = Spec.AbsFs.setSlot { a with files := a.files.set i { f with
                  pos := f.pos + k, dirty := true,
                  pm := { f.pm with attr := Attr.setArchive f.pm.attr, mtime := a.clock,
                                    size := ((⟨bytes, f.pos⟩ : ByteFile).write (data.take k)).bytes.length } } }
                f.dir f.idx (.file m ((⟨bytes, f.pos⟩ : ByteFile).write (data.take k)).bytes) := Iff.rfl

/-! ### The headline theorem -/

/-- **C01.**  See the header. -/
theorem C01_main (ops : List Op) (s : Mgr) (ghs : List Ghost) (hI : VolInvN s ghs) (hm : MirrorN s ghs)
    (hc : CoveredNRun s ops) (hf : FreshRun s ops) :
    -- (run)
    (∃ A ghs' A', AbsN s ghs A ∧ VolInvN (run s ops).1 ghs' ∧ MirrorN (run s ops).1 ghs' ∧ AbsN (run s ops).1 ghs' A' ∧
      absRunN A ops ((run s ops).2.map (·.result)) A') ∧
    ∀ j, ∃ ghsj Aj, VolInvN (run s (ops.take j)).1 ghsj ∧ MirrorN (run s (ops.take j)).1 ghsj ∧
      AbsN (run s (ops.take j)).1 ghsj Aj ∧
      ∀ (h i : Nat) (vi : VolInfo), fileTarget (run s (ops.take j)).1 h = some i → (run s (ops.take j)).1.vols[i]? = some vi →
        ∃ f, f ∈ Aj.files ∧ f.handle = h ∧ f.volume = vi.rawVolume ∧ ∃ m bytes,
          (Aj.slots vi.rawVolume f.dir)[f.idx]? = some (.file m bytes) ∧
          -- (read)
          (∀ n, (step (run s (ops.take j)).1 (.read h n)).2.result = .ok (.bytes ((bytes.drop f.pos).take n))) ∧
          -- (query)
          (step (run s (ops.take j)).1 (.length h)).2.result = .ok (.num bytes.length) ∧
          (step (run s (ops.take j)).1 (.offset h)).2.result = .ok (.num f.pos) ∧
          (step (run s (ops.take j)).1 (.eof h)).2.result = .ok (.bool (decide (f.pos = bytes.length))) ∧
          -- (other)
          ∀ data, ∃ ghs' A', VolInvN (step (run s (ops.take j)).1 (.write h data)).1 ghs' ∧
            MirrorN (step (run s (ops.take j)).1 (.write h data)).1 ghs' ∧
            AbsN (step (run s (ops.take j)).1 (.write h data)).1 ghs' A' ∧
            ∀ hw x k, x ∈ Aj.ids hw → (hw, x, k) ≠ (f.volume, f.dir, f.idx) → (A'.slots hw x)[k]? = (Aj.slots hw x)[k]? := by
  refine ⟨C01Multi.fs_history_refines_multi_from_invariant ops s ghs hI hm hc hf, fun j => ?_⟩
  obtain ⟨A, ghsj, Aj, _, hIj, hmj, hAj, _⟩ := C01Multi.fs_history_refines_multi_from_invariant (ops.take j) s ghs hI hm
    (C03Multi.coveredNRun_take hc j) (Lemmas.MainC01.freshRun_take ops s hf j)
  refine ⟨ghsj, Aj, hIj, hmj, hAj, fun h i vi ht hvi => ?_⟩
  obtain ⟨f, hfm, hfh, hfv, m, bytes, hsl, hlen, hrd, hl, ho, he, hw⟩ := Lemmas.MainC01.handle_record hIj hmj hAj h ht hvi
  exact ⟨f, hfm, hfh, hfv, m, bytes, hsl, hrd, by rw [hlen]; exact hl, ho, by rw [hlen]; exact he, hw⟩

/-! ### Non-vacuity -/

namespace Example
open Sdmmc.Lemmas.VolExample Sdmmc.Lemmas.VolN.Example2
open Sdmmc.Props.C03Multi.Example (two_volumes two_volumes_mirror)
open Sdmmc.Props.C01Multi.Example (ops2 ops2_covered ops2_fresh)

/-- The hypotheses hold of the two-volume state of `Props.C03Multi` (a FAT16 and a FAT32 volume on one device) and the
interleaved history `ops2` of `Props.C01Multi.Example` (reads of `A.TXT` on the first volume interleaved with appends, a
`mkdir`, a create / write / close / delete on the second): `C01_main` applies. -/
example := C01_main ops2 mgr2 ghs2 two_volumes two_volumes_mirror ops2_covered ops2_fresh

/-- A fresh manager satisfies the standing hypotheses. -/
example (s : Mgr) (hf : s.dev.faults = []) (hc : ∀ i, s.cache.tag = some i → s.cache.blk = s.dev.disk.get i)
    (hl : s.locked = false) (hv : s.vols = []) (hd : s.dirs = []) (hfl : s.files = []) : VolInvN s [] ∧ MirrorN s [] :=
  Lemmas.Main.fresh_manager_invariant s hf hc hl hv hd hfl

end Example

end Sdmmc.Props.C01Main
