/-
C01 / C02 / C06 / C07 over arbitrary API histories — THE WHOLE API REFINES AN ABSTRACT FILE SYSTEM.

Trusted statement: `Spec/AbsFs.lean` (the abstract file system `AbsFs`, its step relation `absStep`, histories
`absRun`), `Spec/AbsFsTouch.lean` (`touched`), `Spec/Volume.lean` (`VolInv`), and from `Lemmas/`: the abstraction
relation `Abs` (`Lemmas/AbsFsBase.lean`: the tables agree, the directory numbers are the ghost's, directory `h` is
the list of its slots before the end marker read through `absSlot`, every open file sits at the slot its abstract
record names) and the coverage predicate `FsCovered` (`Lemmas/AbsFsStep.lean`).

Main theorems.
* `abs_exists`            every state with the invariant has an abstract counterpart.
* `fs_step_refines`       every covered call is a step of the abstract file system with the SAME answer, and
                          both relations hold again (for a new ghost and a new abstract state).
* `fs_history_refines`    every covered history — all 24 operations, no constructor excluded — is a run of the
                          abstract file system with the same answers.
* corollaries             `read_returns_model_bytes`, `listing_is_live_entries_in_order`, `lookup_iff_listed`,
                          `mode_table` (+ `mode_table_absent`, `mode_refusals`), `flushed_file_visible`,
                          `untouched_unchanged`.

Hypotheses forced by the proofs (`FsCovered`), all explicit:
* names whose 8.3 form starts with byte 0xE5 are excluded in `openDir`, `openFile`, `delete`, `mkdir` (as in
  `Props/C03Inv`) AND in `find`: the crate's lookup matches DELETED slots for such names.  The excluded point is
  evaluated: `Example.find_e5_is_not_a_step` — on the example medium `find "\xE5LD.TXT"` answers `Ok` with a deleted
  entry, which no step of the abstract file system does.
* an `open_volume` issued while no volume is open must — if it mounts anything — mount a record with the geometry
  of the volume the relations speak about (inherited from `Props/C03Inv.api_history_invariant`).

What the abstract model leaves open (see the header of `Spec/AbsFs.lean`): running out of clusters (`write` stores
some prefix; create / `make_dir` may answer `NotEnoughSpace`), the number of a new directory, failure of
`open_volume`, the boot-sector label, `iterate_dir_lfn` (only: nothing changes, bad handles are refused).
-/
import Sdmmc.Lemmas.AbsFsCor2
import Sdmmc.Lemmas.VolExample
import Sdmmc.Props.C03Inv

namespace Sdmmc.Props.C01Fs
open Sdmmc.Model Sdmmc.Model.Fat Sdmmc.Spec.Volume
open Sdmmc.Spec hiding run step NoFault Coherent
open Sdmmc.Spec.AbsFs (AbsFs Meta view storedMeta OpenFile OpenDir absStep absRun)
open Sdmmc.Lemmas.AbsFs (Abs FsCovered FsCoveredRun NameOK)

/-! ### The refinement -/

/-- **Every state with the invariant has an abstract counterpart.** -/
theorem abs_exists {s : Mgr} {gh : Ghost} (hI : VolInv s gh) : ∃ a, Abs s gh a := Lemmas.AbsFs.abs_total hI

/-- **Every covered call is a step of the abstract file system**: from a state with the invariant (ghost `gh`) and
its abstract counterpart `a`, the call `op` leads to a state with the invariant (ghost `gh'`, same geometry) whose
abstract counterpart `a'` is reached from `a` by the abstract step for `op` WITH THE ANSWER THE CALL GAVE. -/
theorem fs_step_refines (v0 : FatVolume) {s : Mgr} {gh : Ghost} {a : AbsFs} (hI : VolInv s gh) (hA : Abs s gh a)
    (h0 : SameGeom v0 gh.vol) (op : Op) (hc : FsCovered v0 s op) :
    ∃ gh' a', VolInv (step s op).1 gh' ∧ SameGeom v0 gh'.vol ∧ Abs (step s op).1 gh' a' ∧
      absStep a op (a', (step s op).2.result) :=
  Lemmas.AbsFs.fs_step_refines v0 hI hA h0 op hc

/-- **Every covered history is a run of the abstract file system with the same answers** — all 24 operations. -/
theorem fs_history_refines (v0 : FatVolume) (ops : List Op) {s : Mgr} {gh : Ghost} {a : AbsFs} (hI : VolInv s gh)
    (hA : Abs s gh a) (h0 : SameGeom v0 gh.vol) (hc : FsCoveredRun v0 s ops) :
    ∃ gh' a', VolInv (run s ops).1 gh' ∧ SameGeom v0 gh'.vol ∧ Abs (run s ops).1 gh' a' ∧
      absRun a ops ((run s ops).2.map (·.result)) a' :=
  Lemmas.AbsFs.fs_history_refines v0 ops hI hA h0 hc

/-- … from the invariant alone: the abstract start state exists. -/
theorem fs_history_refines_from_invariant (ops : List Op) {s : Mgr} {gh : Ghost} (hI : VolInv s gh)
    (hc : FsCoveredRun gh.vol s ops) :
    ∃ a gh' a', Abs s gh a ∧ VolInv (run s ops).1 gh' ∧ SameGeom gh.vol gh'.vol ∧ Abs (run s ops).1 gh' a' ∧
      absRun a ops ((run s ops).2.map (·.result)) a' := by
  obtain ⟨a, hA⟩ := abs_exists hI
  obtain ⟨gh', a', h1, h2, h3, h4⟩ := fs_history_refines gh.vol ops hI hA (SameGeom.refl _) hc
  exact ⟨a, gh', a', hA, h1, h2, h3, h4⟩

/-- The coverage predicate is the one of the invariant theorem (`Props/C03Inv.CoveredAll`) plus the same condition
on the name for `find`. -/
theorem fsCovered_of_coveredAll (v0 : FatVolume) {s : Mgr} {op : Op} (h : C03Inv.CoveredAll v0 s op)
    (hf : ∀ d name, op = .find d name → NameOK name) : FsCovered v0 s op := by
  cases op <;> first | exact h | exact hf _ _ rfl

theorem coveredAll_of_fsCovered (v0 : FatVolume) {s : Mgr} {op : Op} (h : FsCovered v0 s op) : C03Inv.CoveredAll v0 s op := by
  cases op <;> first | exact h | trivial

/-! ### What the refinement says about single calls -/

section
variable {s : Mgr} {gh : Ghost} {a : AbsFs}

/-- **`read` returns the bytes of the model**: for an open handle (of an open volume) the slot it refers to holds a
file, and `read h n` answers the bytes of that file from the handle's position on, at most `n` of them; afterwards
both relations hold with the position advanced by what was returned and nothing else changed. -/
theorem read_returns_model_bytes (hI : VolInv s gh) (hA : Abs s gh a) (h n : Nat) {i : Nat} {f : OpenFile}
    (hf : Spec.AbsFs.fileOf a h = some (i, f)) (hv : Spec.AbsFs.volOpen a f.volume = true) :
    ∃ m bytes gh', (a.slots f.dir)[f.idx]? = some (.file m bytes) ∧
      (step s (.read h n)).2.result = .ok (.bytes ((bytes.drop f.pos).take n)) ∧
      VolInv (step s (.read h n)).1 gh' ∧
      Abs (step s (.read h n)).1 gh' { a with files := a.files.set i { f with pos := f.pos + ((bytes.drop f.pos).take n).length } } :=
  Lemmas.AbsFs.read_returns_model_bytes hI hA h n hf hv

/-- **The listing is the file / directory slots of the directory, in slot order**: deleted slots and long-name
fragments are skipped, nothing else is, and every reported entry shows what its slot stores. -/
theorem listing_is_live_entries_in_order (hI : VolInv s gh) (hA : Abs s gh a) (d : Nat) {od : OpenDir}
    (hd : Spec.AbsFs.dirOf a d = .ok od) :
    ∃ es, (step s (.list d)).2.result = .ok (.entries es) ∧
      es.map view = (a.slots od.dir).filterMap Spec.AbsFs.Slot.meta? :=
  Lemmas.AbsFs.listing_is_live_entries_in_order hI hA d hd

/-- **Lookup succeeds iff the name is listed**: `find_directory_entry` answers an entry with the name — one the
listing of the same state shows — when the 8.3 name is among the listed names, and `NotFound` when it is not. -/
theorem lookup_iff_listed (hI : VolInv s gh) (hA : Abs s gh a) (d : Nat) (name : List Nat) (hname : NameOK name)
    {od : OpenDir} {sfn : Bytes} (hctx : Spec.AbsFs.dirCtx a d name = .ok (od, sfn)) :
    ∃ es, (step s (.list d)).2.result = .ok (.entries es) ∧
      (sfn ∈ es.map (·.name) →
        ∃ e, (step s (.find d name)).2.result = .ok (.entry e) ∧ e.name = sfn ∧ view e ∈ es.map view) ∧
      (sfn ∉ es.map (·.name) → (step s (.find d name)).2.result = .err .NotFound) :=
  Lemmas.AbsFs.lookup_iff_listed hI hA d name hname hctx

/-- **The mode table, file present** (not open, not read-only, a free place in the table): `ReadWriteCreate` is
refused with `FileAlreadyExists`; every other mode opens the file under the next handle — `…OrTruncate` /
`…OrAppend` as `ReadWriteTruncate` / `ReadWriteAppend` (`effective_modes`) —, positioned at the end for append and
at 0 otherwise; truncate empties the file and stores size 0 and the time of the call at once. -/
theorem mode_table (hI : VolInv s gh) (hA : Abs s gh a) (d : Nat) (name : List Nat) (mode : Mode) (hname : NameOK name)
    (hnf : ¬ a.files.length ≥ a.maxFiles) {od : OpenDir} {sfn : Bytes} (hctx : Spec.AbsFs.dirCtx a d name = .ok (od, sfn))
    {i : Nat} {m : Meta} {bytes : Bytes} (hlk : Spec.AbsFs.lookup (a.slots od.dir) sfn = some i)
    (hsl : (a.slots od.dir)[i]? = some (.file m bytes)) (hno : Spec.AbsFs.isOpenAt a od.volume od.dir i = false)
    (hrw : Attr.isReadOnly m.attr = false) :
    ∃ gh' a', VolInv (step s (.openFile d name mode)).1 gh' ∧ Abs (step s (.openFile d name mode)).1 gh' a' ∧
      (mode = .ReadWriteCreate → (step s (.openFile d name mode)).2.result = .err .FileAlreadyExists ∧ a' = a) ∧
      (mode ≠ .ReadWriteCreate → (step s (.openFile d name mode)).2.result = .ok (.handle a.nextId) ∧
        a'.files = a.files ++ [⟨a.nextId, od.volume, solveModeVariant mode true, od.dir, i,
          if solveModeVariant mode true = .ReadWriteAppend then m.size else 0,
          if solveModeVariant mode true = .ReadWriteTruncate then { m with size := 0, mtime := a.clock } else m, false⟩] ∧
        (a'.slots od.dir)[i]? = some (if solveModeVariant mode true = .ReadWriteTruncate
          then .file (storedMeta { m with size := 0, mtime := a.clock }) [] else .file m bytes)) :=
  Lemmas.AbsFs.mode_table hI hA d name mode hname hnf hctx hlk hsl hno hrw

theorem effective_modes :
    solveModeVariant .ReadOnly true = .ReadOnly ∧ solveModeVariant .ReadWriteAppend true = .ReadWriteAppend ∧
    solveModeVariant .ReadWriteTruncate true = .ReadWriteTruncate ∧
    solveModeVariant .ReadWriteCreateOrTruncate true = .ReadWriteTruncate ∧
    solveModeVariant .ReadWriteCreateOrAppend true = .ReadWriteAppend := Lemmas.AbsFs.effective_modes

/-- **The mode table, file absent**: the three creating modes create an empty file in the first free slot of the
directory (or answer `NotEnoughSpace` and change nothing) and hand out a handle in mode `ReadWriteCreate` at
position 0; the other three answer `NotFound`. -/
theorem mode_table_absent (hI : VolInv s gh) (hA : Abs s gh a) (d : Nat) (name : List Nat) (mode : Mode) (hname : NameOK name)
    (hnf : ¬ a.files.length ≥ a.maxFiles) {od : OpenDir} {sfn : Bytes} (hctx : Spec.AbsFs.dirCtx a d name = .ok (od, sfn))
    (hlk : Spec.AbsFs.lookup (a.slots od.dir) sfn = none) :
    ∃ gh' a', VolInv (step s (.openFile d name mode)).1 gh' ∧ Abs (step s (.openFile d name mode)).1 gh' a' ∧
      ((mode = .ReadOnly ∨ mode = .ReadWriteAppend ∨ mode = .ReadWriteTruncate) →
        (step s (.openFile d name mode)).2.result = .err .NotFound ∧ a' = a) ∧
      ((mode = .ReadWriteCreate ∨ mode = .ReadWriteCreateOrTruncate ∨ mode = .ReadWriteCreateOrAppend) →
        ((step s (.openFile d name mode)).2.result = .err .NotEnoughSpace ∧ a' = a) ∨
        ((step s (.openFile d name mode)).2.result = .ok (.handle a.nextId) ∧
          a'.files = a.files ++ [⟨a.nextId, od.volume, .ReadWriteCreate, od.dir, Spec.AbsFs.freeIdx (a.slots od.dir), 0,
            Spec.AbsFs.newMeta sfn 0 a.clock, false⟩] ∧
          (a'.slots od.dir)[Spec.AbsFs.freeIdx (a.slots od.dir)]? =
            some (.file (storedMeta (Spec.AbsFs.newMeta sfn 0 a.clock)) []))) :=
  Lemmas.AbsFs.mode_table_absent hI hA d name mode hname hnf hctx hlk

/-- **The refusals of the mode table**: a full table refuses everything (`TooManyOpenFiles`); a file that is open is
refused (`FileAlreadyOpen`) in every mode; a read-only file is refused (`ReadOnly`) in every mode but `ReadOnly`
and `ReadWriteCreate`; a directory is never opened as a file.  The state is unchanged. -/
theorem mode_refusals (hI : VolInv s gh) (hA : Abs s gh a) (d : Nat) (name : List Nat) (mode : Mode) (hname : NameOK name) :
    ∃ gh' a', VolInv (step s (.openFile d name mode)).1 gh' ∧ Abs (step s (.openFile d name mode)).1 gh' a' ∧
      (a.files.length ≥ a.maxFiles → (step s (.openFile d name mode)).2.result = .err .TooManyOpenFiles ∧ a' = a) ∧
      (¬ a.files.length ≥ a.maxFiles → ∀ od sfn i, Spec.AbsFs.dirCtx a d name = .ok (od, sfn) →
        Spec.AbsFs.lookup (a.slots od.dir) sfn = some i →
        (∀ m bytes, (a.slots od.dir)[i]? = some (.file m bytes) →
          (Spec.AbsFs.isOpenAt a od.volume od.dir i = true →
            (step s (.openFile d name mode)).2.result = .err .FileAlreadyOpen ∧ a' = a) ∧
          (Spec.AbsFs.isOpenAt a od.volume od.dir i = false → mode ≠ .ReadWriteCreate → Attr.isReadOnly m.attr = true →
            mode ≠ .ReadOnly → (step s (.openFile d name mode)).2.result = .err .ReadOnly ∧ a' = a)) ∧
        (∀ m t, (a.slots od.dir)[i]? = some (.dir m t) → a' = a ∧
          ((step s (.openFile d name mode)).2.result = .err .FileAlreadyExists ∨
           (step s (.openFile d name mode)).2.result = .err .ReadOnly ∨
           (step s (.openFile d name mode)).2.result = .err .OpenedDirAsFile))) :=
  Lemmas.AbsFs.mode_refusals hI hA d name mode hname

/-- The slot an open handle refers to holds a file whose bytes are as long as the handle's pending size. -/
theorem open_file_slot (hI : VolInv s gh) (hA : Abs s gh a) {h i : Nat} {f : OpenFile}
    (hf : Spec.AbsFs.fileOf a h = some (i, f)) :
    ∃ m bytes, (a.slots f.dir)[f.idx]? = some (.file m bytes) ∧ bytes.length = f.pm.size :=
  Lemmas.AbsFs.open_file_slot hI hA hf

/-- **A flushed file is visible**: after `flush_file` on a handle that was written to, the directory stores the
handle's pending entry (time stamps at FAT resolution), the stored size is the length of the file's bytes, and the
listing of the directory shows that entry — so whoever goes through the directory finds all the bytes. -/
theorem flushed_file_visible (hI : VolInv s gh) (hA : Abs s gh a) (h : Nat) {i : Nat} {f : OpenFile}
    (hf : Spec.AbsFs.fileOf a h = some (i, f)) (hd : f.dirty = true) (hv : Spec.AbsFs.volOpen a f.volume = true) :
    ∃ bytes gh' a', (step s (.flush h)).2.result = .ok .unit ∧
      VolInv (step s (.flush h)).1 gh' ∧ Abs (step s (.flush h)).1 gh' a' ∧
      (a'.slots f.dir)[f.idx]? = some (.file (storedMeta f.pm) bytes) ∧ (storedMeta f.pm).size = bytes.length ∧
      storedMeta f.pm ∈ Spec.AbsFs.listing (a'.slots f.dir) :=
  Lemmas.AbsFs.flushed_file_visible hI hA h hf hd hv

/-- **A call changes at most one slot of the existing directories** — the one `touched` names (the slot of the
handle for `write` / `flush_file` / `close_file`; the slot of the name, or the first free slot, for
`open_file_in_dir` / `delete_file_in_dir` / `make_dir_in_dir`; none for every other call): every other slot of
every existing directory — every other file's bytes and stored entry, every other directory entry — reads as before. -/
theorem untouched_unchanged (hI : VolInv s gh) (hA : Abs s gh a) (op : Op) (hc : FsCovered gh.vol s op) :
    ∃ gh' a', VolInv (step s op).1 gh' ∧ Abs (step s op).1 gh' a' ∧
      ∀ x j, x ∈ a.ids → Spec.AbsFs.touched a op ≠ some (x, j) → (a'.slots x)[j]? = (a.slots x)[j]? :=
  Lemmas.AbsFs.untouched_unchanged hI hA op hc

/-- The same about the abstract file system alone. -/
theorem absStep_untouched {a a' : AbsFs} {op : Op} {r : Res Payload} (h : absStep a op (a', r)) {x j : Nat}
    (hx : x ∈ a.ids) (hne : Spec.AbsFs.touched a op ≠ some (x, j)) : (a'.slots x)[j]? = (a.slots x)[j]? :=
  Lemmas.AbsFsTouch.absStep_untouched h hx hne

end

/-! ### Non-vacuity (evaluated by the kernel) -/

namespace Example
open Sdmmc.Lemmas.VolExample Sdmmc.Lemmas.AbsFs

/-- The abstract counterpart of the hand-built FAT16 medium of `Props/C03Inv` at its quiescent point (`mgr1`: root
with a label, a long-name fragment, `A.TXT` of 700 bytes, a deleted slot, the sub-directory `SUB` = cluster 4
holding `.`, `..`, `B.BIN` of 100 bytes and the empty `E.DAT`; handles 2 and 3 are the open root and `SUB`). -/
def a1 : AbsFs := absOf0 mgr1 gh1

theorem a1_abs : Abs mgr1 gh1 a1 := abs_absOf0 rfl

/-- What a slot is, its 8.3 name, the stored size and the number of bytes (files) or the target (directories). -/
def summary : Spec.AbsFs.Slot → String × Bytes × Nat × Nat
  | .deleted => ("deleted", [], 0, 0)
  | .frag _ => ("frag", [], 0, 0)
  | .file m b => ("file", m.name, m.size, b.length)
  | .dir m t => ("dir", m.name, m.size, t)

/-- The abstract root directory and `SUB`, evaluated. -/
theorem a1_root : (a1.slots 0).map summary =
    [("file", nLabel, 0, 0), ("frag", [], 0, 0), ("file", nA, 700, 700), ("deleted", [], 0, 0), ("dir", nSub, 0, 4)] := by
  decide +kernel

theorem a1_sub : (a1.slots 4).map summary =
    [("dir", Sfn.thisDir, 0, 4), ("dir", Sfn.parentDir, 0, 0), ("file", nB, 100, 100), ("file", nE, 0, 0)] := by
  decide +kernel

theorem a1_tables : a1.ids = [0, 4] ∧ a1.dirs.map (fun d => (d.handle, d.volume, d.dir)) = [(2, 1, 0), (3, 1, 4)] ∧
    a1.vols = [(1, 0)] ∧ a1.nextId = 10 := by decide +kernel

/-- The relation is not trivially true: the same tables with empty directories are not a counterpart. -/
theorem abs_rejects_empty_tree : ¬ Abs mgr1 gh1 { a1 with slots := fun _ => [] } := by
  intro h
  have h0 := h.slots 0 (by decide)
  have : (absSlots mgr1 gh1 0).length = 0 := by rw [← h0]; rfl
  have h5 : (absSlots mgr1 gh1 0).length = 5 := congrArg List.length a1_root |>.trans (by rfl) |> fun e => by
    rw [List.length_map] at e; exact e
  omega

theorem nameOK_of_eval {name : List Nat} {sfn0 : Bytes} (h : Sfn.createFromStr name = .ok sfn0)
    (h5 : sfn0.head? ≠ some 0xE5) : NameOK name := by
  intro sfn hs
  rw [h] at hs
  injection hs with hs
  rw [← hs]; exact h5

theorem ok_N : NameOK [78, 46, 84, 88, 84] :=
  nameOK_of_eval (sfn0 := [78, 32, 32, 32, 32, 32, 32, 32, 84, 88, 84]) (by decide +kernel) (by decide)
theorem ok_D : NameOK [68] :=
  nameOK_of_eval (sfn0 := [68, 32, 32, 32, 32, 32, 32, 32, 32, 32, 32]) (by decide +kernel) (by decide)
theorem ok_A : NameOK [65, 46, 84, 88, 84] :=
  nameOK_of_eval (sfn0 := [65, 32, 32, 32, 32, 32, 32, 32, 84, 88, 84]) (by decide +kernel) (by decide)

/-- A history over the quiescent medium: create `N.TXT` in the root (it takes the deleted slot), write 600 bytes,
flush, list the root, look `N.TXT` up, seek to 598, read (2 bytes come back), make `D` in `SUB`, delete `A.TXT`,
close the file, ask for the label, open `D`, list it, close it. -/
def ops : List Op :=
  [.openFile 2 [78, 46, 84, 88, 84] .ReadWriteCreate, .write 10 (List.replicate 600 7), .flush 10, .list 2,
   .find 2 [78, 46, 84, 88, 84], .seekStart 10 598, .read 10 10, .mkdir 3 [68], .delete 2 [65, 46, 84, 88, 84],
   .closeFile 10, .label 1, .openDir 3 [68], .list 12, .closeDir 12]

theorem ops_covered : FsCoveredRun vol16 mgr1 ops :=
  ⟨ok_N, trivial, trivial, trivial, ok_N, trivial, trivial, ok_D, ok_A, trivial, trivial, ok_D, trivial, trivial, trivial⟩

/-- The history theorem applies, with the evaluated abstract state as the start … -/
theorem ops_refine : ∃ gh' a', VolInv (run mgr1 ops).1 gh' ∧ SameGeom vol16 gh'.vol ∧ Abs (run mgr1 ops).1 gh' a' ∧
    absRun a1 ops ((run mgr1 ops).2.map (·.result)) a' :=
  fs_history_refines vol16 ops mgr1_inv a1_abs (SameGeom.refl vol16) ops_covered

/-- … and the calls really did something: what they answered, in short. -/
def short : Res Payload → String × List Nat
  | .ok (.handle h) => ("handle", [h])
  | .ok .unit => ("unit", [])
  | .ok (.bytes b) => ("bytes", b.map (·.toNat))
  | .ok (.entries es) => ("entries", es.map (·.size))
  | .ok (.entry e) => ("entry", [e.size])
  | .ok (.label (some l)) => ("label", l.map (·.toNat))
  | .ok _ => ("ok", [])
  | .err _ => ("err", [])
  | .panic _ => ("panic", [])
  | .diverged => ("diverged", [])

theorem ops_results : (run mgr1 ops).2.map (fun o => short o.result) =
    [("handle", [10]), ("unit", []), ("unit", []), ("entries", [0, 700, 600, 0]), ("entry", [600]), ("unit", []),
     ("bytes", [7, 7]), ("unit", []), ("unit", []), ("unit", []), ("label", [77, 89, 86, 79, 76, 32, 32, 32, 32, 32, 32]),
     ("handle", [12]), ("entries", [0, 0]), ("unit", [])] := by decide +kernel

/-- A history that closes the volume and then issues `open_volume` while NO volume is open (the hand-built medium
has no partition table, so the call mounts nothing; the hypothesis about the mounted record is discharged by
evaluation). -/
def ops2 : List Op := [.closeDir 2, .closeDir 3, .closeVolume 1, .openVolume 0]

theorem ops2_covered : FsCoveredRun vol16 mgr1 ops2 := by
  refine ⟨trivial, trivial, trivial, .inr fun h s' hr => ?_, trivial⟩
  have hev : (match (openRawVolume 0 (Lemmas.MHoare.resetLogs (run mgr1 (ops2.take 3)).1)).1 with
      | .ok _ => false | _ => true) = true := by decide +kernel
  have hst : (step (step (step mgr1 (.closeDir 2)).1 (.closeDir 3)).1 (.closeVolume 1)).1 = (run mgr1 (ops2.take 3)).1 := rfl
  rw [hst] at hr
  rw [hr] at hev
  cases hev

theorem ops2_refine : ∃ gh' a', VolInv (run mgr1 ops2).1 gh' ∧ SameGeom vol16 gh'.vol ∧ Abs (run mgr1 ops2).1 gh' a' ∧
    absRun a1 ops2 ((run mgr1 ops2).2.map (·.result)) a' :=
  fs_history_refines vol16 ops2 mgr1_inv a1_abs (SameGeom.refl vol16) ops2_covered

/-- The former excluded point: names whose 8.3 form would start with byte 0xE5.  Since the crate stores such a name
with 0x05 in the first byte (the FAT specification's substitution), `NameOK` holds for EVERY name
(`Props.C03All.name_ok_all`), so the `NameOK` hypotheses above are no restriction any more; the name "\xE5LD.TXT" is
looked up as `05 4C 44 …`, which no slot of the example root holds. -/
theorem find_e5_not_found : (match (step mgr1 (.find 2 [0xE5, 76, 68, 46, 84, 88, 84])).2.result with
    | .err .NotFound => true | _ => false) = true := by decide +kernel

end Example

end Sdmmc.Props.C01Fs
