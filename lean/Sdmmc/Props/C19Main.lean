/-
C19 — headline theorem.

Property C19, `statement` (verbatim):
  "For every byte string, the command checksum equals the remainder of the message modulo
  x^7+x^3+1 shifted left with the end bit set, and the data checksum equals the remainder modulo
  x^16+x^12+x^5+1 with zero initial value, so appending the big-endian data checksum to a message
  gives a message whose checksum is zero. Consequently every single-bit error, every double-bit
  error and every burst of up to 16 bits in a 512-byte block changes the data checksum."
`quantifier.text` (verbatim):
  "all messages: exhaustively all messages of length 0..3 (2^24+), every (running remainder,
  next byte) pair, every single-bit basis message of lengths 5, 16 and 512, and random messages
  up to 2 KiB"

`C19_main` is ONE statement about the functions REGENERATED FROM THE SOURCE —
`Gen.Funs.crc7`, `Gen.Funs.crc16 : List UInt8 → Nat` (`Gen/Funs.lean`, machine-translated from
sdcard/proto.rs) — for EVERY byte list `data` (no length bound).

How to read it.  `toBV b` is the byte `b` as 8 bits.  `specCrc7`, `specCrc16`
(`Spec/Poly.lean`, trusted): GF(2) long division `polyRem` of `m(x)·x^7` by `G7 = x^7+x^3+1`,
result shifted left with the end bit set; of `m(x)·x^16` by `G16 = x^16+x^12+x^5+1`, initial value
zero (`specCrc7_def`, `specCrc16_def` below).  `xorMsg a b`: byte-wise xor; `errPattern n off bits`:
the `n`-byte pattern that has exactly the bits `bits` (first and last set for a burst) from bit
offset `off` on.  A corrupted block is any `data'` whose bits are those of `data` xor the pattern.

Hypotheses: none beyond "the block has 512 bytes" and "the pattern lies inside the block" in the
detection clauses (they are the sentence's own).

Full / partial: FULL.  (A single-bit error is the burst `[true]`; a double-bit error at bit
positions `i < j` is the pattern `true, false…, true`; for distance above 16 this is not a
burst and is proved separately, `C19.crc16_detects_double`.)
-/
import Sdmmc.Props.C19
import Sdmmc.Props.C19Gen

namespace Sdmmc.Props.C19Main
open Sdmmc.Model Sdmmc.Spec Sdmmc.Gen
open Sdmmc.Props.C19Gen (toBV)

theorem specCrc7_def (m : List (BitVec 8)) :
    specCrc7 m = (bitsToBV 8 (polyRem G7 (msgBits m ++ List.replicate 7 false)) <<< 1) ||| 1#8 := rfl
theorem specCrc16_def (m : List (BitVec 8)) :
    specCrc16 m = bitsToBV 16 (polyRem G16 (msgBits m ++ List.replicate 16 false)) := rfl
theorem G7_def : G7 = [true, false, false, false, true, false, false, true] := rfl
theorem toBV_def (b : UInt8) : toBV b = BitVec.ofNat 8 b.toNat := rfl

/-- The big-endian bytes of a 16-bit value, as bit vectors. -/
theorem toBV_hi (X : BitVec 16) : toBV (UInt8.ofNat (X.toNat / 256)) = X.extractLsb' 8 8 := by
  apply BitVec.eq_of_toNat_eq
  simp only [toBV, BitVec.toNat_ofNat, BitVec.extractLsb'_toNat, UInt8.toNat_ofNat', Nat.shiftRight_eq_div_pow]
  omega
theorem toBV_lo (X : BitVec 16) : toBV (UInt8.ofNat (X.toNat % 256)) = X.extractLsb' 0 8 := by
  apply BitVec.eq_of_toNat_eq
  simp only [toBV, BitVec.toNat_ofNat, BitVec.extractLsb'_toNat, UInt8.toNat_ofNat', Nat.shiftRight_eq_div_pow]
  omega

structure Clauses (data : List UInt8) : Prop where
  /-- the command checksum: remainder modulo x^7+x^3+1, shifted left, end bit set -/
  crc7_is_remainder : Funs.crc7 data = (specCrc7 (data.map toBV)).toNat
  /-- the data checksum: remainder modulo x^16+x^12+x^5+1, zero initial value -/
  crc16_is_remainder : Funs.crc16 data = (specCrc16 (data.map toBV)).toNat
  /-- appending the big-endian data checksum gives a message whose checksum is zero -/
  append_self_zero :
    Funs.crc16 (data ++ [UInt8.ofNat (Funs.crc16 data / 256), UInt8.ofNat (Funs.crc16 data % 256)]) = 0
  /-- every single-bit error in a 512-byte block changes the data checksum -/
  single_bit : data.length = 512 → ∀ off, off < 4096 → ∀ data' : List UInt8,
    data'.map toBV = xorMsg (data.map toBV) (errPattern 512 off [true]) → Funs.crc16 data' ≠ Funs.crc16 data
  /-- every double-bit error -/
  double_bit : data.length = 512 → ∀ i j, i < j → j < 4096 → ∀ data' : List UInt8,
    data'.map toBV = xorMsg (data.map toBV) (errPattern 512 i (true :: List.replicate (j - i - 1) false ++ [true])) →
    Funs.crc16 data' ≠ Funs.crc16 data
  /-- every burst of up to 16 bits -/
  burst16 : data.length = 512 → ∀ off (bits : List Bool), bits ≠ [] → bits.length ≤ 16 →
    bits.head? = some true → off + bits.length ≤ 4096 → ∀ data' : List UInt8,
    data'.map toBV = xorMsg (data.map toBV) (errPattern 512 off bits) → Funs.crc16 data' ≠ Funs.crc16 data

theorem ne_of_model_ne {a b : List UInt8} (h : crc16 (a.map toBV) ≠ crc16 (b.map toBV)) :
    Funs.crc16 a ≠ Funs.crc16 b := by
  rw [C19Gen.crc16_eq, C19Gen.crc16_eq]
  exact fun he => h (BitVec.eq_of_toNat_eq he)

theorem C19_main (data : List UInt8) : Clauses data where
  crc7_is_remainder := by rw [C19Gen.crc7_eq, C19.crc7_eq_rem]
  crc16_is_remainder := by rw [C19Gen.crc16_eq, C19.crc16_eq_rem]
  append_self_zero := by
    rw [C19Gen.crc16_eq (data ++ _), C19Gen.crc16_eq data, List.map_append]
    simp only [List.map_cons, List.map_nil, toBV_hi, toBV_lo]
    rw [C19.crc16_append_self]; rfl
  single_bit := fun hl off ho data' h => ne_of_model_ne (by
    rw [h]; exact C19.crc16_detects_single _ (by simpa using hl) off ho)
  double_bit := fun hl i j hij hj data' h => ne_of_model_ne (by
    rw [h]; exact C19.crc16_detects_double _ (by simpa using hl) i j hij hj)
  burst16 := fun hl off bits hne hlen hfirst hfit data' h => ne_of_model_ne (by
    rw [h]; exact C19.crc16_detects_burst16 _ (by simpa using hl) off bits hne hlen hfirst hfit)

namespace Example

/-- Evaluated on the source's functions: CMD0's five bytes give `0x95`; `"123456789"` gives `0x31C3`,
and with that checksum appended the checksum is 0. -/
example : Funs.crc7 [0x40, 0, 0, 0, 0] = 0x95 := by decide +kernel
example : Funs.crc16 [0x31, 0x32, 0x33, 0x34, 0x35, 0x36, 0x37, 0x38, 0x39] = 0x31C3 := by decide +kernel
example : Funs.crc16 [0x31, 0x32, 0x33, 0x34, 0x35, 0x36, 0x37, 0x38, 0x39, 0x31, 0xC3] = 0 := by decide +kernel

/-- The detection clauses have instances: a block of 512 bytes 0xA5 with bit 9 flipped. -/
example : Funs.crc16 (0xA5 :: 0xE5 :: List.replicate 510 0xA5) ≠ Funs.crc16 (List.replicate 512 0xA5) :=
  (C19_main (List.replicate 512 0xA5)).single_bit (List.length_replicate ..) 9 (by decide) _ (by decide +kernel)

end Example

end Sdmmc.Props.C19Main
