/-
C01 with SEVERAL OPEN VOLUMES — every history of API calls on a volume manager with several open volumes is a run of the
multi-volume abstract file system `Spec.AbsFs.AbsFsN` (`Sdmmc/Spec/AbsFsN.lean`: read its guide first) WITH THE SAME
ANSWERS, and the consequences per volume.

WHAT THE ABSTRACT FILE SYSTEM SAYS.  `AbsFsN` keeps what the crate shares between the volumes (handle generator, clock,
the three tables with their global limits) and ONE DIRECTORY TREE PER OPEN VOLUME HANDLE.  A call whose handle leads to
the open volume `hv` IS the one-volume call of `Spec.AbsFs` (`Props.C01Fs`) on what `hv` sees (`viewOf A hv`), and it
changes nothing else but the handle generator and — through the tables — the free room: the open files / directories of
the other volumes are kept, their trees are untouched (`onVolume`, `Kept`).  The tables are related UP TO ORDER
(`TPerm`; `swap_remove` on a global table moves a record of possibly another volume).

THEOREMS.
* `fs_step_refines_multiN`, `fs_history_refines_multi`: every call / history from a state with `VolInvN ∧ MirrorN` and an
  abstract counterpart `A` (`AbsN s ghs A`) is a step / run of `AbsFsN` from `A` with the answers the calls gave; the
  invariant and the relation hold afterwards.  `abs_exists_multi`: the abstract counterpart exists.
* `volume_view`, `volume_step_lifts`: the bridge to `Props.C01Fs` — for a call addressed to volume record `i` the
  projection `proj s i` satisfies the one-volume invariant, `viewOf B hv` is ITS abstract counterpart, the outputs are
  equal, and every abstract successor of the projection extends to an abstract successor of the whole manager that keeps
  the rest.  With them every theorem of `Props.C01Fs` applies to each volume: `read_returns_model_bytes_multi`, the mode
  table per volume (`mode_table_multi`, `mode_table_absent_multi`, `mode_refusals_multi`).
* Isolation: `step_keeps_other_volume`, `other_volume_calls_invisible` — along a history NONE of whose calls works on the
  volume `hv`, the tree of `hv` and its open-file records do not change (and the history is a run of `AbsFsN`), so
  (`read_after_other_volume_calls`) a later `read` on a file of `hv` returns bytes of the tree `hv` had AT THE START.

HYPOTHESES.  `CoveredNRun` (`Props.C03Multi`): only about `open_volume` calls THAT SUCCEED — the handle handed out is
carried by no open volume, the partition overlaps no open one, the mounted record is sound.  `FreshRun`: only about
`get_root_volume_label` — the handle it would use for its temporary root directory is carried by no open directory
(`LabelFresh`; it can fail only after the 32-bit handle generator has wrapped around).  Without it the call would list
"the first directory with that handle", possibly a directory of ANOTHER volume: the invariant still holds
(`Props.C03Multi.step_multi_label`), the refinement to `labelS` on the volume's own view does not.

NOT LITERALLY TRUE, and therefore stated differently: "removing the calls on other volumes does not change the answers on
volume `i`".  The handle VALUES answered by `open_*` come from the shared generator, and `TooManyOpenDirs` /
`TooManyOpenFiles` depend on the records of ALL volumes; both are visible in `viewOf` (`nextId`, the lowered limits).
What IS true is `other_volume_calls_invisible`: nothing else of volume `hv` changes.

LIMITS OF THE STATEMENT.  `open_volume` is specified as in `Spec.AbsFs`: it may fail with any error, or hand out the next
handle with WHATEVER tree the partition holds (the abstract state does not track unmounted partitions).  The relation
`AbsN` relates the tables up to order; with handles occurring twice in a table (after a wrap-around of the generator)
"the first record with the handle" therefore means "some record with the handle" — see `Spec/AbsFsN.lean`.
-/
import Sdmmc.Lemmas.VolNAbsT
import Sdmmc.Lemmas.VolNAbsW
import Sdmmc.Lemmas.VolNAbsX
import Sdmmc.Props.C03Multi
import Sdmmc.Props.C01Fs

namespace Sdmmc.Props.C01Multi
open Sdmmc.Model Sdmmc.Model.Fat Sdmmc.Spec.Volume
open Sdmmc.Spec hiding run step NoFault Coherent
open Sdmmc.Spec.AbsFs (AbsFsN OpenFile OpenDir viewOf TPerm SameUpToOrder Kept onVolume absStep targetA coreStepN absStepN
  absRunN Meta storedMeta)
open Sdmmc.Lemmas.VolN (LabelFresh AbsN AbsNx filesOn)
open Sdmmc.Lemmas.AbsFs (Abs FsCovered)
open Sdmmc.Props.C03Inv (NameOK)
open Sdmmc.Props.C03Multi (CoveredN CoveredNRun proj_def target_lt step_proj lifted_of_target)

/-! ### Vocabulary -/

/-- A history all of whose `get_root_volume_label` calls find the handle for their temporary directory unused. -/
def FreshRun : Mgr → List Op → Prop
  | _, [] => True
  | s, op :: ops => LabelFresh s op ∧ FreshRun (step s op).1 ops

/-- What `AbsN s ghs A` says: some reordering `B` of the tables of `A` is the abstract counterpart of `s`, the tables
taken in the order of the manager (`AbsNx`: scalars, limits; the volume table; the open directories; the open files,
each related to its record as in `Props.C01Fs`; for every open volume the tree the ghost of that volume describes). -/
theorem absN_iff {s : Mgr} {ghs : List Ghost} {A : AbsFsN} : AbsN s ghs A ↔ ∃ B, TPerm A B ∧ AbsNx s ghs B := Iff.rfl

/-- **Every state with the invariant has an abstract counterpart.** -/
theorem abs_exists_multi {s : Mgr} {ghs : List Ghost} (hI : VolInvN s ghs) : ∃ A, AbsN s ghs A := by
  obtain ⟨B, hB⟩ := Lemmas.VolN.absNx_total hI
  exact ⟨B, hB.toAbsN⟩

section
variable {s : Mgr} {ghs : List Ghost} {B : AbsFsN}

/-! ### The bridge to the one-volume theorems -/

/-- **What volume record `i` sees is a one-volume file system with its own abstract counterpart**: for a call addressed
to record `i`, the projection satisfies the one-volume invariant (identical FAT copies), `viewOf B hv` is its abstract
counterpart, the call is covered for it, and the output (answer, device writes, device reads) is the output of the call
on the projection.  Every theorem of `Props.C01Fs` applies to `proj s i`, `gh`, `viewOf B hv`. -/
theorem volume_view (hI : VolInvN s ghs) (hm : MirrorN s ghs) (hB : AbsNx s ghs B) {op : Op} {i : Nat} {vi : VolInfo}
    {gh : Ghost} (ht : target s op = some i) (hvi : s.vols[i]? = some vi) (hgh : ghs[i]? = some gh) (hf : LabelFresh s op) :
    VolInv (proj s i) gh ∧ Mirror gh.vol (proj s i).dev.disk ∧ Abs (proj s i) gh (viewOf B vi.rawVolume) ∧
      (step s op).2 = (step (proj s i) op).2 ∧ FsCovered gh.vol (proj s i) op := by
  obtain ⟨hout, _⟩ := step_proj hI op ht hvi hf
  rw [proj_def hvi]
  refine ⟨Lemmas.VolN.volInv_proj hI hvi hgh, hm gh (List.mem_of_getElem? hgh), Lemmas.VolN.abs_view hI hB hvi hgh, ?_, ?_⟩
  · rw [← proj_def hvi]; exact hout.symm
  · cases op <;> first | cases ht | exact C03All.name_ok_all _ | exact trivial

/-- **Every abstract successor of the projection extends to the whole manager**: if the call on the projection leads to
a state with the one-volume invariant (ghost `gh'`) and abstract counterpart `a'`, then the state the call leaves on the
whole manager has the invariant (ghost `gh'` at record `i`) and an abstract counterpart `A'` whose view for this volume
is `a'` (up to table order) and which keeps everything else of `B` (`Kept`). -/
theorem volume_step_lifts (hI : VolInvN s ghs) (hm : MirrorN s ghs) (hB : AbsNx s ghs B) {op : Op} {i : Nat} {vi : VolInfo}
    {gh : Ghost} (ht : target s op = some i) (hvi : s.vols[i]? = some vi) (hgh : ghs[i]? = some gh) (hf : LabelFresh s op)
    {gh' : Ghost} {a' : Spec.AbsFs.AbsFs} (hV : VolInv (step (proj s i) op).1 gh') (hA' : Abs (step (proj s i) op).1 gh' a') :
    ∃ A', VolInvN (step s op).1 (ghs.set i gh') ∧ MirrorN (step s op).1 (ghs.set i gh') ∧
      AbsN (step s op).1 (ghs.set i gh') A' ∧ SameUpToOrder a' (viewOf A' vi.rawVolume) ∧ Kept B A' vi.rawVolume := by
  obtain ⟨_, _, _, _, _, _, l1, l2, l3⟩ := step_proj hI op ht hvi hf
  obtain ⟨gh'', hL, hm'', _⟩ := lifted_of_target hI hm op ht hvi hgh hf
  have hG : SameGeom gh.vol gh'.vol := hL.geom_of_inv hvi hV
  have hL' : Lemmas.VolN.Lifted s (step s op).1 (step (proj s i) op).1 i vi gh gh' :=
    ⟨hL.rel, hL.volKeys, hL.restVols, hL.restDirs, hL.restFiles, hV, hG, hL.frame⟩
  have hI' := Lemmas.VolN.volInvN_reassemble hI hvi hgh hL'
  have hm' := Lemmas.VolN.mirrorN_reassemble hI hm hvi hgh hL' (((hL.geom.symm.trans hG).mirror _).2 hm'')
  obtain ⟨h1, h2, h3⟩ := Lemmas.VolN.absN_target hI hB hvi hgh hL' hI' ⟨l1, l2, l3⟩ hA'
  exact ⟨_, hI', hm', h3, h1, h2⟩

/-! ### Every call, every history -/

/-- One call, from the abstract counterpart with the tables in the order of the manager. -/
theorem fs_step_core (hI : VolInvN s ghs) (hm : MirrorN s ghs) (hB : AbsNx s ghs B) (op : Op) (hc : CoveredN s op)
    (hf : LabelFresh s op) :
    ∃ ghs' A', VolInvN (step s op).1 ghs' ∧ MirrorN (step s op).1 ghs' ∧ AbsN (step s op).1 ghs' A' ∧
      coreStepN B op (A', (step s op).2.result) := by
  cases ht : target s op with
  | some i =>
    obtain ⟨vi, hvi⟩ := target_lt ht
    obtain ⟨gh, hgh⟩ : ∃ gh, ghs[i]? = some gh :=
      ⟨_, List.getElem?_eq_getElem (by rw [hI.len]; exact (List.getElem?_eq_some_iff.1 hvi).1)⟩
    obtain ⟨hP, _, hAbs, hout, hcov⟩ := volume_view hI hm hB ht hvi hgh hf
    obtain ⟨gh', a', hV, _, hA', hstep⟩ := C01Fs.fs_step_refines gh.vol hP hAbs (SameGeom.refl _) op hcov
    obtain ⟨A', h1, h2, h3, h4, h5⟩ := volume_step_lifts hI hm hB ht hvi hgh hf hV hA'
    rw [← hout] at hstep
    have hon : onVolume B vi.rawVolume op A' (step s op).2.result := ⟨a', hstep, h4, h5⟩
    have hta := Lemmas.VolN.targetA_some hB ht hvi
    refine ⟨_, A', h1, h2, h3, ?_⟩
    cases op <;> first | cases ht | (simp only [coreStepN, hta]; exact hon)
  | none =>
    rw [Lemmas.MHoare.step_unlocked s op hI.unlocked]
    exact Lemmas.VolN.runOp_core_none (Lemmas.VolN.volInvN_resetLogs hI) (Lemmas.VolN.mirrorN_frame hm rfl)
      (Lemmas.VolN.absNx_resetLogs hB) op ht fun idx e => by subst e; exact hc

end

/-- **`fs_step_refines_multiN`.**  Every API call — all constructors of `Op`, whatever it answers — on a manager with
several open volumes is a step of the multi-volume abstract file system with the answer the call gave; the invariant
and the abstraction relation hold afterwards. -/
theorem fs_step_refines_multiN (s : Mgr) (op : Op) (ghs : List Ghost) (A : AbsFsN) (hI : VolInvN s ghs) (hm : MirrorN s ghs)
    (hA : AbsN s ghs A) (hc : CoveredN s op) (hf : LabelFresh s op) :
    ∃ ghs' A', VolInvN (step s op).1 ghs' ∧ MirrorN (step s op).1 ghs' ∧ AbsN (step s op).1 ghs' A' ∧
      absStepN A op (A', (step s op).2.result) := by
  obtain ⟨B, hAB, hB⟩ := hA
  obtain ⟨ghs', A', h1, h2, h3, h4⟩ := fs_step_core hI hm hB op hc hf
  refine ⟨ghs', A', h1, h2, h3, ?_⟩
  unfold absStepN
  rw [if_neg (by rw [hAB.locked, hB.locked, hI.unlocked]; exact Bool.false_ne_true)]
  exact ⟨B, hAB, h4⟩

/-- **`fs_history_refines_multi`.**  Every history is a run of the multi-volume abstract file system with the same
answers. -/
theorem fs_history_refines_multi (ops : List Op) (s : Mgr) (ghs : List Ghost) (A : AbsFsN) (hI : VolInvN s ghs)
    (hm : MirrorN s ghs) (hA : AbsN s ghs A) (hc : CoveredNRun s ops) (hf : FreshRun s ops) :
    ∃ ghs' A', VolInvN (run s ops).1 ghs' ∧ MirrorN (run s ops).1 ghs' ∧ AbsN (run s ops).1 ghs' A' ∧
      absRunN A ops ((run s ops).2.map (·.result)) A' := by
  induction ops generalizing s ghs A with
  | nil => exact ⟨ghs, A, hI, hm, hA, rfl⟩
  | cons op ops ih =>
    obtain ⟨ghs1, A1, h1, m1, a1, s1⟩ := fs_step_refines_multiN s op ghs A hI hm hA hc.1 hf.1
    obtain ⟨ghs2, A2, h2, m2, a2, s2⟩ := ih (step s op).1 ghs1 A1 h1 m1 a1 hc.2 hf.2
    exact ⟨ghs2, A2, by unfold run; exact h2, by unfold run; exact m2, by unfold run; exact a2, A1, s1, s2⟩

/-- … from the invariant alone. -/
theorem fs_history_refines_multi_from_invariant (ops : List Op) (s : Mgr) (ghs : List Ghost) (hI : VolInvN s ghs)
    (hm : MirrorN s ghs) (hc : CoveredNRun s ops) (hf : FreshRun s ops) :
    ∃ A ghs' A', AbsN s ghs A ∧ VolInvN (run s ops).1 ghs' ∧ MirrorN (run s ops).1 ghs' ∧ AbsN (run s ops).1 ghs' A' ∧
      absRunN A ops ((run s ops).2.map (·.result)) A' := by
  obtain ⟨A, hA⟩ := abs_exists_multi hI
  obtain ⟨ghs', A', h⟩ := fs_history_refines_multi ops s ghs A hI hm hA hc hf
  exact ⟨A, ghs', A', hA, h⟩

/-! ### Reads -/

/-- **`read` returns the bytes of the abstract file of ITS volume**: for a file handle that leads to volume record `i`
(handle `hv`), the abstract state has an open-file record `f` with that handle on `hv`, the slot it refers to IN THE TREE
OF `hv` holds a file, and `read h n` answers the bytes of that file from the record's position on, at most `n`. -/
theorem read_returns_model_bytes_multi {s : Mgr} {ghs : List Ghost} {A : AbsFsN} (hI : VolInvN s ghs) (hm : MirrorN s ghs)
    (hA : AbsN s ghs A) (h n : Nat) {i : Nat} {vi : VolInfo} (ht : fileTarget s h = some i) (hvi : s.vols[i]? = some vi) :
    ∃ f, f ∈ A.files ∧ f.handle = h ∧ f.volume = vi.rawVolume ∧ ∃ m bytes,
      (A.slots vi.rawVolume f.dir)[f.idx]? = some (.file m bytes) ∧
      (step s (.read h n)).2.result = .ok (.bytes ((bytes.drop f.pos).take n)) := by
  obtain ⟨B, hAB, hB⟩ := hA
  obtain ⟨gh, hgh⟩ : ∃ gh, ghs[i]? = some gh :=
    ⟨_, List.getElem?_eq_getElem (by rw [hI.len]; exact (List.getElem?_eq_some_iff.1 hvi).1)⟩
  obtain ⟨hP, _, hAbs, hout, _⟩ := volume_view (op := .read h n) hI hm hB ht hvi hgh trivial
  obtain ⟨k, f, hfo, hfm, hfh, hfv, hvo⟩ := Lemmas.VolN.view_fileOf hI hB ht hvi
  obtain ⟨m, bytes, _, hsl, hres, _⟩ := C01Fs.read_returns_model_bytes hP hAbs h n hfo hvo
  refine ⟨f, hAB.files.symm.subset hfm, hfh, hfv, m, bytes, ?_, by rw [hout]; exact hres⟩
  rw [hAB.slots]
  exact hsl

/-! ### The mode table, per volume -/

section
variable {s : Mgr} {ghs : List Ghost} {B : AbsFsN} {i : Nat} {vi : VolInfo} {gh : Ghost}

/-- **The mode table of `open_file_in_dir`, file present, on the volume the directory handle leads to** — the statement
of `Props.C01Fs.mode_table` about `a := viewOf B hv`, with the answer of the multi-volume call; the abstract successor
`A'` has the one-volume successor `a'` as its view of `hv` and keeps everything else. -/
theorem mode_table_multi (hI : VolInvN s ghs) (hm : MirrorN s ghs) (hB : AbsNx s ghs B) (d : Nat) (name : List Nat)
    (mode : Mode) (ht : dirTarget s d = some i) (hvi : s.vols[i]? = some vi) (hgh : ghs[i]? = some gh)
    (hnf : ¬ (viewOf B vi.rawVolume).files.length ≥ (viewOf B vi.rawVolume).maxFiles) {od : OpenDir} {sfn : Bytes}
    (hctx : Spec.AbsFs.dirCtx (viewOf B vi.rawVolume) d name = .ok (od, sfn)) {j : Nat} {m : Meta} {bytes : Bytes}
    (hlk : Spec.AbsFs.lookup ((viewOf B vi.rawVolume).slots od.dir) sfn = some j)
    (hsl : ((viewOf B vi.rawVolume).slots od.dir)[j]? = some (.file m bytes))
    (hno : Spec.AbsFs.isOpenAt (viewOf B vi.rawVolume) od.volume od.dir j = false) (hrw : Attr.isReadOnly m.attr = false) :
    ∃ ghs' A' a', VolInvN (step s (.openFile d name mode)).1 ghs' ∧ MirrorN (step s (.openFile d name mode)).1 ghs' ∧
      AbsN (step s (.openFile d name mode)).1 ghs' A' ∧ SameUpToOrder a' (viewOf A' vi.rawVolume) ∧ Kept B A' vi.rawVolume ∧
      (mode = .ReadWriteCreate →
        (step s (.openFile d name mode)).2.result = .err .FileAlreadyExists ∧ a' = viewOf B vi.rawVolume) ∧
      (mode ≠ .ReadWriteCreate → (step s (.openFile d name mode)).2.result = .ok (.handle B.nextId) ∧
        a'.files = (viewOf B vi.rawVolume).files ++ [⟨B.nextId, od.volume, solveModeVariant mode true, od.dir, j,
          if solveModeVariant mode true = .ReadWriteAppend then m.size else 0,
          if solveModeVariant mode true = .ReadWriteTruncate then { m with size := 0, mtime := B.clock } else m, false⟩] ∧
        (a'.slots od.dir)[j]? = some (if solveModeVariant mode true = .ReadWriteTruncate
          then .file (storedMeta { m with size := 0, mtime := B.clock }) [] else .file m bytes)) := by
  obtain ⟨hP, _, hAbs, hout, _⟩ := volume_view (op := .openFile d name mode) hI hm hB ht hvi hgh trivial
  obtain ⟨gh', a', hV, hA', h1, h2⟩ := C01Fs.mode_table hP hAbs d name mode (C03All.name_ok_all name) hnf hctx hlk hsl hno hrw
  obtain ⟨A', k1, k2, k3, k4, k5⟩ := volume_step_lifts (op := .openFile d name mode) hI hm hB ht hvi hgh trivial hV hA'
  rw [← hout] at h1 h2
  exact ⟨_, A', a', k1, k2, k3, k4, k5, h1, h2⟩

/-- **The mode table, file absent, per volume** (`Props.C01Fs.mode_table_absent` about `viewOf B hv`). -/
theorem mode_table_absent_multi (hI : VolInvN s ghs) (hm : MirrorN s ghs) (hB : AbsNx s ghs B) (d : Nat) (name : List Nat)
    (mode : Mode) (ht : dirTarget s d = some i) (hvi : s.vols[i]? = some vi) (hgh : ghs[i]? = some gh)
    (hnf : ¬ (viewOf B vi.rawVolume).files.length ≥ (viewOf B vi.rawVolume).maxFiles) {od : OpenDir} {sfn : Bytes}
    (hctx : Spec.AbsFs.dirCtx (viewOf B vi.rawVolume) d name = .ok (od, sfn))
    (hlk : Spec.AbsFs.lookup ((viewOf B vi.rawVolume).slots od.dir) sfn = none) :
    ∃ ghs' A' a', VolInvN (step s (.openFile d name mode)).1 ghs' ∧ MirrorN (step s (.openFile d name mode)).1 ghs' ∧
      AbsN (step s (.openFile d name mode)).1 ghs' A' ∧ SameUpToOrder a' (viewOf A' vi.rawVolume) ∧ Kept B A' vi.rawVolume ∧
      ((mode = .ReadOnly ∨ mode = .ReadWriteAppend ∨ mode = .ReadWriteTruncate) →
        (step s (.openFile d name mode)).2.result = .err .NotFound ∧ a' = viewOf B vi.rawVolume) ∧
      ((mode = .ReadWriteCreate ∨ mode = .ReadWriteCreateOrTruncate ∨ mode = .ReadWriteCreateOrAppend) →
        ((step s (.openFile d name mode)).2.result = .err .NotEnoughSpace ∧ a' = viewOf B vi.rawVolume) ∨
        ((step s (.openFile d name mode)).2.result = .ok (.handle B.nextId) ∧
          a'.files = (viewOf B vi.rawVolume).files ++ [⟨B.nextId, od.volume, .ReadWriteCreate, od.dir,
            Spec.AbsFs.freeIdx ((viewOf B vi.rawVolume).slots od.dir), 0, Spec.AbsFs.newMeta sfn 0 B.clock, false⟩] ∧
          (a'.slots od.dir)[Spec.AbsFs.freeIdx ((viewOf B vi.rawVolume).slots od.dir)]? =
            some (.file (storedMeta (Spec.AbsFs.newMeta sfn 0 B.clock)) []))) := by
  obtain ⟨hP, _, hAbs, hout, _⟩ := volume_view (op := .openFile d name mode) hI hm hB ht hvi hgh trivial
  obtain ⟨gh', a', hV, hA', h1, h2⟩ := C01Fs.mode_table_absent hP hAbs d name mode (C03All.name_ok_all name) hnf hctx hlk
  obtain ⟨A', k1, k2, k3, k4, k5⟩ := volume_step_lifts (op := .openFile d name mode) hI hm hB ht hvi hgh trivial hV hA'
  rw [← hout] at h1 h2
  exact ⟨_, A', a', k1, k2, k3, k4, k5, h1, h2⟩

/-- **The refusals of the mode table, per volume** (`Props.C01Fs.mode_refusals` about `viewOf B hv`): the table of open
files being full — counted over ALL volumes: `(viewOf B hv).maxFiles` is the global limit minus the other volumes'
records — refuses everything; an open file is refused in every mode; a read-only file in every mode but `ReadOnly` and
`ReadWriteCreate`; a directory is never opened as a file.  The state of the volume is unchanged. -/
theorem mode_refusals_multi (hI : VolInvN s ghs) (hm : MirrorN s ghs) (hB : AbsNx s ghs B) (d : Nat) (name : List Nat)
    (mode : Mode) (ht : dirTarget s d = some i) (hvi : s.vols[i]? = some vi) (hgh : ghs[i]? = some gh) :
    ∃ ghs' A' a', VolInvN (step s (.openFile d name mode)).1 ghs' ∧ MirrorN (step s (.openFile d name mode)).1 ghs' ∧
      AbsN (step s (.openFile d name mode)).1 ghs' A' ∧ SameUpToOrder a' (viewOf A' vi.rawVolume) ∧ Kept B A' vi.rawVolume ∧
      ((viewOf B vi.rawVolume).files.length ≥ (viewOf B vi.rawVolume).maxFiles →
        (step s (.openFile d name mode)).2.result = .err .TooManyOpenFiles ∧ a' = viewOf B vi.rawVolume) ∧
      (¬ (viewOf B vi.rawVolume).files.length ≥ (viewOf B vi.rawVolume).maxFiles → ∀ od sfn j,
        Spec.AbsFs.dirCtx (viewOf B vi.rawVolume) d name = .ok (od, sfn) →
        Spec.AbsFs.lookup ((viewOf B vi.rawVolume).slots od.dir) sfn = some j →
        (∀ m bytes, ((viewOf B vi.rawVolume).slots od.dir)[j]? = some (.file m bytes) →
          (Spec.AbsFs.isOpenAt (viewOf B vi.rawVolume) od.volume od.dir j = true →
            (step s (.openFile d name mode)).2.result = .err .FileAlreadyOpen ∧ a' = viewOf B vi.rawVolume) ∧
          (Spec.AbsFs.isOpenAt (viewOf B vi.rawVolume) od.volume od.dir j = false → mode ≠ .ReadWriteCreate →
            Attr.isReadOnly m.attr = true → mode ≠ .ReadOnly →
            (step s (.openFile d name mode)).2.result = .err .ReadOnly ∧ a' = viewOf B vi.rawVolume)) ∧
        (∀ m t, ((viewOf B vi.rawVolume).slots od.dir)[j]? = some (.dir m t) → a' = viewOf B vi.rawVolume ∧
          ((step s (.openFile d name mode)).2.result = .err .FileAlreadyExists ∨
           (step s (.openFile d name mode)).2.result = .err .ReadOnly ∨
           (step s (.openFile d name mode)).2.result = .err .OpenedDirAsFile))) := by
  obtain ⟨hP, _, hAbs, hout, _⟩ := volume_view (op := .openFile d name mode) hI hm hB ht hvi hgh trivial
  obtain ⟨gh', a', hV, hA', h1, h2⟩ := C01Fs.mode_refusals hP hAbs d name mode (C03All.name_ok_all name)
  obtain ⟨A', k1, k2, k3, k4, k5⟩ := volume_step_lifts (op := .openFile d name mode) hI hm hB ht hvi hgh trivial hV hA'
  rw [← hout] at h1 h2
  exact ⟨_, A', a', k1, k2, k3, k4, k5, h1, h2⟩

/-- The room `open_file_in_dir` sees on a volume is the global room: the view's table is full iff the global one is. -/
theorem view_full_iff (B : AbsFsN) (hv : Nat) :
    (viewOf B hv).files.length ≥ (viewOf B hv).maxFiles ↔ B.files.length ≥ B.maxFiles := by
  have := Lemmas.VolN.length_filter_add (fun f : OpenFile => decide (f.volume = hv)) B.files
  show (B.files.filter _).length ≥ B.maxFiles - (B.files.filter _).length ↔ _
  omega

end

/-! ### The volumes do not see each other -/

/-- The call does not work on the volume with handle `hv`: its handle leads to another volume record or to none, and
it is no `open_volume` handing out `hv` itself. -/
def Foreign (hv : Nat) (s : Mgr) (op : Op) : Prop :=
  (∀ (i : Nat) (vi : VolInfo), target s op = some i → s.vols[i]? = some vi → vi.rawVolume ≠ hv) ∧
  (∀ idx, op = .openVolume idx → s.nextId ≠ hv)

def ForeignRun (hv : Nat) : Mgr → List Op → Prop
  | _, [] => True
  | s, op :: ops => Foreign hv s op ∧ ForeignRun hv (step s op).1 ops

/-- **A call that does not work on the volume `hv` leaves the tree of `hv` and its open-file records alone.** -/
theorem step_keeps_other_volume (s : Mgr) (op : Op) (ghs : List Ghost) (A : AbsFsN) (hI : VolInvN s ghs) (hm : MirrorN s ghs)
    (hA : AbsN s ghs A) (hc : CoveredN s op) (hf : LabelFresh s op) (hv : Nat) (hfo : Foreign hv s op) :
    ∃ ghs' A', VolInvN (step s op).1 ghs' ∧ MirrorN (step s op).1 ghs' ∧ AbsN (step s op).1 ghs' A' ∧
      absStepN A op (A', (step s op).2.result) ∧
      A'.ids hv = A.ids hv ∧ A'.slots hv = A.slots hv ∧ (filesOn A' hv).Perm (filesOn A hv) := by
  obtain ⟨B, hAB, hB⟩ := hA
  obtain ⟨ghs', A', h1, h2, h3, h4⟩ := fs_step_core hI hm hB op hc hf
  have hne : targetA B op ≠ some hv := by
    rw [Lemmas.VolN.targetA_eq hB]
    cases ht : target s op with
    | none => exact fun e => by cases e
    | some i =>
      cases hvi : s.vols[i]? with
      | none => intro e; rw [show (some i).bind (fun i => (s.vols[i]?).map (·.rawVolume)) = (s.vols[i]?).map (·.rawVolume) from rfl, hvi] at e; cases e
      | some vi =>
        intro e
        rw [show (some i).bind (fun i => (s.vols[i]?).map (·.rawVolume)) = (s.vols[i]?).map (·.rawVolume) from rfl, hvi] at e
        exact hfo.1 i vi ht hvi (Option.some.inj e)
  obtain ⟨k1, k2, k3⟩ := Lemmas.VolN.coreStepN_other h4 hne fun idx e => by
    rw [hB.nextId]; exact Ne.symm (hfo.2 idx e)
  refine ⟨ghs', A', h1, h2, h3, ?_, by rw [k1, hAB.ids], by rw [k2, hAB.slots], k3.trans (hAB.files.filter _).symm⟩
  unfold absStepN
  rw [if_neg (by rw [hAB.locked, hB.locked, hI.unlocked]; exact Bool.false_ne_true)]
  exact ⟨B, hAB, h4⟩

/-- **`other_volume_calls_invisible`.**  Along a history none of whose calls works on the volume `hv` — whatever it does
on the other volumes: create, write, delete, `mkdir`, close and re-open them — the directory tree of `hv` and the
open-file records of `hv` do not change.  (What does change for `hv` is shared: the next handle, the clock if the host
advances it, and the free room in the tables.) -/
theorem other_volume_calls_invisible (ops : List Op) (s : Mgr) (ghs : List Ghost) (A : AbsFsN) (hI : VolInvN s ghs)
    (hm : MirrorN s ghs) (hA : AbsN s ghs A) (hc : CoveredNRun s ops) (hf : FreshRun s ops) (hv : Nat)
    (hfo : ForeignRun hv s ops) :
    ∃ ghs' A', VolInvN (run s ops).1 ghs' ∧ MirrorN (run s ops).1 ghs' ∧ AbsN (run s ops).1 ghs' A' ∧
      absRunN A ops ((run s ops).2.map (·.result)) A' ∧
      A'.ids hv = A.ids hv ∧ A'.slots hv = A.slots hv ∧ (filesOn A' hv).Perm (filesOn A hv) := by
  induction ops generalizing s ghs A with
  | nil => exact ⟨ghs, A, hI, hm, hA, rfl, rfl, rfl, List.Perm.refl _⟩
  | cons op ops ih =>
    obtain ⟨ghs1, A1, h1, m1, a1, s1, i1, l1, f1⟩ := step_keeps_other_volume s op ghs A hI hm hA hc.1 hf.1 hv hfo.1
    obtain ⟨ghs2, A2, h2, m2, a2, s2, i2, l2, f2⟩ := ih (step s op).1 ghs1 A1 h1 m1 a1 hc.2 hf.2 hfo.2
    exact ⟨ghs2, A2, by unfold run; exact h2, by unfold run; exact m2, by unfold run; exact a2, ⟨A1, s1, s2⟩,
      i2.trans i1, l2.trans l1, f2.trans f1⟩

/-- **A read after calls on other volumes**: after a history none of whose calls works on the volume `hv`, a `read`
through a file handle of `hv` returns bytes of the tree `hv` had AT THE START of the history, from the position of an
open-file record `hv` had at the start. -/
theorem read_after_other_volume_calls (ops : List Op) (s : Mgr) (ghs : List Ghost) (A : AbsFsN) (hI : VolInvN s ghs)
    (hm : MirrorN s ghs) (hA : AbsN s ghs A) (hc : CoveredNRun s ops) (hf : FreshRun s ops) (h n : Nat) {i : Nat}
    {vi : VolInfo} (ht : fileTarget (run s ops).1 h = some i) (hvi : (run s ops).1.vols[i]? = some vi)
    (hfo : ForeignRun vi.rawVolume s ops) :
    ∃ f, f ∈ A.files ∧ f.handle = h ∧ f.volume = vi.rawVolume ∧ ∃ m bytes,
      (A.slots vi.rawVolume f.dir)[f.idx]? = some (.file m bytes) ∧
      (step (run s ops).1 (.read h n)).2.result = .ok (.bytes ((bytes.drop f.pos).take n)) := by
  obtain ⟨ghs', A', h1, m1, a1, _, _, l1, f1⟩ := other_volume_calls_invisible ops s ghs A hI hm hA hc hf vi.rawVolume hfo
  obtain ⟨f, hfm, hfh, hfv, m, bytes, hsl, hres⟩ := read_returns_model_bytes_multi h1 m1 a1 h n ht hvi
  have hfA : f ∈ filesOn A vi.rawVolume := f1.subset (List.mem_filter.2 ⟨hfm, by simp [hfv]⟩)
  refine ⟨f, (List.mem_filter.1 hfA).1, hfh, hfv, m, bytes, ?_, hres⟩
  rw [← l1]
  exact hsl

/-! ### Non-vacuity, an evaluated interleaved history, the excluded point (tests, labelled as tests) -/

namespace Example
open Sdmmc.Lemmas.VolExample Sdmmc.Lemmas.VolN.Example2
open Sdmmc.Props.C03Multi.Example (two_volumes two_volumes_mirror)

/-- The two-volume state of `Props.C03Multi` (FAT16 volume, handle 1, blocks 0 … 39: `A.TXT` = 600 × 'a' then 'b's;
FAT32 volume, handle 5, blocks 40 … 79: `F.TXT` = 512 × 'f' then 88 × 'g') has an abstract counterpart. -/
theorem two_volumes_abs : ∃ A, AbsN mgr2 ghs2 A := abs_exists_multi two_volumes

/-- An interleaved history: `A.TXT` is opened read-only on the FAT16 volume (handle 10) and read four bytes at a time,
while on the FAT32 volume `F.TXT` is opened for append (handle 11) and written, a directory is made, `M.TXT` is created
(handle 12), written, closed and deleted, and `F.TXT` is read back. -/
def ops2 : List Op :=
  [.openFile 2 [65, 46, 84, 88, 84] .ReadOnly, .openFile 6 [70, 46, 84, 88, 84] .ReadWriteAppend, .read 10 4,
   .write 11 (List.replicate 5 9), .read 10 4, .mkdir 7 [68], .flush 11, .read 10 4, .seekStart 11 0, .read 11 6,
   .openFile 6 [77, 46, 84, 88, 84] .ReadWriteCreate, .write 12 (List.replicate 600 8), .closeFile 12,
   .delete 6 [77, 46, 84, 88, 84], .read 10 4, .length 11, .seekEnd 11 8, .read 11 8, .closeFile 11, .closeFile 10]

theorem ops2_covered : CoveredNRun mgr2 ops2 := by
  refine ⟨trivial, trivial, trivial, trivial, trivial, trivial, trivial, trivial, trivial, trivial, trivial, trivial,
    trivial, trivial, trivial, trivial, trivial, trivial, trivial, trivial, trivial⟩

theorem ops2_fresh : FreshRun mgr2 ops2 := by
  refine ⟨trivial, trivial, trivial, trivial, trivial, trivial, trivial, trivial, trivial, trivial, trivial, trivial,
    trivial, trivial, trivial, trivial, trivial, trivial, trivial, trivial, trivial⟩

/-- The history theorem applies: `ops2` is a run of the multi-volume abstract file system with the same answers. -/
theorem ops2_refines :
    ∃ A ghs' A', AbsN mgr2 ghs2 A ∧ VolInvN (run mgr2 ops2).1 ghs' ∧ MirrorN (run mgr2 ops2).1 ghs' ∧
      AbsN (run mgr2 ops2).1 ghs' A' ∧ absRunN A ops2 ((run mgr2 ops2).2.map (·.result)) A' :=
  fs_history_refines_multi_from_invariant ops2 mgr2 ghs2 two_volumes two_volumes_mirror ops2_covered ops2_fresh

/-- An answer, for display: the handle, the number or the bytes. -/
def brief : Res Payload → Option (List Nat)
  | .ok (.handle h) => some [h]
  | .ok (.bytes b) => some (b.map (·.toNat))
  | .ok (.num n) => some [n]
  | .ok .unit => some []
  | _ => none

/-- Evaluated (TEST): the answers of `ops2`.  The four reads of `A.TXT` (FAT16 volume) answer `aaaa` each, whatever
happened on the FAT32 volume in between; `F.TXT` reads back `ffffff` from the start, has length 605 after the append,
and ends with `ggg` followed by the five appended bytes. -/
theorem ops2_evaluated :
    (run mgr2 ops2).2.map (fun o => brief o.result) =
      [some [10], some [11], some [97, 97, 97, 97], some [], some [97, 97, 97, 97], some [], some [],
       some [97, 97, 97, 97], some [], some [102, 102, 102, 102, 102, 102], some [12], some [], some [], some [],
       some [97, 97, 97, 97], some [605], some [], some [103, 103, 103, 9, 9, 9, 9, 9], some [], some []] := by
  decide +kernel

/-- The calls of `ops2` between the first and the last read of `A.TXT`, without the reads of `A.TXT`: all on the FAT32
volume. -/
def opsF : List Op :=
  [.write 11 (List.replicate 5 9), .mkdir 7 [68], .flush 11, .seekStart 11 0, .read 11 6,
   .openFile 6 [77, 46, 84, 88, 84] .ReadWriteCreate, .write 12 (List.replicate 600 8), .closeFile 12,
   .delete 6 [77, 46, 84, 88, 84]]

/-- The state in which `A.TXT` (handle 10) and `F.TXT` (handle 11) are open and four bytes of `A.TXT` have been read. -/
def mid : Mgr :=
  (run mgr2 [.openFile 2 [65, 46, 84, 88, 84] .ReadOnly, .openFile 6 [70, 46, 84, 88, 84] .ReadWriteAppend, .read 10 4]).1

/-- A checker for `Foreign` (test helper). -/
def foreignB (hv : Nat) (s : Mgr) (op : Op) : Bool :=
  (match target s op with
    | none => true
    | some i =>
      match s.vols[i]? with
      | none => true
      | some vi => vi.rawVolume != hv) &&
  (match op with
    | .openVolume _ => s.nextId != hv
    | _ => true)

theorem foreign_of_check {hv : Nat} {s : Mgr} {op : Op} (h : foreignB hv s op = true) : Foreign hv s op := by
  unfold foreignB at h
  rw [Bool.and_eq_true] at h
  refine ⟨fun i vi ht hvi => ?_, fun idx e => ?_⟩
  · have := h.1
    rw [ht] at this
    simp only [hvi] at this
    simpa using this
  · have := h.2
    rw [e] at this
    simpa using this

def foreignRunB (hv : Nat) : Mgr → List Op → Bool
  | _, [] => true
  | s, op :: ops => foreignB hv s op && foreignRunB hv (step s op).1 ops

theorem foreignRun_of_check {hv : Nat} : ∀ {s : Mgr} {ops : List Op}, foreignRunB hv s ops = true → ForeignRun hv s ops
  | _, [], _ => trivial
  | _, _ :: _, h => by
    unfold foreignRunB at h
    rw [Bool.and_eq_true] at h
    exact ⟨foreign_of_check h.1, foreignRun_of_check h.2⟩

/-- None of the calls of `opsF` works on the FAT16 volume (handle 1) — evaluated. -/
theorem opsF_foreign : ForeignRun 1 mid opsF := foreignRun_of_check (by decide +kernel)

/-- **The isolation theorem applies to the interleaved history** (TEST of non-vacuity): whatever abstract counterpart
`A` the state `mid` has, after the calls `opsF` on the FAT32 volume the next `read` of `A.TXT` returns bytes of the file
the tree of the FAT16 volume held IN `mid`, from the position the open-file record had in `mid`.  (`ops2_evaluated`
shows the bytes: `aaaa`.) -/
theorem isolation_observed (A : AbsFsN) (ghs : List Ghost) (hI : VolInvN mid ghs) (hm : MirrorN mid ghs) (hA : AbsN mid ghs A) :
    ∃ f, f ∈ A.files ∧ f.handle = 10 ∧ f.volume = 1 ∧ ∃ m bytes,
      (A.slots 1 f.dir)[f.idx]? = some (.file m bytes) ∧
      (step (run mid opsF).1 (.read 10 4)).2.result = .ok (.bytes ((bytes.drop f.pos).take 4)) := by
  have hraw : ((run mid opsF).1.vols[0]?).map (·.rawVolume) = some 1 := by decide +kernel
  cases hvi : (run mid opsF).1.vols[0]? with
  | none => rw [hvi] at hraw; cases hraw
  | some vi =>
    rw [hvi] at hraw
    have e : vi.rawVolume = 1 := Option.some.inj hraw
    have := read_after_other_volume_calls opsF mid ghs A hI hm hA
      (by refine ⟨trivial, trivial, trivial, trivial, trivial, trivial, trivial, trivial, trivial, trivial⟩)
      (by refine ⟨trivial, trivial, trivial, trivial, trivial, trivial, trivial, trivial, trivial, trivial⟩)
      10 4 (i := 0) (vi := vi) (by decide +kernel) hvi (by rw [e]; exact opsF_foreign)
    rw [e] at this
    exact this

/-- … and its hypotheses hold of `mid`. -/
theorem mid_invariant : ∃ ghs A, VolInvN mid ghs ∧ MirrorN mid ghs ∧ AbsN mid ghs A := by
  obtain ⟨ghs, hI, hm⟩ := C03Multi.api_history_invariant_multi
    [.openFile 2 [65, 46, 84, 88, 84] .ReadOnly, .openFile 6 [70, 46, 84, 88, 84] .ReadWriteAppend, .read 10 4] mgr2 ghs2
    two_volumes two_volumes_mirror ⟨trivial, trivial, trivial, trivial⟩
  obtain ⟨A, hA⟩ := abs_exists_multi hI
  exact ⟨ghs, A, hI, hm, hA⟩

/-- **The excluded point `LabelFresh`** (TEST).  Let the handle generator stand at 7 — the handle of an open directory
(`SUB` of the FAT32 volume); possible only after the 32-bit generator has wrapped around.  `get_root_volume_label` of
the FAT16 volume opens its temporary root directory under handle 7, then lists "the directory with handle 7" — `SUB` of
the OTHER volume, which holds no label entry — and answers `None`, where the FAT16 volume alone answers `MYVOL`; and it
closes "the directory with handle 7": afterwards handle 7 names the root directory of the FAT16 volume. -/
theorem label_fresh_needed :
    (match (step { mgr2 with nextId := 7 } (.label 1)).2.result with | .ok (.label l) => some l | _ => none) = some none ∧
    (match (step (proj { mgr2 with nextId := 7 } 0) (.label 1)).2.result with | .ok (.label l) => some l | _ => none) =
      some (some [77, 89, 86, 79, 76, 32, 32, 32, 32, 32, 32]) ∧
    mgr2.dirs.map (fun d => (d.rawDirectory, d.rawVolume)) = [(2, 1), (3, 1), (6, 5), (7, 5)] ∧
    (step { mgr2 with nextId := 7 } (.label 1)).1.dirs.map (fun d => (d.rawDirectory, d.rawVolume)) =
      [(2, 1), (3, 1), (6, 5), (7, 1)] ∧
    ¬ LabelFresh { mgr2 with nextId := 7 } (.label 1) := by
  refine ⟨by decide +kernel, by decide +kernel, by decide +kernel, by decide +kernel, ?_⟩
  intro h
  exact h (by decide +kernel)

end Example

end Sdmmc.Props.C01Multi
