/-
C16 — HEADLINE THEOREM, second version (several open volumes; the gaps of `Props/C16Main.lean` closed where they can be).

PROPERTY (verbatim from `properties.jsonl`).
statement:
  "Whenever an API call has returned, every FAT copy on a multi-FAT volume is byte-identical to the first. On FAT32,
  after a flush or volume close the stored free-cluster count has changed by exactly the change in the number of
  free FAT entries since mount (so a count that was correct stays correct and one marked unknown stays unknown), and
  the next-free hint is unknown or a cluster inside the volume. A wrong or out-of-range record found at mount never
  makes an operation fail or panic."
quantifier:
  "all histories of allocation, truncation and deletion; volumes with 1 and 2 FATs; information sectors starting
  with correct, unknown (0xFFFFFFFF) and stale values"

HOW TO READ `C16_main_partial`.
* `s` is a manager with ANY NUMBER of open volumes on one device, `ghs` one ghost per open volume; `run s ops` runs the
  history `ops` of API calls (all 24 constructors of `Op`, whatever they answer); `sk := (run s (ops.take k)).1` is the
  state after the first `k` calls — "whenever an API call has returned".
* `VolInvCN s ghs δ` (`Props.C16Multi.volInvCN_iff`) = `VolInvN` (C03 for several volumes) ∧ `MirrorN` (identical FAT copies)
  ∧ `CountOKN δ` ∧ `DeltaOKN δ`: `δ h : Int` is the offset of the volume with handle `h` between its in-memory free count
  and the truth: `Bal (δ h) v d` (`bal_def`) — the count, WHEN KNOWN, plus `δ h` is the number of free FAT entries.  A
  correct record has `δ h = 0`, a stale one `δ h ≠ 0`, an unknown count is in balance with every offset.  `δ` never changes:
  "the count has changed by exactly the change in the number of free FAT entries since mount".
* `Mirror v d`: FAT copy 2 is block-for-block identical to copy 1 (vacuous with one FAT: `fatBlock2 = none`).
  `HintOK v`: the hint is unknown or `≥ 2`.  `infoPatch v b` (`Props.C16Info.infoPatch_def`): the info sector `b` with the
  known fields of the record of `v` spliced in at bytes 488 / 492; `Stores v b b'` (`Props.C16Api`): the same read back as
  32-bit words.  `normCount` : how mounting reads a stored count (`0xFFFFFFFF` = unknown).  `MountsN s`
  (`Props.C16MultiClose`): every open partition mounts on the present medium with the geometry of its record.
  `UnknownAt h s` (`Props.C16Unknown.unknownAt_def`): the count of the open volume with handle `h` is unknown.

CLAUSES (`History s ghs δ ops`), in the order of the sentence; `k` ranges over ALL prefixes:
  (copies)   after every call both FAT copies of every open volume are identical;
  (balance)  after every call every open volume is in balance with ITS offset `δ h`, and `sk` satisfies the invariant;
  (flush)    in every `sk`: `flush_file` / `close_file` of a written-to handle of a FAT32 volume answers `Ok` and leaves the
             info sector of THAT volume = `infoPatch` of the record over the old sector (the in-memory count and hint are
             what is stored; an unknown field leaves its word alone; nothing outside that volume's partition changes) —
             `Stores` if the hint fits 32 bits (the count does: it is in balance).  No data-plane hypotheses;
  (close)    if every partition open at the start mounts: after ANY history, `close_volume v` answering `Ok` removes the
             record, keeps every other volume in balance, changes no FAT block, and the NEXT MOUNT of that partition
             reads the in-memory count at the close — in balance with the SAME offset (FAT32; hint fits 32 bits);
  (correct)  `δ = 0`: `correct_stays_correct` below;
  (unknown)  a count marked unknown stays unknown through every call (all 24) — and then no count is ever stored
             (`Props.C16Unknown.unknown_count_never_stored`, `stored_unknown_stays`: a stored `0xFFFFFFFF` stays);
  (hint)     the hint is unknown or `≥ 2` in every state — NOT "inside the volume": see FINDINGS;
  (safe)     no call of the history panics or hangs.
and, of every state whatever (`Record`):
  (stale)    replace the count of any open volume by ANY value and its hint by ANY value mounting can produce (unknown or
             `≥ 2`: `Props.C16Stale.mounted_hint_ok`): the invariant still holds, and every history from there answers only
             `Ok` / errors and keeps the invariant — a wrong or out-of-range record never makes an operation panic;
  (alloc)    whether `alloc_cluster` succeeds is a function of the FAT, not of the record: with ANY count and ANY such
             hint it answers `Ok c`, `c` a free cluster of the volume, iff the volume has a free cluster, and
             `NotEnoughSpace` iff it has none (search from the hint, wrap-around to cluster 2: C05's completeness);
             `write` gives the verdict the FAT dictates (`Props.C16Stale.write_verdict_any_record`, same ANSWER:
             `Props.C16Api.stale_record_harmless`);
  (source)   `alloc_cluster`, `truncate_cluster_chain`, `free_cluster_chain` are the functions regenerated from the source.

HYPOTHESES.
* `VolInvCN s ghs δ` at the start: a fresh manager has it for every `δ` (`Props.C16MultiClose.Example` `fresh_inv`);
  `CoveredCNRun δ s ops` (`Props.C16Multi`): about `open_volume` calls that SUCCEED only — fresh handle, disjoint partition,
  sound volume (`CoveredN`), and the mounted record in balance with the offset of its handle (`MountInBalance`: what an
  unmounted partition's info sector says about its FAT no invariant of the open volumes can know;
  `Props.C16Multi.Example.lying_info_sector_mounts`).
* `DeltaOKN` — `δ h ≤ 0` and `endCluster − δ h ≤ u32::MAX` — is FORCED: outside it the `u32` count saturates and the offset
  drifts (FINDINGS).  The correct record is inside (`Props.C16Hist2.deltaOK_zero`).
* (safe) only: `FreshRun` (about `get_root_volume_label`, as in `Props.C01Multi`).  (close) only: `MountsN s`.

STATUS: PARTIAL — what is still missing or false, clause by clause:
* "changed by exactly the change … since mount": FULL inside `DeltaOKN`; FALSE outside — known findings, evaluated:
  `Props.C16Hist2.Example.underreporting_count_drifts` (count 0 with clusters free: `0 − 1` saturates),
  `saturating_count_drifts` (count `0xFFFFFFFE`: `+ 1` saturates).
* "the next-free hint is unknown or a cluster inside the volume": FALSE as stated — known finding: mounting accepts any
  stored hint except 0, 1, `0xFFFFFFFF`; calls that allocate nothing leave it alone and `close_volume` writes it back
  (`Props.C16Api.Example.hint_out_of_range_written_back`, `hint_out_of_range_run`).  Proved instead: `≥ 2` always (hint),
  inside the volume after every allocation (`Props.C16.alloc_hint_in_range`).
* "never makes an operation FAIL": proved as (alloc) for the allocator and for `write`; NOT proved as "the answer of every
  call of every history is the same for all records" — after an allocation the two runs have chosen different clusters
  (the hint steers the search), so the media differ and only the abstract contents agree; that needs a relational
  argument over all calls which does not exist.  No counterexample is known.
* the 32-bit fit of the in-memory HINT is a hypothesis of `Stores` and of (close): a `u32` in the crate, a `Nat` in the model.
* (unknown) over histories that MOUNT: call by call (`unknown_step`); closed form for histories without `open_volume` and
  for one open volume (`Props.C16Unknown`).  A mount may hand out the handle again after a wrap of the handle generator.
* Fault-free device (faults: C11).
-/
import Sdmmc.Props.C16Unknown
import Sdmmc.Props.C16MultiClose
import Sdmmc.Props.C16Stale
import Sdmmc.Lemmas.InfoStepN
import Sdmmc.Props.C16GenM

namespace Sdmmc.Props.C16Main2
open Sdmmc.Model Sdmmc.Model.Fat Sdmmc.Spec.Volume Sdmmc.Gen
open Sdmmc.Spec hiding run step NoFault Coherent
open Sdmmc.Props.C16Hist2 (Bal DeltaOK)
open Sdmmc.Props.C16Multi (VolInvCN CountOKN DeltaOKN CoveredCN CoveredCNRun)
open Sdmmc.Props.C16MultiClose (MountsN)
open Sdmmc.Props.C16Api (normCount Stores RecordFits)
open Sdmmc.Props.C01Multi (FreshRun)
open Sdmmc.Props.C03Multi (CoveredNRun)
open Sdmmc.Lemmas.CountUnknown (UnknownAt)
open Sdmmc.Lemmas.FatOps (infoPatch)
open Sdmmc.Lemmas.StaleAlloc (HasFree)

theorem bal_def (δ : Int) (v : FatVolume) (d : Disk) :
    Bal δ v d ↔ ∀ n, v.freeClustersCount = some n → (n : Int) + δ = (freeCount v d : Int) := Iff.rfl
theorem mirror_def (v : FatVolume) (d : Disk) :
    Mirror v d ↔ ∀ c, c < endCluster v → ∀ b2, fatBlock2 v c = some b2 → d.get b2 = d.get (fatBlock v c) := Iff.rfl
theorem hintOK_def (v : FatVolume) : HintOK v ↔ ∀ n, v.nextFreeCluster = some n → 2 ≤ n := Iff.rfl

/-- The history clauses. -/
structure History (s : Mgr) (ghs : List Ghost) (δ : Nat → Int) (ops : List Op) : Prop where
  copies : ∀ k, ∀ vi, vi ∈ (run s (ops.take k)).1.vols → Mirror vi.vol (run s (ops.take k)).1.dev.disk
  balance : ∀ k, (∃ ghs', VolInvCN (run s (ops.take k)).1 ghs' δ) ∧
    ∀ vi, vi ∈ (run s (ops.take k)).1.vols → Bal (δ vi.rawVolume) vi.vol (run s (ops.take k)).1.dev.disk
  flush : ∀ k (h j i : Nat) (f : FileInfo) (vi : VolInfo),
    (run s (ops.take k)).1.files.findIdx? (·.rawFile = h) = some j → (run s (ops.take k)).1.files[j]? = some f →
    f.dirty = true → (run s (ops.take k)).1.vols[i]? = some vi → f.rawVolume = vi.rawVolume → vi.vol.fatType = .fat32 →
    ∀ op, op = .flush h ∨ op = .closeFile h →
      (step (run s (ops.take k)).1 op).2.result = .ok .unit ∧
      (step (run s (ops.take k)).1 op).1.dev.disk.get vi.vol.infoLocation =
        infoPatch vi.vol ((run s (ops.take k)).1.dev.disk.get vi.vol.infoLocation) ∧
      ((∀ n, vi.vol.nextFreeCluster = some n → n < 4294967296) →
        Stores vi.vol ((run s (ops.take k)).1.dev.disk.get vi.vol.infoLocation)
          ((step (run s (ops.take k)).1 op).1.dev.disk.get vi.vol.infoLocation)) ∧
      ∀ b, ¬ InPartition vi.vol b → (step (run s (ops.take k)).1 op).1.dev.disk.get b = (run s (ops.take k)).1.dev.disk.get b
  close : MountsN s → ∀ (v : Nat) (vi : VolInfo), (step (run s ops).1 (.closeVolume v)).2.result = .ok .unit →
    vi ∈ (run s ops).1.vols → vi.rawVolume = v →
    (∀ w, w ∈ (step (run s ops).1 (.closeVolume v)).1.vols ↔ w ∈ (run s ops).1.vols ∧ w.rawVolume ≠ v) ∧
    (∃ ghs', VolInvCN (step (run s ops).1 (.closeVolume v)).1 ghs' δ) ∧ MountsN (step (run s ops).1 (.closeVolume v)).1 ∧
    (∀ w, w ∈ (run s ops).1.vols → ∀ b, IsFatBlock w.vol b →
      (step (run s ops).1 (.closeVolume v)).1.dev.disk.get b = (run s ops).1.dev.disk.get b) ∧
    (vi.vol.fatType = .fat32 → (∀ n, vi.vol.nextFreeCluster = some n → n < 4294967296) →
      ∃ w', mountPure ((step (run s ops).1 (.closeVolume v)).1.dev.disk.get 0) vi.idx
          (step (run s ops).1 (.closeVolume v)).1.dev.disk.get = .ok w' ∧ SameGeom vi.vol w' ∧
        (∀ n, vi.vol.freeClustersCount = some n → w'.freeClustersCount = normCount n) ∧
        (vi.vol.freeClustersCount ≠ none → Bal (δ v) w' (step (run s ops).1 (.closeVolume v)).1.dev.disk))
  unknown_step : ∀ k (op : Op) (h : Nat), CoveredCN δ (run s (ops.take k)).1 op →
    h ∈ (run s (ops.take k)).1.vols.map (·.rawVolume) → UnknownAt h (run s (ops.take k)).1 →
    UnknownAt h (step (run s (ops.take k)).1 op).1
  unknown : (ops.all fun op => !C16Multi.isMount op) = true → ∀ h, UnknownAt h s → ∀ k, UnknownAt h (run s (ops.take k)).1
  hint : ∀ k, ∀ vi, vi ∈ (run s (ops.take k)).1.vols → HintOK vi.vol
  safe : FreshRun s ops → ∀ o, o ∈ (run s ops).2 → Clean o.result

/-- The clauses that are about any state. -/
structure Record : Prop where
  stale : ∀ (s : Mgr) (ghs : List Ghost), VolInvN s ghs → MirrorN s ghs → ∀ (i : Nat) (cnt hint : Option Nat),
    (∀ n, hint = some n → 2 ≤ n) →
    let s2 : Mgr := { s with vols := s.vols.modify i fun vi =>
      { vi with vol := { vi.vol with freeClustersCount := cnt, nextFreeCluster := hint } } }
    (∃ ghs2, VolInvN s2 ghs2 ∧ MirrorN s2 ghs2) ∧
    ∀ ops, CoveredNRun s2 ops → FreshRun s2 ops →
      (∀ o, o ∈ (run s2 ops).2 → Clean o.result) ∧
      ∀ k, ∃ ghs', VolInvN (run s2 (ops.take k)).1 ghs' ∧ MirrorN (run s2 (ops.take k)).1 ghs'
  alloc : ∀ (t : FS) (prev : Option Nat) (zero : Bool), t.dev.faults = [] →
    (∀ i, t.cache.tag = some i → t.cache.blk = t.dev.disk.get i) → ∀ (cnt hint : Option Nat), (∀ n, hint = some n → 2 ≤ n) →
    let t2 : FS := { t with vol := { t.vol with freeClustersCount := cnt, nextFreeCluster := hint } }
    ((∃ c t', allocCluster prev zero t2 = (.ok c, t')) ↔ HasFree t.vol t.dev.disk) ∧
    ((allocCluster prev zero t2).1 = .err .NotEnoughSpace ↔ ¬ HasFree t.vol t.dev.disk) ∧
    (HasFree t.vol t.dev.disk → ∃ c t', allocCluster prev zero t2 = (.ok c, t') ∧ 2 ≤ c ∧ c < endCluster t.vol ∧
      isFree t.vol t.dev.disk c)
  source : ∀ (t : FS),
    (∀ cluster, FunsM.FatVolume_truncate_cluster_chain (chainFuel t.vol) cluster t = truncateClusterChain cluster t) ∧
    (∀ cluster, FunsM.FatVolume_free_cluster_chain (chainFuel t.vol) cluster t = freeClusterChain cluster t) ∧
    (∀ prev zero fuel, fuel ≥ t.vol.clusterCount + 4 → fuel ≥ t.vol.blocksPerCluster + 1 →
      FunsM.FatVolume_alloc_cluster fuel prev zero t = allocCluster prev zero t)

theorem record : Record where
  stale := fun s ghs hI hm i cnt hint hh =>
    ⟨⟨_, (C16Stale.volInvN_any_record hI hm i cnt hint hh).1, (C16Stale.volInvN_any_record hI hm i cnt hint hh).2⟩,
     fun ops hc hf => C16Stale.stale_record_never_panics_multi hI hm i cnt hint hh ops hc hf⟩
  alloc := fun t prev zero hn hc cnt hint hh =>
    ⟨C16Stale.alloc_ok_iff_free t prev zero hn hc cnt hint hh, C16Stale.alloc_full_iff t prev zero hn hc cnt hint hh,
     (C16Stale.alloc_any_record t prev zero hn hc cnt hint hh).1⟩
  source := fun t => ⟨fun c => C16GenM.truncate_cluster_chain_eq c t, fun c => C16GenM.free_cluster_chain_eq c t,
    fun prev zero fuel hf hz => C16GenM.alloc_cluster_eq prev zero fuel t hf hz⟩

/-- **C16.**  See the header. -/
theorem C16_main_partial (s : Mgr) (ghs : List Ghost) (δ : Nat → Int) (ops : List Op) (hI : VolInvCN s ghs δ)
    (hc : CoveredCNRun δ s ops) : History s ghs δ ops ∧ Record := by
  have pre : ∀ k, ∃ ghs', VolInvCN (run s (ops.take k)).1 ghs' δ :=
    fun k => C16Multi.history_accounting_multi_prefix ops s ghs δ hI hc k
  refine ⟨?_, record⟩
  exact
    { copies := fun k vi hvi => by
        obtain ⟨ghs', h⟩ := pre k
        exact C16Multi.mirror_of_mirrorN h.inv h.mirror vi hvi
      balance := fun k => by
        obtain ⟨ghs', h⟩ := pre k
        exact ⟨⟨ghs', h⟩, h.count⟩
      flush := fun k h j i f vi hidx hf hd hvi hfv h32 op hop => by
        obtain ⟨ghs', hk⟩ := pre k
        have hilt : i < ghs'.length := by rw [hk.inv.len]; exact (List.getElem?_eq_some_iff.1 hvi).1
        obtain ⟨gh, hgh⟩ : ∃ g, ghs'[i]? = some g := ⟨_, List.getElem?_eq_getElem hilt⟩
        obtain ⟨a, b, _, c, d⟩ :=
          Lemmas.InfoStepN.flush_or_close_stores_multi hk.inv hk.mirror hidx hf hd hvi hgh hfv h32 op hop
        have hmem := List.mem_of_getElem? hvi
        exact ⟨a, b, fun hfit => c ⟨C16Info.count_fits_of_balance (hk.count vi hmem) (hk.delta vi hmem), hfit⟩, d⟩
      close := fun hM v vi hok hvi hv => by
        obtain ⟨_, h2, h3, h4, h5, h6⟩ :=
          C16MultiClose.count_truthful_after_close_multi s ghs δ hI hM ops hc v _ _ rfl rfl hok vi hvi hv
        refine ⟨h2, h3, h4, h5, fun h32 hfit => ?_⟩
        obtain ⟨_, w', _, _, g1, g2, g3, g4, _⟩ := h6 h32 hfit
        exact ⟨w', g1, g2, g3, g4⟩
      unknown_step := fun k op h hcov hopen hu => by
        obtain ⟨ghs', hk⟩ := pre k
        exact C16Unknown.unknown_stays_unknown_step_multi hk op hcov hopen hu
      unknown := fun hnm h hu k => C16Unknown.unknown_stays_unknown_history_multi ops hI hnm hu k
      hint := fun k vi hvi => by
        obtain ⟨ghs', hk⟩ := pre k
        obtain ⟨j, hj⟩ := List.getElem?_of_mem hvi
        have hjlt : j < ghs'.length := by rw [hk.inv.len]; exact (List.getElem?_eq_some_iff.1 hj).1
        obtain ⟨gh, hgh⟩ : ∃ g, ghs'[j]? = some g := ⟨_, List.getElem?_eq_getElem hjlt⟩
        rw [hk.inv.vols j vi gh hj hgh]
        exact (hk.inv.med j vi gh hj hgh).hint
      safe := fun hf =>
        (C16Stale.history_never_panics_multi ops hI.inv hI.mirror (C16Multi.coveredNRun_of_coveredCNRun hc) hf).1 }

/-- "A count that was correct stays correct" (`δ = 0`): a known count that is the number of free FAT entries at the
start is so after every call; and what the next mount reads after a successful `close_volume` is that number
(`Props.C16MultiClose.exact_after_close_multi`). -/
theorem correct_stays_correct (ops : List Op) (s : Mgr) (ghs : List Ghost) (hI : VolInvN s ghs) (hm : MirrorN s ghs)
    (hex : ∀ vi, vi ∈ s.vols → ∀ n, vi.vol.freeClustersCount = some n → n = freeCount vi.vol s.dev.disk)
    (hc : CoveredCNRun (fun _ => 0) s ops) (k : Nat) :
    ∀ vi, vi ∈ (run s (ops.take k)).1.vols → ∀ n, vi.vol.freeClustersCount = some n →
      n = freeCount vi.vol (run s (ops.take k)).1.dev.disk :=
  C16Multi.exact_stays_exact_multi ops s ghs hI hm hex hc k

/-! ### Non-vacuity, and the excluded points -/

namespace Example
open Sdmmc.Lemmas.VolExample Sdmmc.Lemmas.VolN.Example2

/-- The two-volume state of `Props.C16Multi.Example` (FAT16 handle 1, FAT32 handle 5 with the exact count 15) and its
14-call history on both volumes: both standing hypotheses discharged. -/
example : History mgr2 ghs2 (fun _ => 0) C03Multi.Example.ops ∧ Record :=
  C16_main_partial mgr2 ghs2 _ C03Multi.Example.ops C16Multi.Example.invCN2 C16Multi.Example.ops_coveredC

/-- … evaluated: count and free FAT entries of the FAT32 volume move together, 15 → 13 → 12; the calls on the FAT16 volume
move neither (`Props.C16Multi.Example.ops_counts`); the close of the FAT32 volume stores 12
(`Props.C16MultiClose.Example.close5_evaluated`). -/
example := C16Multi.Example.ops_counts
example := C16MultiClose.Example.close5_evaluated

/-- The excluded points (FINDINGS), each evaluated: the two saturations outside `DeltaOK`; the out-of-range hint written
back; a lying info sector mounts out of balance. -/
example := C16Hist2.Example.underreporting_count_drifts
example := C16Hist2.Example.saturating_count_drifts
example := C16Api.Example.hint_out_of_range_written_back
example := C16Api.Example.hint_out_of_range_run
example := @C16Multi.Example.lying_info_sector_mounts

/-- A stale record (count 0, hint `0x00FFFFFF`) — the history answers `Ok` six times (`Props.C16Stale.Example`). -/
example := C16Stale.Example.stale_history_evaluated

end Example

end Sdmmc.Props.C16Main2
