/-
C10 for WHOLE API CALLS on the whole volume — crash consistency at every block write of every operation.

C10: "If the device stops accepting writes after any block write of any operation, the medium mounts, and no live
directory entry or chain refers to a free, bad or out-of-range cluster, no two chains share a cluster, no chain is
cyclic, no directory exposes uninitialised cluster contents as entries, and no sub-directory entry lacks its own
cluster.  Space that is allocated but not yet referenced, and a size not yet updated, are the only permitted
residue."

Property theorems only; vocabulary `Sdmmc.Spec.VolumeCrash` (`CrashInv`, `TreeLoose`, `FatEntriesOK`, `RawOK`,
`VolInvC`), `Sdmmc.Spec.Crash` (`crashDisk`, `OwnsLoose`, `Lost`), `Sdmmc.Spec.Volume` (`VolInv`, `Ghost`, `dirSlots`,
`objects`, `chainOf`), `Sdmmc.Spec.VolumeFsck` (`GeomOf`, `NoOne`, `DepthOK`), `Props.C03Inv` (`Covered`, `CoveredAll`,
`CoveredAllRun`).  Proofs: `Sdmmc.Lemmas.VolCrash*` (`VolCrashBase`: the bridge from the invariant of C03;
`VolCrashStep`: crash points between two states of that invariant; `VolCrashDir`, `VolCrashFlush`, `VolCrashWrite`,
`VolCrashDelete`, `VolCrashOpen`, `VolCrashMkdir`, `VolCrashRO`: the API functions; `VolCrashLic`: block lengths and
mounting from the licences of C04; `VolCrashHist`: `step`; `VolCrashFsck*`: the independent checker; `VolCrashCor`).

WHAT IS PROVED (STATUS: PROVED for every constructor of `Op`, every outcome, every crash point).

* `CrashInv v d gh` — the crash-consistency invariant of a MEDIUM: `MedInv v d [] gh` of C03 (no open files) weakened
  by exactly the permitted residue: lost clusters are allowed (`OwnsLoose` instead of `Owns`), stored sizes are not
  constrained (clause `sizes` dropped: stale in both directions); everything else is kept.  Section "What it says"
  restates it clause by clause of the property.
* `VolInvC s gh` = `VolInv s gh` (C03) ∧ `Mirror` (C04: the FAT copies agree) ∧ `RawOK` (the on-disk slot of every open
  file names no cluster or the cluster its record names).  It is preserved by every covered call and history
  (`api_step_invariantC`, `api_history_invariantC`).  `RawOK` CANNOT be dropped: `VolInv` does not constrain the raw
  fields of the slot of a modified open file, and a state satisfying `VolInv ∧ Mirror` can sit on a medium with a
  cross-linked file (`Example.rawOK_needed`, evaluated).  Every state reached from a quiescent one satisfies it.
* `api_crash_invariant`: from `VolInvC s gh`, for EVERY prefix `k` of the device writes of ANY covered call `op`,
  the medium `crashDisk s.dev.disk (step s op).2.writes k` satisfies `CrashInv gh.vol … gh'` for some ghost `gh'`,
  and all its FAT entries are valid (`FatEntriesOK`: also those of lost clusters).  `api_crash_invariant_all`: the same
  with `CoveredAll` (an `open_volume` issued while no volume is open writes nothing).
  NOTE ON THE WRITE LIST: `step` clears the device's write log before the call, so the writes of the call are
  `(step s op).2.writes`; `newWritesM s (step s op).1` is that list exactly when `s.dev.wlog = []`
  (`writes_eq_newWritesM`, `api_crash_invariant_newWrites`) — for a state in the middle of a history it is not.
* `history_crash_invariant`: at every crash point inside any call of any covered history.
* `crash_mounts` / `history_crash_mounts`: if the medium before the call mounts (partition `idx`, to a record with the
  geometry of the volume), every crashed medium mounts, to a record with the same geometry: block 0 and the boot
  sector are never written, the FAT32 info sector only in its two counters.  `history_mounts`,
  `history_crash_mounts_from_start`: it suffices that the medium the HISTORY starts from mounts.  (`CrashInv` itself is
  about the volume inside the partition and says nothing about block 0 / the boot sector; mountability is this
  separate frame property.)
* `crash_fsck_ok`: on a medium satisfying `CrashInv` and `FatEntriesOK`, the independent structure checker of
  `Sdmmc.Spec.Fs` in its crash-consistency variant (`fsck g d [] false`: no pending entries, size clause off) reports
  NO problem — under the hypotheses (H1) `NoOne`, (H2) `DepthOK` of `Props.C03Inv.fsck_ok` (same reasons).
  `crash_point_fsck`: hence at every crash point of every call.

HYPOTHESES, stated plainly: those of `Props.C03Inv` and `Props.C04Hist` — fault-free device (a crash is the device
no longer ACCEPTING writes, not a failing write), one open volume, names whose short form starts with 0xE5 excluded in
`openFile` / `delete` / `mkdir` (accepted deviation (a)), identical FAT copies at the start — plus `RawOK` at the start.

FINDINGS.  No violation of C10 was found: at no crash point of any operation does the medium leave `CrashInv`.
Observations (all within the permitted residue):
* the order of the device writes is crash-safe everywhere: a new cluster is blanked BEFORE it is marked and linked
  (directory growth never exposes old contents), a new directory's cluster is marked end-of-chain, written (`.`/`..`)
  and blanked BEFORE the parent's entry appears, a deleted entry is marked BEFORE its chain is released, a truncated
  file's chain is cut BEFORE its slot is rewritten (stale size in the direction size > capacity, `Props.C09CrashApi`);
* a crash between the two device writes of one `update_fat` leaves FAT copy 2 one sector behind copy 1
  (`Props.C10Crash`, `MirrorBut`); `CrashInv` reads copy 1 only.
-/
import Sdmmc.Lemmas.VolCrashHist
import Sdmmc.Lemmas.VolCrashCor
import Sdmmc.Lemmas.VolCrashFsck4
import Sdmmc.Props.C04Hist

namespace Sdmmc.Props.C10Inv
open Sdmmc.Model Sdmmc.Model.Fat Sdmmc.Spec.Volume
open Sdmmc.Spec hiding run step NoFault Coherent
open Sdmmc.Props.C03Inv (NameOK Covered CoveredRun CoveredAll CoveredAllRun)
open Sdmmc.Props.C04Hist (nameCovered_of_covered nameCovered_of_coveredAll)

/-! ### The invariant between calls -/

theorem volInvC_def (s : Mgr) (gh : Ghost) :
    VolInvC s gh ↔ VolInv s gh ∧ Mirror gh.vol s.dev.disk ∧ RawOK gh.vol.fatType s.dev.disk s.files :=
  ⟨fun h => ⟨h.inv, h.mirror, h.raw⟩, fun h => ⟨h.1, h.2.1, h.2.2⟩⟩

/-- A quiescent state (no file open) of C03/C04 satisfies `VolInvC`. -/
theorem volInvC_of_quiescent {s : Mgr} {gh : Ghost} (hI : VolInv s gh) (hm : Mirror gh.vol s.dev.disk) (hq : s.files = []) :
    VolInvC s gh :=
  ⟨hI, hm, fun f hf => by rw [hq] at hf; cases hf⟩

/-- Between calls the medium is crash-consistent (crash point "before the first write"). -/
theorem between_calls {s : Mgr} {gh : Ghost} (hI : VolInvC s gh) :
    (∃ gh', CrashInv gh.vol s.dev.disk gh') ∧ FatEntriesOK gh.vol s.dev.disk :=
  ⟨⟨_, Lemmas.VolCrash.crash_of_medX (Lemmas.VolMed.medX_of_med hI.inv.med) hI.raw⟩,
   Lemmas.VolCrash.fatOK_of_owns hI.inv.med.owns⟩

/-! ### One call -/

/-- **`api_crash_invariant`.**  Every crash point of every covered API call — all constructors of `Op`, whatever the
call answers — is a crash-consistent medium, all of whose FAT entries are valid. -/
theorem api_crash_invariant (s : Mgr) (op : Op) (gh : Ghost) (hI : VolInvC s gh) (hc : Covered s op) (k : Nat) :
    (∃ gh', CrashInv gh.vol (crashDisk s.dev.disk (step s op).2.writes k) gh') ∧
    FatEntriesOK gh.vol (crashDisk s.dev.disk (step s op).2.writes k) :=
  Lemmas.VolCrash.step_crashInv hI op (nameCovered_of_covered hc) k

/-- The same for `CoveredAll` (an `openVolume` while no volume is open writes nothing). -/
theorem api_crash_invariant_all (v0 : FatVolume) (s : Mgr) (op : Op) (gh : Ghost) (hI : VolInvC s gh)
    (hc : CoveredAll v0 s op) (k : Nat) :
    (∃ gh', CrashInv gh.vol (crashDisk s.dev.disk (step s op).2.writes k) gh') ∧
    FatEntriesOK gh.vol (crashDisk s.dev.disk (step s op).2.writes k) :=
  Lemmas.VolCrash.step_crashInv hI op (nameCovered_of_coveredAll hc) k

/-- The writes `step` reports are the new part of the write log — when the log was empty before the call. -/
theorem writes_eq_newWritesM (s : Mgr) (op : Op) (hl : s.locked = false) (hw : s.dev.wlog = []) :
    (step s op).2.writes = newWritesM s (step s op).1 := by
  obtain ⟨h1, h2, _⟩ := C04Api.step_writes s op hl
  rw [h1, h2]
  unfold newWritesM
  rw [hw]
  rfl

/-- `api_crash_invariant` in the vocabulary of `Props.C09CrashApi` (`newWritesM`), for a state with an empty write
log. -/
theorem api_crash_invariant_newWrites (s : Mgr) (op : Op) (gh : Ghost) (hI : VolInvC s gh) (hc : Covered s op)
    (hw : s.dev.wlog = []) (k : Nat) :
    ∃ gh', CrashInv gh.vol (crashDisk s.dev.disk (newWritesM s (step s op).1) k) gh' := by
  rw [← writes_eq_newWritesM s op hI.inv.unlocked hw]
  exact (api_crash_invariant s op gh hI hc k).1

/-- **`crash_mounts`.**  If the medium before the call mounts (partition `idx`) to a record with the geometry of the
volume, so does the medium at every crash point of the call. -/
theorem crash_mounts (s : Mgr) (op : Op) (gh : Ghost) (hI : VolInvC s gh) (hc : Covered s op) (k : Nat)
    (idx : Nat) (vm : FatVolume) (hm : mountPure (s.dev.disk.get 0) idx s.dev.disk.get = .ok vm) (hsg : SameGeom vm gh.vol) :
    ∃ w, mountPure ((crashDisk s.dev.disk (step s op).2.writes k).get 0) idx
        (crashDisk s.dev.disk (step s op).2.writes k).get = .ok w ∧ SameGeom gh.vol w :=
  Lemmas.VolCrash.step_mounts hI op (nameCovered_of_covered hc) k idx vm hm hsg

/-- **`VolInvC` is preserved by every covered call.** -/
theorem api_step_invariantC (v0 : FatVolume) (s : Mgr) (op : Op) (gh : Ghost) (hI : VolInvC s gh) (h0 : SameGeom v0 gh.vol)
    (hc : CoveredAll v0 s op) : ∃ gh', VolInvC (step s op).1 gh' ∧ SameGeom v0 gh'.vol := by
  obtain ⟨gh', hM', hg'⟩ := C04Hist.step_invariantM v0 s op gh ⟨hI.inv, hI.mirror⟩ h0 hc
  refine ⟨gh', ⟨hM'.1, hM'.2, ?_⟩, hg'⟩
  have hraw := (Lemmas.VolCrash.step_stepC hI.inv hI.raw op (nameCovered_of_coveredAll hc)).raw
  have : gh'.vol.fatType = gh.vol.fatType := (h0.symm.trans hg').fatType
  rw [this]
  exact hraw

/-! ### Histories -/

/-- **`VolInvC` is preserved by every covered history.** -/
theorem api_history_invariantC (v0 : FatVolume) (ops : List Op) (s : Mgr) (gh : Ghost) (hI : VolInvC s gh)
    (h0 : SameGeom v0 gh.vol) (hc : CoveredAllRun v0 s ops) : ∃ gh', VolInvC (run s ops).1 gh' ∧ SameGeom v0 gh'.vol := by
  induction ops generalizing s gh with
  | nil => exact ⟨gh, hI, h0⟩
  | cons op ops ih =>
    obtain ⟨gh1, h1, g1⟩ := api_step_invariantC v0 s op gh hI h0 hc.1
    obtain ⟨gh2, h2, g2⟩ := ih (step s op).1 gh1 h1 g1 hc.2
    exact ⟨gh2, by unfold run; exact h2, g2⟩

theorem coveredAllRun_get (v0 : FatVolume) : ∀ {s : Mgr} {ops : List Op}, CoveredAllRun v0 s ops → ∀ (n : Nat) (op : Op),
    ops[n]? = some op → CoveredAll v0 (run s (ops.take n)).1 op
  | _, [], _, _, _, h => by cases h
  | s, o :: ops, hc, 0, op, h => by
    have : o = op := by simpa using h
    subst this
    exact hc.1
  | s, o :: ops, hc, n + 1, op, h => by
    have ih := coveredAllRun_get v0 (s := (step s o).1) (ops := ops) hc.2 n op (by simpa using h)
    rw [List.take_succ_cons]
    show CoveredAll v0 (run (step s o).1 (ops.take n)).1 op
    exact ih

/-- **`history_crash_invariant`.**  At every crash point inside ANY call of ANY covered history (the `n`-th call,
issued in the state the first `n` calls leave; any prefix `k` of its device writes) the medium is crash-consistent
for the reference geometry `v0`, and all its FAT entries are valid. -/
theorem history_crash_invariant (v0 : FatVolume) (ops : List Op) (s : Mgr) (gh : Ghost) (hI : VolInvC s gh)
    (h0 : SameGeom v0 gh.vol) (hc : CoveredAllRun v0 s ops) (n : Nat) (op : Op) (hn : ops[n]? = some op) (k : Nat) :
    (∃ gh', CrashInv v0 (crashDisk (run s (ops.take n)).1.dev.disk (step (run s (ops.take n)).1 op).2.writes k) gh') ∧
    FatEntriesOK v0 (crashDisk (run s (ops.take n)).1.dev.disk (step (run s (ops.take n)).1 op).2.writes k) := by
  obtain ⟨ghn, hIn, hgn⟩ := api_history_invariantC v0 (ops.take n) s gh hI h0 (C03Inv.coveredAllRun_take v0 hc n)
  obtain ⟨⟨gh', hC⟩, hF⟩ := api_crash_invariant_all v0 _ op ghn hIn (coveredAllRun_get v0 hc n op hn) k
  obtain ⟨hb, hcore⟩ := Lemmas.VolCrash.crashInv_iff.1 hC
  exact ⟨⟨gh', Lemmas.VolCrash.crashInv_iff.2 ⟨hb, Lemmas.VolCrash.core_sameGeom hgn.symm hcore⟩⟩,
    Lemmas.VolCrash.fatOK_sameGeom hgn.symm hF⟩

/-- … and it mounts, if the medium the call started from does. -/
theorem history_crash_mounts (v0 : FatVolume) (ops : List Op) (s : Mgr) (gh : Ghost) (hI : VolInvC s gh)
    (h0 : SameGeom v0 gh.vol) (hc : CoveredAllRun v0 s ops) (n : Nat) (op : Op) (hn : ops[n]? = some op) (k : Nat)
    (idx : Nat) (vm : FatVolume)
    (hm : mountPure ((run s (ops.take n)).1.dev.disk.get 0) idx (run s (ops.take n)).1.dev.disk.get = .ok vm)
    (hsg : SameGeom vm v0) :
    ∃ w, mountPure ((crashDisk (run s (ops.take n)).1.dev.disk (step (run s (ops.take n)).1 op).2.writes k).get 0) idx
        (crashDisk (run s (ops.take n)).1.dev.disk (step (run s (ops.take n)).1 op).2.writes k).get = .ok w ∧
      SameGeom v0 w := by
  obtain ⟨ghn, hIn, hgn⟩ := api_history_invariantC v0 (ops.take n) s gh hI h0 (C03Inv.coveredAllRun_take v0 hc n)
  obtain ⟨w, hw, hsw⟩ := Lemmas.VolCrash.step_mounts hIn op (nameCovered_of_coveredAll (coveredAllRun_get v0 hc n op hn)) k
    idx vm hm (hsg.trans hgn)
  exact ⟨w, hw, hgn.trans hsw⟩

/-- **The medium keeps mounting along a history**: if the medium the history starts from mounts (partition `idx`) to a
record with the geometry of `v0`, so does the medium after the history. -/
theorem history_mounts (v0 : FatVolume) (ops : List Op) (s : Mgr) (gh : Ghost) (hI : VolInvC s gh)
    (h0 : SameGeom v0 gh.vol) (hc : CoveredAllRun v0 s ops) (idx : Nat) (vm : FatVolume)
    (hm : mountPure (s.dev.disk.get 0) idx s.dev.disk.get = .ok vm) (hsg : SameGeom vm v0) :
    ∃ w, mountPure ((run s ops).1.dev.disk.get 0) idx (run s ops).1.dev.disk.get = .ok w ∧ SameGeom v0 w := by
  induction ops generalizing s gh vm with
  | nil => exact ⟨vm, hm, hsg.symm⟩
  | cons op ops ih =>
    obtain ⟨gh1, h1, g1⟩ := api_step_invariantC v0 s op gh hI h0 hc.1
    obtain ⟨w1, hw1, hs1⟩ := Lemmas.VolCrash.step_mounts_after hI op (nameCovered_of_coveredAll hc.1) idx vm hm (hsg.trans h0)
    obtain ⟨w, hw, hs⟩ := ih (step s op).1 gh1 h1 g1 hc.2 w1 hw1 ((h0.trans hs1).symm)
    exact ⟨w, by unfold run; exact hw, hs⟩

/-- **"the medium mounts"** at every crash point inside any call of any covered history — given only that the medium the
history starts from mounts. -/
theorem history_crash_mounts_from_start (v0 : FatVolume) (ops : List Op) (s : Mgr) (gh : Ghost) (hI : VolInvC s gh)
    (h0 : SameGeom v0 gh.vol) (hc : CoveredAllRun v0 s ops) (n : Nat) (op : Op) (hn : ops[n]? = some op) (k : Nat)
    (idx : Nat) (vm : FatVolume) (hm : mountPure (s.dev.disk.get 0) idx s.dev.disk.get = .ok vm) (hsg : SameGeom vm v0) :
    ∃ w, mountPure ((crashDisk (run s (ops.take n)).1.dev.disk (step (run s (ops.take n)).1 op).2.writes k).get 0) idx
        (crashDisk (run s (ops.take n)).1.dev.disk (step (run s (ops.take n)).1 op).2.writes k).get = .ok w ∧
      SameGeom v0 w := by
  obtain ⟨wn, hwn, hsn⟩ := history_mounts v0 (ops.take n) s gh hI h0 (C03Inv.coveredAllRun_take v0 hc n) idx vm hm hsg
  exact history_crash_mounts v0 ops s gh hI h0 hc n op hn k idx wn hwn hsn.symm

/-! ### The independent checker -/

/-- **`crash_fsck_ok`.**  On a crash-consistent medium with valid FAT entries the structure checker of
`Sdmmc.Spec.Fs`, run in its crash-consistency variant (no pending entries, size clause off), reports no problem —
under (H1) `NoOne` and (H2) `DepthOK` (as for `Props.C03Inv.fsck_ok`; lost clusters are listed in `leaked`, not in
`problems`). -/
theorem crash_fsck_ok (v : FatVolume) (d : Disk) (gh : Ghost) (hC : CrashInv v d gh) (hF : FatEntriesOK v d)
    (g : Spec.Fs.Geom) (hg : GeomOf v g) (h1 : NoOne v d) (h2 : DepthOK gh.dirs) :
    (Spec.Fs.fsck g d [] false).problems = [] :=
  Lemmas.VolCrash.crash_fsck_ok v d gh hC hF g hg h1 h2

/-- (H2) holds when the tree has at most 63 sub-directories. -/
theorem depth_ok_of_few_dirs {v : FatVolume} {d : Disk} {gh : Ghost} (hC : CrashInv v d gh) (hl : gh.dirs.length ≤ 63) :
    DepthOK gh.dirs :=
  Lemmas.VolCrash.Fsck.depthOK_of_length hC hl

/-- Hence: at every crash point of every covered call the checker finds no problem (for any ghost witnessing
`CrashInv` there whose tree is at most 63 levels deep, and no FAT32 entry `1` on the crashed medium). -/
theorem crash_point_fsck (s : Mgr) (op : Op) (gh : Ghost) (hI : VolInvC s gh) (hc : Covered s op) (k : Nat)
    (g : Spec.Fs.Geom) (hg : GeomOf gh.vol g) (h1 : NoOne gh.vol (crashDisk s.dev.disk (step s op).2.writes k))
    (h2 : ∀ gh', CrashInv gh.vol (crashDisk s.dev.disk (step s op).2.writes k) gh' → DepthOK gh'.dirs) :
    (Spec.Fs.fsck g (crashDisk s.dev.disk (step s op).2.writes k) [] false).problems = [] := by
  obtain ⟨⟨gh', hC⟩, hF⟩ := api_crash_invariant s op gh hI hc k
  exact crash_fsck_ok _ _ gh' hC hF g hg h1 (h2 gh' hC)

/-! ### What it says — clause by clause of the property -/

section
variable {v : FatVolume} {d : Disk} {gh : Ghost}

/-- "no chain is cyclic", "[no] chain refers to a free, bad or out-of-range cluster" -/
theorem crash_chains_sound (hC : CrashInv v d gh) {cs : List Nat} (hcs : cs ∈ gh.G) :
    cs ≠ [] ∧ cs.Nodup ∧
    (∀ c, c ∈ cs → InRange v c ∧ ¬ isFree v d c ∧ ¬ isBad v d c) ∧
    (∀ k x y, cs[k]? = some x → cs[k + 1]? = some y → nextOf v d x = .ok y) ∧
    (∀ k x, cs[k]? = some x → k + 1 = cs.length → nextOf v d x = .err .EndOfFile) :=
  Lemmas.VolCrash.crash_chains_sound hC hcs

/-- "no live directory entry … refers to a free, bad or out-of-range cluster": the FAT32 root, every sub-directory
and every file entry with a cluster (raw on-disk field) designate the first cluster of a chain of `gh.G`. -/
theorem crash_references_sound (hC : CrashInv v d gh) :
    (∀ c, c ∈ rootHead v → chainOf gh.G c ∈ gh.G ∧ (chainOf gh.G c).head? = some c) ∧
    (∀ h p, (h, p) ∈ gh.dirs → chainOf gh.G h ∈ gh.G ∧ (chainOf gh.G h).head? = some h) ∧
    (∀ h, h ∈ dirIds gh.dirs → ∀ o, o ∈ objects h (dirSlots v d gh.G h) → isDirE o = false →
      sCluster v.fatType o ≠ 0 →
      chainOf gh.G (sCluster v.fatType o) ∈ gh.G ∧ (chainOf gh.G (sCluster v.fatType o)).head? = some (sCluster v.fatType o)) :=
  Lemmas.VolCrash.crash_references_sound hC

/-- "no sub-directory entry lacks its own cluster" — and that cluster's slots start with `.` and `..`. -/
theorem crash_subdirs (hC : CrashInv v d gh) {h : Nat} (hh : h ∈ dirIds gh.dirs) {o : Slot}
    (ho : o ∈ objects h (dirSlots v d gh.G h)) (hd : isDirE o = true) :
    (sCluster v.fatType o, h) ∈ gh.dirs ∧ chainOf gh.G (sCluster v.fatType o) ∈ gh.G ∧
    (chainOf gh.G (sCluster v.fatType o)).head? = some (sCluster v.fatType o) ∧
    ∃ s0 s1 rest, dirSlots v d gh.G (sCluster v.fatType o) = s0 :: s1 :: rest ∧
      IsDot v.fatType Sfn.thisDir (sCluster v.fatType o) s0 ∧ IsDot v.fatType Sfn.parentDir h s1 :=
  Lemmas.VolCrash.crash_subdirs hC hh ho hd

/-- "no two chains share a cluster" — and no two references name the same chain. -/
theorem crash_no_sharing (hC : CrashInv v d gh) :
    (∀ (i j a b : Nat) (cs cs' : List Nat) (c : Nat), gh.G[i]? = some cs → gh.G[j]? = some cs' → cs[a]? = some c →
      cs'[b]? = some c → i = j ∧ a = b) ∧
    (rootHead v ++ gh.dirs.map Prod.fst ++
      (dirIds gh.dirs).flatMap fun h => fileRefs v.fatType [] (objects h (dirSlots v d gh.G h))).Nodup :=
  Lemmas.VolCrash.crash_no_sharing hC

/-- "Space that is allocated but not yet referenced … [is] the only permitted residue" (with stale sizes): the chains
of the record are exactly the referenced ones; a cluster in use is a cluster of such a chain or a lost cluster. -/
theorem crash_residue (hC : CrashInv v d gh) :
    List.Perm (rootHead v ++ gh.dirs.map Prod.fst ++
      (dirIds gh.dirs).flatMap fun h => fileRefs v.fatType [] (objects h (dirSlots v d gh.G h))) (gh.G.map fun cs => cs.headD 0) ∧
    ∀ c, isUsed v d c → (∃ cs, cs ∈ gh.G ∧ c ∈ cs) ∨ Lost v d gh.G c :=
  ⟨Lemmas.VolCrash.crash_refs_exact hC, fun c hu => Lemmas.VolCrash.crash_used_or_lost gh c hu⟩

/-- "every directory has unique names" (kept from C03) -/
theorem crash_names_unique (hC : CrashInv v d gh) {h : Nat} (hh : h ∈ dirIds gh.dirs) :
    ((entries (dirSlots v d gh.G h)).map sName).Nodup ∧ ((objects h (dirSlots v d gh.G h)).map sName).Nodup :=
  Lemmas.VolCrash.crash_names_unique hC hh

/-- "sub-directories have correct dot and dot-dot entries" (kept from C03) -/
theorem crash_dot_entries (hC : CrashInv v d gh) {h p : Nat} (hp : (h, p) ∈ gh.dirs) :
    (∃ s0 s1 rest, dirSlots v d gh.G h = s0 :: s1 :: rest ∧ IsDot v.fatType Sfn.thisDir h s0 ∧
      IsDot v.fatType Sfn.parentDir p s1) ∧ p ∈ dirIds gh.dirs :=
  Lemmas.VolCrash.crash_dot_entries hC hp

/-- "no directory exposes uninitialised cluster contents as entries": nothing follows the end-of-directory marker. -/
theorem crash_clean_tail (hC : CrashInv v d gh) {h : Nat} (hh : h ∈ dirIds gh.dirs) : CleanTail (dirSlots v d gh.G h) :=
  Lemmas.VolCrash.crash_clean_tail hC hh

/-- A decidable test implying `CrashInv` (used by the examples). -/
theorem crash_check_sound (h : Lemmas.VolCrash.Fsck.crashInvB v d gh = true) : CrashInv v d gh :=
  Lemmas.VolCrash.Fsck.crashInvB_sound h

end

/-! ### Non-vacuity and evaluated examples (tests, labelled as tests) -/

namespace Example
open Sdmmc.Lemmas.VolExample Sdmmc.Props.C03Inv.Example
open Sdmmc.Props.C04Hist.Example (mirror_of_check mirror1)

/-- The quiescent FAT16 example volume of `Props.C03Inv` / `Props.C04Hist`. -/
theorem quiescent : VolInvC mgr1 gh1 := volInvC_of_quiescent mgr1_inv mirror1 rfl

/-- The same volume with `E.DAT` open, written to (cluster 6, 5 bytes) and not yet flushed: the on-disk slot still says
"no cluster, size 0" — `RawOK` holds with the first alternative. -/
theorem open_file : VolInvC mgr0 gh0 :=
  ⟨mgr0_inv, mirror_of_check _ _ (by decide +kernel), fun f hf => by
    have : f = fileE := by simpa [mgr0] using hf
    subst this
    decide +kernel⟩

/-- … its medium is crash-consistent as it stands; cluster 6 is a lost cluster of the medium (the record of the raw
medium does not contain the chain of the unflushed file). -/
theorem open_file_medium : (∃ gh', CrashInv vol16 mgr0.dev.disk gh') ∧ FatEntriesOK vol16 mgr0.dev.disk ∧
    (Spec.Fs.fsck (geomOfVol vol16) mgr0.dev.disk [] false).leaked = [6] :=
  ⟨(between_calls open_file).1, (between_calls open_file).2, by decide +kernel⟩

/-- The history of `Props.C03Inv.Example` (create `N.TXT`, write 600 bytes, flush, `mkdir D` in `SUB`, delete `A.TXT`,
close) issues 19 device writes: 25 crash points.  The theorem applies to all of them … -/
theorem ops_crash (n : Nat) (op : Op) (hn : ops[n]? = some op) (k : Nat) :
    (∃ gh', CrashInv vol16 (crashDisk (run mgr1 (ops.take n)).1.dev.disk (step (run mgr1 (ops.take n)).1 op).2.writes k) gh') ∧
    FatEntriesOK vol16 (crashDisk (run mgr1 (ops.take n)).1.dev.disk (step (run mgr1 (ops.take n)).1 op).2.writes k) :=
  history_crash_invariant vol16 ops mgr1 gh1 quiescent (SameGeom.refl _) ops_covered_all n op hn k

/-- The media a power cut can leave during the `n`-th call of the history. -/
def crashPoints (n : Nat) : List Disk :=
  match ops[n]? with
  | some op => crashDisks (run mgr1 (ops.take n)).1.dev.disk (step (run mgr1 (ops.take n)).1 op).2.writes
  | none => []

/-- … and, evaluated (TEST): at each of them the independent checker (crash variant) reports no problem; the lost
clusters it lists: the cluster(s) of the unflushed file during `write` (6, then 6 and 8) until the `flush`; the new
directory's cluster 9 during `mkdir` until the parent's entry is written; the chain 2 → 3 of the deleted file, shrinking,
during `delete`. -/
theorem ops_crash_points_checked :
    (List.range 6).map (fun n => (crashPoints n).map fun dk =>
      ((Spec.Fs.fsck (geomOfVol vol16) dk [] false).problems, (Spec.Fs.fsck (geomOfVol vol16) dk [] false).leaked)) =
    [[([], []), ([], [])],
     [([], []), ([], [6]), ([], [6]), ([], [6]), ([], [6, 8]), ([], [6, 8]), ([], [6, 8]), ([], [6, 8]), ([], [6, 8])],
     [([], [6, 8]), ([], [])],
     [([], []), ([], [9]), ([], [9]), ([], [9]), ([], [])],
     [([], []), ([], [2, 3]), ([], [2, 3]), ([], [2, 3]), ([], [2]), ([], [2]), ([], []), ([], [])],
     [([], []), ([], [])]] := by decide +kernel

/-- `RawOK` CANNOT BE DROPPED (TEST, the excluded point evaluated).  The state `mgr0` with the on-disk slot of the open,
modified file `E.DAT` naming cluster 2 — the first cluster of `A.TXT`: the invariant of C03 holds (it reads the open
file's record, not the slot) and so does `Mirror`, the live checker is content, but `RawOK` fails and the MEDIUM is not
crash-consistent: the crash variant of the checker reports the cross-link.  No API history produces such a state
(`api_history_invariantC`). -/
def subBad : Block :=
  pad (ent16 Sfn.thisDir 0x10 4 0 ++ ent16 Sfn.parentDir 0x10 0 0 ++ ent16 nB 0x20 5 100 ++ ent16 nE 0x20 2 0)
def mgrBad : Mgr := { mgr0 with dev := { disk := mgr0.dev.disk.set 6 subBad } }

theorem rawOK_needed :
    VolInv mgrBad gh0 ∧ Mirror vol16 mgrBad.dev.disk ∧ ¬ RawOK vol16.fatType mgrBad.dev.disk mgrBad.files ∧
    (Spec.Fs.fsck (geomOfVol vol16) mgrBad.dev.disk (pendingOf mgrBad) true).problems = [] ∧
    (Spec.Fs.fsck (geomOfVol vol16) mgrBad.dev.disk [] false).problems =
      ["S1-shared-cluster:2:/A_______TXT:/SUB________/E_______DAT",
       "S1-shared-cluster:3:/A_______TXT:/SUB________/E_______DAT"] := by
  refine ⟨C03Inv.check_sound _ _ (by decide +kernel), mirror_of_check _ _ (by decide +kernel), ?_, by decide +kernel,
    by decide +kernel⟩
  intro h
  have := h fileE (by simp [mgrBad, mgr0])
  revert this
  decide +kernel

end Example

end Sdmmc.Props.C10Inv
