/-
C10 (crash-prefix form, directory plane, F level) — "… no live directory entry … refers to a free …
cluster, … no directory exposes uninitialised cluster contents as entries, and no sub-directory entry
lacks its own cluster.  Space that is allocated but not yet referenced … [is] the only permitted residue."

Property theorems only.  Vocabulary: `Sdmmc.Spec.CrashDir` (`AllocStage`, `SlotFree`, `DirGrown`,
`FreshOnly`, `NewDirReady`) on top of `Sdmmc.Spec.Crash`.  Proofs: `Sdmmc.Lemmas.CrashDir{Walk,Entry,Spec}`,
`Sdmmc.Lemmas.CrashMakeDir`.  Model: `Fat.writeNewDirectoryEntry` (+ `writeNewWalk`, `writeNewBlocks`),
`Fat.makeDir` = `write_new_directory_entry`, `make_dir` of /repo/src/fat/volume.rs.
(Deleting is `C10Crash.delete_body_crash`.)

WHAT IS PROVED (every volume, medium, fault-free coherent state with 512-byte blocks, `WFGeom`, hint ≥ 2;
the directory written to is the FAT16 fixed root or has a well-formed chain `dcs`; the call succeeds; EVERY
prefix of the device writes of the call):

* `new_entry_crash` — `write_new_directory_entry(dir, name, att, first_cluster)`.  The call is, in this
  order: read-only steps; possibly ONE `alloc_cluster(Some(last), zero = true)`; ONE device write — the
  32 bytes of a slot that was free (first free slot of its block, `SlotFree`) are replaced by the new
  entry.  That write is the last device write of the call.
  - A free slot exists in the directory: it is the only write; the crashed medium is the one before or
    the one after the call.  So the live entries are the old ones, or the old ones plus the new one.
  - Every slot of every block of the chain is taken: the allocation happens first; at each of its crash
    points the medium is in one of the stages `AllocStage … zero = true c` relative to the medium before
    the call — (A) FAT untouched, some blocks of the still free `c` blanked; (B) `c` marked, entirely
    blank, not linked; (C) linked from the old last cluster `p`, entirely blank — and only after that the
    slot write into slot 0 of the first block of `c`.  At no crash point is a non-blank block reachable
    through the directory's chain that was not reachable before; a blank cluster reads as sixteen end
    markers per block.
* `make_dir_crash` — `make_dir(parent, sfn, att)`.  The writes in order: end-of-chain mark of the new
  cluster `c` (`alloc_cluster(None, false)`); first block of `c` (`.`, `..`, zeros); the other blocks of
  `c` (zeros); then `write_new_directory_entry(parent, sfn, att, c)` as above.  At every crash point EITHER
  the parent shows no entry for the new directory — the medium differs from the one before the call only
  in FAT entries of clusters that were free (and the link out of the parent's last cluster when the
  parent grows) and in blocks of clusters that were free, and a cluster the parent grows by is blank
  whenever it is marked (`FreshOnly`): at worst lost clusters — OR the medium is the one after the call, on
  which `c` is fully initialised (`NewDirReady`: end-of-chain, `.` → `c`, `..` → `parent`, rest blank) and
  the parent's slot holds the entry with first cluster `c`.

Note on `make_dir`: the MODEL (like the Rust) marks the new cluster in the FAT BEFORE it writes its blocks
(`alloc_cluster(None, false)`, then the blocks) — between these writes the cluster is lost space with
stale contents, but nothing refers to it: the parent's slot is written last.

HYPOTHESES.  `hdir`: the directory is the FAT16 fixed root (`(dirWalkStart v dir).fixedRoot = true`) or
`dcs` is the `Chain` of the cluster its walk starts with.  The call is assumed to return `Ok` (a failing
`write_new_directory_entry` — root full, volume full — is not analysed here; `make_dir`'s clean-up then
runs `free_cluster_chain`, `C10Crash.free_crash_stages`).
-/
import Sdmmc.Lemmas.CrashDirSpec
import Sdmmc.Props.C10Crash

namespace Sdmmc.Props.C10CrashDir
open Sdmmc.Model Sdmmc.Model.Fat Sdmmc.Spec

/-- Every crash point of a successful `write_new_directory_entry`. -/
theorem new_entry_crash (dir : Nat) (name : Bytes) (att fc : Nat) (now : Timestamp) (s s' : FS) (e : DirEntry)
    (dcs : List Nat) (hn : NoFault s) (hc : Coherent s) (hb : BlocksOK s.dev.disk) (hg : WFGeom s.vol) (hh : HintOK s.vol)
    (hdir : (dirWalkStart s.vol dir).fixedRoot = true ∨ Chain s.vol s.dev.disk (dirWalkStart s.vol dir).cluster dcs)
    (h : writeNewDirectoryEntry dir name att fc now s = (.ok e, s')) :
    ∃ dM : Disk,
      -- the last device write: a free slot gets the entry
      SlotFree dM e.entryBlock e.entryOffset ∧ e = DirEntry.new name att fc now e.entryBlock e.entryOffset ∧
      s'.dev.disk = dM.set e.entryBlock (splice (dM.get e.entryBlock) e.entryOffset (DirEntry.serialize s.vol.fatType e)) ∧
      -- either it is the only write …
      ((dM = s.dev.disk ∧
          ((dirWalkStart s.vol dir).fixedRoot = true ∧ (dirWalkStart s.vol dir).firstBlock ≤ e.entryBlock ∧
              e.entryBlock < (dirWalkStart s.vol dir).firstBlock + (dirWalkStart s.vol dir).dirSize ∨
            (dirWalkStart s.vol dir).fixedRoot = false ∧ ∃ x, x ∈ dcs ∧ InCluster s.vol x e.entryBlock) ∧
          ∀ k, crashDisk s.dev.disk (newWrites s s') k = s.dev.disk ∨ crashDisk s.dev.disk (newWrites s s') k = s'.dev.disk) ∨
      -- … or the directory grows by one blank cluster first
       (∃ p c, dcs.getLast? = some p ∧ e.entryBlock = clusterToBlock s.vol c ∧ e.entryOffset = 0 ∧
          DirGrown s.vol s.dev.disk dM p c ∧
          ∀ k, AllocStage s.vol s.dev.disk dM true c (crashDisk s.dev.disk (newWrites s s') k) ∨
            crashDisk s.dev.disk (newWrites s s') k = s'.dev.disk)) := by
  obtain ⟨sM, hsw, hsg, _, hcase⟩ := Lemmas.CrashDirEntry.newEntry_crash dir name att fc now s s' e dcs hn hc hb hg hh hdir h
  refine ⟨sM.dev.disk, hsw.free, hsw.entry, by rw [hsw.disk, hsg.fatType], ?_⟩
  rcases hcase with ⟨hd, hin, hcr⟩ | ⟨p, c, _, hl, hbk, hoff, hgr, hcr⟩
  · exact .inl ⟨hd, hin, fun k => hcr.spec k⟩
  · exact .inr ⟨p, c, hl, hbk, hoff, Lemmas.CrashDirSpec.dirGrown_of hgr,
      fun k => (hcr.spec k).elim (fun ha => .inl (Lemmas.CrashDirSpec.allocStage_of ha)) .inr⟩

/-- Every crash point of a successful `make_dir`: no entry in the parent yet (at worst lost clusters), or
the final medium with the new directory fully initialised. -/
theorem make_dir_crash (s s' : FS) (parent : Nat) (sfn : Bytes) (att : Nat) (now : Timestamp) (dcs : List Nat)
    (hn : NoFault s) (hc : Coherent s) (hb : BlocksOK s.dev.disk) (hg : WFGeom s.vol) (hh : HintOK s.vol)
    (hdir : (dirWalkStart s.vol parent).fixedRoot = true ∨ Chain s.vol s.dev.disk (dirWalkStart s.vol parent).cluster dcs)
    (h : makeDir parent sfn att now s = (.ok (), s')) :
    ∃ (c : Nat) (e : DirEntry) (dM : Disk), InRange s.vol c ∧ isFree s.vol s.dev.disk c ∧
      -- the last device write puts the entry, with first cluster `c`, into a free slot of the parent …
      SlotFree dM e.entryBlock e.entryOffset ∧ e = DirEntry.new sfn att c now e.entryBlock e.entryOffset ∧
      s'.dev.disk = dM.set e.entryBlock (splice (dM.get e.entryBlock) e.entryOffset (DirEntry.serialize s.vol.fatType e)) ∧
      (∀ j, j < s.vol.blocksPerCluster → e.entryBlock ≠ clusterToBlock s.vol c + j) ∧
      -- … on a medium on which the new directory is complete, as it is afterwards
      NewDirReady s.vol dM c parent att now ∧ NewDirReady s.vol s'.dev.disk c parent att now ∧
      -- every crash point
      ∀ k, (∃ fresh plast, (∀ q, plast = some q → dcs.getLast? = some q) ∧
              FreshOnly s.vol s.dev.disk (crashDisk s.dev.disk (newWrites s s') k) c fresh plast) ∨
           crashDisk s.dev.disk (newWrites s s') k = s'.dev.disk := by
  obtain ⟨c, sD, sM, e, hrc, hfree, _, _, _, hsw, hsg, hreadyM, _, hslot, _, hready', hcr⟩ :=
    Lemmas.CrashMakeDir.makeDir_crash s s' parent sfn att now dcs hn hc hb hg hh hdir h
  refine ⟨c, e, sM.dev.disk, hrc, hfree, hsw.free, hsw.entry, by rw [hsw.disk, hsg.fatType], hslot,
    Lemmas.CrashDirSpec.newDirReady_of hreadyM, Lemmas.CrashDirSpec.newDirReady_of hready', fun k => ?_⟩
  rcases hcr.spec k with ⟨fresh, plast, hne⟩ | hfin
  · exact .inl ⟨fresh, plast, hne.last, Lemmas.CrashDirSpec.freshOnly_of hne⟩
  · exact .inr hfin

/-! ### Non-vacuity (tests, labelled as tests) -/

namespace Example
open Sdmmc.Props.C10Crash.Example (vol st st_ready junk)

def subName : Bytes := [0x53, 0x55, 0x42, 0x20, 0x20, 0x20, 0x20, 0x20, 0x20, 0x20, 0x20]

/-- `make_dir(root, "SUB")` on the example volume of `Props/C10Crash.lean` (empty fixed root in block 9,
cluster 8 free, its block 16 holding stale `0xAA` bytes): 4 device writes — FAT copy 1, copy 2 (mark of
cluster 8), block 16 (`.`, `..`, zeros), and LAST block 9 (the parent's slot).  Per crash point: first byte
of the parent's first slot, FAT entry of 8, bytes 0, 33 and 100 of block 16.  At crash points 1 and 2
cluster 8 is marked while its block still holds stale data — lost space, nothing refers to it; the parent
shows the entry (`'S'` = 83) only at the last crash point, when the cluster is complete. -/
theorem makeDir_order :
    let r := makeDir Gen.CLUSTER_ROOT_DIR subName 0x10 default st
    (match r.1 with | .ok _ => true | _ => false) = true ∧
    (newWrites st r.2).map (·.1) = [1, 3, 16, 9] ∧
    (crashDisks st.dev.disk (newWrites st r.2)).map
        (fun dk => (byteAt (dk.get 9) 0, fatRaw vol dk 8, byteAt (dk.get 16) 0, byteAt (dk.get 16) 33, byteAt (dk.get 16) 100)) =
      [(0, 0, 170, 170, 170), (0, 65535, 170, 170, 170), (0, 65535, 170, 170, 170), (0, 65535, 46, 46, 0),
       (83, 65535, 46, 46, 0)] := by
  decide +kernel

/-- The theorem applies (the parent is the fixed root). -/
example (s' : FS) (h : makeDir Gen.CLUSTER_ROOT_DIR subName 0x10 default st = (.ok (), s')) :
    ∃ c, InRange vol c ∧ NewDirReady vol s'.dev.disk c Gen.CLUSTER_ROOT_DIR 0x10 default := by
  obtain ⟨c, _, _, hr, _, _, _, _, _, _, hready, _⟩ :=
    make_dir_crash st s' Gen.CLUSTER_ROOT_DIR subName 0x10 default [] st_ready.noFault st_ready.coherent st_ready.blocksOK
      st_ready.geom st_ready.hint (.inl (by decide)) h
  exact ⟨c, hr, hready⟩

/-- A sub-directory in cluster 2 (chain `[2]`) whose only block (10) is full: sixteen live entries.
Cluster 3 is free; its block 11 holds stale data. -/
def fatSub : Block := [0xF8, 0xFF, 0xFF, 0xFF, 0xFF, 0xFF] ++ zeros 506
def fullBlk : Block := List.replicate 512 0x41
def stSub : FS :=
  { dev := { disk := (((Disk.empty.set 1 fatSub).set 3 fatSub).set 10 fullBlk).set 11 junk }, cache := {}, vol := vol }

/-- Creating an entry there grows the directory: 6 device writes — block 11 blanked FIRST, then the mark
of cluster 3 (both FAT copies), then the link 2 → 3 (both copies), and LAST the slot write into block 11.
Per crash point: FAT entries of 2 and 3, "block 11 is blank", first byte of block 11.  Whenever cluster 3
is marked or linked its block is blank; the new entry (`'S'`) appears at the last crash point only. -/
theorem grow_order :
    let r := writeNewDirectoryEntry 2 subName 0x20 0 default stSub
    (match r.1 with | .ok e => (e.entryBlock, e.entryOffset) | _ => (0, 999)) = (11, 0) ∧
    (newWrites stSub r.2).map (·.1) = [11, 1, 3, 1, 3, 11] ∧
    (crashDisks stSub.dev.disk (newWrites stSub r.2)).map
        (fun dk => (fatRaw vol dk 2, fatRaw vol dk 3, decide (dk.get 11 = zeroBlock), byteAt (dk.get 11) 0)) =
      [(65535, 0, false, 170), (65535, 0, true, 0), (65535, 65535, true, 0), (65535, 65535, true, 0), (3, 65535, true, 0),
       (3, 65535, true, 0), (3, 65535, false, 83)] := by
  decide +kernel

end Example

end Sdmmc.Props.C10CrashDir
