/-
C11 over HISTORIES UNDER FAULTS — what holds after every prefix of a history of API calls run under ONE fault schedule
(the device carries the schedule `dev.faults` for its whole life: indices, in `dev.calls` numbering — which no call ever
resets —, of the device calls that fail; a history under faults is `run s ops` from a state whose `dev.faults` is the
schedule).

Property theorems only.  Vocabulary: `Spec/Volume.lean` (`VolInv`, `Ghost`), `Spec/VolumeFault.lean` (`VolInvF`,
`FaultInv`, `Clean`, `clearFaults`), `Props/C11Inv.lean` (`withFaults`, `Covered`, `retryOp`), `Lemmas/WriteSetInv*`
(`LicenceFor`, `NotNamed`: the vocabulary of `Props/C04Hist`).  Proofs: `Lemmas/FaultHist*.lean`.

THE TWO INVARIANTS.
* `VolInvF s gh` — `VolInv` of `s` with the schedule erased: the STRONG invariant, everything of C03 except "no fault is
  scheduled".
* `FaultInv s gh X` (`Spec/VolumeFault.lean`, `faultInv_def`) — the WEAK invariant, the TARGET of C11 over histories.
  It is `VolInv` with exactly four clauses given up:
    (1) `noFault` — a schedule may be pending;
    (2) no leak — the medium may carry LOST CHAINS `X`: `Owns` holds of `gh.G ++ X` (they are chains, disjoint from
        everything, in use, referenced by nothing; never handed out again, never walked);
    (3) `TreeOK.sizes`, upper bound — a stored size may exceed the capacity of the entry's chain (an entry without a
        cluster, or whose cluster heads no chain, is still empty);
    (4) `FileOK.size_fits` of an open file (opened from such an entry);
  everything else is kept (coherent cache, lock, one volume with the ghost's record, geometry, hint, chains pairwise
  disjoint, clean tails, PAIRWISE DISTINCT NAMES, dot entries, sub-directory entries, the references one to one the
  chains of `gh.G`, open files at live file entries, offset ≤ size, cursor on the chain, handles valid).
  Each of (2), (3), (4) is FORCED by a single failed call — evaluated: `Example.lost_chain_after_failed_delete`,
  `Example.lost_chain_after_failed_close`, `Example.size_exceeds_chain_after_failed_truncate`,
  `Example.size_fits_fails_when_reopened` — and in each of these states `FaultInv` HOLDS (by the sound executable checker
  `Lemmas.FaultHist.checkFaultInv`).  `faultInv_of_volInvF`: the strong invariant implies the weak one with `X = []`.
  NOT given up, contrary to what one might expect: the free-cluster count and hint (`VolInv` does not constrain the
  count, and `HintOK` held in every evaluated residue, although the hint does move in a failed `delete`).  Whether the record of
  an open file can run ahead of / behind the medium after a failed `write` beyond what (2)–(4) allow is part of the open
  work below (not analysed here).

WHAT IS PROVED (all for EVERY history, EVERY start state with the invariant, EVERY schedule; `Covered` as in C03).

With NO restriction on where the faults fall:
* `fault_reported_history` — in every history from EVERY state, a call during which a device call failed answers an error.
* `cache_coherent_history` — from every state with a coherent cache, the cache is coherent after every prefix.
* `schedule_is_shared` — no call changes the schedule: one schedule for the whole of `run`.
* `close_file_under_faults` — from `VolInvF`: `close_file` of an open file answers `Ok` UNLESS a device call of it fails
  (then an error); the handle has left the table in either case.
* the single-call theorems of `Props/C11Inv` (`names_unique_after_fault`, `faulted_step`, `others_intact_after_fault`,
  `retry_after_fault_correct`, …) apply to the FIRST call that hits a fault in any history (the state before it
  satisfies `VolInvF`, by `history_under_faults_partial`).

With device failures falling in calls of `classA` only — every call EXCEPT `open_file_in_dir`, `write`, `close_file`,
`delete_file_in_dir`, `make_dir_in_dir`; i.e. failures in `read`, `find`, `iterate_dir(_lfn)`, `open_dir`, `open_volume`,
`get_root_volume_label`, `flush_file`, `close_volume` (the other nine calls never touch the device); fault-FREE calls of
every kind may be interleaved freely (`FailsOnlyIn classA`):
* `history_under_faults_partial` — after EVERY prefix: `VolInvF` (hence `FaultInv … []`) for a ghost of the same
  geometry, and every call so far answered `Ok` or an error (no panic, no hang).
* `names_unique_history` — after every prefix every directory of the tree has pairwise distinct names on the medium.
* `others_intact_history` — there is a list of licences, one per call, each described (`LicenceFor`) in the state its
  call is issued in, such that after EVERY prefix an object (slot, chain) that none of the licences so far names
  (`NotNamed`) has the same slot bytes, the same chain and the same chain bytes as at the start — faults or not.
* `medium_mounts_history` — if the start medium mounts, so does the medium after every prefix.
* `handles_usable_after_faults` — from `VolInvF` with the schedule EXHAUSTED (every scheduled index in the past):
  closing the files, then the directories, then the volume answers `Ok` every time; afterwards the three tables are
  empty, `has_open_handles = false`, no device call failed, `VolInvF` holds, and the medium mounts if it did before.
* `retry_history` — a read-only call (`retryOp`) that failed at position `k` of the history, issued AGAIN from the state it
  left, the schedule being exhausted there, answers exactly what the call answers WITHOUT ANY FAULT from the state it
  was first issued in.

DEVIATION (the statement delivered is `…_partial`).  TARGET: `history_under_faults` — the same with `FaultInv s gh X` in
place of `VolInvF` and NO hypothesis `FailsOnlyIn`.  It is not proved.  `VolInvF` itself is NOT kept by a failure inside
one of the five `classB` calls (`Example.classB_failure_breaks_volInvF`: no natural ghost), which is why `FaultInv` is
weaker.  What the proof of the target needs, beyond what is here (all mechanical on top of the existing theory, but
large): (a) the engine and API theorems of C03 (`VolEng*`, `VolApi*`) from `Owns (G ++ X)` instead of `Owns G` — the
helper layers `VolMed*` / `Forest*` are already generic, a pilot is `Lemmas/VolXEng7.lean`; (b) for each engine call a
characterisation of the state a failed run leaves (tables, record) in terms of `Owns (G ++ X')` — the crash-stage lemmas
of C09/C10 give the medium, not the tables; (c) `RawOK`-type clauses (`Spec/VolumeCrash.lean`) for a failed
`close_file`, which drops a pending file; (d) `sizes` weakened as in `FaultInv`.

OBSERVATION FOR THE CRATE (`Example.size_exceeds_chain_after_failed_truncate`, `Example.read_after_truncate_residue`):
`open_file_in_dir(…, ReadWriteTruncate)` cuts the chain FIRST and rewrites the directory entry (size 0) LAST.  When the
last write fails the entry keeps its old size over a one-cluster chain; the file can be opened again, and a `read` across
the first cluster answers `Err(EndOfFile)`.  Rewriting the entry BEFORE cutting the chain would leave, at worst, a file of
size 0 with a longer chain (no reader can tell) — residue (3)/(4) would disappear from `FaultInv` altogether.
-/
import Sdmmc.Lemmas.FaultHistUse
import Sdmmc.Lemmas.FaultHistCheck
import Sdmmc.Props.C11Inv
import Sdmmc.Props.C10Inv

namespace Sdmmc.Props.C11Hist
open Sdmmc.Model Sdmmc.Model.Fat Sdmmc.Spec.Volume
open Sdmmc.Spec hiding run step NoFault Coherent
open Sdmmc.Props.C11Inv (withFaults Covered retryOp NameOK)
open Sdmmc.Lemmas.WriteSetInv (LicenceFor NotNamed)

/-! ### Vocabulary -/

/-- Every call of the history is covered (`Props.C11Inv.Covered`, as in C03) in the state it is issued in. -/
def CoveredRun : Mgr → List Op → Prop
  | _, [] => True
  | s, op :: ops => Covered s op ∧ CoveredRun (step s op).1 ops

/-- The calls in which a device failure is covered by the theorems below: all but the five that allocate, free or
create: `open_file_in_dir`, `write`, `close_file`, `delete_file_in_dir`, `make_dir_in_dir`. -/
def classA : Op → Bool
  | .openFile _ _ _ | .write _ _ | .closeFile _ | .delete _ _ | .mkdir _ _ => false
  | _ => true

/-- Along the history, a device call fails only during calls of the class `P` (calls of every kind may occur). -/
def FailsOnlyIn (P : Op → Bool) : Mgr → List Op → Prop
  | _, [] => True
  | s, op :: ops => ((step s op).1.dev.failed ≠ s.dev.failed → P op = true) ∧ FailsOnlyIn P (step s op).1 ops

/-- Every scheduled fault lies in the past: no device call fails any more. -/
def Exhausted (d : Dev) : Prop := ∀ i, i ∈ d.faults → i < d.calls

theorem classA_iff (op : Op) : classA op = Lemmas.FaultHist.classA op := by cases op <;> rfl

theorem coveredRun_iff : ∀ (ops : List Op) (s : Mgr), CoveredRun s ops ↔ Lemmas.FaultHist.CoveredRunF s ops
  | [], _ => Iff.rfl
  | op :: ops, s => and_congr (C11Inv.covered_iff s op) (coveredRun_iff ops _)

theorem failsOnlyIn_iff : ∀ (ops : List Op) (s : Mgr),
    FailsOnlyIn classA s ops ↔ Lemmas.FaultHist.FailsOnlyIn Lemmas.FaultHist.classA s ops
  | [], _ => Iff.rfl
  | op :: ops, s => and_congr (by rw [classA_iff]) (failsOnlyIn_iff ops _)

/-- `VolInvF`, spelled out. -/
theorem volInvF_def (s : Mgr) (gh : Ghost) : VolInvF s gh ↔ VolInv { s with dev := { s.dev with faults := [] } } gh := Iff.rfl

/-- A state with the invariant, given any schedule, satisfies the invariant up to the schedule. -/
theorem volInvF_withFaults {s0 : Mgr} {gh : Ghost} (hI : VolInv s0 gh) (L : List Nat) : VolInvF (withFaults L s0) gh := by
  show VolInv (Lemmas.Retry.mclr (Lemmas.FaultInv.withFaults L s0)) gh
  rw [Lemmas.FaultInv.mclr_withFaults hI.noFault L]; exact hI

/-- `FaultInv`, spelled out. -/
theorem faultInv_def (s : Mgr) (gh : Ghost) (X : List (List Nat)) :
    FaultInv s gh X ↔
      (∀ i, s.cache.tag = some i → s.cache.blk = s.dev.disk.get i) ∧ s.locked = false ∧ s.maxVols = 1 ∧
      (s.vols = [] ∨ ∃ vi, s.vols = [vi] ∧ vi.vol = gh.vol) ∧
      (BlocksOK s.dev.disk ∧ WFGeom gh.vol ∧ HintOK gh.vol ∧ Owns gh.vol s.dev.disk (gh.G ++ X) ∧
        (∃ cb, TreeOK gh.vol.fatType cb (rootHead gh.vol) gh.G gh.dirs (dirSlots gh.vol s.dev.disk gh.G) s.files) ∧
        ∀ f, f ∈ s.files → FileLoose gh.vol s.dev.disk f (chainOf gh.G f.entry.cluster) ∧
          (chainOf gh.G f.entry.cluster = [] → f.curCluster < 2)) ∧
      (∀ f, f ∈ s.files → ∃ vi, s.vols = [vi] ∧ f.rawVolume = vi.rawVolume) ∧
      (∀ di, di ∈ s.dirs → ValidDir gh.dirs di.cluster) :=
  ⟨fun h => ⟨h.coherent, h.unlocked, h.maxVols, h.vols,
      ⟨h.med.blocksOK, h.med.geom, h.med.hint, h.med.owns, h.med.tree, h.med.fileOK⟩, h.fileVols, h.openDirs⟩,
   fun h => ⟨h.1, h.2.1, h.2.2.1, h.2.2.2.1,
      ⟨h.2.2.2.2.1.1, h.2.2.2.2.1.2.1, h.2.2.2.2.1.2.2.1, h.2.2.2.2.1.2.2.2.1, h.2.2.2.2.1.2.2.2.2.1, h.2.2.2.2.1.2.2.2.2.2⟩,
      h.2.2.2.2.2.1, h.2.2.2.2.2.2⟩⟩

/-- The strong invariant implies the weak one, with no lost chain. -/
theorem faultInv_of_volInvF {s : Mgr} {gh : Ghost} (h : VolInvF s gh) : FaultInv s gh [] :=
  Lemmas.FaultHist.faultInv_of_volInvF h

/-! ### 0. What needs no hypothesis on where the faults fall -/

/-- **`schedule_is_shared`.**  No call changes the schedule: the whole history runs under the one schedule of the start
state (and `dev.calls`, by which it is indexed, is never reset). -/
theorem schedule_is_shared (ops : List Op) (s : Mgr) : (run s ops).1.dev.faults = s.dev.faults :=
  Lemmas.FaultHist.run_faults ops s

/-- **`fault_reported_history`.**  EVERY history from EVERY state: the call at position `k`, if a device call failed
during it, answers an error. -/
theorem fault_reported_history (ops : List Op) (s : Mgr) (k : Nat) (op : Op) (hk : ops[k]? = some op)
    (hfail : (step (run s (ops.take k)).1 op).1.dev.failed ≠ (run s (ops.take k)).1.dev.failed) :
    ∃ e, (step (run s (ops.take k)).1 op).2.result = .err e :=
  (Lemmas.FaultHist.hist_generic ops s k).2 op hk hfail

/-- **`cache_coherent_history`.**  EVERY history from every state whose cache is coherent: after every prefix the
cached block, if tagged, is the block on the medium — whatever failed. -/
theorem cache_coherent_history (ops : List Op) (s : Mgr) (hc : ∀ i, s.cache.tag = some i → s.cache.blk = s.dev.disk.get i)
    (k : Nat) : ∀ i, (run s (ops.take k)).1.cache.tag = some i →
      (run s (ops.take k)).1.cache.blk = (run s (ops.take k)).1.dev.disk.get i :=
  (Lemmas.FaultHist.hist_generic ops s k).1 hc

/-- **`close_file_under_faults`.**  From the invariant up to the schedule, whatever is scheduled: `close_file` of an
open file answers `Ok` unless a device call of it fails — then an error —; in either case one handle has left the table
(the crate removes the handle even when the flush fails), the directory and volume handles are untouched. -/
theorem close_file_under_faults {s : Mgr} {gh : Ghost} (hI : VolInvF s gh) {file : Nat}
    (hf : file ∈ s.files.map (·.rawFile)) :
    ((step s (.closeFile file)).2.result = .ok .unit ∨
      ((step s (.closeFile file)).1.dev.failed ≠ s.dev.failed ∧ ∃ e, (step s (.closeFile file)).2.result = .err e)) ∧
    (step s (.closeFile file)).1.files.length + 1 = s.files.length ∧
    (step s (.closeFile file)).1.dirs = s.dirs ∧
    (step s (.closeFile file)).1.vols.map (·.rawVolume) = s.vols.map (·.rawVolume) :=
  Lemmas.FaultHist.closeFile_ok_or_fault hI hf

/-! ### 1. The invariant along histories -/

/-- **`history_under_faults_partial`** (TARGET `history_under_faults`: the same with `FaultInv … X` for `VolInvF` and
without `hf`; see the header).  After EVERY prefix of a covered history run under ANY schedule whose failures fall in
`classA` calls: the invariant up to the schedule — hence `FaultInv` without lost chains — holds for a ghost of the same
geometry, and every call so far answered `Ok` or an error: none panicked, none hung. -/
theorem history_under_faults_partial (ops : List Op) {s : Mgr} {gh : Ghost} (hI : VolInvF s gh) (hc : CoveredRun s ops)
    (hf : FailsOnlyIn classA s ops) (k : Nat) :
    (∃ gh', VolInvF (run s (ops.take k)).1 gh' ∧ FaultInv (run s (ops.take k)).1 gh' [] ∧ SameGeom gh.vol gh'.vol) ∧
    ∀ o, o ∈ (run s (ops.take k)).2 → Clean o.result := by
  obtain ⟨⟨gh', h1, h2⟩, h3⟩ := Lemmas.FaultHist.history_inv_A ops hI ((coveredRun_iff ops s).1 hc)
    ((failsOnlyIn_iff ops s).1 hf) k
  exact ⟨⟨gh', h1, faultInv_of_volInvF h1, h2⟩, h3⟩

/-- The same from a state with the invariant and an ARBITRARY schedule `L` for the whole history. -/
theorem history_under_faults_from_invariant (ops : List Op) {s0 : Mgr} {gh : Ghost} (hI : VolInv s0 gh) (L : List Nat)
    (hc : CoveredRun (withFaults L s0) ops) (hf : FailsOnlyIn classA (withFaults L s0) ops) (k : Nat) :
    (∃ gh', VolInvF (run (withFaults L s0) (ops.take k)).1 gh' ∧ FaultInv (run (withFaults L s0) (ops.take k)).1 gh' [] ∧
      SameGeom gh.vol gh'.vol) ∧
    ∀ o, o ∈ (run (withFaults L s0) (ops.take k)).2 → Clean o.result :=
  history_under_faults_partial ops (volInvF_withFaults hI L) hc hf k

/-- **`names_unique_history`** (same hypotheses).  After every prefix, every directory of the tree holds pairwise
distinct names on the medium. -/
theorem names_unique_history (ops : List Op) {s : Mgr} {gh : Ghost} (hI : VolInvF s gh) (hc : CoveredRun s ops)
    (hf : FailsOnlyIn classA s ops) (k : Nat) :
    ∃ gh' : Ghost, SameGeom gh.vol gh'.vol ∧ ∀ h, h ∈ dirIds gh'.dirs →
      ((entries (dirSlots gh'.vol (run s (ops.take k)).1.dev.disk gh'.G h)).map sName).Nodup := by
  obtain ⟨⟨gh', h1, _, h2⟩, _⟩ := history_under_faults_partial ops hI hc hf k
  exact ⟨gh', h2, h1.med.tree.names⟩

/-! ### 2. Handles stay usable -/

/-- **`handles_usable_after_faults`.**  From the invariant up to a schedule that is EXHAUSTED (identical FAT copies, as
in C04): close the files (in some order of the table), then the directories, then the volume.  Every call answers `Ok`;
afterwards all three tables are empty, `has_open_handles` is `false`, no device call failed, the invariant up to the
schedule holds, and a medium that mounted before (partition `idx`, geometry of the volume) still mounts.  (While faults
are still pending `close_file` may answer a device error: `close_file_under_faults`.) -/
theorem handles_usable_after_faults {s : Mgr} {gh : Ghost} (hI : VolInvF s gh) (hm : Mirror gh.vol s.dev.disk)
    (hx : Exhausted s.dev) :
    ∃ (fs ds vs : List Nat), fs.Perm (s.files.map (·.rawFile)) ∧ ds.Perm (s.dirs.map (·.rawDirectory)) ∧
      vs = s.vols.map (·.rawVolume) ∧
      let ops := fs.map Op.closeFile ++ ds.map Op.closeDir ++ vs.map Op.closeVolume
      (∀ o, o ∈ (run s ops).2 → o.result = .ok .unit) ∧
      (run s ops).1.files = [] ∧ (run s ops).1.dirs = [] ∧ (run s ops).1.vols = [] ∧
      hasOpenHandles (run s ops).1 = false ∧
      (run s ops).1.dev.failed = s.dev.failed ∧
      (∃ gh', VolInvF (run s ops).1 gh' ∧ SameGeom gh.vol gh'.vol) ∧
      ∀ (idx : Nat) (vm : FatVolume), mountPure (s.dev.disk.get 0) idx s.dev.disk.get = .ok vm → SameGeom vm gh.vol →
        ∃ w, mountPure ((run s ops).1.dev.disk.get 0) idx (run s ops).1.dev.disk.get = .ok w ∧ SameGeom gh.vol w :=
  Lemmas.FaultHist.drain_exhausted hI hm hx

/-- Once exhausted, a schedule stays exhausted, no device call fails, and every call is the call without any fault. -/
theorem exhausted_step (s : Mgr) (op : Op) (h : Exhausted s.dev) :
    Exhausted (step s op).1.dev ∧ (step s op).1.dev.failed = s.dev.failed ∧
    (step (clearFaults s) op).2 = (step s op).2 ∧ (step (clearFaults s) op).1 = clearFaults (step s op).1 :=
  Lemmas.FaultHist.step_exhausted s op h

/-! ### 3. Objects no call names are intact -/

/-- **`others_intact_history`** (C04Hist vocabulary; `Mirror`: identical FAT copies at the start).  There is a list `Ls`
of licences, one per call, each a licence `LicenceFor` describes for its call in the state that call is issued in (which
satisfies the invariant up to the schedule), such that after EVERY prefix `k`: every object of the start medium — slot
at byte `so` of block `sb`, chain `cs` from cluster `c` — that none of the first `k` licences names has the same 32 slot
bytes, is still the chain of `c`, and holds the same bytes — under whatever was scheduled; the FAT copies still agree. -/
theorem others_intact_history (ops : List Op) {s : Mgr} {gh : Ghost} (hI : VolInvF s gh) (hm : Mirror gh.vol s.dev.disk)
    (hc : CoveredRun s ops) (hf : FailsOnlyIn classA s ops) :
    ∃ Ls : List Licence, Ls.length = ops.length ∧
      (∀ L, L ∈ Ls → ∃ k op gh', ops[k]? = some op ∧ VolInvF (run s (ops.take k)).1 gh' ∧ SameGeom gh.vol gh'.vol ∧
        LicenceFor gh' (run s (ops.take k)).1.files (run s (ops.take k)).1.dirs (run s (ops.take k)).1.dev.disk op L) ∧
      ∀ (k sb so c : Nat) (cs : List Nat), Chain gh.vol s.dev.disk c cs →
        (regionOf gh.vol sb = .root ∨ regionOf gh.vol sb = .data) → so % 32 = 0 →
        (∀ L, L ∈ Ls.take k → NotNamed gh.vol L sb so cs) →
        slice ((run s (ops.take k)).1.dev.disk.get sb) so 32 = slice (s.dev.disk.get sb) so 32 ∧
        Chain gh.vol (run s (ops.take k)).1.dev.disk c cs ∧
        chainBytes gh.vol (run s (ops.take k)).1.dev.disk cs = chainBytes gh.vol s.dev.disk cs := by
  have hI' : VolInv (Lemmas.Retry.mclr s) gh := hI
  obtain ⟨Ls, hR, _⟩ := Lemmas.FaultHist.runLicF_of_classA gh.vol ops hI' hm (SameGeom.refl _)
    ((coveredRun_iff ops s).1 hc) ((failsOnlyIn_iff ops s).1 hf)
  refine ⟨Ls, Lemmas.FaultHist.runLicF_length hR, fun L hL => Lemmas.FaultHist.runLicF_nth hR L hL, ?_⟩
  intro k sb so c cs hch hreg hso hnn
  exact Lemmas.FaultHist.unnamed_unchanged_F hI'.med.geom (Lemmas.FaultHist.runLicF_take hR k) hI'.med.blocksOK
    sb so c cs hch hreg hso hnn

/-- **`medium_mounts_history`.**  If the start medium mounts (partition `idx`) to a record with the geometry of the
volume, so does the medium after every prefix. -/
theorem medium_mounts_history (ops : List Op) {s : Mgr} {gh : Ghost} (hI : VolInvF s gh) (hm : Mirror gh.vol s.dev.disk)
    (hc : CoveredRun s ops) (hf : FailsOnlyIn classA s ops) (k : Nat) (idx : Nat) (vm : FatVolume)
    (hmt : mountPure (s.dev.disk.get 0) idx s.dev.disk.get = .ok vm) (hsg : SameGeom vm gh.vol) :
    ∃ w, mountPure ((run s (ops.take k)).1.dev.disk.get 0) idx (run s (ops.take k)).1.dev.disk.get = .ok w ∧
      SameGeom gh.vol w := by
  have hI' : VolInv (Lemmas.Retry.mclr s) gh := hI
  obtain ⟨Ls, hR, _⟩ := Lemmas.FaultHist.runLicF_of_classA gh.vol ops hI' hm (SameGeom.refl _)
    ((coveredRun_iff ops s).1 hc) ((failsOnlyIn_iff ops s).1 hf)
  exact Lemmas.FaultHist.runLicF_mounts hI'.med.geom (Lemmas.FaultHist.runLicF_take hR k) hI'.med.blocksOK idx vm hmt hsg

/-! ### 4. Retry -/

/-- **Retry, one call**: from the invariant up to the schedule (a volume open), a read-only call `op` (`retryOp`) during
which a device call failed, issued AGAIN from the state the failed call left — the schedule exhausted there — answers
exactly what `op` answers WITHOUT ANY FAULT from the state it was first issued in. -/
theorem retry_when_exhausted {s : Mgr} {gh : Ghost} (hI : VolInvF s gh) (hvol : s.vols ≠ []) (op : Op)
    (hop : retryOp op = true) (hfail : (step s op).1.dev.failed ≠ s.dev.failed) (hx : Exhausted (step s op).1.dev) :
    (step (step s op).1 op).2.result = (step (clearFaults s) op).2.result :=
  Lemmas.FaultHist.retry_F hI hvol op (by rw [← C11Inv.retryOp_iff]; exact hop) hfail hx

/-- **`retry_history`.**  In a history as above, the read-only call at position `k` fails; the schedule is exhausted in
the state it leaves.  The retry answers what the call answers in the fault-free continuation from the same state. -/
theorem retry_history (ops : List Op) {s : Mgr} {gh : Ghost} (hI : VolInvF s gh) (hc : CoveredRun s ops)
    (hf : FailsOnlyIn classA s ops) (k : Nat) (op : Op) (hop : retryOp op = true)
    (hvol : (run s (ops.take k)).1.vols ≠ [])
    (hfail : (step (run s (ops.take k)).1 op).1.dev.failed ≠ (run s (ops.take k)).1.dev.failed)
    (hx : Exhausted (step (run s (ops.take k)).1 op).1.dev) :
    (step (step (run s (ops.take k)).1 op).1 op).2.result = (step (clearFaults (run s (ops.take k)).1) op).2.result := by
  obtain ⟨⟨gh', h1, _, _⟩, _⟩ := history_under_faults_partial ops hI hc hf k
  exact retry_when_exhausted h1 hvol op hop hfail hx

/-! ### Non-vacuity, residues, excluded points (evaluated) -/

namespace Example
open Sdmmc.Lemmas.VolExample Sdmmc.Lemmas.VolCheck
open Sdmmc.Lemmas.FaultHist (checkFaultInv checkFaultInv_sound)

def isDeviceError {α} : Res α → Bool
  | .err .DeviceError => true
  | _ => false
def isOk {α} : Res α → Bool
  | .ok _ => true
  | _ => false

/-- The ghost with the volume record the manager holds now (a call may have moved the free-cluster hint). -/
def ghOf (s : Mgr) (G : List (List Nat)) : Ghost := { vol := (s.vols.headD default).vol, G := G, dirs := [(4, 0)] }

def nameA : List Nat := [65, 46, 84, 88, 84]

/-! #### A history with faults in class-A calls -/

/-- On the example volume with `E.DAT` open and dirty (`mgr0`): `find A.TXT` (its read, device call 0, FAILS),
`flush_file` (device call 1 reads the directory block, device call 2 — its write — FAILS), `find A.TXT` again,
`flush_file` again (now succeeds), `read`, `close_file`, `close_dir` twice, `close_volume`. -/
def ops : List Op :=
  [.find 2 nameA, .flush 4, .find 2 nameA, .flush 4, .seekStart 4 0, .read 4 5, .closeFile 4, .closeDir 2, .closeDir 3,
   .closeVolume 1]
def sched : List Nat := [0, 2]

theorem ops_results :
    (run (withFaults sched mgr0) ops).2.map (fun o => (isOk o.result, isDeviceError o.result)) =
      [(false, true), (false, true), (true, false), (true, false), (true, false), (true, false), (true, false),
       (true, false), (true, false), (true, false)] ∧
    (run (withFaults sched mgr0) ops).1.dev.failed = 2 ∧
    hasOpenHandles (run (withFaults sched mgr0) ops).1 = false := by decide +kernel

theorem ops_covered : CoveredRun (withFaults sched mgr0) ops := by
  refine ⟨trivial, trivial, trivial, trivial, trivial, trivial, trivial, trivial, trivial, trivial, trivial⟩

theorem ops_classA : FailsOnlyIn classA (withFaults sched mgr0) ops := by
  refine ⟨fun _ => rfl, fun _ => rfl, fun _ => rfl, fun _ => rfl, fun _ => rfl, fun _ => rfl, ?_, fun _ => rfl, fun _ => rfl,
    fun _ => rfl, trivial⟩
  intro h
  exact absurd (by decide +kernel) h

/-- The theorems at this history: the invariant after every prefix. -/
theorem ops_invariant (k : Nat) :
    ∃ gh', VolInvF (run (withFaults sched mgr0) (ops.take k)).1 gh' ∧ SameGeom vol16 gh'.vol :=
  let ⟨⟨gh', h1, _, h2⟩, _⟩ := history_under_faults_from_invariant ops mgr0_inv sched ops_covered ops_classA k
  ⟨gh', h1, h2⟩

/-- The retry theorem at this history: the `find` at position 0 failed; retried after the schedule is exhausted (here:
from the state after the second call) it answers what it answers without any fault.  Evaluated: both find `A.TXT`. -/
theorem ops_retry_value :
    (match (step (run (withFaults sched mgr0) (ops.take 2)).1 (.find 2 nameA)).2.result with
      | .ok (.entry e) => e.size == 700 && e.cluster == 2 | _ => false) = true ∧
    (match (step mgr0 (.find 2 nameA)).2.result with | .ok (.entry e) => e.size == 700 && e.cluster == 2 | _ => false) = true := by
  decide +kernel

/-! #### Residue (2): lost chains -/

def del : Op := .delete 2 nameA

/-- **A failed `delete_file_in_dir` leaves a lost chain.**  `delete A.TXT` on the quiescent example volume, device call 3
(the first FAT read after the entry was marked deleted) fails: `DeviceError`; the entry is gone, the chain `2 → 3` is
still allocated and nothing refers to it.  `VolInv` fails (`owns.used`: a used cluster outside the record; with the old
record instead: `tree.allRefs`); `FaultInv` HOLDS with the lost chain `X = [[2, 3]]`. -/
theorem lost_chain_after_failed_delete :
    let s := (step (withFaults [3] mgr1) del).1
    isDeviceError (step (withFaults [3] mgr1) del).2.result = true ∧
    explainVolInv (clearFaults s) (ghOf s [[4], [5]]) = ["owns.used"] ∧
    explainVolInv (clearFaults s) (ghOf s [[2, 3], [4], [5]]) = ["tree.allRefs"] ∧
    checkFaultInv s (ghOf s [[4], [5]]) [[2, 3]] 512 = true := by decide +kernel

theorem lost_chain_faultInv :
    FaultInv (step (withFaults [3] mgr1) del).1 (ghOf (step (withFaults [3] mgr1) del).1 [[4], [5]]) [[2, 3]] :=
  checkFaultInv_sound _ _ _ 512 lost_chain_after_failed_delete.2.2.2

/-- The same call failing later (device call 6: cluster 3 is free again, the entry of cluster 2 still says
end-of-chain): the lost chain is `[2]`. -/
theorem lost_cluster_after_failed_delete :
    let s := (step (withFaults [6] mgr1) del).1
    isDeviceError (step (withFaults [6] mgr1) del).2.result = true ∧
    explainVolInv (clearFaults s) (ghOf s [[4], [5]]) = ["owns.used"] ∧
    checkFaultInv s (ghOf s [[4], [5]]) [[2]] 512 = true := by decide +kernel

/-- **A failed `close_file` drops a pending file.**  `E.DAT` is open with 5 bytes in the freshly allocated cluster 6,
not yet flushed (`mgr0`).  `close_file` whose directory-block write (device call 1) fails answers `DeviceError` AND
removes the handle: the entry on the medium still says "no cluster, size 0", cluster 6 is allocated and nothing refers to
it any more.  `FaultInv` holds with `X = [[6]]`. -/
theorem lost_chain_after_failed_close :
    let s := (step (withFaults [1] mgr0) (.closeFile 4)).1
    isDeviceError (step (withFaults [1] mgr0) (.closeFile 4)).2.result = true ∧ s.files = [] ∧
    explainVolInv (clearFaults s) (ghOf s [[2, 3], [4], [5]]) = ["owns.used"] ∧
    explainVolInv (clearFaults s) (ghOf s [[2, 3], [4], [5], [6]]) = ["tree.allRefs"] ∧
    checkFaultInv s (ghOf s [[2, 3], [4], [5]]) [[6]] 512 = true := by decide +kernel

/-- **Excluded point of `FailsOnlyIn classA`**: the failure above falls in a `delete` (class B); afterwards the strong
invariant fails for the record before the call and for the record without the deleted file's chain. -/
theorem classB_failure_breaks_volInvF :
    classA del = false ∧
    checkVolInv (clearFaults (step (withFaults [3] mgr1) del).1) (ghOf (step (withFaults [3] mgr1) del).1 [[2, 3], [4], [5]]) = false ∧
    checkVolInv (clearFaults (step (withFaults [3] mgr1) del).1) (ghOf (step (withFaults [3] mgr1) del).1 [[4], [5]]) = false := by
  decide +kernel

/-! #### Residues (3), (4): a size beyond the chain -/

def trunc : Op := .openFile 2 nameA .ReadWriteTruncate

/-- **A failed truncating open leaves a size beyond the chain.**  `open_file_in_dir(root, "A.TXT", ReadWriteTruncate)`:
8 device calls, the writes are FAT copy 1, copy 2 (cluster 2 terminated), copy 1, copy 2 (cluster 3 freed) and LAST the
directory block.  That last write (device call 7) fails: `DeviceError`, no handle; the entry still says 700 bytes, the
chain of cluster 2 has one cluster (512 bytes).  `VolInv` fails in `tree.sizes` only; `FaultInv` holds with `X = []`. -/
theorem size_exceeds_chain_after_failed_truncate :
    let s := (step (withFaults [7] mgr1) trunc).1
    isDeviceError (step (withFaults [7] mgr1) trunc).2.result = true ∧ s.files = [] ∧
    (step (withFaults [7] mgr1) trunc).2.writes.map (·.1) = [1, 2, 1, 2] ∧
    explainVolInv (clearFaults s) (ghOf s [[2], [4], [5]]) = ["tree.sizes"] ∧
    checkFaultInv s (ghOf s [[2], [4], [5]]) [] 4294967296 = true := by decide +kernel

/-- … and an open file inherits it: opening the file again (read-only, no fault) succeeds; the record says 700 bytes over
a one-cluster chain: `FileOK.size_fits` fails, `FaultInv` holds. -/
theorem size_fits_fails_when_reopened :
    let s := (step (step (withFaults [7] mgr1) trunc).1 (.openFile 2 nameA .ReadOnly)).1
    isOk (step (step (withFaults [7] mgr1) trunc).1 (.openFile 2 nameA .ReadOnly)).2.result = true ∧
    s.files.map (fun f => (f.rawFile, f.entry.size, f.entry.cluster)) = [(11, 700, 2)] ∧
    explainVolInv (clearFaults s) (ghOf s [[2], [4], [5]]) = ["tree.sizes", "fileOK"] ∧
    checkFaultInv s (ghOf s [[2], [4], [5]]) [] 4294967296 = true := by decide +kernel

/-- **What a client sees of it** (observation for the crate, see the header): reading the 700 bytes the entry promises
answers `Err(EndOfFile)`; a shorter read still works. -/
theorem read_after_truncate_residue :
    let s := (step (step (withFaults [7] mgr1) trunc).1 (.openFile 2 nameA .ReadOnly)).1
    (match (step s (.read 11 700)).2.result with | .err .EndOfFile => true | _ => false) = true ∧
    (match (step s (.read 11 100)).2.result with | .ok (.bytes b) => b.length == 100 | _ => false) = true := by
  decide +kernel

/-! #### Excluded point of `handles_usable_after_faults`: the schedule must be exhausted -/

/-- With a fault still scheduled, `close_file` of the dirty file answers `DeviceError` (`lost_chain_after_failed_close`);
with the schedule exhausted it answers `Ok`. -/
theorem close_needs_exhausted :
    isDeviceError (step (withFaults [1] mgr0) (.closeFile 4)).2.result = true ∧
    isOk (step (withFaults [] mgr0) (.closeFile 4)).2.result = true := by decide +kernel

end Example

end Sdmmc.Props.C11Hist
