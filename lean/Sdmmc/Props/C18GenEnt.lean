/-
C18 (and C06), tie to the source text: the machine translations of `OnDiskDirEntry::get_entry`
(fat/ondiskdirentry.rs), `DirEntry::serialize` and `DirEntry::new` (filesystem/directory.rs) in
`Sdmmc.Gen.FunsEnt` are equal to the model's `OnDisk.getEntry`, `DirEntry.serialize`, `DirEntry.new`
(`Model/DirEntry.lean`), read through the evident correspondence of the generated record types.
-/
import Sdmmc.Gen.FunsEnt
import Sdmmc.Model.DirEntry
import Sdmmc.Lemmas.GenBits
import Sdmmc.Props.C18Gen
import Sdmmc.Props.C06Gen

namespace Sdmmc.Props.C18GenEnt

open Sdmmc Sdmmc.Model Sdmmc.Lemmas.GenBits
open Sdmmc.Props.C18Gen (toModel from_fat_eq serialize_to_fat_eq)
open Sdmmc.Props.C06Gen (rdByte_eq byteAt_lt raw_attr_eq)

/-- The generated `FatType` read as the model's. -/
def ftModel : Gen.Funs.FatType → Model.FatType
  | .Fat16 => .fat16
  | .Fat32 => .fat32

/-- The generated `DirEntry` read as the model's. -/
def entModel (e : Gen.FunsEnt.DirEntry) : Model.DirEntry :=
  { name := e.name.contents, mtime := toModel e.mtime, ctime := toModel e.ctime, attributes := e.attributes,
    cluster := e.cluster, size := e.size, entryBlock := e.entry_block, entryOffset := e.entry_offset }

theorem u16_field (d : Bytes) (off : Nat) : Gen.Funs.rdByte d off + 256 * Gen.Funs.rdByte d (off + 1) = readU16 d off := rfl

theorem readU16_lt (d : Bytes) (off : Nat) : readU16 d off < 65536 := by
  unfold readU16
  have := byteAt_lt d off
  have := byteAt_lt d (off + 1)
  omega

/-- `first_cluster_fat32`: `(hi << 16) | lo` of two `u16` is `hi * 65536 + lo`. -/
theorem first_cluster_fat32_eq (d : Bytes) :
    Gen.FunsEnt.OnDiskDirEntry_first_cluster_fat32 d = OnDisk.firstClusterHi d * 65536 + OnDisk.firstClusterLo d := by
  unfold Gen.FunsEnt.OnDiskDirEntry_first_cluster_fat32 Gen.FunsEnt.OnDiskDirEntry_first_cluster_hi
    Gen.FunsEnt.OnDiskDirEntry_first_cluster_lo
  have hhi : OnDisk.firstClusterHi d = readU16 d 20 := rfl
  have hlo : OnDisk.firstClusterLo d = readU16 d 26 := rfl
  rw [hhi, hlo]
  simp only [u16_field, shl]
  have h1 := readU16_lt d 20
  have h2 := readU16_lt d 26
  rw [Nat.mod_eq_of_lt (by omega)]
  have e : (2 : Nat) ^ 16 = 65536 := rfl
  rw [or_eq_add _ _ 16 (by rw [e]; exact h2), e]

theorem attr_is_directory_eq (a : Nat) : Gen.FunsEnt.Attributes_is_directory a = Attr.isDirectory a := by
  unfold Gen.FunsEnt.Attributes_is_directory Attr.isDirectory
  have h := and_bit_eq a 4
  have e : (2 : Nat) ^ 4 = 16 := rfl
  rw [e] at h
  exact decide_eq_decide.mpr h

/-- `get_entry(fat_type, entry_block, entry_offset)`. -/
theorem get_entry_eq (d : Bytes) (ft : Gen.Funs.FatType) (entryBlock entryOffset : Nat) :
    entModel (Gen.FunsEnt.OnDiskDirEntry_get_entry d ft entryBlock entryOffset) =
      OnDisk.getEntry (ftModel ft) d entryBlock entryOffset := by
  unfold Gen.FunsEnt.OnDiskDirEntry_get_entry OnDisk.getEntry entModel
  simp only [from_fat_eq, Gen.FunsEnt.Attributes_create_from_fat, raw_attr_eq, attr_is_directory_eq]
  have hcl : (if ft = Gen.Funs.FatType.Fat32 then Gen.FunsEnt.OnDiskDirEntry_first_cluster_fat32 d
      else Gen.FunsEnt.OnDiskDirEntry_first_cluster_fat16 d) =
      (match ftModel ft with
        | .fat32 => OnDisk.firstClusterHi d * 65536 + OnDisk.firstClusterLo d
        | .fat16 => OnDisk.firstClusterLo d) := by
    cases ft
    · rfl
    · simp only [if_true, ftModel, first_cluster_fat32_eq]
  rw [hcl]
  rfl

/-- The model's `Timestamp` as the generated record. -/
def ofModel (t : Model.Timestamp) : Gen.Funs.Timestamp :=
  { year_since_1970 := t.year_since_1970, zero_indexed_month := t.zero_indexed_month,
    zero_indexed_day := t.zero_indexed_day, hours := t.hours, minutes := t.minutes, seconds := t.seconds }

/-- The fields of a timestamp are `u8` values where `serialize_to_fat` shifts them. -/
def TsU8 (t : Model.Timestamp) : Prop :=
  t.year_since_1970 < 256 ∧ t.zero_indexed_month < 256 ∧ t.hours < 256 ∧ t.minutes < 256

theorem list11 (l : Bytes) (h : l.length = 11) :
    ∃ a0 a1 a2 a3 a4 a5 a6 a7 a8 a9 a10, l = [a0, a1, a2, a3, a4, a5, a6, a7, a8, a9, a10] := by
  match l, h with
  | [a0, a1, a2, a3, a4, a5, a6, a7, a8, a9, a10], _ => exact ⟨a0, a1, a2, a3, a4, a5, a6, a7, a8, a9, a10, rfl⟩

/-- `DirEntry::serialize(fat_type)`, for an entry with an eleven-byte name and `u8` timestamp fields (what
the Rust types give). -/
theorem serialize_eq (e : Model.DirEntry) (ft : Gen.Funs.FatType) (hn : e.name.length = 11)
    (hm : TsU8 e.mtime) (hc : TsU8 e.ctime) :
    Gen.FunsEnt.DirEntry_serialize { contents := e.name } (ofModel e.mtime) (ofModel e.ctime) e.attributes e.cluster
        e.size ft = DirEntry.serialize (ftModel ft) e := by
  obtain ⟨a0, a1, a2, a3, a4, a5, a6, a7, a8, a9, a10, hname⟩ := list11 e.name hn
  unfold Gen.FunsEnt.DirEntry_serialize DirEntry.serialize
  have hmt := serialize_to_fat_eq e.mtime hm.1 hm.2.1 hm.2.2.1 hm.2.2.2
  have hct := serialize_to_fat_eq e.ctime hc.1 hc.2.1 hc.2.2.1 hc.2.2.2
  have hmt' : Gen.Funs.Timestamp_serialize_to_fat (ofModel e.mtime).year_since_1970 (ofModel e.mtime).zero_indexed_month
      (ofModel e.mtime).zero_indexed_day (ofModel e.mtime).hours (ofModel e.mtime).minutes (ofModel e.mtime).seconds =
      Model.Timestamp.serializeToFat e.mtime := hmt
  have hct' : Gen.Funs.Timestamp_serialize_to_fat (ofModel e.ctime).year_since_1970 (ofModel e.ctime).zero_indexed_month
      (ofModel e.ctime).zero_indexed_day (ofModel e.ctime).hours (ofModel e.ctime).minutes (ofModel e.ctime).seconds =
      Model.Timestamp.serializeToFat e.ctime := hct
  simp only [hmt', hct', hname, shr, and_low _ 16, show (65535 : Nat) = 2 ^ 16 - 1 from rfl]
  have e1 : e.cluster / 2 ^ 16 % 2 ^ 16 % 65536 = e.cluster / 65536 % 65536 := by
    have : (2 : Nat) ^ 16 = 65536 := rfl
    rw [this]; omega
  have e2 : e.cluster % 2 ^ 16 % 65536 = e.cluster % 65536 := by
    have : (2 : Nat) ^ 16 = 65536 := rfl
    rw [this]; omega
  rw [e1, e2]
  unfold Model.Timestamp.serializeToFat leU16 leU32 zeros
  cases ft <;> rfl

/-- `DirEntry::new`. -/
theorem new_eq (name : Bytes) (attributes cluster : Nat) (ctime : Model.Timestamp) (entryBlock entryOffset : Nat) :
    entModel (Gen.FunsEnt.DirEntry_new { contents := name } attributes cluster (ofModel ctime) entryBlock entryOffset) =
      DirEntry.new name attributes cluster ctime entryBlock entryOffset := rfl

end Sdmmc.Props.C18GenEnt
