/-
C11 over HISTORIES UNDER FAULTS, ARBITRARY PLACEMENT — continuation of `Props/C11HistE.lean`: A DEVICE FAILURE INSIDE A
TRUNCATING `open_file_in_dir` (`ReadWriteTruncate`, `ReadWriteCreateOrTruncate`), the one placement excluded so far.

The model's truncating open, on a file that exists and is not open: draw the handle id; `truncate_cluster_chain(first
cluster)` (FAT copies 1, 2: the first cluster terminated; then the rest of the chain released cluster by cluster); rewrite
the file's directory entry with size 0 (one block, the LAST device call); enter the record in the table.

WHAT A FAILURE INSIDE IT LEAVES (`open_truncate_under_any_fault`, proved for every schedule):
  * `DeviceError`, NO handle: the table of open files is as it was (the handle id is used up);
  * the entry of the file on the medium keeps its OLD size over the chain as far as it was cut: a failure while the chain
    is being cut leaves the first cluster terminated and the not-yet-released rest of the chain LOST (residue (2) of
    `FaultInv`); a failure of the entry's rewrite leaves the old size over a one-cluster chain (residue (3): `sizes`).
    `VolInvL` really fails (`Example.failed_truncate_residues`: clause `tree.sizes`, nothing else);
  * the WEAK invariant `FaultInv` holds — for a ghost of the same geometry, some lost chains —, and no entry of an open
    file is ahead of its record (`FaultInvE`, `Spec/VolumeFaultE.lean`).
Proof: every crash point of the truncation of a closed file satisfies `MedFault` with the chain cut at its head, the
not-yet-released clusters as a lost chain and the size slack `(length of the old chain) × (bytes per cluster)`
(`Lemmas/FaultXTrunc.medW_trunc_stage`, from the C03 chain-surgery lemmas and proofT's `medW_assemble`); a faulted run is a
truncated fault-free run (`Pre`), stage by stage (`Lemmas/FaultXTrunc3.truncRun_faulted`); the entries of the open files
are not touched — FAT blocks, then the slot of a file that is NOT open (`truncate_raw`, `truncEntry_raw`).

SO ONE CALL NEEDS NO RESTRICTION ANY MORE (`call_under_any_fault`): from `VolInvLE`, every covered call under every
schedule, whatever device call fails, leaves `VolInvLE` again — or, only for a failure inside the truncation, `FaultInvE`
with the table unchanged; in both cases `FaultInvE` (`call_leaves_faultInvE`), and the call answers `Ok` or an error.

HISTORIES (`history_under_faults_T_partial`): NO hypothesis on where device calls fail.  After every prefix `VolInvLE`
holds and every call answered `Ok` or an error — or an EARLIER call was a truncating open inside which a device call
failed, before which `VolInvLE` held and after which `FaultInvE` holds.  I.e. the invariant is proved along every history
up to and including the FIRST failure inside a truncation.

WHAT REMAINS (why `_partial`; TARGET `history_under_faults`: `FaultInvE` after EVERY prefix): calls made FROM a state in
which only `FaultInvE` holds.  The whole C03 stack (and `Lemmas/VolX*`, `Lemmas/FaultX*` on top of it) is stated from `Med` /
`MedX`, whose clause `sizes` is at the bytes per cluster; proofT restated the `delete_file_in_dir` path from the weak
`MedW` (fault-free; `Lemmas/CrashContDelete*`).  What the damaged state IS: the state of the fault-free truncating open
in which the new handle is missing from the table and its (size 0) entry is not flushed — every clause of `VolInvL` holds
except `sizes` AT THAT ONE CLOSED FILE.  Evaluated on the example (`Example.damaged_*`): opening it with truncation again
or deleting it REPAIRS (`VolInvL` again); appending to it repairs too (the file is `old size + n` long; the bytes between
the cut chain and the old size are whatever the re-allocated cluster held); opened read-only, reads inside the first
cluster succeed, reads that cross it answer `EndOfFile` (never a panic); calls on other files behave as always and keep
`FaultInvE`.  The only call that makes things worse: a NON-truncating open of the damaged file hands out a record that
violates `FileOK.size_fits` (residue (4), `Props.C11Hist.Example.size_fits_fails_when_reopened`).
NO RESIDUE BREAKING A CLAUSE OF C11 ITSELF WAS FOUND.
-/
import Sdmmc.Spec.VolumeFaultE
import Sdmmc.Lemmas.FaultXTruncRun
import Sdmmc.Props.C11HistE

namespace Sdmmc.Props.C11HistT
open Sdmmc.Model Sdmmc.Model.Fat Sdmmc.Spec.Volume
open Sdmmc.Spec hiding run step NoFault Coherent
open Sdmmc.Props.C11Inv (withFaults Covered NameOK)
open Sdmmc.Props.C11Hist (CoveredRun)
open Sdmmc.Props.C11HistE (classC classC_iff invFE_iff)

theorem weak_iff {s : Mgr} {gh : Ghost} :
    Lemmas.FaultX.Weak gh s ↔ ∃ gh' X', FaultInvE s gh' X' ∧ SameGeom gh.vol gh'.vol :=
  ⟨fun ⟨⟨gh', X', h1, h2⟩, h3⟩ => ⟨gh', X', ⟨h1, h3⟩, h2⟩, fun ⟨gh', X', h1, h2⟩ => ⟨⟨gh', X', h1.inv, h2⟩, h1.entries⟩⟩

/-- The invariant implies the weak one. -/
theorem faultInvE_of_volInvLE {s : Mgr} {gh : Ghost} {X : List (List Nat)} (h : VolInvLE s gh X) : FaultInvE s gh X :=
  ⟨C11HistB.faultInv_of_volInvL h.inv, h.entries⟩

/-! ### One call, no restriction -/

/-- **`call_under_any_fault`.**  From `VolInvLE`, ONE covered call under whatever is scheduled, WHATEVER device call
fails: `VolInvLE` holds again (a ghost of the same geometry, some lost chains) — or the call was a truncating
`open_file_in_dir` inside which a device call failed: the table of open files is as it was and the weak `FaultInvE`
holds.  The call answers `Ok` or an error. -/
theorem call_under_any_fault {s : Mgr} {gh : Ghost} {X : List (List Nat)} (hI : VolInvLE s gh X) (op : Op) (hc : Covered s op) :
    ((∃ gh' X', VolInvLE (step s op).1 gh' X' ∧ SameGeom gh.vol gh'.vol) ∨
     (classC op = false ∧ (step s op).1.dev.failed ≠ s.dev.failed ∧ (step s op).1.files = s.files ∧
       ∃ gh' X', FaultInvE (step s op).1 gh' X' ∧ SameGeom gh.vol gh'.vol)) ∧
    Clean (step s op).2.result := by
  obtain ⟨h1, h2⟩ := Lemmas.FaultX.step_out (invFE_iff.2 ⟨gh, X, hI, SameGeom.refl _⟩) op ((C11Inv.covered_iff s op).1 hc)
  refine ⟨?_, h2⟩
  rcases h1 with h1 | ⟨a, b, c, d⟩
  · exact .inl (invFE_iff.1 h1)
  · exact .inr ⟨by rw [classC_iff]; exact a, b, c, weak_iff.1 d⟩

/-- **Every covered call under every schedule leaves `FaultInvE`.** -/
theorem call_leaves_faultInvE {s : Mgr} {gh : Ghost} {X : List (List Nat)} (hI : VolInvLE s gh X) (op : Op) (hc : Covered s op) :
    (∃ gh' X', FaultInvE (step s op).1 gh' X' ∧ SameGeom gh.vol gh'.vol) ∧ Clean (step s op).2.result := by
  obtain ⟨h1, h2⟩ := call_under_any_fault hI op hc
  refine ⟨?_, h2⟩
  rcases h1 with ⟨gh', X', h3, h4⟩ | ⟨_, _, _, h3⟩
  · exact ⟨gh', X', faultInvE_of_volInvLE h3, h4⟩
  · exact h3

/-- **`open_truncate_under_any_fault`.**  `open_file_in_dir` in ANY mode — the truncating ones included — under whatever
is scheduled, whatever device call of it fails, leaves `FaultInvE`; if a device call failed inside the truncation, the
table of open files is as it was; in every other case `VolInvLE` holds again. -/
theorem open_truncate_under_any_fault {s : Mgr} {gh : Ghost} {X : List (List Nat)} (hI : VolInvLE s gh X) (dir : Nat)
    (name : List Nat) (mode : Mode) (hname : NameOK name) :
    (∃ gh' X', FaultInvE (step s (.openFile dir name mode)).1 gh' X' ∧ SameGeom gh.vol gh'.vol) ∧
    ((∃ gh' X', VolInvLE (step s (.openFile dir name mode)).1 gh' X' ∧ SameGeom gh.vol gh'.vol) ∨
      ((step s (.openFile dir name mode)).1.dev.failed ≠ s.dev.failed ∧ (step s (.openFile dir name mode)).1.files = s.files)) ∧
    Clean (step s (.openFile dir name mode)).2.result := by
  obtain ⟨h1, h2⟩ := call_under_any_fault hI (.openFile dir name mode) hname
  refine ⟨(call_leaves_faultInvE hI (.openFile dir name mode) hname).1, ?_, h2⟩
  rcases h1 with h1 | ⟨_, b, c, _⟩
  · exact .inl h1
  · exact .inr ⟨b, c⟩

/-- Names stay pairwise distinct in every directory after every covered call under every schedule. -/
theorem names_unique_after_any_call {s : Mgr} {gh : Ghost} {X : List (List Nat)} (hI : VolInvLE s gh X) (op : Op) (hc : Covered s op) :
    ∃ gh' : Ghost, SameGeom gh.vol gh'.vol ∧ ∀ h, h ∈ dirIds gh'.dirs →
      ((entries (dirSlots gh'.vol (step s op).1.dev.disk gh'.G h)).map sName).Nodup := by
  obtain ⟨⟨gh', X', h1, h2⟩, _⟩ := call_leaves_faultInvE hI op hc
  obtain ⟨cb, ht⟩ := h1.inv.med.tree
  exact ⟨gh', h2, ht.names⟩

/-! ### Histories, no restriction -/

/-- **`history_under_faults_T_partial`** (TARGET `history_under_faults`: `FaultInvE` after EVERY prefix).  A covered
history run under ANY schedule — NO hypothesis on where device calls fail.  After every prefix: `VolInvLE` holds (hence
`FaultInvE`) and every call so far answered `Ok` or an error — or some EARLIER call `ops[j]` was a truncating
`open_file_in_dir` inside which a device call failed: `VolInvLE` held before it, it answered an error, left the table of
open files as it was, and left `FaultInvE`. -/
theorem history_under_faults_T_partial (ops : List Op) {s : Mgr} {gh : Ghost} {X : List (List Nat)} (hI : VolInvLE s gh X)
    (hc : CoveredRun s ops) (k : Nat) :
    ((∃ gh' X', VolInvLE (run s (ops.take k)).1 gh' X' ∧ FaultInvE (run s (ops.take k)).1 gh' X' ∧ SameGeom gh.vol gh'.vol) ∧
      ∀ o, o ∈ (run s (ops.take k)).2 → Clean o.result) ∨
    ∃ j op, j < k ∧ ops[j]? = some op ∧ classC op = false ∧
      (∃ gh' X', VolInvLE (run s (ops.take j)).1 gh' X' ∧ SameGeom gh.vol gh'.vol) ∧
      (∀ o, o ∈ (run s (ops.take j)).2 → Clean o.result) ∧
      (step (run s (ops.take j)).1 op).1.dev.failed ≠ (run s (ops.take j)).1.dev.failed ∧
      Clean (step (run s (ops.take j)).1 op).2.result ∧
      (step (run s (ops.take j)).1 op).1.files = (run s (ops.take j)).1.files ∧
      ∃ gh' X', FaultInvE (step (run s (ops.take j)).1 op).1 gh' X' ∧ SameGeom gh.vol gh'.vol := by
  rcases Lemmas.FaultX.history_any ops (invFE_iff.2 ⟨gh, X, hI, SameGeom.refl _⟩) ((C11Hist.coveredRun_iff ops s).1 hc) k with
    ⟨h1, h2⟩ | ⟨j, op, hj, hget, hcc, hIj, hclj, hhit, hclean, hfiles, hweak⟩
  · obtain ⟨gh', X', h3, h4⟩ := invFE_iff.1 h1
    exact .inl ⟨⟨gh', X', h3, faultInvE_of_volInvLE h3, h4⟩, h2⟩
  · exact .inr ⟨j, op, hj, hget, by rw [classC_iff]; exact hcc, invFE_iff.1 hIj, hclj, hhit, hclean, hfiles, weak_iff.1 hweak⟩

/-- The same from a state with the invariant whose open files are unmodified, and an ARBITRARY schedule. -/
theorem history_under_faults_T_from_invariant (ops : List Op) {s0 : Mgr} {gh : Ghost} (hI : VolInv s0 gh)
    (hcl : ∀ f, f ∈ s0.files → f.dirty = false) (L : List Nat) (hc : CoveredRun (withFaults L s0) ops) (k : Nat) :
    ((∃ gh' X', VolInvLE (run (withFaults L s0) (ops.take k)).1 gh' X' ∧
        FaultInvE (run (withFaults L s0) (ops.take k)).1 gh' X' ∧ SameGeom gh.vol gh'.vol) ∧
      ∀ o, o ∈ (run (withFaults L s0) (ops.take k)).2 → Clean o.result) ∨
    ∃ j op, j < k ∧ ops[j]? = some op ∧ classC op = false ∧
      (∃ gh' X', VolInvLE (run (withFaults L s0) (ops.take j)).1 gh' X' ∧ SameGeom gh.vol gh'.vol) ∧
      (∀ o, o ∈ (run (withFaults L s0) (ops.take j)).2 → Clean o.result) ∧
      (step (run (withFaults L s0) (ops.take j)).1 op).1.dev.failed ≠ (run (withFaults L s0) (ops.take j)).1.dev.failed ∧
      Clean (step (run (withFaults L s0) (ops.take j)).1 op).2.result ∧
      (step (run (withFaults L s0) (ops.take j)).1 op).1.files = (run (withFaults L s0) (ops.take j)).1.files ∧
      ∃ gh' X', FaultInvE (step (run (withFaults L s0) (ops.take j)).1 op).1 gh' X' ∧ SameGeom gh.vol gh'.vol :=
  history_under_faults_T_partial ops (C11HistE.volInvLE_of_unmodified (C11HistB.volInvL_withFaults hI L) hcl) hc k

/-! ### Non-vacuity, residues, behaviour of the damaged file (evaluated) -/

namespace Example
open Sdmmc.Lemmas.VolExample Sdmmc.Lemmas.VolCheck
open Sdmmc.Lemmas.FaultHist (checkFaultInv checkFaultInv_sound)
open Sdmmc.Props.C11Hist.Example (trunc ghOf nameA isDeviceError)

/-- The example volume with `E.DAT` open and modified (`mgr0`); `open_file_in_dir(root, "A.TXT", ReadWriteTruncate)`
(`A.TXT`: 700 bytes in clusters 2, 3) with device call `k` failing. -/
def dmg (k : Nat) : Mgr := (step (withFaults [k] mgr0) trunc).1

/-- **All eight placements of a failure inside the truncating open** (device calls 0–2: lookup and first FAT read; 3, 4:
cluster 2 terminated in FAT copy 1 only / in both, cluster 3 not yet released; 5, 6, 7: cluster 3 released in copy 1 only /
in both, the entry's block not rewritten).  Always `DeviceError`, the table as it was (`E.DAT` only), no entry ahead.
Calls 0–2: the strong invariant (lost chains none).  Calls 3, 4: `FaultInv` with the chain cut to `[2]` and `[3]` LOST.
Calls 5–7: `FaultInv` with the chain `[2]`, nothing lost.  From call 3 on the strong invariant fails — in `tree.sizes`
(700 bytes over one cluster) and, while `[3]` is lost, `owns.used` — and in nothing else.  (What
`open_truncate_under_any_fault` proves in general, evaluated.) -/
theorem failed_truncate_residues :
    (List.range 8).map (fun k =>
      (isDeviceError (step (withFaults [k] mgr0) trunc).2.result, (dmg k).files.map (·.rawFile), decide (EntriesNotAhead (dmg k)))) =
      List.replicate 8 (true, [4], true) ∧
    (List.range 8).map (fun k =>
      (checkFaultInv (dmg k) (ghOf (dmg k) [[2, 3], [4], [5], [6]]) [] 512,
       checkFaultInv (dmg k) (ghOf (dmg k) [[2], [4], [5], [6]]) [[3]] 4294967296,
       checkFaultInv (dmg k) (ghOf (dmg k) [[2], [4], [5], [6]]) [] 4294967296)) =
      [(true, false, false), (true, false, false), (true, false, false), (false, true, false), (false, true, false),
       (false, false, true), (false, false, true), (false, false, true)] ∧
    (List.range 8).map (fun k => explainVolInv (clearFaults (dmg k)) (ghOf (dmg k) [[2], [4], [5], [6]])) =
      [["owns.chains", "owns.used", "tree.sizes"], ["owns.chains", "owns.used", "tree.sizes"],
       ["owns.chains", "owns.used", "tree.sizes"], ["owns.used", "tree.sizes"], ["owns.used", "tree.sizes"],
       ["tree.sizes"], ["tree.sizes"], ["tree.sizes"]] := by
  refine ⟨?_, ?_, ?_⟩ <;> decide +kernel

/-- The hypotheses of the theorems hold of the example: `VolInvLE` of `mgr0` under any schedule. -/
theorem mgr0_volInvLE (L : List Nat) : VolInvLE (withFaults L mgr0) gh0 [] :=
  C11HistE.volInvLE_withFaults mgr0_inv C11HistE.Example.mgr0_entries L

/-- … so `FaultInvE` holds after the truncating open whichever device call fails (the theorem, instantiated). -/
theorem dmg_faultInvE (k : Nat) : ∃ gh' X', FaultInvE (dmg k) gh' X' ∧ SameGeom vol16 gh'.vol :=
  (open_truncate_under_any_fault (mgr0_volInvLE [k]) 2 nameA .ReadWriteTruncate C11HistB.Example.ok_A).1

/-- 0 = `Ok`, 1 = `EndOfFile`, 2 = `DeviceError`, 3 = another error, 4 = panic / hang. -/
def outcome : Res Payload → Nat
  | .ok _ => 0
  | .err .EndOfFile => 1
  | .err .DeviceError => 2
  | .err _ => 3
  | _ => 4

/-- The outcomes of `ops` from `s`; the strong invariant up to lost chains `X` (sizes at 512 bytes per cluster); the weak
one; no entry ahead. -/
def after (s : Mgr) (ops : List Op) (G X : List (List Nat)) : List Nat × Bool × Bool × Bool :=
  ((run s ops).2.map (fun o => outcome o.result), checkFaultInv (run s ops).1 (ghOf (run s ops).1 G) X 512,
   checkFaultInv (run s ops).1 (ghOf (run s ops).1 G) X 4294967296, decide (EntriesNotAhead (run s ops).1))

/-- **Truncating the damaged file again repairs it** (entry not rewritten: `dmg 7`; chain half cut, `[3]` lost: `dmg 4`):
`Ok`, and the strong invariant holds again (with the lost chain still lost). -/
theorem damaged_truncate_again_repairs :
    after (dmg 7) [trunc] [[2], [4], [5], [6]] [] = ([0], true, true, true) ∧
    after (dmg 4) [trunc] [[2], [4], [5], [6]] [[3]] = ([0], true, true, true) := by decide +kernel

/-- **Deleting the damaged file repairs too.** -/
theorem damaged_delete_repairs :
    after (dmg 7) [.delete 2 nameA] [[4], [5], [6]] [] = ([0], true, true, true) ∧
    after (dmg 4) [.delete 2 nameA] [[4], [5], [6]] [[3]] = ([0], true, true, true) := by decide +kernel

/-- **Appending to the damaged file repairs too**: opened for append (offset 700, beyond the one-cluster chain), a write
of 3 bytes allocates a cluster (the released cluster 3 again) and links it; after `close_file` the entry says 703 bytes
over `[2, 3]`: the strong invariant holds. -/
theorem damaged_append_repairs :
    after (dmg 7) [.openFile 2 nameA .ReadWriteAppend, .write 11 [1, 2, 3], .closeFile 11] [[2, 3], [4], [5], [6]] [] =
      ([0, 0, 0], true, true, true) := by decide +kernel

/-- **Reading the damaged file**: opened read-only, a read inside the first cluster succeeds, a read crossing its end
answers `EndOfFile` — no panic, no hang; the weak invariant is kept (the strong one fails: `sizes`, and `size_fits` of the
handle). -/
theorem damaged_read :
    after (dmg 7) [.openFile 2 nameA .ReadOnly, .read 11 100, .seekStart 11 500, .read 11 50, .closeFile 11]
      [[2], [4], [5], [6]] [] = ([0, 0, 0, 1, 0], false, true, true) := by decide +kernel

/-- **Calls that do not touch the damaged file** behave as always and keep the weak invariant: `E.DAT` is written and
closed, a new file is created. -/
theorem other_files_after_damage :
    after (dmg 7) [.write 4 [9, 9, 9], .closeFile 4, .openFile 2 [70] .ReadWriteCreate] [[2], [4], [5], [6]] [] =
      ([0, 0, 0], false, true, true) := by decide +kernel

/-- **The one call that makes things worse**: a NON-truncating open of the damaged file succeeds and hands out a record of
700 bytes over a one-cluster chain (`FileOK.size_fits` fails; the weak invariant holds). -/
theorem damaged_reopen_breaks_size_fits :
    after (dmg 7) [.openFile 2 nameA .ReadOnly] [[2], [4], [5], [6]] [] = ([0], false, true, true) ∧
    explainVolInv (clearFaults (run (dmg 7) [.openFile 2 nameA .ReadOnly]).1)
      (ghOf (run (dmg 7) [.openFile 2 nameA .ReadOnly]).1 [[2], [4], [5], [6]]) = ["tree.sizes", "fileOK"] := by decide +kernel

/-- A history with a failure inside the truncation at position 1: the disjunction of `history_under_faults_T_partial` is
decided by the second disjunct from prefix 2 on (`classC trunc = false`, the call failed). -/
theorem trunc_not_classC : classC trunc = false ∧
    (step (withFaults [7] mgr0) trunc).1.dev.failed ≠ (withFaults [7] mgr0).dev.failed := by decide +kernel

end Example

end Sdmmc.Props.C11HistT
