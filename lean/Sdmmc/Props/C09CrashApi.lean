/-
C09 / C10 (crash-prefix form, API level) — the calls `write`, `flush_file` / `close_file` of the volume
manager, cut after ANY block write.

Property theorems only.  Vocabulary: `Sdmmc.Spec.CrashApi` (`newWritesM`: the device writes between two
manager states), `Sdmmc.Spec.Crash` (`crashDisk`, `OwnsLoose`), `Sdmmc.Spec.DataPlane` (`withChain`,
`IsFatBlock`, `IsClusterBlock`), `Sdmmc.Spec.Chain` (`Chain`, `chainBytes`, `fileContent`, `FileOK`).
Proofs: `Sdmmc.Lemmas.CrashMgr` (crash points at the manager level, `locate` / block write of one iteration),
`CrashWriteLoop`, `CrashWriteCall`, `CrashWriteSpec` (on top of the refinement proof `Lemmas.WriteRefines*`
of `Props/C01Write.lean`), `CrashFlush` (on top of `Lemmas.ReopenFlush` of `Props/C02Reopen.lean`).
Model: `Model.write` (+ `writeLoop`, `findDataOnDisk`, `writeBlockPart`, `Fat.allocCluster`), `Model.flushFile`,
`Model.closeFile` through `withVol`.

WHAT IS PROVED.

* `write_crash` — under exactly the hypotheses of `C01Write.write_refines_unbounded` (no bound on the amount
  written, the chain length or fragmentation; volume may run full), for EVERY prefix `dk` of the device
  writes of the whole call `write h data` (`k` = number of bytes the call stores, `cs'` = the file's chain
  afterwards):
  (a) every other chain `X ∈ A ++ B` of the volume is still `Chain … X` and `chainBytes … X` is what it was —
      other files' data survives at every crash point;
  (b) for some chain `csk` with `cs <+: csk <+: cs'` the record `withChain A csk B` is structurally sound
      (`OwnsLoose`) — at worst lost clusters (the cluster being appended);
  (c) every block that is neither a FAT block of the volume nor a block of a cluster of `cs'` is unchanged;
  (d) for some `m ≤ k` (block writes are atomic and in order: `m` is the part of the data whose block
      writes have reached the medium) the file's bytes read along the chain `csk` of the crashed medium
      are the old bytes with `data.take m` written at the old offset — both as far as a size updated to
      `max size (offset + m)` would show them, and as far as the OLD size shows them (the on-disk
      directory entry still carries the old size: a remount shows the old length; its bytes outside
      `[offset, offset + m)` are the old bytes: `write_crash_old_bytes`).
* `flush_crash` / `close_crash` — `flush_file` (and `close_file`) of a dirty file: at most two device writes
  (FAT32 info sector, directory block of the slot).  At every crash point: every other block is
  unchanged; inside the directory block every byte outside the 32 bytes of the slot — every other slot — is
  unchanged; the directory block is the OLD block or the NEW block (one block write is atomic: the
  slot is the old or the new 32 bytes, never a mixture); the info sector differs at most in bytes 488…495.
  `flush_crash_chains`: hence all FAT blocks and all chains are intact, and so are the bytes of every chain
  that has no cluster block equal to the directory block.

* `write_history_crash` — histories of `write` calls on a manager satisfying the data-plane invariant
  `DataPlane.DataInv` (`C01Write.data_history_refines`): at every crash point inside any call of the
  history, every chain of `rest` — the chains no open file owns: closed (flushed) files, directories — is
  still a chain and holds the bytes it held at the START of the history.
* Directory-plane calls, in terms of a record `G` of ALL chains of the volume (`Owns`) in which the
  directory written to is the chain at index `idir` (`odir = some idir`) or the FAT16 fixed root
  (`odir = none`) — `Lemmas.CrashDirRecord.DirIn`:
  - `open_create_crash` (`open_file_in_dir(dir, name, ReadWriteCreate)`, name not present): at every crash
    point the record `G`, or `G` with the directory's chain extended by the new blank cluster, is sound;
    every other chain and its bytes are intact; every existing block outside the FAT is unchanged except
    for the 32 bytes of the new slot; afterwards the record `G'` is exact again (`Owns`).
  - `delete_file_crash` (`delete_file_in_dir`): the slot's deleted mark is the first device write; before
    it the medium is untouched; after it the record without the file's chain is sound (`eraseIdx`) and
    only FAT entries of the file's own chain differ; every other chain's entries and every other block
    outside the FAT are unchanged.
  - `make_dir_in_dir_crash` (`make_dir_in_dir`, name not present): at every crash point one of the records
    `G`, `G ++ [[c]]`, `G` with the parent grown (with or without `[[c]]`) is sound (`MkdirRecord`) — the
    record before the call, the one after it, or one in between: at worst lost clusters —, every other
    chain and its bytes are intact, and on the final medium the new directory's cluster is initialised.
  - `truncate_open_crash` (the device writes of `open_file_in_dir(…, ReadWriteTruncate)` on an existing file,
    F level: `truncate_cluster_chain`, then the slot with size 0): the record with the file's chain as it
    was or cut to its first cluster is sound, other chains untouched, the slot is written LAST.
    OBSERVATION (`Example.truncate_size_residue`): between the cut and the slot write the on-disk entry
    still carries the OLD size while the chain has one cluster — "a size not yet updated" in the direction
    size > capacity of the chain.

HYPOTHESES of the directory-plane statements: the call returns `Ok`; the lookup that precedes it answers as
stated (`NotFound` for create / mkdir, the entry for delete) — a failing call writes nothing before the
lookup and is not analysed further; `sfn.length = 11` (true of every short file name `to_short_filename`
produces; needed for the 32-byte slot arithmetic, not derived here).

NOT PROVED HERE: `open_file_in_dir(…, ReadWriteTruncate)` through the manager monad (its F-level device
writes are `truncate_open_crash`); histories mixing directory-plane calls (the record `G` and the table of
open files would have to be threaded through `close` / `open`, which re-index both).
-/
import Sdmmc.Lemmas.CrashWriteSpec
import Sdmmc.Lemmas.CrashWriteHist
import Sdmmc.Lemmas.CrashFlush
import Sdmmc.Lemmas.CrashMkdirApi
import Sdmmc.Lemmas.CrashDirSpec
import Sdmmc.Lemmas.CrashTruncOpen
import Sdmmc.Props.C01Write
import Sdmmc.Props.C10Crash

namespace Sdmmc.Props.C09CrashApi
open Sdmmc.Model Sdmmc.Model.Fat Sdmmc.Spec Sdmmc.Props.C01Read

/-! ### `write` -/

/-- Every crash point of the API call `write h data`. -/
theorem write_crash (s : Mgr) (h i vi : Nat) (data : Bytes) (f : FileInfo) (v : VolInfo) (cs : List Nat)
    (A B : List (List Nat)) (hs : MgrOK s)
    (hh : s.files.findIdx? (·.rawFile = h) = some i) (hf : s.files[i]? = some f)
    (hv : s.vols.findIdx? (·.rawVolume = f.rawVolume) = some vi) (hvi : s.vols[vi]? = some v)
    (hmode : f.mode ≠ .ReadOnly) (hg : WFGeom v.vol) (hhint : HintOK v.vol)
    (hok : FileOK v.vol s.dev.disk f cs) (hcur : cs = [] → f.curCluster < 2)
    (hown : Owns v.vol s.dev.disk (withChain A cs B)) :
    ∃ (k : Nat) (r : Res Unit) (s' : Mgr) (v' : VolInfo) (cs' : List Nat), write h data s = (r, s') ∧ k ≤ data.length ∧
      cs <+: cs' ∧ SameGeom v.vol v'.vol ∧ Owns v'.vol s'.dev.disk (withChain A cs' B) ∧
      ∀ j,
        -- (b), (d)
        (∃ m csk, m ≤ k ∧ cs <+: csk ∧ csk <+: cs' ∧
          OwnsLoose v.vol (crashDisk s.dev.disk (newWritesM s s') j) (withChain A csk B) ∧
          fileContent v.vol (crashDisk s.dev.disk (newWritesM s s') j) csk (max f.entry.size (f.currentOffset + m)) =
            splice (fileContent v.vol s.dev.disk cs f.entry.size) f.currentOffset (data.take m) ∧
          fileContent v.vol (crashDisk s.dev.disk (newWritesM s s') j) csk f.entry.size =
            (splice (fileContent v.vol s.dev.disk cs f.entry.size) f.currentOffset (data.take m)).take f.entry.size) ∧
        -- (a)
        (∀ X, X ∈ A ++ B → Chain v.vol (crashDisk s.dev.disk (newWritesM s s') j) (X.headD 0) X ∧
          chainBytes v.vol (crashDisk s.dev.disk (newWritesM s s') j) X = chainBytes v.vol s.dev.disk X) ∧
        -- (c)
        (∀ b, ¬ IsFatBlock v.vol b → ¬ IsClusterBlock v.vol cs' b →
          (crashDisk s.dev.disk (newWritesM s s') j).get b = s.dev.disk.get b) :=
  Lemmas.CrashWriteSpec.write_crash_points s h i vi data f v cs A B hs hh hf hv hvi hmode hg hhint hok hcur hown

/-- (d), byte by byte: a byte of the old contents outside the range `[offset, offset + m)` reads as before. -/
theorem write_crash_old_bytes (old : Bytes) (off : Nat) (src : Bytes) (size : Nat) (hsz : old.length = size) (hoff : off ≤ size)
    (j : Nat) (hj : j < size) (hout : j < off ∨ off + src.length ≤ j) :
    ((splice old off src).take size)[j]? = old[j]? := by
  rw [List.getElem?_take_of_lt hj, Lemmas.WriteRefines.splice_getElem? old src off j (by omega)]
  rcases hout with h1 | h1
  · rw [if_pos h1]
  · rw [if_neg (by omega), if_neg (by omega)]

/-! ### `flush_file`, `close_file` -/

/-- Every crash point of `flush_file` of a dirty file (and of `close_file`, which flushes and then drops
the record: the same device writes). -/
theorem flush_crash (s : Mgr) (h i vi : Nat) (f : FileInfo) (v : VolInfo)
    (hs : MgrOK s) (hh : s.files.findIdx? (·.rawFile = h) = some i) (hf : s.files[i]? = some f)
    (hv : s.vols.findIdx? (·.rawVolume = f.rawVolume) = some vi) (hvi : s.vols[vi]? = some v)
    (hd : f.dirty = true) (hassert : ¬ (f.entry.size ≠ 0 ∧ f.entry.cluster = 0))
    (ho : f.entry.entryOffset + 32 ≤ 512) (hname : f.entry.name.length = 11) :
    ∃ s1, flushFile h s = (.ok (), s1) ∧ closeFile h s = (.ok (), { s1 with files := swapRemove s.files i }) ∧
      slice (s1.dev.disk.get f.entry.entryBlock) f.entry.entryOffset 32 = f.entry.serialize v.vol.fatType ∧
      ∀ j,
        (∀ b, b ≠ f.entry.entryBlock → (v.vol.fatType = .fat32 → b ≠ v.vol.infoLocation) →
          (crashDisk s.dev.disk (newWritesM s s1) j).get b = s.dev.disk.get b) ∧
        (f.entry.entryBlock ≠ v.vol.infoLocation →
          (∀ k, k < f.entry.entryOffset ∨ f.entry.entryOffset + 32 ≤ k →
            ((crashDisk s.dev.disk (newWritesM s s1) j).get f.entry.entryBlock).getD k 0 =
              (s.dev.disk.get f.entry.entryBlock).getD k 0) ∧
          (∀ k, k < 488 ∨ 496 ≤ k →
            ((crashDisk s.dev.disk (newWritesM s s1) j).get v.vol.infoLocation).getD k 0 =
              (s.dev.disk.get v.vol.infoLocation).getD k 0) ∧
          ((crashDisk s.dev.disk (newWritesM s s1) j).get f.entry.entryBlock = s.dev.disk.get f.entry.entryBlock ∨
           (crashDisk s.dev.disk (newWritesM s s1) j).get f.entry.entryBlock = s1.dev.disk.get f.entry.entryBlock)) := by
  obtain ⟨s1, hfl, hcl, hslot, hcr⟩ := Lemmas.CrashFlush.flushFile_crash s h i vi f v hs hh hf hv hvi hd hassert ho hname
  refine ⟨s1, hfl, hcl, hslot, fun j => ?_⟩
  have := hcr.spec j
  exact ⟨this.others, fun hne => ⟨this.slots hne, this.info hne, this.atomic hne⟩⟩

/-- When the slot's block is a directory block (data area or FAT16 root region): at every crash point of
the flush all chains of the volume are intact, and so are the bytes of every chain none of whose cluster
blocks is the directory block — the data of every file, the flushed one included. -/
theorem flush_crash_chains (s : Mgr) (h i vi : Nat) (f : FileInfo) (v : VolInfo)
    (hs : MgrOK s) (hh : s.files.findIdx? (·.rawFile = h) = some i) (hf : s.files[i]? = some f)
    (hv : s.vols.findIdx? (·.rawVolume = f.rawVolume) = some vi) (hvi : s.vols[vi]? = some v)
    (hd : f.dirty = true) (hassert : ¬ (f.entry.size ≠ 0 ∧ f.entry.cluster = 0))
    (ho : f.entry.entryOffset + 32 ≤ 512) (hname : f.entry.name.length = 11) (hg : WFGeom v.vol)
    (hdb : regionOf v.vol f.entry.entryBlock = .data ∨ regionOf v.vol f.entry.entryBlock = .root) :
    ∃ s1, flushFile h s = (.ok (), s1) ∧
      ∀ j,
        (∀ c X, Chain v.vol s.dev.disk c X → Chain v.vol (crashDisk s.dev.disk (newWritesM s s1) j) c X) ∧
        (∀ c X, Chain v.vol s.dev.disk c X →
          (∀ x, x ∈ X → ∀ jj, jj < v.vol.blocksPerCluster → clusterToBlock v.vol x + jj ≠ f.entry.entryBlock) →
          chainBytes v.vol (crashDisk s.dev.disk (newWritesM s s1) j) X = chainBytes v.vol s.dev.disk X) := by
  obtain ⟨s1, hfl, _, _, hcr⟩ := Lemmas.CrashFlush.flushFile_crash s h i vi f v hs hh hf hv hvi hd hassert ho hname
  refine ⟨s1, hfl, fun j => ?_⟩
  have hag : Lemmas.Reopen.AgreeOff v.vol f.entry.entryBlock s.dev.disk (crashDisk s.dev.disk (newWritesM s s1) j) :=
    fun b hne hinfo => (hcr.spec j).others b hne (fun h32 => hinfo.resolve_left (by rw [h32]; intro e; cases e))
  exact ⟨fun c X hch => Lemmas.Reopen.chain_of_agreeOff v.vol hg _ _ _ hag hdb hch,
    fun c X hch hav => Lemmas.Reopen.chainBytes_of_agreeOff v.vol hg _ _ _ hag X
      (fun x hx => Lemmas.ChainL.chain_inRange hch x hx) hav⟩

/-! ### Histories of `write` calls -/

open Sdmmc.Spec.DataPlane in
/-- At every crash point inside any call of a history of `write` calls, the chains that no open file owns
(`rest`: closed files, directories) are intact with the bytes they had at the start of the history. -/
theorem write_history_crash (ws : List (Nat × Bytes)) (s : Mgr) (chains rest : List (List Nat)) (hinv : DataInv s chains rest)
    (n : Nat) (w : Nat × Bytes) (hw : ws[n]? = some w) (j : Nat) (X : List Nat) (hX : X ∈ rest) :
    Chain (theVol s) (crashDisk (runWrites s (ws.take n)).dev.disk
      (newWritesM (runWrites s (ws.take n)) (write w.1 w.2 (runWrites s (ws.take n))).2) j) (X.headD 0) X ∧
    chainBytes (theVol s) (crashDisk (runWrites s (ws.take n)).dev.disk
      (newWritesM (runWrites s (ws.take n)) (write w.1 w.2 (runWrites s (ws.take n))).2) j) X =
      chainBytes (theVol s) s.dev.disk X :=
  Lemmas.CrashWriteHist.write_history_crash ws s chains rest hinv n w hw j X hX

/-! ### Directory-plane calls -/

open Sdmmc.Lemmas.CrashDirRecord (DirIn) in
/-- Creating a file. -/
theorem open_create_crash (s sF : Mgr) (directory di vi id : Nat) (name : List Nat) (sfn : Bytes) (d : DirInfo) (v : VolInfo)
    (G : List (List Nat)) (odir : Option Nat) (dcs : List Nat)
    (hs : MgrOK s) (hroom : s.files.length < s.maxFiles)
    (hdi : s.dirs.findIdx? (·.rawDirectory = directory) = some di) (hd : s.dirs[di]? = some d)
    (hv : s.vols.findIdx? (·.rawVolume = d.rawVolume) = some vi) (hvi : s.vols[vi]? = some v)
    (hsfn : Sfn.createFromStr name = .ok sfn) (hlen : sfn.length = 11)
    (hg : WFGeom v.vol) (hh : HintOK v.vol) (hown : Owns v.vol s.dev.disk G) (hdir : DirIn v.vol d.cluster G dcs odir)
    (hnf : (Fat.findDirectoryEntry d.cluster sfn (Lemmas.ReadRefines.fsOf s v)).1 = .err .NotFound)
    (hrun : openFileInDir directory name .ReadWriteCreate s = (.ok id, sF)) :
    ∃ (e : DirEntry) (G' : List (List Nat)) (v' : FatVolume), SameGeom v.vol v' ∧ Owns v' sF.dev.disk G' ∧
      (G' = G ∨ ∃ idir c, odir = some idir ∧ G' = G.set idir (dcs ++ [c])) ∧
      e = DirEntry.new sfn 0 Gen.CLUSTER_EMPTY s.clock e.entryBlock e.entryOffset ∧
      ∀ j,
        (OwnsLoose v.vol (crashDisk s.dev.disk (newWritesM s sF) j) G ∨
          ∃ idir c, odir = some idir ∧ OwnsLoose v.vol (crashDisk s.dev.disk (newWritesM s sF) j) (G.set idir (dcs ++ [c]))) ∧
        (∀ i X, G[i]? = some X → odir ≠ some i →
          Chain v.vol (crashDisk s.dev.disk (newWritesM s sF) j) (X.headD 0) X ∧
          chainBytes v.vol (crashDisk s.dev.disk (newWritesM s sF) j) X = chainBytes v.vol s.dev.disk X) ∧
        (∀ b, regionOf v.vol b ≠ .fat → (∀ x, InRange v.vol x → isFree v.vol s.dev.disk x → ¬ InCluster v.vol x b) →
          (b ≠ e.entryBlock → (crashDisk s.dev.disk (newWritesM s sF) j).get b = s.dev.disk.get b) ∧
          (∀ k, k < e.entryOffset ∨ e.entryOffset + 32 ≤ k →
            ((crashDisk s.dev.disk (newWritesM s sF) j).get b).getD k 0 = (s.dev.disk.get b).getD k 0)) := by
  obtain ⟨e, G', v', h1, h2, h3, h4, hcr⟩ := Lemmas.CrashApiDir.openCreate_crash s sF directory di vi id name sfn d v G odir dcs
    hs hroom hdi hd hv hvi hsfn hlen hg hh hown hdir hnf hrun
  exact ⟨e, G', v', h1, h2, h3, h4, fun j => ⟨(hcr.spec j).sound, (hcr.spec j).others, (hcr.spec j).blocks⟩⟩

/-- Deleting a file (`ofile = some i`: its chain is `G[i] = e.cluster :: tail`; `ofile = none`: it owns no
cluster). -/
theorem delete_file_crash (s sF : Mgr) (directory di vi : Nat) (name : List Nat) (sfn : Bytes) (d : DirInfo) (v : VolInfo)
    (e : DirEntry) (G : List (List Nat)) (ofile : Option Nat) (tail : List Nat)
    (hs : MgrOK s) (hdi : s.dirs.findIdx? (·.rawDirectory = directory) = some di) (hd : s.dirs[di]? = some d)
    (hv : s.vols.findIdx? (·.rawVolume = d.rawVolume) = some vi) (hvi : s.vols[vi]? = some v)
    (hsfn : Sfn.createFromStr name = .ok sfn) (hg : WFGeom v.vol) (hown : Owns v.vol s.dev.disk G)
    (hfind : (Fat.findDirectoryEntry d.cluster sfn (Lemmas.ReadRefines.fsOf s v)).1 = .ok e)
    (hfile : match ofile with
      | none => e.cluster < 2
      | some i => G[i]? = some (e.cluster :: tail))
    (hrun : deleteFileInDir directory name s = (.ok (), sF)) :
    ∃ b off, regionOf v.vol b ≠ .fat ∧ deleteInSlots sfn (slotsOf (s.dev.disk.get b)) = some off ∧
      ∀ j,
        (crashDisk s.dev.disk (newWritesM s sF) j = s.dev.disk ∨
          (crashDisk s.dev.disk (newWritesM s sF) j).get b = (s.dev.disk.get b).set off (UInt8.ofNat 0xE5)) ∧
        (OwnsLoose v.vol (crashDisk s.dev.disk (newWritesM s sF) j) G ∨
          ∃ i, ofile = some i ∧
            (crashDisk s.dev.disk (newWritesM s sF) j).get b = (s.dev.disk.get b).set off (UInt8.ofNat 0xE5) ∧
            OwnsLoose v.vol (crashDisk s.dev.disk (newWritesM s sF) j) (G.eraseIdx i)) ∧
        (∀ i X, G[i]? = some X → ofile ≠ some i → ∀ x, x ∈ X →
          fatRaw v.vol (crashDisk s.dev.disk (newWritesM s sF) j) x = fatRaw v.vol s.dev.disk x) ∧
        (∀ i, regionOf v.vol i ≠ .fat → i ≠ b → (crashDisk s.dev.disk (newWritesM s sF) j).get i = s.dev.disk.get i) := by
  obtain ⟨b, off, h1, h2, hcr⟩ := Lemmas.CrashApiDir.deleteFile_crash s sF directory di vi name sfn d v e G ofile tail
    hs hdi hd hv hvi hsfn hg hown hfind hfile hrun
  exact ⟨b, off, h1, h2, fun j => ⟨(hcr.spec j).order, (hcr.spec j).sound, (hcr.spec j).others, (hcr.spec j).blocks⟩⟩

open Sdmmc.Lemmas.CrashDirRecord (DirIn) in
open Sdmmc.Lemmas.CrashMkdirApi (MkdirRecord) in
/-- Creating a directory. -/
theorem make_dir_in_dir_crash (s sF : Mgr) (directory di vi : Nat) (name : List Nat) (sfn : Bytes) (d : DirInfo) (v : VolInfo)
    (G : List (List Nat)) (odir : Option Nat) (dcs : List Nat)
    (hs : MgrOK s) (hroom : s.dirs.length < s.maxDirs)
    (hdi : s.dirs.findIdx? (·.rawDirectory = directory) = some di) (hd : s.dirs[di]? = some d)
    (hv : s.vols.findIdx? (·.rawVolume = d.rawVolume) = some vi) (hvi : s.vols[vi]? = some v)
    (hsfn : Sfn.createFromStr name = .ok sfn)
    (hg : WFGeom v.vol) (hh : HintOK v.vol) (hown : Owns v.vol s.dev.disk G) (hdir : DirIn v.vol d.cluster G dcs odir)
    (hroot : odir = none → dcs = [])
    (hnf : (Fat.findDirectoryEntry d.cluster sfn (Lemmas.ReadRefines.fsOf s v)).1 = .err .NotFound)
    (hrun : makeDirInDir directory name s = (.ok (), sF)) :
    ∃ c, InRange v.vol c ∧ isFree v.vol s.dev.disk c ∧ NewDirReady v.vol sF.dev.disk c d.cluster Gen.ATTR_DIRECTORY s.clock ∧
      ∀ j,
        (∃ R, OwnsLoose v.vol (crashDisk s.dev.disk (newWritesM s sF) j) R ∧ MkdirRecord G odir dcs c R) ∧
        (∀ i X, G[i]? = some X → odir ≠ some i →
          Chain v.vol (crashDisk s.dev.disk (newWritesM s sF) j) (X.headD 0) X ∧
          chainBytes v.vol (crashDisk s.dev.disk (newWritesM s sF) j) X = chainBytes v.vol s.dev.disk X) := by
  obtain ⟨c, h1, h2, h3, hcr⟩ := Lemmas.CrashMkdirApi.makeDirInDir_crash s sF directory di vi name sfn d v G odir dcs
    hs hroom hdi hd hv hvi hsfn hg hh hown hdir hroot hnf hrun
  exact ⟨c, h1, h2, Lemmas.CrashDirSpec.newDirReady_of h3, fun j => ⟨(hcr.spec j).sound, (hcr.spec j).others⟩⟩

/-- The device writes of truncate-on-open (F level). -/
theorem truncate_open_crash (s : FS) (G : List (List Nat)) (i c : Nat) (tail : List Nat) (e' : DirEntry) (hr : Ready s)
    (ho : Owns s.vol s.dev.disk G) (hGi : G[i]? = some (c :: tail))
    (hoff : e'.entryOffset + 32 ≤ 512) (hname : e'.name.length = 11) (hbnf : regionOf s.vol e'.entryBlock ≠ .fat) :
    ∃ s', Lemmas.CrashTruncOpen.truncOpenBody c e' s = (.ok (), s') ∧
      ∀ k,
        (OwnsLoose s.vol (crashDisk s.dev.disk (newWrites s s') k) G ∨
          OwnsLoose s.vol (crashDisk s.dev.disk (newWrites s s') k) (G.set i [c])) ∧
        (∀ j X, G[j]? = some X → j ≠ i → ∀ x, x ∈ X →
          fatRaw s.vol (crashDisk s.dev.disk (newWrites s s') k) x = fatRaw s.vol s.dev.disk x) ∧
        (∀ b, regionOf s.vol b ≠ .fat → b ≠ e'.entryBlock → (crashDisk s.dev.disk (newWrites s s') k).get b = s.dev.disk.get b) ∧
        ((crashDisk s.dev.disk (newWrites s s') k).get e'.entryBlock ≠ s.dev.disk.get e'.entryBlock →
          OwnsLoose s.vol (crashDisk s.dev.disk (newWrites s s') k) (G.set i [c])) := by
  obtain ⟨s', h, hcr⟩ := Lemmas.CrashTruncOpen.truncOpen_crash s G i c tail e' hr ho hGi hoff hname hbnf
  exact ⟨s', h, fun k => ⟨(hcr.spec k).sound, (hcr.spec k).others, (hcr.spec k).blocks, (hcr.spec k).slotLast⟩⟩

/-! ### Non-vacuity and the observation (tests, labelled as tests) -/

namespace Example
open Sdmmc.Props.C10Crash.Example (vol st fileName)

/-- The volume of `Props/C10Crash.lean` with one root-directory entry: `FILE    TXT`, first cluster 5
(chain `5 → 6`, capacity 1024 bytes), size 700. -/
def rootBlk : Block := fileName ++ [0x20] ++ zeros 14 ++ [5, 0] ++ [0xBC, 0x02, 0, 0] ++ zeros 480
def stT : FS := { st with dev := { st.dev with disk := st.dev.disk.set 9 rootBlk } }
def eNew : DirEntry :=
  { name := fileName, mtime := default, ctime := default, attributes := 0x20, cluster := 5, size := 0, entryBlock := 9, entryOffset := 0 }

/-- OBSERVATION.  Truncate-on-open writes FAT copy 1, copy 2 (terminate 5), copy 1, copy 2 (free 6), and LAST
the directory block.  Per crash point: the size field of the on-disk entry, the FAT entries of 5 and 6.  At
crash points 1 … 4 the entry still says 700 bytes while the chain of 5 has ONE cluster (512 bytes): a size
that exceeds the capacity of its chain.  (C10 lists "a size not yet updated" among the permitted residue;
this is the direction in which a reader following the chain meets its end before the recorded size.) -/
theorem truncate_size_residue :
    let r := Lemmas.CrashTruncOpen.truncOpenBody 5 eNew stT
    (newWrites stT r.2).map (·.1) = [1, 3, 1, 3, 9] ∧
    (crashDisks stT.dev.disk (newWrites stT r.2)).map (fun dk => (readU32 (dk.get 9) 28, fatRaw vol dk 5, fatRaw vol dk 6)) =
      [(700, 6, 65535), (700, 65535, 65535), (700, 65535, 65535), (700, 65535, 0), (700, 65535, 0), (0, 65535, 0)] := by
  decide +kernel

end Example

end Sdmmc.Props.C09CrashApi
