/-
C11 over HISTORIES UNDER FAULTS, ARBITRARY PLACEMENT — `others_intact_history` and `medium_mounts_history` WITHOUT THE
HYPOTHESIS THAT THE TWO FAT COPIES ARE IDENTICAL, and with lost chains.

Why: a device failure between the two writes of an `update_fat` (FAT copy 1, then copy 2) leaves copy 2 one sector behind
(`Props.C11HistB.Example.fat_copies_differ`), and a history may do this to several sectors; a later `update_fat` of the same
sector writes the WHOLE image of copy 1 to copy 2 — it "repairs" entries of copy 2 no licence of THAT call names.  So the
C04 licences (`Licensed`, clause (a): a FAT write changes only licensed entries, in either copy) do not survive such a
failure — `Mirror` is a hypothesis of all of `Props/C04*` and of `Props.C11Hist.others_intact_history`.

Here: `Licensed1` / `AllLicensed1` (`Spec/WriteSet1.lean`) = `Licensed` with ANY 512-byte write into a block of FAT COPY 2
allowed.  The crate never reads copy 2; so everything that matters is stated AS READ THROUGH COPY 1 — which is what
`nextOf` / `Chain` do —, on the directory slots and on the data clusters:

* `call_licensed_without_mirror` — from `VolInvL` (lost chains, NO `Mirror`): one covered call under whatever is scheduled,
  WHATEVER device call of it fails (all 24 operations): its writes are `AllLicensed1` by a licence `LicenceFor` describes in
  the state the call is issued in (the C04 vocabulary, unchanged), and the medium afterwards is the medium before with these
  writes applied.
* `others_intact_history_M_partial` — along a covered history under any schedule, device failures falling anywhere but inside
  a truncating `open_file_in_dir` (`classC`): there is a list of licences, one per call, each described in the state its call
  is issued in, such that after EVERY prefix an object — slot, chain — that none of the licences so far names has the same
  slot bytes, IS STILL THE CHAIN of its first cluster (read through copy 1) and holds the same bytes.  No `Mirror` anywhere.
* `medium_mounts_history_M_partial` — and the medium still mounts after every prefix.

Proof: the whole C04 licence argument redone for `Licensed1` from `Ready` alone (`Lemmas/WriteSet1*.lean`, 13 files generated
from `Lemmas/WriteSet*.lean` by `tools/gen1.py` and fixed by hand: the second write of `update_fat` is licensed outright, every
`Mirror` pre- and post-condition is gone) and from the invariant WITH LOST CHAINS (`Lemmas/LicX*.lean`: `step_callOK` for all
24 operations from `VolInvX X`).  Under a schedule: a failing `delete` / `open` / `close_file` / `flush` / `close_volume`
writes a PREFIX of the fault-free call's writes (`FaultPre.MPre`); so does a failing `write` — which reports a failed
`alloc_cluster` as `DiskFull` and hands failures of `find_data_on_disk` on as inner outcomes, hence the weaker `MPw` of
`Lemmas/LicXWPfx.lean`, proved in `Lemmas/LicXWriteP.write_mpw` —; a failing `make_dir_in_dir` writes a prefix of the
fault-free writes FOLLOWED, when the entry in the parent could not be written, by (a prefix of) the clean-up
`free_cluster_chain(new cluster)`, which is licensed too — the FAT entry of the new cluster is in every `mkdir` licence, and
the new cluster is a chain nothing refers to at that point, since a `write_new_directory_entry` that reports an error has not
written the entry (`Lemmas/LicXMkdirF.makeDir_licF`, `Lemmas/LicXMkdirApi.mkdir_licF`).  Frame: a byte no licence covers and
OUTSIDE COPY 2 is unchanged (`Lemmas/LicXFrame.allLicensed1_frame`) — slots lie in the root / data region, the entries `Chain`
reads lie in copy 1 (`not_fat2_fatBlock`), data lies in the data region; mount reads block 0, the boot sector and the info
sector only (`allLicensed1_prefix`).

WHY `_partial` (TARGET: no restriction on where device calls fail): ONE call is licensed whatever fails
(`call_licensed_without_mirror` has no restriction); but the HISTORY theorems need the invariant `VolInvL` before every call,
and a device failure inside a TRUNCATING `open_file_in_dir` leaves only the weak `FaultInvE` (`Props/C11HistT`): the histories
here are those of `Props.C11HistE.history_under_faults_E_partial` (`FailsOnlyIn classC`).
-/
import Sdmmc.Spec.WriteSet1
import Sdmmc.Lemmas.LicXFault
import Sdmmc.Props.C11HistT

namespace Sdmmc.Props.C11HistM
open Sdmmc.Model Sdmmc.Model.Fat Sdmmc.Spec.Volume
open Sdmmc.Spec hiding run step NoFault Coherent
open Sdmmc.Props.C11Inv (withFaults Covered NameOK)
open Sdmmc.Props.C11Hist (CoveredRun FailsOnlyIn)
open Sdmmc.Props.C11HistB (nonTruncating)
open Sdmmc.Props.C11HistE (classC classC_iff invFE_iff)
open Sdmmc.Lemmas.WriteSetInv (LicenceFor NotNamed)

/-! ### One call -/

/-- **`call_licensed_without_mirror`.**  From `VolInvL` (lost chains; nothing is asked of FAT copy 2), one covered call
under whatever is scheduled, WHATEVER device call of it fails: there is a licence `LicenceFor` describes in the state the
call is issued in by which every device write of the call is `Licensed1`, and the medium afterwards is the medium before with
exactly these writes applied. -/
theorem call_licensed_without_mirror {s : Mgr} {gh : Ghost} {X : List (List Nat)} (hI : VolInvL s gh X) (op : Op)
    (hc : Covered s op) :
    ∃ L, LicenceFor gh s.files s.dirs s.dev.disk op L ∧ AllLicensed1 gh.vol s.dev.disk L (step s op).2.writes ∧
      ∀ i, (step s op).1.dev.disk.get i = (s.dev.disk.applyWrites (step s op).2.writes).get i :=
  Lemmas.VolX.Lic.step_lic1 (Lemmas.FaultX.volInvL_iff.1 hI) op ((C11Inv.covered_iff s op).1 hc)

/-- What `Licensed1` still says about one write: it goes to the FAT, the root directory region, the data region or the
info sector of the volume — inside the partition, never block 0, never the boot sector. -/
theorem licensed1_write_in_volume {v : FatVolume} (hg : WFGeom v) {d : Disk} {L : Licence} {w : Nat × Block}
    (h : Licensed1 v d L w) :
    (regionOf v w.1 = .fat ∨ regionOf v w.1 = .root ∨ regionOf v w.1 = .data ∨ regionOf v w.1 = .info) ∧
    InPartition v w.1 ∧ v.lbaStart < w.1 ∧ w.1 ≠ 0 :=
  Lemmas.WriteSet1.licensed_in_region v hg d L w h

/-- … and a byte it changes is a byte the licence covers, or lies in a block of FAT copy 2. -/
theorem licensed1_write_frame {v : FatVolume} {d : Disk} {L : Licence} {w : Nat × Block} (h : Licensed1 v d L w) {i : Nat}
    (hn : ¬ Lemmas.WriteSetInv.Covers v L w.1 i) (h2 : ¬ IsFat2Block v w.1) : w.2.getD i 0 = (d.get w.1).getD i 0 :=
  Lemmas.VolX.Lic.licensed1_frame h hn h2

/-- **One call, an object it does not name**: slot bytes, chain read through copy 1, chain bytes are the same after the call,
whatever device call of it failed. -/
theorem others_intact_after_any_call {s : Mgr} {gh : Ghost} {X : List (List Nat)} (hI : VolInvL s gh X) (op : Op)
    (hc : Covered s op) :
    ∃ L, LicenceFor gh s.files s.dirs s.dev.disk op L ∧
      ∀ (sb so c : Nat) (cs : List Nat), Chain gh.vol s.dev.disk c cs →
        (regionOf gh.vol sb = .root ∨ regionOf gh.vol sb = .data) → so % 32 = 0 → NotNamed gh.vol L sb so cs →
        slice ((step s op).1.dev.disk.get sb) so 32 = slice (s.dev.disk.get sb) so 32 ∧
        Chain gh.vol (step s op).1.dev.disk c cs ∧
        chainBytes gh.vol (step s op).1.dev.disk cs = chainBytes gh.vol s.dev.disk cs := by
  obtain ⟨L, hlic, hall, hdisk⟩ := call_licensed_without_mirror hI op hc
  have hIx := Lemmas.FaultX.volInvL_iff.1 hI
  refine ⟨L, hlic, fun sb so c cs hch hsreg hso hnn => ?_⟩
  have hsp := Lemmas.WriteSetInv.spares_of_avoids hI.med.geom (Lemmas.ChainL.chain_inRange hch) hsreg hso
    (Lemmas.WriteSetInv.avoids_of (Lemmas.VolX.Lic.licenceFor_wf hIx hlic) hnn)
  obtain ⟨h1, h2, h3⟩ := Lemmas.VolX.Lic.spared1_unchanged hI.med.geom hI.med.blocksOK hall sb so c cs hch hsreg hsp
  refine ⟨by rw [hdisk sb]; exact h1, ?_, ?_⟩
  · exact Lemmas.ForestBase.chain_transfer h2 rfl fun x _ => by
      refine Lemmas.ForestBase.nextOf_congr rfl ?_
      unfold fatRaw
      rw [hdisk]
  · rw [← h3]
    exact Lemmas.WriteRefines.chainBytes_congr gh.vol _ _ cs fun x _ j _ => hdisk _

/-! ### Histories -/

/-- **`others_intact_history_M_partial`** (TARGET: the same with no restriction `hf`).  NO `Mirror`.  A covered history
under any schedule from `VolInvLE` (lost chains allowed), device failures falling anywhere but inside a truncating
`open_file_in_dir`.  There is a list `Ls` of licences, one per call, each a licence `LicenceFor` describes for its call in
the state that call is issued in (which satisfies `VolInvL`), such that after EVERY prefix `k`: every object of the start
medium — slot at byte `so` of block `sb`, chain `cs` from cluster `c` (read through FAT copy 1, as `Chain` does) — that none
of the first `k` licences names has the same 32 slot bytes, is still the chain of `c` read through copy 1, and holds the same
bytes. -/
theorem others_intact_history_M_partial (ops : List Op) {s : Mgr} {gh : Ghost} {X : List (List Nat)} (hI : VolInvLE s gh X)
    (hc : CoveredRun s ops) (hf : FailsOnlyIn classC s ops) :
    ∃ Ls : List Licence, Ls.length = ops.length ∧
      (∀ L, L ∈ Ls → ∃ k op gh' X', ops[k]? = some op ∧ VolInvL (run s (ops.take k)).1 gh' X' ∧ SameGeom gh.vol gh'.vol ∧
        LicenceFor gh' (run s (ops.take k)).1.files (run s (ops.take k)).1.dirs (run s (ops.take k)).1.dev.disk op L) ∧
      ∀ (k sb so c : Nat) (cs : List Nat), Chain gh.vol s.dev.disk c cs →
        (regionOf gh.vol sb = .root ∨ regionOf gh.vol sb = .data) → so % 32 = 0 →
        (∀ L, L ∈ Ls.take k → NotNamed gh.vol L sb so cs) →
        slice ((run s (ops.take k)).1.dev.disk.get sb) so 32 = slice (s.dev.disk.get sb) so 32 ∧
        Chain gh.vol (run s (ops.take k)).1.dev.disk c cs ∧
        chainBytes gh.vol (run s (ops.take k)).1.dev.disk cs = chainBytes gh.vol s.dev.disk cs := by
  obtain ⟨Ls, hR, _⟩ := Lemmas.VolX.Lic.runLic1_of gh.vol ops (invFE_iff.2 ⟨gh, X, hI, SameGeom.refl _⟩) (SameGeom.refl _)
    ((C11Hist.coveredRun_iff ops s).1 hc) ((C11HistE.failsOnlyIn_iff ops s).1 hf)
  refine ⟨Ls, Lemmas.VolX.Lic.runLic1_length hR, fun L hL => ?_, ?_⟩
  · obtain ⟨k, op, gh', X', h1, h2, h3, h4⟩ := Lemmas.VolX.Lic.runLic1_nth hR L hL
    exact ⟨k, op, gh', X', h1, Lemmas.FaultX.volInvL_iff.2 h2, h3, h4⟩
  · intro k sb so c cs hch hreg hso hnn
    exact Lemmas.VolX.Lic.unnamed_unchanged_1 hI.inv.med.geom (Lemmas.VolX.Lic.runLic1_take hR k) hI.inv.med.blocksOK
      sb so c cs hch hreg hso hnn

/-- **`medium_mounts_history_M_partial`** (same hypotheses; NO `Mirror`).  If the start medium mounts (partition `idx`) to a
record with the geometry of the volume, so does the medium after every prefix. -/
theorem medium_mounts_history_M_partial (ops : List Op) {s : Mgr} {gh : Ghost} {X : List (List Nat)} (hI : VolInvLE s gh X)
    (hc : CoveredRun s ops) (hf : FailsOnlyIn classC s ops) (k : Nat) (idx : Nat) (vm : FatVolume)
    (hmt : mountPure (s.dev.disk.get 0) idx s.dev.disk.get = .ok vm) (hsg : SameGeom vm gh.vol) :
    ∃ w, mountPure ((run s (ops.take k)).1.dev.disk.get 0) idx (run s (ops.take k)).1.dev.disk.get = .ok w ∧
      SameGeom gh.vol w := by
  obtain ⟨Ls, hR, _⟩ := Lemmas.VolX.Lic.runLic1_of gh.vol ops (invFE_iff.2 ⟨gh, X, hI, SameGeom.refl _⟩) (SameGeom.refl _)
    ((C11Hist.coveredRun_iff ops s).1 hc) ((C11HistE.failsOnlyIn_iff ops s).1 hf)
  exact Lemmas.VolX.Lic.runLic1_mounts hI.inv.med.geom (Lemmas.VolX.Lic.runLic1_take hR k) hI.inv.med.blocksOK idx vm hmt hsg

/-- **A failed truncating open does not hurt the other objects either** (one call; the history theorems stop there because
the INVARIANT is weak afterwards, not because of the licence): combined with `Props.C11HistT.history_under_faults_T_partial`,
along any covered history under any schedule the objects no call names are intact up to and including the first failure
inside a truncation. -/
theorem others_intact_after_failed_truncation {s : Mgr} {gh : Ghost} {X : List (List Nat)} (hI : VolInvL s gh X) (dir : Nat)
    (name : List Nat) (mode : Mode) (hname : NameOK name) :
    ∃ L, LicenceFor gh s.files s.dirs s.dev.disk (.openFile dir name mode) L ∧
      ∀ (sb so c : Nat) (cs : List Nat), Chain gh.vol s.dev.disk c cs →
        (regionOf gh.vol sb = .root ∨ regionOf gh.vol sb = .data) → so % 32 = 0 → NotNamed gh.vol L sb so cs →
        slice ((step s (.openFile dir name mode)).1.dev.disk.get sb) so 32 = slice (s.dev.disk.get sb) so 32 ∧
        Chain gh.vol (step s (.openFile dir name mode)).1.dev.disk c cs ∧
        chainBytes gh.vol (step s (.openFile dir name mode)).1.dev.disk cs = chainBytes gh.vol s.dev.disk cs :=
  others_intact_after_any_call hI (.openFile dir name mode) hname

/-! ### Non-vacuity; the FAT copies really come to differ, and a fault-free call then changes copy 2 beyond its licence -/

namespace Example
open Sdmmc.Lemmas.VolExample Sdmmc.Lemmas.VolCheck
open Sdmmc.Lemmas.FaultHist (checkFaultInv checkFaultInv_sound)
open Sdmmc.Props.C11Hist.Example (nameA isDeviceError)
open Sdmmc.Props.C11HistB.Example (ok_A ok_D ok_F)

/-- On the example volume with `E.DAT` open and modified (`mgr0`): `delete A.TXT` — device call 4, the write of FAT COPY 2
after copy 1 (cluster 2 terminated), FAILS: the copies differ from here on —; `write` of 600 bytes to `E.DAT` (needs a second
cluster: device call 9, the write of FAT copy 2 inside `alloc_cluster`, FAILS — `write` answers `DiskFull`, the new cluster
8 is lost); `close_file`; create `F`; `make_dir_in_dir D` — device call 19, the write of the entry in the parent, FAILS: the
clean-up frees the new cluster 9 again. -/
def opsM : List Op :=
  [.delete 2 nameA, .write 4 (List.replicate 600 7), .closeFile 4, .openFile 2 [70] .ReadWriteCreate, .mkdir 2 [68]]
def schedM : List Nat := [4, 9, 19]
/-- The state after the first `k` calls. -/
def sM (k : Nat) : Mgr := (run (withFaults schedM mgr0) (opsM.take k)).1

theorem opsM_covered : CoveredRun (withFaults schedM mgr0) opsM := ⟨ok_A, trivial, trivial, ok_F, ok_D, trivial⟩

/-- The three failures fall in `delete`, in `write` and in `make_dir_in_dir`. -/
theorem opsM_failures :
    (List.range 5).map (fun k => decide ((step (sM k) (opsM.getD k .hasOpen)).1.dev.failed ≠ (sM k).dev.failed)) =
    [true, true, false, false, true] := by decide +kernel

theorem opsM_classC : FailsOnlyIn classC (withFaults schedM mgr0) opsM :=
  ⟨fun _ => rfl, fun _ => rfl, fun _ => rfl, fun _ => rfl, fun _ => rfl, trivial⟩

/-- The failed `write` (a device failure reported as `DiskFull`) wrote a PREFIX of what the fault-free `write` writes from
the same state: blocks `[8, 1]` of `[8, 1, 2, 1, 2, 10]`.  The failed `make_dir_in_dir` wrote a prefix — `[1, 2, 11]` of
`[1, 2, 11, 3]`: FAT copies 1 and 2, the first block of the new directory; not the entry in the root directory — FOLLOWED by
its clean-up `[1, 2]` (the FAT entry of the new cluster, in both copies). -/
theorem failed_write_and_mkdir :
    (step (sM 1) (opsM.getD 1 .hasOpen)).2.writes.map (·.1) = [8, 1] ∧
    (step (clearFaults (sM 1)) (opsM.getD 1 .hasOpen)).2.writes.map (·.1) = [8, 1, 2, 1, 2, 10] ∧
    (match (step (sM 1) (opsM.getD 1 .hasOpen)).2.result with | .err .DiskFull => true | _ => false) = true ∧
    (step (sM 4) (opsM.getD 4 .hasOpen)).2.writes.map (·.1) = [1, 2, 11, 1, 2] ∧
    (step (clearFaults (sM 4)) (opsM.getD 4 .hasOpen)).2.writes.map (·.1) = [1, 2, 11, 3] ∧
    isDeviceError (step (sM 4) (opsM.getD 4 .hasOpen)).2.result = true := by
  decide +kernel

/-- The theorems at this history. -/
theorem opsM_others_intact :
    ∃ Ls : List Licence, Ls.length = 5 ∧
      ∀ (k sb so c : Nat) (cs : List Nat), Chain vol16 mgr0.dev.disk c cs →
        (regionOf vol16 sb = .root ∨ regionOf vol16 sb = .data) → so % 32 = 0 →
        (∀ L, L ∈ Ls.take k → NotNamed vol16 L sb so cs) →
        slice ((sM k).dev.disk.get sb) so 32 = slice (mgr0.dev.disk.get sb) so 32 ∧
        Chain vol16 (sM k).dev.disk c cs ∧ chainBytes vol16 (sM k).dev.disk cs = chainBytes vol16 mgr0.dev.disk cs :=
  let ⟨Ls, h1, _, h3⟩ := others_intact_history_M_partial opsM (C11HistT.Example.mgr0_volInvLE schedM) opsM_covered opsM_classC
  ⟨Ls, h1, h3⟩

/-- **The FAT copies differ** after the failed `delete` (entry of cluster 2: end-of-chain in copy 1, still `3` in copy 2),
more so after the failed `write` (entry of cluster 8) — and the `make_dir_in_dir` at the end, whose licence names the FAT
entry of the NEW cluster 9 only, writes the whole sector of copy 1 to copy 2: the entries of clusters 2 and 8 in COPY 2 change
under it.  (Why clause (a) of `Licensed` cannot be kept for copy 2 once the copies differ, and `Licensed1` leaves copy 2
alone.) -/
theorem copy2_changes_beyond_the_licence :
    (List.range 6).map (fun k =>
      (rawFatEntry .fat16 ((sM k).dev.disk.get 1) 4, rawFatEntry .fat16 ((sM k).dev.disk.get 2) 4,
       rawFatEntry .fat16 ((sM k).dev.disk.get 1) 16, rawFatEntry .fat16 ((sM k).dev.disk.get 2) 16,
       (sM k).dev.disk.get 1 == (sM k).dev.disk.get 2)) =
    [(3, 3, 0, 0, true), (65535, 3, 0, 0, false), (65535, 3, 65535, 0, false), (65535, 3, 65535, 0, false),
     (65535, 3, 65535, 0, false), (65535, 65535, 65535, 65535, true)] := by
  decide +kernel

/-- What the theorem says, evaluated for an object no call of the history names — `B.BIN` (chain `[5]`): the same bytes
after every prefix.  And the state at the end: `VolInvL` with the chains of `SUB`, `B.BIN`, `E.DAT`, and three lost chains
(`A.TXT`'s two clusters, the cluster the failed `write` had allocated); the cluster of the failed `make_dir_in_dir` is free
again. -/
theorem opsM_evaluated :
    (List.range 6).map (fun k => chainBytes vol16 (sM k).dev.disk [5] == chainBytes vol16 mgr0.dev.disk [5]) =
      List.replicate 6 true ∧
    checkFaultInv (sM 5) { vol := ((sM 5).vols.headD default).vol, G := [[4], [5], [6]], dirs := [(4, 0)] }
      [[2], [3], [8]] 512 = true := by decide +kernel

end Example

end Sdmmc.Props.C11HistM
