/-
C11 over HISTORIES UNDER FAULTS, ARBITRARY PLACEMENT — `others_intact_history` and `medium_mounts_history` WITHOUT THE
HYPOTHESIS THAT THE TWO FAT COPIES ARE IDENTICAL, and with lost chains.

Why: a device failure between the two writes of an `update_fat` (FAT copy 1, then copy 2) leaves copy 2 one sector behind
(`Props.C11HistB.Example.fat_copies_differ`), and a history may do this to several sectors; a later `update_fat` of the same
sector writes the WHOLE image of copy 1 to copy 2 — it "repairs" entries of copy 2 no licence of THAT call names.  So the
C04 licences (`Licensed`, clause (a): a FAT write changes only licensed entries, in either copy) do not survive such a
failure — `Mirror` is a hypothesis of all of `Props/C04*` and of `Props.C11Hist.others_intact_history`.

Here: `Licensed1` / `AllLicensed1` (`Spec/WriteSet1.lean`) = `Licensed` with ANY 512-byte write into a block of FAT COPY 2
allowed.  The crate never reads copy 2; so everything that matters is stated AS READ THROUGH COPY 1 — which is what
`nextOf` / `Chain` do —, on the directory slots and on the data clusters:

* `call_licensed_without_mirror` — from `VolInvL` (lost chains, NO `Mirror`): one covered call under whatever is scheduled, a
  device failure falling anywhere but inside `write` / `make_dir_in_dir` (`classL`): its writes are `AllLicensed1` by a licence
  `LicenceFor` describes in the state the call is issued in (the C04 vocabulary, unchanged), and the medium afterwards is the
  medium before with these writes applied.
* `others_intact_history_M_partial` — along a covered history under any schedule, device failures falling in calls of
  `classM` (every call but `write`, `make_dir_in_dir` and a truncating open): there is a list of licences, one per call, each
  described in the state its call is issued in, such that after EVERY prefix an object — slot, chain — that none of the
  licences so far names has the same slot bytes, IS STILL THE CHAIN of its first cluster (read through copy 1) and holds the
  same bytes.  No `Mirror` anywhere.
* `medium_mounts_history_M_partial` — and the medium still mounts after every prefix.

Proof: the whole C04 licence argument redone for `Licensed1` from `Ready` alone (`Lemmas/WriteSet1*.lean`, 14 files generated
from `Lemmas/WriteSet*.lean` by `tools/gen1.py` and fixed by hand: the second write of `update_fat` is licensed outright, every
`Mirror` pre- and post-condition is gone) and from the invariant WITH LOST CHAINS (`Lemmas/LicX*.lean`: `step_callOK` for all
24 operations from `VolInvX X`); a failing call of `classL` writes a PREFIX of the fault-free call's writes
(`Lemmas.FaultInv.step_faulted`); frame: a byte no licence covers and OUTSIDE COPY 2 is unchanged
(`Lemmas/LicXFrame.allLicensed1_frame`) — slots lie in the root / data region, the entries `Chain` reads lie in copy 1
(`not_fat2_fatBlock`), data lies in the data region; mount reads block 0, the boot sector and the info sector only
(`allLicensed1_prefix`).

WHY `_partial` (TARGET: no restriction on where device calls fail): a failed `write` / `make_dir_in_dir` is not a truncated
fault-free run (`write` hands failures on as inner outcomes, `make_dir_in_dir` cleans up), so "its writes are a prefix of
licensed writes" needs the stage-by-stage analysis of `Lemmas/FaultXWrite*`, `FaultXMkdir*` once more WITH the licences; and a
failure inside a truncating open leaves only `FaultInvE` (`Props/C11HistT`).  Fault-FREE calls of all kinds — `write`,
`make_dir_in_dir`, truncating opens included — may be interleaved freely, also after the copies have come to differ.
-/
import Sdmmc.Spec.WriteSet1
import Sdmmc.Lemmas.LicXFault
import Sdmmc.Props.C11HistT

namespace Sdmmc.Props.C11HistM
open Sdmmc.Model Sdmmc.Model.Fat Sdmmc.Spec.Volume
open Sdmmc.Spec hiding run step NoFault Coherent
open Sdmmc.Props.C11Inv (withFaults Covered NameOK)
open Sdmmc.Props.C11Hist (CoveredRun FailsOnlyIn)
open Sdmmc.Props.C11HistB (nonTruncating)
open Sdmmc.Props.C11HistE (classC classC_iff invFE_iff)
open Sdmmc.Lemmas.WriteSetInv (LicenceFor NotNamed)

/-- The calls whose failed run is a truncated fault-free run or writes nothing: all but `write` and `make_dir_in_dir`. -/
def classL : Op → Bool
  | .mkdir _ _ | .write _ _ => false
  | _ => true

/-- The calls in which a device failure is covered here: all but `write`, `make_dir_in_dir` and a truncating
`open_file_in_dir`. -/
def classM : Op → Bool
  | .openFile _ _ mode => nonTruncating mode
  | .mkdir _ _ | .write _ _ => false
  | _ => true

theorem classL_iff (op : Op) : classL op = Lemmas.VolX.Lic.classL op := by cases op <;> rfl

theorem classM_iff (op : Op) : classM op = true ↔ classC op = true ∧ classL op = true := by
  cases op <;> simp [classM, classC, classL]

theorem failsOnlyIn_iff : ∀ (ops : List Op) (s : Mgr),
    FailsOnlyIn classM s ops ↔ Lemmas.VolX.Lic.FailsOnlyInCL s ops
  | [], _ => Iff.rfl
  | op :: ops, s => and_congr (by rw [classM_iff, classC_iff, classL_iff]) (failsOnlyIn_iff ops _)

/-! ### One call -/

/-- **`call_licensed_without_mirror`.**  From `VolInvL` (lost chains; nothing is asked of FAT copy 2), one covered call
under whatever is scheduled, a device failure falling anywhere but inside `write` / `make_dir_in_dir`: there is a licence
`LicenceFor` describes in the state the call is issued in by which every device write of the call is `Licensed1`, and the
medium afterwards is the medium before with exactly these writes applied. -/
theorem call_licensed_without_mirror {s : Mgr} {gh : Ghost} {X : List (List Nat)} (hI : VolInvL s gh X) (op : Op)
    (hc : Covered s op) (hf : (step s op).1.dev.failed ≠ s.dev.failed → classL op = true) :
    ∃ L, LicenceFor gh s.files s.dirs s.dev.disk op L ∧ AllLicensed1 gh.vol s.dev.disk L (step s op).2.writes ∧
      ∀ i, (step s op).1.dev.disk.get i = (s.dev.disk.applyWrites (step s op).2.writes).get i :=
  Lemmas.VolX.Lic.step_lic1 (Lemmas.FaultX.volInvL_iff.1 hI) op ((C11Inv.covered_iff s op).1 hc)
    (fun h => by rw [← classL_iff]; exact hf h)

/-- What `Licensed1` still says about one write: it goes to the FAT, the root directory region, the data region or the
info sector of the volume — inside the partition, never block 0, never the boot sector. -/
theorem licensed1_write_in_volume {v : FatVolume} (hg : WFGeom v) {d : Disk} {L : Licence} {w : Nat × Block}
    (h : Licensed1 v d L w) :
    (regionOf v w.1 = .fat ∨ regionOf v w.1 = .root ∨ regionOf v w.1 = .data ∨ regionOf v w.1 = .info) ∧
    InPartition v w.1 ∧ v.lbaStart < w.1 ∧ w.1 ≠ 0 :=
  Lemmas.WriteSet1.licensed_in_region v hg d L w h

/-- … and a byte it changes is a byte the licence covers, or lies in a block of FAT copy 2. -/
theorem licensed1_write_frame {v : FatVolume} {d : Disk} {L : Licence} {w : Nat × Block} (h : Licensed1 v d L w) {i : Nat}
    (hn : ¬ Lemmas.WriteSetInv.Covers v L w.1 i) (h2 : ¬ IsFat2Block v w.1) : w.2.getD i 0 = (d.get w.1).getD i 0 :=
  Lemmas.VolX.Lic.licensed1_frame h hn h2

/-! ### Histories -/

/-- **`others_intact_history_M_partial`** (TARGET: the same with no restriction `hf`).  NO `Mirror`.  A covered history
under any schedule from `VolInvLE` (lost chains allowed), device failures falling in calls of `classM` only.  There is a list
`Ls` of licences, one per call, each a licence `LicenceFor` describes for its call in the state that call is issued in (which
satisfies `VolInvL`), such that after EVERY prefix `k`: every object of the start medium — slot at byte `so` of block `sb`,
chain `cs` from cluster `c` (read through FAT copy 1, as `Chain` does) — that none of the first `k` licences names has the
same 32 slot bytes, is still the chain of `c` read through copy 1, and holds the same bytes. -/
theorem others_intact_history_M_partial (ops : List Op) {s : Mgr} {gh : Ghost} {X : List (List Nat)} (hI : VolInvLE s gh X)
    (hc : CoveredRun s ops) (hf : FailsOnlyIn classM s ops) :
    ∃ Ls : List Licence, Ls.length = ops.length ∧
      (∀ L, L ∈ Ls → ∃ k op gh' X', ops[k]? = some op ∧ VolInvL (run s (ops.take k)).1 gh' X' ∧ SameGeom gh.vol gh'.vol ∧
        LicenceFor gh' (run s (ops.take k)).1.files (run s (ops.take k)).1.dirs (run s (ops.take k)).1.dev.disk op L) ∧
      ∀ (k sb so c : Nat) (cs : List Nat), Chain gh.vol s.dev.disk c cs →
        (regionOf gh.vol sb = .root ∨ regionOf gh.vol sb = .data) → so % 32 = 0 →
        (∀ L, L ∈ Ls.take k → NotNamed gh.vol L sb so cs) →
        slice ((run s (ops.take k)).1.dev.disk.get sb) so 32 = slice (s.dev.disk.get sb) so 32 ∧
        Chain gh.vol (run s (ops.take k)).1.dev.disk c cs ∧
        chainBytes gh.vol (run s (ops.take k)).1.dev.disk cs = chainBytes gh.vol s.dev.disk cs := by
  obtain ⟨Ls, hR, _⟩ := Lemmas.VolX.Lic.runLic1_of gh.vol ops (invFE_iff.2 ⟨gh, X, hI, SameGeom.refl _⟩) (SameGeom.refl _)
    ((C11Hist.coveredRun_iff ops s).1 hc) ((failsOnlyIn_iff ops s).1 hf)
  refine ⟨Ls, Lemmas.VolX.Lic.runLic1_length hR, fun L hL => ?_, ?_⟩
  · obtain ⟨k, op, gh', X', h1, h2, h3, h4⟩ := Lemmas.VolX.Lic.runLic1_nth hR L hL
    exact ⟨k, op, gh', X', h1, Lemmas.FaultX.volInvL_iff.2 h2, h3, h4⟩
  · intro k sb so c cs hch hreg hso hnn
    exact Lemmas.VolX.Lic.unnamed_unchanged_1 hI.inv.med.geom (Lemmas.VolX.Lic.runLic1_take hR k) hI.inv.med.blocksOK
      sb so c cs hch hreg hso hnn

/-- **`medium_mounts_history_M_partial`** (same hypotheses; NO `Mirror`).  If the start medium mounts (partition `idx`) to a
record with the geometry of the volume, so does the medium after every prefix. -/
theorem medium_mounts_history_M_partial (ops : List Op) {s : Mgr} {gh : Ghost} {X : List (List Nat)} (hI : VolInvLE s gh X)
    (hc : CoveredRun s ops) (hf : FailsOnlyIn classM s ops) (k : Nat) (idx : Nat) (vm : FatVolume)
    (hmt : mountPure (s.dev.disk.get 0) idx s.dev.disk.get = .ok vm) (hsg : SameGeom vm gh.vol) :
    ∃ w, mountPure ((run s (ops.take k)).1.dev.disk.get 0) idx (run s (ops.take k)).1.dev.disk.get = .ok w ∧
      SameGeom gh.vol w := by
  obtain ⟨Ls, hR, _⟩ := Lemmas.VolX.Lic.runLic1_of gh.vol ops (invFE_iff.2 ⟨gh, X, hI, SameGeom.refl _⟩) (SameGeom.refl _)
    ((C11Hist.coveredRun_iff ops s).1 hc) ((failsOnlyIn_iff ops s).1 hf)
  exact Lemmas.VolX.Lic.runLic1_mounts hI.inv.med.geom (Lemmas.VolX.Lic.runLic1_take hR k) hI.inv.med.blocksOK idx vm hmt hsg

/-! ### Non-vacuity; the FAT copies really come to differ, and a fault-free call then changes copy 2 beyond its licence -/

namespace Example
open Sdmmc.Lemmas.VolExample Sdmmc.Lemmas.VolCheck
open Sdmmc.Lemmas.FaultHist (checkFaultInv checkFaultInv_sound)
open Sdmmc.Props.C11Hist.Example (nameA isDeviceError)
open Sdmmc.Props.C11HistB.Example (ok_A ok_D ok_F)

/-- On the example volume with `E.DAT` open and modified (`mgr0`): `delete A.TXT` — device call 4, the write of FAT COPY 2
after copy 1 (cluster 2 terminated), FAILS: the copies differ from here on —; `write` to `E.DAT`; `close_file` of it — its
entry write (device call 8) FAILS —; create `F`; `make_dir_in_dir D` (fault-free). -/
def opsM : List Op :=
  [.delete 2 nameA, .write 4 [9, 9, 9], .closeFile 4, .openFile 2 [70] .ReadWriteCreate, .mkdir 2 [68]]
def schedM : List Nat := [4, 8]
/-- The state after the first `k` calls. -/
def sM (k : Nat) : Mgr := (run (withFaults schedM mgr0) (opsM.take k)).1

theorem opsM_covered : CoveredRun (withFaults schedM mgr0) opsM := ⟨ok_A, trivial, trivial, ok_F, ok_D, trivial⟩

/-- The two failures fall in `delete` and `close_file` (both `classM`); `write` and `make_dir_in_dir` run fault-free. -/
theorem opsM_failures :
    (List.range 5).map (fun k => (classM (opsM.getD k .hasOpen),
      decide ((step (sM k) (opsM.getD k .hasOpen)).1.dev.failed ≠ (sM k).dev.failed))) =
    [(true, true), (false, false), (true, true), (true, false), (false, false)] := by decide +kernel

theorem opsM_classM : FailsOnlyIn classM (withFaults schedM mgr0) opsM :=
  ⟨fun _ => rfl, fun h => absurd (by decide +kernel) h, fun _ => rfl, fun _ => rfl, fun h => absurd (by decide +kernel) h, trivial⟩

/-- The theorems at this history. -/
theorem opsM_others_intact :
    ∃ Ls : List Licence, Ls.length = 5 ∧
      ∀ (k sb so c : Nat) (cs : List Nat), Chain vol16 mgr0.dev.disk c cs →
        (regionOf vol16 sb = .root ∨ regionOf vol16 sb = .data) → so % 32 = 0 →
        (∀ L, L ∈ Ls.take k → NotNamed vol16 L sb so cs) →
        slice ((sM k).dev.disk.get sb) so 32 = slice (mgr0.dev.disk.get sb) so 32 ∧
        Chain vol16 (sM k).dev.disk c cs ∧ chainBytes vol16 (sM k).dev.disk cs = chainBytes vol16 mgr0.dev.disk cs :=
  let ⟨Ls, h1, _, h3⟩ := others_intact_history_M_partial opsM (C11HistT.Example.mgr0_volInvLE schedM) opsM_covered opsM_classM
  ⟨Ls, h1, h3⟩

/-- **The FAT copies differ** after the failed `delete` (entry of cluster 2: end-of-chain in copy 1, still `3` in copy 2) —
and the fault-free `make_dir_in_dir` at the end, whose licence names the FAT entry of the NEW cluster 8 only, writes the whole
sector of copy 1 to copy 2: the entry of cluster 2 in COPY 2 changes under it.  (Why clause (a) of `Licensed` cannot be kept
for copy 2 once the copies differ, and `Licensed1` leaves copy 2 alone.) -/
theorem copy2_changes_beyond_the_licence :
    (List.range 6).map (fun k =>
      (rawFatEntry .fat16 ((sM k).dev.disk.get 1) 4, rawFatEntry .fat16 ((sM k).dev.disk.get 2) 4,
       (sM k).dev.disk.get 1 == (sM k).dev.disk.get 2)) =
    [(3, 3, true), (65535, 3, false), (65535, 3, false), (65535, 3, false), (65535, 3, false), (65535, 65535, true)] := by
  decide +kernel

/-- What the theorem says, evaluated for two objects no call of the history names — the sub-directory `SUB` (chain `[4]`)
and `B.BIN` in it (chain `[5]`): the same bytes after every prefix.  And the state at the end: `VolInvL` with the chains of
`SUB`, `B.BIN`, the new directory `D`, and three lost chains (`A.TXT`'s two clusters, `E.DAT`'s cluster). -/
theorem opsM_evaluated :
    (List.range 6).map (fun k => (chainBytes vol16 (sM k).dev.disk [5] == chainBytes vol16 mgr0.dev.disk [5],
      chainBytes vol16 (sM k).dev.disk [4] == chainBytes vol16 mgr0.dev.disk [4])) = List.replicate 6 (true, true) ∧
    checkFaultInv (sM 5) { vol := ((sM 5).vols.headD default).vol, G := [[4], [5], [8]], dirs := [(4, 0), (8, 0)] }
      [[2], [3], [6]] 512 = true := by decide +kernel

end Example

end Sdmmc.Props.C11HistM
