/-
C01, tie to the source text, wrapper level: the `File` wrapper (filesystem/files.rs) — its inherent methods, and
`impl embedded_io::{Read, Write, Seek} for File` — and `impl embedded_io::Error for Error` (lib.rs),
machine-translated by tools/translate_wrap.py into `Sdmmc.Gen.FunsWrap` ON TOP OF the machine translation of the
manager (`Sdmmc.Gen.FunsMgr`), are the hand-written `Model/Wrap.lean` (`File.ioRead`, `File.ioWrite`,
`File.ioFlush`, `File.ioSeek`, `File.read`, ..), which `Props/C01Io.lean` relates to the byte-array model.

What the translation has to get right here, and the theorem that pins it:
* **which `read` / `write` / `flush` a call means.**  Calls are resolved as rustc resolves them (receiver type,
  then what it dereferences to; by value, `&`, `&mut`; inherent before trait).  In `impl Read for File`
  (`self : &mut File`), `File::read(self, buf)` is the inherent method: `io_read_nonempty`.  The form it had before
  c0d40aa, `self.read(buf)`, resolves to the trait method itself; the translator refuses it (`unbounded recursion:
  <impl Read for File>::read calls itself`), so no definition and none of the theorems below exist for that text.
* **the zero-length short-cuts**: `io_read_empty`, `io_write_empty` (no call at all: no `LockError`, no `BadHandle`).
* **the integer conversions of `seek`** (`u64 → u32`, `i64::checked_neg`, `i64 → u32`, `i64::from(u32)`,
  `checked_add`, `u32 → u64`), each refusal mapped to `InvalidOffset`, and the ORDER (conversion before the call for
  `Start` / `End`; the raw `file_offset` first for `Current`): `io_seek_eq`, an equality of functions for every
  argument, in range or not.
* **the error mapping** `Error::kind`: `kind_*`.

The encoding map is `toModel : FunsWrap.SeekFrom → Wrap.SeekFrom` (constructor by constructor); a buffer is its
list of bytes; `Read::read` returns the count AND the buffer (`outRead` of `Props/C01GenRead.lean`: the bytes read,
then the rest of the buffer untouched), the model returns the bytes.

`read` / `write` inherit the hypotheses and the form of the manager-level theorems they rest on
(`Props/C01GenRead.lean`, `Props/C01GenWrite.lean`): `fuel` above the buffer length, `u32` file sizes, 512-byte
blocks, and `PEq` = the same outcome, and the same state unless the outcome is a panic / exhausted fuel.  `flush`
inherits `FlushOK` from `Props/C02GenM.lean` (otherwise both sides panic, with different texts).  With the
manager borrowed (`s.locked`), no hypothesis is needed: both sides are `LockError`.

Proofs: `Sdmmc.Lemmas.GenWrap`, `Sdmmc.Lemmas.GenWrapIo`.
-/
import Sdmmc.Lemmas.GenWrapIo
import Sdmmc.Props.C01Read

namespace Sdmmc.Props.C01GenIo

open Sdmmc Sdmmc.Model Sdmmc.Gen Sdmmc.Lemmas.GenMgrIO
open Sdmmc.Lemmas.FatOps (BlocksOK)
open Sdmmc.Lemmas.GenWrap (toModel FlushOK)
open Sdmmc.Props.C01GenRead (outRead)

/-! ### The inherent methods of `File` -/

/-- `File::is_eof` = `file_eof(..).expect("Corrupt file ID")`. -/
theorem is_eof_eq (f : Nat) : FunsWrap.File_is_eof f = Wrap.File.isEof f := Lemmas.GenWrapIo.is_eof_eq f
/-- `File::length`. -/
theorem length_eq (f : Nat) : FunsWrap.File_length f = Wrap.File.length f := Lemmas.GenWrapIo.length_eq f
/-- `File::offset`. -/
theorem offset_eq (f : Nat) : FunsWrap.File_offset f = Wrap.File.offset f := Lemmas.GenWrapIo.offset_eq f
/-- `File::seek_from_start`. -/
theorem seek_from_start_eq (f n : Nat) : FunsWrap.File_seek_from_start f n = Wrap.File.seekFromStart f n :=
  Lemmas.GenWrapIo.seek_from_start_eq f n
/-- `File::seek_from_end`. -/
theorem seek_from_end_eq (f n : Nat) : FunsWrap.File_seek_from_end f n = Wrap.File.seekFromEnd f n :=
  Lemmas.GenWrapIo.seek_from_end_eq f n
/-- `File::seek_from_current`, for tables whose files have `u32` sizes. -/
theorem seek_from_current_eq (f : Nat) (x : Int) (s : Mgr) (hsz : ∀ f ∈ s.files, f.entry.size < 4294967296) :
    FunsWrap.File_seek_from_current f x s = Wrap.File.seekFromCurrent f x s :=
  Lemmas.GenWrapIo.seek_from_current_eq f x s hsz
/-- `File::flush`. -/
theorem flush_eq (f : Nat) (s : Mgr) (hok : FlushOK s) : FunsWrap.File_flush f s = Wrap.File.flush f s :=
  Lemmas.GenWrapIo.flush_eq f s hok
/-- `File::read(buffer)`: the model's `read` with the buffer's length, the count and the buffer given back. -/
theorem read_eq (fuel f : Nat) (buf : List UInt8) (s : Mgr)
    (hfuel : buf.length < fuel) (hsz : ∀ f ∈ s.files, f.entry.size < 4294967296)
    (hbk : BlocksOK s.dev.disk) (hbl : s.cache.blk.length = 512) :
    PEq (FunsWrap.File_read fuel f buf s) (outRead buf (Wrap.File.read f buf.length s)) :=
  Lemmas.GenWrapIo.read_eq fuel f buf s hfuel hsz hbk hbl
/-- `File::write(buffer)`. -/
theorem write_eq (fuel f : Nat) (buf : List UInt8) (s : Mgr) (hfuel : buf.length < fuel) :
    PEq (FunsWrap.File_write fuel f buf s) (Wrap.File.write f buf s) :=
  Lemmas.GenWrapIo.write_eq fuel f buf s hfuel

/-! ### `embedded_io::Read` -/

/-- An empty buffer: `Ok(0)`, whatever the handle and the state; the manager is not called. -/
theorem io_read_empty (fuel f : Nat) (s : Mgr) : FunsWrap.File_Read_read fuel f [] s = (.ok (0, []), s) :=
  Lemmas.GenWrapIo.io_read_empty fuel f s

/-- Otherwise the trait method IS the inherent method (`File::read(self, buf)`). -/
theorem io_read_nonempty (fuel f : Nat) (buf : List UInt8) (h : buf ≠ []) :
    FunsWrap.File_Read_read fuel f buf = FunsWrap.File_read fuel f buf :=
  Lemmas.GenWrapIo.io_read_nonempty fuel f buf h

/-- `Read::read` is the model's `ioRead`. -/
theorem io_read_eq (fuel f : Nat) (buf : List UInt8) (s : Mgr)
    (hfuel : buf.length < fuel) (hsz : ∀ f ∈ s.files, f.entry.size < 4294967296)
    (hbk : BlocksOK s.dev.disk) (hbl : s.cache.blk.length = 512) :
    PEq (FunsWrap.File_Read_read fuel f buf s) (outRead buf (Wrap.File.ioRead f buf.length s)) :=
  Lemmas.GenWrapIo.io_read_eq fuel f buf s hfuel hsz hbk hbl

/-! ### `embedded_io::Write` -/

/-- An empty buffer: `Ok(0)` and no call (the raw `write` of nothing is NOT a no-op, see `Props/C01Io.lean`). -/
theorem io_write_empty (fuel f : Nat) (s : Mgr) : FunsWrap.File_Write_write fuel f [] s = (.ok 0, s) :=
  Lemmas.GenWrapIo.io_write_empty fuel f s

/-- `Write::write` is the model's `ioWrite`: the inherent `write`, then `Ok(buf.len())`. -/
theorem io_write_eq (fuel f : Nat) (buf : List UInt8) (s : Mgr) (hfuel : buf.length < fuel) :
    PEq (FunsWrap.File_Write_write fuel f buf s) (Wrap.File.ioWrite f buf s) :=
  Lemmas.GenWrapIo.io_write_eq fuel f buf s hfuel

/-- `Write::flush` (`Self::flush(self)`: the inherent `flush`, not itself) is the model's `ioFlush`. -/
theorem io_flush_eq (f : Nat) (s : Mgr) (hok : FlushOK s) : FunsWrap.File_Write_flush f s = Wrap.File.ioFlush f s :=
  Lemmas.GenWrapIo.io_flush_eq f s hok

/-! ### `embedded_io::Seek` -/

/-- `Seek::seek` is the model's `ioSeek`, as a function, for every argument (no range hypothesis: the conversions
are the same functions of the integers). -/
theorem io_seek_eq (f : Nat) (pos : FunsWrap.SeekFrom) :
    FunsWrap.File_Seek_seek f pos = Wrap.File.ioSeek f (toModel pos) :=
  Lemmas.GenWrapIo.io_seek_eq f pos

/-! ### `embedded_io::Error for Error` -/

open FunsWrap (ErrorKind Error_Error_kind)

/-- `kind` only ever answers one of eight kinds. -/
theorem kind_range (e : Err) : Error_Error_kind e ∈ [ErrorKind.Other, .InvalidInput, .OutOfMemory, .NotFound,
    .InvalidData, .Unsupported, .PermissionDenied, .AlreadyExists] := by
  cases e <;> simp [Error_Error_kind]

theorem kind_notFound_iff (e : Err) : Error_Error_kind e = .NotFound ↔ e = .NotFound := by
  cases e <;> simp [Error_Error_kind]
theorem kind_permissionDenied_iff (e : Err) : Error_Error_kind e = .PermissionDenied ↔ e = .ReadOnly := by
  cases e <;> simp [Error_Error_kind]
theorem kind_alreadyExists_iff (e : Err) :
    Error_Error_kind e = .AlreadyExists ↔ e = .FileAlreadyExists ∨ e = .DirAlreadyExists := by
  cases e <;> simp [Error_Error_kind]
theorem kind_outOfMemory_iff (e : Err) :
    Error_Error_kind e = .OutOfMemory ↔ e = .TooManyOpenVolumes ∨ e = .TooManyOpenDirs ∨ e = .TooManyOpenFiles := by
  cases e <;> simp [Error_Error_kind]
theorem kind_unsupported_iff (e : Err) :
    Error_Error_kind e = .Unsupported ↔ e = .Unsupported ∨ ∃ n, e = .BadBlockSize n := by
  cases e <;> simp [Error_Error_kind]
theorem kind_invalidInput_iff (e : Err) :
    Error_Error_kind e = .InvalidInput ↔
      e = .NoSuchVolume ∨ (∃ x, e = .FilenameError x) ∨ e = .BadHandle ∨ e = .InvalidOffset := by
  cases e <;> simp [Error_Error_kind]
theorem kind_invalidData_iff (e : Err) :
    Error_Error_kind e = .InvalidData ↔
      e = .OpenedDirAsFile ∨ e = .OpenedFileAsDir ∨ e = .DeleteDirAsFile ∨ e = .BadCluster ∨ e = .ConversionError ∨
      e = .UnterminatedFatChain := by
  cases e <;> simp [Error_Error_kind]
/-- What the wrappers themselves produce: `LockError` is `Other`, `InvalidOffset` is `InvalidInput`. -/
theorem kind_of_wrapper_errors :
    Error_Error_kind .LockError = .Other ∧ Error_Error_kind .InvalidOffset = .InvalidInput ∧
    Error_Error_kind .BadHandle = .InvalidInput ∧ Error_Error_kind .DeviceError = .Other :=
  ⟨rfl, rfl, rfl, rfl⟩

/-! ### Evaluated examples -/

namespace Example
open Sdmmc.Props.C01Read.Example

/-- The hypotheses are satisfiable: the example manager of `Props/C01Read.lean` (file 1: 1300 bytes at offset 1000,
file 2: 10 bytes at offset 0). -/
example : mgr.locked = false ∧ FlushOK mgr ∧ (∀ f ∈ mgr.files, f.entry.size < 4294967296) ∧
    mgr.cache.blk.length = 512 := by
  refine ⟨rfl, ?_, ?_, by decide +kernel⟩
  · unfold FlushOK; decide
  · decide

/-- The TRANSLATION computes: `Current(-300)` from 1000 is `Ok(700)` and moves slot 0 only; `End(-300)` is 1000;
`End(1)`, `Start(1301)`, `End(i64::MIN)`, `Current(i64::MAX)`, `Start(u64::MAX)` are `InvalidOffset`. -/
example : (FunsWrap.File_Seek_seek 1 (.Current (-300)) mgr).1 = .ok 700 ∧
    (FunsWrap.File_Seek_seek 1 (.Current (-300)) mgr).2.files.map (·.currentOffset) = [700, 0] ∧
    (FunsWrap.File_Seek_seek 1 (.End (-300)) mgr).1 = .ok 1000 ∧
    (FunsWrap.File_Seek_seek 1 (.End 1) mgr).1 = .err .InvalidOffset ∧
    (FunsWrap.File_Seek_seek 1 (.Start 1301) mgr).1 = .err .InvalidOffset ∧
    (FunsWrap.File_Seek_seek 1 (.End (-9223372036854775808)) mgr).1 = .err .InvalidOffset ∧
    (FunsWrap.File_Seek_seek 1 (.Current 9223372036854775807) mgr).1 = .err .InvalidOffset ∧
    (FunsWrap.File_Seek_seek 1 (.Start 18446744073709551615) mgr).1 = .err .InvalidOffset := by
  refine ⟨?_, ?_, ?_, ?_, ?_, ?_, ?_, ?_⟩ <;> decide +kernel

/-- Order of refusals on a handle that is not open: the conversion of `Start` / `End` comes first, `Current` looks
at the file first. -/
example : (FunsWrap.File_Seek_seek 9 (.Start 4294967296) mgr).1 = .err .InvalidOffset ∧
    (FunsWrap.File_Seek_seek 9 (.Start 42) mgr).1 = .err .BadHandle ∧
    (FunsWrap.File_Seek_seek 9 (.Current 9223372036854775807) mgr).1 = .err .BadHandle := by
  refine ⟨?_, ?_, ?_⟩ <;> decide +kernel

/-- With the manager borrowed: `Start(2^32)` is still `InvalidOffset`, `Start(0)` is `LockError`; the empty read
and write are `Ok(0)`; a one-byte read is `LockError`. -/
example : (FunsWrap.File_Seek_seek 1 (.Start 4294967296) { mgr with locked := true }).1 = .err .InvalidOffset ∧
    (FunsWrap.File_Seek_seek 1 (.Start 0) { mgr with locked := true }).1 = .err .LockError ∧
    (FunsWrap.File_Read_read 5 1 [] { mgr with locked := true }).1 = .ok (0, []) ∧
    (FunsWrap.File_Write_write 5 1 [] { mgr with locked := true }).1 = .ok 0 ∧
    (FunsWrap.File_Read_read 5 1 [0] { mgr with locked := true }).1 = .err .LockError := by
  refine ⟨?_, ?_, ?_, ?_, ?_⟩ <;> decide +kernel

/-- A four-byte read through the trait at offset 1000 of file 1: the count is 4, the buffer comes back filled, and
it is what the model's `ioRead` gives. -/
example : (match (FunsWrap.File_Read_read 10 1 [0, 0, 0, 0] mgr).1 with | .ok (n, _) => n | _ => 0) = 4 ∧
    (FunsWrap.File_Read_read 10 1 [0, 0, 0, 0] mgr).1 = (outRead [0, 0, 0, 0] (Wrap.File.ioRead 1 4 mgr)).1 := by
  refine ⟨?_, ?_⟩ <;> decide +kernel

end Example

end Sdmmc.Props.C01GenIo
