/-
C10 clause 5 at API level — evaluated examples / non-vacuity of `Props/C10Init.lean` (tests, labelled as tests).

The medium is the hand-built FAT16 volume `Lemmas.VolExample.mgr1` (20 clusters of one block, two FAT copies; root
directory with `A.TXT` and `SUB`; `SUB` = cluster 4 = block 6; clusters 6 and 8 … 21 free = blocks 8 and 10 … 23) with
EVERY block of EVERY free cluster filled with sixteen plausible stale entries `STALE.TXT` (cluster 9, 4321 bytes) — what
the harness's `dirty_fill` leaves (`dirtyDisk`).  The handles of `mgr1` (2: root, 3: `SUB`) are kept.

* `dirtyDisk_dirtyOf`, `mgrD_invCX`: the dirty medium is `DirtyOf` the clean one, hence `VolInvCX` holds for it by
  `invariant_ignores_free_clusters` (no evaluation of the invariant on the dirty medium is needed).
* `mkdir_on_dirty_medium` (TEST): `make_dir_in_dir(SUB, "D")` writes blocks 1, 2 (FAT), 8 (the dot block), 6 (`SUB`).
  Cluster 6 is an `InitCluster` exactly from crash point 3 on (before, block 8 still holds the stale entries — but no
  directory contains cluster 6: `SUB` names `D` only at crash point 4).  Through the API, on the medium of crash point
  4: `SUB` lists `D`, and `D` lists `.` and `..` and NOTHING else.
* `create_grows_on_dirty_medium` (TEST): `SUB` full (16 entries, `subFull`); `open_file_in_dir(SUB, "N", create)` writes
  blocks 8 (blank), 1, 2 (cluster 6 marked), 1, 2 (4 → 6), 8 (the entry).  Cluster 6 is blank BEFORE it is marked and
  stays an `InitCluster`; `SUB` reaches it at crash point 4; what `SUB` lists beyond its first 16 entries: nothing, and
  at the end `N`.
* `stale_entries_would_show` (TEST, the excluded point): had the FAT writes come first (blocks 1, 2, 1, 2 written, block
  8 not yet blanked), `SUB` would list the sixteen `STALE.TXT` of the old contents of cluster 6 — this is what clause 5
  excludes, and `InitCluster` fails there.
* `clause5_mkdir_instance`, `clause5_growth_instance`: the theorem applied at those crash points.
-/
import Sdmmc.Props.C10Init
import Sdmmc.Lemmas.VolExample
import Sdmmc.Props.C03All

namespace Sdmmc.Props.C10Init.Example
open Sdmmc.Model Sdmmc.Model.Fat Sdmmc.Spec.Volume
open Sdmmc.Spec hiding run step NoFault Coherent
open Sdmmc.Lemmas.VolExample (mgr1 gh1 vol16 mgr1_inv ent16 nB nE)
open Sdmmc.Lemmas.VolCrashD (onDisk)

/-! ### The dirty medium -/

/-- "STALE   TXT" -/
def nStale : Bytes := [83, 84, 65, 76, 69, 32, 32, 32, 84, 88, 84]

/-- A block full of plausible stale entries: sixteen times `STALE.TXT`, cluster 9, 4321 bytes. -/
def staleBlk : Block := (List.replicate 16 (ent16 nStale 0x20 9 4321)).flatten

/-- The blocks of the free clusters 6, 8 … 21 (cluster 7 is marked bad). -/
def freeBlocks : List Nat := 8 :: (List.range 14).map (· + 10)

def dirtyDisk : Disk := freeBlocks.foldl (fun d b => d.set b staleBlk) mgr1.dev.disk

def mgrD : Mgr := onDisk mgr1 dirtyDisk

theorem mirror1 : Mirror vol16 mgr1.dev.disk := by
  have hf : ∀ c, c < endCluster vol16 → fatBlock vol16 c = 1 ∧ fatBlock2 vol16 c = some 2 := by decide +kernel
  intro c hc b2 hb
  rw [(hf c hc).2] at hb
  cases hb
  rw [(hf c hc).1]
  decide +kernel

theorem mgr1_invCX : VolInvCX mgr1 gh1 := C10InvX.volInvCX_of_quiescent mgr1_inv mirror1 rfl

/-- The dirty medium differs from the clean one only inside clusters that are not in use. -/
theorem dirtyDisk_dirtyOf : DirtyOf vol16 mgr1.dev.disk dirtyDisk := by
  refine Lemmas.VolCrashD.dirtyOf_fill mgr1_inv.med.blocksOK staleBlk (by decide +kernel) freeBlocks fun b hb => ?_
  have h : ∀ b, b ∈ freeBlocks →
      InRange vol16 (b - 2) ∧ ¬ isUsed vol16 mgr1.dev.disk (b - 2) ∧ b = clusterToBlock vol16 (b - 2) + 0 := by
    decide +kernel
  obtain ⟨h1, h2, h3⟩ := h b hb
  exact ⟨b - 2, 0, h1, h2, by decide, h3⟩

/-- **`VolInvCX` on the dirty medium**, by `invariant_ignores_free_clusters`. -/
theorem mgrD_invCX : VolInvCX mgrD gh1 :=
  invariant_ignores_free_clusters mgr1 gh1 mgr1_invCX dirtyDisk dirtyDisk_dirtyOf fun i hi => by cases hi

/-- Evaluated (TEST): every block of every free cluster of the dirty medium holds the sixteen stale entries, and the
first of them is a live entry name (not `0`, not `0xE5`). -/
theorem free_clusters_are_dirty :
    freeBlocks = [8, 10, 11, 12, 13, 14, 15, 16, 17, 18, 19, 20, 21, 22, 23] ∧
    (freeBlocks.all fun b => decide (dirtyDisk.get b = staleBlk)) = true ∧ byteAt staleBlk 0 = 83 := by
  decide +kernel

/-! ### Checking `InitCluster`, showing answers -/

def initB (v : FatVolume) (d : Disk) (c : Nat) : Bool :=
  ((List.range (d.get (clusterToBlock v c)).length).all fun i => decide (64 ≤ i → byteAt (d.get (clusterToBlock v c)) i = 0)) &&
  (List.range v.blocksPerCluster).all fun j => decide (0 < j → d.get (clusterToBlock v c + j) = zeroBlock)

theorem initB_iff (v : FatVolume) (d : Disk) (c : Nat) : initB v d c = true ↔ InitCluster v d c := by
  unfold initB InitCluster
  rw [Bool.and_eq_true, List.all_eq_true, List.all_eq_true]
  constructor
  · rintro ⟨h1, h2⟩
    refine ⟨fun i hi => ?_, fun j h0 hj => of_decide_eq_true (h2 j (List.mem_range.2 hj)) h0⟩
    by_cases hl : i < (d.get (clusterToBlock v c)).length
    · exact of_decide_eq_true (h1 i (List.mem_range.2 hl)) hi
    · unfold byteAt
      rw [List.getD_eq_getElem?_getD, List.getElem?_eq_none (by omega)]
      rfl
  · rintro ⟨h1, h2⟩
    exact ⟨fun i _ => decide_eq_true fun hi => h1 i hi, fun j hj => decide_eq_true fun h0 => h2 j h0 (List.mem_range.1 hj)⟩

/-- An answer, for display: a handle `[[n]]`; listed entries as `name bytes ++ [size, cluster]`; an error shows as
`none`. -/
def brief : Res Payload → Option (List (List Nat))
  | .ok (.handle h) => some [[h]]
  | .ok (.entries es) => some (es.map fun e => e.name.map (·.toNat) ++ [e.size, e.cluster])
  | .ok .unit => some []
  | _ => none

/-- What the calls `ops` answer on the medium `d` (the tables of `mgr1`: handle 2 is the root, 3 is `SUB`). -/
def seen (d : Disk) (ops : List Op) : List (Option (List (List Nat))) :=
  (run (onDisk mgr1 d) ops).2.map fun o => brief o.result

def lDot (cluster : Nat) : List Nat := [46, 32, 32, 32, 32, 32, 32, 32, 32, 32, 32, 0, cluster]
def lDotDot (cluster : Nat) : List Nat := [46, 46, 32, 32, 32, 32, 32, 32, 32, 32, 32, 0, cluster]
def lD : List Nat := [68, 32, 32, 32, 32, 32, 32, 32, 32, 32, 32, 0, 6]
def lN : List Nat := [78, 32, 32, 32, 32, 32, 32, 32, 32, 32, 32, 0, 0]
def lStale : List Nat := [83, 84, 65, 76, 69, 32, 32, 32, 84, 88, 84, 4321, 9]

/-! ### `make_dir` on the dirty medium -/

def opMk : Op := .mkdir 3 [68]
def wsD : List (Nat × Block) := (step mgrD opMk).2.writes

/-- Evaluated (TEST), see the header. -/
theorem mkdir_on_dirty_medium :
    wsD.map (·.1) = [1, 2, 8, 6] ∧
    (List.range 5).map (fun k => fatEntry vol16 (crashDisk dirtyDisk wsD k) 6) = [0, 65535, 65535, 65535, 65535] ∧
    (List.range 5).map (fun k => initB vol16 (crashDisk dirtyDisk wsD k) 6) = [false, false, false, true, true] ∧
    (List.range 4).map (fun k => (seen (crashDisk dirtyDisk wsD k) [.openDir 3 [68]])) = List.replicate 4 [none] ∧
    (seen (crashDisk dirtyDisk wsD 4) [.list 3, .openDir 3 [68], .list 10]).map (Option.map fun l => l.drop 4) =
      [some [lD], some [], some []] ∧
    seen (crashDisk dirtyDisk wsD 4) [.openDir 3 [68], .list 10] = [some [[10]], some [lDot 6, lDotDot 4]] := by
  decide +kernel

theorem mkdir_cluster_initialised : InitCluster vol16 (crashDisk dirtyDisk wsD 4) 6 :=
  (initB_iff _ _ _).1 (by decide +kernel)

/-- `crash_dir_clusters_initialised` applied to the dirty medium, crash point 4 of `make_dir_in_dir(SUB, "D")`. -/
theorem clause5_mkdir_instance :
    ∃ gh' X', CrashInvX vol16 (crashDisk mgrD.dev.disk (step mgrD opMk).2.writes 4) gh' X' ∧
      ∀ h, h ∈ dirIds gh'.dirs → ∀ c, c ∈ dirClusters vol16 gh'.G h →
        isUsed vol16 mgrD.dev.disk c ∨ InitCluster vol16 (crashDisk mgrD.dev.disk (step mgrD opMk).2.writes 4) c :=
  crash_dir_clusters_initialised mgrD opMk gh1 mgrD_invCX (C03All.name_ok_all _) 4

/-! ### A directory grows on the dirty medium -/

def nFill (i : Nat) : Bytes := [70, UInt8.ofNat (65 + i), 32, 32, 32, 32, 32, 32, 32, 32, 32]

/-- `SUB` full: `.`, `..`, `B.BIN`, `E.DAT` and twelve empty files `FA` … `FL`. -/
def subFull : Block :=
  ent16 Sfn.thisDir 0x10 4 0 ++ ent16 Sfn.parentDir 0x10 0 0 ++ ent16 nB 0x20 5 100 ++ ent16 nE 0x20 0 0 ++
    ((List.range 12).map fun i => ent16 (nFill i) 0x20 0 0).flatten

def cleanFull : Disk := mgr1.dev.disk.set 6 subFull
def fullDisk : Disk := freeBlocks.foldl (fun d b => d.set b staleBlk) cleanFull
def mgrC : Mgr := onDisk mgr1 cleanFull
def mgrF : Mgr := onDisk mgrC fullDisk

theorem mgrC_inv : VolInv mgrC gh1 := Lemmas.VolCheck.checkVolInv_sound mgrC gh1 (by decide +kernel)

theorem mirrorC : Mirror vol16 mgrC.dev.disk := by
  have hf : ∀ c, c < endCluster vol16 → fatBlock vol16 c = 1 ∧ fatBlock2 vol16 c = some 2 := by decide +kernel
  intro c hc b2 hb
  rw [(hf c hc).2] at hb
  cases hb
  rw [(hf c hc).1]
  decide +kernel

theorem fullDisk_dirtyOf : DirtyOf vol16 mgrC.dev.disk fullDisk := by
  refine Lemmas.VolCrashD.dirtyOf_fill mgrC_inv.med.blocksOK staleBlk (by decide +kernel) freeBlocks fun b hb => ?_
  have h : ∀ b, b ∈ freeBlocks →
      InRange vol16 (b - 2) ∧ ¬ isUsed vol16 mgrC.dev.disk (b - 2) ∧ b = clusterToBlock vol16 (b - 2) + 0 := by
    decide +kernel
  obtain ⟨h1, h2, h3⟩ := h b hb
  exact ⟨b - 2, 0, h1, h2, by decide, h3⟩

theorem mgrF_invCX : VolInvCX mgrF gh1 :=
  invariant_ignores_free_clusters mgrC gh1 (C10InvX.volInvCX_of_quiescent mgrC_inv mirrorC rfl) fullDisk fullDisk_dirtyOf
    fun i hi => by cases hi

def opN : Op := .openFile 3 [78] .ReadWriteCreate
def wsF : List (Nat × Block) := (step mgrF opN).2.writes

/-- Evaluated (TEST), see the header: per crash point the FAT entries of clusters 4 and 6, whether cluster 6 is an
`InitCluster`, and what `SUB` lists beyond its first 16 entries. -/
theorem create_grows_on_dirty_medium :
    wsF.map (·.1) = [8, 1, 2, 1, 2, 8] ∧ brief (step mgrF opN).2.result = some [[10]] ∧
    (List.range 7).map (fun k => (fatEntry vol16 (crashDisk fullDisk wsF k) 4, fatEntry vol16 (crashDisk fullDisk wsF k) 6,
        initB vol16 (crashDisk fullDisk wsF k) 6)) =
      [(65535, 0, false), (65535, 0, true), (65535, 65535, true), (65535, 65535, true), (6, 65535, true), (6, 65535, true),
        (6, 65535, true)] ∧
    (List.range 7).map (fun k => (seen (crashDisk fullDisk wsF k) [.list 3]).map (Option.map fun l => l.drop 16)) =
      [[some []], [some []], [some []], [some []], [some []], [some []], [some [lN]]] := by
  decide +kernel

theorem growth_cluster_initialised :
    InitCluster vol16 (crashDisk fullDisk wsF 4) 6 ∧ InitCluster vol16 (crashDisk fullDisk wsF 6) 6 :=
  ⟨(initB_iff _ _ _).1 (by decide +kernel), (initB_iff _ _ _).1 (by decide +kernel)⟩

/-- The medium the call would leave at a crash had the four FAT writes come BEFORE the blanking of block 8. -/
def badDisk : Disk := crashDisk fullDisk ((wsF.drop 1).take 4) 4

/-- Evaluated (TEST) — the excluded point: on `badDisk` cluster 6 is part of `SUB` (4 → 6), is no `InitCluster`, and `SUB`
lists the sixteen stale entries of its old contents after its own sixteen. -/
theorem stale_entries_would_show :
    fatEntry vol16 badDisk 4 = 6 ∧ initB vol16 badDisk 6 = false ∧
    (seen badDisk [.list 3]).map (Option.map fun l => l.drop 16) = [some (List.replicate 16 lStale)] := by
  decide +kernel

theorem badDisk_not_initialised : ¬ InitCluster vol16 badDisk 6 := fun h => by
  have := (initB_iff _ _ _).2 h
  revert this
  decide +kernel

/-- `crash_dir_clusters_initialised` applied to the dirty medium with the full `SUB`, crash point 4 of the create (4 → 6
written, the entry not yet). -/
theorem clause5_growth_instance :
    ∃ gh' X', CrashInvX vol16 (crashDisk mgrF.dev.disk (step mgrF opN).2.writes 4) gh' X' ∧
      ∀ h, h ∈ dirIds gh'.dirs → ∀ c, c ∈ dirClusters vol16 gh'.G h →
        isUsed vol16 mgrF.dev.disk c ∨ InitCluster vol16 (crashDisk mgrF.dev.disk (step mgrF opN).2.writes 4) c :=
  crash_dir_clusters_initialised mgrF opN gh1 mgrF_invCX (C03All.name_ok_all _) 4

/-- … and with the dirty medium universally quantified (`crash_dir_clusters_initialised_dirty`): from the CLEAN medium
`mgrC`, for `fullDisk`. -/
theorem clause5_dirty_instance :
    ∃ gh' X', CrashInvX vol16 (crashDisk fullDisk (step (onDisk mgrC fullDisk) opN).2.writes 4) gh' X' ∧
      ∀ h, h ∈ dirIds gh'.dirs → ∀ c, c ∈ dirClusters vol16 gh'.G h →
        isUsed vol16 fullDisk c ∨ InitCluster vol16 (crashDisk fullDisk (step (onDisk mgrC fullDisk) opN).2.writes 4) c :=
  crash_dir_clusters_initialised_dirty mgrC opN gh1 (C10InvX.volInvCX_of_quiescent mgrC_inv mirrorC rfl) fullDisk
    fullDisk_dirtyOf (fun i hi => by cases hi) (C03All.name_ok_all _) 4

end Sdmmc.Props.C10Init.Example
